package main

// The world the real consolidation code runs in: controller-runtime's fake client, a FakeClock, the fake cloud
// provider with a generated catalog (offerings: zone x capacity type x price x availability, reserved offerings with
// reservation ids), the real state.Cluster, Provisioner and orchestration Queue. A world is built from a worldSpec,
// which is also the replayable JSON input of a case.

import (
	"context"
	"fmt"
	"sort"
	"time"

	"github.com/awslabs/operatorpkg/status"
	corev1 "k8s.io/api/core/v1"
	"k8s.io/apimachinery/pkg/api/resource"
	policyv1 "k8s.io/api/policy/v1"
	apierrors "k8s.io/apimachinery/pkg/api/errors"
	metav1 "k8s.io/apimachinery/pkg/apis/meta/v1"
	"k8s.io/apimachinery/pkg/util/intstr"
	"k8s.io/apimachinery/pkg/types"
	clock "k8s.io/utils/clock/testing"
	"sigs.k8s.io/controller-runtime/pkg/client"
	"sigs.k8s.io/controller-runtime/pkg/client/interceptor"

	v1 "sigs.k8s.io/karpenter/pkg/apis/v1"
	"sigs.k8s.io/karpenter/pkg/cloudprovider"
	"sigs.k8s.io/karpenter/pkg/cloudprovider/fake"
	"sigs.k8s.io/karpenter/pkg/controllers/disruption"
	"sigs.k8s.io/karpenter/pkg/controllers/dynamicresources/deviceallocation"
	"sigs.k8s.io/karpenter/pkg/controllers/provisioning"
	"sigs.k8s.io/karpenter/pkg/controllers/state"
	"sigs.k8s.io/karpenter/pkg/events"
	"sigs.k8s.io/karpenter/pkg/operator/options"
	"sigs.k8s.io/karpenter/pkg/scheduling"
	"sigs.k8s.io/karpenter/pkg/state/virtualpods"
	"sigs.k8s.io/karpenter/pkg/test"

	"verifharness/kit"
)

const famKey = "verif.io/family"

type offSpec struct {
	CT    string `json:"ct"`
	Zone  string `json:"zone"`
	RID   string `json:"rid,omitempty"`
	Price int64  `json:"price"` // units of 2^-10
	Avail bool   `json:"avail"`
	Cap   int    `json:"cap,omitempty"`
	// Overlay is a NodeOverlay price adjustment applied to the offering (Offering.ApplyPriceOverlay): "2.5", "+0.25",
	// "-0.125", "+50%", "-100%"; Price is the price before the overlay.
	Overlay string `json:"overlay,omitempty"`
	CPUOver int    `json:"cpu_override,omitempty"` // Offering.CapacityOverride{cpu}
}

type itSpec struct {
	Name string    `json:"name"`
	CPU  int       `json:"cpu"`
	Fam  string    `json:"fam,omitempty"`
	Offs []offSpec `json:"offs"`
}

type poolSpec struct {
	Name   string   `json:"name"`
	CT     []string `json:"ct,omitempty"` // capacity-type In / NotIn these (nil: no requirement)
	CTNot  bool     `json:"ct_notin,omitempty"`
	MinKey string   `json:"min_key,omitempty"` // "it" | "fam": minValues on the instance-type / family requirement
	MinVal int      `json:"min_val,omitempty"`
	Policy string   `json:"policy,omitempty"`             // "" = WhenEmptyOrUnderutilized | WhenEmpty | Balanced
	Never  bool     `json:"consolidate_never,omitempty"`  // consolidateAfter: Never
	After  string   `json:"consolidate_after,omitempty"`  // consolidateAfter (default 0s)
	Static bool     `json:"static,omitempty"`             // spec.replicas set
	Taint  bool     `json:"taint,omitempty"`              // template taint verif.io/taint:NoSchedule
	ITErr  string   `json:"instance_types,omitempty"`     // provider answer for this pool: "" | error | unevaluated | empty
	Budget *int     `json:"budget,omitempty"`             // entry of the mapping handed to ComputeCommands (nil = plenty)
}

type podSpec struct {
	Name string `json:"name"`
	CPUm int    `json:"cpu_m"`
	Del  *int64 `json:"deletion_cost,omitempty"`
	Prio *int32 `json:"priority,omitempty"`
	Zone string `json:"sel_zone,omitempty"`
	CT   string `json:"sel_ct,omitempty"`
	Pin  bool   `json:"pinned,omitempty"` // selects a label only its own node carries
	DND  bool   `json:"do_not_disrupt,omitempty"`
	PDB  bool   `json:"pdb_blocked,omitempty"` // carries the label a maxUnavailable=0 PDB selects
	Tol  bool   `json:"tolerates_taint,omitempty"`
	DS   bool   `json:"daemonset_owned,omitempty"`
	Done bool   `json:"succeeded,omitempty"` // phase Succeeded: not reschedulable
}

type nodeSpec struct {
	Name    string    `json:"name"`
	Pool    string    `json:"pool"`
	IT      string    `json:"it"`
	CT      string    `json:"ct"`
	Zone    string    `json:"zone"`
	RID     string    `json:"rid,omitempty"`
	CPU     int       `json:"cpu"`
	Pods    []podSpec `json:"pods,omitempty"`
	Init    bool      `json:"initialized"`
	Protect bool      `json:"do_not_disrupt,omitempty"`
	Marked  bool      `json:"marked_for_deletion,omitempty"`
	NoCT    bool      `json:"no_capacity_type_label,omitempty"`
	NoZone  bool      `json:"no_zone_label,omitempty"`
	Ghost   bool      `json:"unknown_instance_type,omitempty"` // instance-type label names a type the provider does not list
	NotCons bool      `json:"not_consolidatable,omitempty"`    // Consolidatable condition not true
}

type worldSpec struct {
	S2S        bool       `json:"spot_to_spot"`
	Reserved   bool       `json:"reserved_capacity_gate"`
	BestEffort bool       `json:"min_values_best_effort,omitempty"`
	IgnorePref bool       `json:"preference_policy_ignore,omitempty"`
	Catalog    []itSpec   `json:"catalog"`
	Pools      []poolSpec `json:"pools"`
	Nodes      []nodeSpec `json:"nodes"`
	Pending    []podSpec  `json:"pending,omitempty"`
}

type world struct {
	spec     *worldSpec
	ctx      context.Context
	c        client.Client
	clk      *clock.FakeClock
	cp       *fake.CloudProvider
	cluster  *state.Cluster
	recorder *test.EventRecorder
	prov     *provisioning.Provisioner
	queue    *disruption.Queue
	its      map[string]*cloudprovider.InstanceType
	podIDs   map[string]int
	fail     string // fault plan: listing this kind ("pdb" | "pods" | "nodepools") fails with a server error
	onList   func(kind string) // event hook: called before every List of that kind (to place an event between two steps)
	objs     []client.Object
	deliver  []func() // deliveries to the cluster state, in order, once the client exists
}

func price(units int64) float64 { return float64(units) / 1024.0 }

func mkOffering(o offSpec) *cloudprovider.Offering {
	lbl := map[string]string{v1.CapacityTypeLabelKey: o.CT, corev1.LabelTopologyZone: o.Zone}
	if o.RID != "" {
		lbl[cloudprovider.ReservationIDLabel] = o.RID
	}
	of := &cloudprovider.Offering{Requirements: scheduling.NewLabelRequirements(lbl), Price: price(o.Price), Available: o.Avail, ReservationCapacity: o.Cap}
	if o.Overlay != "" {
		of.ApplyPriceOverlay(o.Overlay)
	}
	if o.CPUOver != 0 {
		of.CapacityOverride = corev1.ResourceList{corev1.ResourceCPU: resource.MustParse(fmt.Sprint(o.CPUOver))}
	}
	return of
}

func mkInstanceType(s itSpec) *cloudprovider.InstanceType {
	var ofs []cloudprovider.Offering
	for _, o := range s.Offs {
		ofs = append(ofs, *mkOffering(o))
	}
	opts := []fake.InstanceTypeOptions{
		fake.WithResources(corev1.ResourceList{
			corev1.ResourceCPU: resource.MustParse(fmt.Sprint(s.CPU)), corev1.ResourceMemory: resource.MustParse("64Gi"), corev1.ResourcePods: resource.MustParse("100")}),
		fake.WithOfferings(ofs...),
	}
	if s.Fam != "" {
		opts = append(opts, fake.WithRequirements(scheduling.NewRequirement(famKey, corev1.NodeSelectorOpIn, s.Fam)))
	}
	return fake.NewInstanceType(s.Name, opts...)
}

func newWorld(spec *worldSpec) *world {
	mv := options.MinValuesPolicyStrict
	if spec.BestEffort {
		mv = options.MinValuesPolicyBestEffort
	}
	pp := options.PreferencePolicyRespect
	if spec.IgnorePref {
		pp = options.PreferencePolicyIgnore
	}
	opts := test.Options(test.OptionsFields{MinValuesPolicy: &mv, PreferencePolicy: &pp,
		FeatureGates: test.FeatureGates{SpotToSpotConsolidation: &spec.S2S, ReservedCapacity: &spec.Reserved}})
	w := &world{spec: spec, ctx: options.ToContext(context.Background(), opts), clk: clock.NewFakeClock(time.Unix(1700000000, 0)), cp: fake.NewCloudProvider(),
		recorder: test.NewEventRecorder(), its: map[string]*cloudprovider.InstanceType{}, podIDs: map[string]int{}}
	for _, s := range spec.Catalog {
		it := mkInstanceType(s)
		w.its[s.Name] = it
		w.cp.InstanceTypes = append(w.cp.InstanceTypes, it)
	}
	// every write to the fake client builds a REST mapper (expensive): hand it all objects at construction
	for _, p := range spec.Pools {
		w.addPool(p)
	}
	for _, n := range spec.Nodes {
		w.addNode(n)
	}
	for _, p := range spec.Pending {
		pod := w.mkPod(p, "", "")
		pod.Status.Conditions = []corev1.PodCondition{{Type: corev1.PodScheduled, Reason: corev1.PodReasonUnschedulable, Status: corev1.ConditionFalse}}
		pod.Status.Phase = corev1.PodPending
		w.objs = append(w.objs, pod)
		w.deliver = append(w.deliver, func() {
			if err := w.cluster.UpdatePod(w.ctx, pod); err != nil {
				panic(err)
			}
		})
	}
	hasPDB := false
	for _, n := range spec.Nodes {
		for _, p := range n.Pods {
			hasPDB = hasPDB || p.PDB
		}
	}
	if hasPDB {
		zero := intstr.FromInt32(0)
		w.objs = append(w.objs, test.PodDisruptionBudget(test.PDBOptions{ObjectMeta: metav1.ObjectMeta{Name: "block", Namespace: "default"},
			Labels: map[string]string{"verif.io/pdb": "x"}, MaxUnavailable: &zero}))
	}
	w.c = kit.NewClient(interceptor.Funcs{List: func(ctx context.Context, cl client.WithWatch, list client.ObjectList, opts ...client.ListOption) error {
		kind := ""
		switch list.(type) {
		case *policyv1.PodDisruptionBudgetList:
			kind = "pdb"
		case *corev1.PodList:
			kind = "pods"
		case *v1.NodePoolList:
			kind = "nodepools"
		}
		if kind != "" && w.onList != nil {
			w.onList(kind)
		}
		if kind != "" && kind == w.fail {
			return apierrors.NewInternalError(fmt.Errorf("injected"))
		}
		return cl.List(ctx, list, opts...)
	}}, w.objs...)
	w.cluster = state.NewCluster(w.clk, w.c, w.cp)
	w.prov = provisioning.NewProvisioner(w.c, w.recorder, w.cp, w.cluster, w.clk, deviceallocation.NewController(w.c), virtualpods.NewVirtualPodCache(w.c))
	w.queue = disruption.NewQueue(w.c, w.recorder, w.cluster, w.clk, w.prov)
	for _, f := range w.deliver {
		f()
	}
	return w
}

func (w *world) addPool(p poolSpec) {
	np := test.NodePool(v1.NodePool{ObjectMeta: metav1.ObjectMeta{Name: p.Name}})
	np.Spec.Disruption.ConsolidateAfter = v1.MustParseNillableDuration("0s")
	np.Spec.Disruption.ConsolidationPolicy = v1.ConsolidationPolicyWhenEmptyOrUnderutilized
	if p.Policy != "" {
		np.Spec.Disruption.ConsolidationPolicy = v1.ConsolidationPolicy(p.Policy)
	}
	if p.After != "" {
		np.Spec.Disruption.ConsolidateAfter = v1.MustParseNillableDuration(p.After)
	}
	if p.Never {
		np.Spec.Disruption.ConsolidateAfter = v1.MustParseNillableDuration("Never")
	}
	if p.Static {
		np.Spec.Replicas = ptr(int64(2))
	}
	if p.Taint {
		np.Spec.Template.Spec.Taints = []corev1.Taint{{Key: "verif.io/taint", Value: "x", Effect: corev1.TaintEffectNoSchedule}}
	}
	switch p.ITErr {
	case "error":
		w.cp.ErrorsForNodePool = map[string]error{p.Name: fmt.Errorf("injected provider error")}
	case "unevaluated":
		w.cp.ErrorsForNodePool = map[string]error{p.Name: cloudprovider.NewUnevaluatedNodePoolError(p.Name)}
	case "empty":
		w.cp.InstanceTypesForNodePool = map[string][]*cloudprovider.InstanceType{p.Name: {}}
	}
	np.Spec.Disruption.Budgets = []v1.Budget{{Nodes: "100%"}}
	var reqs []v1.NodeSelectorRequirementWithMinValues
	if p.CT != nil {
		op := corev1.NodeSelectorOpIn
		if p.CTNot {
			op = corev1.NodeSelectorOpNotIn
		}
		reqs = append(reqs, v1.NodeSelectorRequirementWithMinValues{Key: v1.CapacityTypeLabelKey, Operator: op, Values: p.CT})
	}
	switch p.MinKey {
	case "it":
		var names []string
		for _, it := range w.spec.Catalog {
			names = append(names, it.Name)
		}
		mvv := p.MinVal
		reqs = append(reqs, v1.NodeSelectorRequirementWithMinValues{Key: corev1.LabelInstanceTypeStable, Operator: corev1.NodeSelectorOpIn, Values: names, MinValues: &mvv})
	case "fam":
		mvv := p.MinVal
		reqs = append(reqs, v1.NodeSelectorRequirementWithMinValues{Key: famKey, Operator: corev1.NodeSelectorOpExists, MinValues: &mvv})
	}
	np.Spec.Template.Spec.Requirements = reqs
	w.objs = append(w.objs, np)
}

func providerID(name string) string { return "fake:///" + name }

func (w *world) mkPod(p podSpec, node string, pinValue string) *corev1.Pod {
	sel := map[string]string{}
	if p.Zone != "" {
		sel[corev1.LabelTopologyZone] = p.Zone
	}
	if p.CT != "" {
		sel[v1.CapacityTypeLabelKey] = p.CT
	}
	if p.Pin {
		sel["verif.io/pin"] = pinValue
	}
	ann := map[string]string{}
	if p.Del != nil {
		ann[corev1.PodDeletionCost] = fmt.Sprint(*p.Del)
	}
	if p.DND {
		ann[v1.DoNotDisruptAnnotationKey] = "true"
	}
	lbls := map[string]string{}
	if p.PDB {
		lbls["verif.io/pdb"] = "x"
	}
	var tols []corev1.Toleration
	if p.Tol {
		tols = []corev1.Toleration{{Key: "verif.io/taint", Operator: corev1.TolerationOpExists}}
	}
	pod := test.Pod(test.PodOptions{
		NodeSelector: sel,
		Tolerations:  tols,
		ObjectMeta: metav1.ObjectMeta{Name: p.Name, Namespace: "default", Annotations: ann, Labels: lbls, UID: types.UID("uid-" + p.Name), // the fake client assigns no UIDs; the scheduler keys its pod cache and queue by UID
			OwnerReferences: []metav1.OwnerReference{{APIVersion: "apps/v1", Kind: "ReplicaSet", Name: "rs", UID: "rs-uid", Controller: ptr(true), BlockOwnerDeletion: ptr(true)}}},
		NodeName:             node,
		ResourceRequirements: corev1.ResourceRequirements{Requests: corev1.ResourceList{corev1.ResourceCPU: resource.MustParse(fmt.Sprintf("%dm", p.CPUm))}},
		Phase:                corev1.PodRunning,
	})
	pod.Spec.Priority = p.Prio
	if p.DS {
		pod.OwnerReferences = []metav1.OwnerReference{{APIVersion: "apps/v1", Kind: "DaemonSet", Name: "ds", UID: "ds-uid", Controller: ptr(true), BlockOwnerDeletion: ptr(true)}}
	}
	if p.Done {
		pod.Status.Phase = corev1.PodSucceeded
	}
	if _, ok := w.podIDs[p.Name]; !ok {
		w.podIDs[p.Name] = len(w.podIDs)
	}
	return pod
}

func ptr[T any](x T) *T { return &x }

// addNode creates the NodeClaim/Node pair in the API and delivers them to the cluster state the way the informer
// controllers do.
func (w *world) addNode(n nodeSpec) {
	labels := map[string]string{
		v1.NodePoolLabelKey:            n.Pool,
		corev1.LabelInstanceTypeStable: n.IT,
		v1.CapacityTypeLabelKey:        n.CT,
		corev1.LabelTopologyZone:       n.Zone,
		corev1.LabelHostname:           n.Name,
		corev1.LabelArchStable:         "amd64",
		corev1.LabelOSStable:           "linux",
	}
	if n.RID != "" {
		labels[cloudprovider.ReservationIDLabel] = n.RID
	}
	if n.NoCT {
		delete(labels, v1.CapacityTypeLabelKey)
	}
	if n.NoZone {
		delete(labels, corev1.LabelTopologyZone)
	}
	if n.Ghost {
		labels[corev1.LabelInstanceTypeStable] = "ghost-type"
	}
	alloc := corev1.ResourceList{corev1.ResourceCPU: resource.MustParse(fmt.Sprint(n.CPU)), corev1.ResourceMemory: resource.MustParse("64Gi"), corev1.ResourcePods: resource.MustParse("100")}
	nc := test.NodeClaim(v1.NodeClaim{
		ObjectMeta: metav1.ObjectMeta{Name: n.Name, Labels: labels, Finalizers: []string{"karpenter.sh/test-finalizer"}},
		Status:     v1.NodeClaimStatus{ProviderID: providerID(n.Name), NodeName: n.Name, Allocatable: alloc, Capacity: alloc},
	})
	cs := nc.StatusConditions(status.WithClock(w.clk))
	cs.SetTrue(v1.ConditionTypeLaunched)
	cs.SetTrue(v1.ConditionTypeRegistered)
	if n.Init {
		cs.SetTrue(v1.ConditionTypeInitialized)
	}
	if !n.NotCons {
		cs.SetTrue(v1.ConditionTypeConsolidatable)
	}
	w.objs = append(w.objs, nc)
	w.deliver = append(w.deliver, func() { w.cluster.UpdateNodeClaim(nc) })

	nl := map[string]string{}
	for k, v := range labels {
		nl[k] = v
	}
	nl[v1.NodeRegisteredLabelKey] = "true"
	nl["verif.io/pin"] = n.Name
	if n.Init {
		nl[v1.NodeInitializedLabelKey] = "true"
	}
	ann := map[string]string{}
	if n.Protect {
		ann[v1.DoNotDisruptAnnotationKey] = "true"
	}
	node := test.Node(test.NodeOptions{ObjectMeta: metav1.ObjectMeta{Name: n.Name, Labels: nl, Annotations: ann, Finalizers: []string{"karpenter.sh/test-finalizer"}},
		ProviderID: providerID(n.Name), Allocatable: alloc, Capacity: alloc})
	node.Status.Conditions = []corev1.NodeCondition{{Type: corev1.NodeReady, Status: corev1.ConditionTrue}}
	w.objs = append(w.objs, node)
	w.deliver = append(w.deliver, func() {
		if err := w.cluster.UpdateNode(w.ctx, node); err != nil {
			panic(err)
		}
	})
	for _, p := range n.Pods {
		pod := w.mkPod(p, n.Name, n.Name)
		w.objs = append(w.objs, pod)
		w.deliver = append(w.deliver, func() {
			if err := w.cluster.UpdatePod(w.ctx, pod); err != nil {
				panic(err)
			}
		})
	}
	if n.Marked {
		w.deliver = append(w.deliver, func() { w.cluster.MarkForDeletion(providerID(n.Name)) })
	}
}

func (w *world) candidatesWith(filter disruption.CandidateFilter, class string) []*disruption.Candidate {
	cs, err := disruption.GetCandidates(w.ctx, w.cluster, w.c, w.recorder, w.clk, w.cp, filter, class, w.queue)
	if err != nil {
		panic(err)
	}
	sort.Slice(cs, func(i, j int) bool { return cs[i].Name() < cs[j].Name() })
	return cs
}

// passValidator accepts every command (the proposal before the 15 s validation delay).
type passValidator struct{}

func (passValidator) Validate(_ context.Context, cmd disruption.Command, _ time.Duration) (disruption.Command, error) {
	return cmd, nil
}

// rebuildCatalog replaces the provider's instance types by fresh objects built from a modified copy of the catalog
// (a provider returns fresh InstanceType values; the ones in use cache their available offerings on first use).
func (w *world) rebuildCatalog(mod func(*itSpec)) {
	w.cp.InstanceTypes = nil
	for _, s := range w.spec.Catalog {
		c := s
		c.Offs = append([]offSpec(nil), s.Offs...)
		mod(&c)
		it := mkInstanceType(c)
		w.its[c.Name] = it
		w.cp.InstanceTypes = append(w.cp.InstanceTypes, it)
	}
}

// addNodeLive adds a node to a world that is already running (API objects first, then the informer deliveries).
func (w *world) addNodeLive(n nodeSpec) {
	i0, j0 := len(w.objs), len(w.deliver)
	w.addNode(n)
	for _, o := range w.objs[i0:] {
		kit.Apply(w.ctx, w.c, o)
	}
	for _, f := range w.deliver[j0:] {
		f()
	}
}

// steppingRecorder lets time pass while the single-node loop works: publishing an event costs minutes.
type steppingRecorder struct {
	*test.EventRecorder
	clk  *clock.FakeClock
	step time.Duration
}

func (s *steppingRecorder) Publish(evts ...events.Event) {
	s.EventRecorder.Publish(evts...)
	s.clk.Step(s.step)
}
