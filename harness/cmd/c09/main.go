// Package c09 drives the real node termination controller and the real NodeClaim lifecycle controller through
// generated histories: reconciles of both controllers in every order, one (thorough: up to two) injected API or
// provider failure per history, pods / volume attachments / the cloud instance disappearing at arbitrary times,
// clock steps around every threshold, user deletes and controller restarts. Every step is written as a Gallina
// observation: the writes and provider calls issued, the result class, the world read back, and the world snapshot
// taken inside the client at the instant of each successful finalizer-removing patch.
package main

import (
	"crypto/sha1"
	"encoding/hex"
	"fmt"
	"os"
	"strings"

	"github.com/go-logr/logr"
	"sigs.k8s.io/controller-runtime/pkg/log"

	"verifharness/kit"
)

type stepJSON struct {
	Op       string   `json:"op"`
	Effs     []string `json:"effs,omitempty"`
	Res      string   `json:"res,omitempty"`
	Post     string   `json:"post,omitempty"`
	Instants []string `json:"instants,omitempty"`
}

type caseJSON struct {
	Stream string     `json:"stream"`
	W0     string     `json:"w0"`
	Steps  []stepJSON `json:"steps"`
	KfKey  string     `json:"kf_key,omitempty"`
	// spec.terminationGracePeriodSeconds of the initial pods (pod id -> seconds), not part of the Gallina pod
	PodGrace map[string]int64 `json:"pod_grace,omitempty"`
}

type runner struct {
	c *kit.Ctx
	s *sut
}

// ------------------------------------------------------------------ generators

func pick[T any](r *kit.Rand, xs ...T) T { return xs[r.Intn(len(xs))] }

// genVolumeWorld: a node that is already cordoned and drained, whose termination hinges on volume attachments:
// attachments with and without a PV, pods that shield their volumes (tolerating / mirror / stuck terminating) or not,
// and a termination deadline around the current instant.
func genVolumeWorld(r *kit.Rand) *world {
	w := &world{Now: 1000, Inst: pick(r, "IRunning", "IShutting", "IGone")}
	w.Nodes = []*wNode{{ID: 0, Managed: true, Fin: true, Del: true, Taint: true, Lbl: true, Ready: true}}
	c := &wClaim{Managed: true, Fin: true, Pid: true, Reg: true, Del: i64(900), Drained: pick(r, "T", "T", "U"), Since: 990, Vol: pick(r, "", "U", "T", "F")}
	if r.Chance(70, 100) {
		c.Tgp = i64(100)
		c.Annot, c.AnnotAt = "at", w.Now+int64(pick(r, -30, -1, 0, 1, 30))
	}
	if r.Chance(15, 100) {
		c = nil
	}
	w.Claim = c
	for k := r.Range(1, 3); k > 0; k-- {
		p := &wPod{ID: int64(len(w.Pods)), Node: 0}
		switch r.Intn(5) {
		case 0:
			p.Tol = true
		case 1:
			p.Static = true
		case 2:
			p.Del = i64(w.Now - int64(pick(r, 60, 61, 90)))
		case 3:
			p.Terminal = true
		default:
			p.Tol = true
		}
		for x := int64(1); x <= 2; x++ {
			if r.Chance(60, 100) {
				p.PVs = append(p.PVs, x)
			}
		}
		w.Pods = append(w.Pods, p)
	}
	for k := r.Range(1, 3); k > 0; k-- {
		v := &wVA{ID: int64(len(w.VAs)), Node: 0}
		if !r.Chance(15, 100) {
			v.PV = i64(int64(r.Range(1, 3)))
		}
		w.VAs = append(w.VAs, v)
	}
	return w
}

// genDeadlineWorld: the node's termination deadline has passed and the pods still bound to it are in Drain's
// force-delete class (not terminating but with a grace period that crosses the deadline — held back until then by a
// PDB or do-not-disrupt —, or force-deleted after the deadline and terminating for less than a minute, kept by a
// finalizer / a slow kubelet). Everything else is ready for the finalizer to come off: cordoned, Drained latched,
// instance going or gone. The pods are neither gone nor stuck terminating, so the finalizer must stay.
func genDeadlineWorld(r *kit.Rand) *world {
	w := &world{Now: 1000, Inst: pick(r, "IGone", "IGone", "IShutting", "IRunning")}
	w.Nodes = []*wNode{{ID: 0, Managed: true, Fin: true, Del: true, Taint: true, Lbl: true, Ready: !r.Chance(10, 100)}}
	deadline := w.Now - int64(pick(r, 1, 2, 10, 45, 59))
	c := &wClaim{Managed: true, Fin: true, Pid: true, Reg: true, Del: i64(deadline - 30), Tgp: i64(30), Annot: "at", AnnotAt: deadline,
		Drained: pick(r, "T", "T", "U", ""), Since: w.Now - int64(pick(r, 4, 5, 6, 30)), Vol: pick(r, "", "U", "T", "F"), Term: r.Chance(60, 100)}
	w.Claim = c
	for k := r.Range(1, 2); k > 0; k-- {
		p := &wPod{ID: int64(len(w.Pods)), Node: 0}
		switch r.Intn(10) {
		case 0, 1, 2, 3: // deleted at / after the deadline, still terminating
			p.Del = i64(deadline + 1 + int64(r.Intn(int(w.Now-deadline))))
			p.Grace = i64(int64(pick(r, 0, 30)))
		case 4, 5, 6: // not deleted yet, its grace period crosses the deadline
			p.Grace = i64(int64(pick(r, 0, 1, 30, 600)))
		case 7: // graceful candidate: no grace period recorded
		case 8: // deleted before the deadline (graceful class while terminating)
			p.Del = i64(deadline - int64(pick(r, 0, 5)))
		default:
			p.Tol = true
		}
		if r.Chance(30, 100) {
			p.PVs = []int64{1}
		}
		w.Pods = append(w.Pods, p)
	}
	if r.Chance(40, 100) {
		w.VAs = []*wVA{{ID: 0, Node: 0, PV: i64(1)}}
	}
	return w
}

var volumeSites = []string{"SListVAs", "SListPodsVA", "SGetPVC", "SGetPVC", "SPatchStatus", "SProvDelete", "SRmNodeFin"}

// genWorld adds, to the world of the chosen stream, the API shapes the model abstracts from (flavours).
func genWorld(c *kit.Ctx, r *kit.Rand, stream string) *world {
	w := genWorldCore(r, stream)
	for _, n := range w.Nodes {
		n.Flv = uint32(r.U64())
		if !n.Taint && n.Flv&2 == 2 {
			c.Count("flavor:node:disrupted-taint-with-other-effect")
		}
		if !n.Lbl && n.Flv&1 == 1 {
			c.Count("flavor:node:lb-label-other-value")
		}
		if !n.Ready {
			c.Count("flavor:node:not-ready:" + map[uint32]string{4: "Unknown", 8: "no-condition"}[n.Flv&12] + map[bool]string{true: "False"}[n.Flv&12 != 4 && n.Flv&12 != 8])
		}
	}
	if len(w.Nodes) == 1 && w.Twin == nil && (w.Claim == nil || !w.Claim.Pid) && instAbsent(w.Inst) && r.Chance(50, 100) {
		w.Nodes[0].NoPid = true
		c.Count("flavor:node:no-provider-id")
	}
	for _, cl := range []*wClaim{w.Claim, w.Twin} {
		if cl == nil {
			continue
		}
		cl.Flv = uint32(r.U64())
		if cl.Reg && cl.Flv&1 == 1 {
			c.Count("flavor:claim:status.nodeName")
		}
		if !cl.Reg && cl.Pid && cl.Flv&2 == 2 {
			c.Count("flavor:claim:registered-False")
		}
	}
	for _, p := range w.Pods {
		p.Flv = uint32(r.U64())
		countPodFlavor(c, p)
	}
	return w
}

func countPodFlavor(c *kit.Ctx, p *wPod) {
	f := p.Flv
	if f&1 == 1 {
		c.Count("flavor:pod:phase:" + map[bool]string{true: "Failed", false: "Pending"}[p.Terminal])
	}
	c.Count(fmt.Sprintf("flavor:pod:toleration-shape:%v:%d", p.Tol, (f>>1)&3))
	if !p.Static {
		switch (f >> 3) & 3 {
		case 1:
			c.Count("flavor:pod:owner:DaemonSet")
		case 2:
			c.Count("flavor:pod:owner:ReplicaSet")
		}
	}
	if (f>>5)&3 == 1 || (f>>5)&3 == 2 {
		c.Count("flavor:pod:critical-priority-class")
	}
	if len(p.PVs) > 0 && (f>>7)&1 == 1 {
		c.Count("flavor:pod:ephemeral-volume")
	}
	if (f>>8)&1 == 1 {
		c.Count("flavor:pod:emptyDir-volume")
	}
	if lostClaim(p) {
		c.Count("flavor:pod:missing-claim")
	}
}

func genWorldCore(r *kit.Rand, stream string) *world {
	if stream == "volumes" {
		return genVolumeWorld(r)
	}
	if stream == "deadline" {
		return genDeadlineWorld(r)
	}
	w := &world{Now: 1000, Inst: "IRunning"}
	nn := 1
	switch {
	case stream == "launch":
		nn = 0
	case r.Chance(15, 100):
		nn = 2
	case r.Chance(10, 100):
		nn = 0
	}
	for i := 0; i < nn; i++ {
		n := &wNode{ID: int64(i), Managed: !r.Chance(4, 100), Fin: !r.Chance(5, 100), Del: r.Chance(70, 100), Ready: !r.Chance(25, 100)}
		n.Taint = r.Chance(40, 100)
		n.Lbl = n.Taint != r.Chance(10, 100)
		if n.Del && !n.Fin && r.Chance(50, 100) {
			n.Fin = true
		}
		w.Nodes = append(w.Nodes, n)
	}
	if stream == "launch" || !r.Chance(10, 100) {
		c := &wClaim{Managed: !r.Chance(4, 100), Fin: !r.Chance(5, 100), Pid: !r.Chance(12, 100)}
		if stream == "launch" {
			c.Pid = r.Chance(15, 100)
			c.Fin = c.Pid || r.Chance(40, 100)
		}
		if r.Chance(50, 100) && stream != "launch" {
			c.Del = i64(w.Now - int64(pick(r, 0, 1, 30, 100, 700)))
			if !c.Fin && r.Chance(70, 100) {
				c.Fin = true
			}
		}
		c.Reg = c.Pid && nn > 0 && !r.Chance(15, 100)
		if r.Chance(45, 100) {
			c.Tgp = i64(int64(pick(r, 0, 30, 120, 600)))
		}
		switch {
		case r.Chance(3, 100):
			c.Annot = "bad"
		case c.Del != nil && c.Tgp != nil && !r.Chance(25, 100):
			c.Annot, c.AnnotAt = "at", *c.Del+*c.Tgp
		case r.Chance(8, 100):
			c.Annot, c.AnnotAt = "at", w.Now+int64(pick(r, -1, 0, 1, 60)) // set by another controller
		}
		if c.Pid && r.Chance(50, 100) {
			c.Drained = pick(r, "U", "U", "T")
			c.Since = w.Now - int64(pick(r, 0, 4, 5, 6, 30))
			if c.Drained == "T" {
				c.Vol = pick(r, "", "U", "T", "F")
				c.Term = c.Vol != "" && c.Vol != "U" && r.Chance(50, 100)
			}
		}
		w.Claim = c
		switch {
		case c.Pid:
			w.Inst = pick(r, "IRunning", "IRunning", "IRunning", "IShutting", "IGone")
			if c.Term && w.Inst == "IRunning" {
				w.Inst = "IShutting"
			}
		case r.Chance(20, 100) && c.Fin:
			w.Inst = "IRunning" // created, provider id never persisted
		default:
			w.Inst = "INone"
		}
	} else {
		w.Inst = pick(r, "IRunning", "IGone")
	}
	if nn > 0 && stream != "launch" && r.Chance(14, 100) {
		// a duplicate NodeClaim for the same provider id
		w.Twin = &wClaim{Managed: true, Fin: !r.Chance(10, 100), Pid: !r.Chance(15, 100), Reg: r.Bool()}
		if r.Chance(20, 100) && w.Twin.Fin {
			w.Twin.Del = i64(w.Now - 10)
		}
		if r.Chance(30, 100) {
			w.Twin.Annot, w.Twin.AnnotAt = "at", w.Now+int64(pick(r, -5, 5))
		}
		if r.Chance(40, 100) { // the duplicate is the only claim left
			w.Claim = nil
			w.Inst = pick(r, "IRunning", "IRunning", "IShutting", "IGone")
		}
	}
	if nn > 0 {
		for k := r.Intn(4); k > 0; k-- {
			p := &wPod{ID: int64(len(w.Pods)), Node: int64(r.Intn(nn)), Terminal: r.Chance(12, 100), Tol: r.Chance(20, 100), Static: r.Chance(10, 100)}
			if r.Chance(40, 100) {
				p.Del = i64(w.Now - int64(pick(r, 0, 30, 59, 60, 61, 90)))
			}
			if r.Chance(40, 100) {
				p.Grace = i64(int64(pick(r, 0, 30, 600)))
			}
			for x := int64(1); x <= 2; x++ {
				if r.Chance(35, 100) {
					p.PVs = append(p.PVs, x)
				}
			}
			w.Pods = append(w.Pods, p)
		}
		for k := pick(r, 0, 0, 1, 1, 2); k > 0; k-- {
			v := &wVA{ID: int64(len(w.VAs)), Node: int64(r.Intn(nn))}
			if !r.Chance(12, 100) {
				v.PV = i64(int64(r.Range(1, 2)))
			}
			w.VAs = append(w.VAs, v)
		}
	}
	return w
}

var nodeSites = []string{"SListClaims", "SDelClaim", "SProvGet", "STaint", "SListPods", "SListVAs", "SListPodsVA", "SGetPVC", "SProvDelete", "SPatchStatus", "SRmNodeFin"}
var finSites = []string{"SAnnot", "SListNodes", "SDelNode", "SProvDelete", "SPatchStatus", "SRmClaimFin"}
var launchSites = []string{"SAddFin", "SProvCreate", "SPatchMeta", "SPatchStatusL"}
var kinds = []string{"KConflict", "KNotFound", "KServer"}

func genFault(r *kit.Rand, w *world, ctrl string) *fault {
	f := &fault{Kind: pick(r, kinds...)}
	switch {
	case ctrl == "node":
		f.Site = pick(r, nodeSites...)
		for _, n := range w.Nodes {
			if n.NoPid && f.Site == "SListClaims" { // a node without provider id never lists NodeClaims
				f.Site = "SListPods"
			}
		}
		for _, p := range w.Pods {
			if lostClaim(p) && f.Site == "SGetPVC" {
				f.Site = "SListVAs"
			}
		}
	case w.Claim != nil && w.Claim.Del != nil:
		f.Site = pick(r, finSites...)
		var live []int64 // nodes the finalize will have to delete
		if w.Claim.Reg && w.Claim.Pid {
			for _, n := range w.Nodes {
				if !n.Del {
					live = append(live, n.ID)
				}
			}
		}
		if len(live) > 0 && r.Chance(50, 100) {
			f.Site = "SDelNode"
		}
		if f.Site == "SDelNode" {
			f.Arg = int64(r.Intn(2))
			if len(live) > 0 {
				f.Arg = pick(r, live...)
			}
		}
	default:
		f.Site = pick(r, launchSites...)
		if w.Claim != nil && w.Claim.Pid {
			f.Site = "SAddFin" // the persistence patches of a launched claim are not modelled
		}
	}
	switch f.Site {
	case "SListClaims", "SListPods", "SListVAs", "SListPodsVA", "SListNodes", "SProvGet", "SProvDelete":
		f.Kind = "KServer" // (SProvCreate: KNotFound = InsufficientCapacity, KConflict = NodeClassNotReady, KServer = other)
	}
	return f
}

// ------------------------------------------------------------------ environment ops on the harness world

type opx struct {
	g          string // Gallina op
	kind       string
	ctrl       string // "node" | "claim" | ""
	id         int64
	f          *fault
	env        func(w *world)
	staleNode  *wNode
	staleClaim *wClaim
}

// older versions of the objects (the version before the last change), for reconciles from a lagging cache
type versions struct {
	node  map[int64]*wNode
	claim *wClaim
}

func (v *versions) record(before, after *world) {
	for _, n := range before.Nodes {
		if n.NoPid { // only equivalent for the model while the world has no recorded claim / instance: never replayed later
			continue
		}
		if m := after.node(n.ID); m == nil || *m != *n {
			c := *n
			v.node[n.ID] = &c
		}
	}
	if before.Claim != nil && (after.Claim == nil || !claimEq(before.Claim, after.Claim)) {
		c := *before.Claim
		v.claim = &c
	}
}

func claimEq(a, b *wClaim) bool { return a.g() == b.g() }

func apiDelNode(w *world, i int64) {
	n := w.node(i)
	if n == nil || n.Del {
		return
	}
	if n.Fin {
		n.Del = true
		return
	}
	var out []*wNode
	for _, m := range w.Nodes {
		if m.ID != i {
			out = append(out, m)
		}
	}
	w.Nodes = out
}

func envOp(r *kit.Rand, w *world, kind string) *opx {
	switch kind {
	case "tick":
		dt := int64(pick(r, 1, 4, 5, 6, 29, 56, 61, 120))
		return &opx{g: "EnvTick " + gz(dt), kind: kind, env: func(w *world) { w.Now += dt }}
	case "podgone", "podterm", "podterminal":
		if len(w.Pods) == 0 {
			return nil
		}
		k := w.Pods[r.Intn(len(w.Pods))].ID
		switch kind {
		case "podgone":
			return &opx{g: "EnvPodGone " + gz(k), kind: kind, env: func(w *world) {
				var out []*wPod
				for _, p := range w.Pods {
					if p.ID != k {
						out = append(out, p)
					}
				}
				w.Pods = out
			}}
		case "podterm":
			return &opx{g: "EnvPodTerm " + gz(k), kind: kind, env: func(w *world) {
				for _, p := range w.Pods {
					if p.ID == k && p.Del == nil {
						p.Del = i64(w.Now)
					}
				}
			}}
		}
		return &opx{g: "EnvPodTerminal " + gz(k), kind: kind, env: func(w *world) {
			for _, p := range w.Pods {
				if p.ID == k {
					p.Terminal = true
				}
			}
		}}
	case "podadd":
		if len(w.Nodes) == 0 {
			return nil
		}
		p := &wPod{ID: int64(10 + r.Intn(3)), Node: w.Nodes[r.Intn(len(w.Nodes))].ID, Tol: r.Chance(50, 100), Static: r.Chance(10, 100), Flv: uint32(r.U64())}
		return &opx{g: "EnvPodAdd (" + p.g() + ")", kind: kind, env: func(w *world) {
			for _, q := range w.Pods {
				if q.ID == p.ID {
					return
				}
			}
			c := *p
			w.Pods = append(w.Pods, &c)
		}}
	case "vagone":
		if len(w.VAs) == 0 {
			return nil
		}
		j := w.VAs[r.Intn(len(w.VAs))].ID
		return &opx{g: "EnvVAGone " + gz(j), kind: kind, env: func(w *world) {
			var out []*wVA
			for _, v := range w.VAs {
				if v.ID != j {
					out = append(out, v)
				}
			}
			w.VAs = out
		}}
	case "instshut":
		return &opx{g: "EnvInstShutting", kind: kind, env: func(w *world) {
			if w.Inst == "IRunning" {
				w.Inst = "IShutting"
			}
		}}
	case "instgone":
		return &opx{g: "EnvInstGone", kind: kind, env: func(w *world) {
			if w.Inst != "INone" {
				w.Inst = "IGone"
			}
		}}
	case "ready":
		if len(w.Nodes) == 0 {
			return nil
		}
		i, b := w.Nodes[r.Intn(len(w.Nodes))].ID, r.Bool()
		return &opx{g: fmt.Sprintf("EnvReady %s %s", gz(i), gb(b)), kind: kind, env: func(w *world) {
			if n := w.node(i); n != nil {
				n.Ready = b
			}
		}}
	case "delnode":
		if len(w.Nodes) == 0 {
			return nil
		}
		i := w.Nodes[r.Intn(len(w.Nodes))].ID
		return &opx{g: "EnvDelNode " + gz(i), kind: kind, env: func(w *world) { apiDelNode(w, i) }}
	case "delclaim":
		return &opx{g: "EnvDelClaim", kind: kind, env: func(w *world) {
			c := w.Claim
			if c == nil || c.Del != nil {
				return
			}
			if c.Fin {
				c.Del = i64(w.Now)
			} else {
				w.Claim = nil
			}
		}}
	case "register":
		return &opx{g: "EnvRegister", kind: kind, env: func(w *world) {
			if w.Claim != nil && w.Claim.Pid && len(w.Nodes) > 0 {
				w.Claim.Reg = true
			}
		}}
	case "restart":
		return &opx{g: "EnvRestart", kind: kind, env: func(w *world) {}}
	}
	panic("unknown env op " + kind)
}

// launchOK: a reconcile of a NodeClaim that is not deleting is only issued while no Node carries the provider id
// (registration and initialization against a Node are C14's subject and not modelled here).
func claimReconcileInScope(w *world) bool {
	return w.Claim == nil || w.Claim.Del != nil || len(w.Nodes) == 0
}

func waitingPod(w *world, p *wPod) bool {
	stuck := p.Del != nil && w.Now-*p.Del > 60
	return !p.Terminal && !p.Tol && !p.Static && !stuck
}

// nextOp chooses the next op from the current world: half of the time something that moves the protocol forward.
func nextOp(r *kit.Rand, w *world, faultsLeft *int, reconcilesLeft int, vs *versions) *opx {
	// a reconcile that is handed the version before the last change (lagging cache); more often when that version
	// is cordoned already (its reconcile gets past the optimistic-lock taint patch)
	staleChance := 9
	for _, old := range vs.node {
		if cur := w.node(old.ID); cur != nil && *cur != *old && old.Del && old.Fin && old.Taint && old.Lbl {
			staleChance = 30
		}
	}
	if r.Chance(staleChance, 100) {
		var o *opx
		if r.Bool() && vs.claim != nil && vs.claim.Del != nil && (w.Claim == nil || !claimEq(vs.claim, w.Claim)) {
			o = &opx{kind: "reconcile-claim-stale", ctrl: "claim", staleClaim: vs.claim}
		} else {
			for _, id := range []int64{0, 1} {
				if old := vs.node[id]; old != nil && (w.node(id) == nil || *w.node(id) != *old) {
					o = &opx{kind: "reconcile-node-stale", ctrl: "node", id: id, staleNode: old}
					break
				}
			}
		}
		if o != nil {
			if *faultsLeft > 0 && r.Chance(1, 3) {
				o.f = genFault(r, w, o.ctrl)
				if o.ctrl == "claim" {
					o.f = &fault{Site: pick(r, finSites...), Kind: pick(r, kinds...)}
					if o.f.Site == "SListNodes" || o.f.Site == "SProvDelete" {
						o.f.Kind = "KServer"
					}
				}
				*faultsLeft--
			}
			if o.staleNode != nil {
				o.g = fmt.Sprintf("RNodeStale (%s) %s", o.staleNode.g(), o.f.g())
			} else {
				o.g = fmt.Sprintf("RClaimStale (%s) %s", o.staleClaim.g(), o.f.g())
			}
			return o
		}
	}
	recon := func(ctrl string, id int64) *opx {
		o := &opx{kind: "reconcile-" + ctrl, ctrl: ctrl, id: id}
		if *faultsLeft > 0 && r.Chance(1, max(1, reconcilesLeft/2)) {
			o.f = genFault(r, w, ctrl)
			*faultsLeft--
		}
		if ctrl == "node" {
			o.g = fmt.Sprintf("RNode %s %s", gz(id), o.f.g())
		} else {
			o.g = "RClaim " + o.f.g()
		}
		return o
	}
	anyNode := func() int64 {
		if len(w.Nodes) == 0 || r.Chance(3, 100) {
			return int64(r.Intn(2))
		}
		return w.Nodes[r.Intn(len(w.Nodes))].ID
	}
	for {
		x := r.Intn(100)
		switch {
		case x < 30:
			return recon("node", anyNode())
		case x < 50:
			if claimReconcileInScope(w) {
				return recon("claim", 0)
			}
			if o := envOp(r, w, "delclaim"); r.Chance(50, 100) {
				return o
			}
		case x < 75: // helpful environment
			var cands []string
			for _, p := range w.Pods {
				if waitingPod(w, p) {
					cands = append(cands, "podgone", "podterm")
					if p.Del != nil {
						cands = append(cands, "tick")
					}
					break
				}
			}
			if w.Claim != nil && w.Claim.Drained == "U" {
				cands = append(cands, "tick")
			}
			if len(w.VAs) > 0 {
				cands = append(cands, "vagone")
			}
			if w.Inst == "IShutting" || (w.Inst == "IRunning" && r.Chance(20, 100)) {
				cands = append(cands, "instgone", "instgone")
			}
			if w.Claim != nil && w.Claim.Del == nil {
				cands = append(cands, "delclaim")
			}
			for _, n := range w.Nodes {
				if !n.Del {
					cands = append(cands, "delnode")
					break
				}
			}
			if len(cands) == 0 {
				cands = []string{"tick"}
			}
			if o := envOp(r, w, pick(r, cands...)); o != nil {
				return o
			}
		default:
			k := pick(r, "tick", "tick", "tick", "podgone", "podterm", "podterminal", "podadd", "podadd", "vagone", "instgone", "instshut", "ready", "ready", "ready",
				"delnode", "delclaim", "register", "restart", "restart")
			if o := envOp(r, w, k); o != nil {
				return o
			}
		}
	}
}

// ------------------------------------------------------------------ running a history

func (rn *runner) history(stream string, r *kit.Rand) {
	c := rn.c
	w := genWorld(c, r, stream)
	w0 := w.g()
	rn.s.restart()
	n := r.Range(3, 9)
	faults := 0
	if r.Chance(75, 100) {
		faults = 1
	}
	if c.Thorough() {
		n = r.Range(4, 14)
		faults = r.Intn(3)
	}
	var gsteps []string
	vs := &versions{node: map[int64]*wNode{}}
	cj := caseJSON{Stream: stream, W0: w0}
	for _, p := range w.Pods {
		if p.Grace != nil {
			if cj.PodGrace == nil {
				cj.PodGrace = map[string]int64{}
			}
			cj.PodGrace[podName(p.ID)] = *p.Grace
		}
	}
	effective := false
	for k := 0; k < n; k++ {
		var o *opx
		if stream == "launch" && k < 3 {
			// the launch protocol: reconcile (maybe failing to persist), then a user delete, then finalize
			switch k {
			case 0, 2:
				o = &opx{kind: "reconcile-claim", ctrl: "claim"}
				if k == 0 && faults > 0 && r.Chance(60, 100) {
					o.f = genFault(r, w, "claim")
					faults--
				}
				o.g = "RClaim " + o.f.g()
			case 1:
				o = envOp(r, w, pick(r, "delclaim", "delclaim", "restart", "tick"))
			}
		} else if stream == "deadline" && k%2 == 0 && k < 6 {
			o = &opx{kind: "reconcile-node", ctrl: "node", g: "RNode 0 None"}
		} else if stream == "deadline" && k < 6 {
			if r.Chance(40, 100) {
				dt := int64(pick(r, 1, 4, 5))
				o = &opx{g: "EnvTick " + gz(dt), kind: "tick", env: func(w *world) { w.Now += dt }}
			} else if o = envOp(r, w, pick(r, "instgone", "instgone", "podterm", "vagone", "restart")); o == nil {
				o = envOp(r, w, "instgone")
			}
		} else if stream == "volumes" && k%2 == 0 {
			o = &opx{kind: "reconcile-node", ctrl: "node"}
			if faults > 0 && r.Chance(50, 100) {
				o.f = &fault{Site: pick(r, volumeSites...), Kind: pick(r, kinds...)}
				for _, p := range w.Pods {
					if lostClaim(p) && o.f.Site == "SGetPVC" {
						o.f.Site = "SListVAs"
					}
				}
				if o.f.Site == "SListVAs" || o.f.Site == "SListPodsVA" || o.f.Site == "SProvDelete" {
					o.f.Kind = "KServer"
				}
				faults--
			}
			o.g = fmt.Sprintf("RNode 0 %s", o.f.g())
		} else {
			o = nextOp(r, w, &faults, n-k, vs)
		}
		sj := stepJSON{Op: o.g}
		if o.ctrl == "" {
			before := w.clone()
			o.env(w)
			vs.record(before, w)
			if o.kind == "restart" {
				rn.s.restart()
			}
			c.Count("op:" + o.kind)
			gsteps = append(gsteps, fmt.Sprintf("S (%s) [] ROk None []", o.g))
			sj.Post = w.g()
			cj.Steps = append(cj.Steps, sj)
			continue
		}
		out := rn.s.reconcile(w, o.ctrl, o.id, o.f, o.staleNode, o.staleClaim)
		path := o.ctrl
		if o.staleNode != nil || o.staleClaim != nil {
			path += "-stale"
		} else if o.ctrl == "claim" && w.Claim != nil {
			path = map[bool]string{true: "claim-finalize", false: "claim-launch"}[w.Claim.Del != nil]
		}
		c.Count("op:reconcile-" + path)
		c.Count("result:" + path + ":" + out.res)
		if o.f != nil {
			c.Count("fault-planned:" + o.f.key())
			if out.fired {
				c.Count("fault-fired:" + o.f.key())
			}
		}
		for _, e := range out.effs {
			f := strings.Fields(strings.Trim(e, "()"))
			key := f[0]
			if last := f[len(f)-1]; last == "true" || last == "false" || strings.HasPrefix(last, "P") {
				key += ":" + last
			}
			if f[0] == "EStatus" {
				key = "EStatus:" + f[1]
			}
			c.Count("effect:" + path + ":" + key)
		}
		if len(out.effs) > 0 {
			effective = true
		}
		var gi []string
		for _, in := range out.instants {
			gi = append(gi, fmt.Sprintf("(%s, %s)", in.target, in.w.g()))
			sj.Instants = append(sj.Instants, in.target+" @ "+in.w.g())
			rn.classifyInstant(w, in, &cj)
		}
		vs.record(w, out.post)
		before := w.g()
		if w.Claim != nil && out.post.Claim == nil && !instAbsent(out.post.Inst) {
			c.Count("observed:claim-gone-instance-exists")
		}
		w = out.post
		post := "None"
		if w.g() != before {
			post = "(Some " + w.g() + ")"
		}
		gsteps = append(gsteps, fmt.Sprintf("S (%s) %s %s %s %s", o.g, kit.GList(out.effs), out.res, post, kit.GList(gi)))
		sj.Effs, sj.Res, sj.Post = out.effs, out.res, w.g()
		cj.Steps = append(cj.Steps, sj)
	}
	term := fmt.Sprintf("Case %s %s", w0, kit.GList(gsteps))
	key := ""
	if effective {
		h := sha1.Sum([]byte(term))
		key = hex.EncodeToString(h[:8])
	}
	c.Count("stream:" + stream)
	c.AddCase(term, cj, key)
}

// classifyInstant counts which way a finalizer came off and recognises the one known shape in which the real
// code violates the property: the NodeClaim finalizer removed while the claim never recorded a provider id although
// the provider holds an instance for it (Create succeeded, the status patch did not).
func (rn *runner) classifyInstant(pre *world, in instantObs, cj *caseJSON) {
	c := rn.c
	if in.target == "TClaim" {
		cl := in.w.Claim
		switch {
		case cl != nil && !cl.Pid && !instAbsent(in.w.Inst):
			c.Count("finalizer:claim:unrecorded-instance-still-exists")
			cj.KfKey = "claim-finalized-without-recorded-provider-id"
		case cl != nil && !cl.Pid:
			c.Count("finalizer:claim:never-launched")
		case cl != nil && cl.Reg:
			c.Count("finalizer:claim:registered-nodes-gone-instance-gone")
		default:
			c.Count("finalizer:claim:unregistered-instance-gone")
		}
		return
	}
	mainVis, twinVis := pre.Claim != nil && pre.Claim.Pid, pre.Twin != nil && pre.Twin.Pid
	hasClaim := mainVis != twinVis
	if mainVis && twinVis {
		c.Count("finalizer:node:duplicate-claims")
	} else if twinVis {
		c.Count("finalizer:node:only-the-duplicate-left")
	}
	var id int64
	fmt.Sscanf(in.target, "TNode %d", &id)
	n := in.w.node(id)
	switch {
	case !hasClaim && n != nil && !n.Ready && instAbsent(in.w.Inst):
		c.Count("finalizer:node:no-claim:not-ready-shortcut")
	case !hasClaim:
		c.Count("finalizer:node:no-claim:drained")
	case n != nil && n.Taint:
		c.Count("finalizer:node:claim:main-path")
	default:
		c.Count("finalizer:node:claim:not-ready-shortcut")
	}
}

func main() {
	log.SetLogger(logr.Discard())
	c := kit.Parse("C09", os.Args[1:])
	rn := &runner{c: c, s: newSut()}
	total := 1600
	if c.Thorough() {
		total = 8000
	}
	for i := 0; i < total; i++ {
		r := c.Rand.Fork()
		stream := "termination"
		switch i % 8 {
		case 7:
			stream = "launch"
		case 3:
			stream = "volumes"
		case 5:
			stream = "deadline"
		}
		rn.history(stream, r)
	}
	c.Meta.Rule = "histories over {node termination Reconcile, NodeClaim lifecycle Reconcile, pod/volume/instance/clock/delete/restart events} from generated worlds, one injected API or provider failure per history (thorough: up to two); model must reproduce every write, provider call, result class and the world after every step; the property oracle is evaluated on the world snapshot taken inside each successful finalizer-removing patch"
	c.Meta.Corr = []string{
		"termination.Controller.Reconcile/finalize = node_reconcile (effects, result, world)",
		"termination.Controller.awaitDrain/awaitVolumeDetachment/awaitInstanceTermination = await_drain/await_volumes/await_instance",
		"terminator.Terminator.Taint + Drain(nil iff nothing waits) = node_finalize taint step + drain_done",
		"lifecycle.Controller.finalize = claim_finalize (effects, result, world)",
		"lifecycle.Controller.Reconcile (finalizer, Launch, persistence) = claim_launch",
		"world at the finalizer-removing patch = instant (model) for Node and NodeClaim",
	}
	c.Meta.Exhaustive = false
	c.Meta.Extra = map[string]interface{}{"assumptions": []string{
		"one reconcile is atomic with respect to other reconciles and environment events (method granularity)",
		"the provider answers truthfully: Delete/Get return NotFound exactly when the instance does not exist",
		"duplicate NodeClaims for one provider id, stale informer reads, registration/initialization/liveness are outside the model",
	}}
	c.Finish("From KV Require Import C09.Model C09.Check.", "case", "check_all", 600)
}
