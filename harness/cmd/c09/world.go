package main

import (
	"fmt"
	"strings"
	"time"

	"github.com/awslabs/operatorpkg/status"
	corev1 "k8s.io/api/core/v1"
	storagev1 "k8s.io/api/storage/v1"
	metav1 "k8s.io/apimachinery/pkg/apis/meta/v1"
	"k8s.io/apimachinery/pkg/types"
	clock "k8s.io/utils/clock/testing"
	"sigs.k8s.io/controller-runtime/pkg/client"

	v1 "sigs.k8s.io/karpenter/pkg/apis/v1"

	"verifharness/kit"
)

// The harness owns the world (API objects + provider + clock) in the model's vocabulary. Before every reconcile
// it is materialised in a fresh fake client (so every timestamp is exactly the world's), afterwards it is read back.

const (
	providerID  = "fake://inst-0"
	claimName   = "claim"
	twinName    = "claim-b"
	holdFin     = "verif.test/hold" // keeps a deleting object without the karpenter finalizer alive in the fake client
	managedKey  = "karpenter.test.sh/testnodeclass"
	lbExclude   = corev1.LabelNodeExcludeBalancers
	tsAnnot     = v1.NodeClaimTerminationTimestampAnnotationKey
	badAnnotVal = "not-a-timestamp"
)

var base = time.Unix(1_700_000_000, 0).UTC()

func at(sec int64) time.Time { return base.Add(time.Duration(sec) * time.Second) }
func rel(t time.Time) int64  { return int64(t.Sub(base) / time.Second) }

type wPod struct {
	ID, Node              int64
	Terminal, Tol, Static bool
	Del                   *int64
	PVs                   []int64
	// spec.terminationGracePeriodSeconds. Harness-only: it decides whether Drain puts a waiting pod into the
	// force-delete batch or the graceful one, which must not change whether Drain reports the node as drained
	// (the model's drain_done ignores it), so it is not part of the Gallina pod.
	Grace *int64
	// Flv selects, reproducibly, among API shapes that the model's pod abstracts from: which toleration makes
	// (or fails to make) the pod tolerate the taint, owner kind, phase, priority class, volume kinds.
	Flv uint32
}

type wVA struct {
	ID, Node int64
	PV       *int64
}

type wNode struct {
	ID                                   int64
	Managed, Fin, Del, Taint, Lbl, Ready bool
	// Flv: shapes behind the projected booleans (a disrupted-key taint with another effect when Taint is false, the
	// load-balancer label with another value when Lbl is false, Ready Unknown / no Ready condition when Ready is false).
	Flv uint32
	// NoPid: spec.providerID is empty. Only generated in worlds where that is indistinguishable for the model (no
	// recorded claim, no duplicate, no instance): GetNodeClaims must return nothing and the provider NotFound.
	NoPid bool
}

// condition encodings: Drained "" | "U" (+since) | "T"; Vol "" | "U" | "T" | "F"; Annot "" | "bad" | "at"
type wClaim struct {
	// Flv: Registered=False instead of Unknown when Reg is false; status.nodeName set when Reg is true
	Flv          uint32
	Managed, Fin bool
	Del          *int64
	Pid, Reg     bool
	Tgp          *int64
	Annot        string
	AnnotAt      int64
	Drained      string
	Since        int64
	Vol          string
	Term         bool
}

type world struct {
	Now   int64
	Nodes []*wNode
	Claim *wClaim
	Twin  *wClaim // a second NodeClaim object with the same provider id (never reconciled by the lifecycle controller)
	Pods  []*wPod
	VAs   []*wVA
	Inst  string // INone IRunning IShutting IGone
}

func i64(x int64) *int64 { return &x }

func (w *world) clone() *world {
	o := &world{Now: w.Now, Inst: w.Inst}
	for _, n := range w.Nodes {
		c := *n
		o.Nodes = append(o.Nodes, &c)
	}
	if w.Claim != nil {
		c := *w.Claim
		o.Claim = &c
	}
	if w.Twin != nil {
		c := *w.Twin
		o.Twin = &c
	}
	for _, p := range w.Pods {
		c := *p
		c.PVs = append([]int64(nil), p.PVs...)
		o.Pods = append(o.Pods, &c)
	}
	for _, v := range w.VAs {
		c := *v
		o.VAs = append(o.VAs, &c)
	}
	return o
}

func (w *world) node(i int64) *wNode {
	for _, n := range w.Nodes {
		if n.ID == i {
			return n
		}
	}
	return nil
}

func instAbsent(s string) bool { return s == "INone" || s == "IGone" }

// ------------------------------------------------------------------ Gallina

func gz(z int64) string {
	if z < 0 {
		return fmt.Sprintf("(%d)", z)
	}
	return fmt.Sprintf("%d", z)
}
func gb(b bool) string { return kit.GBool(b) }
func goz(p *int64) string {
	if p == nil {
		return "None"
	}
	return "(Some " + gz(*p) + ")"
}

func (p *wPod) g() string {
	return fmt.Sprintf("P %s %s %s %s %s %s %s", gz(p.ID), gz(p.Node), gb(p.Terminal), gb(p.Tol), gb(p.Static), goz(p.Del), kit.GListOf(p.PVs, gz))
}
func (v *wVA) g() string { return fmt.Sprintf("V %s %s %s", gz(v.ID), gz(v.Node), goz(v.PV)) }
func (n *wNode) g() string {
	return fmt.Sprintf("N %s %s %s %s %s %s %s", gz(n.ID), gb(n.Managed), gb(n.Fin), gb(n.Del), gb(n.Taint), gb(n.Lbl), gb(n.Ready))
}
func gDrained(d string, since int64) string {
	switch d {
	case "":
		return "DNone"
	case "U":
		return "(DUnknown " + gz(since) + ")"
	}
	return "DTrue"
}
func gVol(v string) string {
	return map[string]string{"": "VNone", "U": "VUnknown", "T": "VTrue", "F": "VFalse"}[v]
}
func (c *wClaim) g() string {
	an := "ANone"
	switch c.Annot {
	case "bad":
		an = "ABad"
	case "at":
		an = "(AAt " + gz(c.AnnotAt) + ")"
	}
	return fmt.Sprintf("C %s %s %s %s %s %s %s %s %s %s", gb(c.Managed), gb(c.Fin), goz(c.Del), gb(c.Pid), gb(c.Reg), goz(c.Tgp), an,
		gDrained(c.Drained, c.Since), gVol(c.Vol), gb(c.Term))
}
func (w *world) g() string {
	cl := "None"
	if w.Claim != nil {
		cl = "(Some (" + w.Claim.g() + "))"
	}
	tw := "None"
	if w.Twin != nil {
		tw = "(Some (" + w.Twin.g() + "))"
	}
	return fmt.Sprintf("(W %s %s %s %s %s %s %s false)", gz(w.Now),
		kit.GListOf(w.Nodes, func(n *wNode) string { return "(" + n.g() + ")" }), cl, tw,
		kit.GListOf(w.Pods, func(p *wPod) string { return "(" + p.g() + ")" }),
		kit.GListOf(w.VAs, func(v *wVA) string { return "(" + v.g() + ")" }), w.Inst)
}

// ------------------------------------------------------------------ materialise

func nodeName(i int64) string { return fmt.Sprintf("n%d", i) }
func podName(i int64) string  { return fmt.Sprintf("p%d", i) }
func vaName(i int64) string   { return fmt.Sprintf("va%d", i) }
func pvName(i int64) string   { return fmt.Sprintf("pv-%d", i) }
func pvcName(i int64) string  { return fmt.Sprintf("pvc-%d", i) }

func mkNode(n *wNode) *corev1.Node {
	o := &corev1.Node{
		ObjectMeta: metav1.ObjectMeta{Name: nodeName(n.ID), Labels: map[string]string{v1.NodePoolLabelKey: "pool"}, CreationTimestamp: metav1.NewTime(base)},
		Spec:       corev1.NodeSpec{ProviderID: providerID},
	}
	if n.Managed {
		o.Labels[managedKey] = "default"
	}
	if n.Lbl {
		o.Labels[lbExclude] = "karpenter"
	} else if n.Flv&1 == 1 {
		o.Labels[lbExclude] = "someone-else"
	}
	if n.NoPid {
		o.Spec.ProviderID = ""
	}
	if n.Fin {
		o.Finalizers = append(o.Finalizers, v1.TerminationFinalizer)
	}
	if n.Del {
		t := metav1.NewTime(base)
		o.DeletionTimestamp = &t
		if !n.Fin {
			o.Finalizers = append(o.Finalizers, holdFin)
		}
	}
	o.Spec.Taints = append(o.Spec.Taints, corev1.Taint{Key: "example.com/other", Effect: corev1.TaintEffectNoSchedule})
	if n.Taint {
		o.Spec.Taints = append(o.Spec.Taints, v1.DisruptedNoScheduleTaint)
	} else if n.Flv&2 == 2 {
		o.Spec.Taints = append(o.Spec.Taints, corev1.Taint{Key: v1.DisruptedTaintKey, Effect: corev1.TaintEffectNoExecute})
	}
	switch {
	case n.Ready:
		o.Status.Conditions = []corev1.NodeCondition{{Type: corev1.NodeMemoryPressure, Status: corev1.ConditionFalse}, {Type: corev1.NodeReady, Status: corev1.ConditionTrue}}
	case n.Flv&12 == 4:
		o.Status.Conditions = []corev1.NodeCondition{{Type: corev1.NodeReady, Status: corev1.ConditionUnknown}}
	case n.Flv&12 == 8:
		o.Status.Conditions = []corev1.NodeCondition{{Type: corev1.NodeMemoryPressure, Status: corev1.ConditionFalse}} // no Ready condition
	default:
		o.Status.Conditions = []corev1.NodeCondition{{Type: corev1.NodeReady, Status: corev1.ConditionFalse}}
	}
	return o
}

func clkAt(sec int64) status.ForOption { return status.WithClock(clock.NewFakeClock(at(sec))) }

func mkClaim(c *wClaim, now int64) *v1.NodeClaim { return mkClaimNamed(claimName, c, now) }

func mkClaimNamed(name string, c *wClaim, now int64) *v1.NodeClaim {
	o := &v1.NodeClaim{
		ObjectMeta: metav1.ObjectMeta{Name: name, UID: types.UID(name + "-uid"), Generation: 1, CreationTimestamp: metav1.NewTime(at(now)),
			Labels: map[string]string{v1.NodePoolLabelKey: "pool"}},
		Spec: v1.NodeClaimSpec{
			NodeClassRef: &v1.NodeClassReference{Group: "karpenter.test.sh", Kind: "TestNodeClass", Name: "default"},
			Requirements: []v1.NodeSelectorRequirementWithMinValues{},
		},
	}
	if !c.Managed {
		o.Spec.NodeClassRef.Kind = "ForeignNodeClass"
	}
	if c.Fin {
		o.Finalizers = append(o.Finalizers, v1.TerminationFinalizer)
	}
	if c.Del != nil {
		t := metav1.NewTime(at(*c.Del))
		o.DeletionTimestamp = &t
		if !c.Fin {
			o.Finalizers = append(o.Finalizers, holdFin)
		}
	}
	if c.Tgp != nil {
		o.Spec.TerminationGracePeriod = &metav1.Duration{Duration: time.Duration(*c.Tgp) * time.Second}
	}
	switch c.Annot {
	case "bad":
		o.Annotations = map[string]string{tsAnnot: badAnnotVal}
	case "at":
		o.Annotations = map[string]string{tsAnnot: at(c.AnnotAt).Format(time.RFC3339)}
	}
	// the standard conditions exactly as the controllers' own ConditionSet produces them
	// (Launched / Registered last changed just now: the launch and registration timeouts of liveness are out of scope)
	cs := o.StatusConditions(clkAt(now))
	if c.Pid {
		o.Status.ProviderID = providerID
		cs.SetTrue(v1.ConditionTypeLaunched)
	}
	if c.Reg {
		cs.SetTrue(v1.ConditionTypeRegistered)
		if c.Flv&1 == 1 {
			o.Status.NodeName = nodeName(0)
		}
	} else if c.Flv&2 == 2 && c.Pid {
		cs.SetFalse(v1.ConditionTypeRegistered, "MultipleNodesFound", "Invariant violated, matched multiple nodes")
	}
	switch c.Drained {
	case "U":
		o.StatusConditions(clkAt(c.Since)).SetUnknownWithReason(v1.ConditionTypeDrained, "Draining", "Draining")
	case "T":
		cs.SetTrue(v1.ConditionTypeDrained)
	}
	switch c.Vol {
	case "U":
		cs.SetUnknownWithReason(v1.ConditionTypeVolumesDetached, "AwaitingVolumeDetachment", "AwaitingVolumeDetachment")
	case "T":
		cs.SetTrue(v1.ConditionTypeVolumesDetached)
	case "F":
		cs.SetFalse(v1.ConditionTypeVolumesDetached, "TerminationGracePeriodElapsed", "TerminationGracePeriodElapsed")
	}
	if c.Term {
		cs.SetTrue(v1.ConditionTypeInstanceTerminating)
	}
	return o
}

var (
	tolYes = [][]corev1.Toleration{
		{{Key: v1.DisruptedTaintKey, Operator: corev1.TolerationOpExists, Effect: corev1.TaintEffectNoSchedule}},
		{{Key: v1.DisruptedTaintKey, Operator: corev1.TolerationOpExists}},
		{{Operator: corev1.TolerationOpExists}},
		{{Key: "example.com/other", Operator: corev1.TolerationOpExists}, {Key: v1.DisruptedTaintKey, Operator: corev1.TolerationOpEqual, Effect: corev1.TaintEffectNoSchedule}},
	}
	tolNo = [][]corev1.Toleration{
		nil,
		{{Key: "example.com/other", Operator: corev1.TolerationOpExists}},
		{{Key: v1.DisruptedTaintKey, Operator: corev1.TolerationOpExists, Effect: corev1.TaintEffectNoExecute}},
		{{Key: v1.DisruptedTaintKey, Operator: corev1.TolerationOpEqual, Value: "x", Effect: corev1.TaintEffectNoSchedule}},
	}
)

func mkPod(p *wPod) *corev1.Pod {
	f := p.Flv
	o := &corev1.Pod{
		ObjectMeta: metav1.ObjectMeta{Namespace: "default", Name: podName(p.ID), UID: types.UID(fmt.Sprintf("pu%d", p.ID))},
		Spec:       corev1.PodSpec{NodeName: nodeName(p.Node), Containers: []corev1.Container{{Name: "c", Image: "i"}}},
		Status:     corev1.PodStatus{Phase: corev1.PodRunning},
	}
	switch {
	case p.Terminal && f&1 == 1:
		o.Status.Phase = corev1.PodFailed
	case p.Terminal:
		o.Status.Phase = corev1.PodSucceeded
	case f&1 == 1:
		o.Status.Phase = corev1.PodPending
	}
	o.Spec.TerminationGracePeriodSeconds = p.Grace
	if p.Tol {
		o.Spec.Tolerations = tolYes[(f>>1)&3]
	} else {
		o.Spec.Tolerations = tolNo[(f>>1)&3]
	}
	if p.Static {
		o.OwnerReferences = []metav1.OwnerReference{{APIVersion: "v1", Kind: "Node", Name: nodeName(p.Node), UID: "nu"}}
	} else {
		switch (f >> 3) & 3 {
		case 1:
			o.OwnerReferences = []metav1.OwnerReference{{APIVersion: "apps/v1", Kind: "DaemonSet", Name: "ds", UID: "dsu"}}
		case 2:
			o.OwnerReferences = []metav1.OwnerReference{{APIVersion: "apps/v1", Kind: "ReplicaSet", Name: "rs", UID: "rsu"}}
		}
	}
	switch (f >> 5) & 3 {
	case 1:
		o.Spec.PriorityClassName = "system-cluster-critical"
	case 2:
		o.Spec.PriorityClassName = "system-node-critical"
	}
	if p.Del != nil {
		t := metav1.NewTime(at(*p.Del))
		o.DeletionTimestamp = &t
		o.Finalizers = []string{holdFin}
	}
	for _, x := range p.PVs {
		vol := corev1.Volume{Name: fmt.Sprintf("vol%d", x)}
		if (f>>7)&1 == 1 { // generic ephemeral volume: its PVC is named <pod>-<volume>
			vol.VolumeSource.Ephemeral = &corev1.EphemeralVolumeSource{}
		} else {
			vol.VolumeSource.PersistentVolumeClaim = &corev1.PersistentVolumeClaimVolumeSource{ClaimName: pvcName(x)}
		}
		o.Spec.Volumes = append(o.Spec.Volumes, vol)
	}
	if (f>>8)&1 == 1 { // a volume that is no claim at all
		o.Spec.Volumes = append(o.Spec.Volumes, corev1.Volume{Name: "scratch", VolumeSource: corev1.VolumeSource{EmptyDir: &corev1.EmptyDirVolumeSource{}}})
	}
	if lostClaim(p) { // a claim that does not exist (the Get answers NotFound by itself)
		o.Spec.Volumes = append(o.Spec.Volumes, corev1.Volume{Name: "lost", VolumeSource: corev1.VolumeSource{PersistentVolumeClaim: &corev1.PersistentVolumeClaimVolumeSource{ClaimName: "no-such-claim"}}})
	}
	return o
}

// lostClaim: the pod mounts a PersistentVolumeClaim that does not exist. The model's pod lists only the PVs of
// existing claims, so the extra Get is visible to it only through an injected SGetPVC fault, which the generator
// therefore does not plan in such worlds.
func lostClaim(p *wPod) bool { return (p.Flv>>9)&3 == 3 }

func mkVA(v *wVA) *storagev1.VolumeAttachment {
	o := &storagev1.VolumeAttachment{ObjectMeta: metav1.ObjectMeta{Name: vaName(v.ID)},
		Spec: storagev1.VolumeAttachmentSpec{Attacher: "csi", NodeName: nodeName(v.Node)}}
	if v.PV != nil {
		s := pvName(*v.PV)
		o.Spec.Source.PersistentVolumeName = &s
	}
	return o
}

func (w *world) objects() []client.Object {
	var objs []client.Object
	for _, n := range w.Nodes {
		objs = append(objs, mkNode(n))
	}
	if w.Claim != nil {
		objs = append(objs, mkClaim(w.Claim, w.Now))
	}
	if w.Twin != nil {
		objs = append(objs, mkClaimNamed(twinName, w.Twin, w.Now))
	}
	pvcs := map[string]int64{}
	for _, p := range w.Pods {
		objs = append(objs, mkPod(p))
		for _, x := range p.PVs {
			if (p.Flv>>7)&1 == 1 {
				pvcs[fmt.Sprintf("%s-vol%d", podName(p.ID), x)] = x
			} else {
				pvcs[pvcName(x)] = x
			}
		}
	}
	for name, x := range pvcs {
		objs = append(objs, &corev1.PersistentVolumeClaim{ObjectMeta: metav1.ObjectMeta{Namespace: "default", Name: name},
			Spec: corev1.PersistentVolumeClaimSpec{VolumeName: pvName(x)}})
	}
	for _, v := range w.VAs {
		objs = append(objs, mkVA(v))
	}
	return objs
}

// ------------------------------------------------------------------ read back

func hasFin(o client.Object, f string) bool {
	for _, x := range o.GetFinalizers() {
		if x == f {
			return true
		}
	}
	return false
}

func condsOf(nc *v1.NodeClaim) (d string, since int64, vol string, term bool) {
	for _, c := range nc.Status.Conditions {
		switch c.Type {
		case v1.ConditionTypeDrained:
			switch c.Status {
			case metav1.ConditionUnknown:
				d, since = "U", rel(c.LastTransitionTime.Time)
			case metav1.ConditionTrue:
				d = "T"
			default:
				panic("Drained=False is never written")
			}
		case v1.ConditionTypeVolumesDetached:
			vol = map[metav1.ConditionStatus]string{metav1.ConditionUnknown: "U", metav1.ConditionTrue: "T", metav1.ConditionFalse: "F"}[c.Status]
		case v1.ConditionTypeInstanceTerminating:
			term = c.Status == metav1.ConditionTrue
		}
	}
	return
}

func annotOf(nc *v1.NodeClaim) (string, int64) {
	val, ok := nc.Annotations[tsAnnot]
	if !ok {
		return "", 0
	}
	t, err := time.Parse(time.RFC3339, val)
	if err != nil {
		return "bad", 0
	}
	return "at", rel(t)
}

func isTrue(nc *v1.NodeClaim, typ string) bool {
	for _, c := range nc.Status.Conditions {
		if c.Type == typ {
			return c.Status == metav1.ConditionTrue
		}
	}
	return false
}

func strs(xs []string) string { return strings.Join(xs, ",") }
