package main

import (
	"context"
	"errors"
	"fmt"
	"strings"
	"time"

	corev1 "k8s.io/api/core/v1"
	storagev1 "k8s.io/api/storage/v1"
	apierrors "k8s.io/apimachinery/pkg/api/errors"
	"k8s.io/apimachinery/pkg/runtime/schema"
	clock "k8s.io/utils/clock/testing"
	"sigs.k8s.io/controller-runtime/pkg/client"
	"sigs.k8s.io/controller-runtime/pkg/client/interceptor"
	"sigs.k8s.io/controller-runtime/pkg/reconcile"

	v1 "sigs.k8s.io/karpenter/pkg/apis/v1"
	"sigs.k8s.io/karpenter/pkg/cloudprovider"
	"sigs.k8s.io/karpenter/pkg/cloudprovider/fake"
	"sigs.k8s.io/karpenter/pkg/controllers/node/termination"
	"sigs.k8s.io/karpenter/pkg/controllers/node/termination/terminator"
	"sigs.k8s.io/karpenter/pkg/controllers/nodeclaim/lifecycle"
	"sigs.k8s.io/karpenter/pkg/state/nodepoolhealth"
	"sigs.k8s.io/karpenter/pkg/test"

	"verifharness/kit"
)

// ------------------------------------------------------------------ fault plan

type fault struct {
	Site string // constructor name of the model's [site]; "SDelNode" carries Arg
	Arg  int64
	Kind string // KConflict KNotFound KServer
}

func (f *fault) g() string {
	if f == nil {
		return "None"
	}
	s := f.Site
	if s == "SDelNode" {
		s = "(SDelNode " + gz(f.Arg) + ")"
	}
	return "(Some (" + s + ", " + f.Kind + "))"
}

func (f *fault) key() string {
	if f == nil {
		return "none"
	}
	return f.Site + ":" + f.Kind
}

func apiErr(kind, resource, name string) error {
	gr := schema.GroupResource{Resource: resource}
	switch kind {
	case "KConflict":
		return apierrors.NewConflict(gr, name, errors.New("injected conflict"))
	case "KNotFound":
		return apierrors.NewNotFound(gr, name)
	}
	return apierrors.NewInternalError(errors.New("injected server error"))
}

// ------------------------------------------------------------------ provider

// provider is the cloud as the property sees it: one instance that is created, asked to terminate (Delete returns
// nil while it still exists) and disappears when the environment says so. Only Create/Delete/Get are overridden.
type provider struct {
	*fake.CloudProvider
	s     *sut
	plain bool // alternate the two shapes of a generic Create error (CreateError / plain error with a long message)
}

func (p *provider) Create(_ context.Context, nc *v1.NodeClaim) (*v1.NodeClaim, error) {
	if k := p.s.inject("SProvCreate"); k != "" {
		p.s.eff("EProvCreate false")
		switch k {
		case "KNotFound":
			return nil, cloudprovider.NewInsufficientCapacityError(errors.New("injected: no capacity"))
		case "KConflict":
			return nil, cloudprovider.NewNodeClassNotReadyError(errors.New("injected: node class not ready"))
		}
		p.plain = !p.plain
		if !p.plain {
			return nil, cloudprovider.NewCreateError(errors.New("injected create error"), "InjectedReason", "injected create error")
		}
		return nil, errors.New("injected create error: " + strings.Repeat("long message ", 30))
	}
	p.s.eff("EProvCreate true")
	if instAbsent(p.s.inst) {
		p.s.inst = "IRunning"
	}
	created := nc.DeepCopy()
	created.Status.ProviderID = providerID
	created.Labels = map[string]string{corev1.LabelInstanceTypeStable: "it-1", corev1.LabelTopologyZone: "zone-1", v1.CapacityTypeLabelKey: "on-demand"}
	return created, nil
}

func (p *provider) Delete(_ context.Context, nc *v1.NodeClaim) error {
	if p.s.inject("SProvDelete") != "" {
		p.s.eff("EProvDelete PErr")
		return errors.New("injected delete error")
	}
	if nc.Status.ProviderID != providerID || instAbsent(p.s.inst) {
		p.s.eff("EProvDelete PNotFound")
		return cloudprovider.NewNodeClaimNotFoundError(fmt.Errorf("instance %s not found", providerID))
	}
	p.s.eff("EProvDelete PNil")
	p.s.inst = "IShutting"
	return nil
}

func (p *provider) Get(_ context.Context, id string) (*v1.NodeClaim, error) {
	if p.s.inject("SProvGet") != "" {
		p.s.eff("EProvGet PErr")
		return nil, errors.New("injected get error")
	}
	if id != providerID || instAbsent(p.s.inst) {
		p.s.eff("EProvGet PNotFound")
		return nil, cloudprovider.NewNodeClaimNotFoundError(fmt.Errorf("instance %s not found", id))
	}
	p.s.eff("EProvGet PNil")
	return &v1.NodeClaim{Status: v1.NodeClaimStatus{ProviderID: id}}, nil
}

// ------------------------------------------------------------------ system under test

type swap struct{ client.Client }

type instantObs struct {
	target string // "TNode i" | "TClaim"
	w      *world
}

type sut struct {
	clk  *clock.FakeClock
	sw   *swap
	cp   *provider
	node *termination.Controller
	life *lifecycle.Controller

	// per reconcile
	w        *world // the world the reconcile started from
	inst     string
	cur      string // "node" | "claim-fin" | "claim-launch"
	f        *fault
	fired    bool
	quiet    bool
	effs     []string
	instants []instantObs
	podLists int
	ncPatch  int
	persist  int // 0 none, 1 meta ok, 2 both ok, -1 failed
}

func newSut() *sut {
	s := &sut{clk: clock.NewFakeClock(base), sw: &swap{}}
	s.cp = &provider{CloudProvider: fake.NewCloudProvider(), s: s}
	s.restart()
	return s
}

// restart = process restart: new controllers (launch cache and eviction queue are in-memory only).
func (s *sut) restart() {
	rec := test.NewEventRecorder()
	q := terminator.NewQueue(s.clk, s.sw, rec)
	s.node = termination.NewController(s.clk, s.sw, s.cp, terminator.NewTerminator(s.clk, s.sw, q, rec), rec)
	s.life = lifecycle.NewController(s.clk, s.sw, s.cp, rec, nodepoolhealth.NewState(), nil)
}

func (s *sut) eff(e string) { s.effs = append(s.effs, "("+e+")") }

// inject reports the error kind the plan injects at this call site ("" = none).
func (s *sut) inject(site string) string {
	if s.quiet || s.f == nil || s.f.Site != site {
		return ""
	}
	s.fired = true
	return s.f.Kind
}

func (s *sut) injectDelNode(i int64) string {
	if s.quiet || s.f == nil || s.f.Site != "SDelNode" || s.f.Arg != i {
		return ""
	}
	s.fired = true
	return s.f.Kind
}

func nodeID(name string) int64 {
	var i int64
	if _, err := fmt.Sscanf(name, "n%d", &i); err != nil {
		panic("unexpected node name " + name)
	}
	return i
}

func (s *sut) funcs() interceptor.Funcs {
	unexpected := func(what string) error { panic("unexpected write by a controller: " + what) }
	return interceptor.Funcs{
		Get: func(ctx context.Context, c client.WithWatch, key client.ObjectKey, obj client.Object, opts ...client.GetOption) error {
			if _, ok := obj.(*corev1.PersistentVolumeClaim); ok {
				if k := s.inject("SGetPVC"); k != "" {
					return apiErr(k, "persistentvolumeclaims", key.Name)
				}
			}
			return c.Get(ctx, key, obj, opts...)
		},
		List: func(ctx context.Context, c client.WithWatch, list client.ObjectList, opts ...client.ListOption) error {
			site := ""
			switch list.(type) {
			case *v1.NodeClaimList:
				site = "SListClaims"
			case *corev1.PodList:
				if !s.quiet && s.cur == "node" {
					s.podLists++
					site = map[int]string{1: "SListPods", 2: "SListPodsVA"}[s.podLists]
				}
			case *storagev1.VolumeAttachmentList:
				site = "SListVAs"
			case *corev1.NodeList:
				if s.cur == "claim-fin" {
					site = "SListNodes"
				}
			}
			if site != "" {
				if k := s.inject(site); k != "" {
					return apiErr(k, "list", "")
				}
			}
			return c.List(ctx, list, opts...)
		},
		Delete: func(ctx context.Context, c client.WithWatch, obj client.Object, opts ...client.DeleteOption) error {
			if s.quiet {
				return c.Delete(ctx, obj, opts...)
			}
			switch o := obj.(type) {
			case *v1.NodeClaim:
				e := "EDelClaim"
				if o.Name == twinName {
					e = "EDelTwin"
				}
				if k := s.inject("SDelClaim"); k != "" {
					s.eff(e + " false")
					return apiErr(k, "nodeclaims", o.Name)
				}
				s.eff(e + " true")
			case *corev1.Node:
				i := nodeID(o.Name)
				if k := s.injectDelNode(i); k != "" {
					s.eff("EDelNode " + gz(i) + " false")
					return apiErr(k, "nodes", o.Name)
				}
				s.eff("EDelNode " + gz(i) + " true")
			default:
				return unexpected(fmt.Sprintf("delete %T", obj))
			}
			return c.Delete(ctx, obj, opts...)
		},
		Patch: func(ctx context.Context, c client.WithWatch, obj client.Object, patch client.Patch, opts ...client.PatchOption) error {
			if s.quiet {
				return c.Patch(ctx, obj, patch, opts...)
			}
			switch o := obj.(type) {
			case *corev1.Node:
				i := nodeID(o.Name)
				if hasFin(o, v1.TerminationFinalizer) {
					if k := s.inject("STaint"); k != "" {
						s.eff("ETaint " + gz(i) + " false")
						return apiErr(k, "nodes", o.Name)
					}
					err := c.Patch(ctx, obj, patch, opts...)
					s.eff("ETaint " + gz(i) + " " + gb(err == nil))
					return err
				}
				if k := s.inject("SRmNodeFin"); k != "" {
					s.eff("ERmNodeFin " + gz(i) + " false")
					return apiErr(k, "nodes", o.Name)
				}
				snap := s.readBack()
				err := c.Patch(ctx, obj, patch, opts...)
				s.eff("ERmNodeFin " + gz(i) + " " + gb(err == nil))
				if err == nil {
					s.instants = append(s.instants, instantObs{"TNode " + gz(i), snap})
				}
				return err
			case *v1.NodeClaim:
				s.ncPatch++
				switch {
				case s.cur == "claim-fin" && !hasFin(o, v1.TerminationFinalizer):
					if k := s.inject("SRmClaimFin"); k != "" {
						s.eff("ERmClaimFin false")
						return apiErr(k, "nodeclaims", o.Name)
					}
					snap := s.readBack()
					err := c.Patch(ctx, obj, patch, opts...)
					s.eff("ERmClaimFin " + gb(err == nil))
					if err == nil {
						s.instants = append(s.instants, instantObs{"TClaim", snap})
					}
					return err
				case s.cur == "claim-fin":
					_, t := annotOf(o)
					if k := s.inject("SAnnot"); k != "" {
						s.eff("EAnnot false " + gz(t))
						return apiErr(k, "nodeclaims", o.Name)
					}
					err := c.Patch(ctx, obj, patch, opts...)
					s.eff("EAnnot " + gb(err == nil) + " " + gz(t))
					return err
				case s.cur == "claim-launch" && s.ncPatch == 1 && !s.w.Claim.Fin:
					if k := s.inject("SAddFin"); k != "" {
						s.eff("EAddFin false")
						return apiErr(k, "nodeclaims", o.Name)
					}
					s.eff("EAddFin true")
				case s.cur == "claim-launch":
					tracked := !s.w.Claim.Pid && o.Status.ProviderID != ""
					if k := s.inject("SPatchMeta"); k != "" {
						if tracked {
							s.persist = -1
						}
						return apiErr(k, "nodeclaims", o.Name)
					}
					if tracked {
						s.persist = 1
					}
				default:
					return unexpected("patch NodeClaim by " + s.cur)
				}
				return c.Patch(ctx, obj, patch, opts...)
			}
			return unexpected(fmt.Sprintf("patch %T", obj))
		},
		SubResourcePatch: func(ctx context.Context, c client.Client, sub string, obj client.Object, patch client.Patch, opts ...client.SubResourcePatchOption) error {
			if s.quiet {
				return c.SubResource(sub).Patch(ctx, obj, patch, opts...)
			}
			o, ok := obj.(*v1.NodeClaim)
			if !ok || sub != "status" {
				return unexpected(fmt.Sprintf("subresource patch %s %T", sub, obj))
			}
			if s.cur == "claim-launch" {
				tracked := !s.w.Claim.Pid && o.Status.ProviderID != ""
				if k := s.inject("SPatchStatusL"); k != "" {
					if tracked {
						s.persist = -1
					}
					return apiErr(k, "nodeclaims", o.Name)
				}
				err := c.SubResource(sub).Patch(ctx, obj, patch, opts...)
				if tracked && err == nil {
					s.persist = 2
				}
				return err
			}
			d, since, vol, term := condsOf(o)
			e := fmt.Sprintf("%s %s %s", gDrained(d, since), gVol(vol), gb(term))
			st := "EStatus "
			if o.Name == twinName {
				st = "EStatusTwin "
			}
			if k := s.inject("SPatchStatus"); k != "" {
				s.eff(st + "false " + e)
				return apiErr(k, "nodeclaims", o.Name)
			}
			err := c.SubResource(sub).Patch(ctx, obj, patch, opts...)
			s.eff(st + gb(err == nil) + " " + e)
			return err
		},
		Create: func(ctx context.Context, _ client.WithWatch, obj client.Object, _ ...client.CreateOption) error {
			return unexpected(fmt.Sprintf("create %T", obj))
		},
		Update: func(ctx context.Context, _ client.WithWatch, obj client.Object, _ ...client.UpdateOption) error {
			return unexpected(fmt.Sprintf("update %T", obj))
		},
		DeleteAllOf: func(ctx context.Context, _ client.WithWatch, obj client.Object, _ ...client.DeleteAllOfOption) error {
			return unexpected(fmt.Sprintf("deleteallof %T", obj))
		},
		SubResourceUpdate: func(ctx context.Context, _ client.Client, sub string, obj client.Object, _ ...client.SubResourceUpdateOption) error {
			return unexpected(fmt.Sprintf("subresource update %s %T", sub, obj))
		},
		SubResourceCreate: func(ctx context.Context, _ client.Client, sub string, obj client.Object, _ client.Object, _ ...client.SubResourceCreateOption) error {
			return unexpected(fmt.Sprintf("subresource create %s %T", sub, obj))
		},
	}
}

// readBack reads the API objects and the provider into the model's vocabulary. Timestamps the fake client took from
// the wall clock during this reconcile (deletionTimestamp) are replaced by the world's clock.
func (s *sut) readBack() *world {
	ctx := context.Background()
	saved := s.quiet
	s.quiet = true
	defer func() { s.quiet = saved }()
	o := s.w.clone()
	o.Inst = s.inst
	var nodes []*wNode
	for _, n := range o.Nodes {
		var obj corev1.Node
		if err := s.sw.Get(ctx, client.ObjectKey{Name: nodeName(n.ID)}, &obj); err != nil {
			if apierrors.IsNotFound(err) {
				continue
			}
			panic(err)
		}
		n.Fin = hasFin(&obj, v1.TerminationFinalizer)
		n.Del = obj.DeletionTimestamp != nil
		n.Taint, n.Lbl = false, false
		for _, t := range obj.Spec.Taints {
			if t.MatchTaint(&v1.DisruptedNoScheduleTaint) {
				n.Taint = true
			}
		}
		n.Lbl = obj.Labels[lbExclude] == "karpenter"
		nodes = append(nodes, n)
	}
	o.Nodes = nodes
	readClaim := func(name string, slot **wClaim) {
		if *slot == nil {
			return
		}
		var obj v1.NodeClaim
		if err := s.sw.Get(ctx, client.ObjectKey{Name: name}, &obj); err != nil {
			if !apierrors.IsNotFound(err) {
				panic(err)
			}
			*slot = nil
		} else {
			c := *slot
			c.Fin = hasFin(&obj, v1.TerminationFinalizer)
			if obj.DeletionTimestamp == nil {
				c.Del = nil
			} else if c.Del == nil {
				c.Del = i64(o.Now)
			}
			c.Pid = obj.Status.ProviderID != ""
			if c.Pid != isTrue(&obj, v1.ConditionTypeLaunched) {
				panic("providerID and Launched disagree")
			}
			c.Reg = isTrue(&obj, v1.ConditionTypeRegistered)
			c.Annot, c.AnnotAt = annotOf(&obj)
			c.Drained, c.Since, c.Vol, c.Term = condsOf(&obj)
		}
	}
	readClaim(claimName, &o.Claim)
	readClaim(twinName, &o.Twin)
	var pl corev1.PodList
	if err := s.sw.List(ctx, &pl); err != nil {
		panic(err)
	}
	var vl storagev1.VolumeAttachmentList
	if err := s.sw.List(ctx, &vl); err != nil {
		panic(err)
	}
	if len(pl.Items) != len(o.Pods) || len(vl.Items) != len(o.VAs) {
		panic("a controller removed pods or volume attachments")
	}
	return o
}

func classify(r reconcile.Result, err error) string {
	switch {
	case err != nil:
		return "RErr"
	case r.RequeueAfter == time.Second:
		return "RAfter1"
	case r.RequeueAfter == 5*time.Second:
		return "RAfter5"
	case r.RequeueAfter > 0: // liveness timeouts of the launch path (result.Min also sets Requeue): not modelled
		return "ROk"
	case r.Requeue: //nolint:staticcheck
		return "RRequeue"
	}
	return "ROk"
}

type outcome struct {
	effs     []string
	res      string
	post     *world
	instants []instantObs
	fired    bool
}

// reconcile runs one Reconcile of the named controller ("node" with id, or "claim") on the world. staleNode /
// staleClaim, when set, is an older version of the object: it is what the reconcile is handed (a lagging informer
// cache), with a resourceVersion that differs from the stored object's, while every read and write of the reconcile
// goes to the current world.
func (s *sut) reconcile(w *world, ctrl string, id int64, f *fault, staleNode *wNode, staleClaim *wClaim) outcome {
	ctx := kit.Context()
	s.w, s.inst, s.f = w, w.Inst, f
	s.fired, s.effs, s.instants, s.podLists, s.ncPatch, s.persist = false, nil, nil, 0, 0, 0
	s.clk.SetTime(at(w.Now))
	s.quiet = true
	s.sw.Client = kit.NewClient(s.funcs(), w.objects()...)
	res := "ROk"
	switch ctrl {
	case "node":
		var obj corev1.Node
		err := s.sw.Get(ctx, client.ObjectKey{Name: nodeName(id)}, &obj)
		s.quiet = false
		if staleNode != nil {
			old := mkNode(staleNode)
			old.ResourceVersion = "1"
			s.cur = "node"
			res = classify(s.node.Reconcile(ctx, old))
		} else if err == nil {
			s.cur = "node"
			res = classify(s.node.Reconcile(ctx, &obj))
		} else if !apierrors.IsNotFound(err) {
			panic(err)
		}
	case "claim":
		var obj v1.NodeClaim
		err := s.sw.Get(ctx, client.ObjectKey{Name: claimName}, &obj)
		s.quiet = false
		if staleClaim != nil {
			old := mkClaim(staleClaim, w.Now)
			old.ResourceVersion = "1"
			s.cur = "claim-fin"
			res = classify(s.life.Reconcile(ctx, old))
		} else if err == nil {
			s.cur = "claim-launch"
			if obj.DeletionTimestamp != nil {
				s.cur = "claim-fin"
			}
			res = classify(s.life.Reconcile(ctx, &obj))
			if s.persist != 0 {
				s.eff("EPersist " + gb(s.persist == 2))
			}
		} else if !apierrors.IsNotFound(err) {
			panic(err)
		}
	}
	s.clk.SetTime(at(w.Now))
	return outcome{effs: s.effs, res: res, post: s.readBack(), instants: s.instants, fired: s.fired}
}
