// vh runs the implementation side of the correspondence checks.
package main

import (
	"fmt"
	"os"

	"verifharness/props/c20"
)

var props = map[string]func([]string) int{
	"c20": c20.Main,
}

func main() {
	if len(os.Args) < 2 {
		fmt.Fprintln(os.Stderr, "usage: vh <property> [flags]")
		os.Exit(2)
	}
	f, ok := props[os.Args[1]]
	if !ok {
		fmt.Fprintln(os.Stderr, "unknown property", os.Args[1])
		os.Exit(2)
	}
	os.Exit(f(os.Args[2:]))
}
