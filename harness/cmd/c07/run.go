package main

import (
	"context"
	"errors"
	"fmt"
	"strings"
	"time"

	"github.com/awslabs/operatorpkg/object"
	"github.com/awslabs/operatorpkg/status"
	corev1 "k8s.io/api/core/v1"
	policyv1 "k8s.io/api/policy/v1"
	metav1 "k8s.io/apimachinery/pkg/apis/meta/v1"
	"k8s.io/apimachinery/pkg/types"
	"k8s.io/apimachinery/pkg/util/intstr"
	clock "k8s.io/utils/clock/testing"
	"sigs.k8s.io/controller-runtime/pkg/client"
	"sigs.k8s.io/controller-runtime/pkg/client/interceptor"

	v1 "sigs.k8s.io/karpenter/pkg/apis/v1"
	"sigs.k8s.io/karpenter/pkg/cloudprovider"
	"sigs.k8s.io/karpenter/pkg/cloudprovider/fake"
	"sigs.k8s.io/karpenter/pkg/controllers/disruption"
	ncdisruption "sigs.k8s.io/karpenter/pkg/controllers/nodeclaim/disruption"
	"sigs.k8s.io/karpenter/pkg/controllers/state"
	"sigs.k8s.io/karpenter/pkg/operator/options"
	"sigs.k8s.io/karpenter/pkg/test"
	testv1alpha1 "sigs.k8s.io/karpenter/pkg/test/v1alpha1"
	disruptionutils "sigs.k8s.io/karpenter/pkg/utils/disruption"
	nodeutils "sigs.k8s.io/karpenter/pkg/utils/node"
	"sigs.k8s.io/karpenter/pkg/utils/pdb"

	"verifharness/kit"
)

var baseTime = time.Unix(1_700_000_000, 0)

func at(ns int64) time.Time { return baseTime.Add(time.Duration(ns)) }

var realKeys = map[string]string{
	"np":   v1.NodePoolLabelKey,
	"it":   corev1.LabelInstanceTypeStable,
	"ct":   v1.CapacityTypeLabelKey,
	"zone": corev1.LabelTopologyZone,
	"reg":  v1.NodeRegisteredLabelKey,
	"init": v1.NodeInitializedLabelKey,
	"dnd":  v1.DoNotDisruptAnnotationKey,
}

func realMap(m map[string]string) map[string]string {
	if m == nil {
		return nil
	}
	out := map[string]string{}
	for k, v := range m {
		if rk, ok := realKeys[k]; ok {
			out[rk] = v
		} else {
			out[k] = v
		}
	}
	return out
}

func cond(t string, s *string, ltt time.Time) []status.Condition {
	if s == nil {
		return nil
	}
	return []status.Condition{{Type: t, Status: metav1.ConditionStatus(*s), Reason: t, Message: "", LastTransitionTime: metav1.Time{Time: ltt}}}
}

func mkClaim(n SNode) *v1.NodeClaim {
	c := n.Claim
	nc := &v1.NodeClaim{ObjectMeta: metav1.ObjectMeta{Name: "nc-" + n.ID, Labels: realMap(c.Labels), Annotations: realMap(c.Annos),
		UID: types.UID("uid-" + n.ID), CreationTimestamp: metav1.Time{Time: at(-7200e9)}}}
	nc.Spec.NodeClassRef = &v1.NodeClassReference{Group: object.GVK(&testv1alpha1.TestNodeClass{}).Group, Kind: object.GVK(&testv1alpha1.TestNodeClass{}).Kind, Name: "nodeclass"}
	nc.Status.ProviderID = n.ID
	if n.Node != nil {
		nc.Status.NodeName = "node-" + n.ID
	}
	if c.Deleting {
		nc.DeletionTimestamp = &metav1.Time{Time: at(-60e9)}
		nc.Finalizers = []string{v1.TerminationFinalizer}
	}
	if c.ExpireAfter != nil {
		d := time.Duration(*c.ExpireAfter)
		nc.Spec.ExpireAfter = v1.NillableDuration{Duration: &d}
	}
	if c.TGP {
		nc.Spec.TerminationGracePeriod = &metav1.Duration{Duration: 5 * time.Minute}
	}
	nc.Status.Conditions = append(nc.Status.Conditions, cond(v1.ConditionTypeInstanceTerminating, c.Terminating, at(-60e9))...)
	nc.Status.Conditions = append(nc.Status.Conditions, cond(v1.ConditionTypeConsolidatable, c.Consolidatable, at(-60e9))...)
	nc.Status.Conditions = append(nc.Status.Conditions, cond(v1.ConditionTypeDrifted, c.Drifted, at(-60e9))...)
	return nc
}

func mkNode(n SNode) *corev1.Node {
	k := n.Node
	nd := &corev1.Node{ObjectMeta: metav1.ObjectMeta{Name: "node-" + n.ID, Labels: realMap(k.Labels), Annotations: realMap(k.Annos),
		UID: types.UID("nuid-" + n.ID), CreationTimestamp: metav1.Time{Time: at(-7000e9)}}}
	nd.Spec.ProviderID = n.ID
	if k.NoProviderID {
		nd.Spec.ProviderID = ""
	}
	if k.Deleting {
		nd.DeletionTimestamp = &metav1.Time{Time: at(-60e9)}
		nd.Finalizers = []string{v1.TerminationFinalizer}
	}
	return nd
}

func mkPod(nodeName string, p Pod) *corev1.Pod {
	po := &corev1.Pod{ObjectMeta: metav1.ObjectMeta{Namespace: p.NS, Name: p.Name, Labels: p.Labels, UID: types.UID("puid-" + p.NS + "-" + p.Name)}}
	po.Spec.NodeName = nodeName
	po.Spec.Containers = []corev1.Container{{Name: "c", Image: "pause"}}
	po.Status.Phase = corev1.PodPhase(p.Phase)
	if p.Terminating {
		po.DeletionTimestamp = &metav1.Time{Time: at(-30e9)}
		po.Finalizers = []string{"verif/hold"}
	}
	for _, o := range p.Owners {
		po.OwnerReferences = append(po.OwnerReferences, metav1.OwnerReference{APIVersion: o[0], Kind: o[1], Name: "owner", UID: "owner-uid"})
	}
	for _, t := range p.Tols {
		po.Spec.Tolerations = append(po.Spec.Tolerations, corev1.Toleration{Key: tolKey(t.Key),
			Operator: corev1.TolerationOperator(t.Op), Value: t.Value, Effect: corev1.TaintEffect(t.Effect)})
	}
	if p.Dnd != nil || p.DelCost != nil {
		po.Annotations = map[string]string{}
		if p.Dnd != nil {
			po.Annotations[v1.DoNotDisruptAnnotationKey] = *p.Dnd
		}
		if p.DelCost != nil {
			po.Annotations[corev1.PodDeletionCost] = *p.DelCost
		}
	}
	if p.Start != nil {
		po.Status.StartTime = &metav1.Time{Time: at(*p.Start)}
	}
	for _, c := range p.Conds {
		po.Status.Conditions = append(po.Status.Conditions, corev1.PodCondition{Type: corev1.PodConditionType(c[0]), Status: corev1.ConditionStatus(c[1])})
	}
	po.Spec.Priority = p.Prio
	return po
}

func tolKey(k string) string {
	if k == "disrupted" {
		return v1.DisruptedTaintKey
	}
	return k
}

func mkPDB(b PDB) *policyv1.PodDisruptionBudget {
	o := &policyv1.PodDisruptionBudget{ObjectMeta: metav1.ObjectMeta{Namespace: b.NS, Name: b.Name}}
	if b.Sel != nil {
		o.Spec.Selector = &metav1.LabelSelector{MatchLabels: *b.Sel}
		if len(*b.Sel) == 0 {
			o.Spec.Selector = &metav1.LabelSelector{}
		}
		for _, e := range b.Exprs {
			o.Spec.Selector.MatchExpressions = append(o.Spec.Selector.MatchExpressions,
				metav1.LabelSelectorRequirement{Key: e.Key, Operator: metav1.LabelSelectorOperator(e.Op), Values: e.Values})
		}
	}
	if b.Always {
		pol := policyv1.AlwaysAllow
		o.Spec.UnhealthyPodEvictionPolicy = &pol
	} else if b.IfHealthy {
		pol := policyv1.IfHealthyBudget
		o.Spec.UnhealthyPodEvictionPolicy = &pol
	}
	if b.FullyBlocking {
		zero := intstr.FromInt32(0)
		o.Spec.MaxUnavailable = &zero
	}
	if b.Invalid {
		o.Spec.Selector = &metav1.LabelSelector{MatchExpressions: []metav1.LabelSelectorRequirement{{Key: "app", Operator: metav1.LabelSelectorOpIn}}}
	}
	o.Status.DisruptionsAllowed = b.Allowed
	return o
}

func mkPool(p Pool) *v1.NodePool {
	np := &v1.NodePool{ObjectMeta: metav1.ObjectMeta{Name: p.Name, UID: types.UID("np-" + p.Name)}}
	gvk := object.GVK(&testv1alpha1.TestNodeClass{})
	np.Spec.Template.Spec.NodeClassRef = &v1.NodeClassReference{Group: gvk.Group, Kind: gvk.Kind, Name: "nodeclass"}
	if !p.Managed {
		np.Spec.Template.Spec.NodeClassRef = &v1.NodeClassReference{Group: "other.sh", Kind: "OtherNodeClass", Name: "nodeclass"}
	}
	if p.Static {
		r := p.Replicas
		np.Spec.Replicas = &r
	}
	if p.After != nil {
		np.Spec.Disruption.ConsolidateAfter = v1.MustParseNillableDuration(time.Duration(*p.After).String())
	} else {
		np.Spec.Disruption.ConsolidateAfter = v1.MustParseNillableDuration("Never")
	}
	np.Spec.Disruption.ConsolidationPolicy = v1.ConsolidationPolicy(p.Policy)
	if p.TGP != nil {
		np.Spec.Template.Spec.TerminationGracePeriod = &metav1.Duration{Duration: time.Duration(*p.TGP)}
	}
	return np
}

type env struct {
	ctx      context.Context
	clk      *clock.FakeClock
	client   client.Client
	cluster  *state.Cluster
	cp       *fake.CloudProvider
	queue    *disruption.Queue
	rec      *test.EventRecorder
	methods  []disruption.Method
	faultOn  bool
	claims   map[string]*v1.NodeClaim
	nodes    map[string]*corev1.Node
	nodeName map[string]string
}

func setup(w *World) *env {
	bm := time.Duration(w.BM)
	e := &env{clk: clock.NewFakeClock(at(w.T0)), cp: fake.NewCloudProvider(), rec: test.NewEventRecorder(),
		claims: map[string]*v1.NodeClaim{}, nodes: map[string]*corev1.Node{}}
	e.ctx = options.ToContext(context.Background(), test.Options(test.OptionsFields{BatchMaxDuration: &bm}))
	var objs []client.Object
	for _, p := range w.Pools {
		objs = append(objs, mkPool(p))
		if p.ItsErr && p.ItsErrKind == "unevaluated" {
			e.cp.ErrorsForNodePool[p.Name] = cloudprovider.NewUnevaluatedNodePoolError(p.Name)
		} else if p.ItsErr {
			e.cp.ErrorsForNodePool[p.Name] = errors.New("injected GetInstanceTypes failure")
		} else {
			its := []*cloudprovider.InstanceType{}
			for _, n := range p.Its {
				its = append(its, fake.NewInstanceType(n))
			}
			e.cp.InstanceTypesForNodePool[p.Name] = its
		}
	}
	for _, b := range w.PDBs {
		objs = append(objs, mkPDB(b))
	}
	for _, n := range w.Nodes {
		if n.Node != nil {
			for _, p := range n.Pods {
				objs = append(objs, mkPod("node-"+n.ID, p))
			}
		}
	}
	fail := func(kind string) error {
		if e.faultOn && w.Fault == kind {
			return errors.New("injected list failure: " + kind)
		}
		return nil
	}
	e.client = kit.NewClient(interceptor.Funcs{List: func(ctx context.Context, c client.WithWatch, list client.ObjectList, opts ...client.ListOption) error {
		switch list.(type) {
		case *corev1.PodList:
			if err := fail("pods"); err != nil {
				return err
			}
		case *policyv1.PodDisruptionBudgetList:
			if err := fail("pdbs"); err != nil {
				return err
			}
		case *v1.NodePoolList:
			if err := fail("pools"); err != nil {
				return err
			}
		}
		return c.List(ctx, list, opts...)
	}}, objs...)
	e.cluster = state.NewCluster(e.clk, e.client, e.cp)
	e.queue = disruption.NewQueue(e.client, e.rec, e.cluster, e.clk, nil)
	e.methods = disruption.NewMethods(e.clk, e.cluster, e.client, nil, e.cp, e.rec, e.queue)
	buffers := map[string]int{}
	for _, n := range w.Nodes {
		if n.Claim != nil {
			e.claims[n.ID] = mkClaim(n)
			e.cluster.UpdateNodeClaim(e.claims[n.ID].DeepCopy())
		}
		if n.Node != nil {
			e.nodes[n.ID] = mkNode(n)
			if err := e.cluster.UpdateNode(e.ctx, e.nodes[n.ID].DeepCopy()); err != nil {
				panic(err)
			}
		}
		if n.Queued {
			e.queue.ProviderIDToCommand[n.ID] = &disruption.Command{}
		}
		if n.Buffer != 0 {
			buffers[n.ID] = n.Buffer
		}
	}
	e.cluster.UpdateBufferPodCounts(buffers)
	return e
}

func (e *env) apply(o Op) {
	switch o.Kind {
	case "mark":
		e.cluster.MarkForDeletion(o.ID)
	case "unmark":
		e.cluster.UnmarkForDeletion(o.ID)
	case "nominate":
		e.cluster.NominateNodeForPod(e.ctx, o.ID)
	case "tick":
		e.clk.Step(time.Duration(o.Dt))
	case "delnode":
		e.cluster.DeleteNode("node-" + o.ID)
	case "delclaim":
		e.cluster.DeleteNodeClaim("nc-" + o.ID)
	case "refresh":
		if nc, ok := e.claims[o.ID]; ok {
			e.cluster.UpdateNodeClaim(nc.DeepCopy())
		}
		if nd, ok := e.nodes[o.ID]; ok {
			if err := e.cluster.UpdateNode(e.ctx, nd.DeepCopy()); err != nil {
				panic(err)
			}
		}
	}
}

var methodNames = []string{"emptiness", "staticdrift", "drift", "multinode", "singlenode"}

type wobs struct {
	Cands  [][]string `json:"cands"` // nil = error
	NodeOK []bool     `json:"node_ok"`
	PodRes []string   `json:"pod_res"`
	Noms   []bool     `json:"is_node_nominated"`
}

// runWorld executes the real code on w. It may rewrite w (pod order as the API lists them, nodes that
// cluster state did not accept) so that the emitted model input describes the state the code saw.
func runWorld(c *kit.Ctx, w *World) wobs {
	e := setup(w)
	// describe the StateNodes as cluster state accepted them (before any operation)
	stateNodes := func() map[string]*state.StateNode {
		sn := map[string]*state.StateNode{}
		for _, n := range e.cluster.DeepCopyNodes() {
			sn[n.ProviderID()] = n
		}
		return sn
	}
	sn := stateNodes()
	idx := map[string]int{}
	static := map[string][2]bool{}
	for i := range w.Nodes {
		n := &w.Nodes[i]
		idx[n.ID] = i
		s, ok := sn[n.ID]
		if !ok || s.Node == nil {
			if n.Node != nil {
				c.Count("state:node-object-not-accepted")
			}
			n.Node = nil
		}
		if !ok || s.NodeClaim == nil {
			n.Claim = nil
		}
		static[n.ID] = [2]bool{n.Claim != nil, n.Node != nil}
		if n.Node == nil {
			n.Pods = nil
			continue
		}
		listed, err := nodeutils.GetPods(e.ctx, e.client, s.Node.Name)
		if err != nil {
			panic(err)
		}
		byName := map[string]Pod{}
		for _, p := range n.Pods {
			byName[p.NS+"/"+p.Name] = p
		}
		n.Pods = n.Pods[:0:0]
		for _, p := range listed {
			n.Pods = append(n.Pods, byName[p.Namespace+"/"+p.Name])
		}
	}
	for i := range w.Ops {
		o := &w.Ops[i]
		if o.Kind == "refresh" {
			o.C, o.K = static[o.ID][0], static[o.ID][1]
		}
		e.apply(*o)
	}
	sn = stateNodes()
	var o wobs
	for mi, m := range e.methods {
		e.faultOn = true
		cands, err := disruption.GetCandidates(e.ctx, e.cluster, e.client, e.rec, e.clk, e.cp, m.ShouldDisrupt, m.Class(), e.queue)
		e.faultOn = false
		if err != nil {
			o.Cands = append(o.Cands, nil)
			c.Count("getcandidates:error")
			continue
		}
		in := make([]bool, len(w.Nodes))
		for _, cd := range cands {
			in[idx[cd.ProviderID()]] = true
		}
		ids := []string{}
		for i, b := range in {
			if b {
				ids = append(ids, w.Nodes[i].ID)
			}
		}
		o.Cands = append(o.Cands, ids)
		c.Count(fmt.Sprintf("candidates:%s:%d", methodNames[mi], min(len(ids), 3)))
	}
	limits, err := pdb.NewLimits(e.ctx, e.client)
	if err != nil {
		// an unparsable selector: evaluate the per-node pod validation against the parsable PDBs only
		var objs []client.Object
		for _, b := range w.PDBs {
			if !b.Invalid {
				objs = append(objs, mkPDB(b))
			}
		}
		if limits, err = pdb.NewLimits(e.ctx, kit.NewClient(interceptor.Funcs{}, objs...)); err != nil {
			panic(err)
		}
		c.Count("fault:pdb-invalid-selector")
	}
	for _, n := range w.Nodes {
		o.Noms = append(o.Noms, e.cluster.IsNodeNominated(n.ID))
		s, ok := sn[n.ID]
		if !ok {
			// the entry left cluster state
			o.NodeOK = append(o.NodeOK, false)
			o.PodRes = append(o.PodRes, "POk")
			c.Count("validate_node:entry-gone")
			continue
		}
		verr := s.ValidateNodeDisruptable(e.clk)
		o.NodeOK = append(o.NodeOK, verr == nil)
		c.Count("validate_node:" + classify(verr))
		e.faultOn = true
		_, perr := s.ValidatePodsDisruptable(e.ctx, e.client, limits, e.clk, e.rec)
		e.faultOn = false
		switch {
		case perr == nil:
			o.PodRes = append(o.PodRes, "POk")
		case state.IsPodBlockEvictionError(perr):
			o.PodRes = append(o.PodRes, "PBlocked")
		default:
			o.PodRes = append(o.PodRes, "PErr")
		}
		c.Count("validate_pods:" + classify(perr))
	}
	return o
}

// classify is used for the input-distribution table only (never compared).
func classify(err error) string {
	if err == nil {
		return "ok"
	}
	s := err.Error()
	for _, k := range []string{"isn't managed", "associated node", "isn't initialized", "marked for deletion", "nominated", "annotation", "required label",
		"multiple PDBs", "pdb prevents", "getting pods"} {
		if strings.Contains(s, k) {
			return strings.ReplaceAll(k, " ", "-")
		}
	}
	return "other"
}

// ---------------------------------------------------------------- Consolidatable condition

type CInput struct {
	Now     int64
	After   *int64
	Init    *string
	InitLTT int64
	LastPod *int64
	Cond    *string
}

func (i CInput) G() string {
	return fmt.Sprintf("(mkCI %s %s %s %s %s %s)", gz(i.Now), gOptZ(i.After), gCond(i.Init), gz(i.InitLTT), gOptZ(i.LastPod), gCond(i.Cond))
}

func emitCond(c *kit.Ctx, i CInput) {
	clk := clock.NewFakeClock(at(i.Now))
	ctx := kit.Context()
	np := &v1.NodePool{ObjectMeta: metav1.ObjectMeta{Name: "pool"}}
	if i.After != nil {
		d := time.Duration(*i.After)
		np.Spec.Disruption.ConsolidateAfter = v1.NillableDuration{Duration: &d}
	}
	nc := &v1.NodeClaim{ObjectMeta: metav1.ObjectMeta{Name: "claim", Labels: map[string]string{v1.NodePoolLabelKey: "pool"}}}
	nc.Status.Conditions = append(nc.Status.Conditions, cond(v1.ConditionTypeInitialized, i.Init, at(i.InitLTT))...)
	nc.Status.Conditions = append(nc.Status.Conditions, cond(v1.ConditionTypeConsolidatable, i.Cond, at(i.Now-3600e9))...)
	if i.LastPod != nil {
		nc.Status.LastPodEventTime = metav1.Time{Time: at(*i.LastPod)}
	}
	under := disruptionutils.IsUnderConsolidateAfter(np, nc.DeepCopy(), clk)
	c.Count(fmt.Sprintf("is_under_consolidate_after:%v", under))
	res, err := ncdisruption.VerifNewConsolidation(kit.NewClient(interceptor.Funcs{}), clk).Reconcile(ctx, np, nc)
	if err != nil {
		panic(err)
	}
	got := nc.StatusConditions().Get(v1.ConditionTypeConsolidatable)
	var gs_ *string
	if got != nil {
		s := string(got.Status)
		gs_ = &s
	}
	key := ""
	if i.After != nil && i.Init != nil && *i.Init == "True" {
		key = "C:" + i.G()
	}
	c.Count("consolidatable:" + map[bool]string{true: "absent", false: "present"}[got == nil] + ":" + map[bool]string{true: "requeue", false: "no-requeue"}[res.RequeueAfter != 0])
	c.AddCase(fmt.Sprintf("CaseC %s %s %s %s", i.G(), gCond(gs_), gz(int64(res.RequeueAfter)), kit.GBool(under)), struct {
		Kind    string  `json:"kind"`
		Input   CInput  `json:"input"`
		Result  *string `json:"result"`
		Requeue int64   `json:"requeue"`
	}{"condition", i, gs_, int64(res.RequeueAfter)}, key)
}
