package main

import (
	"fmt"
	"sort"

	"verifharness/kit"
)

func sp(s string) *string { return &s }
func ip(i int64) *int64   { return &i }
func i32(i int32) *int32  { return &i }

const sec = int64(1e9)

var allPools = []Pool{
	{Name: "dyn", Managed: true, Its: []string{"it-a", "it-b"}, After: ip(30 * sec), Policy: "WhenEmptyOrUnderutilized"},
	{Name: "dyn0", Managed: true, Its: []string{"it-a"}, After: ip(0), Policy: "WhenEmptyOrUnderutilized"},
	{Name: "wempty", Managed: true, Its: []string{"it-a", "it-b"}, After: ip(30 * sec), Policy: "WhenEmpty"},
	{Name: "bal", Managed: true, Its: []string{"it-a"}, After: ip(60 * sec), Policy: "Balanced"},
	{Name: "never", Managed: true, Its: []string{"it-a"}, After: nil, Policy: "WhenEmptyOrUnderutilized"},
	{Name: "static", Managed: true, Its: []string{"it-a", "it-b"}, Static: true, Replicas: 2, After: ip(30 * sec), Policy: "WhenEmptyOrUnderutilized"},
	{Name: "staticnever", Managed: true, Its: []string{"it-a"}, Static: true, Replicas: 5, After: nil, Policy: "WhenEmpty"},
	{Name: "static0", Managed: true, Its: []string{"it-a"}, Static: true, Replicas: 0, After: ip(30 * sec), Policy: "WhenEmptyOrUnderutilized"},
	{Name: "nopolicy", Managed: true, Its: []string{"it-a"}, After: ip(30 * sec), Policy: ""},
	{Name: "uneval", Managed: true, ItsErr: true, ItsErrKind: "unevaluated", After: ip(30 * sec), Policy: "WhenEmptyOrUnderutilized"},
	{Name: "unmgd", Managed: false, Its: []string{"it-a"}, After: ip(30 * sec), Policy: "WhenEmptyOrUnderutilized"},
	{Name: "noits", Managed: true, Its: []string{}, After: ip(30 * sec), Policy: "WhenEmptyOrUnderutilized"},
	{Name: "iterr", Managed: true, ItsErr: true, After: ip(30 * sec), Policy: "WhenEmptyOrUnderutilized"},
}

func poolByName(n string) (Pool, bool) {
	for _, p := range allPools {
		if p.Name == n {
			return p, true
		}
	}
	return Pool{}, false
}

// gw is a world under construction: operations carry absolute times and are turned into ticks at the end.
type gw struct {
	W       World
	poolTGP map[string]int64 // pool template TGP, set independently of the claims' TGP
	nodes   []*SNode
	F       int64 // the instant at which candidates are computed
	events  []ev
	seq     int
	npods   int
	npdbs   int
}

type ev struct {
	T   int64
	Seq int
	Op  Op
}

func (g *gw) at(t int64, kind, id string) {
	if t < 0 {
		t = 0
	}
	if t > g.F {
		t = g.F
	}
	g.seq++
	g.events = append(g.events, ev{t, g.seq, Op{Kind: kind, ID: id}})
}

func (g *gw) setPoolTGP(pool string, v int64) {
	if g.poolTGP == nil {
		g.poolTGP = map[string]int64{}
	}
	g.poolTGP[pool] = v
}

func (g *gw) window() int64 { return max(2*g.W.BM, 10*sec) }

func (g *gw) finish() World {
	sort.SliceStable(g.events, func(i, j int) bool {
		if g.events[i].T != g.events[j].T {
			return g.events[i].T < g.events[j].T
		}
		return g.events[i].Seq < g.events[j].Seq
	})
	now := int64(0)
	var ops []Op
	for _, e := range g.events {
		if e.T > now {
			ops = append(ops, Op{Kind: "tick", Dt: e.T - now})
			now = e.T
		}
		ops = append(ops, e.Op)
	}
	if g.F > now {
		ops = append(ops, Op{Kind: "tick", Dt: g.F - now})
	}
	g.W.Ops = ops
	// one fault per world (the model's fault plan is a single enum): an injected List failure wins over an
	// unparsable PDB selector
	if g.W.Fault != "" {
		for i := range g.W.PDBs {
			g.W.PDBs[i].Invalid = false
		}
	}
	g.W.Nodes = nil
	for _, n := range g.nodes {
		g.W.Nodes = append(g.W.Nodes, *n)
	}
	// pools: every pool a node refers to, plus "dyn" so that BuildNodePoolMap is never trivial
	need := map[string]bool{"dyn": true}
	for _, n := range g.W.Nodes {
		for _, m := range []map[string]string{claimLabels(n), nodeLabels(n)} {
			if v, ok := m["np"]; ok {
				need[v] = true
			}
		}
	}
	g.W.Pools = nil
	for _, p := range allPools {
		if need[p.Name] {
			if v, ok := g.poolTGP[p.Name]; ok {
				p.TGP = ip(v)
			}
			g.W.Pools = append(g.W.Pools, p)
		}
	}
	return g.W
}

func claimLabels(n SNode) map[string]string {
	if n.Claim == nil {
		return nil
	}
	return n.Claim.Labels
}
func nodeLabels(n SNode) map[string]string {
	if n.Node == nil {
		return nil
	}
	return n.Node.Labels
}

func (g *gw) normalPod() Pod {
	g.npods++
	name := fmt.Sprintf("p%d", g.npods)
	return Pod{NS: "default", Name: name, Labels: map[string]string{"app": name}, Phase: "Running",
		Owners: [][2]string{{"apps/v1", "ReplicaSet"}}, Start: ip(g.secFloor(g.F) - 3600*sec)}
}

func (g *gw) secFloor(t int64) int64 { return (t / sec) * sec }

// baseNode is eligible for every method its pool kind allows: both conditions True, all labels present.
func (g *gw) baseNode(id, pool string, pods int) *SNode {
	n := SNode{ID: id,
		Claim: &Claim{Labels: map[string]string{"np": pool, "it": "it-a", "ct": "on-demand", "zone": "z1"}, Annos: map[string]string{},
			Consolidatable: sp("True"), Drifted: sp("True")},
		Node: &KNode{Labels: map[string]string{"np": pool, "it": "it-a", "ct": "on-demand", "zone": "z1", "reg": "true", "init": "true"}, Annos: map[string]string{}}}
	for i := 0; i < pods; i++ {
		n.Pods = append(n.Pods, g.normalPod())
	}
	g.nodes = append(g.nodes, &n)
	return &n
}

func (g *gw) pdbFor(p Pod, allowed int32) *PDB {
	g.npdbs++
	sel := map[string]string{"app": p.Labels["app"]}
	g.W.PDBs = append(g.W.PDBs, PDB{NS: p.NS, Name: fmt.Sprintf("pdb%d", g.npdbs), Sel: &sel, Allowed: allowed})
	return &g.W.PDBs[len(g.W.PDBs)-1]
}

type pert struct {
	Name, Group string
	F           func(g *gw, n *SNode)
}

func setPool(n *SNode, pool string) {
	if n.Claim != nil {
		n.Claim.Labels["np"] = pool
	}
	if n.Node != nil {
		n.Node.Labels["np"] = pool
	}
}

func withPod(f func(g *gw, n *SNode, p *Pod)) func(g *gw, n *SNode) {
	return func(g *gw, n *SNode) {
		n.Pods = append(n.Pods, g.normalPod())
		f(g, n, &n.Pods[len(n.Pods)-1])
	}
}

func perts() []pert {
	var ps []pert
	add := func(name, group string, f func(g *gw, n *SNode)) { ps = append(ps, pert{name, group, f}) }
	addPod := func(name, group string, f func(g *gw, n *SNode, p *Pod)) { add(name, group, withPod(f)) }

	add("none", "none", func(g *gw, n *SNode) {})
	add("unmanaged", "unmanaged", func(g *gw, n *SNode) { n.Claim = nil })
	add("unmanaged-node-deleting", "unmanaged", func(g *gw, n *SNode) { n.Claim = nil; n.Node.Deleting = true })
	add("no-node", "no-node", func(g *gw, n *SNode) { n.Node = nil })
	add("init-missing", "uninit", func(g *gw, n *SNode) { delete(n.Node.Labels, "init") })
	add("init-false", "uninit", func(g *gw, n *SNode) { n.Node.Labels["init"] = "false" })
	add("init-True", "uninit", func(g *gw, n *SNode) { n.Node.Labels["init"] = "True" })
	add("init-on-claim-only", "uninit", func(g *gw, n *SNode) { delete(n.Node.Labels, "init"); n.Claim.Labels["init"] = "true" })
	add("unregistered", "registered", func(g *gw, n *SNode) { delete(n.Node.Labels, "reg") })
	add("unregistered-claim-nopool", "registered", func(g *gw, n *SNode) { delete(n.Node.Labels, "reg"); delete(n.Claim.Labels, "np") })
	add("unregistered-claim-otherpool", "registered", func(g *gw, n *SNode) { n.Node.Labels["reg"] = "false"; n.Claim.Labels["np"] = "static" })
	add("unregistered-node-dnd", "registered", func(g *gw, n *SNode) { delete(n.Node.Labels, "reg"); n.Node.Annos["dnd"] = "true" })
	add("unregistered-claim-dnd", "registered", func(g *gw, n *SNode) { delete(n.Node.Labels, "reg"); n.Claim.Annos["dnd"] = "true" })
	add("unregistered-claim-noct", "registered", func(g *gw, n *SNode) { delete(n.Node.Labels, "reg"); delete(n.Claim.Labels, "ct") })
	add("marked", "deleting", func(g *gw, n *SNode) { g.at(g.F/2, "mark", n.ID) })
	add("marked-unmarked", "deleting", func(g *gw, n *SNode) { g.at(g.F/3, "mark", n.ID); g.at(g.F/2, "unmark", n.ID) })
	add("unmarked-marked", "deleting", func(g *gw, n *SNode) { g.at(g.F/3, "unmark", n.ID); g.at(g.F/2, "mark", n.ID) })
	add("marked-refresh", "deleting", func(g *gw, n *SNode) { g.at(g.F/3, "mark", n.ID); g.at(g.F/2, "refresh", n.ID) })
	add("marked-other", "deleting", func(g *gw, n *SNode) { g.at(g.F/3, "mark", "no-such-id") })
	add("claim-deleting", "deleting", func(g *gw, n *SNode) { n.Claim.Deleting = true })
	add("terminating-true", "deleting", func(g *gw, n *SNode) { n.Claim.Terminating = sp("True") })
	add("terminating-false", "deleting", func(g *gw, n *SNode) { n.Claim.Terminating = sp("False") })
	add("terminating-unknown", "deleting", func(g *gw, n *SNode) { n.Claim.Terminating = sp("Unknown") })
	add("node-deleting-with-claim", "deleting", func(g *gw, n *SNode) { n.Node.Deleting = true })
	for _, d := range []int64{-1, 0, 1} {
		d := d
		add(fmt.Sprintf("nominated-window%+d", d), "nominated", func(g *gw, n *SNode) { g.at(g.F-g.window()-d, "nominate", n.ID) })
	}
	add("nominated-now", "nominated", func(g *gw, n *SNode) { g.at(g.F, "nominate", n.ID) })
	add("nominated-long-ago", "nominated", func(g *gw, n *SNode) { g.at(1, "nominate", n.ID) })
	add("nominated-refresh", "nominated", func(g *gw, n *SNode) { g.at(g.F-5*sec, "nominate", n.ID); g.at(g.F-2*sec, "refresh", n.ID) })
	add("nominated-twice", "nominated", func(g *gw, n *SNode) { g.at(1, "nominate", n.ID); g.at(g.F-g.window()+1, "nominate", n.ID) })
	// re-nomination INSIDE the running window must extend it: first at F-d2-d1, again at F-d2, with
	// d1 < window (second call lands inside the first window) and d1+d2 >= window (the first window alone
	// has expired at F); d2 around the window boundary decides.
	for _, d2 := range []int64{-1, 0, 1} {
		d2 := d2
		for _, frac := range []int64{2, 4} {
			frac := frac
			add(fmt.Sprintf("renominated-inside-window%+d-d1=w/%d", d2, frac), "nominated", func(g *gw, n *SNode) {
				w := g.window()
				g.at(g.F-(w+d2)-w/frac, "nominate", n.ID)
				g.at(g.F-(w+d2), "nominate", n.ID)
			})
		}
	}
	add("renominated-inside-half-window", "nominated", func(g *gw, n *SNode) {
		w := g.window()
		g.at(g.F-w/2-(w-1), "nominate", n.ID) // d1 = w-1 < w, d2 = w/2: only the second window covers F
		g.at(g.F-w/2, "nominate", n.ID)
	})
	add("renominated-chain", "nominated", func(g *gw, n *SNode) {
		w := g.window()
		for i := int64(4); i >= 1; i-- { // four nominations, each inside the previous window; the last one w-1 before F
			g.at(g.F-(w-1)-(i-1)*(w*3/4), "nominate", n.ID)
		}
	})
	add("renominated-chain-refresh", "nominated", func(g *gw, n *SNode) {
		w := g.window()
		g.at(g.F-(w-1)-w/2, "nominate", n.ID)
		g.at(g.F-(w-1)-w/4, "refresh", n.ID)
		g.at(g.F-(w-1), "nominate", n.ID)
		g.at(g.F-1, "refresh", n.ID)
	})
	add("nominated-other", "nominated", func(g *gw, n *SNode) { g.at(g.F-1, "nominate", "no-such-id") })
	add("nominated-marked-unmarked", "nominated", func(g *gw, n *SNode) {
		g.at(g.F-5*sec, "nominate", n.ID)
		g.at(g.F-4*sec, "mark", n.ID)
		g.at(g.F-3*sec, "unmark", n.ID)
	})
	add("node-dnd-true", "node-dnd", func(g *gw, n *SNode) { n.Node.Annos["dnd"] = "true" })
	add("node-dnd-True", "node-dnd", func(g *gw, n *SNode) { n.Node.Annos["dnd"] = "True" })
	add("node-dnd-false", "node-dnd", func(g *gw, n *SNode) { n.Node.Annos["dnd"] = "false" })
	add("node-dnd-duration", "node-dnd", func(g *gw, n *SNode) { n.Node.Annos["dnd"] = "5m" })
	add("claim-dnd-true-registered", "node-dnd", func(g *gw, n *SNode) { n.Claim.Annos["dnd"] = "true" })
	add("no-pool-label", "pool", func(g *gw, n *SNode) { delete(n.Node.Labels, "np") })
	add("pool-label-empty", "pool", func(g *gw, n *SNode) { n.Node.Labels["np"] = "" })
	for _, p := range []string{"unknown", "unmgd", "noits", "iterr", "uneval"} {
		p := p
		add("pool-"+p, "pool", func(g *gw, n *SNode) { setPool(n, p) })
	}
	for _, p := range []string{"never", "wempty", "bal", "dyn0", "static", "staticnever", "dyn", "static0", "nopolicy"} {
		p := p
		add("pool-"+p, "pool-kind", func(g *gw, n *SNode) { setPool(n, p) })
	}
	// object deletions and re-creations in cluster state (event orders): the protection memory lives as long as the entry
	add("delnode", "lifecycle", func(g *gw, n *SNode) { g.at(g.F/2, "delnode", n.ID) })
	add("delclaim", "lifecycle", func(g *gw, n *SNode) { g.at(g.F/2, "delclaim", n.ID) })
	add("delboth", "lifecycle", func(g *gw, n *SNode) { g.at(g.F/2, "delnode", n.ID); g.at(g.F/2, "delclaim", n.ID) })
	add("delnode-readd", "lifecycle", func(g *gw, n *SNode) { g.at(g.F/3, "delnode", n.ID); g.at(g.F/2, "refresh", n.ID) })
	add("delclaim-readd", "lifecycle", func(g *gw, n *SNode) { g.at(g.F/3, "delclaim", n.ID); g.at(g.F/2, "refresh", n.ID) })
	add("delboth-readd", "lifecycle", func(g *gw, n *SNode) {
		g.at(g.F/3, "delclaim", n.ID)
		g.at(g.F/3, "delnode", n.ID)
		g.at(g.F/2, "refresh", n.ID)
	})
	add("marked-delnode-readd", "lifecycle", func(g *gw, n *SNode) {
		g.at(g.F/4, "mark", n.ID)
		g.at(g.F/3, "delnode", n.ID)
		g.at(g.F/2, "refresh", n.ID)
	})
	add("marked-delclaim-readd", "lifecycle", func(g *gw, n *SNode) {
		g.at(g.F/4, "mark", n.ID)
		g.at(g.F/3, "delclaim", n.ID)
		g.at(g.F/2, "refresh", n.ID)
	})
	add("marked-delboth-readd", "lifecycle", func(g *gw, n *SNode) {
		g.at(g.F/4, "mark", n.ID)
		g.at(g.F/3, "delnode", n.ID)
		g.at(g.F/3, "delclaim", n.ID)
		g.at(g.F/2, "refresh", n.ID)
	})
	add("delnode-marked-readd", "lifecycle", func(g *gw, n *SNode) {
		g.at(g.F/4, "delnode", n.ID)
		g.at(g.F/3, "mark", n.ID)
		g.at(g.F/2, "refresh", n.ID)
	})
	add("delboth-marked-readd", "lifecycle", func(g *gw, n *SNode) {
		g.at(g.F/4, "delnode", n.ID)
		g.at(g.F/4, "delclaim", n.ID)
		g.at(g.F/3, "mark", n.ID) // no entry: a no-op
		g.at(g.F/2, "refresh", n.ID)
	})
	add("nominated-delnode-readd", "lifecycle", func(g *gw, n *SNode) {
		g.at(g.F-5*sec, "nominate", n.ID)
		g.at(g.F-4*sec, "delnode", n.ID)
		g.at(g.F-3*sec, "refresh", n.ID)
	})
	add("nominated-delclaim-readd", "lifecycle", func(g *gw, n *SNode) {
		g.at(g.F-5*sec, "nominate", n.ID)
		g.at(g.F-4*sec, "delclaim", n.ID)
		g.at(g.F-3*sec, "refresh", n.ID)
	})
	add("nominated-delboth-readd", "lifecycle", func(g *gw, n *SNode) {
		g.at(g.F-5*sec, "nominate", n.ID)
		g.at(g.F-4*sec, "delclaim", n.ID)
		g.at(g.F-4*sec, "delnode", n.ID)
		g.at(g.F-3*sec, "refresh", n.ID)
	})
	add("delnode-nominated-readd", "lifecycle", func(g *gw, n *SNode) {
		g.at(g.F-5*sec, "delnode", n.ID)
		g.at(g.F-4*sec, "nominate", n.ID)
		g.at(g.F-3*sec, "refresh", n.ID)
	})
	// how cluster state accepts Node objects
	add("node-no-providerid", "no-node", func(g *gw, n *SNode) { n.Node.NoProviderID = true })
	add("node-no-it-label-uninit", "no-node", func(g *gw, n *SNode) { delete(n.Node.Labels, "it"); delete(n.Node.Labels, "init") })
	// dimensions that feed only prices / disruption cost: the candidate set must not depend on them
	add("offering-zone-spot", "cost-only", func(g *gw, n *SNode) { n.Node.Labels["zone"] = "test-zone-1"; n.Node.Labels["ct"] = "spot" })
	add("offering-zone-od", "cost-only", func(g *gw, n *SNode) { n.Node.Labels["zone"] = "test-zone-2"; n.Node.Labels["ct"] = "on-demand" })
	add("expire-after-1h", "cost-only", func(g *gw, n *SNode) { n.Claim.ExpireAfter = ip(3600 * sec) })
	add("expire-after-expired", "cost-only", func(g *gw, n *SNode) { n.Claim.ExpireAfter = ip(60 * sec) })
	add("expire-after-0", "cost-only", func(g *gw, n *SNode) { n.Claim.ExpireAfter = ip(0) })
	add("queued", "queued", func(g *gw, n *SNode) { n.Queued = true })
	add("it-unknown", "labels", func(g *gw, n *SNode) { n.Node.Labels["it"] = "it-zzz" })
	add("it-other", "labels", func(g *gw, n *SNode) { n.Node.Labels["it"] = "it-b" })
	add("it-missing", "labels", func(g *gw, n *SNode) { delete(n.Node.Labels, "it") })
	add("ct-missing", "labels", func(g *gw, n *SNode) { delete(n.Node.Labels, "ct") })
	add("ct-empty", "labels", func(g *gw, n *SNode) { n.Node.Labels["ct"] = "" })
	add("zone-missing", "labels", func(g *gw, n *SNode) { delete(n.Node.Labels, "zone") })
	for _, s := range []string{"False", "Unknown"} {
		s := s
		add("consolidatable-"+s, "cond", func(g *gw, n *SNode) { n.Claim.Consolidatable = sp(s) })
		add("drifted-"+s, "cond", func(g *gw, n *SNode) { n.Claim.Drifted = sp(s) })
	}
	add("consolidatable-absent", "cond", func(g *gw, n *SNode) { n.Claim.Consolidatable = nil })
	add("drifted-absent", "cond", func(g *gw, n *SNode) { n.Claim.Drifted = nil })
	add("tgp", "tgp", func(g *gw, n *SNode) { n.Claim.TGP = true })
	// the pool template's TGP must not count: only the NodeClaim's own TGP may override pod-level blockers
	poolOf := func(n *SNode) string {
		if n.Node != nil && n.Node.Labels["reg"] == "true" {
			return n.Node.Labels["np"]
		}
		return n.Claim.Labels["np"]
	}
	add("pool-tgp-only", "pool-tgp", func(g *gw, n *SNode) { g.setPoolTGP(poolOf(n), 600*sec) })
	add("pool-tgp-same-as-claim", "pool-tgp", func(g *gw, n *SNode) { g.setPoolTGP(poolOf(n), 300*sec); n.Claim.TGP = true })
	add("pool-tgp-differs-from-claim", "pool-tgp", func(g *gw, n *SNode) { g.setPoolTGP(poolOf(n), 600*sec); n.Claim.TGP = true })
	add("buffer-1", "buffer", func(g *gw, n *SNode) { n.Buffer = 1 })
	add("buffer-3", "buffer", func(g *gw, n *SNode) { n.Buffer = 3 })

	// pods and emptiness
	add("pods-none", "emptiness", func(g *gw, n *SNode) { n.Pods = nil })
	addPod("pod-normal", "emptiness", func(g *gw, n *SNode, p *Pod) {})
	addPod("pod-daemonset", "emptiness", func(g *gw, n *SNode, p *Pod) { p.Owners = [][2]string{{"apps/v1", "DaemonSet"}} })
	addPod("pod-daemonset-wrong-group", "emptiness", func(g *gw, n *SNode, p *Pod) { p.Owners = [][2]string{{"extensions/v1beta1", "DaemonSet"}} })
	addPod("pod-mirror", "emptiness", func(g *gw, n *SNode, p *Pod) { p.Owners = [][2]string{{"v1", "Node"}} })
	addPod("pod-sts-terminating", "emptiness", func(g *gw, n *SNode, p *Pod) {
		p.Owners = [][2]string{{"apps/v1", "StatefulSet"}}
		p.Terminating = true
	})
	addPod("pod-sts-terminating-failed", "emptiness", func(g *gw, n *SNode, p *Pod) {
		p.Owners = [][2]string{{"apps/v1", "StatefulSet"}}
		p.Terminating = true
		p.Phase = "Failed"
	})
	addPod("pod-terminating", "emptiness", func(g *gw, n *SNode, p *Pod) { p.Terminating = true })
	addPod("pod-succeeded", "emptiness", func(g *gw, n *SNode, p *Pod) { p.Phase = "Succeeded" })
	addPod("pod-failed", "emptiness", func(g *gw, n *SNode, p *Pod) { p.Phase = "Failed" })
	addPod("pod-pending", "emptiness", func(g *gw, n *SNode, p *Pod) { p.Phase = "Pending" })
	addPod("pod-unknown-phase", "emptiness", func(g *gw, n *SNode, p *Pod) { p.Phase = "Unknown" })
	addPod("pod-two-owners-rs-ds", "emptiness", func(g *gw, n *SNode, p *Pod) {
		p.Owners = [][2]string{{"apps/v1", "ReplicaSet"}, {"apps/v1", "DaemonSet"}}
	})
	addPod("pod-two-owners-job-node", "emptiness", func(g *gw, n *SNode, p *Pod) { p.Owners = [][2]string{{"batch/v1", "Job"}, {"v1", "Node"}} })
	addPod("pod-other-namespace", "emptiness", func(g *gw, n *SNode, p *Pod) { p.NS = "other" })
	addPod("pod-no-owner", "emptiness", func(g *gw, n *SNode, p *Pod) { p.Owners = nil })
	for _, c := range []string{"-134217728", "-134217727", "-134217729", "-2147483647", "2147483647", "0", "garbage", "-1342177280"} {
		c := c
		addPod("pod-delcost"+c, "emptiness", func(g *gw, n *SNode, p *Pod) { p.DelCost = sp(c) })
	}
	for _, q := range []int32{-33554432, -33554431, -33554433, -2147483648, 1000000000, 0} {
		q := q
		addPod(fmt.Sprintf("pod-prio%d", q), "emptiness", func(g *gw, n *SNode, p *Pod) { p.Prio = i32(q) })
	}
	addPod("pod-cost-cancel", "emptiness", func(g *gw, n *SNode, p *Pod) { p.Prio = i32(-33554432 - 25); p.DelCost = sp("100") })
	addPod("pod-cost-cancel+1", "emptiness", func(g *gw, n *SNode, p *Pod) { p.Prio = i32(-33554432 - 25); p.DelCost = sp("101") })
	add("pods-zero-cost-and-ds", "emptiness", func(g *gw, n *SNode) {
		n.Pods = nil
		a, b := g.normalPod(), g.normalPod()
		a.DelCost = sp("-134217728")
		b.Owners = [][2]string{{"apps/v1", "DaemonSet"}}
		n.Pods = []Pod{a, b}
	})

	// pod-level do-not-disrupt
	for _, v := range []string{"true", "True", "false", "garbage", "-5m", "0s", "", "1"} {
		v := v
		addPod("pod-dnd="+v, "pod-dnd", func(g *gw, n *SNode, p *Pod) { p.Dnd = sp(v) })
	}
	for _, d := range []int64{-1, 0, 1} {
		d := d
		// age = duration + d nanoseconds; the start time has to be a whole second, so F is moved
		addPod(fmt.Sprintf("pod-dnd-5m-age%+d", d), "pod-dnd", func(g *gw, n *SNode, p *Pod) {
			p.Dnd = sp("5m")
			p.Start = ip(g.secFloor(g.F) - 300*sec)
			g.F = g.secFloor(g.F) + d
		})
	}
	addPod("pod-dnd-1h30m", "pod-dnd", func(g *gw, n *SNode, p *Pod) { p.Dnd = sp("1h30m") })
	addPod("pod-dnd-1.5s-old", "pod-dnd", func(g *gw, n *SNode, p *Pod) { p.Dnd = sp("1.5s") })
	addPod("pod-dnd-100ms-young", "pod-dnd", func(g *gw, n *SNode, p *Pod) { p.Dnd = sp("1500ms"); p.Start = ip(g.secFloor(g.F) - sec) })
	addPod("pod-dnd-nostart", "pod-dnd", func(g *gw, n *SNode, p *Pod) { p.Dnd = sp("1ns"); p.Start = nil })
	addPod("pod-dnd-future-start", "pod-dnd", func(g *gw, n *SNode, p *Pod) { p.Dnd = sp("1s"); p.Start = ip(g.secFloor(g.F) + 50*sec) })
	addPod("pod-dnd-succeeded", "pod-dnd", func(g *gw, n *SNode, p *Pod) { p.Dnd = sp("true"); p.Phase = "Succeeded" })
	addPod("pod-dnd-failed", "pod-dnd", func(g *gw, n *SNode, p *Pod) { p.Dnd = sp("true"); p.Phase = "Failed" })
	addPod("pod-dnd-terminating", "pod-dnd", func(g *gw, n *SNode, p *Pod) { p.Dnd = sp("true"); p.Terminating = true })
	addPod("pod-dnd-pending", "pod-dnd", func(g *gw, n *SNode, p *Pod) { p.Dnd = sp("true"); p.Phase = "Pending" })
	addPod("ds-dnd", "pod-dnd", func(g *gw, n *SNode, p *Pod) { p.Dnd = sp("true"); p.Owners = [][2]string{{"apps/v1", "DaemonSet"}} })
	addPod("mirror-dnd", "pod-dnd", func(g *gw, n *SNode, p *Pod) { p.Dnd = sp("10h"); p.Owners = [][2]string{{"v1", "Node"}} })
	addPod("tolerating-dnd", "pod-dnd", func(g *gw, n *SNode, p *Pod) { p.Dnd = sp("true"); p.Tols = []Tol{{Op: "Exists"}} })

	// PDBs
	addPod("pdb-0", "pdb", func(g *gw, n *SNode, p *Pod) { g.pdbFor(*p, 0) })
	addPod("pdb-1", "pdb", func(g *gw, n *SNode, p *Pod) { g.pdbFor(*p, 1) })
	addPod("pdb-0-otherns", "pdb", func(g *gw, n *SNode, p *Pod) { g.pdbFor(*p, 0).NS = "other" })
	addPod("pdb-0-mismatch", "pdb", func(g *gw, n *SNode, p *Pod) { (*g.pdbFor(*p, 0).Sel)["app"] = "zzz" })
	addPod("pdb-0-extra-key", "pdb", func(g *gw, n *SNode, p *Pod) { (*g.pdbFor(*p, 0).Sel)["tier"] = "" })
	addPod("pdb-0-pod-in-other-ns", "pdb", func(g *gw, n *SNode, p *Pod) { p.NS = "other"; g.pdbFor(*p, 0) })
	addPod("pdb-0-pod-in-other-ns-pdb-default", "pdb", func(g *gw, n *SNode, p *Pod) { g.pdbFor(*p, 0); p.NS = "other" })
	addPod("pdb-0-ifhealthybudget-explicit", "pdb", func(g *gw, n *SNode, p *Pod) {
		g.pdbFor(*p, 0).IfHealthy = true
		p.Conds = [][2]string{{"Ready", "False"}}
	})
	addPod("pdb-1-fully-blocking-spec", "pdb", func(g *gw, n *SNode, p *Pod) { g.pdbFor(*p, 1).FullyBlocking = true })
	addPod("pdb-0-fully-blocking-spec", "pdb", func(g *gw, n *SNode, p *Pod) { g.pdbFor(*p, 0).FullyBlocking = true })
	addPod("pdb-2", "pdb", func(g *gw, n *SNode, p *Pod) { g.pdbFor(*p, 2) })
	addPod("pdb-invalid-selector", "fault", func(g *gw, n *SNode, p *Pod) { g.pdbFor(*p, 1).Invalid = true })
	// selector shapes (labels.Selector semantics) x labelled / label-less pods
	ex := func(b *PDB, es ...Expr) { b.Sel = &map[string]string{}; b.Exprs = es }
	unlabeled := func(p *Pod, empty bool) {
		p.Labels = nil
		if empty {
			p.Labels = map[string]string{}
		}
	}
	addPod("pdb-0-emptysel-unlabeled-pod", "pdb-selector", func(g *gw, n *SNode, p *Pod) { g.pdbFor(*p, 0).Sel = &map[string]string{}; unlabeled(p, false) })
	addPod("pdb-0-emptysel-emptylabels-pod", "pdb-selector", func(g *gw, n *SNode, p *Pod) { g.pdbFor(*p, 0).Sel = &map[string]string{}; unlabeled(p, true) })
	addPod("pdb-1-emptysel-unlabeled-pod", "pdb-selector", func(g *gw, n *SNode, p *Pod) { g.pdbFor(*p, 1).Sel = &map[string]string{}; unlabeled(p, false) })
	addPod("pdb-0-doesnotexist-unlabeled-pod", "pdb-selector", func(g *gw, n *SNode, p *Pod) {
		ex(g.pdbFor(*p, 0), Expr{"tier", "DoesNotExist", nil})
		unlabeled(p, false)
	})
	addPod("pdb-0-notin-unlabeled-pod", "pdb-selector", func(g *gw, n *SNode, p *Pod) {
		ex(g.pdbFor(*p, 0), Expr{"app", "NotIn", []string{"x", "y"}})
		unlabeled(p, false)
	})
	addPod("pdb-0-nilsel-unlabeled-pod", "pdb-selector", func(g *gw, n *SNode, p *Pod) { g.pdbFor(*p, 0).Sel = nil; unlabeled(p, false) })
	addPod("pdb-0-matchlabels-unlabeled-pod", "pdb-selector", func(g *gw, n *SNode, p *Pod) { g.pdbFor(*p, 0); unlabeled(p, false) })
	addPod("pdb-0-exists-unlabeled-pod", "pdb-selector", func(g *gw, n *SNode, p *Pod) { ex(g.pdbFor(*p, 0), Expr{"app", "Exists", nil}); unlabeled(p, true) })
	addPod("pdb-0-in-unlabeled-pod", "pdb-selector", func(g *gw, n *SNode, p *Pod) {
		ex(g.pdbFor(*p, 0), Expr{"app", "In", []string{"x"}})
		unlabeled(p, false)
	})
	addPod("pdb-multi-emptysel-doesnotexist-unlabeled-pod", "pdb-selector", func(g *gw, n *SNode, p *Pod) {
		g.pdbFor(*p, 1).Sel = &map[string]string{}
		ex(g.pdbFor(*p, 1), Expr{"tier", "DoesNotExist", nil})
		unlabeled(p, false)
	})
	addPod("pdb-0-emptysel-otherns-unlabeled-pod", "pdb-selector", func(g *gw, n *SNode, p *Pod) {
		b := g.pdbFor(*p, 0)
		b.Sel, b.NS = &map[string]string{}, "other"
		unlabeled(p, false)
	})
	addPod("unlabeled-pod-no-pdb", "pdb-selector", func(g *gw, n *SNode, p *Pod) { unlabeled(p, false) })
	addPod("pdb-0-in-match", "pdb-selector", func(g *gw, n *SNode, p *Pod) { ex(g.pdbFor(*p, 0), Expr{"app", "In", []string{"x", p.Labels["app"]}}) })
	addPod("pdb-0-in-nomatch", "pdb-selector", func(g *gw, n *SNode, p *Pod) { ex(g.pdbFor(*p, 0), Expr{"app", "In", []string{"x", "y"}}) })
	addPod("pdb-0-notin-match", "pdb-selector", func(g *gw, n *SNode, p *Pod) { ex(g.pdbFor(*p, 0), Expr{"app", "NotIn", []string{"x"}}) })
	addPod("pdb-0-notin-nomatch", "pdb-selector", func(g *gw, n *SNode, p *Pod) { ex(g.pdbFor(*p, 0), Expr{"app", "NotIn", []string{p.Labels["app"]}}) })
	addPod("pdb-0-notin-otherkey", "pdb-selector", func(g *gw, n *SNode, p *Pod) { ex(g.pdbFor(*p, 0), Expr{"tier", "NotIn", []string{"x"}}) })
	addPod("pdb-0-exists-match", "pdb-selector", func(g *gw, n *SNode, p *Pod) { ex(g.pdbFor(*p, 0), Expr{"app", "Exists", nil}) })
	addPod("pdb-0-exists-otherkey", "pdb-selector", func(g *gw, n *SNode, p *Pod) { ex(g.pdbFor(*p, 0), Expr{"tier", "Exists", nil}) })
	addPod("pdb-0-doesnotexist-otherkey", "pdb-selector", func(g *gw, n *SNode, p *Pod) { ex(g.pdbFor(*p, 0), Expr{"tier", "DoesNotExist", nil}) })
	addPod("pdb-0-doesnotexist-app", "pdb-selector", func(g *gw, n *SNode, p *Pod) { ex(g.pdbFor(*p, 0), Expr{"app", "DoesNotExist", nil}) })
	addPod("pdb-0-labels-and-exprs-match", "pdb-selector", func(g *gw, n *SNode, p *Pod) {
		g.pdbFor(*p, 0).Exprs = []Expr{{"tier", "DoesNotExist", nil}, {"app", "Exists", nil}}
	})
	addPod("pdb-0-labels-and-exprs-nomatch", "pdb-selector", func(g *gw, n *SNode, p *Pod) {
		g.pdbFor(*p, 0).Exprs = []Expr{{"app", "Exists", nil}, {"tier", "Exists", nil}}
	})
	addPod("pdb-0-nilsel", "pdb", func(g *gw, n *SNode, p *Pod) { g.pdbFor(*p, 0).Sel = nil })
	addPod("pdb-0-emptysel", "pdb", func(g *gw, n *SNode, p *Pod) { g.pdbFor(*p, 0).Sel = &map[string]string{} })
	addPod("pdb-multi-1-1", "pdb", func(g *gw, n *SNode, p *Pod) { g.pdbFor(*p, 1); g.pdbFor(*p, 1) })
	addPod("pdb-multi-0-otherns", "pdb", func(g *gw, n *SNode, p *Pod) { g.pdbFor(*p, 1); g.pdbFor(*p, 1).NS = "other" })
	addPod("pdb-multi-always", "pdb", func(g *gw, n *SNode, p *Pod) {
		g.pdbFor(*p, 1).Always = true
		g.pdbFor(*p, 1).Always = true
		p.Conds = [][2]string{{"Ready", "False"}}
	})
	addPod("pdb-0-always-readyfalse", "pdb", func(g *gw, n *SNode, p *Pod) {
		g.pdbFor(*p, 0).Always = true
		p.Conds = [][2]string{{"Ready", "False"}}
	})
	addPod("pdb-0-always-readytrue", "pdb", func(g *gw, n *SNode, p *Pod) { g.pdbFor(*p, 0).Always = true; p.Conds = [][2]string{{"Ready", "True"}} })
	addPod("pdb-0-always-readyunknown", "pdb", func(g *gw, n *SNode, p *Pod) {
		g.pdbFor(*p, 0).Always = true
		p.Conds = [][2]string{{"Ready", "Unknown"}}
	})
	addPod("pdb-0-always-nocond", "pdb", func(g *gw, n *SNode, p *Pod) { g.pdbFor(*p, 0).Always = true })
	addPod("pdb-0-always-otherfalse", "pdb", func(g *gw, n *SNode, p *Pod) {
		g.pdbFor(*p, 0).Always = true
		p.Conds = [][2]string{{"Initialized", "False"}, {"Ready", "True"}}
	})
	addPod("pdb-0-ifhealthy-readyfalse", "pdb", func(g *gw, n *SNode, p *Pod) { g.pdbFor(*p, 0); p.Conds = [][2]string{{"Ready", "False"}} })
	addPod("pdb-0-tol-exists-all", "pdb", func(g *gw, n *SNode, p *Pod) { g.pdbFor(*p, 0); p.Tols = []Tol{{Op: "Exists"}} })
	addPod("pdb-0-tol-key", "pdb", func(g *gw, n *SNode, p *Pod) {
		g.pdbFor(*p, 0)
		p.Tols = []Tol{{Key: "disrupted", Op: "Exists", Effect: "NoSchedule"}}
	})
	addPod("pdb-0-tol-equal-empty", "pdb", func(g *gw, n *SNode, p *Pod) { g.pdbFor(*p, 0); p.Tols = []Tol{{Key: "disrupted", Op: "Equal"}} })
	addPod("pdb-0-tol-noop-empty", "pdb", func(g *gw, n *SNode, p *Pod) { g.pdbFor(*p, 0); p.Tols = []Tol{{Key: "disrupted"}} })
	addPod("pdb-0-tol-noexecute", "pdb", func(g *gw, n *SNode, p *Pod) {
		g.pdbFor(*p, 0)
		p.Tols = []Tol{{Key: "disrupted", Op: "Exists", Effect: "NoExecute"}}
	})
	addPod("pdb-0-tol-value", "pdb", func(g *gw, n *SNode, p *Pod) {
		g.pdbFor(*p, 0)
		p.Tols = []Tol{{Key: "disrupted", Op: "Equal", Value: "x"}}
	})
	addPod("pdb-0-tol-otherkey", "pdb", func(g *gw, n *SNode, p *Pod) { g.pdbFor(*p, 0); p.Tols = []Tol{{Key: "other", Op: "Exists"}} })
	addPod("pdb-0-tol-lt", "pdb", func(g *gw, n *SNode, p *Pod) {
		g.pdbFor(*p, 0)
		p.Tols = []Tol{{Key: "disrupted", Op: "Lt", Value: "5"}}
	})
	addPod("pdb-0-tol-two", "pdb", func(g *gw, n *SNode, p *Pod) {
		g.pdbFor(*p, 0)
		p.Tols = []Tol{{Key: "other", Op: "Exists"}, {Key: "disrupted", Op: "Exists"}}
	})
	addPod("pdb-0-mirror", "pdb", func(g *gw, n *SNode, p *Pod) { g.pdbFor(*p, 0); p.Owners = [][2]string{{"v1", "Node"}} })
	addPod("pdb-0-ds", "pdb", func(g *gw, n *SNode, p *Pod) { g.pdbFor(*p, 0); p.Owners = [][2]string{{"apps/v1", "DaemonSet"}} })
	addPod("pdb-0-succeeded", "pdb", func(g *gw, n *SNode, p *Pod) { g.pdbFor(*p, 0); p.Phase = "Succeeded" })
	addPod("pdb-0-terminating", "pdb", func(g *gw, n *SNode, p *Pod) { g.pdbFor(*p, 0); p.Terminating = true })
	addPod("pdb-0-pending", "pdb", func(g *gw, n *SNode, p *Pod) { g.pdbFor(*p, 0); p.Phase = "Pending" })
	addPod("pdb-0-dnd-expired", "pdb", func(g *gw, n *SNode, p *Pod) { g.pdbFor(*p, 0); p.Dnd = sp("1m") })
	addPod("pdb-1-dnd-active", "pdb", func(g *gw, n *SNode, p *Pod) { g.pdbFor(*p, 1); p.Dnd = sp("true") })
	add("pdb-0-second-pod", "pdb", func(g *gw, n *SNode) {
		a, b := g.normalPod(), g.normalPod()
		n.Pods = append(n.Pods, a, b)
		g.pdbFor(b, 0)
	})
	add("pdb-0-other-node-only", "pdb", func(g *gw, n *SNode) {
		o := g.baseNode(n.ID+"x", "dyn", 1)
		g.pdbFor(o.Pods[0], 0)
	})

	add("fault-pods", "fault", func(g *gw, n *SNode) { g.W.Fault = "pods" })
	add("fault-pdbs", "fault", func(g *gw, n *SNode) { g.W.Fault = "pdbs" })
	add("fault-pools", "fault", func(g *gw, n *SNode) { g.W.Fault = "pools" })
	return ps
}

type base struct {
	Name, Pool string
	Pods       int
}

var bases = []base{{"dyn-busy", "dyn", 1}, {"dyn-empty", "dyn", 0}, {"static-busy", "static", 1}, {"wempty-empty", "wempty", 0}}

func newGW(r *kit.Rand) *gw {
	g := &gw{F: 100 * sec}
	g.W.BM = kit.Pick(r, []int64{1 * sec, 5 * sec, 10 * sec, 10 * sec})
	return g
}

// safe applies a perturbation that may not fit the node's current shape (e.g. no Node object any more).
func safe(p pert, g *gw, n *SNode) (ok bool) {
	defer func() {
		if recover() != nil {
			ok = false
		}
	}()
	if n.Node == nil || n.Claim == nil {
		return false
	}
	p.F(g, n)
	return true
}
