// Command c07 runs the real candidate selection of the disruption controller
// (disruption.GetCandidates with the ShouldDisrupt / Class of the five real methods, on a real
// state.Cluster driven through MarkForDeletion / UnmarkForDeletion / NominateNodeForPod / updates under a
// fake clock), StateNode.ValidateNodeDisruptable / ValidatePodsDisruptable, and the Consolidatable-condition
// reconciler, and writes inputs and observations as Gallina cases for coq/C07/Check.v.
package main

import (
	"crypto/sha1"
	"fmt"
	"os"

	"verifharness/kit"
)

func key(w World) string { return fmt.Sprintf("%x", sha1.Sum([]byte(w.G())))[:16] }

func nontrivial(o wobs) bool {
	some, rejected := false, false
	for _, ids := range o.Cands {
		if len(ids) > 0 {
			some = true
		}
	}
	for i := range o.NodeOK {
		if !o.NodeOK[i] || o.PodRes[i] != "POk" {
			rejected = true
		}
	}
	return some || rejected
}

// literalKeys tags the two input shapes on which a literal reading of the property text differs from
// what the code does (see Properties/C07.v, *_literal_refuted); they are counted in the distribution.
func literalKeys(c *kit.Ctx, w *World, o wobs) {
	byID := map[string]SNode{}
	for _, n := range w.Nodes {
		byID[n.ID] = n
	}
	for mi, ids := range o.Cands {
		for _, id := range ids {
			n := byID[id]
			if n.Node != nil && n.Node.Annos["dnd"] == "true" {
				w.KfKey = "node-dnd-annotation-ignored-while-unregistered"
				c.Count("literal:node-dnd-on-unregistered-node-is-candidate")
			}
			if methodNames[mi] == "emptiness" {
				for _, p := range n.Pods {
					own := func(api, kind string) bool {
						for _, x := range p.Owners {
							if x[0] == api && x[1] == kind {
								return true
							}
						}
						return false
					}
					active := p.Phase != "Failed" && p.Phase != "Succeeded" && !p.Terminating
					if (active || (own("apps/v1", "StatefulSet") && p.Terminating)) && !own("apps/v1", "DaemonSet") && !own("v1", "Node") {
						if w.KfKey == "" {
							w.KfKey = "emptiness-with-zero-cost-reschedulable-pod"
						}
						c.Count("literal:emptiness-candidate-hosts-reschedulable-pod")
						break
					}
				}
			}
		}
	}
}

var baseline = map[string][]bool{}

func emit(c *kit.Ctx, w World, cell string) {
	emitB(c, w, cell, "")
}

// countHistory buckets the nomination histories: was a node nominated again while its previous window was
// still running, and does only that later nomination cover the instant of the candidate computation?
func countHistory(c *kit.Ctx, w World) {
	win := max(2*w.BM, 10*sec)
	now := w.T0
	until := map[string]int64{}
	first := map[string]int64{} // what the window would be if re-nomination did not extend it
	re := map[string]bool{}
	for _, o := range w.Ops {
		switch o.Kind {
		case "tick":
			now += o.Dt
		case "nominate":
			if u, ok := until[o.ID]; ok && now < u {
				re[o.ID] = true
			} else {
				first[o.ID] = now + win
			}
			until[o.ID] = now + win
		}
	}
	for _, n := range w.Nodes {
		if !re[n.ID] {
			continue
		}
		c.Count("history:renominated-inside-window")
		switch {
		case now < until[n.ID] && now >= first[n.ID]:
			c.Count("history:renominated-inside-window:only-extension-protects")
		case now >= until[n.ID]:
			c.Count("history:renominated-inside-window:expired")
		}
	}
}

// countTGP buckets NodeClaim TGP x pool-template TGP x "a pod-level blocker is present" per node.
func countTGP(c *kit.Ctx, w World, o wobs) {
	pools := map[string]Pool{}
	for _, p := range w.Pools {
		pools[p.Name] = p
	}
	for i, n := range w.Nodes {
		if n.Claim == nil || n.Node == nil {
			continue
		}
		lbl := n.Claim.Labels
		if n.Node.Labels["reg"] == "true" {
			lbl = n.Node.Labels
		}
		pl, ok := pools[lbl["np"]]
		if !ok {
			continue
		}
		k := "tgp:claim=" + map[bool]string{true: "set", false: "none"}[n.Claim.TGP] + ":pool="
		switch {
		case pl.TGP == nil:
			k += "none"
		case n.Claim.TGP && *pl.TGP == 300*sec:
			k += "same"
		case n.Claim.TGP:
			k += "differs"
		default:
			k += "set"
		}
		if o.PodRes[i] == "PBlocked" {
			k += ":pod-blocked"
			if pl.Static {
				k += ":static"
			} else {
				k += ":dynamic"
			}
		}
		c.Count(k)
	}
}

// countLifecycle buckets the object event orders per node: which deletions happened, was the entry re-created,
// and was protection memory (mark / nomination) set before the deletion.
func countLifecycle(c *kit.Ctx, w World) {
	for _, n := range w.Nodes {
		protected, delN, delC, readd := false, false, false, false
		for _, o := range w.Ops {
			if o.ID != n.ID {
				continue
			}
			switch o.Kind {
			case "mark", "nominate":
				if !delN && !delC {
					protected = true
				}
			case "delnode":
				delN = true
			case "delclaim":
				delC = true
			case "refresh":
				if delN || delC {
					readd = true
				}
			}
		}
		if delN || delC {
			k := map[[2]bool]string{{true, false}: "node-deleted", {false, true}: "claim-deleted", {true, true}: "both-deleted"}[[2]bool{delN, delC}]
			c.Count("lifecycle:" + k + map[bool]string{true: ":re-created", false: ""}[readd] + map[bool]string{true: ":protected-before", false: ""}[protected])
		}
	}
}

// countSelectors buckets PDB selector shapes and label-less pods.
func countSelectors(c *kit.Ctx, w World) {
	unl := false
	for _, n := range w.Nodes {
		for _, p := range n.Pods {
			if len(p.Labels) == 0 {
				c.Count("pod:no-labels")
				unl = true
			}
		}
	}
	for _, b := range w.PDBs {
		shape := "matchLabels"
		switch {
		case b.Invalid:
			shape = "invalid"
		case b.Sel == nil:
			shape = "nil"
		case len(*b.Sel) == 0 && len(b.Exprs) == 0:
			shape = "empty"
		case len(b.Exprs) > 0:
			shape = "expr"
			if len(*b.Sel) > 0 {
				shape = "matchLabels+expr"
			}
			for _, e := range b.Exprs {
				shape += ":" + e.Op
			}
		}
		c.Count("pdbsel:" + shape + map[bool]string{true: ":world-has-unlabeled-pod", false: ""}[unl])
	}
}

func emitB(c *kit.Ctx, w World, cell, baseName string) {
	countSelectors(c, w)
	countLifecycle(c, w)
	countHistory(c, w)
	o := runWorld(c, &w)
	countTGP(c, w, o)
	literalKeys(c, &w, o)
	k := ""
	if nontrivial(o) {
		k = key(w)
	}
	if cell != "" && len(w.Nodes) > 0 {
		for mi, ids := range o.Cands {
			in := "out"
			if ids == nil {
				in = "error"
			}
			for _, id := range ids {
				if id == w.Nodes[0].ID {
					in = "in"
				}
			}
			c.Count(fmt.Sprintf("cell:%s:%s:%s", methodNames[mi], cell, in))
			if cell == "none" {
				baseline[baseName] = append(baseline[baseName], in == "in")
			} else if bl, ok := baseline[baseName]; ok && len(bl) == len(methodNames) {
				switch {
				case bl[mi] && in != "in":
					c.Count(fmt.Sprintf("flip:%s:%s:candidate->rejected", methodNames[mi], cell))
				case !bl[mi] && in == "in":
					c.Count(fmt.Sprintf("flip:%s:%s:rejected->candidate", methodNames[mi], cell))
				}
			}
		}
	}
	cands := make([]string, len(o.Cands))
	for i, ids := range o.Cands {
		cands[i] = kit.GOpt(ids != nil, kit.GListOf(ids, gs))
	}
	g := fmt.Sprintf("CaseW %s %s %s %s %s", w.G(), kit.GList(cands), kit.GListOf(o.NodeOK, kit.GBool), kit.GList(o.PodRes), kit.GListOf(o.Noms, kit.GBool))
	c.AddCase(g, struct {
		Kind  string `json:"kind"`
		World World  `json:"world"`
		Obs   wobs   `json:"obs"`
		KfKey string `json:"kf_key,omitempty"`
	}{"world", w, o, w.KfKey}, k)
}

func main() {
	c := kit.Parse("C07", os.Args[1:])
	ps := perts()
	byName := map[string]pert{}
	for _, p := range ps {
		byName[p.Name] = p
	}
	// 1. systematic sweep: every perturbation on every base node, alone and together with a
	//    terminationGracePeriod (the only thing that may override pod-level blockers, for drift only)
	for _, b := range bases {
		for _, p := range ps {
			// TGP variants: none; on the NodeClaim; on the pool template only; on both (different values)
			for _, tgp := range []string{"", "tgp", "pool-tgp-only", "pool-tgp-differs-from-claim"} {
				podLevel := p.Group == "pod-dnd" || p.Group == "pdb" || p.Group == "pdb-selector" || p.Group == "fault" || p.Group == "none"
				if p.Group == "pdb-selector" && (b.Pods == 0 || (tgp != "" && tgp != "tgp")) {
					continue // selector shapes: busy bases only, without / with the NodeClaim TGP
				}
				if tgp == "pool-tgp-differs-from-claim" && b.Pods == 0 {
					continue // the both-TGP variant only on the busy bases (keeps the quick tier near 3000 cases)
				}
				if tgp != "" && !(podLevel || (tgp == "tgp" && (p.Group == "node-dnd" || p.Group == "nominated"))) {
					continue
				}
				g := newGW(c.Rand.Fork())
				n := g.baseNode("n1", b.Pool, b.Pods)
				if !safe(p, g, n) {
					continue
				}
				note := b.Name + "+" + p.Name
				cell := p.Group
				if tgp != "" {
					safe(byName[tgp], g, n)
					note += "+" + tgp
					cell += "+" + map[string]string{"tgp": "tgp", "pool-tgp-only": "pooltgp", "pool-tgp-differs-from-claim": "bothtgp"}[tgp]
				}
				w := g.finish()
				w.Note = note
				c.Count("pert:" + p.Group)
				emitB(c, w, cell, b.Name)
			}
		}
	}
	// 2. random worlds: 1-3 nodes, 0-3 perturbations each, random pool kinds
	nRand, condRounds := 500, 1
	if c.Thorough() {
		nRand, condRounds = 6000, 6
	}
	pools := []string{"dyn", "dyn", "dyn0", "wempty", "bal", "static", "never", "staticnever"}
	for i := 0; i < nRand; i++ {
		r := c.Rand.Fork()
		g := newGW(r)
		if r.Chance(1, 3) {
			g.F = 100*sec + int64(r.Range(-2, 2))
		} else if r.Chance(1, 4) {
			g.F = int64(r.Range(20, 400))*sec + int64(r.Range(0, 999))*1_000_000
		}
		nn := r.Range(1, 3)
		note := ""
		for j := 0; j < nn; j++ {
			n := g.baseNode(fmt.Sprintf("n%d", j+1), kit.Pick(r, pools), r.Intn(3))
			if r.Chance(1, 4) {
				n.Claim.Consolidatable = kit.Pick(r, []*string{nil, sp("False"), sp("True")})
			}
			if r.Chance(1, 4) {
				n.Claim.Drifted = kit.Pick(r, []*string{nil, sp("False"), sp("True")})
			}
			if r.Chance(1, 4) {
				// random nomination history: 2-4 nominations with gaps around / below the window, the last
				// one between 0 and 1.5 windows before the candidate computation; sometimes refreshed in between
				win := g.window()
				t := g.F - int64(r.Range(0, int(win*3/2/1_000_000)))*1_000_000 - int64(r.Range(-1, 1))
				for k := r.Range(2, 4); k > 0; k-- {
					g.at(t, "nominate", n.ID)
					if r.Chance(1, 4) {
						g.at(t, "refresh", n.ID)
					}
					t -= kit.Pick(r, []int64{win / 4, win / 2, win - 1, win, win + 1, int64(r.Range(1, int(win*6/5/1_000_000))) * 1_000_000})
				}
				note += n.ID + ":nomination-history "
				c.Count("pert:nominated")
			}
			if r.Chance(1, 3) {
				n.Claim.TGP = true
			}
			if r.Chance(1, 5) {
				n.Claim.ExpireAfter = ip(int64(r.Range(0, 7200)) * sec)
			}
			if r.Chance(1, 5) {
				n.Node.Labels["zone"] = kit.Pick(r, []string{"test-zone-1", "test-zone-2", "z9"})
				n.Node.Labels["ct"] = kit.Pick(r, []string{"spot", "on-demand", "reserved"})
			}
			if r.Chance(1, 5) {
				// random object lifecycle: deletions, updates, marks and nominations interleaved
				for k := r.Range(2, 5); k > 0; k-- {
					g.at(g.F-int64(r.Range(0, 30))*sec-int64(r.Range(0, 999))*1_000_000,
						kit.Pick(r, []string{"delnode", "delclaim", "refresh", "refresh", "mark", "unmark", "nominate"}), n.ID)
				}
				note += n.ID + ":lifecycle-history "
				c.Count("pert:lifecycle")
			}
			if r.Chance(1, 3) {
				g.setPoolTGP(n.Claim.Labels["np"], kit.Pick(r, []int64{300 * sec, 600 * sec, 1 * sec}))
			}
			k := kit.Pick(r, []int{0, 1, 1, 1, 2, 2, 3})
			for ; k > 0; k-- {
				p := kit.Pick(r, ps)
				if safe(p, g, n) {
					note += fmt.Sprintf("%s:%s ", n.ID, p.Name)
					c.Count("pert:" + p.Group)
				}
			}
		}
		// random selector shapes against random (sometimes label-less) pods
		for _, n := range g.nodes {
			for pi := range n.Pods {
				p := &n.Pods[pi]
				if r.Chance(1, 6) {
					p.Labels = kit.Pick(r, []map[string]string{nil, {}, {"tier": "db"}})
				}
				if r.Chance(1, 6) {
					b := PDB{NS: kit.Pick(r, []string{p.NS, p.NS, "other"}), Name: fmt.Sprintf("rpdb%d-%d", i, len(g.W.PDBs)), Allowed: int32(r.Intn(2)), Sel: &map[string]string{}}
					switch r.Intn(6) {
					case 0: // {}
					case 1:
						b.Sel = nil
					case 2:
						b.Exprs = []Expr{{kit.Pick(r, []string{"app", "tier"}), "DoesNotExist", nil}}
					case 3:
						b.Exprs = []Expr{{kit.Pick(r, []string{"app", "tier"}), "NotIn", []string{"db", "x"}}}
					case 4:
						b.Exprs = []Expr{{kit.Pick(r, []string{"app", "tier"}), kit.Pick(r, []string{"Exists", "In"}), nil}}
						if b.Exprs[0].Op == "In" {
							b.Exprs[0].Values = []string{"db", p.Labels["app"] + ""}
						}
					case 5:
						b.Sel = &map[string]string{"tier": "db"}
					}
					g.W.PDBs = append(g.W.PDBs, b)
					note += "random-pdb "
				}
			}
		}
		w := g.finish()
		w.Note = "random " + note
		c.Count(fmt.Sprintf("random:nodes=%d", len(w.Nodes)))
		emit(c, w, "")
	}
	// 3. Consolidatable condition: exhaustive grid with the clock at the consolidateAfter boundary
	for round := 0; round < condRounds; round++ {
		afters := []*int64{nil, ip(0), ip(30 * sec), ip(300 * sec), ip(-5 * sec), ip(1)}
		if round > 0 {
			afters = []*int64{ip(int64(c.Rand.Range(1, 100000)) * 1_000_000), ip(int64(c.Rand.Range(1, 3600)) * sec)}
		}
		for _, after := range afters {
			for _, init := range []*string{nil, sp("True"), sp("False"), sp("Unknown")} {
				for _, lastPod := range []bool{false, true} {
					for _, off := range []int64{-1, 0, 1, 7 * sec, -7 * sec, -1000 * sec} {
						for _, cnd := range []*string{nil, sp("True"), sp("False"), sp("Unknown")} {
							// time to check is 1000 s; the clock sits at 1000 s + after + off
							in := CInput{After: after, Init: init, InitLTT: 1000 * sec, Cond: cnd}
							if lastPod {
								in.InitLTT = 400 * sec
								in.LastPod = ip(1000 * sec)
							}
							in.Now = 1000*sec + off
							if after != nil {
								in.Now += *after
							}
							emitCond(c, in)
						}
					}
				}
			}
		}
	}
	c.Meta.Rule = "worlds: non-trivial = some method has a candidate or some node is rejected by node / pod validation; distinct by the Gallina term of the world (sha1). " +
		"sweep = every perturbation (one blocker or near-blocker flipped on an otherwise eligible node) x 4 base nodes (dynamic busy, dynamic empty, static busy, WhenEmpty empty) x {no TGP, NodeClaim TGP, pool-template TGP only, both with different values} for pod-level groups, each evaluated by all five methods; " +
		"then random worlds of 1-3 nodes with 0-3 perturbations each; condition cases: exhaustive grid consolidateAfter x Initialized x lastPodEvent x clock at boundary-1ns/boundary/boundary+1ns x previous condition"
	c.Meta.Exhaustive = false
	c.Meta.Corr = []string{
		"disruption.GetCandidates(NewMethods[i].ShouldDisrupt, NewMethods[i].Class()) on state.Cluster after Mark/Unmark/Nominate/Update/DeleteNode/DeleteNodeClaim/clock ops = C07.Model.get_candidates (exact id set, per method, incl. error)",
		"StateNode.ValidateNodeDisruptable = nil  <->  C07.Model.validate_node_only = NOk",
		"StateNode.ValidatePodsDisruptable error class (nil / PodBlockEvictionError / other) = C07.Model.validate_pods",
		"nodeclaim/disruption.Consolidation.Reconcile (condition after, RequeueAfter) = C07.Model.reconcile_consolidatable",
		"Cluster.IsNodeNominated after the history (incl. DeleteNode / DeleteNodeClaim / re-creation) = C07.Model.nominated on the entry's memory",
		"disruptionutils.IsUnderConsolidateAfter = C07.Model.under_consolidate_after",
	}
	c.Meta.Extra = map[string]interface{}{"assumptions": []string{
		"time.ParseDuration / strconv.ParseFloat (Go standard library) are applied by the harness to annotation values before they enter the model; the positivity, start-time and clamping logic is in the model",
		"pod deletion costs and priorities are int32 integers (as the API server enforces), so EvictionCost is exact in units of 2^-27",
		"PDB label selectors: matchLabels and matchExpressions In / NotIn / Exists / DoesNotExist (labels.Selector semantics); unparsable selectors are the FPdbs fault",
		"PodDisruptionBudget.Status.DisruptionsAllowed >= 0 (maintained by the kube disruption controller)",
	}}
	c.Finish("From KV Require Import C07.Model C07.Check.", "case", "check_all", 400)
}
