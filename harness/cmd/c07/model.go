package main

import (
	"fmt"
	"sort"
	"strconv"
	"time"

	"verifharness/kit"
)

// The harness-side description of a world. Label / annotation maps use the short
// symbols of coq/C07/Model.v for the well-known keys; realKey maps them to the
// constants the code reads. Times are nanoseconds relative to baseTime.

type Tol struct{ Key, Op, Value, Effect string }

type Pod struct {
	NS, Name    string
	Labels      map[string]string
	Phase       string
	Terminating bool
	Owners      [][2]string // apiVersion, kind
	Tols        []Tol
	Dnd         *string // raw annotation value
	Start       *int64  // ns, whole seconds
	Conds       [][2]string
	DelCost     *string // raw annotation value
	Prio        *int32
}

type PDB struct {
	NS, Name string
	Sel      *map[string]string // nil = no selector at all; otherwise matchLabels (possibly empty)
	Exprs    []Expr             // matchExpressions (only with Sel != nil)
	Allowed  int32
	Always   bool
	// harness-only dimensions (the model must be independent of them)
	IfHealthy     bool // UnhealthyPodEvictionPolicy = IfHealthyBudget written out
	FullyBlocking bool // Spec.MaxUnavailable = 0 (only the scheduling simulation reads it)
	Invalid       bool // selector that LabelSelectorAsSelector rejects: pdb.NewLimits fails
}

type Expr struct {
	Key, Op string
	Values  []string
}

type Pool struct {
	Name       string
	Managed    bool
	ItsErr     bool
	ItsErrKind string // "" generic, "unevaluated" = cloudprovider.UnevaluatedNodePoolError
	Replicas   int64  // value of Spec.Replicas when Static
	Its        []string
	Static     bool
	After      *int64
	Policy     string
	TGP        *int64 // Spec.Template.Spec.TerminationGracePeriod (independent of the NodeClaims' own TGP)
}

type Claim struct {
	Labels, Annos                        map[string]string
	Deleting                             bool
	Terminating, Consolidatable, Drifted *string // "True" | "False" | "Unknown"
	TGP                                  bool
	ExpireAfter                          *int64 // harness-only: Spec.ExpireAfter (feeds DisruptionCost, not candidacy)
}

type KNode struct {
	Labels, Annos map[string]string
	Deleting      bool
	NoProviderID  bool // harness-only: Spec.ProviderID empty; cluster state then ignores a managed Node
}

type SNode struct {
	ID     string
	Claim  *Claim
	Node   *KNode
	Pods   []Pod
	Queued bool
	Buffer int
}

type Op struct {
	Kind string // mark unmark nominate tick refresh delnode delclaim
	ID   string
	Dt   int64
	C, K bool // refresh: the described node has a NodeClaim / a Node that cluster state accepts
}

type World struct {
	T0, BM int64
	Fault  string // "", pods, pdbs, pools
	Pools  []Pool
	PDBs   []PDB
	Nodes  []SNode
	Ops    []Op
	Note   string `json:"note"`
	KfKey  string `json:"kf_key,omitempty"`
}

// ---------------------------------------------------------------- Gallina

func gMap(m map[string]string) string {
	ks := kit.SortedKeys(m)
	out := make([]string, len(ks))
	for i, k := range ks {
		out[i] = kit.GPair(gs(k), gs(m[k]))
	}
	return kit.GList(out)
}

// gs renders a string literal without the %string suffix (string_scope is open in the case files).
func gs(s string) string {
	x := kit.GStr(s)
	return x[:len(x)-len("%string")]
}

func gz(z int64) string {
	if z < 0 {
		return fmt.Sprintf("(%d)", z)
	}
	return fmt.Sprintf("%d", z)
}

func gPairs(ps [][2]string) string {
	return kit.GListOf(ps, func(p [2]string) string { return kit.GPair(gs(p[0]), gs(p[1])) })
}

func gCond(c *string) string {
	if c == nil {
		return "None"
	}
	return "(Some C" + *c + ")"
}

func gOptZ(z *int64) string {
	if z == nil {
		return "None"
	}
	return "(Some " + gz(*z) + ")"
}

// parseDnd classifies the raw annotation the way the model's input type does; time.ParseDuration is
// the standard library (trusted), the positivity / start-time logic stays in the model.
func parseDnd(raw *string) string {
	if raw == nil {
		return "None"
	}
	if *raw == "true" {
		return "(Some DTrue)"
	}
	d, err := time.ParseDuration(*raw)
	if err != nil {
		return "(Some DBad)"
	}
	return "(Some (DDur " + gz(int64(d)) + "))"
}

func parseDelCost(raw *string) string {
	if raw == nil {
		return "None"
	}
	f, err := strconv.ParseFloat(*raw, 64)
	if err != nil {
		return "None"
	}
	if f != float64(int64(f)) {
		panic("generator produced a non-integral deletion cost")
	}
	return "(Some " + gz(int64(f)) + ")"
}

func (p Pod) G() string {
	prio := "None"
	if p.Prio != nil {
		prio = "(Some " + gz(int64(*p.Prio)) + ")"
	}
	return fmt.Sprintf("(mkPod %s %s %s %s %s %s %s %s %s %s %s %s)", gs(p.NS), gs(p.Name), gMap(p.Labels), gs(p.Phase),
		kit.GBool(p.Terminating), gPairs(p.Owners),
		kit.GListOf(p.Tols, func(t Tol) string {
			return fmt.Sprintf("(mkTol %s %s %s %s)", gs(t.Key), gs(t.Op), gs(t.Value), gs(t.Effect))
		}),
		parseDnd(p.Dnd), gOptZ(p.Start), gPairs(p.Conds), parseDelCost(p.DelCost), prio)
}

func (b PDB) G() string {
	sel := "None"
	if b.Sel != nil {
		sel = "(Some (" + gMap(*b.Sel) + ", " + kit.GListOf(b.Exprs, func(e Expr) string {
			return "(" + gs(e.Key) + ", " + gs(e.Op) + ", " + kit.GListOf(e.Values, gs) + ")"
		}) + "))"
	}
	return fmt.Sprintf("(mkPdb %s %s %s %s %s)", gs(b.NS), gs(b.Name), sel, gz(int64(b.Allowed)), kit.GBool(b.Always))
}

func (p Pool) G() string {
	its := "None"
	if !p.ItsErr {
		its = "(Some " + kit.GListOf(p.Its, gs) + ")"
	}
	return fmt.Sprintf("(mkPool %s %s %s %s %s %s %s)", gs(p.Name), kit.GBool(p.Managed), its, kit.GBool(p.Static), gOptZ(p.After), gs(p.Policy), gOptZ(p.TGP))
}

func (n SNode) G() string {
	cl, kn := "None", "None"
	if c := n.Claim; c != nil {
		cl = fmt.Sprintf("(Some (mkClaim %s %s %s %s %s %s %s))", gMap(c.Labels), gMap(c.Annos), kit.GBool(c.Deleting),
			gCond(c.Terminating), gCond(c.Consolidatable), gCond(c.Drifted), kit.GBool(c.TGP))
	}
	if k := n.Node; k != nil {
		kn = fmt.Sprintf("(Some (mkNode %s %s %s))", gMap(k.Labels), gMap(k.Annos), kit.GBool(k.Deleting))
	}
	return fmt.Sprintf("(mkSNode %s %s %s %s %s %s)", gs(n.ID), cl, kn,
		kit.GListOf(n.Pods, func(p Pod) string { return p.G() }), kit.GBool(n.Queued), gz(int64(n.Buffer)))
}

func (o Op) G() string {
	switch o.Kind {
	case "mark":
		return "(OMark " + gs(o.ID) + ")"
	case "unmark":
		return "(OUnmark " + gs(o.ID) + ")"
	case "nominate":
		return "(ONominate " + gs(o.ID) + ")"
	case "tick":
		return "(OTick " + gz(o.Dt) + ")"
	case "refresh":
		return "(ORefresh " + gs(o.ID) + " " + kit.GBool(o.C) + " " + kit.GBool(o.K) + ")"
	case "delnode":
		return "(ODelNode " + gs(o.ID) + ")"
	case "delclaim":
		return "(ODelClaim " + gs(o.ID) + ")"
	}
	panic("op " + o.Kind)
}

func (w World) G() string {
	f := map[string]string{"": "FNone", "pods": "FPods", "pdbs": "FPdbs", "pools": "FPools"}[w.Fault]
	// a PDB with an unparsable selector makes pdb.NewLimits fail: for the model that is the FPdbs fault, and the
	// object itself is not part of the model's PDB list
	var pdbs []PDB
	for _, b := range w.PDBs {
		if b.Invalid {
			if w.Fault == "" {
				f = "FPdbs"
			}
			continue
		}
		pdbs = append(pdbs, b)
	}
	return fmt.Sprintf("(mkWorld %s %s %s %s %s %s %s)", gz(w.T0), gz(w.BM), f,
		kit.GListOf(w.Pools, func(p Pool) string { return p.G() }),
		kit.GListOf(pdbs, func(p PDB) string { return p.G() }),
		kit.GListOf(w.Nodes, func(n SNode) string { return n.G() }),
		kit.GListOf(w.Ops, func(o Op) string { return o.G() }))
}

func sortedCopy(xs []string) []string {
	o := append([]string(nil), xs...)
	sort.Strings(o)
	return o
}
