package main

import (
	"sort"

	"verifharness/kit"
)

type job struct {
	kind   string
	n      int
	maxOps int
	next   func(w *world, i int) *jOp
}

func fixed(kind string, n int, ops []jOp) job {
	return job{kind: kind, n: n, maxOps: len(ops), next: func(_ *world, i int) *jOp { o := ops[i]; return &o }}
}

func fl(key int, site, kind string, n int) jFault {
	return jFault{Key: key, fault: fault{Site: site, Kind: kind, N: n, Conflict: (key+n)%2 == 0}}
}

// every fault the retried closures distinguish: NotFound, and 1 / 3 (last attempt succeeds) / 4 (all
// attempts fail) failing attempts, on the read or on the write
func faultKinds(key int) []jFault {
	var out []jFault
	for _, site := range []string{"get", "write"} {
		out = append(out, fl(key, site, "nf", 0), fl(key, site, "fail", 1), fl(key, site, "fail", 3), fl(key, site, "fail", 4))
	}
	return out
}

func start(cands []int, nrepl int) jOp { return jOp{Op: "start", Cands: cands, NRepl: nrepl} }
func recon(node int) jOp               { return jOp{Op: "recon", Node: node} }
func env(op string, k, j int) jOp      { return jOp{Op: op, K: k, J: j} }
func advance(ms int64) jOp             { return jOp{Op: "advance", Ms: ms} }

var cleanup = jOp{Op: "cleanup"}
var deliver = jOp{Op: "deliver"}
var restart = jOp{Op: "restart"}

func perms(n int) [][]int {
	if n == 0 {
		return [][]int{{}}
	}
	var out [][]int
	for _, p := range perms(n - 1) {
		for pos := 0; pos <= len(p); pos++ {
			q := append(append(append([]int{}, p[:pos]...), n-1), p[pos:]...)
			out = append(out, q)
		}
	}
	return out
}

func scripted(c *kit.Ctx) []job {
	var jobs []job
	add := func(kind string, n int, ops ...jOp) { jobs = append(jobs, fixed(kind, n, ops)) }

	// ---- S1 happy paths: every order in which up to 3 replacements initialize, a reconcile after each event
	for nrepl := 0; nrepl <= 3; nrepl++ {
		for _, cands := range [][]int{{0}, {0, 1}, {1, 2}} {
			for _, p := range perms(nrepl) {
				ops := []jOp{start(cands, nrepl)}
				for _, j := range p {
					ops = append(ops, env("launch", 0, j))
				}
				ops = append(ops, cleanup)
				for _, j := range p {
					ops = append(ops, env("init", 0, j), recon(cands[0]))
				}
				if nrepl == 0 {
					ops = append(ops, recon(cands[len(cands)-1]))
				}
				ops = append(ops, deliver, cleanup, recon(cands[0]))
				add("happy", 3, ops...)
			}
		}
	}
	// ---- S2 one fault at each call site
	for _, nrepl := range []int{0, 1, 2} {
		for _, cands := range [][]int{{0}, {0, 1}} {
			for _, key := range cands {
				for _, f := range faultKinds(key) {
					o := start(cands, nrepl)
					o.FTaint = []jFault{f}
					add("fault-start-taint", 2, o, cleanup, env("launch", 0, 0), env("init", 0, 0), recon(0), cleanup)
					o = start(cands, nrepl)
					o.FCond = []jFault{f}
					add("fault-start-cond", 2, o, cleanup, env("launch", 0, 0), env("init", 0, 0), recon(0), cleanup)
				}
			}
			for j := 0; j < nrepl; j++ {
				o := start(cands, nrepl)
				o.FCreate = []int{j}
				add("fault-start-create", 2, o, cleanup, env("launch", 0, 1-j), cleanup, start(cands, 0), recon(cands[0]))
			}
			if nrepl == 2 {
				o := start(cands, nrepl)
				o.FCreate = []int{0, 1}
				add("fault-start-create", 2, o, cleanup, start(cands, 1))
			}
		}
	}
	// a re-taint where the taint is already present (leftover of a failed command): write faults cannot fire
	for _, f := range faultKinds(0) {
		o1 := start([]int{0}, 1)
		o1.FCreate = []int{0}
		o2 := start([]int{0}, 1)
		o2.FTaint = []jFault{f}
		add("fault-start-retaint", 1, o1, o2, env("launch", 1, 0), cleanup)
	}
	for _, cands := range [][]int{{0}, {0, 1}} {
		for _, key := range cands {
			for _, f := range faultKinds(key) {
				if f.Site == "write" {
					// delete of a candidate
					r := recon(cands[0])
					r.FDel = []jFault{f}
					add("fault-recon-delete", 2, start(cands, 1), env("launch", 0, 0), env("init", 0, 0), r, recon(cands[0]), deliver, cleanup)
					add("fault-recon-delete", 2, start(cands, 0), r, recon(cands[len(cands)-1]), cleanup)
				}
				// rollback after a vanished replacement
				r := recon(cands[0])
				r.FUnt = []jFault{f}
				add("fault-rollback-untaint", 2, start(cands, 1), env("delapi", 0, 0), env("delstate", 0, 0), r, cleanup, cleanup)
				r = recon(cands[0])
				r.FClr = []jFault{f}
				add("fault-rollback-clear", 2, start(cands, 1), env("delapi", 0, 0), env("delstate", 0, 0), r, cleanup, cleanup)
				// controller cleanup after a failed start
				o := start(cands, 1)
				o.FCreate = []int{0}
				cl := cleanup
				cl.FUnt = []jFault{f}
				add("fault-cleanup-untaint", 2, o, cl, cleanup)
				cl = cleanup
				cl.FClr = []jFault{f}
				add("fault-cleanup-clear", 2, o, cl, cleanup)
			}
		}
	}
	for _, kind := range []string{"nf", "fail"} {
		for nrepl := 1; nrepl <= 2; nrepl++ {
			for j := 0; j < nrepl; j++ {
				r := recon(0)
				r.FGet = []jFault{fl(j, "get", kind, 1)}
				ops := []jOp{start([]int{0}, nrepl)}
				for x := 0; x < nrepl; x++ {
					ops = append(ops, env("launch", 0, x), env("init", 0, x))
				}
				add("fault-recon-get", 1, append(ops, r, recon(0), cleanup)...)
			}
		}
	}
	// ---- S3 the timeout boundary (10 minutes after the command's creation)
	for _, at := range []int64{599999, 600000, 600001, 3600001} {
		for _, cands := range [][]int{{0}, {0, 1}} {
			add("timeout-waiting", 2, start(cands, 1), env("launch", 0, 0), advance(at), recon(cands[0]), cleanup, deliver, cleanup)
			add("timeout-ready", 2, start(cands, 1), env("launch", 0, 0), env("init", 0, 0), advance(at), recon(cands[0]), cleanup, deliver, cleanup)
			add("timeout-delete-only", 2, start(cands, 0), advance(at), recon(cands[0]), cleanup, deliver, cleanup)
			r := recon(cands[0])
			r.FDel = []jFault{fl(cands[len(cands)-1], "write", "fail", 4)}
			add("timeout-delete-error", 2, start(cands, 1), env("launch", 0, 0), env("init", 0, 0), r, advance(at), recon(cands[0]), cleanup, deliver, cleanup)
			add("timeout-split", 2, start(cands, 1), advance(at-1000), env("launch", 0, 0), env("init", 0, 0), recon(cands[0]), advance(1000), recon(cands[0]), cleanup)
		}
	}
	// ---- S4 replacements that vanish, at every stage
	for nrepl := 1; nrepl <= 3; nrepl++ {
		for j := 0; j < nrepl; j++ {
			for _, stage := range []string{"before-launch", "after-launch", "after-init", "after-latch"} {
				for _, both := range []bool{true, false} {
					ops := []jOp{start([]int{0, 1}, nrepl)}
					for x := 0; x < nrepl; x++ {
						if x != j {
							ops = append(ops, env("launch", 0, x))
						}
					}
					switch stage {
					case "after-launch":
						ops = append(ops, env("launch", 0, j))
					case "after-init":
						ops = append(ops, env("launch", 0, j), env("init", 0, j))
					case "after-latch":
						ops = append(ops, env("launch", 0, j), env("init", 0, j), recon(0))
					}
					ops = append(ops, env("delapi", 0, j))
					if both {
						ops = append(ops, env("delstate", 0, j))
					}
					ops = append(ops, recon(1))
					for x := 0; x < nrepl; x++ {
						if x != j {
							ops = append(ops, env("init", 0, x))
						}
					}
					ops = append(ops, recon(0), cleanup, deliver, cleanup)
					if !both {
						ops = append(ops, env("delstate", 0, j), recon(0), cleanup)
					}
					add("vanish-"+stage, 2, ops...)
				}
			}
		}
	}
	// ---- corpus: the two histories that failed before 14eb43d3c / 61c12d2bd (now expected to pass)
	add("corpus:timeout-after-delete", 1, start([]int{0}, 1), env("launch", 0, 0), env("init", 0, 0), advance(600001), recon(0), cleanup, deliver, cleanup)
	add("corpus:latched-replacement-gone", 2, start([]int{0, 1}, 2), env("launch", 0, 0), env("launch", 0, 1), env("init", 0, 0), recon(0),
		env("delapi", 0, 0), env("delstate", 0, 0), env("init", 0, 1), recon(0), cleanup, deliver, cleanup)
	// the deletion of a latched replacement that the informer has not delivered yet
	add("latched-replacement-gone-undelivered", 2, start([]int{0, 1}, 2), env("launch", 0, 0), env("launch", 0, 1), env("init", 0, 0), recon(0),
		env("delapi", 0, 0), env("init", 0, 1), recon(0), cleanup, deliver, cleanup)
	// ---- a Delete that fails on all attempts after another candidate was deleted, then the command is given up
	for _, at := range []int64{1, 600001} {
		for _, victim := range []int{0, 1} {
			r1 := recon(0)
			r1.FDel = []jFault{fl(victim, "write", "fail", 4)}
			r2 := recon(1)
			r2.FDel = []jFault{fl(victim, "write", "fail", 5)}
			add("partial-delete-timeout", 2, start([]int{0, 1}, 1), env("launch", 0, 0), env("init", 0, 0), r1, advance(at), r2, cleanup, deliver, cleanup, recon(0))
			add("partial-delete-vanish", 2, start([]int{0, 1}, 1), env("launch", 0, 0), env("init", 0, 0), r1, env("delapi", 0, 0), env("delstate", 0, 0), advance(at), recon(1), cleanup, deliver, cleanup)
			add("partial-delete-recovers", 2, start([]int{0, 1}, 1), env("launch", 0, 0), env("init", 0, 0), r1, advance(at), recon(1), cleanup, deliver, cleanup)
		}
	}
	// ---- candidates (only some of them, in every list position) vanish completely - Node and NodeClaim gone from
	// the API, both deletions delivered to the cluster state - while a multi-candidate command waits; then each
	// failure kind, the rollback, the controller pass, and a later command on the survivors
	gone := func(id int) jOp { return jOp{Op: "gone", Node: id} }
	for _, cands := range [][]int{{0, 1}, {0, 1, 2}, {0, 2, 3}} {
		var subsets [][]int
		for mask := 1; mask < (1<<len(cands))-1; mask++ {
			var sub []int
			for i, c := range cands {
				if mask&(1<<i) != 0 {
					sub = append(sub, c)
				}
			}
			subsets = append(subsets, sub)
		}
		for _, sub := range subsets {
			live := -1
			var survivors []int
			for _, c := range cands {
				if !contains(sub, c) {
					survivors = append(survivors, c)
					if live < 0 {
						live = c
					}
				}
			}
			var vanish []jOp
			for _, c := range sub {
				vanish = append(vanish, gone(c))
			}
			tail := []jOp{cleanup, deliver, cleanup, start(survivors, 0), recon(live), cleanup}
			mk := func(kind string, mid ...jOp) {
				ops := append([]jOp{start(cands, 1), env("launch", 0, 0)}, mid...)
				add("candidate-vanishes-"+kind, 4, append(ops, tail...)...)
			}
			// replacement vanished
			mk("then-replacement-vanishes", append(append([]jOp{}, vanish...), env("delapi", 0, 0), env("delstate", 0, 0), recon(live))...)
			mk("after-latch-then-replacement-vanishes", append(append([]jOp{env("init", 0, 0)}, vanish...), env("delapi", 0, 0), env("delstate", 0, 0), recon(live))...)
			// timeout while waiting
			mk("then-timeout", append(append([]jOp{recon(live)}, vanish...), advance(600001), recon(live))...)
			// a Delete that keeps failing, then the timeout
			r1 := recon(live)
			r1.FDel = []jFault{fl(survivors[len(survivors)-1], "write", "fail", 4)}
			mk("then-delete-failure", append(append([]jOp{env("init", 0, 0)}, vanish...), r1, advance(600001), r1)...)
			// and the success path: the Delete of a vanished candidate is NotFound and ignored
			mk("then-success", append(append([]jOp{env("init", 0, 0)}, vanish...), recon(live))...)
			// a restart instead of a failure
			mk("then-restart", append(append([]jOp{}, vanish...), restart)...)
			// delete-only command
			add("candidate-vanishes-delete-only", 4, append(append(append([]jOp{start(cands, 0)}, vanish...), advance(600001), r1, r1), tail...)...)
		}
	}
	// ---- the first candidate (the one whose NodeClaim the queue enqueues) vanishes while the command waits
	for _, cands := range [][]int{{0}, {0, 1}, {0, 1, 2}, {1, 2, 3}} {
		for _, nrepl := range []int{0, 1} {
			add("first-candidate-vanishes", 4, start(cands, nrepl), env("launch", 0, 0), gone(cands[0]), recon(cands[len(cands)-1]), env("init", 0, 0),
				recon(cands[len(cands)-1]), advance(3600001), recon(cands[len(cands)-1]), cleanup, deliver, cleanup, restart, cleanup)
		}
	}
	// ---- the Node OBJECT of a candidate is being deleted / is gone (the NodeClaim remains) at each stage
	nodeop := func(op string, id int) jOp { return jOp{Op: op, Node: id} }
	for _, op := range []string{"nodedel", "nodegone"} {
		for _, victim := range []int{0, 1} {
			// before the command (a deleting Node can still be a candidate; a StateNode without a Node cannot)
			if op == "nodedel" {
				add("node-object-"+op+"-before-start", 2, nodeop(op, victim), start([]int{0, 1}, 1), env("launch", 0, 0), env("delapi", 0, 0), env("delstate", 0, 0), recon(0), cleanup, deliver, cleanup)
			}
			// while waiting, then each way the command ends
			add("node-object-"+op+"-then-replacement-vanishes", 2, start([]int{0, 1}, 1), env("launch", 0, 0), nodeop(op, victim), env("delapi", 0, 0), env("delstate", 0, 0), recon(0), cleanup, deliver, cleanup, restart, cleanup)
			add("node-object-"+op+"-then-timeout", 2, start([]int{0, 1}, 1), env("launch", 0, 0), nodeop(op, victim), advance(600001), recon(1), cleanup, deliver, cleanup)
			add("node-object-"+op+"-then-success", 2, start([]int{0, 1}, 1), env("launch", 0, 0), env("init", 0, 0), nodeop(op, victim), recon(1), cleanup, deliver, cleanup)
			// after a failed start: the stale taint / condition and the controller pass
			o := start([]int{0, 1}, 1)
			o.FCreate = []int{0}
			add("node-object-"+op+"-after-failed-start", 2, o, nodeop(op, victim), cleanup, deliver, cleanup, nodeop("nodegone", victim), cleanup, restart, cleanup)
			// and with a fault on the untaint of the affected node
			for _, f := range faultKinds(victim) {
				cl := cleanup
				cl.FUnt = []jFault{f}
				add("node-object-"+op+"-cleanup-fault", 2, o, nodeop(op, victim), cl, cleanup)
				r := recon(0)
				r.FUnt = []jFault{f}
				add("node-object-"+op+"-rollback-fault", 2, start([]int{0, 1}, 1), nodeop(op, victim), env("delapi", 0, 0), env("delstate", 0, 0), r, cleanup)
			}
		}
	}
	// ---- every replacement fails before its Create call: the NodePool cannot be read / its limits are exceeded
	for _, pf := range []string{"get", "limits"} {
		for _, nrepl := range []int{1, 2, 3} {
			o := start([]int{0, 1}, nrepl)
			o.PoolFault = pf
			for j := 0; j < nrepl; j++ {
				o.FCreate = append(o.FCreate, j)
			}
			add("nodepool-"+pf, 2, o, cleanup, start([]int{0, 1}, nrepl), env("launch", 1, 0), cleanup)
		}
	}
	// ---- a second command that shares ONE candidate (first / middle / last of the waiting command) is rejected; controller
	// passes; a third command on the shared candidate; then the first command's replacement initializes and it is
	// reconciled through each of its candidates
	for _, x := range []int{0, 1, 2} {
		for _, second := range [][]int{{x}, {x, 3}} {
			for _, nb := range []int{0, 1} {
				for _, nc := range []int{0, 1} {
					for _, via := range []int{0, 1, 2} {
						add("overlapping-start", 4, start([]int{0, 1, 2}, 1), env("launch", 0, 0), start(second, nb), cleanup, deliver, cleanup,
							start([]int{x}, nc), env("launch", 2, 0), cleanup, env("init", 0, 0), recon(via), recon(x), cleanup, deliver,
							env("init", 2, 0), recon(x), recon(3), cleanup)
					}
				}
			}
		}
	}
	// ---- a replacement's NodeClaim vanishes (API + delivered to the cluster state) while its Node object lingers, in every
	// position relative to the initializations of a 2- or 3-replacement command; also Node first, and undelivered
	for _, nrepl := range []int{2, 3} {
		for v := 0; v < nrepl; v++ {
			u := (v + 1) % nrepl
			launchAll := []jOp{start([]int{0, 1}, nrepl)}
			for j := 0; j < nrepl; j++ {
				launchAll = append(launchAll, env("launch", 0, j))
			}
			initRest := func(skip ...int) []jOp {
				var out []jOp
				for j := 0; j < nrepl; j++ {
					if !contains(skip, j) {
						out = append(out, env("init", 0, j))
					}
				}
				return out
			}
			for _, how := range []string{"lingers", "node-first", "undelivered"} {
				var vanish, later []jOp
				switch how {
				case "lingers":
					vanish = []jOp{env("delapi", 0, v), env("delstate", 0, v)}
				case "node-first":
					vanish = []jOp{env("delapi-node-first", 0, v), env("delstate", 0, v)}
				default:
					vanish = []jOp{env("delapi", 0, v)}
					later = []jOp{env("delstate", 0, v), recon(1), cleanup}
				}
				tail := append([]jOp{cleanup, deliver, cleanup, recon(1)}, later...)
				seq := func(kind string, parts ...[]jOp) {
					ops := append([]jOp{}, launchAll...)
					for _, p := range parts {
						ops = append(ops, p...)
					}
					add("replacement-claim-vanishes-"+how+"-"+kind, 2, append(ops, tail...)...)
				}
				seq("after-its-init", []jOp{env("init", 0, v)}, vanish, initRest(v), []jOp{recon(0)})
				seq("after-it-was-latched", []jOp{env("init", 0, v), recon(0)}, vanish, initRest(v), []jOp{recon(1)})
				seq("after-all-initialized", initRest(), vanish, []jOp{recon(0)})
				seq("after-another-was-latched", []jOp{env("init", 0, u), recon(0), env("init", 0, v)}, vanish, initRest(u, v), []jOp{recon(0)})
				seq("before-its-init", vanish, initRest(v), []jOp{recon(1)})
			}
		}
	}
	// ---- S5 a restart between any two steps of the protocol
	base := []jOp{start([]int{0, 1}, 2), env("launch", 0, 0), env("launch", 0, 1), env("init", 0, 1), recon(0), env("init", 0, 0), recon(1), deliver, cleanup}
	for pos := 0; pos <= len(base); pos++ {
		ops := append(append(append([]jOp{}, base[:pos]...), restart, cleanup), base[pos:]...)
		ops = append(ops, start([]int{1, 2}, 1), cleanup)
		add("restart", 3, ops...)
	}
	// ---- S6 overlapping commands
	add("overlap", 3, start([]int{0, 1}, 1), start([]int{1, 2}, 0), start([]int{2}, 0), start([]int{0}, 0), recon(2), start([]int{2}, 1), env("launch", 0, 0), env("init", 0, 0), recon(1), start([]int{0, 1}, 0), cleanup)
	add("overlap", 3, start([]int{0}, 0), start([]int{1}, 0), start([]int{2}, 0), recon(1), recon(0), recon(2), recon(2), deliver, cleanup)
	_ = c
	return jobs
}

// ---------------------------------------------------------------- state-aware random histories

func randFault(r *kit.Rand, key int) jFault {
	site := kit.Pick(r, []string{"get", "write"})
	switch r.Intn(5) {
	case 0:
		return fl(key, site, "nf", 0)
	case 1:
		return fl(key, site, "fail", 4)
	case 2:
		return fl(key, site, "fail", 3)
	case 3:
		return fl(key, site, "fail", 5)
	}
	return fl(key, site, "fail", 1+r.Intn(2))
}

func subset(r *kit.Rand, xs []int) []int {
	var out []int
	for _, x := range xs {
		if r.Chance(1, 2) {
			out = append(out, x)
		}
	}
	if len(out) == 0 {
		out = []int{kit.Pick(r, xs)}
	}
	sort.Ints(out)
	return out
}

func randomJobs(c *kit.Ctx) []job {
	count, maxN, maxLen, maxFaults := 1500, 3, 12, 1
	if c.Thorough() {
		count, maxN, maxLen, maxFaults = 5000, 4, 16, 3
	}
	var jobs []job
	for x := 0; x < count; x++ {
		r := c.Rand.Fork()
		n := r.Range(1, maxN)
		length := r.Range(3, maxLen)
		faults := maxFaults
		if !c.Thorough() && r.Chance(1, 5) {
			faults = 2
		}
		if r.Chance(1, 4) {
			faults = 0
		}
		jobs = append(jobs, job{kind: "random", n: n, maxOps: length, next: func(w *world, i int) *jOp { return randomOp(r, w, &faults) }})
	}
	return jobs
}

func randomOp(r *kit.Rand, w *world, faults *int) *jOp {
	s := w.snapshot()
	var free, all []int
	for id, nd := range s.Nodes {
		if nd.Gone {
			continue
		}
		all = append(all, id)
		if nd.Owner < 0 && !nd.Del && !nd.Mark && nd.Obj != "NGone" {
			free = append(free, id)
		}
	}
	liveOf := func(cm cmdSnap) []int {
		var out []int
		for _, c := range cm.Cands {
			if !s.Nodes[c].Gone {
				out = append(out, c)
			}
		}
		return out
	}
	// a request for a command travels under its first candidate's key, whichever candidate names the command here
	reconcilable := s.Cmds
	if len(all) == 0 {
		o := advance(1000)
		return &o
	}
	useFault := func() bool {
		if *faults > 0 && r.Chance(1, 3) {
			*faults--
			return true
		}
		return false
	}
	// pending replacement events of in-flight commands
	type ev struct {
		op   string
		k, j int
	}
	var evs []ev
	for _, rp := range s.Repls {
		inflight := false
		for _, cm := range s.Cmds {
			inflight = inflight || cm.ID == rp.K
		}
		switch {
		case rp.Exists && !rp.Launched:
			evs = append(evs, ev{"launch", rp.K, rp.J})
		case rp.Exists && !rp.Init && inflight:
			evs = append(evs, ev{"init", rp.K, rp.J})
		}
		if rp.Exists && inflight && r.Chance(1, 12) {
			evs = append(evs, ev{kit.Pick(r, []string{"delapi", "delapi", "delapi-node-first"}), rp.K, rp.J})
		}
		if !rp.Exists && rp.InSt {
			evs = append(evs, ev{"delstate", rp.K, rp.J})
		}
	}
	roll := r.Intn(100)
	switch {
	case len(s.Cmds) == 0 && len(free) > 0 && roll < 55, len(free) > 0 && roll < 12, roll < 3:
		pool := free
		if len(pool) == 0 || r.Chance(1, 12) {
			pool = nil
			for _, id := range all {
				if s.Nodes[id].Obj != "NGone" { // a StateNode without a Node is never a candidate
					pool = append(pool, id)
				}
			}
			if len(pool) == 0 {
				o := advance(1000)
				return &o
			}
		}
		o := start(subset(r, pool), kit.Pick(r, []int{0, 1, 1, 1, 2, 2, 3}))
		if useFault() {
			switch r.Intn(3) {
			case 0:
				o.FTaint = []jFault{randFault(r, kit.Pick(r, o.Cands))}
			case 1:
				o.FCond = []jFault{randFault(r, kit.Pick(r, o.Cands))}
			default:
				if o.NRepl > 0 && r.Chance(1, 3) {
					o.PoolFault = "get"
					// the limits are exceeded only while some node still counts towards the NodePool's usage
					for _, nd := range s.Nodes {
						if !nd.Gone && !nd.MView && nd.Obj == "NPresent" && r.Bool() {
							o.PoolFault = "limits"
						}
					}
					for j := 0; j < o.NRepl; j++ {
						o.FCreate = append(o.FCreate, j)
					}
				} else if o.NRepl > 0 {
					o.FCreate = []int{r.Intn(o.NRepl)}
				} else {
					o.FTaint = []jFault{randFault(r, kit.Pick(r, o.Cands))}
				}
			}
		}
		return &o
	case len(evs) > 0 && roll < 55:
		e := kit.Pick(r, evs)
		o := env(e.op, e.k, e.j)
		return &o
	case len(s.Cmds) > 0 && len(all) > 1 && roll >= 55 && roll < 58:
		// a candidate of an in-flight command (sometimes any node) vanishes completely
		pool := kit.Pick(r, s.Cmds).Cands
		if r.Chance(1, 4) {
			pool = all
		}
		o := jOp{Op: kit.Pick(r, []string{"gone", "gone", "nodedel", "nodegone"}), Node: kit.Pick(r, pool)}
		return &o
	case len(reconcilable) > 0 && roll < 82:
		cm := kit.Pick(r, reconcilable)
		o := recon(kit.Pick(r, cm.Cands))
		if useFault() {
			switch r.Intn(4) {
			case 0:
				if len(cm.Latched) > 0 {
					o.FGet = []jFault{fl(r.Intn(len(cm.Latched)), "get", kit.Pick(r, []string{"nf", "fail"}), 1)}
				}
			case 1:
				victims := liveOf(cm)
				if len(victims) == 0 {
					victims = cm.Cands
				}
				f := randFault(r, kit.Pick(r, victims))
				f.Site = "write"
				o.FDel = []jFault{f}
			case 2:
				o.FUnt = []jFault{randFault(r, kit.Pick(r, cm.Cands))}
			default:
				o.FClr = []jFault{randFault(r, kit.Pick(r, cm.Cands))}
			}
		}
		return &o
	case roll < 88:
		o := cleanup
		if useFault() {
			if r.Bool() {
				o.FUnt = []jFault{randFault(r, kit.Pick(r, all))}
			} else {
				o.FClr = []jFault{randFault(r, kit.Pick(r, all))}
			}
		}
		return &o
	case roll < 92:
		o := deliver
		return &o
	case roll < 94:
		o := restart
		return &o
	case roll < 96 && len(s.Cmds) > 0:
		// jump to the timeout boundary of an in-flight command
		cm := kit.Pick(r, s.Cmds)
		target := cm.Created + 600000 + int64(r.Intn(3)) - 1
		if target > s.Now {
			o := advance(target - s.Now)
			return &o
		}
		o := advance(1)
		return &o
	default:
		o := advance(int64(kit.Pick(r, []int{1, 1000, 30000, 299999, 300000, 600001})))
		return &o
	}
}
