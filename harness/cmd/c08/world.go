package main

// The world the real orchestration queue and disruption controller run in: controller-runtime's
// fake client behind a fault-injecting, observing interceptor; a FakeClock; the real state.Cluster,
// Provisioner, disruption.Queue and disruption.Controller (with no methods: only the stale
// taint/condition cleanup runs).

import (
	"context"
	"errors"
	"fmt"
	"sort"
	"strings"
	"sync"
	"time"

	"github.com/awslabs/operatorpkg/status"
	"github.com/google/uuid"
	corev1 "k8s.io/api/core/v1"
	appsv1 "k8s.io/api/apps/v1"
	policyv1 "k8s.io/api/policy/v1"
	storagev1 "k8s.io/api/storage/v1"
	apierrors "k8s.io/apimachinery/pkg/api/errors"
	"k8s.io/apimachinery/pkg/api/resource"
	metav1 "k8s.io/apimachinery/pkg/apis/meta/v1"
	"k8s.io/apimachinery/pkg/runtime"
	"k8s.io/apimachinery/pkg/runtime/schema"
	clock "k8s.io/utils/clock/testing"
	"sigs.k8s.io/controller-runtime/pkg/client"
	ctrlfake "sigs.k8s.io/controller-runtime/pkg/client/fake"
	"sigs.k8s.io/controller-runtime/pkg/client/interceptor"
	"sigs.k8s.io/controller-runtime/pkg/reconcile"
	"k8s.io/apimachinery/pkg/types"

	"sigs.k8s.io/karpenter/pkg/apis"
	v1 "sigs.k8s.io/karpenter/pkg/apis/v1"
	"sigs.k8s.io/karpenter/pkg/cloudprovider"
	"sigs.k8s.io/karpenter/pkg/cloudprovider/fake"
	"sigs.k8s.io/karpenter/pkg/controllers/disruption"
	"sigs.k8s.io/karpenter/pkg/controllers/dynamicresources/deviceallocation"
	"sigs.k8s.io/karpenter/pkg/controllers/provisioning"
	"sigs.k8s.io/karpenter/pkg/controllers/provisioning/scheduling"
	"sigs.k8s.io/karpenter/pkg/controllers/state"
	"sigs.k8s.io/karpenter/pkg/state/cost"
	"sigs.k8s.io/karpenter/pkg/state/virtualpods"
	"sigs.k8s.io/karpenter/pkg/test"

	"verifharness/kit"
)

const replAnnotation = "verif.c08/replacement"

var t0 = time.Unix(1_700_000_000, 0)

// ---------------------------------------------------------------- faults

// A fault is attached to one call site of one object for the duration of one op.
//   Site "get"   : the read inside the retried closure
//   Site "write" : the Patch / Status().Patch / Delete / Create itself
//   Kind "nf"    : NotFound;  Kind "fail": the first N attempts fail with a retriable error
type fault struct {
	Site     string `json:"site"`
	Kind     string `json:"kind"`
	N        int    `json:"n,omitempty"`
	Conflict bool   `json:"conflict,omitempty"`
	left     int
	fired    int
}

func (f *fault) gallina() string {
	site := "OnGet"
	if f.Site == "write" {
		site = "OnWrite"
	}
	if f.Kind == "nf" {
		return fmt.Sprintf("(%s, KNotFound)", site)
	}
	return fmt.Sprintf("(%s, KFail %s)", site, gnat(f.N))
}

type effect struct {
	Kind  string // taint cond create delete untaint clear
	A, B  int    // node id | (cmd id, replacement index)
	Flag  bool   // create: a candidate carried the in-memory deletion mark; delete: every replacement existed in the API and was Initialized
	Flag2 bool   // delete: every replacement was tracked by the cluster state (Cluster.NodeClaimExists)
	class int
}

func (e effect) gallina() string {
	switch e.Kind {
	case "taint":
		return fmt.Sprintf("ETaint %s", gnat(e.A))
	case "cond":
		return fmt.Sprintf("ECond %s", gnat(e.A))
	case "create":
		return fmt.Sprintf("ECreate %s %s %s", gnat(e.A), gnat(e.B), kit.GBool(e.Flag))
	case "delete":
		return fmt.Sprintf("EDelete %s %s %s", gnat(e.A), kit.GBool(e.Flag), kit.GBool(e.Flag2))
	case "untaint":
		return fmt.Sprintf("EUntaint %s", gnat(e.A))
	}
	return fmt.Sprintf("EClear %s", gnat(e.A))
}

func (e effect) short() string {
	switch e.Kind {
	case "create":
		return fmt.Sprintf("create(%d.%d,marked=%v)", e.A, e.B, e.Flag)
	case "delete":
		return fmt.Sprintf("delete(%d,api-ready=%v,tracked=%v)", e.A, e.Flag, e.Flag2)
	}
	return fmt.Sprintf("%s(%d)", e.Kind, e.A)
}

var classOf = map[string]int{"taint": 0, "cond": 0, "create": 1, "delete": 2, "untaint": 3, "clear": 4}
var kindRank = map[string]int{"taint": 0, "cond": 1, "create": 0, "delete": 0, "untaint": 0, "clear": 0}

// canonical: calls of one phase run in parallel; sort inside maximal runs of one phase, keep the
// order of the phases as observed (a reordering of phases is then visible as a mismatch).
func canonical(es []effect) []effect {
	out := append([]effect{}, es...)
	for i := 0; i < len(out); {
		j := i
		for j < len(out) && classOf[out[j].Kind] == classOf[out[i].Kind] {
			j++
		}
		run := out[i:j]
		sort.SliceStable(run, func(a, b int) bool {
			if run[a].A != run[b].A {
				return run[a].A < run[b].A
			}
			if run[a].B != run[b].B {
				return run[a].B < run[b].B
			}
			return kindRank[run[a].Kind] < kindRank[run[b].Kind]
		})
		i = j
	}
	return out
}

// ---------------------------------------------------------------- world

type replInfo struct {
	K, J     int
	Name     string // "" until created
	Created  bool
	Exists   bool
	Init     bool
	Launched bool
	HasNode  bool // the replacement's Node object exists (it registered): created when it initializes after its launch
	InState  bool // ground truth of the deliveries: the last event the cluster state received for this NodeClaim was not its deletion
}

type cmdInfo struct {
	ID      int
	Cmd     *disruption.Command
	Deleted map[int]bool
}

type world struct {
	ctx      context.Context
	inner    client.WithWatch
	c        client.WithWatch
	clk      *clock.FakeClock
	cp       *fake.CloudProvider
	cluster  *state.Cluster
	recorder *test.EventRecorder
	prov     *provisioning.Provisioner
	queue    *disruption.Queue
	ctrl     *disruption.Controller
	pool     *v1.NodePool
	it       *cloudprovider.InstanceType
	n        int

	mu      sync.Mutex
	faults  map[string]*fault // key verb-site/kind/name
	effects []effect
	curCmd  int // command id of the running Start op (for Create calls)
	repls   map[[2]int]*replInfo
	rorder  [][2]int
	cmds    map[uuid.UUID]*cmdInfo
	nextID  int
	active  *disruption.Command // the command the running Queue.Reconcile processes
	gone    map[int]bool
	fired   map[string]int
}

func nodeName(id int) string   { return fmt.Sprintf("node-%03d", id) }
func providerID(id int) string { return fmt.Sprintf("fake:///node-%03d", id) }
func idOfName(name string) (int, bool) {
	var id int
	if _, err := fmt.Sscanf(name, "node-%03d", &id); err != nil {
		return 0, false
	}
	return id, true
}

func newWorld(n int) *world {
	w := &world{ctx: kit.Context(), clk: clock.NewFakeClock(t0), cp: fake.NewCloudProvider(), recorder: test.NewEventRecorder(), n: n,
		faults: map[string]*fault{}, repls: map[[2]int]*replInfo{}, cmds: map[uuid.UUID]*cmdInfo{}, fired: map[string]int{}, gone: map[int]bool{}}
	w.inner = newAPI()
	w.c = interceptor.NewClient(w.inner, w.funcs())
	w.it = fake.NewInstanceType("it-a", fake.WithResources(corev1.ResourceList{
		corev1.ResourceCPU: resource.MustParse("16"), corev1.ResourceMemory: resource.MustParse("64Gi"), corev1.ResourcePods: resource.MustParse("100")}))
	w.cp.InstanceTypes = []*cloudprovider.InstanceType{w.it}
	w.pool = test.NodePool(v1.NodePool{ObjectMeta: metav1.ObjectMeta{Name: "pool"}})
	kit.Apply(w.ctx, w.inner, w.pool)
	w.boot()
	for id := 0; id < n; id++ {
		w.addNode(id)
	}
	return w
}

// boot builds every in-memory component (what a process start does).
func (w *world) boot() {
	w.cluster = state.NewCluster(w.clk, w.c, w.cp)
	w.prov = provisioning.NewProvisioner(w.c, w.recorder, w.cp, w.cluster, w.clk, deviceallocation.NewController(w.c), virtualpods.NewVirtualPodCache(w.c))
	w.queue = disruption.NewQueue(w.c, w.recorder, w.cluster, w.clk, w.prov)
	w.ctrl = disruption.NewController(w.clk, w.c, w.prov, w.cp, w.recorder, w.cluster, w.queue, cost.NewClusterCost(w.ctx, w.cp, w.inner), disruption.WithMethods())
	w.cmds = map[uuid.UUID]*cmdInfo{}
}

func (w *world) addNode(id int) {
	name := nodeName(id)
	labels := map[string]string{
		v1.NodePoolLabelKey:            w.pool.Name,
		corev1.LabelInstanceTypeStable: w.it.Name,
		v1.CapacityTypeLabelKey:        v1.CapacityTypeOnDemand,
		corev1.LabelTopologyZone:       "test-zone-1",
		corev1.LabelHostname:           name,
	}
	alloc := corev1.ResourceList{corev1.ResourceCPU: resource.MustParse("16"), corev1.ResourceMemory: resource.MustParse("64Gi"), corev1.ResourcePods: resource.MustParse("100")}
	nc := test.NodeClaim(v1.NodeClaim{
		ObjectMeta: metav1.ObjectMeta{Name: name, Labels: labels, Finalizers: []string{"karpenter.sh/test-finalizer"}},
		Status:     v1.NodeClaimStatus{ProviderID: providerID(id), NodeName: name, Allocatable: alloc, Capacity: alloc},
	})
	cs := nc.StatusConditions(status.WithClock(w.clk))
	cs.SetTrue(v1.ConditionTypeLaunched)
	cs.SetTrue(v1.ConditionTypeRegistered)
	cs.SetTrue(v1.ConditionTypeInitialized)
	nc.Namespace = ""
	kit.Apply(w.ctx, w.inner, nc)
	w.cluster.UpdateNodeClaim(nc)
	nl := map[string]string{v1.NodeRegisteredLabelKey: "true", v1.NodeInitializedLabelKey: "true"}
	for k, v := range labels {
		nl[k] = v
	}
	node := test.Node(test.NodeOptions{ObjectMeta: metav1.ObjectMeta{Name: name, Labels: nl, Finalizers: []string{"karpenter.sh/test-finalizer"}},
		ProviderID: providerID(id), Allocatable: alloc, Capacity: alloc, Taints: otherTaints(id)})
	node.Namespace = "" // cluster-scoped, as in a real API server (RequireNoScheduleTaint reads it by name only)
	kit.Apply(w.ctx, w.inner, node)
	if err := w.cluster.UpdateNode(w.ctx, node); err != nil {
		panic(err)
	}
}

// deliver hands the current API objects of every candidate node to the cluster state, as the
// informer controllers do.
func (w *world) deliver() {
	for id := 0; id < w.n; id++ {
		nc := &v1.NodeClaim{}
		if err := w.inner.Get(w.ctx, client.ObjectKey{Name: nodeName(id)}, nc); err == nil {
			w.cluster.UpdateNodeClaim(nc)
		}
		node := &corev1.Node{}
		if err := w.inner.Get(w.ctx, client.ObjectKey{Name: nodeName(id)}, node); err == nil {
			if err := w.cluster.UpdateNode(w.ctx, node); err != nil {
				panic(err)
			}
		}
	}
}

// restart: every in-memory component is rebuilt; the API keeps its content and is re-delivered.
func (w *world) restart() {
	w.boot()
	w.deliver()
	for _, key := range w.rorder {
		r := w.repls[key]
		if !r.Exists {
			continue
		}
		nc := &v1.NodeClaim{}
		if err := w.inner.Get(w.ctx, client.ObjectKey{Name: r.Name}, nc); err == nil {
			w.cluster.UpdateNodeClaim(nc)
		}
	}
	for _, key := range w.rorder {
		r := w.repls[key]
		r.InState = r.Exists
		if r.HasNode {
			node := &corev1.Node{}
			if err := w.inner.Get(w.ctx, client.ObjectKey{Name: fmt.Sprintf("repl-node-%d-%d", r.K, r.J)}, node); err == nil {
				must(w.cluster.UpdateNode(w.ctx, node))
			}
		}
	}
}

func (w *world) dropReplNode(r *replInfo) {
	name := fmt.Sprintf("repl-node-%d-%d", r.K, r.J)
	node := &corev1.Node{}
	if err := w.inner.Get(w.ctx, client.ObjectKey{Name: name}, node); err == nil {
		must(client.IgnoreNotFound(w.inner.Delete(w.ctx, node)))
	}
	w.cluster.DeleteNode(name)
	r.HasNode = false
}

// newAPI is controller-runtime's in-memory client with the operator's indexes, over a scheme that holds
// only the kinds the code under test touches (the fake client rebuilds a REST mapper from the whole
// scheme on every write; with client-go's full scheme that dominates the run time).
var smallScheme = func() *runtime.Scheme {
	s := runtime.NewScheme()
	metav1.AddToGroupVersion(s, corev1.SchemeGroupVersion)
	s.AddKnownTypes(corev1.SchemeGroupVersion, &corev1.Node{}, &corev1.NodeList{}, &corev1.Pod{}, &corev1.PodList{}, &corev1.Event{}, &corev1.EventList{})
	metav1.AddToGroupVersion(s, storagev1.SchemeGroupVersion)
	s.AddKnownTypes(storagev1.SchemeGroupVersion, &storagev1.CSINode{}, &storagev1.CSINodeList{}, &storagev1.VolumeAttachment{}, &storagev1.VolumeAttachmentList{})
	metav1.AddToGroupVersion(s, policyv1.SchemeGroupVersion)
	s.AddKnownTypes(policyv1.SchemeGroupVersion, &policyv1.PodDisruptionBudget{}, &policyv1.PodDisruptionBudgetList{})
	metav1.AddToGroupVersion(s, appsv1.SchemeGroupVersion)
	s.AddKnownTypes(appsv1.SchemeGroupVersion, &appsv1.DaemonSet{}, &appsv1.DaemonSetList{})
	gv := schema.GroupVersion{Group: apis.Group, Version: "v1"}
	metav1.AddToGroupVersion(s, gv)
	s.AddKnownTypes(gv, &v1.NodePool{}, &v1.NodePoolList{}, &v1.NodeClaim{}, &v1.NodeClaimList{})
	return s
}()

func newAPI() client.WithWatch {
	return ctrlfake.NewClientBuilder().WithScheme(smallScheme).
		WithStatusSubresource(&v1.NodeClaim{}, &v1.NodePool{}, &corev1.Node{}, &corev1.Pod{}).
		WithIndex(&corev1.Pod{}, "spec.nodeName", func(o client.Object) []string { return []string{o.(*corev1.Pod).Spec.NodeName} }).
		WithIndex(&corev1.Node{}, "spec.providerID", func(o client.Object) []string { return []string{o.(*corev1.Node).Spec.ProviderID} }).
		WithIndex(&storagev1.VolumeAttachment{}, "spec.nodeName", func(o client.Object) []string {
			return []string{o.(*storagev1.VolumeAttachment).Spec.NodeName}
		}).
		WithIndex(&v1.NodeClaim{}, "status.providerID", func(o client.Object) []string { return []string{o.(*v1.NodeClaim).Status.ProviderID} }).
		Build()
}

// ---------------------------------------------------------------- interceptor

func injected(f *fault, kind, key string) error {
	gr := schema.GroupResource{Group: "verif", Resource: kind}
	if f.Kind == "nf" {
		return apierrors.NewNotFound(gr, key)
	}
	if f.Conflict {
		return apierrors.NewConflict(gr, key, errors.New("injected conflict"))
	}
	return apierrors.NewInternalError(errors.New("injected server error"))
}

// hit decides whether the call (site, kind, name) fails now.
func (w *world) hit(site, kind, name string) error {
	w.mu.Lock()
	defer w.mu.Unlock()
	f := w.faults[site+"/"+kind+"/"+name]
	if f == nil {
		return nil
	}
	if f.Kind == "nf" {
		f.fired++
		return injected(f, kind, name)
	}
	if f.left > 0 {
		f.left--
		f.fired++
		return injected(f, kind, name)
	}
	return nil
}

func (w *world) record(e effect) {
	w.mu.Lock()
	w.effects = append(w.effects, e)
	w.mu.Unlock()
}

func hasTaint(n *corev1.Node) bool {
	for i := range n.Spec.Taints {
		if n.Spec.Taints[i].MatchTaint(&v1.DisruptedNoScheduleTaint) {
			return true
		}
	}
	return false
}

func hasCond(nc *v1.NodeClaim) bool {
	return nc.StatusConditions().Get(v1.ConditionTypeDisruptionReason) != nil
}

func (w *world) replKeyOf(obj client.Object) ([2]int, bool) {
	a := obj.GetAnnotations()[replAnnotation]
	var k, j int
	if _, err := fmt.Sscanf(a, "%d-%d", &k, &j); err != nil {
		return [2]int{}, false
	}
	return [2]int{k, j}, true
}

// replsReady: every replacement of the in-flight command owning candidate id (api) exists in the API and
// reports Initialized, (tracked) is known to the cluster state; evaluated at the moment of the call.
func (w *world) replsReady(id int) (api bool, tracked bool) {
	w.mu.Lock()
	var names []string
	if w.active != nil { // the command Queue.Reconcile is processing right now
		for _, r := range w.active.Replacements {
			names = append(names, r.Name)
		}
	}
	w.mu.Unlock()
	api, tracked = true, true
	for _, name := range names {
		nc := &v1.NodeClaim{}
		if err := w.inner.Get(w.ctx, client.ObjectKey{Name: name}, nc); err != nil {
			api = false
		} else if !nc.StatusConditions().Get(v1.ConditionTypeInitialized).IsTrue() {
			api = false
		}
		// "tracked" is the ground truth of the deliveries, not Cluster.NodeClaimExists (that index is under test;
		// it is compared with the model in every snapshot)
		w.mu.Lock()
		for _, r := range w.repls {
			if r.Name == name && !r.InState {
				tracked = false
			}
		}
		w.mu.Unlock()
	}
	return api, tracked
}

func (w *world) anyCandidateMarked(k int) bool {
	w.mu.Lock()
	var ids []string
	for _, ci := range w.cmds {
		if ci.ID == k {
			for _, cand := range ci.Cmd.Candidates {
				ids = append(ids, cand.ProviderID())
			}
		}
	}
	w.mu.Unlock()
	for _, pid := range ids {
		if flag, _ := w.cluster.VerifC08MarkFlag(pid); flag {
			return true
		}
	}
	return false
}

func (w *world) funcs() interceptor.Funcs {
	return interceptor.Funcs{
		Get: func(ctx context.Context, c client.WithWatch, key client.ObjectKey, obj client.Object, opts ...client.GetOption) error {
			kind := kindOf(obj)
			name := key.Name
			if kind == "NodeClaim" {
				if _, isNode := idOfName(name); !isNode {
					// a replacement: faults are keyed by (cmd, index)
					w.mu.Lock()
					for _, r := range w.repls {
						if r.Name == name {
							name = fmt.Sprintf("repl-%d-%d", r.K, r.J)
						}
					}
					w.mu.Unlock()
				}
			}
			if err := w.hit("get", kind, name); err != nil {
				return err
			}
			return c.Get(ctx, key, obj, opts...)
		},
		Create: func(ctx context.Context, c client.WithWatch, obj client.Object, opts ...client.CreateOption) error {
			key, isRepl := w.replKeyOf(obj)
			if kindOf(obj) != "NodeClaim" || !isRepl {
				return c.Create(ctx, obj, opts...)
			}
			if err := w.hit("write", "NodeClaim", fmt.Sprintf("repl-%d-%d", key[0], key[1])); err != nil {
				return err
			}
			marked := w.anyCandidateMarked(key[0])
			if err := c.Create(ctx, obj, opts...); err != nil {
				return err
			}
			w.mu.Lock()
			r := &replInfo{K: key[0], J: key[1], Name: obj.GetName(), Created: true, Exists: true, InState: true} // Provisioner.Create hands it to the cluster state
			w.repls[key] = r
			w.rorder = append(w.rorder, key)
			w.effects = append(w.effects, effect{Kind: "create", A: key[0], B: key[1], Flag: marked})
			w.mu.Unlock()
			return nil
		},
		Delete: func(ctx context.Context, c client.WithWatch, obj client.Object, opts ...client.DeleteOption) error {
			id, isNode := idOfName(obj.GetName())
			if kindOf(obj) != "NodeClaim" || !isNode {
				return c.Delete(ctx, obj, opts...)
			}
			if err := w.hit("write", "NodeClaim-delete", obj.GetName()); err != nil {
				return err
			}
			ready, tracked := w.replsReady(id)
			if err := c.Delete(ctx, obj, opts...); err != nil {
				return err
			}
			w.mu.Lock()
			if w.active != nil {
				if ci := w.cmds[w.active.ID]; ci != nil {
					ci.Deleted[id] = true
				}
			}
			w.effects = append(w.effects, effect{Kind: "delete", A: id, Flag: ready, Flag2: tracked})
			w.mu.Unlock()
			return nil
		},
		Patch: func(ctx context.Context, c client.WithWatch, obj client.Object, patch client.Patch, opts ...client.PatchOption) error {
			id, isNode := idOfName(obj.GetName())
			if kindOf(obj) != "Node" || !isNode {
				return c.Patch(ctx, obj, patch, opts...)
			}
			if err := w.hit("write", "Node", obj.GetName()); err != nil {
				return err
			}
			before := &corev1.Node{}
			_ = w.inner.Get(ctx, client.ObjectKeyFromObject(obj), before)
			if err := c.Patch(ctx, obj, patch, opts...); err != nil {
				return err
			}
			after := &corev1.Node{}
			_ = w.inner.Get(ctx, client.ObjectKeyFromObject(obj), after)
			switch {
			case !hasTaint(before) && hasTaint(after):
				w.record(effect{Kind: "taint", A: id})
			case hasTaint(before) && !hasTaint(after):
				w.record(effect{Kind: "untaint", A: id})
			}
			return nil
		},
		SubResourcePatch: func(ctx context.Context, c client.Client, sub string, obj client.Object, patch client.Patch, opts ...client.SubResourcePatchOption) error {
			id, isNode := idOfName(obj.GetName())
			if kindOf(obj) != "NodeClaim" || !isNode || sub != "status" {
				return c.SubResource(sub).Patch(ctx, obj, patch, opts...)
			}
			if err := w.hit("write", "NodeClaim", obj.GetName()); err != nil {
				return err
			}
			before := &v1.NodeClaim{}
			_ = w.inner.Get(ctx, client.ObjectKeyFromObject(obj), before)
			if err := c.SubResource(sub).Patch(ctx, obj, patch, opts...); err != nil {
				return err
			}
			after := &v1.NodeClaim{}
			_ = w.inner.Get(ctx, client.ObjectKeyFromObject(obj), after)
			switch {
			case !hasCond(before) && hasCond(after):
				w.record(effect{Kind: "cond", A: id})
			case hasCond(before) && !hasCond(after):
				w.record(effect{Kind: "clear", A: id})
			}
			return nil
		},
	}
}

func kindOf(o interface{}) string {
	switch o.(type) {
	case *v1.NodeClaim, *v1.NodeClaimList:
		return "NodeClaim"
	case *v1.NodePool, *v1.NodePoolList:
		return "NodePool"
	case *corev1.Node, *corev1.NodeList:
		return "Node"
	}
	return fmt.Sprintf("%T", o)
}

// ---------------------------------------------------------------- ops

type jFault struct {
	Key int `json:"key"` // node id or replacement index
	fault
}

type jOp struct {
	Op     string   `json:"op"`
	Cands  []int    `json:"cands,omitempty"`
	NRepl  int      `json:"nrepl,omitempty"`
	Node   int      `json:"node,omitempty"`
	K      int      `json:"k,omitempty"`
	J      int      `json:"j,omitempty"`
	Ms     int64    `json:"ms,omitempty"`
	FTaint []jFault `json:"f_taint,omitempty"`   // RequireNoScheduleTaint(add) per candidate
	FCond  []jFault `json:"f_cond,omitempty"`    // DisruptionReason condition per candidate
	FCreate []int   `json:"f_create,omitempty"`  // replacement indexes whose Create fails
	// why every replacement fails before its Create call: "get" = the NodePool cannot be read, "limits" = the
	// NodePool's limits are exceeded (f_create then lists every index)
	PoolFault string `json:"pool_fault,omitempty"`
	Via       string `json:"via,omitempty"` // "controller": the command was started through Controller.Reconcile / disrupt()
	FGet   []jFault `json:"f_get,omitempty"`     // Get of a replacement in waitOrTerminate (Kind nf | fail)
	FDel   []jFault `json:"f_delete,omitempty"`  // Delete of a candidate NodeClaim
	FUnt   []jFault `json:"f_untaint,omitempty"` // RequireNoScheduleTaint(remove)
	FClr   []jFault `json:"f_clear,omitempty"`   // ClearNodeClaimsCondition
	// observation
	Ret     string   `json:"ret"`
	Effects []string `json:"effects,omitempty"`
}

func (w *world) setFaults(fs []jFault, kindOnGet, kindOnWrite string, name func(int) string) {
	for i := range fs {
		f := fs[i].fault
		f.left = f.N
		kind := kindOnGet
		if f.Site == "write" {
			kind = kindOnWrite
		}
		ff := f
		w.faults[f.Site+"/"+kind+"/"+name(fs[i].Key)] = &ff
	}
}

func (w *world) clearFaults() {
	for k, f := range w.faults {
		parts := strings.SplitN(k, "/", 3)
		if f.fired > 0 {
			w.fired[parts[0]+"/"+parts[1]+"/"+f.Kind]++
		} else {
			// e.g. a fault on a write the closure had no reason to issue
			w.fired["planned-but-call-not-issued:"+parts[0]+"/"+parts[1]+"/"+f.Kind]++
		}
	}
	w.faults = map[string]*fault{}
}

func (w *world) stateNode(id int) *state.StateNode {
	for _, n := range w.cluster.DeepCopyNodes() {
		if n.ProviderID() == providerID(id) {
			return n
		}
	}
	return nil
}

// exec runs one op on the real code and fills in what it returned.
func (w *world) exec(o *jOp) []effect {
	w.effects = nil
	switch o.Op {
	case "start":
		k := w.nextID
		w.nextID++
		w.curCmd = k
		o.K = k
		cmd := &disruption.Command{
			Method:            w.method(k),
			CreationTimestamp: w.clk.Now(),
			ID:                uuid.New(),
			Results:           scheduling.Results{},
		}
		for _, id := range o.Cands {
			sn := w.stateNode(id)
			if sn == nil {
				panic("no state node")
			}
			cmd.Candidates = append(cmd.Candidates, &disruption.Candidate{StateNode: sn, NodePool: w.pool})
		}
		for j := 0; j < o.NRepl; j++ {
			nct := scheduling.NewNodeClaimTemplate(w.pool)
			nct.InstanceTypeOptions = append([]*cloudprovider.InstanceType{}, w.cp.InstanceTypes...)
			ann := map[string]string{}
			for a, b := range nct.Annotations {
				ann[a] = b
			}
			ann[replAnnotation] = fmt.Sprintf("%d-%d", k, j)
			nct.Annotations = ann
			cmd.Replacements = append(cmd.Replacements, &disruption.Replacement{NodeClaim: &scheduling.NodeClaim{NodeClaimTemplate: *nct}})
		}
		w.setFaults(o.FTaint, "Node", "Node", nodeName)
		w.setFaults(o.FCond, "NodeClaim", "NodeClaim", nodeName)
		switch o.PoolFault {
		case "":
			for _, j := range o.FCreate {
				w.faults[fmt.Sprintf("write/NodeClaim/repl-%d-%d", k, j)] = &fault{Site: "write", Kind: "fail", N: 1, left: 1}
			}
		case "get":
			w.faults["get/NodePool/pool"] = &fault{Site: "get", Kind: "fail", N: 1000, left: 1000}
		case "limits":
			np := &v1.NodePool{}
			must(w.inner.Get(w.ctx, client.ObjectKey{Name: "pool"}, np))
			np.Spec.Limits = v1.Limits(corev1.ResourceList{corev1.ResourceCPU: resource.MustParse("1")})
			must(w.inner.Update(w.ctx, np))
		}
		w.mu.Lock()
		w.cmds[cmd.ID] = &cmdInfo{ID: k, Cmd: cmd, Deleted: map[int]bool{}}
		w.mu.Unlock()
		var err error
		o.Via = ""
		if w.viaControllerOK(o) {
			// The command reaches the queue the way it does in production: Controller.Reconcile -> disrupt() (candidate
			// discovery, budgets, ComputeCommands of a scripted method that returns this command, CreationTimestamp / ID /
			// Method assignment, StartCommand in parallel). Only used when the clean-up at the head of Reconcile has
			// nothing to do, so that the step is exactly one StartCommand.
			scr := &scriptedMethod{Method: cmd.Method, cmds: []disruption.Command{{Results: cmd.Results, Candidates: cmd.Candidates, Replacements: cmd.Replacements}}}
			ctrl := disruption.NewController(w.clk, w.c, w.prov, w.cp, w.recorder, w.cluster, w.queue, cost.NewClusterCost(w.ctx, w.cp, w.inner), disruption.WithMethods(scr))
			_, cerr := ctrl.Reconcile(w.ctx)
			if scr.called {
				o.Via = "controller"
				err = cerr
				w.mu.Lock()
				delete(w.cmds, cmd.ID)
				if started := w.queue.ProviderIDToCommand[providerID(o.Cands[0])]; cerr == nil && started != nil && w.cmds[started.ID] == nil {
					cmd = started
					w.cmds[cmd.ID] = &cmdInfo{ID: k, Cmd: cmd, Deleted: map[int]bool{}}
				} else if cerr == nil {
					panic("the controller reported success but the command is not in the queue")
				}
				w.mu.Unlock()
			} else if cerr != nil {
				panic("Controller.Reconcile failed before computing commands: " + cerr.Error())
			}
		}
		if o.Via == "" {
			err = w.queue.StartCommand(w.ctx, cmd)
		}
		if o.PoolFault == "limits" {
			np := &v1.NodePool{}
			must(w.inner.Get(w.ctx, client.ObjectKey{Name: "pool"}, np))
			np.Spec.Limits = nil
			must(w.inner.Update(w.ctx, np))
		}
		switch {
		case err == nil:
			o.Ret = "Started"
		case strings.Contains(err.Error(), "candidate is being disrupted"):
			o.Ret = "ErrBusy"
		case strings.Contains(err.Error(), "marking disrupted"):
			o.Ret = "ErrMark"
		case strings.Contains(err.Error(), "launching replacement"):
			o.Ret = "ErrCreate"
		default:
			panic("unexpected StartCommand error: " + err.Error())
		}
		// (the harness never forgets a command it has handed to the queue: what is in flight is read from the queue)
	case "recon":
		// replacement Get faults are keyed by (owning command, index)
		owner := w.queue.ProviderIDToCommand[providerID(o.Node)]
		if owner != nil {
			k := w.cmds[owner.ID].ID
			w.setFaults(o.FGet, "NodeClaim", "NodeClaim", func(j int) string { return fmt.Sprintf("repl-%d-%d", k, j) })
		}
		w.setFaults(o.FDel, "NodeClaim-delete", "NodeClaim-delete", nodeName)
		w.setFaults(o.FUnt, "Node", "Node", nodeName)
		w.setFaults(o.FClr, "NodeClaim", "NodeClaim", nodeName)
		// The request travels the way it does under the manager: the only key the queue ever enqueues for a command is
		// the NodeClaim of cmd.Candidates[0] (StartCommand; controller-runtime re-queues the same key), and
		// reconcile.AsReconciler reads that object before it calls Queue.Reconcile. (The wrapper's own Get is not a fault site.)
		key := nodeName(o.Node)
		if owner != nil {
			key = owner.Candidates[0].NodeClaim.Name
		}
		// Queue.Reconcile looks the command up by the provider id of the NodeClaim it is handed; on an intact queue that
		// is the owner again. The observation follows what the implementation actually does.
		var actual *disruption.Command
		if id, ok := idOfName(key); ok {
			actual = w.queue.ProviderIDToCommand[providerID(id)]
		}
		w.mu.Lock()
		w.active = actual
		w.mu.Unlock()
		counted := &countingReconciler{q: w.queue}
		res, err := reconcile.AsReconciler[*v1.NodeClaim](w.inner, counted).Reconcile(w.ctx, reconcile.Request{NamespacedName: types.NamespacedName{Name: key}})
		if err != nil {
			panic("Queue.Reconcile returned an error: " + err.Error())
		}
		switch {
		case counted.calls == 0:
			o.Ret = "RDropped"
		case actual == nil:
			o.Ret = "RNoCmd"
		case res.RequeueAfter > 0:
			o.Ret = "RRequeue"
		case actual.Succeeded:
			o.Ret = "RSucceeded"
		default:
			o.Ret = "RFailed"
		}
		w.mu.Lock()
		w.active = nil
		w.mu.Unlock()
	case "cleanup":
		w.setFaults(o.FUnt, "Node", "Node", nodeName)
		w.setFaults(o.FClr, "NodeClaim", "NodeClaim", nodeName)
		res, err := w.ctrl.Reconcile(w.ctx)
		switch {
		case err != nil || res.Requeue:
			o.Ret = "CErr"
		case res.RequeueAfter == time.Second:
			o.Ret = "CUnsynced"
		default:
			o.Ret = "COk"
		}
	case "launch", "init", "delapi", "delapi-node-first", "delstate":
		o.Ret = "EnvOk"
		r := w.repls[[2]int{o.K, o.J}]
		if r == nil {
			break
		}
		switch o.Op {
		case "launch":
			if r.Exists {
				nc := &v1.NodeClaim{}
				must(w.inner.Get(w.ctx, client.ObjectKey{Name: r.Name}, nc))
				nc.Status.ProviderID = fmt.Sprintf("fake:///repl-%d-%d", r.K, r.J)
				nc.StatusConditions(status.WithClock(w.clk)).SetTrue(v1.ConditionTypeLaunched)
				if r.J%2 == 1 && !r.Init {
					// "not Initialized" also comes as a condition that is present but not True
					nc.StatusConditions(status.WithClock(w.clk)).SetUnknown(v1.ConditionTypeInitialized)
				}
				must(w.inner.Status().Update(w.ctx, nc))
				must(w.inner.Get(w.ctx, client.ObjectKey{Name: r.Name}, nc))
				w.cluster.UpdateNodeClaim(nc)
				r.Launched = true
				r.InState = true
			}
		case "init":
			if r.Exists {
				nc := &v1.NodeClaim{}
				must(w.inner.Get(w.ctx, client.ObjectKey{Name: r.Name}, nc))
				cs := nc.StatusConditions(status.WithClock(w.clk))
				cs.SetTrue(v1.ConditionTypeLaunched)
				cs.SetTrue(v1.ConditionTypeRegistered)
				cs.SetTrue(v1.ConditionTypeInitialized)
				must(w.inner.Status().Update(w.ctx, nc))
				r.Init = true
				if r.Launched && !r.HasNode {
					// an Initialized replacement has a registered, initialized Node; the informer delivers it
					name := fmt.Sprintf("repl-node-%d-%d", r.K, r.J)
					node := test.Node(test.NodeOptions{ObjectMeta: metav1.ObjectMeta{Name: name, Labels: map[string]string{
						v1.NodePoolLabelKey: w.pool.Name, v1.NodeRegisteredLabelKey: "true", v1.NodeInitializedLabelKey: "true",
						corev1.LabelInstanceTypeStable: w.it.Name, v1.CapacityTypeLabelKey: v1.CapacityTypeOnDemand, corev1.LabelTopologyZone: "test-zone-1",
						corev1.LabelHostname: name}}, ProviderID: nc.Status.ProviderID})
					node.Namespace = ""
					kit.Apply(w.ctx, w.inner, node)
					must(w.cluster.UpdateNode(w.ctx, node))
					r.HasNode = true
				}
			}
		case "delapi-node-first":
			// the replacement's Node goes first (API + cluster state), then its NodeClaim leaves the API
			if r.Exists && r.HasNode {
				w.dropReplNode(r)
			}
			fallthrough
		case "delapi":
			if r.Exists {
				nc := &v1.NodeClaim{}
				must(w.inner.Get(w.ctx, client.ObjectKey{Name: r.Name}, nc))
				if len(nc.Finalizers) > 0 {
					nc.Finalizers = nil
					must(w.inner.Update(w.ctx, nc))
				}
				must(client.IgnoreNotFound(w.inner.Delete(w.ctx, nc)))
				r.Exists = false
			}
		case "delstate":
			// the informer delivers a deletion only of an object that is gone from the API
			// (a replacement's Node, if it registered, lingers unless "delapi-node-first" removed it)
			if !r.Exists {
				w.cluster.DeleteNodeClaim(r.Name)
				r.InState = false
			}
		}
	case "gone":
		// the instance is reclaimed / the objects are finalized: Node and NodeClaim leave the API and the informers
		// deliver both deletions to the cluster state
		o.Ret = "EnvOk"
		if !w.gone[o.Node] {
			nc := &v1.NodeClaim{}
			must(w.inner.Get(w.ctx, client.ObjectKey{Name: nodeName(o.Node)}, nc))
			nc.Finalizers = nil
			must(w.inner.Update(w.ctx, nc))
			must(client.IgnoreNotFound(w.inner.Delete(w.ctx, nc)))
			node := &corev1.Node{}
			if err := w.inner.Get(w.ctx, client.ObjectKey{Name: nodeName(o.Node)}, node); err == nil { // the Node object may be gone already
				node.Finalizers = nil
				must(w.inner.Update(w.ctx, node))
				must(client.IgnoreNotFound(w.inner.Delete(w.ctx, node)))
			} else if !apierrors.IsNotFound(err) {
				panic(err)
			}
			w.cluster.DeleteNodeClaim(nodeName(o.Node))
			w.cluster.DeleteNode(nodeName(o.Node))
			w.gone[o.Node] = true
		}
	case "nodedel":
		// the Node object gets a deletionTimestamp (it keeps its finalizer)
		o.Ret = "EnvOk"
		if !w.gone[o.Node] && w.objState(o.Node) == "NPresent" {
			node := &corev1.Node{}
			must(w.inner.Get(w.ctx, client.ObjectKey{Name: nodeName(o.Node)}, node))
			must(w.inner.Delete(w.ctx, node))
		}
	case "nodegone":
		// the Node object leaves the API and the informer delivers the deletion; the NodeClaim remains
		o.Ret = "EnvOk"
		if !w.gone[o.Node] && w.objState(o.Node) != "NGone" {
			node := &corev1.Node{}
			must(w.inner.Get(w.ctx, client.ObjectKey{Name: nodeName(o.Node)}, node))
			node.Finalizers = nil
			must(w.inner.Update(w.ctx, node))
			must(client.IgnoreNotFound(w.inner.Delete(w.ctx, node)))
			w.cluster.DeleteNode(nodeName(o.Node))
		}
	case "deliver":
		o.Ret = "EnvOk"
		w.deliver()
	case "advance":
		o.Ret = "EnvOk"
		w.clk.Step(time.Duration(o.Ms) * time.Millisecond)
	case "restart":
		o.Ret = "EnvOk"
		w.restart()
	default:
		panic("unknown op " + o.Op)
	}
	w.clearFaults()
	es := canonical(w.effects)
	o.Effects = nil
	for _, e := range es {
		o.Effects = append(o.Effects, e.short())
	}
	return es
}

// scriptedMethod is a disruption method whose decision is given: every node is eligible, the computed commands are
// the prepared ones. Reason / class / consolidation type are those of the embedded real method.
type scriptedMethod struct {
	disruption.Method
	cmds   []disruption.Command
	called bool
}

func (s *scriptedMethod) ShouldDisrupt(context.Context, *disruption.Candidate) bool { return true }
func (s *scriptedMethod) ComputeCommands(context.Context, map[string]int, ...*disruption.Candidate) ([]disruption.Command, error) {
	s.called = true
	return s.cmds, nil
}

// viaControllerOK: a fault-free start, and the clean-up pass at the head of Controller.Reconcile is a no-op now.
func (w *world) viaControllerOK(o *jOp) bool {
	if len(o.FTaint)+len(o.FCond)+len(o.FCreate) > 0 || o.PoolFault != "" {
		return false
	}
	s := w.snapshot()
	for _, r := range s.Repls {
		if r.InSt && !r.Launched {
			return false
		}
	}
	for _, nd := range s.Nodes {
		if !nd.Gone && nd.Owner < 0 && !nd.MView && (nd.Taint || nd.Cond) {
			return false
		}
	}
	return true
}

type countingReconciler struct {
	q     *disruption.Queue
	calls int
}

func (c *countingReconciler) Reconcile(ctx context.Context, nc *v1.NodeClaim) (reconcile.Result, error) {
	c.calls++
	return c.q.Reconcile(ctx, nc)
}

func must(err error) {
	if err != nil {
		panic(err)
	}
}

// ---------------------------------------------------------------- snapshot

type nodeSnap struct {
	Taint, Cond, Del, Mark, StDel, MView bool
	Gone                                bool   // Node and NodeClaim are gone from the API and from the cluster state
	Obj                                 string // the Node object: NPresent | NDeleting | NGone
	Owner                               int  // -1 none
}

type cmdSnap struct {
	ID      int
	Cands   []int
	Latched []bool
	Deleted []bool
	Created int64
}

type replSnap struct {
	K, J                         int
	Exists, Init, Launched, InSt bool
	HasNode                      bool // not part of the model: the replacement's Node object exists
}

type snapshot struct {
	Nodes []nodeSnap
	Cmds  []cmdSnap
	Repls []replSnap
	Now   int64
	// consistency of the provider-id map with the commands it points to
	MapConsistent bool
	// a taint other than karpenter.sh/disrupted:NoSchedule disappeared from a Node
	OtherTaintLost bool
}

func (w *world) snapshot() snapshot {
	s := snapshot{Now: w.clk.Now().Sub(t0).Milliseconds(), MapConsistent: true}
	seen := map[uuid.UUID]bool{}
	var cmds []*disruption.Command
	for id := 0; id < w.n; id++ {
		node := &corev1.Node{}
		errNode := w.inner.Get(w.ctx, client.ObjectKey{Name: nodeName(id)}, node)
		nc := &v1.NodeClaim{}
		errClaim := w.inner.Get(w.ctx, client.ObjectKey{Name: nodeName(id)}, nc)
		flag, cached := w.cluster.VerifC08MarkFlag(providerID(id))
		mview, stdel, _ := w.cluster.VerifC08View(providerID(id))
		if w.gone[id] {
			// everything is read from the real API / Cluster; all of it must say "not there"
			if !apierrors.IsNotFound(errNode) || !apierrors.IsNotFound(errClaim) || cached {
				panic("a vanished node is still visible")
			}
			node = &corev1.Node{}
		} else if errClaim != nil || !cached || (errNode != nil && !apierrors.IsNotFound(errNode)) {
			panic("candidate node not in the API or not in the cluster state")
		}
		obj := "NPresent"
		switch {
		case errNode != nil:
			obj = "NGone"
		case !node.DeletionTimestamp.IsZero():
			obj = "NDeleting"
		}
		if obj != "NGone" && !otherTaintsIntact(id, node) {
			s.OtherTaintLost = true
		}
		ns := nodeSnap{Taint: hasTaint(node), Cond: hasCond(nc), Del: !nc.DeletionTimestamp.IsZero(), Mark: flag, StDel: stdel, MView: mview, Gone: w.gone[id], Obj: obj, Owner: -1}
		if cmd, ok := w.queue.ProviderIDToCommand[providerID(id)]; ok {
			ci := w.cmds[cmd.ID]
			if ci == nil {
				panic("queue holds a command the harness does not know")
			}
			ns.Owner = ci.ID
			if !seen[cmd.ID] {
				seen[cmd.ID] = true
				cmds = append(cmds, cmd)
			}
		}
		s.Nodes = append(s.Nodes, ns)
	}
	for pid := range w.queue.ProviderIDToCommand {
		var id int
		if _, err := fmt.Sscanf(pid, "fake:///node-%03d", &id); err != nil || id >= w.n {
			s.MapConsistent = false
		}
	}
	if w.queue.IsEmpty() != (len(w.queue.ProviderIDToCommand) == 0) || len(w.queue.GetCommands()) != len(cmds) {
		s.MapConsistent = false
	}
	sort.Slice(cmds, func(a, b int) bool { return w.cmds[cmds[a].ID].ID < w.cmds[cmds[b].ID].ID })
	for _, cmd := range cmds {
		ci := w.cmds[cmd.ID]
		cs := cmdSnap{ID: ci.ID, Created: cmd.CreationTimestamp.Sub(t0).Milliseconds()}
		for _, cand := range cmd.Candidates {
			id, _ := idOfName(cand.NodeClaim.Name)
			cs.Cands = append(cs.Cands, id)
			cs.Deleted = append(cs.Deleted, ci.Deleted[id])
		}
		for _, r := range cmd.Replacements {
			cs.Latched = append(cs.Latched, r.Initialized)
		}
		s.Cmds = append(s.Cmds, cs)
	}
	keys := append([][2]int{}, w.rorder...)
	sort.Slice(keys, func(a, b int) bool { return keys[a][0] < keys[b][0] || keys[a][0] == keys[b][0] && keys[a][1] < keys[b][1] })
	for _, key := range keys {
		r := w.repls[key]
		s.Repls = append(s.Repls, replSnap{K: r.K, J: r.J, Exists: r.Exists, Init: r.Init, Launched: r.Launched, InSt: w.cluster.NodeClaimExists(r.Name), HasNode: r.HasNode})
	}
	return s
}

func (s snapshot) gallina() string {
	nodes := kit.GListOf(s.Nodes, func(n nodeSnap) string {
		owner := "None"
		if n.Owner >= 0 {
			owner = fmt.Sprintf("(Some %s)", gnat(n.Owner))
		}
		return fmt.Sprintf("(mkNode %s %s %s %s %s %s %s, %s, %s)", kit.GBool(n.Taint), kit.GBool(n.Cond), kit.GBool(n.Del), kit.GBool(n.Mark), kit.GBool(n.StDel), kit.GBool(n.Gone), map[bool]string{true: "NGone", false: n.Obj}[n.Gone], kit.GBool(n.MView), owner)
	})
	cmds := kit.GListOf(s.Cmds, func(c cmdSnap) string {
		return fmt.Sprintf("mkCmd %s %s %s %s %s", gnat(c.ID), kit.GListOf(c.Cands, gnat), kit.GListOf(c.Latched, kit.GBool), kit.GListOf(c.Deleted, kit.GBool), kit.GZ(c.Created))
	})
	repls := kit.GListOf(s.Repls, func(r replSnap) string {
		return fmt.Sprintf("(%s, %s, mkRepl %s %s %s %s)", gnat(r.K), gnat(r.J), kit.GBool(r.Exists), kit.GBool(r.Init), kit.GBool(r.Launched), kit.GBool(r.InSt))
	})
	return fmt.Sprintf("(mkSnap %s %s %s %s)", nodes, cmds, repls, kit.GZ(s.Now))
}

func gnat(n int) string { return fmt.Sprintf("%d%%nat", n) }

// otherTaints: what the nodes carry besides the disruption taint: an unrelated taint, and (every third node) a
// taint with the disruption taint's key but another effect.
func otherTaints(id int) []corev1.Taint {
	var ts []corev1.Taint
	if id%2 == 1 {
		ts = append(ts, corev1.Taint{Key: "example.com/unrelated", Value: "x", Effect: corev1.TaintEffectNoSchedule})
	}
	if id%3 == 2 {
		ts = append(ts, corev1.Taint{Key: v1.DisruptedTaintKey, Effect: corev1.TaintEffectNoExecute})
	}
	return ts
}

func otherTaintsIntact(id int, node *corev1.Node) bool {
	for _, want := range otherTaints(id) {
		found := false
		for _, t := range node.Spec.Taints {
			if t.Key == want.Key && t.Effect == want.Effect && t.Value == want.Value {
				found = true
			}
		}
		if !found {
			return false
		}
	}
	return true
}

func (w *world) objState(id int) string {
	node := &corev1.Node{}
	if err := w.inner.Get(w.ctx, client.ObjectKey{Name: nodeName(id)}, node); err != nil {
		return "NGone"
	}
	if !node.DeletionTimestamp.IsZero() {
		return "NDeleting"
	}
	return "NPresent"
}

// method: commands alternate between drift and (consolidation) emptiness, so that the disruption reason and the
// consolidation type take two values
func (w *world) method(k int) disruption.Method {
	if k%2 == 0 {
		return disruption.NewDrift(w.c, w.cluster, w.prov, w.recorder, w.clk)
	}
	return disruption.NewEmptiness(disruption.MakeConsolidation(w.clk, w.cluster, w.c, w.prov, w.cp, w.recorder, w.queue))
}
