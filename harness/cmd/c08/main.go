// Command c08 drives the real orchestration queue (Queue.StartCommand / Queue.Reconcile) and the real
// disruption controller's stale taint/condition cleanup (Controller.Reconcile with no methods) through
// generated histories: commands with 0-3 replacements, replacement lifecycle events in every order
// (launch, initialize, vanish from the API, vanish from the cluster state), clock jumps around the
// command timeout, informer deliveries, process restarts, and API faults at each individual call
// (NotFound, transient and persistent errors on the read or the write of every retried closure).
// Every step's return class, ordered effect log and full post-state snapshot is written as a Gallina
// case for coq/C08/Check.v.
package main

import (
	"fmt"
	"os"
	"runtime/coverage"
	"runtime/pprof"
	"strings"
	"sync"
	"time"

	"github.com/go-logr/logr"
	"k8s.io/client-go/util/retry"
	ctrllog "sigs.k8s.io/controller-runtime/pkg/log"

	"verifharness/kit"
)

type jCase struct {
	Kind   string `json:"kind"`
	Mode   string `json:"mode"`
	N      int    `json:"nodes"`
	Ops    []jOp  `json:"ops"`
	KfKey  string `json:"kf_key,omitempty"`
	Shapes string `json:"shapes,omitempty"`
}

type result struct {
	n      int
	ops    []jOp
	gsteps []string
	counts []string
	shapePartial, shapeOrphan, otherTaintLost bool
	sig    string
}

func gFaults(fs []jFault) string {
	return kit.GListOf(fs, func(f jFault) string { return fmt.Sprintf("(%s, %s)", gnat(f.Key), f.fault.gallina()) })
}

func gGetFaults(fs []jFault) string {
	return kit.GListOf(fs, func(f jFault) string {
		if f.Kind == "nf" {
			return fmt.Sprintf("(%s, GNotFound)", gnat(f.Key))
		}
		return fmt.Sprintf("(%s, GErr)", gnat(f.Key))
	})
}

func gOp(o *jOp) string {
	switch o.Op {
	case "start":
		return fmt.Sprintf("Start %s %s %s %s %s", kit.GListOf(o.Cands, gnat), gnat(o.NRepl), gFaults(o.FTaint), gFaults(o.FCond), kit.GListOf(o.FCreate, gnat))
	case "recon":
		return fmt.Sprintf("Recon %s %s %s %s %s", gnat(o.Node), gGetFaults(o.FGet), gFaults(o.FDel), gFaults(o.FUnt), gFaults(o.FClr))
	case "cleanup":
		return fmt.Sprintf("Cleanup %s %s", gFaults(o.FUnt), gFaults(o.FClr))
	case "launch":
		return fmt.Sprintf("ReplLaunch %s %s", gnat(o.K), gnat(o.J))
	case "init":
		return fmt.Sprintf("ReplInit %s %s", gnat(o.K), gnat(o.J))
	case "delapi", "delapi-node-first":
		return fmt.Sprintf("ReplDelApi %s %s", gnat(o.K), gnat(o.J))
	case "delstate":
		return fmt.Sprintf("ReplDelState %s %s", gnat(o.K), gnat(o.J))
	case "deliver":
		return "Deliver"
	case "advance":
		return fmt.Sprintf("Advance %s", kit.GZ(o.Ms))
	case "restart":
		return "Restart"
	case "gone":
		return fmt.Sprintf("CandGone %s", gnat(o.Node))
	case "nodedel":
		return fmt.Sprintf("NodeObjDeleting %s", gnat(o.Node))
	case "nodegone":
		return fmt.Sprintf("NodeObjGone %s", gnat(o.Node))
	}
	panic("gOp")
}

// runHistory executes ops produced online by next (which sees the world) and records everything.
func runHistory(n int, maxOps int, next func(w *world, i int) *jOp) (res result) {
	w := newWorld(n)
	res.n = n
	var sig []string
	delFailed := map[int]bool{}
	for i := 0; i < maxOps; i++ {
		o := next(w, i)
		if o == nil {
			break
		}
		before := w.snapshot()
		es := w.exec(o)
		after := w.snapshot()
		if !after.MapConsistent {
			panic("queue map holds an unknown provider id, or IsEmpty / GetCommands disagree with it")
		}
		if after.OtherTaintLost {
			res.otherTaintLost = true
		}
		if o.Op == "recon" && o.Ret == "RDropped" {
			// the finding's exact shape: the request is dropped although the command still holds a live candidate,
			// and the command's first candidate is completely gone
			for _, c := range before.Cmds {
				if contains(c.Cands, o.Node) && before.Nodes[c.Cands[0]].Gone {
					for _, m := range c.Cands {
						if !before.Nodes[m].Gone {
							res.shapeOrphan = true
						}
					}
				}
			}
		}
		res.ops = append(res.ops, *o)
		res.gsteps = append(res.gsteps, fmt.Sprintf("(%s, mkObs %s %s %s)", gOp(o), o.Ret, kit.GListOf(es, func(e effect) string { return e.gallina() }), after.gallina()))
		sig = append(sig, o.Op+":"+o.Ret)
		// ---- branch bookkeeping and finding shapes
		res.counts = append(res.counts, classify(o, es, before, after)...)
		// the known finding's exact shape: a command is given up although one of its candidates was deleted,
		// and a Delete call of that command had failed on all its attempts (in this pass or an earlier one)
		if o.Op == "recon" {
			for _, c := range before.Cmds {
				if contains(c.Cands, o.Node) {
					for _, f := range o.FDel {
						if f.Kind == "fail" && f.N >= 4 && contains(c.Cands, f.Key) {
							delFailed[c.ID] = true
						}
					}
					deleted := false
					for _, d := range c.Deleted {
						deleted = deleted || d
					}
					for _, e := range es {
						deleted = deleted || e.Kind == "delete"
					}
					if o.Ret == "RFailed" && deleted && delFailed[c.ID] {
						res.shapePartial = true
					}
				}
			}
		}
	}
	for k, v := range w.fired {
		for i := 0; i < v; i++ {
			res.counts = append(res.counts, "fault-fired:"+k)
		}
	}
	res.sig = strings.Join(sig, ",")
	return res
}

func contains(xs []int, x int) bool {
	for _, y := range xs {
		if y == x {
			return true
		}
	}
	return false
}

// classify names the branch of the modelled code the implementation took in this step.
func classify(o *jOp, es []effect, before, after snapshot) []string {
	var out []string
	switch o.Op {
	case "start":
		b := "start:" + o.Ret
		out = append(out, map[bool]string{true: "start:method=drift", false: "start:method=emptiness(consolidation)"}[o.K%2 == 0])
		if o.PoolFault != "" {
			out = append(out, "start:every-create-fails:nodepool-"+o.PoolFault)
		}
		if o.Via != "" {
			out = append(out, "start:via-"+o.Via+":"+o.Ret)
		}
		if o.Ret == "Started" {
			for _, c := range after.Cmds {
				if len(before.Cmds) == 0 || c.ID > before.Cmds[len(before.Cmds)-1].ID {
					if len(c.Cands) < len(o.Cands) {
						b += ":subset-of-candidates"
					}
				}
			}
			b += fmt.Sprintf(":repl=%d", o.NRepl)
		}
		if o.Ret == "ErrCreate" {
			created := 0
			for _, e := range es {
				if e.Kind == "create" {
					created++
				}
			}
			if created > 0 {
				b += ":partially-created"
			}
		}
		if o.Ret == "ErrMark" {
			left := false
			for _, e := range es {
				left = left || e.Kind == "taint"
			}
			if left {
				b += ":taint-left-behind"
			}
		}
		out = append(out, b)
	case "recon":
		b := "recon:" + o.Ret
		var cmd *cmdSnap
		for i := range before.Cmds {
			if contains(before.Cmds[i].Cands, o.Node) {
				cmd = &before.Cmds[i]
			}
		}
		if cmd != nil {
			timed := before.Now-cmd.Created > 600000
			deletes := 0
			for _, e := range es {
				if e.Kind == "delete" {
					deletes++
				}
			}
			switch o.Ret {
			case "RFailed":
				switch {
				case !timed && anyTrue(cmd.Deleted):
					b += ":replacement-vanished-after-partial-delete"
				case !timed:
					b += ":replacement-vanished"
				case deletes > 0 || anyTrue(cmd.Deleted):
					b += ":timeout-after-partial-delete"
				default:
					b += ":timeout"
				}
			case "RRequeue":
				if deletes > 0 || allTrue(latchedAfter(after, cmd.ID)) {
					b += ":delete-error"
				} else {
					b += ":waiting"
				}
			case "RSucceeded":
				b += fmt.Sprintf(":repl=%d", len(cmd.Latched))
				if timed {
					b += ":after-timeout"
				}
			}
			goneBefore, survivorAfterGone := false, false
			for _, m := range cmd.Cands {
				if before.Nodes[m].Gone {
					goneBefore = true
				} else if goneBefore {
					survivorAfterGone = true
				}
			}
			if goneBefore && (o.Ret == "RFailed" || o.Ret == "RSucceeded") {
				if survivorAfterGone {
					out = append(out, "recon:"+o.Ret+":a-candidate-vanished-before-a-survivor")
				} else {
					out = append(out, "recon:"+o.Ret+":only-trailing-candidates-vanished")
				}
			}
			if before.Now-cmd.Created == 600000 {
				out = append(out, "recon:at-timeout-boundary")
			}
			for _, r := range before.Repls {
				if r.K == cmd.ID && r.J < len(cmd.Latched) && cmd.Latched[r.J] {
					if r.InSt {
						out = append(out, "recon:wait:latched-and-tracked")
					} else {
						out = append(out, "recon:wait:latched-but-gone-from-state")
					}
				}
			}
			for _, r := range before.Repls {
				if r.K == cmd.ID && r.J < len(cmd.Latched) && !cmd.Latched[r.J] {
					switch {
					case !r.Exists && r.InSt:
						out = append(out, "recon:wait:notfound-but-in-state")
					case !r.Exists && !r.InSt:
						out = append(out, "recon:wait:notfound-and-gone")
					case r.Init:
						out = append(out, "recon:wait:initialized")
					default:
						out = append(out, "recon:wait:not-initialized")
					}
				}
			}
		}
		out = append(out, b)
	case "cleanup":
		b := "cleanup:" + o.Ret
		if o.Ret == "COk" {
			if len(es) > 0 {
				b += ":removed-stale"
			} else {
				b += ":nothing-stale"
			}
		}
		out = append(out, b)
	default:
		out = append(out, "env:"+o.Op)
		if o.Op == "delstate" {
			for _, r := range before.Repls {
				if r.K == o.K && r.J == o.J && !r.Exists && r.InSt {
					if r.HasNode {
						out = append(out, "env:replacement-claim-deletion-delivered:node-lingers")
					} else {
						out = append(out, "env:replacement-claim-deletion-delivered:no-node")
					}
				}
			}
		}
	}
	if o.Op == "recon" || o.Op == "cleanup" {
		for id, nd := range before.Nodes {
			if nd.Gone || id >= len(after.Nodes) {
				continue
			}
			owned := nd.Owner >= 0
			if o.Op == "cleanup" && o.Ret == "COk" && !owned && !nd.MView {
				if nd.Obj == "NDeleting" && nd.Taint && after.Nodes[id].Taint {
					out = append(out, "cleanup:taint-of-deleting-node-left-alone")
				}
				if nd.Obj == "NGone" && nd.Cond && after.Nodes[id].Cond {
					out = append(out, "cleanup:statenode-without-node-skipped")
				}
			}
			if o.Op == "recon" && o.Ret == "RFailed" && owned && nd.Obj != "NPresent" {
				out = append(out, "rollback:candidate-node-object-"+nd.Obj)
			}
		}
	}
	return out
}

func latchedAfter(s snapshot, id int) []bool {
	for _, c := range s.Cmds {
		if c.ID == id {
			return c.Latched
		}
	}
	return nil
}

func allTrue(bs []bool) bool {
	if bs == nil {
		return false
	}
	for _, b := range bs {
		if !b {
			return false
		}
	}
	return true
}

func emit(c *kit.Ctx, kind string, r result) {
	steps := kit.GList(r.gsteps)
	for _, k := range r.counts {
		c.Count(k)
	}
	var shapes []string
	if r.shapePartial {
		shapes = append(shapes, "partial-delete-then-failure")
	}
	if r.shapeOrphan {
		shapes = append(shapes, "first-candidate-vanished")
	}
	if r.otherTaintLost {
		c.Fail(c.NextID(), "a taint other than karpenter.sh/disrupted:NoSchedule was removed from a Node", "", jCase{Kind: kind, Mode: "MAll", N: r.n, Ops: r.ops})
	}
	add := func(mode, key string) {
		c.AddCase(fmt.Sprintf("Case %s %s %s", mode, gnat(r.n), steps), jCase{Kind: kind, Mode: mode, N: r.n, Ops: r.ops, KfKey: key, Shapes: strings.Join(shapes, "+")}, r.sig)
	}
	if len(shapes) == 0 {
		add("MAll", "")
		return
	}
	// A history that exhibits the known finding is split: every other obligation is checked without a
	// key; the finding's own clause is checked in a case of its own that carries the key.
	c.Count("shape:" + strings.Join(shapes, "+"))
	add("MCore", "")
	if r.shapePartial {
		add("MPartial", "partial-delete-then-failure")
	}
	if r.shapeOrphan {
		add("MOrphan", "first-candidate-vanished")
	}
}

func main() {
	c := kit.Parse("C08", os.Args[1:])
	if pf := os.Getenv("C08_PROF"); pf != "" {
		f, _ := os.Create(pf)
		_ = pprof.StartCPUProfile(f)
		defer pprof.StopCPUProfile()
	}
	ctrllog.SetLogger(logr.Discard())
	// Only the sleeps between the attempts of client-go's retry.OnError are shortened; the number of
	// attempts (Steps) is untouched.
	retry.DefaultBackoff.Duration = 50 * time.Microsecond
	c.Meta.Rule = "scripted protocol walks (every fault kind at every call site of StartCommand / Reconcile / controller cleanup, every order of up to 3 replacement events, timeout boundary) + state-aware random histories over 1-3 (thorough 1-4) nodes"
	c.Meta.Corr = []string{
		"disruption.Queue.StartCommand (HasAny, markDisrupted, createReplacementNodeClaims, MarkForDeletion, enqueue) = C08.Model.start",
		"disruption.Queue.Reconcile / waitOrTerminate / CompleteCommand (latches, vanished replacement, timeout wrapper, delete with retries, rollback) = C08.Model.recon",
		"disruption.Controller.Reconcile stale taint/condition cleanup (Synced gate, outdated nodes) = C08.Model.cleanup",
		"state.RequireNoScheduleTaint / state.ClearNodeClaimsCondition under retry.OnError with NotFound / transient / persistent faults = C08.Model.call_result",
		"state.Cluster MarkForDeletion / UnmarkForDeletion / MarkedForDeletion / NodeClaimExists / Synced / DeleteNode / DeleteNodeClaim as seen by the queue = C08.Model (n_mark, n_stdel, r_st, synced, n_gone, n_obj)",
		"reconcile.AsReconciler(client, Queue) keyed by cmd.Candidates[0].NodeClaim (the only key StartCommand enqueues) = C08.Model.recon (RDropped)",
		"disruption.Controller.Reconcile -> disrupt() -> Queue.StartCommand with a scripted method (fault-free starts while the clean-up has nothing to do) = C08.Model.start",
	}
	jobs := scripted(c)
	jobs = append(jobs, randomJobs(c)...)
	results := make([]result, len(jobs))
	var wg sync.WaitGroup
	sem := make(chan struct{}, parallelism())
	for i := range jobs {
		wg.Add(1)
		sem <- struct{}{}
		go func(i int) {
			defer wg.Done()
			defer func() { <-sem }()
			results[i] = runHistory(jobs[i].n, jobs[i].maxOps, jobs[i].next)
		}(i)
	}
	wg.Wait()
	for i, r := range results {
		emit(c, jobs[i].kind, r)
	}
	c.Meta.Extra = map[string]interface{}{
		"assumptions": []string{
			"candidates of a command are initialized, Karpenter-managed nodes with a Node object when the command starts (guaranteed by GetCandidates, C07); afterwards the Node object may be deleting or gone and the whole node may vanish",
			"only dynamic NodePools: the static-pool bookkeeping of markDisrupted / CreateNodeClaims (NodePoolState) belongs to C03",
			"commands have a non-empty, duplicate-free candidate list (NoOp commands are filtered by the controller)",
			"concurrency between the singleton controller and the queue workers is represented at method granularity (each StartCommand / Reconcile / cleanup is one atomic step)",
		},
	}
	c.Finish("From KV Require Import C08.Model C08.Check.", "case", "check_all", 500)
	if dir := os.Getenv("C08_COVDIR"); dir != "" { // coverage audit builds only (go build -cover)
		if err := coverage.WriteMetaDir(dir); err != nil {
			fmt.Fprintln(os.Stderr, "coverage meta:", err)
		}
		if err := coverage.WriteCountersDir(dir); err != nil {
			fmt.Fprintln(os.Stderr, "coverage counters:", err)
		}
	}
}

func parallelism() int {
	if os.Getenv("C08_SERIAL") != "" {
		return 1
	}
	return 24
}

func anyTrue(bs []bool) bool {
	for _, b := range bs {
		if b {
			return true
		}
	}
	return false
}
