package main

import (
	"fmt"
	"time"

	corev1 "k8s.io/api/core/v1"
	"k8s.io/apimachinery/pkg/api/resource"
	metav1 "k8s.io/apimachinery/pkg/apis/meta/v1"
	"k8s.io/client-go/tools/record"
	clock "k8s.io/utils/clock/testing"
	"sigs.k8s.io/controller-runtime/pkg/client/interceptor"

	v1 "sigs.k8s.io/karpenter/pkg/apis/v1"
	"sigs.k8s.io/karpenter/pkg/cloudprovider"
	"sigs.k8s.io/karpenter/pkg/cloudprovider/fake"
	"sigs.k8s.io/karpenter/pkg/controllers/dynamicresources/deviceallocation"
	"sigs.k8s.io/karpenter/pkg/controllers/provisioning"
	"sigs.k8s.io/karpenter/pkg/controllers/state"
	"sigs.k8s.io/karpenter/pkg/events"
	"sigs.k8s.io/karpenter/pkg/state/virtualpods"
	"sigs.k8s.io/karpenter/pkg/test"

	"verifharness/kit"
)

// probe replays the history of F11 (fixed by 1e4ed4d16; now 2 NodeClaims are created) end to end (`vh-c03 probe`): a dynamic NodePool with limits.nodes = 2,
// four mutually anti-affine pods in one batch, real Provisioner.Schedule + CreateNodeClaims.
func probe() {
	ctx := kit.Context()
	clk := clock.NewFakeClock(time.Unix(1_700_000_000, 0))
	c := kit.NewClient(interceptor.Funcs{})
	cp := fake.NewCloudProvider()
	cp.InstanceTypes = []*cloudprovider.InstanceType{
		fake.NewInstanceType("small", fake.WithResources(corev1.ResourceList{corev1.ResourceCPU: resource.MustParse("2"), corev1.ResourceMemory: resource.MustParse("4Gi"), corev1.ResourcePods: resource.MustParse("10")})),
	}
	cluster := state.NewCluster(clk, c, cp)
	prov := provisioning.NewProvisioner(c, events.NewRecorder(&record.FakeRecorder{}), cp, cluster, clk, deviceallocation.NewController(c), virtualpods.NewVirtualPodCache(c))
	np := test.NodePool(v1.NodePool{ObjectMeta: metav1.ObjectMeta{Name: "pool"}, Spec: v1.NodePoolSpec{Limits: v1.Limits(corev1.ResourceList{"nodes": resource.MustParse("2")})}})
	kit.Apply(ctx, c, np)
	for i := 0; i < 4; i++ {
		p := test.UnschedulablePod(test.PodOptions{
			ObjectMeta:           metav1.ObjectMeta{Name: fmt.Sprintf("p%d", i), Labels: map[string]string{"app": "foo"}},
			PodAntiRequirements:  []corev1.PodAffinityTerm{{TopologyKey: corev1.LabelHostname, LabelSelector: &metav1.LabelSelector{MatchLabels: map[string]string{"app": "foo"}}}},
			ResourceRequirements: corev1.ResourceRequirements{Requests: corev1.ResourceList{corev1.ResourceCPU: resource.MustParse("1")}},
		})
		kit.Apply(ctx, c, p)
	}
	res, err := prov.Schedule(ctx)
	fmt.Println("schedule err", err, "new claims", len(res.NewNodeClaims), "pod errors", len(res.PodErrors))
	names, err := prov.CreateNodeClaims(ctx, res.NewNodeClaims)
	fmt.Println("created", names, err)
	l := &v1.NodeClaimList{}
	_ = c.List(ctx, l)
	fmt.Println("nodeclaims in API:", len(l.Items), "limit nodes: 2")
}
