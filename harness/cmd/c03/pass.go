package main

import (
	"context"
	"errors"
	"fmt"
	"sort"
	"time"

	"github.com/samber/lo"
	corev1 "k8s.io/api/core/v1"
	"k8s.io/apimachinery/pkg/api/resource"
	metav1 "k8s.io/apimachinery/pkg/apis/meta/v1"
	"k8s.io/apimachinery/pkg/types"
	"k8s.io/apimachinery/pkg/util/sets"
	"k8s.io/client-go/tools/record"
	clock "k8s.io/utils/clock/testing"
	"sigs.k8s.io/controller-runtime/pkg/client"
	"sigs.k8s.io/controller-runtime/pkg/client/interceptor"

	v1 "sigs.k8s.io/karpenter/pkg/apis/v1"
	"sigs.k8s.io/karpenter/pkg/cloudprovider"
	"sigs.k8s.io/karpenter/pkg/cloudprovider/fake"
	"sigs.k8s.io/karpenter/pkg/controllers/dynamicresources/deviceallocation"
	"sigs.k8s.io/karpenter/pkg/controllers/provisioning"
	pscheduling "sigs.k8s.io/karpenter/pkg/controllers/provisioning/scheduling"
	"sigs.k8s.io/karpenter/pkg/controllers/state"
	"sigs.k8s.io/karpenter/pkg/events"
	"sigs.k8s.io/karpenter/pkg/scheduling"
	"sigs.k8s.io/karpenter/pkg/state/virtualpods"
	"sigs.k8s.io/karpenter/pkg/test"

	"verifharness/kit"
)

// ------------------------------------------------------------------ part P: one real scheduling pass

const kfOverride = "offering-capacity-override-above-base-capacity"

// lifecycle states of an existing node (C03.Model.nstate)
const (
	nsInFlight = iota
	nsReady
	nsDisruptedTaint
	nsCordoned
	nsNotReady
	nsUninitialized
	nsMarkedForDeletion
	nsDeleting
)

// mop is one step of a mark / unmark / removal history (kind 0 Mark, 1 Unmark, 2 Remove)
type mop struct {
	kind int
	ids  []int
}

var nstateNames = []string{"NInFlight", "NReady", "NDisruptedTaint", "NCordoned", "NNotReady", "NUninitialized", "NMarkedForDeletion", "NDeleting"}

type pcase struct {
	Kind      string                   `json:"kind"`
	KfKey     string                   `json:"kf_key,omitempty"`
	Limits    map[string]int64         `json:"limits"`
	Catalog   []pIT                    `json:"catalog"`
	Existing  []map[string]interface{} `json:"existing_nodes"`
	Deleting  int                      `json:"existing_being_deleted"`
	History   []string                 `json:"mark_history,omitempty"`
	Pods      []string                 `json:"pods"`
	Anti      bool                     `json:"pods_anti_affine"`
	Claims    [][]string               `json:"new_nodeclaim_options"`
	Launched  []string                 `json:"launched"`
	Remaining map[string]int64         `json:"remaining_after_solve"`
	Exceeded  []string                 `json:"exceeded,omitempty"`
}

type pIT struct {
	Name      string             `json:"name"`
	Capacity  map[string]int64   `json:"capacity"`
	Overrides []map[string]int64 `json:"offering_capacity_overrides,omitempty"`
}

func cpuMem(cpu int64, memGi int64, pods int64) corev1.ResourceList {
	return corev1.ResourceList{corev1.ResourceCPU: *resource.NewQuantity(cpu, resource.DecimalSI),
		corev1.ResourceMemory: *resource.NewQuantity(memGi<<30, resource.BinarySI), corev1.ResourcePods: *resource.NewQuantity(pods, resource.DecimalSI)}
}

func offering(zone, ct string, price float64, override corev1.ResourceList) *cloudprovider.Offering {
	return &cloudprovider.Offering{Available: true, Price: price, CapacityOverride: override,
		Requirements: scheduling.NewLabelRequirements(map[string]string{v1.CapacityTypeLabelKey: ct, corev1.LabelTopologyZone: zone})}
}

// gIT renders an instance type restricted to the offerings a NodeClaim with these requirements may launch.
func gIT(it *cloudprovider.InstanceType, reqs scheduling.Requirements) string {
	seen := map[string]bool{}
	var ovs []string
	for _, o := range it.Offerings.Available().Compatible(reqs) {
		g := gRL(o.CapacityOverride)
		if !seen[g] {
			seen[g] = true
			ovs = append(ovs, g)
		}
	}
	return fmt.Sprintf("(mkIT %s %s)", gRL(it.Capacity), kit.GList(ovs))
}

func runP(c *kit.Ctx, r *kit.Rand, mode int) {
	ctx := kit.Context()
	clk := clock.NewFakeClock(time.Unix(1_700_000_000, 0))
	cl := kit.NewClient(interceptor.Funcs{})
	cp := fake.NewCloudProvider()

	// catalog: 2-4 sizes; mode 2 adds an offering whose CapacityOverride raises cpu above the base
	// mode 3 = corpus: the history of F11 (fixed by 1e4ed4d16): one 2-cpu type, limits.nodes = 2, no nodes,
	// four mutually anti-affine pods in one batch
	corpus := mode == 3
	sizes := []int64{1, 2, 4, 8, 16}
	nIT := r.Range(2, 4)
	start := r.Intn(len(sizes) - nIT + 1)
	if corpus {
		nIT, start = 1, 1
	}
	if mode == 4 || mode == 5 {
		nIT, start = 2, 1 // 2 and 4 cpu
	}
	var catalog []*cloudprovider.InstanceType
	var jcat []pIT
	for i := 0; i < nIT; i++ {
		cpu := sizes[start+i]
		res := cpuMem(cpu, cpu*int64(r.Range(1, 4)), 20)
		ofs := cloudprovider.Offerings{offering("test-zone-1", "on-demand", float64(cpu), nil), offering("test-zone-2", "spot", float64(cpu)/2, nil)}
		j := pIT{Name: fmt.Sprintf("c%d", cpu), Capacity: milli(res)}
		if mode == 2 && (i == 0 || r.Chance(1, 3)) {
			ov := corev1.ResourceList{corev1.ResourceCPU: *resource.NewQuantity(cpu*int64(r.Range(2, 4)), resource.DecimalSI)}
			ofs = append(ofs, offering("test-zone-3", "on-demand", float64(cpu)/4, ov))
			j.Overrides = append(j.Overrides, milli(ov))
		}
		it := fake.NewInstanceType(j.Name, fake.WithResources(res), fake.WithOfferings(lo.Map(ofs, func(o *cloudprovider.Offering, _ int) cloudprovider.Offering { return *o })...))
		catalog = append(catalog, it)
		jcat = append(jcat, j)
	}
	cp.InstanceTypes = catalog

	// limits: boundary-seeking around multiples of the catalog sizes
	limits := corev1.ResourceList{}
	maxCPU := sizes[start+nIT-1]
	if mode != 1 || r.Chance(1, 2) {
		if r.Chance(3, 4) {
			limits[corev1.ResourceCPU] = *resource.NewQuantity(int64(r.Range(1, 5))*maxCPU/int64(r.Range(1, 2))+int64(r.Intn(3))-1, resource.DecimalSI)
		}
		if r.Chance(1, 3) {
			limits[corev1.ResourceMemory] = *resource.NewQuantity(int64(r.Range(2, 40))<<30, resource.BinarySI)
		}
	}
	if mode == 1 || (mode == 0 && r.Chance(1, 4)) {
		limits["nodes"] = *resource.NewQuantity(int64(r.Range(0, 4)), resource.DecimalSI)
	}
	if corpus {
		limits = corev1.ResourceList{"nodes": *resource.NewQuantity(2, resource.DecimalSI)}
	}
	if mode == 4 {
		limits = corev1.ResourceList{corev1.ResourceCPU: *resource.NewQuantity(6, resource.DecimalSI)}
	}
	if mode == 5 {
		limits = corev1.ResourceList{corev1.ResourceCPU: *resource.NewQuantity(8, resource.DecimalSI)}
	}
	if mode <= 2 && r.Chance(1, 5) {
		limits[corev1.ResourcePods] = *resource.NewQuantity(int64(r.Range(1, 4))*20, resource.DecimalSI)
	}
	np := test.NodePool(v1.NodePool{ObjectMeta: metav1.ObjectMeta{Name: "pool"}, Spec: v1.NodePoolSpec{Limits: v1.Limits(limits)}})
	kit.Apply(ctx, cl, np)
	// neighbours the pass must keep apart: a second dynamic pool with its own limits, a static pool and a pool that is
	// not ready (both invisible to the scheduler), nodes that belong to no pool
	type epool struct {
		name   string
		limits corev1.ResourceList
	}
	emitPools := []epool{{"pool", limits}}
	if mode <= 2 && r.Chance(1, 2) {
		ol := corev1.ResourceList{}
		if r.Chance(2, 3) {
			ol[corev1.ResourceCPU] = *resource.NewQuantity(int64(r.Range(1, 12)), resource.DecimalSI)
		}
		if r.Chance(1, 3) {
			ol["nodes"] = *resource.NewQuantity(int64(r.Range(0, 3)), resource.DecimalSI)
		}
		kit.Apply(ctx, cl, test.NodePool(v1.NodePool{ObjectMeta: metav1.ObjectMeta{Name: "other"}, Spec: v1.NodePoolSpec{Limits: v1.Limits(ol)}}))
		emitPools = append(emitPools, epool{"other", ol})
		c.Count("P:pools:second-dynamic-pool")
	}
	if mode <= 2 && r.Chance(1, 3) {
		kit.Apply(ctx, cl, test.StaticNodePool(v1.NodePool{ObjectMeta: metav1.ObjectMeta{Name: "stat"}, Spec: v1.NodePoolSpec{Replicas: lo.ToPtr(int64(2))}}))
		nr := test.NodePool(v1.NodePool{ObjectMeta: metav1.ObjectMeta{Name: "nr"}})
		nr.StatusConditions().SetFalse(v1.ConditionTypeNodeClassReady, "NotReady", "not ready")
		kit.Apply(ctx, cl, nr)
		c.Count("P:pools:static-and-not-ready-neighbours")
	}

	cluster := state.NewCluster(clk, cl, cp)
	prov := provisioning.NewProvisioner(cl, events.NewRecorder(&record.FakeRecorder{}), cp, cluster, clk, deviceallocation.NewController(cl), virtualpods.NewVirtualPodCache(cl))

	// existing nodes of the pool in every lifecycle state a provisioning pass can meet. All of them are real API
	// objects delivered to the real cluster state the way the informers / disruption queue would.
	nExisting := r.Intn(5)
	if corpus {
		nExisting = 0
	}
	if mode == 5 { // corpus: seeded change C03-2 — limits cpu=8, two ready 4-cpu nodes, command on both, first one vanishes, rollback
		nExisting = 2
	}
	if mode == 4 { // corpus: seeded change C03-1 — limits cpu=6, one 4-cpu node with the disrupted taint
		nExisting = 1
	}
	var jhist []string
	marked := map[string]bool{}
	stateOf := map[string]int{} // lifecycle state apart from the marking
	var hist []mop
	for i := 0; i < nExisting; i++ {
		it := kit.Pick(r, catalog)
		st := r.Intn(len(nstateNames))
		if r.Chance(1, 3) {
			st = nsDisruptedTaint
		}
		if mode == 4 {
			it, st = catalog[len(catalog)-1], nsDisruptedTaint
		}
		if mode == 5 {
			it, st = catalog[len(catalog)-1], nsReady
		}
		name := fmt.Sprintf("existing-%d", i)
		owner := "pool"
		if len(emitPools) > 1 && r.Chance(1, 3) {
			owner = "other"
		}
		labels := map[string]string{v1.NodePoolLabelKey: owner, corev1.LabelInstanceTypeStable: it.Name, corev1.LabelTopologyZone: "test-zone-1",
			v1.CapacityTypeLabelKey: "on-demand"}
		if st != nsInFlight {
			labels[v1.NodeRegisteredLabelKey] = "true"
			if st != nsUninitialized {
				labels[v1.NodeInitializedLabelKey] = "true"
			}
		}
		nc, node := test.NodeClaimAndNode(v1.NodeClaim{
			ObjectMeta: metav1.ObjectMeta{Name: name, Labels: labels, Finalizers: []string{v1.TerminationFinalizer}},
			Status:     v1.NodeClaimStatus{ProviderID: "fake://" + name, Capacity: it.Capacity, Allocatable: it.Allocatable()},
		})
		node.Name = name
		node.Spec.Taints = nil
		node.Finalizers = nil
		switch st {
		case nsUninitialized:
			if r.Bool() { // the kubelet has not reported this resource yet: the NodeClaim's value counts
				node.Status.Capacity = lo.Assign(node.Status.Capacity, corev1.ResourceList{corev1.ResourceMemory: resource.MustParse("0")})
				c.Count("P:existing:uninitialized-node-reports-zero-memory")
			}
		case nsCordoned:
			node.Spec.Unschedulable = true
		case nsNotReady:
			node.Status.Conditions = []corev1.NodeCondition{{Type: corev1.NodeReady, Status: corev1.ConditionFalse, Reason: "KubeletNotReady"}}
		}
		nc.Namespace, node.Namespace = "", ""
		kit.Apply(ctx, cl, nc)
		withNode := st != nsInFlight && !(st == nsDeleting && i%2 == 0)
		if withNode {
			kit.Apply(ctx, cl, node)
		}
		if st == nsDeleting {
			if err := cl.Delete(ctx, nc); err != nil {
				panic(err)
			}
			if err := cl.Get(ctx, client.ObjectKeyFromObject(nc), nc); err != nil {
				panic(err)
			}
		}
		cluster.UpdateNodeClaim(nc)
		if withNode {
			if err := cluster.UpdateNode(ctx, node); err != nil {
				panic(err)
			}
		}
		switch st {
		case nsDisruptedTaint:
			// exactly what disruption.Queue.markDisrupted does, followed by the informer delivery
			for _, sn := range cluster.DeepCopyNodes() {
				if sn.Node != nil && sn.Node.Name == name {
					if err := state.RequireNoScheduleTaint(ctx, cl, true, sn); err != nil {
						panic(err)
					}
				}
			}
			tainted := &corev1.Node{}
			if err := cl.Get(ctx, client.ObjectKey{Name: name}, tainted); err != nil {
				panic(err)
			}
			if !lo.ContainsBy(tainted.Spec.Taints, func(t corev1.Taint) bool { return t.MatchTaint(&v1.DisruptedNoScheduleTaint) }) {
				panic("harness: disrupted taint was not applied")
			}
			if err := cluster.UpdateNode(ctx, tainted); err != nil {
				panic(err)
			}
		case nsMarkedForDeletion:
			cluster.MarkForDeletion(nc.Status.ProviderID)
			marked[name] = true
			hist = append(hist, mop{0, []int{i + 1}})
			st = nsReady // its state once a rollback unmarks it (the objects are those of a plain ready node)
		}
		stateOf[name] = st
		c.Count("P:existing:" + nstateNames[st][1:])
	}

	// a mark / unmark / removal history on the real Cluster before the pass: disruption commands that start
	// (MarkForDeletion), candidates that vanish out of band, commands that are rolled back (UnmarkForDeletion with
	// ids that are no longer tracked, or never were, in any position)
	const ghost = 99
	idName := func(id int) string { return fmt.Sprintf("existing-%d", id-1) }
	pid := func(id int) string {
		if id == ghost {
			return "fake://ghost"
		}
		return "fake://" + idName(id)
	}
	tracked := map[int]bool{}
	var tracked0, cands []int
	for i := 0; i < nExisting; i++ {
		tracked0 = append(tracked0, i+1)
		tracked[i+1] = true
		if stateOf[idName(i+1)] != nsDeleting {
			cands = append(cands, i+1)
		}
	}
	doOp := func(o mop) {
		hist = append(hist, o)
		switch o.kind {
		case 0:
			cluster.MarkForDeletion(lo.Map(o.ids, func(id int, _ int) string { return pid(id) })...)
			for _, id := range o.ids {
				if tracked[id] {
					marked[idName(id)] = true
				}
			}
			c.Count("P:history:mark")
		case 1:
			cluster.UnmarkForDeletion(lo.Map(o.ids, func(id int, _ int) string { return pid(id) })...)
			untrackedBeforeTracked := false
			seenUntracked := false
			for _, id := range o.ids {
				if !tracked[id] {
					seenUntracked = true
				} else if seenUntracked && marked[idName(id)] {
					untrackedBeforeTracked = true
				}
				delete(marked, idName(id))
			}
			if untrackedBeforeTracked {
				c.Count("P:history:unmark:untracked-id-before-a-marked-one")
			} else {
				c.Count("P:history:unmark")
			}
		case 2:
			name := idName(o.ids[0])
			nc := &v1.NodeClaim{}
			if err := cl.Get(ctx, client.ObjectKey{Name: name}, nc); err != nil {
				panic(err)
			}
			nc.Finalizers = nil
			if err := cl.Update(ctx, nc); err != nil {
				panic(err)
			}
			if err := cl.Delete(ctx, nc); err != nil {
				panic(err)
			}
			node := &corev1.Node{}
			hasNode := cl.Get(ctx, client.ObjectKey{Name: name}, node) == nil
			if hasNode {
				if err := cl.Delete(ctx, node); err != nil {
					panic(err)
				}
			}
			if r.Bool() {
				cluster.DeleteNodeClaim(name)
				cluster.DeleteNode(name)
			} else {
				cluster.DeleteNode(name)
				cluster.DeleteNodeClaim(name)
			}
			delete(tracked, o.ids[0])
			delete(marked, name)
			c.Count("P:history:remove")
		}
	}
	shuffled := func(xs []int) []int {
		out := append([]int(nil), xs...)
		for i := len(out) - 1; i > 0; i-- {
			j := r.Intn(i + 1)
			out[i], out[j] = out[j], out[i]
		}
		return out
	}
	withGhost := func(xs []int) []int {
		if !r.Chance(1, 3) {
			return xs
		}
		k := r.Intn(len(xs) + 1)
		return append(append(append([]int(nil), xs[:k]...), ghost), xs[k:]...)
	}
	switch {
	case mode == 5:
		doOp(mop{0, []int{1, 2}})
		doOp(mop{2, []int{1}})
		doOp(mop{1, []int{1, 2}})
	case mode <= 2 && len(cands) >= 1 && r.Chance(2, 3):
		// a command over a random candidate list, some candidates vanish, usually rolled back
		cmd := shuffled(cands)[:r.Range(1, len(cands))]
		doOp(mop{0, withGhost(cmd)})
		for _, id := range cmd {
			if stateOf[idName(id)] != nsDeleting && r.Chance(1, 3) {
				doOp(mop{2, []int{id}})
			}
		}
		if r.Chance(3, 4) {
			un := cmd
			if r.Chance(1, 3) {
				un = shuffled(cmd)
			}
			doOp(mop{1, withGhost(un)})
		}
		if r.Chance(1, 4) && len(cands) > 0 { // a second command / stray unmark
			doOp(mop{r.Intn(2), withGhost(shuffled(cands)[:r.Range(1, len(cands))])})
		}
	}
	// what the real Cluster says about every node it still tracks, and what this harness assumes
	if len(hist) > 0 {
		var obs, exp []string
		byPID := map[string]*state.StateNode{}
		for _, sn := range cluster.DeepCopyNodes() {
			byPID[sn.ProviderID()] = sn
		}
		for _, id := range tracked0 {
			sn, ok := byPID[pid(id)]
			if ok != tracked[id] {
				panic(fmt.Sprintf("harness: cluster state tracks %s = %v, expected %v", pid(id), ok, tracked[id]))
			}
			if !ok {
				continue
			}
			isMarked := sn.MarkedForDeletion()
			if stateOf[idName(id)] == nsDeleting { // MarkedForDeletion() is also true for a deleting claim; not part of the history
				isMarked = marked[idName(id)]
			}
			obs = append(obs, kit.GPair(gname(id), kit.GBool(isMarked)))
			exp = append(exp, kit.GPair(gname(id), kit.GBool(marked[idName(id)])))
		}
		ghist := kit.GListOf(hist, func(o mop) string {
			ids := kit.GListOf(o.ids, gname)
			switch o.kind {
			case 0:
				return "(MMark " + ids + ")"
			case 1:
				return "(MUnmark " + ids + ")"
			}
			return "(MRemove " + gname(o.ids[0]) + ")"
		})
		jh := lo.Map(hist, func(o mop, _ int) string {
			return fmt.Sprintf("%s%v", []string{"Mark", "Unmark", "Remove"}[o.kind], o.ids)
		})
		c.AddCase(fmt.Sprintf("CaseMk %s %s %s %s", kit.GListOf(tracked0, gname), ghist, kit.GList(obs), kit.GList(exp)),
			map[string]interface{}{"kind": "mark-history", "tracked": tracked0, "history": jh, "observed": obs}, "Mk:"+fmt.Sprint(tracked0, jh))
		jhist = jh
	}

	// pod batch
	nPods := r.Range(1, 5)
	anti := mode == 1 || corpus || r.Chance(1, 2)
	if corpus {
		nPods = 4
	}
	if mode == 4 {
		nPods, anti = 2, false
	}
	if mode == 5 {
		nPods, anti = 3, true
	}
	var pods []*corev1.Pod
	var jpods []string
	for i := 0; i < nPods; i++ {
		cpuReq := kit.Pick(r, []string{"100m", "500m", "900m", "1500m", "3", "6"})
		if corpus {
			cpuReq = "1"
		}
		if mode == 4 {
			cpuReq = "1500m"
		}
		if mode == 5 {
			cpuReq = "3"
		}
		opts := test.PodOptions{ObjectMeta: metav1.ObjectMeta{Name: fmt.Sprintf("p%d", i), UID: types.UID(fmt.Sprintf("uid-p%d", i))},
			ResourceRequirements: corev1.ResourceRequirements{Requests: corev1.ResourceList{corev1.ResourceCPU: resource.MustParse(cpuReq)}}}
		if anti {
			opts.Labels = map[string]string{"app": "foo"}
			opts.PodAntiRequirements = []corev1.PodAffinityTerm{{TopologyKey: corev1.LabelHostname, LabelSelector: &metav1.LabelSelector{MatchLabels: map[string]string{"app": "foo"}}}}
		}
		p := test.UnschedulablePod(opts)
		kit.Apply(ctx, cl, p)
		pods = append(pods, p)
		jpods = append(jpods, cpuReq)
	}

	active := cluster.DeepCopyNodes().Active()
	if mode <= 2 && len(emitPools) == 1 && r.Chance(1, 20) {
		// the only dynamic pool stops being ready: there is nothing to schedule against
		cur := &v1.NodePool{}
		if err := cl.Get(ctx, client.ObjectKey{Name: "pool"}, cur); err != nil {
			panic(err)
		}
		cur.StatusConditions().SetFalse(v1.ConditionTypeNodeClassReady, "NotReady", "not ready")
		if err := cl.Status().Update(ctx, cur); err != nil {
			panic(err)
		}
		if _, err := prov.NewScheduler(ctx, pods, active, sets.New[types.UID]()); !errors.Is(err, provisioning.ErrNodePoolsNotFound) {
			c.Fail(c.NextID(), fmt.Sprintf("a scheduler was built although no dynamic NodePool is ready (err=%v)", err), "", map[string]string{"kind": "pass"})
		}
		c.Count("P:pools:no-ready-dynamic-pool")
		return
	}
	s, err := prov.NewScheduler(ctx, pods, active, sets.New[types.UID]())
	if err != nil {
		panic(err)
	}
	sctx, cancel := context.WithTimeout(ctx, time.Minute)
	results, err := s.Solve(sctx, pods)
	cancel()
	if err != nil {
		panic(err)
	}
	for _, pl := range emitPools {
		poolName, limits := pl.name, pl.limits
		remaining := s.VerifC03RemainingResources()[poolName]

		// The pool's nodes recomputed from the API objects, independent of what the scheduler built: every NodeClaim of
		// the pool with its Node's (else its own) status capacity + one node; being deleted = deletionTimestamp in the
		// API or marked for deletion by this harness. Sorted for a canonical case.
		type enode struct {
			st   int
			caps corev1.ResourceList
		}
		var all []enode
		var existing []corev1.ResourceList // the ones that are not being deleted
		nDeleting := 0
		ncl := &v1.NodeClaimList{}
		if err := cl.List(ctx, ncl); err != nil {
			panic(err)
		}
		for i := range ncl.Items {
			nc := &ncl.Items[i]
			if nc.Labels[v1.NodePoolLabelKey] != poolName {
				continue
			}
			caps := nc.Status.Capacity
			node := &corev1.Node{}
			if err := cl.Get(ctx, client.ObjectKey{Name: nc.Name}, node); err == nil {
				caps = node.Status.Capacity.DeepCopy()
				if node.Labels[v1.NodeInitializedLabelKey] != "true" {
					// until the node is initialized a resource it reports as zero counts with the NodeClaim's value
					for k, v := range nc.Status.Capacity {
						if cur, ok := caps[k]; !ok || cur.IsZero() {
							caps[k] = v
						}
					}
				}
			}
			caps = lo.Assign(caps, corev1.ResourceList{"nodes": *resource.NewQuantity(1, resource.DecimalSI)})
			st := stateOf[nc.Name]
			if marked[nc.Name] && st != nsDeleting {
				st = nsMarkedForDeletion
			}
			beingDeleted := !nc.DeletionTimestamp.IsZero() || marked[nc.Name]
			if beingDeleted != (st == nsDeleting || st == nsMarkedForDeletion) {
				panic("harness: API state and generated lifecycle state disagree for " + nc.Name)
			}
			all = append(all, enode{st, caps})
			if beingDeleted {
				nDeleting++
			} else {
				existing = append(existing, caps)
			}
		}
		sort.Slice(all, func(i, j int) bool {
			return fmt.Sprint(all[i].st, gRL(all[i].caps)) < fmt.Sprint(all[j].st, gRL(all[j].caps))
		})
		gnodes := kit.GListOf(all, func(e enode) string { return kit.GPair(nstateNames[e.st], gRL(e.caps)) })
		jnodes := lo.Map(all, func(e enode, _ int) map[string]interface{} {
			return map[string]interface{}{"state": nstateNames[e.st][1:], "capacity": milli(e.caps)}
		})

		// the incrementally maintained per-pool sum the Create guard reads
		npres := cluster.NodePoolResourcesFor(poolName)
		c.AddCase(fmt.Sprintf("CaseR %s %s", gnodes, gRL(npres)), map[string]interface{}{"kind": "nodePoolResources", "pool": poolName, "nodes": jnodes,
			"history": jhist, "nodePoolResources": milli(npres)}, "")
		if len(npres) == 0 {
			c.Count("P:nodePoolResources:empty")
		} else {
			c.Count("P:nodePoolResources:non-empty")
		}

		// adversarial launch: per NodeClaim one of its options (the largest half of the time), one of its offerings
		usage := map[string]int64{}
		for _, e := range existing {
			for k, v := range milli(e) {
				usage[k] += v
			}
		}
		base := map[string]int64{}
		for k, v := range usage {
			base[k] = v
		}
		var gclaims, glaunched, jlaunched []string
		var jclaims [][]string
		overrideLaunched := false
		for _, nc := range results.NewNodeClaims {
			if nc.NodePoolName != poolName {
				continue
			}
			its := nc.InstanceTypeOptions
			gclaims = append(gclaims, kit.GListOf(its, func(it *cloudprovider.InstanceType) string { return gIT(it, nc.Requirements) }))
			jclaims = append(jclaims, lo.Map(its, func(it *cloudprovider.InstanceType, _ int) string { return it.Name }))
			it := kit.Pick(r, []*cloudprovider.InstanceType(its))
			if r.Chance(1, 2) {
				for _, cand := range its {
					if cand.Capacity.Cpu().Cmp(*it.Capacity.Cpu()) > 0 {
						it = cand
					}
				}
			}
			ofs := it.Offerings.Available().Compatible(nc.Requirements)
			if len(ofs) == 0 {
				panic("NodeClaim option without a compatible available offering")
			}
			o := kit.Pick(r, []*cloudprovider.Offering(ofs))
			if mode == 2 && r.Chance(1, 2) {
				for _, cand := range ofs {
					if len(cand.CapacityOverride) > 0 {
						o = cand
					}
				}
			}
			if len(o.CapacityOverride) > 0 {
				overrideLaunched = true
			}
			capLaunched := lo.Assign(it.Capacity, o.CapacityOverride)
			// Gallina side: assign base ov = ov ++ base
			glaunched = append(glaunched, "("+gRL(o.CapacityOverride)+" ++ "+gRL(it.Capacity)+")")
			jlaunched = append(jlaunched, fmt.Sprintf("%s@%s/%s", it.Name, o.Zone(), o.CapacityType()))
			for k, v := range milli(capLaunched) {
				usage[k] += v
			}
			usage["nodes"] += 1000
		}

		// the same oracle on the Go side, only to attach the known-finding key to the exact shape
		var exceeded []string
		for _, k := range kit.SortedKeys(milli(limits)) {
			lim := milli(limits)[k]
			if usage[k] > lim && usage[k] > base[k] {
				exceeded = append(exceeded, k)
			}
		}
		kf := ""
		switch {
		case len(exceeded) > 0 && overrideLaunched && !lo.Contains(exceeded, "nodes"):
			kf = kfOverride
			c.Count("P:oracle:override-exceeds(known finding shape)")
		case len(exceeded) > 0:
			c.Count("P:oracle:EXCEEDED-other")
		default:
			c.Count("P:oracle:within-limits")
		}

		switch {
		case len(gclaims) == 0 && len(results.PodErrors) > 0:
			c.Count("P:pass:no-claim,pods-failed")
		case len(gclaims) == 0:
			c.Count("P:pass:no-claim,pods-fit-existing")
		case len(results.PodErrors) > 0:
			c.Count(fmt.Sprintf("P:pass:%d-claims,some-pods-failed", min(len(gclaims), 3)))
		default:
			c.Count(fmt.Sprintf("P:pass:%d-claims", min(len(gclaims), 3)))
		}
		if len(limits) == 0 {
			c.Count("P:limits:none")
		}
		if _, ok := limits["nodes"]; ok {
			c.Count("P:limits:nodes")
		}
		if _, ok := limits[corev1.ResourceCPU]; ok {
			c.Count("P:limits:cpu")
		}
		excluded := false
		for _, opts := range jclaims {
			if len(opts) < len(catalog) {
				excluded = true
			}
		}
		if excluded {
			c.Count("P:claim-with-excluded-instance-types")
		}

		key := ""
		if len(gclaims) > 0 {
			key = fmt.Sprintf("P:%v|%v|%v|%v|%v", milli(limits), jcat, jpods, jclaims, jlaunched)
		}
		g := fmt.Sprintf("CaseP %s %s %s %s %s %s", kit.GBool(anti), gRL(limits), gnodes, kit.GList(gclaims), gRL(remaining), kit.GList(glaunched))
		c.AddCase(g, pcase{Kind: "pass", KfKey: kf, Limits: milli(limits), Catalog: jcat, Existing: jnodes, History: jhist,
			Deleting: nDeleting, Pods: jpods, Anti: anti, Claims: jclaims, Launched: jlaunched, Remaining: milli(remaining), Exceeded: exceeded}, key)

	}
	// neighbours that the scheduler must not see
	for _, nc := range results.NewNodeClaims {
		if nc.NodePoolName == "stat" || nc.NodePoolName == "nr" {
			c.Fail(c.NextID(), "the scheduler created a NodeClaim for a static or not-ready NodePool: "+nc.NodePoolName, "", map[string]string{"pool": nc.NodePoolName})
		}
	}

	// the last guard: Provisioner.CreateNodeClaims for the pass's NodeClaims of "pool", sometimes after the user has
	// tightened the limits below what is already running
	if mode <= 2 && r.Chance(1, 2) {
		var mine []*pscheduling.NodeClaim
		for _, nc := range results.NewNodeClaims {
			if nc.NodePoolName == "pool" {
				mine = append(mine, nc)
			}
		}
		usage := cluster.NodePoolResourcesFor("pool")
		cur := &v1.NodePool{}
		if err := cl.Get(ctx, client.ObjectKey{Name: "pool"}, cur); err != nil {
			panic(err)
		}
		switch r.Intn(4) {
		case 0, 3: // tightened to just below / exactly at the usage of one resource
			if ks := kit.SortedKeys(milli(usage)); len(ks) > 0 {
				k := corev1.ResourceName(kit.Pick(r, ks))
				q := usage[k].DeepCopy()
				if r.Bool() {
					q.Sub(*resource.NewMilliQuantity(1, resource.DecimalSI))
				}
				cur.Spec.Limits = v1.Limits(lo.Assign(corev1.ResourceList(cur.Spec.Limits), corev1.ResourceList{k: q}))
			}
		case 1:
			cur.Spec.Limits = nil
		}
		if err := cl.Update(ctx, cur); err != nil {
			panic(err)
		}
		before := &v1.NodeClaimList{}
		_ = cl.List(ctx, before)
		_, _ = prov.CreateNodeClaims(ctx, mine)
		after := &v1.NodeClaimList{}
		_ = cl.List(ctx, after)
		created := len(after.Items) - len(before.Items)
		glim := "None"
		if cur.Spec.Limits != nil {
			glim = "(Some " + gRL(corev1.ResourceList(cur.Spec.Limits)) + ")"
		}
		c.AddCase(fmt.Sprintf("CaseC %s %s %d%%nat %d%%nat", glim, gRL(usage), len(mine), created),
			map[string]interface{}{"kind": "create-guard", "limits": milli(corev1.ResourceList(cur.Spec.Limits)), "nil_limits": cur.Spec.Limits == nil,
				"nodePoolResources": milli(usage), "nodeclaims": len(mine), "created": created}, "")
		switch {
		case len(mine) == 0:
			c.Count("P:create:no-claims")
		case created == 0:
			c.Count("P:create:refused(ExceededBy)")
		default:
			c.Count("P:create:created")
		}
	}
}

func partP(c *kit.Ctx) int {
	n := 150
	if c.Thorough() {
		n = 2000
	}
	runP(c, c.Rand.Fork(), 3) // corpus first
	runP(c, c.Rand.Fork(), 4)
	runP(c, c.Rand.Fork(), 5)
	for i := 0; i < n; i++ {
		runP(c, c.Rand.Fork(), i%3)
	}
	return n
}
