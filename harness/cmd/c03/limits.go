package main

import (
	"fmt"

	corev1 "k8s.io/api/core/v1"
	"k8s.io/apimachinery/pkg/api/resource"

	v1 "sigs.k8s.io/karpenter/pkg/apis/v1"
	"sigs.k8s.io/karpenter/pkg/cloudprovider"
	"sigs.k8s.io/karpenter/pkg/controllers/provisioning/scheduling"
	"sigs.k8s.io/karpenter/pkg/utils/resources"

	"verifharness/kit"
)

// ------------------------------------------------------------------ part L: limit arithmetic, unit level

var resNames = []string{"cpu", "memory", "nodes", "pods", "example.com/gpu"}

func q(milliv int64) resource.Quantity { return *resource.NewMilliQuantity(milliv, resource.DecimalSI) }

func randCap(r *kit.Rand) corev1.ResourceList {
	out := corev1.ResourceList{}
	for _, k := range resNames {
		if k == "nodes" {
			if r.Chance(1, 10) { // instance types do not normally carry "nodes"
				out[corev1.ResourceName(k)] = q(1000)
			}
			continue
		}
		if r.Chance(3, 4) {
			out[corev1.ResourceName(k)] = q(int64(r.Intn(9)) * 500)
		}
	}
	return out
}

// remaining quantities placed at / just below / just above the capacities in play
func randRemaining(r *kit.Rand, caps []corev1.ResourceList) corev1.ResourceList {
	out := corev1.ResourceList{}
	for _, k := range resNames {
		if !r.Chance(1, 2) {
			continue
		}
		var base int64
		if len(caps) > 0 {
			c := kit.Pick(r, caps)
			if v, ok := c[corev1.ResourceName(k)]; ok {
				base = v.MilliValue()
			}
		}
		switch r.Intn(6) {
		case 0:
			base -= 1
		case 1:
			base += 1
		case 2:
			base = int64(r.Intn(9))*500 - 1000
		case 3:
			base = 0
		}
		out[corev1.ResourceName(k)] = q(base)
	}
	return out
}

type lcase struct {
	Kind      string             `json:"kind"`
	Caps      []map[string]int64 `json:"caps,omitempty"`
	Remaining map[string]int64   `json:"remaining,omitempty"`
	Limits    map[string]int64   `json:"limits,omitempty"`
	NilLimits bool               `json:"nil_limits,omitempty"`
	Usage     map[string]int64   `json:"usage,omitempty"`
	Out       interface{}        `json:"out"`
}

func partL(c *kit.Ctx) int {
	n := 250
	if c.Thorough() {
		n = 2500
	}
	for i := 0; i < n; i++ {
		r := c.Rand.Fork()
		var caps []corev1.ResourceList
		var its []*cloudprovider.InstanceType
		nIT := r.Intn(5)
		for j := 0; j < nIT; j++ {
			cp := randCap(r)
			caps = append(caps, cp)
			its = append(its, &cloudprovider.InstanceType{Name: fmt.Sprintf("it%d", j), Capacity: cp})
		}
		remaining := randRemaining(r, caps)
		jcaps := make([]map[string]int64, len(caps))
		for j := range caps {
			jcaps[j] = milli(caps[j])
		}
		gcaps := kit.GListOf(caps, gRL)

		// filterByRemainingResources
		kept := scheduling.VerifC03FilterByRemainingResources(its, remaining)
		mask := make([]bool, len(its))
		k := 0
		for j, it := range its {
			if k < len(kept) && kept[k] == it {
				mask[j] = true
				k++
			}
		}
		id := c.AddCase(fmt.Sprintf("CaseF %s %s %s", gcaps, gRL(remaining), kit.GListOf(mask, kit.GBool)),
			lcase{Kind: "filterByRemainingResources", Caps: jcaps, Remaining: milli(remaining), Out: mask}, "")
		if k != len(kept) {
			c.Fail(id, "filterByRemainingResources returned something that is not an order-preserving sub-list of its input", "", mask)
		}
		switch {
		case len(its) == 0:
			c.Count("L:filter:no-types")
		case len(remaining) == 0:
			c.Count("L:filter:no-limits")
		case len(kept) == 0:
			c.Count("L:filter:all-excluded")
		case len(kept) == len(its):
			c.Count("L:filter:all-kept")
		default:
			c.Count("L:filter:some-excluded")
		}

		// subtractMax (on its own copy: the function may alias its argument)
		out := scheduling.VerifC03SubtractMax(remaining.DeepCopy(), its)
		c.AddCase(fmt.Sprintf("CaseM %s %s %s", gRL(remaining), gcaps, gRL(out)),
			lcase{Kind: "subtractMax", Caps: jcaps, Remaining: milli(remaining), Out: milli(out)}, "")
		if len(its) == 0 {
			c.Count("L:subtractMax:no-types")
		} else {
			c.Count("L:subtractMax:types")
		}

		// Limits.ExceededBy
		usage := randRemaining(r, caps)
		var limits v1.Limits
		nilLimits := r.Chance(1, 8)
		if !nilLimits {
			limits = v1.Limits(randRemaining(r, append(caps, usage)))
			if r.Chance(1, 3) { // boundary: limit == usage on one resource
				if ks := kit.SortedKeys(milli(usage)); len(ks) > 0 {
					kk := corev1.ResourceName(kit.Pick(r, ks))
					limits[kk] = usage[kk].DeepCopy()
				}
			}
		}
		exceeded := limits.ExceededBy(usage) != nil
		glim := "None"
		if !nilLimits {
			glim = "(Some " + gRL(corev1.ResourceList(limits)) + ")"
		}
		c.AddCase(fmt.Sprintf("CaseE %s %s %s", glim, gRL(usage), kit.GBool(exceeded)),
			lcase{Kind: "ExceededBy", Limits: milli(corev1.ResourceList(limits)), NilLimits: nilLimits, Usage: milli(usage), Out: exceeded}, "")
		switch {
		case nilLimits:
			c.Count("L:exceededBy:nil-limits")
		case exceeded:
			c.Count("L:exceededBy:exceeded")
		default:
			c.Count("L:exceededBy:within")
		}

		// resources.Subtract
		rhs := randCap(r)
		sub := resources.Subtract(remaining, rhs)
		c.AddCase(fmt.Sprintf("CaseSub %s %s %s", gRL(remaining), gRL(rhs), gRL(sub)),
			lcase{Kind: "Subtract", Remaining: milli(remaining), Usage: milli(rhs), Out: milli(sub)}, "")
		c.Count("L:subtract")
	}
	return n
}
