package main

import (
	"context"
	"fmt"
	"math"
	"os"
	"sort"
	"strings"
	"sync"
	"time"

	"github.com/samber/lo"
	corev1 "k8s.io/api/core/v1"
	"k8s.io/apimachinery/pkg/api/resource"
	metav1 "k8s.io/apimachinery/pkg/apis/meta/v1"
	"k8s.io/client-go/tools/record"
	clock "k8s.io/utils/clock/testing"
	"sigs.k8s.io/controller-runtime/pkg/client"
	"sigs.k8s.io/controller-runtime/pkg/client/interceptor"

	v1 "sigs.k8s.io/karpenter/pkg/apis/v1"
	"sigs.k8s.io/karpenter/pkg/cloudprovider/fake"
	"sigs.k8s.io/karpenter/pkg/controllers/disruption"
	"sigs.k8s.io/karpenter/pkg/controllers/dynamicresources/deviceallocation"
	"sigs.k8s.io/karpenter/pkg/controllers/provisioning"
	"sigs.k8s.io/karpenter/pkg/controllers/state"
	staticdeprov "sigs.k8s.io/karpenter/pkg/controllers/static/deprovisioning"
	static "sigs.k8s.io/karpenter/pkg/controllers/static/provisioning"
	"sigs.k8s.io/karpenter/pkg/events"
	"sigs.k8s.io/karpenter/pkg/state/virtualpods"
	"sigs.k8s.io/karpenter/pkg/test"

	"verifharness/kit"
)

// ------------------------------------------------------------------ part D: the whole static protocol on real code:
// static provisioning + deprovisioning controllers, the disruption Controller restricted to StaticDrift with the real
// Queue.StartCommand, faults at the API calls, node-limit changes, restarts; compared with C03.Model.sstep.

const kfLeak = "static-drift-reservation-leak"

type denv struct {
	ctx                    context.Context
	c                      *kit.Ctx
	r                      *kit.Rand
	clk                    *clock.FakeClock
	cl                     client.WithWatch
	cp                     *fake.CloudProvider
	mu                     sync.Mutex
	failCreates, failTaint bool
	nFailCreates           int
	started                []string

	cluster *state.Cluster
	prov    *provisioning.Provisioner
	provC   *static.Controller
	deprovC *staticdeprov.Controller
	queue   *disruption.Queue
	disrC   *disruption.Controller
	drift   *disruption.StaticDrift

	limit    int64
	replicas int64
	model    map[string]int
	next     int

	gops, gobs, jops, jobs []string
	leaked                 bool
}

func (e *denv) boot() {
	rec := events.NewRecorder(&record.FakeRecorder{})
	e.cluster = state.NewCluster(e.clk, e.cl, e.cp)
	vpc := virtualpods.NewVirtualPodCache(e.cl)
	e.prov = provisioning.NewProvisioner(e.cl, rec, e.cp, e.cluster, e.clk, deviceallocation.NewController(e.cl), vpc)
	e.provC = static.NewController(e.cl, e.cluster, rec, e.cp, e.prov, e.clk, deviceallocation.NewController(e.cl), vpc)
	e.deprovC = staticdeprov.NewController(e.cl, e.cluster, e.cp, e.clk, rec)
	e.queue = disruption.NewQueue(e.cl, rec, e.cluster, e.clk, e.prov)
	e.drift = disruption.NewStaticDrift(e.cluster, e.prov, e.cp)
	e.disrC = disruption.NewController(e.clk, e.cl, e.prov, e.cp, rec, e.cluster, e.queue, nil, disruption.WithMethods(e.drift))
}

func newDenv(c *kit.Ctx, r *kit.Rand) *denv {
	e := &denv{ctx: kit.Context(), c: c, r: r, clk: clock.NewFakeClock(time.Unix(1_700_000_000, 0)), cp: fake.NewCloudProvider(), model: map[string]int{}, next: 1}
	e.cl = kit.NewClient(interceptor.Funcs{
		Create: func(ctx context.Context, w client.WithWatch, obj client.Object, opts ...client.CreateOption) error {
			if _, ok := obj.(*v1.NodeClaim); ok {
				e.mu.Lock()
				fail := e.failCreates || e.nFailCreates > 0
				if e.nFailCreates > 0 {
					e.nFailCreates--
				}
				e.mu.Unlock()
				if fail {
					return fmt.Errorf("injected NodeClaim create failure")
				}
			}
			return w.Create(ctx, obj, opts...)
		},
		SubResourcePatch: func(ctx context.Context, cl client.Client, sub string, obj client.Object, patch client.Patch, opts ...client.SubResourcePatchOption) error {
			// queue.markDisrupted sets the DisruptionReason condition on every candidate whose command starts
			if nc, ok := obj.(*v1.NodeClaim); ok && sub == "status" && nc.StatusConditions().Get(v1.ConditionTypeDisruptionReason).IsTrue() {
				e.mu.Lock()
				e.started = append(e.started, nc.Name)
				e.mu.Unlock()
			}
			return cl.SubResource(sub).Patch(ctx, obj, patch, opts...)
		},
		Patch: func(ctx context.Context, w client.WithWatch, obj client.Object, patch client.Patch, opts ...client.PatchOption) error {
			if n, ok := obj.(*corev1.Node); ok && e.failTaint &&
				lo.ContainsBy(n.Spec.Taints, func(t corev1.Taint) bool { return t.MatchTaint(&v1.DisruptedNoScheduleTaint) }) {
				return fmt.Errorf("injected failure tainting the node")
			}
			return w.Patch(ctx, obj, patch, opts...)
		},
	})
	e.cp.InstanceTypes = fake.InstanceTypes(3)
	e.boot()
	return e
}

func (e *denv) claims() []*v1.NodeClaim {
	l := &v1.NodeClaimList{}
	if err := e.cl.List(e.ctx, l); err != nil {
		panic(err)
	}
	var out []*v1.NodeClaim
	for i := range l.Items {
		if l.Items[i].Labels[v1.NodePoolLabelKey] == "spool" {
			out = append(out, &l.Items[i])
		}
	}
	sort.Slice(out, func(i, j int) bool { return out[i].Name < out[j].Name })
	return out
}

func (e *denv) adopt() {
	for _, nc := range e.claims() {
		if _, ok := e.model[nc.Name]; !ok {
			e.model[nc.Name] = e.next
			e.next++
		}
	}
}

func (e *denv) pool() *v1.NodePool {
	np := &v1.NodePool{}
	if err := e.cl.Get(e.ctx, client.ObjectKey{Name: "spool"}, np); err != nil {
		panic(err)
	}
	return np
}

func (e *denv) setSpec(replicas, limit int64) {
	np := e.pool()
	np.Spec.Replicas = &replicas
	if limit == math.MaxInt64 {
		np.Spec.Limits = nil
	} else {
		np.Spec.Limits = v1.Limits(corev1.ResourceList{"nodes": *resource.NewQuantity(limit, resource.DecimalSI)})
	}
	if err := e.cl.Update(e.ctx, np); err != nil {
		panic(err)
	}
	e.replicas, e.limit = replicas, limit
}

// record one step: the Gallina op, a readable op, and the observation after it
var dTiming = map[string]time.Duration{}
var dLast = time.Now()

func (e *denv) step(g, j string) {
	dTiming[strings.SplitN(j, "(", 2)[0]] += time.Since(dLast)
	dLast = time.Now()

	a, d, p := e.cluster.NodePoolState.GetNodeCount("spool")
	res := e.cluster.NodePoolState.VerifC03Dump("spool").Reserved
	api := len(e.claims())
	e.gops = append(e.gops, g)
	e.jops = append(e.jops, j)
	e.gobs = append(e.gobs, fmt.Sprintf("(mkSO %s %s %s %s %s)", kit.GZ(int64(api)), kit.GZ(int64(a)), kit.GZ(int64(d)), kit.GZ(int64(p)), kit.GZ(res)))
	e.jobs = append(e.jobs, fmt.Sprintf("api=%d active=%d deleting=%d pending=%d reserved=%d limit=%d", api, a, d, p, res, e.limit))
}

func (e *denv) opProv(replicas int64, nfail int) {
	e.setSpec(replicas, e.limit)
	e.mu.Lock()
	e.nFailCreates = nfail
	e.mu.Unlock()
	_, _ = e.provC.Reconcile(e.ctx, e.pool())
	e.mu.Lock()
	used := nfail - e.nFailCreates
	e.nFailCreates = 0
	e.mu.Unlock()
	e.adopt()
	e.step(fmt.Sprintf("(DProv %s %d%%nat)", kit.GZ(replicas), used), fmt.Sprintf("ProvisioningReconcile(replicas=%d, failing creates=%d)", replicas, used))
	e.c.Count("D:prov")
}

// the informer delivers the current API object of a claim
func (e *denv) opInfUpd(nc *v1.NodeClaim) {
	del := false
	if nc.Status.ProviderID != "" {
		del = !nc.DeletionTimestamp.IsZero()
		for _, sn := range e.cluster.DeepCopyNodes() {
			if sn.ProviderID() == nc.Status.ProviderID && sn.MarkedForDeletion() {
				del = true
			}
		}
	}
	e.cluster.UpdateNodeClaim(nc)
	e.step(fmt.Sprintf("(DInfUpd %s %s)", gname(e.model[nc.Name]), kit.GBool(del)), fmt.Sprintf("InformerUpdate(#%d)", e.model[nc.Name]))
}

// what the lifecycle controllers do: launch, register, initialize every claim that has not launched yet
func (e *denv) launchAll() {
	for _, nc := range e.claims() {
		if nc.Status.ProviderID != "" || !nc.DeletionTimestamp.IsZero() {
			continue
		}
		it := e.cp.InstanceTypes[0]
		nc.Labels = lo.Assign(nc.Labels, map[string]string{corev1.LabelInstanceTypeStable: it.Name, corev1.LabelTopologyZone: "test-zone-1",
			v1.CapacityTypeLabelKey: "on-demand", v1.NodeRegisteredLabelKey: "true", v1.NodeInitializedLabelKey: "true"})
		nc.Finalizers = []string{v1.TerminationFinalizer}
		if err := e.cl.Update(e.ctx, nc); err != nil {
			panic(err)
		}
		nc.Status.ProviderID = "fake://" + nc.Name
		nc.Status.Capacity, nc.Status.Allocatable = it.Capacity, it.Allocatable()
		nc.Status.NodeName = nc.Name
		if err := e.cl.Status().Update(e.ctx, nc); err != nil {
			panic(err)
		}
		node := test.NodeClaimLinkedNode(nc)
		node.Name, node.Namespace, node.Spec.Taints, node.Finalizers = nc.Name, "", nil, nil
		kit.Apply(e.ctx, e.cl, node)
		fresh := &v1.NodeClaim{}
		if err := e.cl.Get(e.ctx, client.ObjectKeyFromObject(nc), fresh); err != nil {
			panic(err)
		}
		e.opInfUpd(fresh)
		if err := e.cluster.UpdateNode(e.ctx, node); err != nil {
			panic(err)
		}
	}
}

func (e *denv) dump() state.VerifC03PoolDump { return e.cluster.NodePoolState.VerifC03Dump("spool") }

func (e *denv) opDisrupt(f int) {
	e.launchAll()
	// some launched, live claims drift
	var live []*v1.NodeClaim
	for _, nc := range e.claims() {
		if nc.DeletionTimestamp.IsZero() {
			live = append(live, nc)
		}
	}
	for _, nc := range live {
		if e.r.Chance(1, 2) {
			nc.StatusConditions().SetTrue(v1.ConditionTypeDrifted)
			if err := e.cl.Status().Update(e.ctx, nc); err != nil {
				panic(err)
			}
			fresh := &v1.NodeClaim{}
			_ = e.cl.Get(e.ctx, client.ObjectKeyFromObject(nc), fresh)
			e.opInfUpd(fresh)
		}
	}
	// the two inputs StaticDrift.ComputeCommands gets from outside this property (C05, C07)
	budgets, err := disruption.BuildDisruptionBudgetMapping(e.ctx, e.cluster, e.clk, e.cl, e.cp, events.NewRecorder(&record.FakeRecorder{}), v1.DisruptionReasonDrifted)
	if err != nil {
		panic(err)
	}
	cands, err := disruption.GetCandidates(e.ctx, e.cluster, e.cl, events.NewRecorder(&record.FakeRecorder{}), e.clk, e.cp, e.drift.ShouldDisrupt, e.drift.Class(), e.queue)
	if err != nil {
		panic(err)
	}
	before := e.dump()
	e.mu.Lock()
	e.started = nil
	e.failTaint, e.failCreates = f == 1, f == 2
	e.mu.Unlock()
	_, _ = e.disrC.Reconcile(e.ctx)
	e.mu.Lock()
	e.failTaint, e.failCreates = false, false
	e.mu.Unlock()
	e.adopt()
	after := e.dump()
	// candidates whose command got as far as markDisrupted
	e.mu.Lock()
	names := lo.Uniq(e.started)
	e.mu.Unlock()
	sort.Strings(names)
	started := lo.Map(names, func(n string, _ int) string { return gname(e.model[n]) })
	if after.Reserved > before.Reserved {
		e.leaked = true
		e.c.Count("D:disrupt:reservation-left-behind")
	}
	fn := []string{"FNone", "FTaint", "FCreate"}[f]
	e.step(fmt.Sprintf("(DDisrupt %s %d%%nat %d%%nat %s %s)", kit.GZ(e.replicas), budgets["spool"], len(cands), fn, kit.GList(started)),
		fmt.Sprintf("DisruptionReconcile(budget=%d, drifted candidates=%d, fault=%s) started=%d", budgets["spool"], len(cands), fn[1:], len(started)))
	e.c.Count("D:disrupt:" + fn[1:])
	if len(started) > 0 {
		e.c.Count("D:disrupt:commands-started")
	}
}

func (e *denv) opDeprov(replicas int64) {
	e.setSpec(replicas, e.limit)
	before := e.dump()
	names := lo.Map(e.claims(), func(nc *v1.NodeClaim, _ int) string { return nc.Name })
	_, _ = e.deprovC.Reconcile(e.ctx, e.pool())
	after := e.dump()
	var victims, gone []string
	left := lo.Map(e.claims(), func(nc *v1.NodeClaim, _ int) string { return nc.Name })
	for _, n := range after.Deleting {
		if !lo.Contains(before.Deleting, n) {
			victims = append(victims, gname(e.model[n]))
			if !lo.Contains(left, n) { // no finalizer: the object is gone; its delete event follows
				e.cluster.DeleteNodeClaim(n)
				gone = append(gone, gname(e.model[n]))
			}
		}
	}
	_ = names
	e.step(fmt.Sprintf("(DDeprov %s %s %s)", kit.GZ(replicas), kit.GList(victims), kit.GList(gone)),
		fmt.Sprintf("DeprovisioningReconcile(replicas=%d) deleted=%d", replicas, len(victims)))
	if len(victims) > 0 {
		e.c.Count("D:deprov:scaled-down")
	} else {
		e.c.Count("D:deprov:nothing")
	}
}

// the termination path: the claim (and its node) leaves the API, the delete events arrive
func (e *denv) opFinalize(nc *v1.NodeClaim) {
	name := nc.Name
	if len(nc.Finalizers) > 0 {
		nc.Finalizers = nil
		if err := e.cl.Update(e.ctx, nc); err != nil {
			panic(err)
		}
	}
	if err := e.cl.Delete(e.ctx, nc); client.IgnoreNotFound(err) != nil {
		panic(err)
	}
	node := &corev1.Node{}
	if e.cl.Get(e.ctx, client.ObjectKey{Name: name}, node) == nil {
		if err := e.cl.Delete(e.ctx, node); err != nil {
			panic(err)
		}
		e.cluster.DeleteNode(name)
	}
	e.cluster.DeleteNodeClaim(name)
	e.step(fmt.Sprintf("(DFinalize %s)", gname(e.model[name])), fmt.Sprintf("Finalize(#%d)", e.model[name]))
	e.c.Count("D:finalize")
}

func (e *denv) opLimit(l int64) {
	e.setSpec(e.replicas, l)
	e.step(fmt.Sprintf("(DLimit %s)", kit.GZ(l)), fmt.Sprintf("SetNodeLimit(%d)", l))
	e.c.Count("D:limit-change")
}

func (e *denv) opRestart() {
	e.boot()
	var replay []string
	nodes := &corev1.NodeList{}
	_ = e.cl.List(e.ctx, nodes)
	for i := range nodes.Items {
		if err := e.cluster.UpdateNode(e.ctx, &nodes.Items[i]); err != nil {
			panic(err)
		}
	}
	for _, nc := range e.claims() {
		e.cluster.UpdateNodeClaim(nc)
		del := nc.Status.ProviderID != "" && !nc.DeletionTimestamp.IsZero()
		replay = append(replay, kit.GPair(gname(e.model[nc.Name]), kit.GBool(del)))
	}
	e.step(fmt.Sprintf("(DRestart %s)", kit.GList(replay)), fmt.Sprintf("Restart(replayed %d claims)", len(replay)))
	e.c.Count("D:restart")
}

// claims the NodePoolState or the API consider on their way out
func (e *denv) leaving() []*v1.NodeClaim {
	d := e.dump()
	return lo.Filter(e.claims(), func(nc *v1.NodeClaim, _ int) bool {
		return !nc.DeletionTimestamp.IsZero() || lo.Contains(d.Deleting, nc.Name)
	})
}

func runD(c *kit.Ctx, r *kit.Rand, scripted int) {
	e := newDenv(c, r)
	limit0 := int64(r.Range(1, 5))
	if r.Chance(1, 8) {
		limit0 = math.MaxInt64
	}
	if scripted > 0 {
		limit0 = 3
	}
	e.limit = limit0
	np := test.StaticNodePool(v1.NodePool{ObjectMeta: metav1.ObjectMeta{Name: "spool"}, Spec: v1.NodePoolSpec{Replicas: new(int64),
		Disruption: v1.Disruption{Budgets: []v1.Budget{{Nodes: "100%"}}}}})
	if limit0 != math.MaxInt64 {
		np.Spec.Limits = v1.Limits(corev1.ResourceList{"nodes": *resource.NewQuantity(limit0, resource.DecimalSI)})
	}
	kit.Apply(e.ctx, e.cl, np)

	if scripted == 1 {
		// the history behind the reservation-leak suspicion: 2 nodes, limit 3; the taint of a drift candidate fails once;
		// then the user asks for 3 replicas, which the limit allows
		e.opProv(2, 0)
		e.opDisrupt(1)
		e.opProv(3, 0)
	} else {
		n := r.Range(3, 8)
		for i := 0; i < n; i++ {
			cl := e.claims()
			switch k := r.Intn(12); {
			case k <= 2:
				nfail := 0
				if r.Chance(1, 4) {
					nfail = 1
				}
				e.opProv(int64(r.Range(0, 5)), nfail)
			case k <= 5 && len(cl) > 0:
				e.opDisrupt(kit.Pick(r, []int{0, 0, 0, 1, 2}))
			case k <= 7:
				e.opDeprov(int64(r.Range(0, 4)))
			case k == 8 && len(e.leaving()) > 0:
				e.opFinalize(kit.Pick(r, e.leaving()))
			case k == 9 && e.limit != math.MaxInt64:
				e.opLimit(int64(r.Range(0, 5)))
			case k == 10:
				e.launchAll()
				e.opRestart()
			default:
				if len(cl) > 0 {
					e.opInfUpd(kit.Pick(r, cl))
				} else {
					e.opProv(int64(r.Range(1, 4)), 0)
				}
			}
		}
	}
	// settle: no more faults, no more spec changes; the informers resync, leaving claims terminate, the controllers run
	replicas := e.replicas
	for round := 0; round < 3; round++ {
		e.launchAll()
		for _, nc := range e.claims() {
			e.opInfUpd(nc)
		}
		for _, nc := range e.leaving() {
			e.opFinalize(nc)
		}
		e.opProv(replicas, 0)
		e.launchAll()
		e.opDeprov(replicas)
		for _, nc := range e.leaving() {
			e.opFinalize(nc)
		}
	}
	final := len(e.claims())
	kf := ""
	settled := replicas > e.limit || int64(final) == replicas
	switch {
	case settled:
		c.Count("D:settled")
	case e.leaked:
		kf = kfLeak
		c.Count("D:NOT-settled(reservation left behind by a failed disruption command)")
	default:
		c.Count("D:NOT-SETTLED-other")
	}
	g := fmt.Sprintf("CaseD %s %s %s (Some (%s, %s, %s))", kit.GZ(limit0), kit.GList(e.gops), kit.GList(e.gobs), kit.GZ(replicas), kit.GZ(e.limit), kit.GZ(int64(final)))
	c.AddCase(g, map[string]interface{}{"kind": "static-protocol", "kf_key": kf, "node_limit": limit0, "ops": e.jops, "obs": e.jobs,
		"settle": map[string]int64{"replicas": replicas, "limit": e.limit, "nodeclaims": int64(final)}}, "D:"+strings.Join(e.jops, ";"))
}

func partD(c *kit.Ctx) int {
	n := 60
	if c.Thorough() {
		n = 800
	}
	dLast = time.Now()
	runD(c, c.Rand.Fork(), 1)
	for i := 0; i < n; i++ {
		runD(c, c.Rand.Fork(), 0)
	}
	if os.Getenv("C03_TIMING") != "" {
		fmt.Fprintln(os.Stderr, dTiming)
	}
	return n
}
