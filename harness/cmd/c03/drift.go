package main

import (
	"context"
	"fmt"
	"math"
	"os"
	"sort"
	"strings"
	"sync"
	"time"

	"github.com/samber/lo"
	corev1 "k8s.io/api/core/v1"
	"k8s.io/apimachinery/pkg/api/resource"
	metav1 "k8s.io/apimachinery/pkg/apis/meta/v1"
	"k8s.io/client-go/tools/record"
	clock "k8s.io/utils/clock/testing"
	"sigs.k8s.io/controller-runtime/pkg/client"
	"sigs.k8s.io/controller-runtime/pkg/client/interceptor"

	v1 "sigs.k8s.io/karpenter/pkg/apis/v1"
	"sigs.k8s.io/karpenter/pkg/cloudprovider/fake"
	"sigs.k8s.io/karpenter/pkg/controllers/disruption"
	"sigs.k8s.io/karpenter/pkg/controllers/dynamicresources/deviceallocation"
	"sigs.k8s.io/karpenter/pkg/controllers/provisioning"
	"sigs.k8s.io/karpenter/pkg/controllers/state"
	staticdeprov "sigs.k8s.io/karpenter/pkg/controllers/static/deprovisioning"
	static "sigs.k8s.io/karpenter/pkg/controllers/static/provisioning"
	"sigs.k8s.io/karpenter/pkg/events"
	"sigs.k8s.io/karpenter/pkg/state/virtualpods"
	"sigs.k8s.io/karpenter/pkg/test"

	"verifharness/kit"
)

// ------------------------------------------------------------------ part D: the whole static protocol on real code:
// static provisioning + deprovisioning controllers, the disruption Controller restricted to StaticDrift with the real
// Queue.StartCommand, faults at the API calls, node-limit changes, restarts; compared with C03.Model.sstep.

const kfLeak = "static-drift-reservation-leak"

type denv struct {
	ctx                    context.Context
	c                      *kit.Ctx
	r                      *kit.Rand
	clk                    *clock.FakeClock
	cl                     client.WithWatch
	cp                     *fake.CloudProvider
	mu                     sync.Mutex
	failCreates, failTaint bool
	nFailCreates           int
	started                []string
	nFailGets              int             // Provisioner.Create: reading the NodePool fails
	failStatus             bool            // queue.markDisrupted: the DisruptionReason status patch fails
	nFailDeletes           int             // deprovisioning: deleting this many NodeClaims fails (persistently)
	failedDeletes          map[string]bool // the claims whose delete failed
	repicked               map[string]bool // candidates that were terminating already (stale cluster-state entry)
	inReconcile            bool
	noPods                 bool
	hook                   func() // run once from inside the next NodeClaim Create

	cluster *state.Cluster
	prov    *provisioning.Provisioner
	provC   *static.Controller
	deprovC *staticdeprov.Controller
	queue   *disruption.Queue
	disrC   *disruption.Controller
	drift   *disruption.StaticDrift

	limit    int64
	replicas int64
	model    map[string]int
	next     int

	gops, gobs, jops, jobs []string
	leaked                 bool
	orderViolation         string
}

func (e *denv) boot() {
	rec := events.NewRecorder(&record.FakeRecorder{})
	e.cluster = state.NewCluster(e.clk, e.cl, e.cp)
	vpc := virtualpods.NewVirtualPodCache(e.cl)
	e.prov = provisioning.NewProvisioner(e.cl, rec, e.cp, e.cluster, e.clk, deviceallocation.NewController(e.cl), vpc)
	e.provC = static.NewController(e.cl, e.cluster, rec, e.cp, e.prov, e.clk, deviceallocation.NewController(e.cl), vpc)
	e.deprovC = staticdeprov.NewController(e.cl, e.cluster, e.cp, e.clk, rec)
	e.queue = disruption.NewQueue(e.cl, rec, e.cluster, e.clk, e.prov)
	e.drift = disruption.NewStaticDrift(e.cluster, e.prov, e.cp)
	e.disrC = disruption.NewController(e.clk, e.cl, e.prov, e.cp, rec, e.cluster, e.queue, nil, disruption.WithMethods(e.drift))
}

func newDenv(c *kit.Ctx, r *kit.Rand) *denv {
	e := &denv{ctx: kit.Context(), c: c, r: r, clk: clock.NewFakeClock(time.Unix(1_700_000_000, 0)), cp: fake.NewCloudProvider(), model: map[string]int{}, next: 1, failedDeletes: map[string]bool{}, repicked: map[string]bool{}}
	e.cl = kit.NewClient(interceptor.Funcs{
		Create: func(ctx context.Context, w client.WithWatch, obj client.Object, opts ...client.CreateOption) error {
			if _, ok := obj.(*v1.NodeClaim); ok {
				e.mu.Lock()
				hook := e.hook
				e.hook = nil
				e.mu.Unlock()
				if hook != nil { // a second actor runs while this Create is in flight
					hook()
				}
				e.mu.Lock()
				fail := e.failCreates || e.nFailCreates > 0
				if e.nFailCreates > 0 {
					e.nFailCreates--
				}
				e.mu.Unlock()
				if fail {
					return fmt.Errorf("injected NodeClaim create failure")
				}
			}
			return w.Create(ctx, obj, opts...)
		},
		SubResourcePatch: func(ctx context.Context, cl client.Client, sub string, obj client.Object, patch client.Patch, opts ...client.SubResourcePatchOption) error {
			// queue.markDisrupted sets the DisruptionReason condition on every candidate whose command starts
			if nc, ok := obj.(*v1.NodeClaim); ok && sub == "status" && nc.StatusConditions().Get(v1.ConditionTypeDisruptionReason).IsTrue() {
				e.mu.Lock()
				fail := e.failStatus
				if !fail {
					e.started = append(e.started, nc.Name)
				}
				e.mu.Unlock()
				if fail {
					return fmt.Errorf("injected failure patching the nodeclaim status")
				}
			}
			return cl.SubResource(sub).Patch(ctx, obj, patch, opts...)
		},
		Get: func(ctx context.Context, w client.WithWatch, key client.ObjectKey, obj client.Object, opts ...client.GetOption) error {
			if _, ok := obj.(*v1.NodePool); ok {
				e.mu.Lock()
				fail := e.inReconcile && e.nFailGets > 0
				if fail {
					e.nFailGets--
				}
				e.mu.Unlock()
				if fail {
					return fmt.Errorf("injected failure reading the nodepool")
				}
			}
			return w.Get(ctx, key, obj, opts...)
		},
		Delete: func(ctx context.Context, w client.WithWatch, obj client.Object, opts ...client.DeleteOption) error {
			if nc, ok := obj.(*v1.NodeClaim); ok {
				cur := &v1.NodeClaim{}
				already := w.Get(ctx, client.ObjectKeyFromObject(nc), cur) == nil && !cur.DeletionTimestamp.IsZero()
				e.mu.Lock()
				if e.inReconcile && already { // picked from a stale cache entry: the claim is terminating already
					e.repicked[nc.Name] = true
				}
				if e.inReconcile && !already && !e.failedDeletes[nc.Name] && e.nFailDeletes > 0 {
					e.nFailDeletes--
					e.failedDeletes[nc.Name] = true
				}
				fail := e.inReconcile && e.failedDeletes[nc.Name]
				e.mu.Unlock()
				if fail {
					return fmt.Errorf("injected failure deleting the nodeclaim")
				}
			}
			return w.Delete(ctx, obj, opts...)
		},
		Patch: func(ctx context.Context, w client.WithWatch, obj client.Object, patch client.Patch, opts ...client.PatchOption) error {
			if n, ok := obj.(*corev1.Node); ok && e.failTaint &&
				lo.ContainsBy(n.Spec.Taints, func(t corev1.Taint) bool { return t.MatchTaint(&v1.DisruptedNoScheduleTaint) }) {
				return fmt.Errorf("injected failure tainting the node")
			}
			return w.Patch(ctx, obj, patch, opts...)
		},
	})
	e.cp.InstanceTypes = fake.InstanceTypes(3)
	e.boot()
	return e
}

func (e *denv) claims() []*v1.NodeClaim {
	l := &v1.NodeClaimList{}
	if err := e.cl.List(e.ctx, l); err != nil {
		panic(err)
	}
	var out []*v1.NodeClaim
	for i := range l.Items {
		if l.Items[i].Labels[v1.NodePoolLabelKey] == "spool" {
			out = append(out, &l.Items[i])
		}
	}
	sort.Slice(out, func(i, j int) bool { return out[i].Name < out[j].Name })
	return out
}

func (e *denv) adopt() {
	for _, nc := range e.claims() {
		if _, ok := e.model[nc.Name]; !ok {
			e.model[nc.Name] = e.next
			e.next++
		}
	}
}

func (e *denv) pool() *v1.NodePool {
	np := &v1.NodePool{}
	if err := e.cl.Get(e.ctx, client.ObjectKey{Name: "spool"}, np); err != nil {
		panic(err)
	}
	return np
}

func (e *denv) setSpec(replicas, limit int64) {
	np := e.pool()
	np.Spec.Replicas = &replicas
	if limit == math.MaxInt64 {
		np.Spec.Limits = nil
	} else {
		np.Spec.Limits = v1.Limits(corev1.ResourceList{"nodes": *resource.NewQuantity(limit, resource.DecimalSI)})
	}
	if err := e.cl.Update(e.ctx, np); err != nil {
		panic(err)
	}
	e.replicas, e.limit = replicas, limit
}

// record one step: the Gallina op, a readable op, and the observation after it
var dTiming = map[string]time.Duration{}
var dLast = time.Now()

func (e *denv) step(g, j string) {
	dTiming[strings.SplitN(j, "(", 2)[0]] += time.Since(dLast)
	dLast = time.Now()

	a, d, p := e.cluster.NodePoolState.GetNodeCount("spool")
	res := e.cluster.NodePoolState.VerifC03Dump("spool").Reserved
	api := len(e.claims())
	e.gops = append(e.gops, g)
	e.jops = append(e.jops, j)
	e.gobs = append(e.gobs, fmt.Sprintf("(mkSO %s %s %s %s %s)", kit.GZ(int64(api)), kit.GZ(int64(a)), kit.GZ(int64(d)), kit.GZ(int64(p)), kit.GZ(res)))
	e.jobs = append(e.jobs, fmt.Sprintf("api=%d active=%d deleting=%d pending=%d reserved=%d limit=%d", api, a, d, p, res, e.limit))
}

func (e *denv) opProv(replicas int64, nfail int) {
	e.setSpec(replicas, e.limit)
	np := e.pool()
	byGet := nfail > 0 && e.r.Bool() // Provisioner.Create fails at the NodePool read instead of the API create
	e.mu.Lock()
	if byGet {
		e.nFailGets = nfail
	} else {
		e.nFailCreates = nfail
	}
	e.inReconcile = true
	e.mu.Unlock()
	_, _ = e.provC.Reconcile(e.ctx, np)
	e.mu.Lock()
	used := nfail - e.nFailCreates - e.nFailGets
	e.nFailCreates, e.nFailGets, e.inReconcile = 0, 0, false
	e.mu.Unlock()
	if used > 0 && byGet {
		e.c.Count("D:prov:create-fails-reading-the-nodepool")
	} else if used > 0 {
		e.c.Count("D:prov:create-fails-at-the-api")
	}
	e.adopt()
	e.step(fmt.Sprintf("(DProv %s %d%%nat)", kit.GZ(replicas), used), fmt.Sprintf("ProvisioningReconcile(replicas=%d, failing creates=%d)", replicas, used))
	e.c.Count("D:prov")
}

// the informer delivers the current API object of a claim
func (e *denv) opInfUpd(nc *v1.NodeClaim) {
	del := false
	if nc.Status.ProviderID != "" {
		del = !nc.DeletionTimestamp.IsZero()
		for _, sn := range e.cluster.DeepCopyNodes() {
			if sn.ProviderID() == nc.Status.ProviderID && sn.MarkedForDeletion() {
				del = true
			}
		}
	}
	e.cluster.UpdateNodeClaim(nc)
	e.step(fmt.Sprintf("(DInfUpd %s %s)", gname(e.model[nc.Name]), kit.GBool(del)), fmt.Sprintf("InformerUpdate(#%d)", e.model[nc.Name]))
}

// what the lifecycle controllers do: launch, register, initialize every claim that has not launched yet
func (e *denv) launchAll() {
	for _, nc := range e.claims() {
		if nc.Status.ProviderID != "" || !nc.DeletionTimestamp.IsZero() {
			continue
		}
		it := e.cp.InstanceTypes[0]
		nc.Labels = lo.Assign(nc.Labels, map[string]string{corev1.LabelInstanceTypeStable: it.Name, corev1.LabelTopologyZone: "test-zone-1",
			v1.CapacityTypeLabelKey: "on-demand", v1.NodeRegisteredLabelKey: "true", v1.NodeInitializedLabelKey: "true"})
		nc.Finalizers = []string{v1.TerminationFinalizer}
		if err := e.cl.Update(e.ctx, nc); err != nil {
			panic(err)
		}
		nc.Status.ProviderID = "fake://" + nc.Name
		nc.Status.Capacity, nc.Status.Allocatable = it.Capacity, it.Allocatable()
		nc.Status.NodeName = nc.Name
		if err := e.cl.Status().Update(e.ctx, nc); err != nil {
			panic(err)
		}
		node := test.NodeClaimLinkedNode(nc)
		node.Name, node.Namespace, node.Spec.Taints, node.Finalizers = nc.Name, "", nil, nil
		kit.Apply(e.ctx, e.cl, node)
		fresh := &v1.NodeClaim{}
		if err := e.cl.Get(e.ctx, client.ObjectKeyFromObject(nc), fresh); err != nil {
			panic(err)
		}
		e.opInfUpd(fresh)
		if err := e.cluster.UpdateNode(e.ctx, node); err != nil {
			panic(err)
		}
		if !e.noPods && e.r.Chance(1, 3) { // a workload pod on the node, sometimes one that must not be disrupted
			po := test.Pod(test.PodOptions{ObjectMeta: metav1.ObjectMeta{Name: "pod-" + nc.Name}, NodeName: nc.Name, Phase: corev1.PodRunning})
			if e.r.Chance(1, 2) {
				po.Annotations = map[string]string{v1.DoNotDisruptAnnotationKey: "true"}
			}
			kit.Apply(e.ctx, e.cl, po)
			e.c.Count("D:node-with-pod")
		}
	}
}

func (e *denv) dump() state.VerifC03PoolDump { return e.cluster.NodePoolState.VerifC03Dump("spool") }

func (e *denv) opDisrupt(f int) {
	e.launchAll()
	// some launched, live claims drift
	var live []*v1.NodeClaim
	for _, nc := range e.claims() {
		if nc.DeletionTimestamp.IsZero() {
			live = append(live, nc)
		}
	}
	for _, nc := range live {
		if e.r.Chance(1, 2) {
			nc.StatusConditions().SetTrue(v1.ConditionTypeDrifted)
			if err := e.cl.Status().Update(e.ctx, nc); err != nil {
				panic(err)
			}
			fresh := &v1.NodeClaim{}
			_ = e.cl.Get(e.ctx, client.ObjectKeyFromObject(nc), fresh)
			e.opInfUpd(fresh)
		}
	}
	// the two inputs StaticDrift.ComputeCommands gets from outside this property (C05, C07)
	budgets, err := disruption.BuildDisruptionBudgetMapping(e.ctx, e.cluster, e.clk, e.cl, e.cp, events.NewRecorder(&record.FakeRecorder{}), v1.DisruptionReasonDrifted)
	if err != nil {
		panic(err)
	}
	cands, err := disruption.GetCandidates(e.ctx, e.cluster, e.cl, events.NewRecorder(&record.FakeRecorder{}), e.clk, e.cp, e.drift.ShouldDisrupt, e.drift.Class(), e.queue)
	if err != nil {
		panic(err)
	}
	before := e.dump()
	e.mu.Lock()
	e.started = nil
	e.failTaint, e.failCreates, e.failStatus = f == 1, f == 2, f == 3
	e.mu.Unlock()
	_, _ = e.disrC.Reconcile(e.ctx)
	e.mu.Lock()
	e.failTaint, e.failCreates, e.failStatus = false, false, false
	e.mu.Unlock()
	e.adopt()
	after := e.dump()
	// candidates whose command got as far as markDisrupted
	e.mu.Lock()
	names := lo.Uniq(e.started)
	e.mu.Unlock()
	sort.Strings(names)
	started := lo.Map(names, func(n string, _ int) string { return gname(e.model[n]) })
	if after.Reserved > before.Reserved {
		e.leaked = true
		e.c.Count("D:disrupt:reservation-left-behind")
	}
	fn := []string{"FNone", "FTaint", "FCreate", "FStatus"}[f]
	e.step(fmt.Sprintf("(DDisrupt %s %d%%nat %d%%nat %s %s)", kit.GZ(e.replicas), budgets["spool"], len(cands), fn, kit.GList(started)),
		fmt.Sprintf("DisruptionReconcile(budget=%d, drifted candidates=%d, fault=%s) started=%d", budgets["spool"], len(cands), fn[1:], len(started)))
	e.c.Count("D:disrupt:" + fn[1:])
	if len(started) > 0 {
		e.c.Count("D:disrupt:commands-started")
	}
}

// rank of a claim in the documented scale-down order: unresolved, empty node, node with pods, node with do-not-disrupt pods
func (e *denv) rank(nc *v1.NodeClaim) int {
	if nc.Status.ProviderID == "" {
		return 0
	}
	pods := &corev1.PodList{}
	if err := e.cl.List(e.ctx, pods, client.MatchingFields{"spec.nodeName": nc.Name}); err != nil {
		panic(err)
	}
	r := 1
	for _, p := range pods.Items {
		if r < 2 {
			r = 2
		}
		if p.Annotations[v1.DoNotDisruptAnnotationKey] == "true" {
			r = 3
		}
	}
	return r
}

func (e *denv) opDeprov(replicas int64, nfail int) {
	e.setSpec(replicas, e.limit)
	before := e.dump()
	ranks := map[string]int{}
	for _, nc := range e.claims() {
		if nc.DeletionTimestamp.IsZero() && !lo.Contains(before.Deleting, nc.Name) {
			ranks[nc.Name] = e.rank(nc)
		}
	}
	np := e.pool()
	e.mu.Lock()
	e.nFailDeletes, e.failedDeletes, e.repicked, e.inReconcile = nfail, map[string]bool{}, map[string]bool{}, true
	e.mu.Unlock()
	_, _ = e.deprovC.Reconcile(e.ctx, np)
	e.mu.Lock()
	failed := len(e.failedDeletes)
	// the deprovisioning controller reads its candidates from the cluster state; until the informer has delivered the
	// deletion, a claim it deleted in an earlier pass is picked again and uses up one of the active - replicas slots
	stale := 0
	for n := range e.repicked {
		if lo.Contains(before.Deleting, n) {
			stale++
		}
	}
	e.nFailDeletes, e.failedDeletes, e.repicked, e.inReconcile = 0, map[string]bool{}, map[string]bool{}, false
	e.mu.Unlock()
	if stale > 0 {
		e.c.Count("D:deprov:re-picked-a-terminating-claim(stale cache)")
	}
	after := e.dump()
	var victims, gone, vnames []string
	left := lo.Map(e.claims(), func(nc *v1.NodeClaim, _ int) string { return nc.Name })
	for _, n := range after.Deleting {
		if !lo.Contains(before.Deleting, n) {
			victims = append(victims, gname(e.model[n]))
			vnames = append(vnames, n)
			if !lo.Contains(left, n) { // no finalizer: the object is gone; its delete event follows
				e.cluster.DeleteNodeClaim(n)
				gone = append(gone, gname(e.model[n]))
			}
		}
	}
	// scale-down order (only when nothing failed): no survivor ranks strictly before a victim
	if failed == 0 && stale == 0 {
		worst := -1
		for _, v := range vnames {
			if rk, ok := ranks[v]; ok && rk > worst {
				worst = rk
			}
		}
		for n, rk := range ranks {
			if !lo.Contains(vnames, n) && rk < worst {
				e.orderViolation = fmt.Sprintf("deprovisioning deleted a claim of rank %d while %s of rank %d survived (0 unresolved, 1 empty, 2 pods, 3 do-not-disrupt pods)", worst, n, rk)
			}
		}
		if worst >= 2 {
			e.c.Count("D:deprov:deleted-a-node-with-pods")
		}
	}
	e.step(fmt.Sprintf("(DDeprov %s %s %s %d%%nat)", kit.GZ(replicas), kit.GList(victims), kit.GList(gone), failed+stale),
		fmt.Sprintf("DeprovisioningReconcile(replicas=%d, failing deletes=%d, re-picked terminating=%d) deleted=%d", replicas, failed, stale, len(victims)))
	switch {
	case failed > 0:
		e.c.Count("D:deprov:delete-failed")
	case len(victims) > 0:
		e.c.Count("D:deprov:scaled-down")
	default:
		e.c.Count("D:deprov:nothing")
	}
}

// two actors at the node-limit boundary: a provisioning reconcile that wants exactly one more NodeClaim, and - while its
// kubeClient.Create is in flight, i.e. after ReserveNodeCount and before the claim counts as active - a complete
// disruption pass (StaticDrift.ComputeCommands + Queue.StartCommand + the replacement's CreateNodeClaims)
func (e *denv) opInterleave() bool {
	e.launchAll()
	a, _, p := e.cluster.NodePoolState.GetNodeCount("spool")
	if a == 0 || p != 0 || !e.cluster.HasSynced() {
		return false
	}
	if e.limit != int64(a)+1 && e.r.Bool() { // put the pool at the boundary: one slot left
		e.opLimit(int64(a) + 1)
	}
	for _, nc := range e.claims() {
		if nc.DeletionTimestamp.IsZero() && !nc.StatusConditions().Get(v1.ConditionTypeDrifted).IsTrue() {
			nc.StatusConditions().SetTrue(v1.ConditionTypeDrifted)
			if err := e.cl.Status().Update(e.ctx, nc); err != nil {
				panic(err)
			}
			fresh := &v1.NodeClaim{}
			_ = e.cl.Get(e.ctx, client.ObjectKeyFromObject(nc), fresh)
			e.opInfUpd(fresh)
		}
	}
	replicas := int64(a) + 1
	e.setSpec(replicas, e.limit)
	ran, budget, ncands := false, 0, 0
	e.mu.Lock()
	e.started = nil
	e.hook = func() {
		ran = true
		rec := events.NewRecorder(&record.FakeRecorder{})
		budgets, err := disruption.BuildDisruptionBudgetMapping(e.ctx, e.cluster, e.clk, e.cl, e.cp, rec, v1.DisruptionReasonDrifted)
		if err != nil {
			panic(err)
		}
		cands, err := disruption.GetCandidates(e.ctx, e.cluster, e.cl, rec, e.clk, e.cp, e.drift.ShouldDisrupt, e.drift.Class(), e.queue)
		if err != nil {
			panic(err)
		}
		budget, ncands = budgets["spool"], len(cands)
		_, _ = e.disrC.Reconcile(e.ctx)
	}
	e.mu.Unlock()
	_, _ = e.provC.Reconcile(e.ctx, e.pool())
	e.mu.Lock()
	e.hook = nil
	names := lo.Uniq(e.started)
	e.mu.Unlock()
	e.adopt()
	sort.Strings(names)
	started := lo.Map(names, func(n string, _ int) string { return gname(e.model[n]) })
	e.step(fmt.Sprintf("(DInterleave %s %s %d%%nat %d%%nat %s)", kit.GZ(replicas), kit.GBool(ran), budget, ncands, kit.GList(started)),
		fmt.Sprintf("ProvisioningReconcile(replicas=%d) with DisruptionReconcile(budget=%d, drifted candidates=%d) inside its NodeClaim Create: ran=%v started=%d",
			replicas, budget, ncands, ran, len(started)))
	switch {
	case !ran:
		e.c.Count("D:interleave:no-slot-granted")
	case int64(a)+1 == e.limit:
		e.c.Count("D:interleave:at-the-node-limit-boundary")
	default:
		e.c.Count("D:interleave:below-the-boundary")
	}
	if len(started) > 0 {
		e.c.Count("D:interleave:second-actor-started-a-command")
	}
	return true
}

// reconciles that must not act: the NodePool passed in is not ready / being deleted / not managed / not static
func (e *denv) opSkip(kind int) {
	np := e.pool()
	n := int64(len(e.claims()))
	up, down := n+2, int64(0)
	switch kind {
	case 0:
		np.StatusConditions().SetFalse(v1.ConditionTypeValidationSucceeded, "Invalid", "invalid")
	case 1:
		np.DeletionTimestamp = &metav1.Time{Time: e.clk.Now()}
	case 2:
		np.Spec.Template.Spec.NodeClassRef.Group = "unmanaged.example.com"
	}
	np.Spec.Replicas = &up
	_, _ = e.provC.Reconcile(e.ctx, np)
	if kind != 0 { // deprovisioning does not look at readiness
		np.Spec.Replicas = &down
		_, _ = e.deprovC.Reconcile(e.ctx, np)
	}
	e.adopt()
	e.step("DSkip", []string{"Reconciles(NodePool not ready)", "Reconciles(NodePool deleting)", "Reconciles(NodePool not managed)"}[kind])
	e.c.Count("D:skip:" + []string{"nodepool-not-ready", "nodepool-deleting", "nodepool-not-managed"}[kind])
}

// the disruption controller while a NodeClaim has not launched: Cluster.Synced() is false, nothing may happen
func (e *denv) opDisruptUnsynced() bool {
	if !lo.ContainsBy(e.claims(), func(nc *v1.NodeClaim) bool { return nc.Status.ProviderID == "" }) || !e.cluster.HasSynced() {
		return false
	}
	for _, nc := range e.claims() { // every launched, live claim has drifted: there would be work to do
		if nc.Status.ProviderID != "" && nc.DeletionTimestamp.IsZero() && !nc.StatusConditions().Get(v1.ConditionTypeDrifted).IsTrue() {
			nc.StatusConditions().SetTrue(v1.ConditionTypeDrifted)
			if err := e.cl.Status().Update(e.ctx, nc); err != nil {
				panic(err)
			}
			fresh := &v1.NodeClaim{}
			_ = e.cl.Get(e.ctx, client.ObjectKeyFromObject(nc), fresh)
			e.opInfUpd(fresh)
		}
	}
	_, _ = e.disrC.Reconcile(e.ctx)
	e.adopt()
	e.step("DSkip", "DisruptionReconcile(an unlaunched NodeClaim exists)")
	e.c.Count("D:skip:disruption-not-synced")
	return true
}

// the termination path: the claim (and its node) leaves the API, the delete events arrive
func (e *denv) opFinalize(nc *v1.NodeClaim) {
	name := nc.Name
	if len(nc.Finalizers) > 0 {
		nc.Finalizers = nil
		if err := e.cl.Update(e.ctx, nc); err != nil {
			panic(err)
		}
	}
	if err := e.cl.Delete(e.ctx, nc); client.IgnoreNotFound(err) != nil {
		panic(err)
	}
	po := &corev1.Pod{}
	if e.cl.Get(e.ctx, client.ObjectKey{Namespace: "default", Name: "pod-" + name}, po) == nil {
		_ = e.cl.Delete(e.ctx, po)
	}
	node := &corev1.Node{}
	if e.cl.Get(e.ctx, client.ObjectKey{Name: name}, node) == nil {
		if err := e.cl.Delete(e.ctx, node); err != nil {
			panic(err)
		}
		e.cluster.DeleteNode(name)
	}
	e.cluster.DeleteNodeClaim(name)
	e.step(fmt.Sprintf("(DFinalize %s)", gname(e.model[name])), fmt.Sprintf("Finalize(#%d)", e.model[name]))
	e.c.Count("D:finalize")
}

func (e *denv) opLimit(l int64) {
	e.setSpec(e.replicas, l)
	e.step(fmt.Sprintf("(DLimit %s)", kit.GZ(l)), fmt.Sprintf("SetNodeLimit(%d)", l))
	e.c.Count("D:limit-change")
}

func (e *denv) opRestart() {
	unlaunched := lo.ContainsBy(e.claims(), func(nc *v1.NodeClaim) bool { return nc.Status.ProviderID == "" })
	e.boot()
	var replay []string
	nodes := &corev1.NodeList{}
	_ = e.cl.List(e.ctx, nodes)
	for i := range nodes.Items {
		if err := e.cluster.UpdateNode(e.ctx, &nodes.Items[i]); err != nil {
			panic(err)
		}
	}
	all := e.claims()
	first := len(all)
	if len(all) > 0 && !unlaunched && e.r.Chance(1, 2) { // the informer has delivered only some of the claims so far
		first = e.r.Intn(len(all))
	}
	for _, nc := range all[:first] {
		e.cluster.UpdateNodeClaim(nc)
		del := nc.Status.ProviderID != "" && !nc.DeletionTimestamp.IsZero()
		replay = append(replay, kit.GPair(gname(e.model[nc.Name]), kit.GBool(del)))
	}
	e.step(fmt.Sprintf("(DRestart %s)", kit.GList(replay)), fmt.Sprintf("Restart(replayed %d of %d claims)", first, len(all)))
	e.c.Count("D:restart")
	switch {
	case first < len(all):
		// not synced: a provisioning reconcile that would scale up must wait (the model's gate is closed as well)
		e.opProv(int64(len(all))+1, 0)
		e.c.Count("D:restart:reconcile-before-replay-complete")
		for _, nc := range all[first:] {
			e.opInfUpd(nc)
		}
	case unlaunched:
		// everything replayed, but an unlaunched claim keeps Cluster.Synced() false
		np := e.pool()
		up := int64(len(all)) + 1
		np.Spec.Replicas = &up
		_, _ = e.provC.Reconcile(e.ctx, np)
		e.adopt()
		e.step("DSkip", "ProvisioningReconcile(restarted, an unlaunched NodeClaim exists)")
		e.c.Count("D:skip:first-sync-with-unlaunched-claim")
		e.launchAll() // the model has no notion of "launched": from here on both sides are synced
	}
}

// claims the NodePoolState or the API consider on their way out
func (e *denv) leaving() []*v1.NodeClaim {
	d := e.dump()
	return lo.Filter(e.claims(), func(nc *v1.NodeClaim, _ int) bool {
		return !nc.DeletionTimestamp.IsZero() || lo.Contains(d.Deleting, nc.Name)
	})
}

func runD(c *kit.Ctx, r *kit.Rand, scripted int) {
	e := newDenv(c, r)
	limit0 := int64(r.Range(1, 5))
	if r.Chance(1, 8) {
		limit0 = math.MaxInt64
	}
	if scripted == 1 || scripted == 3 {
		limit0 = 3
	}
	if scripted == 2 {
		limit0 = 4
	}
	e.limit = limit0
	budget := kit.Pick(r, []string{"100%", "100%", "100%", "1", "0"})
	if scripted > 0 {
		budget = "100%"
	}
	c.Count("D:budget:" + budget)
	np := test.StaticNodePool(v1.NodePool{ObjectMeta: metav1.ObjectMeta{Name: "spool"}, Spec: v1.NodePoolSpec{Replicas: new(int64),
		Disruption: v1.Disruption{Budgets: []v1.Budget{{Nodes: budget}}}}})
	if limit0 != math.MaxInt64 {
		np.Spec.Limits = v1.Limits(corev1.ResourceList{"nodes": *resource.NewQuantity(limit0, resource.DecimalSI)})
	}
	kit.Apply(e.ctx, e.cl, np)

	if scripted == 1 {
		// the history behind the reservation-leak suspicion: 2 nodes, limit 3; the taint of a drift candidate fails once;
		// then the user asks for 3 replicas, which the limit allows
		e.opProv(2, 0)
		e.opDisrupt(1)
		e.opProv(3, 0)
	} else if scripted == 3 {
		e.noPods = true
		// the boundary: limits.nodes=3, two active drifted nodes; the provisioning controller takes the last slot and the
		// disruption controller runs while that NodeClaim is being created
		e.opProv(2, 0)
		if !e.opInterleave() {
			panic("harness: scripted interleaving history did not apply")
		}
	} else if scripted == 2 {
		// headroom, drifted launched nodes and one NodeClaim that has not launched: the disruption controller must wait
		e.opProv(2, 0)
		e.launchAll()
		e.opProv(3, 0)
		if !e.opDisruptUnsynced() {
			panic("harness: scripted unsynced-disruption history did not apply")
		}
	} else {
		n := r.Range(3, 8)
		for i := 0; i < n; i++ {
			cl := e.claims()
			switch k := r.Intn(14); {
			case k <= 2:
				nfail := 0
				if r.Chance(1, 4) {
					nfail = 1
				}
				e.opProv(int64(r.Range(0, 5)), nfail)
			case (k <= 5 || k == 12) && len(cl) > 0:
				if !(r.Chance(1, 4) && e.opDisruptUnsynced()) {
					e.opDisrupt(kit.Pick(r, []int{0, 0, 0, 1, 2, 3}))
				}
			case k <= 7:
				nfail := 0
				if r.Chance(1, 4) {
					nfail = 1
				}
				e.opDeprov(int64(r.Range(0, 4)), nfail)
			case k == 11 && r.Chance(1, 2):
				e.opSkip(r.Intn(3))
			case k == 11 || k == 13:
				if !e.opInterleave() {
					e.opProv(int64(r.Range(0, 5)), 0)
				}
			case k == 8 && len(e.leaving()) > 0:
				e.opFinalize(kit.Pick(r, e.leaving()))
			case k == 9 && e.limit != math.MaxInt64:
				e.opLimit(int64(r.Range(0, 5)))
			case k == 10:
				if r.Chance(2, 3) {
					e.launchAll()
				}
				e.opRestart()
			default:
				if len(cl) > 0 {
					e.opInfUpd(kit.Pick(r, cl))
				} else {
					e.opProv(int64(r.Range(1, 4)), 0)
				}
			}
		}
	}
	// settle: no more faults, no more spec changes; the informers resync, leaving claims terminate, the controllers run
	replicas := e.replicas
	for round := 0; round < 3; round++ {
		e.launchAll()
		for _, nc := range e.claims() {
			e.opInfUpd(nc)
		}
		for _, nc := range e.leaving() {
			e.opFinalize(nc)
		}
		e.opProv(replicas, 0)
		e.launchAll()
		e.opDeprov(replicas, 0)
		for _, nc := range e.leaving() {
			e.opFinalize(nc)
		}
	}
	final := len(e.claims())
	kf := ""
	settled := replicas > e.limit || int64(final) == replicas
	switch {
	case settled:
		c.Count("D:settled")
	case e.leaked:
		kf = kfLeak
		c.Count("D:NOT-settled(reservation left behind by a failed disruption command)")
	default:
		c.Count("D:NOT-SETTLED-other")
	}
	if e.orderViolation != "" {
		c.Fail(c.NextID(), e.orderViolation, "", map[string]interface{}{"kind": "static-protocol", "ops": e.jops})
	}
	g := fmt.Sprintf("CaseD %s %s %s (Some (%s, %s, %s))", kit.GZ(limit0), kit.GList(e.gops), kit.GList(e.gobs), kit.GZ(replicas), kit.GZ(e.limit), kit.GZ(int64(final)))
	c.AddCase(g, map[string]interface{}{"kind": "static-protocol", "kf_key": kf, "node_limit": limit0, "ops": e.jops, "obs": e.jobs,
		"settle": map[string]int64{"replicas": replicas, "limit": e.limit, "nodeclaims": int64(final)}}, "D:"+strings.Join(e.jops, ";"))
}

func partD(c *kit.Ctx) int {
	n := 60
	if c.Thorough() {
		n = 800
	}
	dLast = time.Now()
	runD(c, c.Rand.Fork(), 1)
	runD(c, c.Rand.Fork(), 2)
	runD(c, c.Rand.Fork(), 3)
	for i := 0; i < n; i++ {
		runD(c, c.Rand.Fork(), 0)
	}
	if os.Getenv("C03_TIMING") != "" {
		fmt.Fprintln(os.Stderr, dTiming)
	}
	return n
}
