// Package c03 drives the real NodePoolState (static pool accounting), the real limit arithmetic
// (filterByRemainingResources, subtractMax, Limits.ExceededBy, resources.Subtract) and the real
// Scheduler (one pass per case, adversarial launch choice) and writes what they did as Gallina cases.
package main

import (
	"fmt"
	"math"
	"os"
	"strings"

	corev1 "k8s.io/api/core/v1"
	metav1 "k8s.io/apimachinery/pkg/apis/meta/v1"

	v1 "sigs.k8s.io/karpenter/pkg/apis/v1"
	"sigs.k8s.io/karpenter/pkg/controllers/state"

	"verifharness/kit"
)

// ------------------------------------------------------------------ part A: NodePoolState

var poolNames = []string{"", "a", "b"}
var claimNames = []string{"", "x", "y", "z"}

const (
	kSetMapping = iota
	kMark
	kCleanup
	kReserve
	kRelease
	kUpdate
	kReset
)

var markNames = []string{"KActive", "KDeleting", "KPending"}

type aop struct {
	Kind     int
	NP, NC   int
	K        int
	Del      bool
	Limit, W int64
}

func gname(i int) string { return fmt.Sprintf("%d%%nat", i) }

func (o aop) gallina() string {
	switch o.Kind {
	case kSetMapping:
		return fmt.Sprintf("(OSetMapping %s %s)", gname(o.NP), gname(o.NC))
	case kMark:
		return fmt.Sprintf("(OMark %s %s %s)", markNames[o.K], gname(o.NP), gname(o.NC))
	case kCleanup:
		return fmt.Sprintf("(OCleanup %s)", gname(o.NC))
	case kReserve:
		return fmt.Sprintf("(OReserve %s %s %s)", gname(o.NP), kit.GZ(o.Limit), kit.GZ(o.W))
	case kRelease:
		return fmt.Sprintf("(ORelease %s %s)", gname(o.NP), kit.GZ(o.W))
	case kUpdate:
		return fmt.Sprintf("(OUpdate %s %s %s)", gname(o.NP), gname(o.NC), kit.GBool(o.Del))
	}
	return "OReset"
}

func (o aop) String() string {
	np, nc := "'"+poolNames[o.NP]+"'", "'"+claimNames[o.NC]+"'"
	switch o.Kind {
	case kSetMapping:
		return "SetNodeClaimMapping(" + np + "," + nc + ")"
	case kMark:
		return []string{"MarkNodeClaimActive", "MarkNodeClaimDeleting", "MarkNodeClaimPendingDisruption"}[o.K] + "(" + np + "," + nc + ")"
	case kCleanup:
		return "Cleanup(" + nc + ")"
	case kReserve:
		return fmt.Sprintf("ReserveNodeCount(%s,%d,%d)", np, o.Limit, o.W)
	case kRelease:
		return fmt.Sprintf("ReleaseNodeCount(%s,%d)", np, o.W)
	case kUpdate:
		return fmt.Sprintf("UpdateNodeClaim(label=%s,%s,del=%v)", np, nc, o.Del)
	}
	return "Reset()"
}

type adump struct {
	pools []state.VerifC03PoolDump
	maps  []string // "" = unmapped, else pool index as string
}

func dumpState(s *state.NodePoolState) adump {
	d := adump{}
	for _, p := range poolNames {
		d.pools = append(d.pools, s.VerifC03Dump(p))
	}
	for _, c := range claimNames {
		if p, ok := s.VerifC03Mapping(c); ok {
			d.maps = append(d.maps, p)
		} else {
			d.maps = append(d.maps, "\x00")
		}
	}
	return d
}

func idx(names []string, n string) int {
	for i, x := range names {
		if x == n {
			return i
		}
	}
	panic("name outside the universe: " + n)
}

func gnames(xs []string) string {
	return kit.GListOf(xs, func(s string) string { return gname(idx(claimNames, s)) })
}

func (d adump) gallina(panicked bool, out int64) string {
	ps := kit.GListOf(d.pools, func(p state.VerifC03PoolDump) string {
		return fmt.Sprintf("(mkD %s %s %s %s %s %s)", kit.GBool(p.HasState), gnames(p.Active), gnames(p.Deleting), gnames(p.PendingDisruption), kit.GBool(p.HasLimit), kit.GZ(p.Reserved))
	})
	ms := kit.GListOf(d.maps, func(m string) string {
		if m == "\x00" {
			return "None"
		}
		return "(Some " + gname(idx(poolNames, m)) + ")"
	})
	return fmt.Sprintf("(mkO %s %s %s %s)", kit.GBool(panicked), kit.GZ(out), ps, ms)
}

func (d adump) short() string {
	var b []string
	for i, p := range d.pools {
		if !p.HasState && !p.HasLimit {
			continue
		}
		b = append(b, fmt.Sprintf("%s:{A%v D%v P%v r=%d st=%v lim=%v}", poolNames[i], p.Active, p.Deleting, p.PendingDisruption, p.Reserved, p.HasState, p.HasLimit))
	}
	return strings.Join(b, " ")
}

func apply(s *state.NodePoolState, o aop) (out int64) {
	np, nc := poolNames[o.NP], claimNames[o.NC]
	switch o.Kind {
	case kSetMapping:
		s.SetNodeClaimMapping(np, nc)
	case kMark:
		switch o.K {
		case 0:
			s.MarkNodeClaimActive(np, nc)
		case 1:
			s.MarkNodeClaimDeleting(np, nc)
		case 2:
			s.MarkNodeClaimPendingDisruption(np, nc)
		}
	case kCleanup:
		s.Cleanup(nc)
	case kReserve:
		out = s.ReserveNodeCount(np, o.Limit, o.W)
	case kRelease:
		s.ReleaseNodeCount(np, o.W)
	case kUpdate:
		claim := &v1.NodeClaim{ObjectMeta: metav1.ObjectMeta{Name: nc, Labels: map[string]string{}}}
		if np != "" {
			claim.Labels[v1.NodePoolLabelKey] = np
		}
		s.UpdateNodeClaim(claim, o.Del)
	case kReset:
		s.Reset()
	}
	return
}

type acase struct {
	Kind string   `json:"kind"`
	Ops  []string `json:"ops"`
	Obs  []string `json:"obs"`
}

// branch buckets of the modelled code, derived from the state before/after
func countBranches(c *kit.Ctx, o aop, before, after adump, out int64) {
	pb, pa := before.pools[o.NP], after.pools[o.NP]
	switch o.Kind {
	case kSetMapping:
		if o.NP == 0 || o.NC == 0 {
			c.Count("A:setmapping:ignored-empty-name")
		} else {
			c.Count("A:setmapping:set")
		}
	case kMark:
		if pb.HasState {
			c.Count("A:mark:entry-exists")
		} else {
			c.Count("A:mark:entry-created")
		}
	case kUpdate:
		if o.NP == 0 {
			c.Count("A:update:no-label")
		} else if o.Del {
			c.Count("A:update:deleting")
		} else {
			c.Count("A:update:active")
		}
	case kCleanup:
		m := before.maps[o.NC]
		pi := 0
		if m == "\x00" {
			c.Count("A:cleanup:unmapped")
		} else {
			pi = idx(poolNames, m)
		}
		b, a := before.pools[pi], after.pools[pi]
		switch {
		case !b.HasState:
			c.Count("A:cleanup:no-pool-entry")
		case !a.HasState:
			c.Count("A:cleanup:entry-dropped")
		case len(a.Active)+len(a.Deleting) > 0:
			c.Count("A:cleanup:kept-active-or-deleting")
		case len(a.PendingDisruption) > 0:
			c.Count("A:cleanup:kept-only-pending(F5)")
		default:
			c.Count("A:cleanup:kept-only-reserved(F4)")
		}
	case kReserve:
		cnt := int64(len(pb.Active) + len(pb.Deleting) + len(pb.PendingDisruption))
		rem := o.Limit - cnt - pb.Reserved
		switch {
		case rem < 0:
			c.Count("A:reserve:remaining<0")
		case o.W > rem:
			c.Count("A:reserve:clamped-to-remaining")
		default:
			c.Count("A:reserve:granted-wanted")
		}
		if !pb.HasLimit {
			c.Count("A:reserve:entry-created")
		}
	case kRelease:
		switch {
		case !pb.HasLimit:
			c.Count("A:release:entry-created(F4)")
		case pb.Reserved-o.W < 0:
			c.Count("A:release:clamped-to-0")
		default:
			c.Count("A:release:normal")
		}
	case kReset:
		c.Count("A:reset")
	}
	_ = pa
	_ = out
}

func runA(c *kit.Ctx, ops []aop) {
	s := state.NewNodePoolState()
	var gops, gobs, jops, jobs []string
	before := dumpState(s)
	interesting := 0
	for _, o := range ops {
		var out int64
		panicked, msg := kit.Recover(func() { out = apply(s, o) })
		after := dumpState(s)
		gops = append(gops, o.gallina())
		gobs = append(gobs, after.gallina(panicked, out))
		jops = append(jops, o.String())
		if panicked {
			jobs = append(jobs, "PANIC "+msg)
			c.Count("A:panic")
			break
		}
		jobs = append(jobs, fmt.Sprintf("out=%d %s", out, after.short()))
		countBranches(c, o, before, after, out)
		if o.Kind == kReserve || o.Kind == kRelease || o.Kind == kCleanup {
			interesting++
		}
		before = after
	}
	key := ""
	if interesting >= 2 {
		key = "A:" + strings.Join(jops, ";")
	}
	g := fmt.Sprintf("CaseA true %s %s %s %s",
		kit.GListOf([]int{0, 1, 2}, gname), kit.GListOf([]int{0, 1, 2, 3}, gname), kit.GList(gops), kit.GList(gobs))
	c.AddCase(g, acase{"nodepoolstate", jops, jobs}, key)
}

// the reduced alphabet of the exhaustive part: one pool, two claims, every method, the
// reservation protocol at a tight limit, plus one cross-pool update
func smallAlphabet() []aop {
	return []aop{
		{Kind: kUpdate, NP: 1, NC: 1},
		{Kind: kUpdate, NP: 1, NC: 2},
		{Kind: kUpdate, NP: 1, NC: 1, Del: true},
		{Kind: kMark, K: 2, NP: 1, NC: 1},
		{Kind: kMark, K: 1, NP: 1, NC: 2},
		{Kind: kMark, K: 0, NP: 1, NC: 1},
		{Kind: kCleanup, NC: 1},
		{Kind: kCleanup, NC: 2},
		{Kind: kReserve, NP: 1, Limit: 2, W: 1},
		{Kind: kReserve, NP: 1, Limit: 3, W: 2},
		{Kind: kReserve, NP: 1, Limit: math.MaxInt64, W: 2},
		{Kind: kRelease, NP: 1, W: 1},
		{Kind: kUpdate, NP: 2, NC: 1},
		{Kind: kMark, K: 2, NP: 2, NC: 2},
	}
}

func randomOp(r *kit.Rand, wild bool) aop {
	np, nc := r.Intn(3), r.Intn(4)
	if r.Chance(5, 6) { // mostly the two real pools / real claims
		np, nc = 1+r.Intn(2), 1+r.Intn(3)
	}
	limits := []int64{0, 1, 2, 3, 4, 6, math.MaxInt64}
	if wild {
		limits = []int64{-1, 0, 1, 2, 3, 4, 6}
	}
	switch r.Intn(16) {
	case 0:
		return aop{Kind: kSetMapping, NP: np, NC: nc}
	case 1, 2, 3:
		return aop{Kind: kMark, K: r.Intn(3), NP: np, NC: nc}
	case 4, 5, 6:
		return aop{Kind: kCleanup, NC: nc}
	case 7, 8, 9:
		w := int64(r.Intn(4))
		if wild && r.Chance(1, 4) {
			w = -int64(1 + r.Intn(2))
		}
		return aop{Kind: kReserve, NP: np, Limit: kit.Pick(r, limits), W: w}
	case 10, 11:
		w := int64(1)
		if r.Chance(1, 4) {
			w = int64(r.Intn(4))
		}
		if wild && r.Chance(1, 4) {
			w = -1
		}
		return aop{Kind: kRelease, NP: np, W: w}
	case 12, 13, 14:
		return aop{Kind: kUpdate, NP: np, NC: nc, Del: r.Chance(1, 3)}
	}
	if r.Chance(1, 4) {
		return aop{Kind: kReset}
	}
	return aop{Kind: kUpdate, NP: np, NC: nc}
}

// protocol-shaped random history: reservations, creations, releases, disruption marks, deletions
func protocolSeq(r *kit.Rand, n int) []aop {
	var ops []aop
	limit := int64(1 + r.Intn(4))
	if r.Chance(1, 5) {
		limit = math.MaxInt64
	}
	for len(ops) < n {
		np := 1 + r.Intn(2)
		nc := 1 + r.Intn(3)
		switch r.Intn(8) {
		case 0, 1:
			ops = append(ops, aop{Kind: kReserve, NP: np, Limit: limit, W: int64(1 + r.Intn(3))})
		case 2:
			ops = append(ops, aop{Kind: kUpdate, NP: np, NC: nc}, aop{Kind: kRelease, NP: np, W: 1})
		case 3:
			ops = append(ops, aop{Kind: kRelease, NP: np, W: 1})
		case 4:
			ops = append(ops, aop{Kind: kMark, K: 2, NP: np, NC: nc})
		case 5:
			ops = append(ops, aop{Kind: kUpdate, NP: np, NC: nc, Del: true})
		case 6, 7:
			ops = append(ops, aop{Kind: kCleanup, NC: nc})
		}
	}
	return ops
}

func enumerate(alphabet, length int, f func([]int)) {
	seq := make([]int, length)
	var rec func(int)
	rec = func(i int) {
		if i == length {
			f(append([]int(nil), seq...))
			return
		}
		for a := 0; a < alphabet; a++ {
			seq[i] = a
			rec(i + 1)
		}
	}
	rec(0)
}

func partA(c *kit.Ctx) (depth, nRand int) {
	depth, nRand = 3, 300
	if c.Thorough() {
		depth, nRand = 4, 6000
	}
	// corpus first: the histories of F4 and F5 (fixed by 644f10eaa)
	runA(c, []aop{{Kind: kReserve, NP: 1, Limit: 5, W: 2}, {Kind: kUpdate, NP: 1, NC: 1}, {Kind: kCleanup, NC: 1}, {Kind: kRelease, NP: 1, W: 1}})
	runA(c, []aop{{Kind: kUpdate, NP: 1, NC: 1}, {Kind: kUpdate, NP: 1, NC: 2}, {Kind: kMark, K: 2, NP: 1, NC: 1}, {Kind: kCleanup, NC: 2},
		{Kind: kReserve, NP: 1, Limit: 1, W: 1}})
	al := smallAlphabet()
	enumerate(len(al), depth, func(s []int) {
		ops := make([]aop, len(s))
		for i, a := range s {
			ops[i] = al[a]
		}
		runA(c, ops)
	})
	for i := 0; i < nRand; i++ {
		r := c.Rand.Fork()
		n := r.Range(5, 14)
		var ops []aop
		switch i % 3 {
		case 0:
			ops = protocolSeq(r, n)
		case 1:
			for j := 0; j < n; j++ {
				ops = append(ops, randomOp(r, false))
			}
		default:
			for j := 0; j < n; j++ {
				ops = append(ops, randomOp(r, true))
			}
		}
		runA(c, ops)
	}
	return
}

// ------------------------------------------------------------------ shared emitters for part B

func milli(rl corev1.ResourceList) map[string]int64 {
	out := map[string]int64{}
	for k, v := range rl {
		out[string(k)] = v.MilliValue()
	}
	return out
}

func gRL(rl corev1.ResourceList) string {
	m := milli(rl)
	ks := kit.SortedKeys(m)
	return kit.GListOf(ks, func(k string) string { return kit.GPair(kit.GStr(k), kit.GZ(m[k])) })
}

func main() {
	if len(os.Args) > 1 && os.Args[1] == "probe" {
		probe()
		return
	}
	c := kit.Parse("C03", os.Args[1:])
	depth, nRandA := partA(c)
	nL := partL(c)
	nP := partP(c)
	nS := partS(c)
	nD := partD(c)
	c.Meta.Rule = fmt.Sprintf("A: all sequences of length %d over a 14-call alphabet of NodePoolState methods (1 pool, 2 claims, tight and unlimited node limits, one cross-pool call) plus %d random histories of 5-14 calls over 3 pools x 4 claim names incl. the empty names (protocol-shaped / uniform / with negative arguments), full state compared after every call; "+
		"L: %d random boundary-seeking inputs each for filterByRemainingResources, subtractMax, Limits.ExceededBy, resources.Subtract; "+
		"P: %d real Scheduler.Solve passes (one limited pool, random limits/catalog/pod batch, existing nodes of the pool in 8 lifecycle states (in-flight, ready, disrupted-tainted, cordoned, not-ready, uninitialized, marked for deletion, deleting) after a MarkForDeletion / out-of-band removal / UnmarkForDeletion history on the real Cluster (untracked ids in every list position; compared with C03.Model.mrun), with usage recomputed from the API objects, anti-affine and plain batches) with a random or worst-case launch choice per NodeClaim. "+
		"S: %d random histories of 3-9 steps on the real static provisioning controller + Provisioner.CreateNodeClaims + Cluster over a fake API (replica changes, failing creates, disruption marks, deletions, informer updates). "+
		"D: %d random histories on the real static provisioning + deprovisioning controllers and the real disruption Controller (StaticDrift only) with Queue.StartCommand: replica and node-limit changes, failing creates, a failing candidate taint, drift, terminations, informer updates, restarts; then 3 fault-free settle rounds. "+
		"non-trivial = at least two reserve/release/cleanup calls (A), a pass that created a NodeClaim (P), a history that created a NodeClaim (S); distinct by call sequence / input", depth, nRandA, nL, nP, nS, nD)
	c.Meta.Exhaustive = true
	c.Meta.Corr = []string{
		"state.NodePoolState.{SetNodeClaimMapping,MarkNodeClaim*,Cleanup,ReserveNodeCount,ReleaseNodeCount,UpdateNodeClaim,Reset} = C03.Model.step (full state after every call)",
		"scheduling.filterByRemainingResources = C03.Model.filter_by_remaining/viable",
		"scheduling.subtractMax = C03.Model.subtract_max",
		"v1.Limits.ExceededBy = C03.Model.exceeded_by",
		"resources.Subtract = C03.Model.subtract",
		"Scheduler.Solve remainingResources bookkeeping (NewScheduler, updateRemainingResources, addToNewNodeClaim) = C03.Model.run_pass on remaining0",
		"state.Cluster.{MarkForDeletion,UnmarkForDeletion,DeleteNode,DeleteNodeClaim} marking of tracked nodes = C03.Model.mrun",
		"static/deprovisioning Controller.Reconcile = C03.Model.sstep DeprovMark; disruption Controller.Reconcile (StaticDrift.ComputeCommands + Queue.StartCommand) = DriftBegin + SMark/TkCreate/TkUpdate/TkRelease; process restart + informer replay = Restart + InfUpdate",
		"static/provisioning Controller.Reconcile + Provisioner.CreateNodeClaims/Create + Cluster.UpdateNodeClaim/DeleteNodeClaim = C03.Model.sstep (ProvBegin, TkCreate, TkUpdate, TkRelease, SMark, ApiRemove, InfDelete, InfUpdate)",
	}
	c.Meta.Extra = map[string]interface{}{"assumptions": []string{
		"int64 arithmetic of ReserveNodeCount/ReleaseNodeCount is modelled without wrap-around (call sites pass node and replica counts)",
		"interleavings are sequences of mutex-protected NodePoolState method calls and single API writes",
		"launch choice: the provider launches one of the NodeClaim's instance type options with one of its available offerings",
	}}
	c.Finish("From KV Require Import C03.Model C03.Check.", "case", "check_all", 1200)
}
