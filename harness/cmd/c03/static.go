package main

import (
	"context"
	"fmt"
	"math"
	"sort"
	"strings"
	"sync"
	"time"

	corev1 "k8s.io/api/core/v1"
	"k8s.io/apimachinery/pkg/api/resource"
	metav1 "k8s.io/apimachinery/pkg/apis/meta/v1"
	"k8s.io/client-go/tools/record"
	clock "k8s.io/utils/clock/testing"
	"sigs.k8s.io/controller-runtime/pkg/client"
	"sigs.k8s.io/controller-runtime/pkg/client/interceptor"

	v1 "sigs.k8s.io/karpenter/pkg/apis/v1"
	"sigs.k8s.io/karpenter/pkg/cloudprovider/fake"
	"sigs.k8s.io/karpenter/pkg/controllers/dynamicresources/deviceallocation"
	"sigs.k8s.io/karpenter/pkg/controllers/provisioning"
	"sigs.k8s.io/karpenter/pkg/controllers/state"
	static "sigs.k8s.io/karpenter/pkg/controllers/static/provisioning"
	"sigs.k8s.io/karpenter/pkg/events"
	"sigs.k8s.io/karpenter/pkg/state/virtualpods"
	"sigs.k8s.io/karpenter/pkg/test"

	"verifharness/kit"
)

// ------------------------------------------------------------------ part S: the real static provisioning
// controller + Provisioner.CreateNodeClaims + Cluster on a fake API, against C03.Model.sstep

type scase struct {
	Kind  string   `json:"kind"`
	Limit int64    `json:"node_limit"`
	Ops   []string `json:"ops"`
	Obs   []string `json:"obs"`
}

func runS(c *kit.Ctx, r *kit.Rand) {
	ctx := kit.Context()
	clk := clock.NewFakeClock(time.Unix(1_700_000_000, 0))
	var mu sync.Mutex
	failCreates := 0
	cl := kit.NewClient(interceptor.Funcs{Create: func(ctx context.Context, w client.WithWatch, obj client.Object, opts ...client.CreateOption) error {
		if _, ok := obj.(*v1.NodeClaim); ok {
			mu.Lock()
			fail := failCreates > 0
			if fail {
				failCreates--
			}
			mu.Unlock()
			if fail {
				return fmt.Errorf("injected NodeClaim create failure")
			}
		}
		return w.Create(ctx, obj, opts...)
	}})
	cp := fake.NewCloudProvider()
	cp.InstanceTypes = fake.InstanceTypes(3)
	cluster := state.NewCluster(clk, cl, cp)
	vpc := virtualpods.NewVirtualPodCache(cl)
	prov := provisioning.NewProvisioner(cl, events.NewRecorder(&record.FakeRecorder{}), cp, cluster, clk, deviceallocation.NewController(cl), vpc)
	ctrl := static.NewController(cl, cluster, events.NewRecorder(&record.FakeRecorder{}), cp, prov, clk, deviceallocation.NewController(cl), vpc)

	limit := int64(r.Range(0, 5))
	unlimited := r.Chance(1, 6)
	npSpec := v1.NodePool{ObjectMeta: metav1.ObjectMeta{Name: "spool"}, Spec: v1.NodePoolSpec{Replicas: new(int64)}}
	if !unlimited {
		npSpec.Spec.Limits = v1.Limits(corev1.ResourceList{"nodes": *resource.NewQuantity(limit, resource.DecimalSI)})
	} else {
		limit = math.MaxInt64
	}
	np := test.StaticNodePool(npSpec)
	kit.Apply(ctx, cl, np)

	modelName := map[string]int{} // real NodeClaim name -> model name (order of creation)
	next := 1
	live := func() []string {
		l := &v1.NodeClaimList{}
		if err := cl.List(ctx, l); err != nil {
			panic(err)
		}
		var names []string
		for _, nc := range l.Items {
			if nc.Labels[v1.NodePoolLabelKey] == "spool" {
				names = append(names, nc.Name)
			}
		}
		sort.Strings(names)
		return names
	}
	var gops, gobs, jops, jobs []string
	n := r.Range(3, 9)
	maxAPI := 0
	for step := 0; step < n; step++ {
		names := live()
		kind := r.Intn(8)
		if len(names) == 0 && kind >= 4 {
			kind = 0
		}
		switch {
		case kind <= 3: // reconcile with a (possibly changed) replica count, some creates failing
			replicas := int64(r.Range(0, 6))
			nfail := 0
			if r.Chance(1, 4) {
				nfail = r.Range(1, 2)
			}
			cur := &v1.NodePool{}
			if err := cl.Get(ctx, client.ObjectKey{Name: "spool"}, cur); err != nil {
				panic(err)
			}
			cur.Spec.Replicas = &replicas
			if err := cl.Update(ctx, cur); err != nil {
				panic(err)
			}
			mu.Lock()
			failCreates = nfail
			mu.Unlock()
			_, _ = ctrl.Reconcile(ctx, cur)
			mu.Lock()
			used := nfail - failCreates
			failCreates = 0
			mu.Unlock()
			for _, nm := range live() {
				if _, ok := modelName[nm]; !ok {
					modelName[nm] = next
					next++
				}
			}
			// the model is told how many creates actually failed
			gops = append(gops, fmt.Sprintf("(HProv %s %d%%nat)", kit.GZ(replicas), used))
			jops = append(jops, fmt.Sprintf("Reconcile(replicas=%d, failing creates=%d)", replicas, used))
			if used > 0 {
				c.Count("S:reconcile:with-failed-creates")
			}
		case kind == 4:
			nm := kit.Pick(r, names)
			k := r.Intn(3)
			switch k {
			case 0:
				cluster.NodePoolState.MarkNodeClaimActive("spool", nm)
			case 1:
				cluster.NodePoolState.MarkNodeClaimDeleting("spool", nm)
			case 2:
				cluster.NodePoolState.MarkNodeClaimPendingDisruption("spool", nm)
			}
			gops = append(gops, fmt.Sprintf("(HMark %s %s)", markNames[k], gname(modelName[nm])))
			jops = append(jops, fmt.Sprintf("Mark%s(#%d)", markNames[k][1:], modelName[nm]))
			c.Count("S:mark")
		case kind == 5 || kind == 6:
			nm := kit.Pick(r, names)
			nc := &v1.NodeClaim{}
			if err := cl.Get(ctx, client.ObjectKey{Name: nm}, nc); err != nil {
				panic(err)
			}
			if len(nc.Finalizers) > 0 {
				nc.Finalizers = nil
				if err := cl.Update(ctx, nc); err != nil {
					panic(err)
				}
			}
			if err := cl.Delete(ctx, nc); err != nil {
				panic(err)
			}
			cluster.DeleteNodeClaim(nm)
			gops = append(gops, fmt.Sprintf("(HDelete %s)", gname(modelName[nm])))
			jops = append(jops, fmt.Sprintf("DeleteNodeClaim(#%d)", modelName[nm]))
			c.Count("S:delete")
		default:
			nm := kit.Pick(r, names)
			nc := &v1.NodeClaim{}
			if err := cl.Get(ctx, client.ObjectKey{Name: nm}, nc); err != nil {
				panic(err)
			}
			cluster.UpdateNodeClaim(nc)
			gops = append(gops, fmt.Sprintf("(HInfUpd %s)", gname(modelName[nm])))
			jops = append(jops, fmt.Sprintf("InformerUpdate(#%d)", modelName[nm]))
			c.Count("S:informer-update")
		}
		a, d, p := cluster.NodePoolState.GetNodeCount("spool")
		res := cluster.NodePoolState.VerifC03Dump("spool").Reserved
		api := len(live())
		if api > maxAPI {
			maxAPI = api
		}
		gobs = append(gobs, fmt.Sprintf("(mkSO %s %s %s %s %s)", kit.GZ(int64(api)), kit.GZ(int64(a)), kit.GZ(int64(d)), kit.GZ(int64(p)), kit.GZ(res)))
		jobs = append(jobs, fmt.Sprintf("api=%d active=%d deleting=%d pending=%d reserved=%d", api, a, d, p, res))
	}
	switch {
	case unlimited:
		c.Count("S:limit:none")
	case int64(maxAPI) == limit:
		c.Count("S:limit:reached")
	default:
		c.Count("S:limit:not-reached")
	}
	key := ""
	if maxAPI > 0 {
		key = fmt.Sprintf("S:%d:%s", limit, strings.Join(jops, ";"))
	}
	c.AddCase(fmt.Sprintf("CaseS %s %s %s", kit.GZ(limit), kit.GList(gops), kit.GList(gobs)), scase{"static", limit, jops, jobs}, key)
}

func partS(c *kit.Ctx) int {
	n := 100
	if c.Thorough() {
		n = 1500
	}
	for i := 0; i < n; i++ {
		runS(c, c.Rand.Fork())
	}
	return n
}
