// c12 drives the real scheduling.Requirement / Requirements on an exhaustive small universe plus
// random requirement sets and writes the observations as Gallina cases.
package main

import (
	"fmt"
	"os"
	"sort"
	"strings"

	corev1 "k8s.io/api/core/v1"
	"k8s.io/apimachinery/pkg/util/sets"

	v1 "sigs.k8s.io/karpenter/pkg/apis/v1"
	"sigs.k8s.io/karpenter/pkg/scheduling"

	"verifharness/kit"
)

type call struct {
	Op   string   `json:"op"`
	MinV *int     `json:"minValues,omitempty"`
	Vals []string `json:"values"`
}

var opNames = map[string]string{"In": "In", "NotIn": "NotIn", "Exists": "Exists", "DoesNotExist": "DoesNotExist", "Gt": "Gt", "Lt": "Lt", "Gte": "Gte", "Lte": "Lte"}

func (c call) gallina() string {
	mv := "None"
	if c.MinV != nil {
		mv = "(Some " + kit.GZ(int64(*c.MinV)) + ")"
	}
	return fmt.Sprintf("(%s, %s, %s)", c.Op, mv, kit.GStrs(c.Vals))
}

func (c call) mk(key string) *scheduling.Requirement {
	vals := append([]string(nil), c.Vals...) // the constructor may rewrite the slice (value normalisation)
	return scheduling.NewRequirementWithFlexibility(key, corev1.NodeSelectorOperator(c.Op), c.MinV, vals...)
}

func build(key string, cs []call) *scheduling.Requirement {
	if len(cs) == 0 {
		return scheduling.NewRequirement(key, corev1.NodeSelectorOpExists)
	}
	r := cs[0].mk(key)
	for _, c := range cs[1:] {
		r = c.mk(key).Intersection(r)
	}
	return r
}

// probe values: the value universe, a fresh string, zero-padded / signed spellings of every integer a
// bound can take in the generated cases (never members of an exclusion list), boundary numerals.
var universe = []string{"a", "b", "1", "2", "3", "05", "+2", "-1", "", "9223372036854775807", "9223372036854775806", "-9223372036854775808"}
var numerals = []string{"1", "2", "3", "05", "+2", "-1", "0", "9223372036854775807", "9223372036854775806", "-9223372036854775808", "-9223372036854775807"}
var probes = append(append([]string{}, universe...), "zz", "00", "000", "001", "002", "003", "004", "005", "006", "-00", "-001", "-002", "+3", "+004",
	"09223372036854775807", "09223372036854775806", "09223372036854775805", "9223372036854775805", "9223372036854775808", "-09223372036854775808", "-09223372036854775807",
	"-9223372036854775809", "1_0", " 1", "1 ", "0x1", "1e1", "4", "6", "07")

func optInt(p *int) string {
	if p == nil {
		return "None"
	}
	return "(Some " + kit.GZ(int64(*p)) + ")"
}

func observe(r *scheduling.Requirement) string {
	has := make([]string, len(probes))
	for i, p := range probes {
		has[i] = kit.GBool(r.Has(p))
	}
	compl, gte, lte, undef := r.VerifInternals()
	vals := sets.List(sets.New(r.Values()...))
	return fmt.Sprintf("(mkObs %s %s %s %s %s %s %s %s %s)", kit.GList(has), kit.GZ(int64(r.Len())), opNames[string(r.Operator())],
		kit.GStrs(vals), kit.GBool(compl), optInt(gte), optInt(lte), optInt(r.MinValues), kit.GBool(undef))
}

func calls(cs []call) string { return kit.GListOf(cs, func(c call) string { return c.gallina() }) }

func shape(r *scheduling.Requirement) string {
	compl, gte, lte, _ := r.VerifInternals()
	return fmt.Sprintf("compl=%v,vals=%v,gte=%v,lte=%v", compl, len(r.Values()) > 0, gte != nil, lte != nil)
}

type caseJSON struct {
	Kind  string            `json:"kind"`
	A     []call            `json:"a,omitempty"`
	B     []call            `json:"b,omitempty"`
	RA    map[string][]call `json:"reqs_a,omitempty"`
	RB    map[string][]call `json:"reqs_b,omitempty"`
	Allow bool              `json:"allow_undefined_well_known,omitempty"`
}

func main() {
	c := kit.Parse("C12", os.Args[1:])
	one, two := 1, 2
	// ---- single constructor calls
	var singles []call
	valueLists := [][]string{{"a"}, {"b"}, {"a", "b"}, {"1"}, {"2"}, {"1", "3"}, {"05"}, {"2", "05", "a"}, {""}, {"+2", "-1"}, {"9223372036854775807"}, {"a", "a"}}
	for _, op := range []string{"In", "NotIn"} {
		for _, vs := range valueLists {
			singles = append(singles, call{Op: op, Vals: vs})
		}
	}
	singles = append(singles, call{Op: "Exists", Vals: []string{}}, call{Op: "DoesNotExist", Vals: []string{}},
		call{Op: "In", MinV: &two, Vals: []string{"a", "b"}}, call{Op: "Exists", MinV: &one, Vals: []string{}})
	for _, op := range []string{"Gt", "Lt", "Gte", "Lte"} {
		for _, n := range numerals {
			singles = append(singles, call{Op: op, Vals: []string{n}})
		}
	}
	singles = append(singles, call{Op: "Gt", MinV: &one, Vals: []string{"9223372036854775807"}})
	pList := kit.GStrs(probes)
	for _, s := range singles {
		r := build("k", []call{s})
		c.Count("req:" + shape(r))
		c.AddCase(fmt.Sprintf("CaseReq %s %s %s", pList, calls([]call{s}), observe(r)), caseJSON{Kind: "req", A: []call{s}}, "req:"+s.gallina())
	}
	// ---- requirements from two calls, and pairs
	var doubles [][]call
	for _, x := range singles {
		for _, y := range singles {
			doubles = append(doubles, []call{x, y})
		}
	}
	emitPair := func(a, b []call) {
		ra, rb := build("k", a), build("k", b)
		ri := ra.Intersection(rb)
		c.Count("pair:" + shape(ra) + " x " + shape(rb))
		nontrivial := ""
		if ri.Len() > 0 || ra.HasIntersection(rb) {
			nontrivial = "pair:" + calls(a) + calls(b)
		}
		c.AddCase(fmt.Sprintf("CasePair %s %s %s %s %s %s %s %s", pList, calls(a), calls(b), observe(ra), observe(rb), observe(ri),
			kit.GBool(ra.HasIntersection(rb)), kit.GBool(rb.HasIntersection(ra))), caseJSON{Kind: "pair", A: a, B: b}, nontrivial)
	}
	nPairs1, nPairs2, nDouble, nCompat := 900, 500, 300, 600
	if c.Thorough() {
		nPairs1, nPairs2, nDouble, nCompat = len(singles)*len(singles), 6000, 3000, 5000
	}
	// all pairs of singles (thorough) or a deterministic stride sample (quick)
	total := len(singles) * len(singles)
	stride := total / nPairs1
	if stride < 1 {
		stride = 1
	}
	for i := int(c.Seed) % stride; i < total; i += stride {
		emitPair([]call{singles[i/len(singles)]}, []call{singles[i%len(singles)]})
	}
	// corpus: F8 witness shapes, F6 shape, padded witness
	emitPair([]call{{Op: "NotIn", Vals: []string{"7"}}, {Op: "Gt", Vals: []string{"4"}}}, []call{{Op: "NotIn", Vals: []string{"2"}}, {Op: "Lt", Vals: []string{"4"}}})
	emitPair([]call{{Op: "NotIn", Vals: []string{"05"}}, {Op: "Gte", Vals: []string{"05"}}}, []call{{Op: "Lte", Vals: []string{"05"}}})
	for i := 0; i < nDouble; i++ {
		d := kit.Pick(c.Rand, doubles)
		r := build("k", d)
		c.Count("req:" + shape(r))
		c.AddCase(fmt.Sprintf("CaseReq %s %s %s", pList, calls(d), observe(r)), caseJSON{Kind: "req", A: d}, "req:"+calls(d))
	}
	for i := 0; i < nPairs2; i++ {
		a, b := kit.Pick(c.Rand, doubles), kit.Pick(c.Rand, doubles)
		if c.Rand.Chance(1, 3) {
			a = append(append([]call{}, a...), kit.Pick(c.Rand, singles))
		}
		emitPair(a, b)
	}
	// ---- Requirement.Insert (in-place extension of the value set)
	for i := 0; i < 120; i++ {
		cs := []call{kit.Pick(c.Rand, singles)}
		if c.Rand.Bool() {
			cs = kit.Pick(c.Rand, doubles)
		}
		items := [][]string{{"a"}, {"b", "zz"}, {"1", "05"}, {}, {"a", "a"}, {"9223372036854775807"}}[c.Rand.Intn(6)]
		r := build("k", cs)
		r.Insert(items...)
		c.Count("insert:" + shape(r))
		c.AddCase(fmt.Sprintf("CaseInsert %s %s %s %s", pList, calls(cs), kit.GStrs(items), observe(r)), caseJSON{Kind: "insert", A: cs}, "insert:"+calls(cs)+kit.GStrs(items))
	}
	// ---- requirement sets: Compatible / Intersects, key + value normalisation
	keys := []string{"k1", "k2", corev1.LabelTopologyZone, "beta.kubernetes.io/arch", corev1.LabelArchStable, corev1.LabelFailureDomainBetaZone}
	v1.NormalizedLabelValues[corev1.LabelTopologyZone] = map[string]string{"b": "a"}
	var tbl []string
	for _, k := range kit.SortedKeys(v1.NormalizedLabels) {
		tbl = append(tbl, kit.GPair(kit.GStr(k), kit.GStr(v1.NormalizedLabels[k])))
	}
	vtbl := "[" + kit.GPair(kit.GStr(corev1.LabelTopologyZone), "["+kit.GPair(kit.GStr("b"), kit.GStr("a"))+"]") + "]"
	wellKnown := sets.List(v1.WellKnownLabels)
	genSet := func() ([]string, []scheduling.Requirements, map[string][]call) {
		n := c.Rand.Range(1, 4)
		var items []string
		js := map[string][]call{}
		mode := c.Rand.Intn(4)
		var reqs scheduling.Requirements
		switch mode {
		case 1:
			// NewLabelRequirements: a label map (distinct keys, may contain an alias next to its canonical key)
			labels := map[string]string{}
			for i := 0; i < n; i++ {
				labels[kit.Pick(c.Rand, keys)] = kit.Pick(c.Rand, []string{"a", "b", "1"})
			}
			for _, k := range kit.SortedKeys(labels) {
				cl := call{Op: "In", Vals: []string{labels[k]}}
				items = append(items, kit.GPair(kit.GStr(k), cl.gallina()))
				js[k] = append(js[k], cl)
			}
			reqs = scheduling.NewLabelRequirements(labels)
			c.Count("compat:built-by=NewLabelRequirements")
		case 2, 3:
			var with []v1.NodeSelectorRequirementWithMinValues
			var plain []corev1.NodeSelectorRequirement
			for i := 0; i < n; i++ {
				k := kit.Pick(c.Rand, keys)
				cl := kit.Pick(c.Rand, singles)
				if mode == 3 {
					cl.MinV = nil
				}
				items = append(items, kit.GPair(kit.GStr(k), cl.gallina()))
				js[k] = append(js[k], cl)
				with = append(with, v1.NodeSelectorRequirementWithMinValues{Key: k, Operator: corev1.NodeSelectorOperator(cl.Op), Values: append([]string(nil), cl.Vals...), MinValues: cl.MinV})
				plain = append(plain, corev1.NodeSelectorRequirement{Key: k, Operator: corev1.NodeSelectorOperator(cl.Op), Values: append([]string(nil), cl.Vals...)})
			}
			if mode == 2 {
				reqs = scheduling.NewNodeSelectorRequirementsWithMinValues(with...)
				c.Count("compat:built-by=NewNodeSelectorRequirementsWithMinValues")
			} else {
				reqs = scheduling.NewNodeSelectorRequirements(plain...)
				c.Count("compat:built-by=NewNodeSelectorRequirements")
			}
		default:
			reqs = scheduling.NewRequirements()
			for i := 0; i < n; i++ {
				k := kit.Pick(c.Rand, keys)
				cl := kit.Pick(c.Rand, singles)
				reqs.Add(cl.mk(k))
				items = append(items, kit.GPair(kit.GStr(k), cl.gallina()))
				js[k] = append(js[k], cl)
			}
			c.Count("compat:built-by=Add")
		}
		return items, []scheduling.Requirements{reqs}, js
	}
	for i := 0; i < nCompat; i++ {
		ia, ra, ja := genSet()
		ib, rb, jb := genSet()
		allow := c.Rand.Bool()
		allowList := "[]"
		var err error
		if allow {
			allowList = kit.GStrs(wellKnown)
			err = ra[0].Compatible(rb[0], scheduling.AllowUndefinedWellKnownLabels)
		} else {
			err = ra[0].Compatible(rb[0])
		}
		ierr := ra[0].Intersects(rb[0])
		c.Count(fmt.Sprintf("compat:allow=%v,compatible=%v,intersects=%v", allow, err == nil, ierr == nil))
		key := strings.Join(ia, ";") + "|" + strings.Join(ib, ";")
		c.AddCase(fmt.Sprintf("CaseCompat %s %s %s %s %s %s %s %s", kit.GList(tbl), vtbl, allowList, pList, kit.GList(ia), kit.GList(ib),
			kit.GBool(err == nil), kit.GBool(ierr == nil)), caseJSON{Kind: "compat", RA: ja, RB: jb, Allow: allow}, "compat:"+key)
	}
	// ---- pod constructors: nodeSelector + heaviest preferred term + FIRST required term (NewPodRequirements), and the
	// strict variant without preferences
	nPods := 120
	if c.Thorough() {
		nPods = 1500
	}
	podSingles := []call{}
	for _, cl := range singles {
		if cl.MinV == nil {
			podSingles = append(podSingles, cl)
		}
	}
	genExprs := func() ([]corev1.NodeSelectorRequirement, []string, map[string][]call) {
		n := c.Rand.Range(1, 3)
		var out []corev1.NodeSelectorRequirement
		var g []string
		js := map[string][]call{}
		for i := 0; i < n; i++ {
			k := kit.Pick(c.Rand, keys)
			cl := kit.Pick(c.Rand, podSingles)
			out = append(out, corev1.NodeSelectorRequirement{Key: k, Operator: corev1.NodeSelectorOperator(cl.Op), Values: append([]string(nil), cl.Vals...)})
			g = append(g, kit.GPair(kit.GStr(k), cl.gallina()))
			js[k] = append(js[k], cl)
		}
		return out, g, js
	}
	for i := 0; i < nPods; i++ {
		pod := &corev1.Pod{}
		var gSel, gPrefs, gTerms []string
		j := map[string]interface{}{}
		if c.Rand.Chance(2, 3) {
			pod.Spec.NodeSelector = map[string]string{}
			for n := c.Rand.Range(1, 2); n > 0; n-- {
				pod.Spec.NodeSelector[kit.Pick(c.Rand, keys)] = kit.Pick(c.Rand, []string{"a", "b", "1"})
			}
			for _, k := range kit.SortedKeys(pod.Spec.NodeSelector) {
				gSel = append(gSel, kit.GPair(kit.GStr(k), kit.GStr(pod.Spec.NodeSelector[k])))
			}
			j["nodeSelector"] = pod.Spec.NodeSelector
		}
		nPref, nTerm := c.Rand.Intn(4), c.Rand.Intn(3)
		if nPref+nTerm > 0 || c.Rand.Bool() {
			pod.Spec.Affinity = &corev1.Affinity{}
			if nPref+nTerm > 0 || c.Rand.Bool() {
				pod.Spec.Affinity.NodeAffinity = &corev1.NodeAffinity{}
			}
		}
		var jp, jt []interface{}
		for k := 0; k < nPref; k++ {
			exprs, g, js := genExprs()
			w := int32(kit.Pick(c.Rand, []int{1, 1, 5, 5, 50, 100}))
			pod.Spec.Affinity.NodeAffinity.PreferredDuringSchedulingIgnoredDuringExecution = append(pod.Spec.Affinity.NodeAffinity.PreferredDuringSchedulingIgnoredDuringExecution,
				corev1.PreferredSchedulingTerm{Weight: w, Preference: corev1.NodeSelectorTerm{MatchExpressions: exprs}})
			gPrefs = append(gPrefs, kit.GPair(kit.GZ(int64(w)), kit.GList(g)))
			jp = append(jp, map[string]interface{}{"weight": w, "exprs": js})
		}
		if nTerm > 0 {
			pod.Spec.Affinity.NodeAffinity.RequiredDuringSchedulingIgnoredDuringExecution = &corev1.NodeSelector{}
		} else if pod.Spec.Affinity != nil && pod.Spec.Affinity.NodeAffinity != nil && c.Rand.Bool() {
			pod.Spec.Affinity.NodeAffinity.RequiredDuringSchedulingIgnoredDuringExecution = &corev1.NodeSelector{} // no terms
		}
		for k := 0; k < nTerm; k++ {
			exprs, g, js := genExprs()
			pod.Spec.Affinity.NodeAffinity.RequiredDuringSchedulingIgnoredDuringExecution.NodeSelectorTerms = append(
				pod.Spec.Affinity.NodeAffinity.RequiredDuringSchedulingIgnoredDuringExecution.NodeSelectorTerms, corev1.NodeSelectorTerm{MatchExpressions: exprs})
			gTerms = append(gTerms, kit.GList(g))
			jt = append(jt, js)
		}
		j["preferred"], j["required_terms"] = jp, jt
		for _, strict := range []bool{false, true} {
			var reqs scheduling.Requirements
			if strict {
				reqs = scheduling.NewStrictPodRequirements(pod)
			} else {
				reqs = scheduling.NewPodRequirements(pod)
			}
			var obs []string
			for _, k := range sets.List(reqs.Keys()) {
				obs = append(obs, kit.GPair(kit.GStr(k), observe(reqs.Get(k))))
			}
			c.Count(fmt.Sprintf("pod:strict=%v,selector=%v,preferred=%d,required-terms=%d", strict, len(gSel) > 0, nPref, nTerm))
			c.AddCase(fmt.Sprintf("CasePod %s %s %s %s %s %s %s %s", kit.GList(tbl), vtbl, pList, kit.GBool(strict), kit.GList(gSel), kit.GList(gPrefs), kit.GList(gTerms), kit.GList(obs)),
				map[string]interface{}{"kind": "pod-requirements", "strict": strict, "pod": j}, fmt.Sprintf("pod:%v:%v:%v:%v", strict, gSel, gPrefs, gTerms))
		}
	}
	sort.Strings(tbl)
	c.Meta.Rule = fmt.Sprintf("%d single constructor calls (8 operators x value lists / boundary numerals incl. MaxInt64, MinInt64, '+2', '05', '') observed through Has over %d probes, Len, Operator, values, bounds, minValues, satisfiedWhenUndefined; %s pairs of single-call requirements, random requirements from 2-3 intersected calls and pairs of those; random 1-4 key requirement sets for Compatible/Intersects with and without AllowUndefinedWellKnownLabels incl. aliased keys and value normalisation. non-trivial = distinct construction; for pairs additionally a non-empty intersection", len(singles), len(probes), map[bool]string{true: "all", false: "a stride sample of"}[c.Thorough()])
	c.Meta.Exhaustive = c.Thorough()
	c.Meta.Corr = []string{"scheduling.NewRequirementWithFlexibility/Has/Len/Operator/Values/MinValues = Base.Req.new_req/has/rlen/operator/vals/minv",
		"Requirement.Intersection = Base.Req.intersection", "Requirement.HasIntersection = Base.Req.has_intersection",
		"Requirements.Add/Compatible/Intersects (+NormalizedLabels) = Base.Req.add/compatible/intersects",
		"scheduling.NewPodRequirements / NewStrictPodRequirements = C12.Check.pod_reqs (labels, heaviest preference, first required term)"}
	c.Finish("From KV Require Import Base.Req Base.K8s C12.Check.", "case", "check_all", 400)
}
