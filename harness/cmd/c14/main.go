package main

import (
	"fmt"

	"github.com/go-logr/logr"
	ctrllog "sigs.k8s.io/controller-runtime/pkg/log"

	"os"
	"runtime"
	"runtime/pprof"
	"strings"
	"sync"
	"sync/atomic"
	"time"

	"github.com/awslabs/operatorpkg/status"

	"verifharness/kit"
)

func statusObserved() status.ForOption { return status.WithObservedOnly() }

// ---------------------------------------------------------------- histories

type hist struct {
	K    cfgT   `json:"cfg"`
	Ops  []opT  `json:"ops"`
	Tag  string `json:"tag"`
	Need bool   `json:"-"` // keep the case only if every injected fault was reached
}

func rec(p plan) opT           { return opT{Kind: "Rec", Plan: &p} }
func tick(d int) opT           { return opT{Kind: "Tick", D: d} }
func op(k string) opT          { return opT{Kind: k} }
func opb(k string, b bool) opT { return opT{Kind: k, B: b} }

var okPlan = plan{}

type jcase struct {
	Cfg   cfgT     `json:"cfg"`
	Tag   string   `json:"tag"`
	Ops   []string `json:"ops"`
	Obs   []string `json:"obs"`
	KfKey string   `json:"kf_key,omitempty"`
}

type result struct {
	reach  []map[string]bool // per Rec op: the fault sites the reconcile reached
	skip   bool
	term   string
	jc     jcase
	key    string
	counts []string
	fails  []string
}

// consumed reports whether every fault of the injected plan was reached by the reconcile.
func consumed(inj plan, effs []string, w *world) bool {
	for _, f := range inj.faults() {
		site := strings.SplitN(f, "=", 2)[0]
		hit := false
		switch site {
		case "list_reg", "list_init", "list_fin":
			hit = w.listHit[site]
		case "hook":
			hit = w.hookHit
		case "pool_patch":
			hit = w.poolPatchHit
		default:
			eff := map[string]string{"fin": "EFin", "create": "ECreate", "del_launch": "EDelLaunch", "npatch_reg": "ENodePatchReg",
				"pool_reg": "EPoolReg", "npatch_init": "ENodePatchInit", "pool_live1": "EPoolLive", "del_live1": "EDelLive",
				"pool_live2": "EPoolLive", "del_live2": "EDelLive", "patch": "EPatch", "status": "EStatus", "pdel": "EPDel",
				"term": "ETerm", "unfin": "EUnfin", "node_del": "ENodeDel"}[site]
			n := 0
			for _, e := range effs {
				if strings.HasPrefix(e, eff) {
					n++
				}
			}
			need := 1
			if strings.HasSuffix(site, "2") {
				need = 2
			}
			hit = n >= need
		}
		if !hit {
			return false
		}
	}
	return true
}

var effSite = map[string]string{"EFin": "fin", "ECreate": "create", "EDelLaunch": "del_launch", "ENodePatchReg": "npatch_reg",
	"EPoolReg": "pool_reg", "ENodePatchInit": "npatch_init", "EPoolLive": "pool_live", "EDelLive": "del_live", "EPatch": "patch",
	"EStatus": "status", "EPDel": "pdel", "ETerm": "term", "EUnfin": "unfin", "ENodeDel": "node_del", "ENodeDelFail": "node_del"}

func reached(effs []string, w *world) map[string]bool {
	m := map[string]bool{}
	n := map[string]int{}
	for _, e := range effs {
		site := effSite[strings.SplitN(e, " ", 2)[0]]
		if site == "pool_live" || site == "del_live" {
			n[site]++
			site = fmt.Sprintf("%s%d", site, n[site])
		}
		m[site] = true
	}
	for k := range w.listHit {
		m[k] = true
	}
	if w.hookHit {
		m["hook"] = true
	}
	if w.poolPatchHit {
		m["pool_patch"] = true
	}
	return m
}

func (p plan) sitesReached(m map[string]bool) bool {
	for _, f := range p.faults() {
		if !m[strings.SplitN(f, "=", 2)[0]] {
			return false
		}
	}
	return true
}

func runHist(sl *slot, h hist, ks consts) (out result) {
	w := newWorld(sl, h.K, ks)
	count := func(s string) { out.counts = append(out.counts, s) }
	var pairs, jops, jobs []string
	stale, faults, recs := 0, 0, 0
	for _, o := range h.Ops {
		if o.Kind == "Rec" && w.view != nil {
			if cur := w.claim(); cur == nil || cur.ResourceVersion != w.view.ResourceVersion {
				stale++
			}
		}
		w.listHit, w.hookHit, w.poolPatchHit = map[string]bool{}, false, false
		gop, effs, res := w.apply(o)
		if o.Kind == "Rec" {
			recs++
			out.reach = append(out.reach, reached(effs, w))
			if !o.Plan.isOK() {
				if h.Need && !consumed(*o.Plan, effs, w) {
					return result{skip: true}
				}
				faults++
			}
		}
		ob := w.obsG(effs, res)
		pairs = append(pairs, "("+gop+", "+ob+")")
		jops = append(jops, gop)
		jobs = append(jobs, strings.Join(effs, ",")+" -> "+res)
		// input distribution: which branches of the modelled code the implementation took
		count("op:" + o.Kind)
		if o.Kind == "NEph" && o.B {
			count(fmt.Sprintf("ephemeral-taint-kind:%d", o.D%len(ephKinds)))
		}
		if o.Kind == "NReady" && !o.B {
			count("node-not-ready-as:" + []string{"False", "Unknown", "absent"}[o.D%3])
		}
		if o.Kind == "Rec" {
			for _, e := range effs {
				count("call:" + e)
			}
			count("result:" + strings.Trim(strings.SplitN(res, " ", 2)[0], "()"))
			for _, sh := range w.createShapes {
				count("create-answer:" + sh)
			}
			w.createShapes = nil
			if nc := w.claim(); nc != nil {
				rr, _ := w.condR(nc)
				count("cond:" + w.condL(nc) + "/" + rr + "/" + w.condI(nc))
			} else {
				count("cond:claim-gone")
			}
			for _, f := range o.Plan.faults() {
				count("fault:" + f)
			}
		}
	}
	count("history:" + h.Tag)
	for n, b := range map[string]bool{"orphan-owner-ref": h.K.Pool && h.K.Orphan, "zero-quantity-request": h.K.ZeroReq, "claim-taints": h.K.Taints, "long-error-message": h.K.LongMsg, "unmanaged": !h.K.Managed} {
		if b {
			count("claim:" + n)
		}
	}
	count(fmt.Sprintf("history-stale-reconciles:%d", min(stale, 3)))
	count(fmt.Sprintf("history-faulty-reconciles:%d", min(faults, 3)))
	count(fmt.Sprintf("instances-created:%d", min(w.prov.made, 3)))
	if recs > 0 {
		out.key = fmt.Sprint(h.K) + strings.Join(jops, ";")
	}
	out.jc = jcase{Cfg: h.K, Tag: h.Tag, Ops: jops, Obs: jobs}
	out.term = fmt.Sprintf("Case %s %s", h.K.gallina(ks), kit.GList(pairs))
	if w.createWithoutFinalizer {
		out.fails = append(out.fails, "cloudProvider.Create was called while the NodeClaim in the API had no termination finalizer")
	}
	for _, u := range w.unexpected {
		out.fails = append(out.fails, "harness: observation outside the modelled vocabulary: "+u)
	}
	return out
}

// runAll runs the histories on parallel workers (one API client each) and records them in order.
func runAll(c *kit.Ctx, ks consts, hs []hist) (skipped int) {
	res := make([]result, len(hs))
	workers := runtime.NumCPU()
	if workers > 16 {
		workers = 16
	}
	var wg sync.WaitGroup
	next := int64(-1)
	for i := 0; i < workers; i++ {
		wg.Add(1)
		go func() {
			defer wg.Done()
			sl := newSlot()
			for {
				j := int(atomic.AddInt64(&next, 1))
				if j >= len(hs) {
					return
				}
				res[j] = runHist(sl, hs[j], ks)
			}
		}()
	}
	wg.Wait()
	for _, r := range res {
		if r.skip {
			skipped++
			continue
		}
		id := c.AddCase(r.term, r.jc, r.key)
		for _, k := range r.counts {
			c.Count(k)
		}
		for _, f := range r.fails {
			c.Fail(id, f, "", r.jc)
		}
	}
	return skipped
}

// ---------------------------------------------------------------- generators

func cfgs() []cfgT {
	return []cfgT{
		{Managed: true},
		{Managed: true, Startup: true, Ext: true, Hook: true, Pool: true, ZeroReq: true, Taints: true, LongMsg: true},
		{Managed: true, Pool: true, Orphan: true},
		{Managed: true, Startup: true, Hook: true, Taints: true},
		{Managed: true, Ext: true, Pool: true, ZeroReq: true},
	}
}

// the protocol's happy path for a configuration
func happy(k cfgT) []opT {
	ops := []opT{rec(okPlan), op("Sync"), opb("NodeAppear", true), rec(okPlan), op("Sync"), opb("NReady", true)}
	if k.Startup {
		ops = append(ops, op("NStartupOff"))
	}
	if k.Ext {
		ops = append(ops, opb("NExt", true))
	}
	return append(ops, rec(okPlan), op("Sync"), rec(okPlan))
}

func singleFaults() []plan {
	var out []plan
	for kind := 1; kind <= 3; kind++ {
		out = append(out,
			plan{Fin: kind}, plan{Create: 1, DelLaunch: kind}, plan{Create: 5, DelLaunch: kind}, plan{Create: 8, DelLaunch: kind}, plan{NPatchReg: kind}, plan{PoolReg: kind}, plan{NPatchInit: kind},
			plan{PoolLive1: kind}, plan{DelLive1: kind}, plan{PoolLive2: kind}, plan{DelLive2: kind}, plan{Patch: kind}, plan{Status: kind},
			plan{Term: kind}, plan{Unfin: kind}, plan{PoolPatch: kind})
	}
	for cr := 1; cr < len(createShapes); cr++ {
		out = append(out, plan{Create: cr})
	}
	out = append(out, plan{ListReg: true}, plan{ListInit: true}, plan{PDelErr: true}, plan{ListFin: true}, plan{NDelErr: true},
		plan{Hook: 1, HookD: 30}, plan{Hook: 2}, plan{Hook: 3})
	return out
}

func withFaultAt(script []opT, idx int, p plan, stale bool) []opT {
	var out []opT
	n := -1
	for i, o := range script {
		if o.Kind == "Rec" {
			n++
			if n == idx {
				out = append(out, rec(mergePlan(*o.Plan, p)))
				if stale && i+1 < len(script) && script[i+1].Kind == "Sync" {
					// the informer does not catch up before the next reconcile
					out = append(out, rec(okPlan))
				}
				continue
			}
		}
		out = append(out, o)
	}
	return out
}

func countRecs(script []opT) int {
	n := 0
	for _, o := range script {
		if o.Kind == "Rec" {
			n++
		}
	}
	return n
}

// scripts that reach the time-dependent and terminating branches
func scripts(k cfgT, ks consts) map[string][]opT {
	lt, rt, ttl := int(ks.LT), int(ks.RT), int(ks.TTL)
	tail := []opT{op("Sync"), rec(okPlan), op("Sync"), rec(okPlan)}
	m := map[string][]opT{"happy": append(happy(k), tail...)}
	for _, d := range []int{lt - 1, lt, lt + 1} {
		m[fmt.Sprintf("launch-timeout@%+d", d-lt)] = append([]opT{rec(plan{Create: 4}), op("Sync"), tick(d), rec(plan{Create: 4})}, tail...)
	}
	for _, d := range []int{rt - 2, rt - 1, rt} {
		// the successful first reconcile sleeps one second
		m[fmt.Sprintf("registration-timeout@%+d", d+1-rt)] = append([]opT{rec(okPlan), op("Sync"), tick(d), rec(okPlan)}, tail...)
	}
	m["both-timeouts"] = append([]opT{rec(plan{Create: 3}), op("Sync"), tick(rt), rec(plan{Create: 4})}, tail...)
	m["capacity"] = append([]opT{rec(plan{Create: 1})}, tail...)
	m["nodeclass-not-ready"] = append([]opT{rec(plan{Create: 2})}, tail...)
	// the shapes real providers produce: the capacity error sits inside a CreateError / an fmt.Errorf wrapper
	for i := 5; i < len(createShapes); i++ {
		m["create-error-shape-"+createShapes[i]] = append([]opT{rec(plan{Create: i}), op("Sync"), rec(plan{Create: i})}, tail...)
	}
	m["duplicate-node"] = append([]opT{rec(okPlan), op("Sync"), opb("NodeAppear", true), op("DupAppear"), rec(okPlan), op("Sync"), tick(rt), rec(okPlan), op("DupVanish")}, tail...)
	m["no-unregistered-taint"] = append([]opT{rec(okPlan), op("Sync"), opb("NodeAppear", false), opb("NReady", true), opb("NExt", true), op("NStartupOff"), rec(okPlan)}, tail...)
	m["ephemeral-taint"] = append(append(happy(k)[:len(happy(k))-3], opb("NEph", true), rec(okPlan), op("Sync"), opb("NEph", false), op("NStartupOff")), tail...)
	for kind := range ephKinds {
		hp := happy(k)
		m[fmt.Sprintf("ephemeral-taint-kind-%d", kind)] = append(append(hp[:len(hp)-3], opT{Kind: "NEph", B: true, D: kind}, opT{Kind: "NReady", D: kind % 3}, opb("NReady", true), rec(okPlan), op("Sync"), opb("NEph", false), op("NStartupOff")), tail...)
	}
	// somebody else's finalizer: a terminating claim that never got ours is left alone; ours is removed while theirs keeps the object
	m["foreign-finalizer-deleted-before-ours"] = append([]opT{opb("ForeignFin", true), op("EnvDelete"), op("Sync"), rec(okPlan), rec(okPlan), opb("ForeignFin", false), op("Sync"), rec(okPlan)}, tail...)
	m["foreign-finalizer-terminate"] = append(append(happy(k), opb("ForeignFin", true), op("EnvDelete"), op("Sync"), rec(okPlan), op("NodeVanish"), op("Sync"), rec(okPlan), op("Sync"), rec(okPlan), op("Sync"), rec(okPlan), rec(okPlan), opb("ForeignFin", false)), tail...)
	m["foreign-finalizer-stale"] = append([]opT{opb("ForeignFin", true), rec(okPlan), op("EnvDelete"), rec(okPlan), op("Sync"), rec(okPlan), rec(okPlan), op("Sync"), rec(okPlan)}, tail...)
	m["terminate"] = append(append(happy(k), op("EnvDelete"), op("Sync"), rec(okPlan), op("NodeVanish"), rec(okPlan), rec(okPlan)), tail...)
	m["terminate-early"] = append([]opT{rec(okPlan), op("EnvDelete"), op("Sync"), rec(okPlan), rec(okPlan)}, tail...)
	m["terminate-unlaunched"] = append([]opT{rec(plan{Create: 4}), op("EnvDelete"), op("Sync"), rec(okPlan)}, tail...)
	m["delete-stale"] = append([]opT{rec(okPlan), op("Sync"), op("EnvDelete"), rec(okPlan), opb("NodeAppear", true), rec(okPlan)}, tail...)
	m["status-lost-restart"] = append([]opT{rec(plan{Status: 3}), op("Restart"), rec(okPlan)}, tail...)
	m["status-lost-retry"] = append([]opT{rec(plan{Status: 3}), rec(plan{Status: 1}), rec(plan{Patch: 3}), op("Sync"), rec(okPlan)}, tail...)
	for _, d := range []int{ttl - 1, ttl, ttl + 1} {
		m[fmt.Sprintf("cache-expiry@%+d", d-ttl)] = append([]opT{rec(plan{Status: 3}), tick(d), rec(okPlan)}, tail...)
	}
	// a stale read older than the launch cache TTL plus two faults: the stored object ends with Registered=True, Launched=Unknown
	m["order-after-cache-expiry"] = []opT{rec(plan{Status: 3}), op("Sync"), rec(okPlan), opb("NodeAppear", true), tick(ttl + 1),
		rec(plan{Create: 4, DelLive1: 3}), op("Sync"), rec(plan{Create: 4}), op("Sync")}
	m["stale-after-launch"] = append([]opT{rec(okPlan), rec(okPlan), opb("NodeAppear", true), rec(okPlan), rec(okPlan), op("Sync"), rec(okPlan)}, tail...)
	return m
}

func permutations(n int) [][]int {
	if n == 0 {
		return [][]int{{}}
	}
	var out [][]int
	for _, p := range permutations(n - 1) {
		for i := 0; i <= len(p); i++ {
			q := append(append(append([]int{}, p[:i]...), n-1), p[i:]...)
			out = append(out, q)
		}
	}
	return out
}

// mergePlan overlays the faults of f on p.
func mergePlan(p, f plan) plan {
	if f.Fin != 0 {
		p.Fin = f.Fin
	}
	if f.Create != 0 {
		p.Create = f.Create
	}
	if f.DelLaunch != 0 {
		p.DelLaunch = f.DelLaunch
	}
	p.ListReg = p.ListReg || f.ListReg
	if f.Hook != 0 {
		p.Hook, p.HookD = f.Hook, f.HookD
	}
	if f.NPatchReg != 0 {
		p.NPatchReg = f.NPatchReg
	}
	if f.PoolReg != 0 {
		p.PoolReg = f.PoolReg
	}
	p.ListInit = p.ListInit || f.ListInit
	if f.NPatchInit != 0 {
		p.NPatchInit = f.NPatchInit
	}
	if f.PoolLive1 != 0 {
		p.PoolLive1 = f.PoolLive1
	}
	if f.DelLive1 != 0 {
		p.DelLive1 = f.DelLive1
	}
	if f.PoolLive2 != 0 {
		p.PoolLive2 = f.PoolLive2
	}
	if f.DelLive2 != 0 {
		p.DelLive2 = f.DelLive2
	}
	if f.Patch != 0 {
		p.Patch = f.Patch
	}
	if f.Status != 0 {
		p.Status = f.Status
	}
	p.PDelErr = p.PDelErr || f.PDelErr
	p.ListFin = p.ListFin || f.ListFin
	p.NDelErr = p.NDelErr || f.NDelErr
	if f.Term != 0 {
		p.Term = f.Term
	}
	if f.Unfin != 0 {
		p.Unfin = f.Unfin
	}
	if f.PoolPatch != 0 {
		p.PoolPatch = f.PoolPatch
	}
	return p
}

func randomPlan(r *kit.Rand, nf int) plan {
	p := plan{}
	sf := singleFaults()
	for i := 0; i < nf; i++ {
		p = mergePlan(p, kit.Pick(r, sf))
	}
	return p
}

func randomHist(r *kit.Rand, ks consts, maxFaults int) hist {
	k := cfgT{Managed: !r.Chance(1, 25), Startup: r.Bool(), Ext: r.Bool(), Hook: r.Chance(1, 3), Pool: r.Bool(),
		Orphan: r.Chance(1, 4), ZeroReq: r.Bool(), Taints: r.Bool(), LongMsg: r.Chance(1, 3)}
	n := r.Range(6, 16)
	var ops []opT
	faultsLeft := maxFaults
	ticks := []int{1, 2, 59, int(ks.LT) - 2, int(ks.LT) - 1, int(ks.LT), int(ks.LT) + 1, int(ks.RT) - 2, int(ks.RT) - 1, int(ks.RT), int(ks.RT) + 1,
		int(ks.TTL) - 1, int(ks.TTL), int(ks.TTL) + 1}
	for i := 0; i < n; i++ {
		x := r.Intn(100)
		switch {
		case x < 38:
			p := okPlan
			if faultsLeft > 0 && r.Chance(1, 2) {
				nf := 1
				if maxFaults > 1 && r.Chance(1, 3) {
					nf = 2
				}
				p = randomPlan(r, nf)
				faultsLeft--
			}
			ops = append(ops, rec(p))
			if r.Chance(2, 3) {
				ops = append(ops, op("Sync"))
			}
		case x < 48:
			ops = append(ops, op("Sync"))
		case x < 58:
			if r.Chance(2, 3) {
				ops = append(ops, tick(kit.Pick(r, ticks[:7])))
			} else {
				ops = append(ops, tick(kit.Pick(r, ticks)))
			}
		case x < 68:
			ops = append(ops, opb("NodeAppear", !r.Chance(1, 5)))
		case x < 76:
			ops = append(ops, opT{Kind: "NReady", B: !r.Chance(1, 4), D: r.Intn(3)})
		case x < 81:
			ops = append(ops, op("NStartupOff"))
		case x < 85:
			ops = append(ops, opb("NExt", !r.Chance(1, 5)))
		case x < 88:
			ops = append(ops, opT{Kind: "NEph", B: r.Chance(2, 3), D: r.Intn(len(ephKinds))})
		case x < 91:
			ops = append(ops, op("EnvDelete"))
		case x < 94:
			ops = append(ops, op("Restart"))
		case x < 96:
			ops = append(ops, op("DupAppear"))
		case x < 97:
			ops = append(ops, op("DupVanish"))
		case x < 99:
			ops = append(ops, op("NodeVanish"))
		default:
			ops = append(ops, opb("ForeignFin", r.Chance(2, 3)))
		}
	}
	return hist{K: k, Ops: ops, Tag: "random"}
}

func measureTTL() int64 {
	w := newWorld(newSlot(), cfgT{Managed: true}, consts{TTL: 1 << 40, LT: 1, RT: 1})
	w.apply(rec(plan{Status: 3}))
	exp, ok := w.ctrl.VerifLaunchCacheExpiration(w.uid)
	if !ok {
		return -1
	}
	return int64((time.Until(exp) + time.Second/2) / time.Second)
}

func main() {
	c := kit.Parse("C14", os.Args[1:])
	ctrllog.SetLogger(logr.Discard())
	if pf := os.Getenv("VERIF_C14_PROF"); pf != "" {
		f, _ := os.Create(pf)
		_ = pprof.StartCPUProfile(f)
		defer pprof.StopCPUProfile()
		go func() { time.Sleep(15 * time.Second); pprof.StopCPUProfile(); os.Exit(0) }()
	}
	ks := readConsts()
	ks.TTL = measureTTL()
	var hs []hist
	nRandom, maxFaults, permCfgs := 800, 1, 2
	if c.Thorough() {
		nRandom, maxFaults, permCfgs = 4500, 2, 4
	}
	// 1. scripts, fault-free, for every configuration
	for _, k := range append(cfgs(), cfgT{}) {
		for _, s := range sortedScripts(scripts(k, ks)) {
			hs = append(hs, hist{K: k, Ops: s, Tag: "script"})
		}
	}
	// 2. a failure injected at each individual API write / provider call of each reconcile of each script,
	//    with and without the informer catching up afterwards
	ncfg := 2
	if c.Thorough() {
		ncfg = len(cfgs())
	}
	probe := newSlot()
	for _, k := range cfgs()[:ncfg] {
		for _, s := range faultScripts(k, ks, c.Thorough()) {
			reach := runHist(probe, hist{K: k, Ops: s}, ks).reach
			for i := 0; i < countRecs(s); i++ {
				for _, f := range singleFaults() {
					if !f.sitesReached(reach[i]) {
						continue
					}
					for _, stale := range []bool{false, true} {
						if !c.Thorough() && stale && (f.Fin|f.DelLaunch|f.NPatchReg|f.PoolReg|f.NPatchInit|f.PoolLive1|f.DelLive1|f.PoolLive2|f.DelLive2|f.Patch|f.Status|f.Term|f.Unfin) == wNotFound {
							continue
						}
						hs = append(hs, hist{K: k, Ops: withFaultAt(s, i, f, stale), Tag: "script+fault", Need: true})
					}
				}
			}
		}
	}
	// 3. all orders of node appearance, taint removal, readiness, resource report
	evs := []opT{opb("NodeAppear", true), opb("NReady", true), op("NStartupOff"), opb("NExt", true)}
	for _, k := range cfgs()[1 : 1+permCfgs] {
		for _, perm := range permutations(len(evs)) {
			for _, sync := range []bool{true, false} {
				ops := []opT{rec(okPlan), op("Sync")}
				for _, i := range perm {
					ops = append(ops, evs[i], rec(okPlan))
					if sync {
						ops = append(ops, op("Sync"))
					}
				}
				ops = append(ops, op("Sync"), rec(okPlan), op("NStartupOff"), rec(okPlan), op("Sync"), rec(okPlan))
				hs = append(hs, hist{K: k, Ops: ops, Tag: "node-event-orders"})
			}
		}
	}
	// 3b. stale status merges: a snapshot is taken at one of six lifecycle stages, the node changes, a reconcile on the
	//     snapshot writes, the node changes again, a second reconcile computed from the SAME (now stale) snapshot writes
	//     after it; then the informer catches up.
	staleAll := staleMerges()
	nStale := 450
	if c.Thorough() {
		nStale = 2500
	}
	rs := c.Rand.Fork()
	for i := 0; i < nStale && i < len(staleAll); i++ {
		j := i + rs.Intn(len(staleAll)-i)
		staleAll[i], staleAll[j] = staleAll[j], staleAll[i]
		hs = append(hs, staleAll[i])
	}
	// 4. random histories
	for i := 0; i < nRandom; i++ {
		hs = append(hs, randomHist(c.Rand.Fork(), ks, maxFaults))
	}
	skipped := runAll(c, ks, hs)
	c.Meta.Rule = fmt.Sprintf("histories of the real lifecycle.Controller.Reconcile: every scripted path (happy, both liveness timeouts at -1/0/+1 s, capacity errors, duplicate node, termination, lost status write with retry/restart/cache expiry at -1/0/+1 s) x a fault at each individual API write / provider call of each reconcile (kept only when the call was reached; %d unreachable combinations skipped) x informer fresh/stale; all 24 orders of node appearance/readiness/taint removal/resource report; stale status merges (7 lifecycle stages x 13 node events x 4 plans x 13 node events x 2 plans, two reconciles computed from the same snapshot writing one after the other, sampled); %d random histories with up to %d faulty reconciles. non-trivial = at least one Reconcile call was made; distinct by configuration and op list",
		skipped, nRandom, maxFaults)
	c.Meta.Exhaustive = false
	c.Meta.Corr = []string{
		"lifecycle.Controller.Reconcile (finalizer patch, sub-reconciler loop, Patch + Status().Patch, result.Min, IgnoreNotFound) = C14.Model.reconcile/finish",
		"lifecycle.Launch.Reconcile/launchNodeClaim (cache, Create, capacity-error delete) = C14.Model.launch",
		"lifecycle.Registration.Reconcile (node lookup, syncNode, hooks, node patch, NodePool health) = C14.Model.registration",
		"lifecycle.Initialization.Reconcile = C14.Model.initialization",
		"lifecycle.Liveness.Reconcile = C14.Model.liveness",
		"lifecycle.Controller.finalize = C14.Model.finalize",
		"cache.New(time.Hour, ..), LaunchTimeout, registrationTimeout = k_ttl, k_lt, k_rt of every case (and timing_ok)",
		"launchNodeClaim error classification (errors.As over wrapped chains) = C14.Model.pclass_of; truncateMessage observed on the condition message",
	}
	c.Meta.Extra = map[string]interface{}{
		"constants": map[string]int64{"launch_cache_ttl_s": ks.TTL, "launch_timeout_s": ks.LT, "registration_timeout_s": ks.RT},
		"assumptions": []string{
			"create_at_most_once: no process restart in the history and the launch cache entry is within its TTL whenever a reconcile consults it (no_expiry); conditions_ordered: no_expiry only; syntactic sufficient condition (theorem no_expiry_if_paced): fresh reads and reconciles at most g seconds apart with g + 1 <= TTL",
			"the API server's optimistic locking and the informer are not modelled beyond: a write has one of four outcomes, the cached object is a past snapshot of the stored one (Sync)",
			"go-cache expiry is replayed on the fake clock by the harness (entry dropped when fake now > stored-at + TTL)",
		},
	}
	c.Finish("From KV Require Import C14.Model C14.Spec C14.Check.", "case", "check_all", 700)
}

// the scripts that get a fault at each call of each reconcile
func faultScripts(k cfgT, ks consts, thorough bool) [][]opT {
	m := scripts(k, ks)
	if thorough {
		return sortedScripts(m)
	}
	var out [][]opT
	for _, n := range []string{"happy", "launch-timeout@+0", "registration-timeout@+0", "both-timeouts", "capacity", "create-error-shape-CWI", "terminate", "duplicate-node"} {
		out = append(out, m[n])
	}
	return out
}

// staleMerges enumerates stage x node event x plan x node event x plan.
func staleMerges() []hist {
	full := cfgT{Managed: true, Startup: true, Ext: true, Hook: true, Pool: true}
	plain := cfgT{Managed: true, Ext: true}
	type stage struct {
		k   cfgT
		ops []opT
	}
	stages := []stage{
		{plain, []opT{rec(plan{Create: 4})}},     // finalizer, launch failed
		{plain, []opT{rec(okPlan)}},              // launched, node not found
		{plain, []opT{rec(plan{ListReg: true})}}, // launched, Registered still awaiting
		{full, []opT{rec(okPlan), op("Sync"), opb("NodeAppear", true), rec(plan{Hook: 1, HookD: 30})}},    // hook pending
		{plain, []opT{rec(okPlan), op("Sync"), opb("NodeAppear", true), rec(okPlan)}},                     // registered, not ready
		{full, []opT{rec(okPlan), op("Sync"), opb("NodeAppear", true), opb("NReady", true), rec(okPlan)}}, // registered, startup taint
		{plain, happy(plain)}, // initialized
	}
	events := []*opT{nil, {Kind: "NodeAppear", B: true}, {Kind: "NodeAppear"}, {Kind: "NReady", B: true}, {Kind: "NReady"}, {Kind: "NStartupOff"},
		{Kind: "NExt", B: true}, {Kind: "NExt"}, {Kind: "NEph", B: true}, {Kind: "DupAppear"}, {Kind: "DupVanish"}, {Kind: "NodeVanish"}, {Kind: "EnvDelete"}}
	plans := []plan{okPlan, {Status: 3}, {Create: 4}, {NPatchReg: 1}}
	var out []hist
	for _, st := range stages {
		for _, e1 := range events {
			for _, a := range plans {
				for _, e2 := range events {
					for _, b := range plans[:2] {
						ops := append(append([]opT{}, st.ops...), op("Sync"))
						if e1 != nil {
							ops = append(ops, *e1)
						}
						ops = append(ops, rec(a))
						if e2 != nil {
							ops = append(ops, *e2)
						}
						ops = append(ops, rec(b), op("Sync"), rec(okPlan), op("Sync"))
						out = append(out, hist{K: st.k, Ops: ops, Tag: "stale-merge"})
					}
				}
			}
		}
	}
	return out
}

func sortedScripts(m map[string][]opT) [][]opT {
	keys := kit.SortedKeys(m)
	out := make([][]opT, len(keys))
	for i, k := range keys {
		out[i] = m[k]
	}
	return out
}
