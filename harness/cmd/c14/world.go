// Package c14 drives the real nodeclaim lifecycle controller (Controller.Reconcile with its
// Launch / Registration / Initialization / Liveness sub-reconcilers and finalize) against the
// in-memory API client with a fault plan per reconcile, and writes what it did as Gallina cases.
package main

import (
	"context"
	"errors"
	"fmt"
	"path/filepath"
	"runtime"
	"sort"
	"strings"
	"time"

	"github.com/awslabs/operatorpkg/object"
	"github.com/samber/lo"
	corev1 "k8s.io/api/core/v1"
	apierrors "k8s.io/apimachinery/pkg/api/errors"
	"k8s.io/apimachinery/pkg/api/resource"
	metav1 "k8s.io/apimachinery/pkg/apis/meta/v1"
	k8sruntime "k8s.io/apimachinery/pkg/runtime"
	"k8s.io/apimachinery/pkg/runtime/schema"
	"k8s.io/apimachinery/pkg/types"
	clock "k8s.io/utils/clock/testing"
	"sigs.k8s.io/controller-runtime/pkg/client"
	ctrlfake "sigs.k8s.io/controller-runtime/pkg/client/fake"
	"sigs.k8s.io/controller-runtime/pkg/client/interceptor"
	"sigs.k8s.io/controller-runtime/pkg/reconcile"

	v1 "sigs.k8s.io/karpenter/pkg/apis/v1"
	"sigs.k8s.io/karpenter/pkg/cloudprovider"
	"sigs.k8s.io/karpenter/pkg/cloudprovider/fake"
	"sigs.k8s.io/karpenter/pkg/controllers/nodeclaim/lifecycle"
	"sigs.k8s.io/karpenter/pkg/state/nodepoolhealth"
	"sigs.k8s.io/karpenter/pkg/test"
	testv1alpha1 "sigs.k8s.io/karpenter/pkg/test/v1alpha1"

	"verifharness/kit"
)

// ---------------------------------------------------------------- plans

const (
	wOk = iota
	wConflict
	wNotFound
	wErr
)

var wrNames = []string{"WOk", "WConflict", "WNotFound", "WErr"}

// what the scripted provider's Create returns: index into createShapes.  A shape is the error chain,
// outermost layer first: I = *InsufficientCapacityError, N = *NodeClassNotReadyError, C = *CreateError,
// W = fmt.Errorf("...: %w", _); the innermost error is a plain errors.New.
var createShapes = []string{"", "I", "N", "C", "-", "CWI", "CN", "WI", "WN", "IC", "WC", "CWN", "WCWI"}

func layersG(shape string) string {
	m := map[byte]string{'I': "YInsufficient", 'N': "YNotReady", 'C': "YCreateErr", 'W': "YWrap"}
	var out []string
	for i := 0; i < len(shape); i++ {
		if n, ok := m[shape[i]]; ok {
			out = append(out, n)
		}
	}
	return kit.GList(out)
}

var poutNames = func() []string {
	out := make([]string, len(createShapes))
	for i, sh := range createShapes {
		switch i {
		case 0:
			out[i] = "POk"
		default:
			out[i] = "(PFail " + layersG(sh) + ")"
		}
	}
	return out
}()

var poutShort = []string{"Ok", "Insufficient", "NotReady", "CreateErr", "Generic", "CreateErr>wrap>Insufficient", "CreateErr>NotReady",
	"wrap>Insufficient", "wrap>NotReady", "Insufficient>CreateErr", "wrap>CreateErr", "CreateErr>wrap>NotReady", "wrap>CreateErr>wrap>Insufficient"}

// createError builds the error chain of a shape.
func createError(shape string, long bool) error {
	var err error = errors.New("injected create failure")
	if long {
		err = errors.New("injected create failure " + strings.Repeat("x", 400))
	}
	for i := len(shape) - 1; i >= 0; i-- {
		switch shape[i] {
		case 'I':
			err = cloudprovider.NewInsufficientCapacityError(err)
		case 'N':
			err = cloudprovider.NewNodeClassNotReadyError(err)
		case 'C':
			err = cloudprovider.NewCreateError(err, "CErr", "injected create error")
		case 'W':
			err = fmt.Errorf("provider wrapped: %w", err)
		}
	}
	return err
}

type plan struct {
	Fin, Create, DelLaunch int
	ListReg                bool
	Hook, HookD            int // 0 ready, 1 pending HookD seconds, 2 requeue, 3 error
	NPatchReg, PoolReg     int
	ListInit               bool
	NPatchInit             int
	PoolLive1, DelLive1    int
	PoolLive2, DelLive2    int
	Patch, Status          int
	PDelErr                bool
	Term, Unfin            int
	ListFin, NDelErr       bool // finalize: node list fails / Delete(node) fails
	PoolPatch              int  // harness-only: the NodePool status patch inside updateNodePoolRegistrationHealth fails; realised as the pool outcome
}

func (p plan) hook() string {
	switch p.Hook {
	case 1:
		return fmt.Sprintf("(HPending %d)", p.HookD)
	case 2:
		return "HRequeue"
	case 3:
		return "HErr"
	}
	return "HReady"
}

func (p plan) isOK() bool { p.PoolPatch = 0; return p == plan{} }

func (p plan) gallina() string {
	if p.isOK() {
		return "okp"
	}
	return fmt.Sprintf("(mkPlan %s %s %s %s %s %s %s %s %s %s %s %s %s %s %s %s %s %s %s %s)",
		wrNames[p.Fin], poutNames[p.Create], wrNames[p.DelLaunch], kit.GBool(p.ListReg), p.hook(),
		wrNames[p.NPatchReg], wrNames[p.PoolReg], kit.GBool(p.ListInit), wrNames[p.NPatchInit],
		wrNames[p.PoolLive1], wrNames[p.DelLive1], wrNames[p.PoolLive2], wrNames[p.DelLive2],
		wrNames[p.Patch], wrNames[p.Status], kit.GBool(p.PDelErr), wrNames[p.Term], wrNames[p.Unfin], kit.GBool(p.ListFin), kit.GBool(p.NDelErr))
}

// short description of the injected faults (for the distribution table / keys)
func (p plan) faults() []string {
	var f []string
	add := func(n string, v int) {
		if v != 0 {
			f = append(f, n+"="+wrNames[v][1:])
		}
	}
	add("fin", p.Fin)
	if p.Create != 0 {
		f = append(f, "create="+poutShort[p.Create])
	}
	add("del_launch", p.DelLaunch)
	if p.ListReg {
		f = append(f, "list_reg")
	}
	if p.Hook != 0 {
		f = append(f, "hook="+[]string{"", "pending", "requeue", "err"}[p.Hook])
	}
	add("npatch_reg", p.NPatchReg)
	add("pool_reg", p.PoolReg)
	if p.ListInit {
		f = append(f, "list_init")
	}
	add("npatch_init", p.NPatchInit)
	add("pool_live1", p.PoolLive1)
	add("del_live1", p.DelLive1)
	add("pool_live2", p.PoolLive2)
	add("del_live2", p.DelLive2)
	add("patch", p.Patch)
	add("status", p.Status)
	if p.PDelErr {
		f = append(f, "pdel")
	}
	add("term", p.Term)
	add("unfin", p.Unfin)
	add("pool_patch", p.PoolPatch)
	if p.ListFin {
		f = append(f, "list_fin")
	}
	if p.NDelErr {
		f = append(f, "node_del")
	}
	return f
}

// ---------------------------------------------------------------- configuration

type cfgT struct {
	Managed, Startup, Ext, Hook, Pool bool
	// harness-only dimensions (the model's behaviour does not depend on them; the observations do)
	Orphan  bool // nodepool label present but no owner reference to the NodePool
	ZeroReq bool // a zero-quantity request for a resource the node never reports
	Taints  bool // spec.taints non-empty (synced onto the node)
	LongMsg bool // generic provider errors carry a 400-byte message
}

type consts struct{ TTL, LT, RT int64 }

func (k cfgT) gallina(ks consts) string {
	return fmt.Sprintf("(mkCfg %s %s %s %s %s %s %s %s)", kit.GZ(ks.TTL), kit.GZ(ks.LT), kit.GZ(ks.RT),
		kit.GBool(k.Managed), kit.GBool(k.Startup), kit.GBool(k.Ext), kit.GBool(k.Hook), kit.GBool(k.Pool))
}

// ---------------------------------------------------------------- the world

const (
	claimName   = "claim"
	nodeName    = "node-main"
	dupName     = "node-zdup"
	poolName    = "pool"
	extRes      = "example.com/gpu"
	startupK    = "example.com/startup"
	claimTaintK = "example.com/claim-taint"
	foreignFin  = "example.com/foreign-finalizer"
)

type world struct {
	k     cfgT
	ks    consts
	ctx   context.Context
	c     client.WithWatch
	clk   *clock.FakeClock
	t0    time.Time
	prov  *prov
	hook  *hookT
	ctrl  *lifecycle.Controller
	np    *nodepoolhealth.State
	view  *v1.NodeClaim
	uid   string
	inRec bool
	plan  plan // injected
	real  plan // realised outcomes of the calls that were made
	effs  []string
	occ   map[string]int
	// emulation of the launch cache's wall-clock TTL on the fake clock
	lastExp    time.Time
	cacheSetAt time.Time
	// Go-side observations
	createWithoutFinalizer bool
	createShapes           []string
	listHit                map[string]bool
	poolPatchHit           bool
	hookHit                bool
	unexpected             []string
}

var gr = schema.GroupResource{Group: "verif", Resource: "injected"}

func injected(kind int, name string) error {
	switch kind {
	case wConflict:
		return apierrors.NewConflict(gr, name, errors.New("injected conflict"))
	case wNotFound:
		return apierrors.NewNotFound(gr, name)
	}
	return apierrors.NewInternalError(errors.New("injected server error"))
}

func classify(err error) int {
	switch {
	case err == nil:
		return wOk
	case apierrors.IsConflict(err):
		return wConflict
	case apierrors.IsNotFound(err):
		return wNotFound
	}
	return wErr
}

// callerFile returns the base name of the lifecycle source file the current API call comes from.
func callerFile() string {
	pcs := make([]uintptr, 64)
	n := runtime.Callers(3, pcs)
	frames := runtime.CallersFrames(pcs[:n])
	for {
		f, more := frames.Next()
		if strings.Contains(f.File, "/pkg/controllers/nodeclaim/lifecycle/") && !strings.Contains(f.File, "verif_export") {
			return filepath.Base(f.File)
		}
		if !more {
			break
		}
	}
	return ""
}

// write runs one intercepted call of the controller at a named site.
func (w *world) write(planned int, realised *int, effName string, name string, do func() error) error {
	if planned != wOk {
		*realised = planned
		if effName != "" {
			w.effs = append(w.effs, effName+" "+wrNames[planned])
		}
		return injected(planned, name)
	}
	err := do()
	r := classify(err)
	*realised = r
	if effName != "" {
		w.effs = append(w.effs, effName+" "+wrNames[r])
	}
	return err
}

func (w *world) unexpectedCall(what string) {
	w.unexpected = append(w.unexpected, what)
}

// slot is one worker: a fake API client that is reused across histories (building one costs ~40 ms)
// and the world currently attached to it.
type slot struct {
	c   client.WithWatch
	cur *world
}

func newSlot() *slot {
	s := &slot{}
	s.c = newLocalClient(s.funcs())
	return s
}

// newLocalClient is kit.NewClient over a scheme that only holds the core group and karpenter.sh/v1:
// controller-runtime's fake client rebuilds a REST mapper over the whole scheme on every write, which
// dominates the run time with client-go's full scheme.
func newLocalClient(funcs interceptor.Funcs) client.WithWatch {
	sch := k8sruntime.NewScheme()
	must(corev1.AddToScheme(sch))
	gv := schema.GroupVersion{Group: "karpenter.sh", Version: "v1"}
	metav1.AddToGroupVersion(sch, gv)
	sch.AddKnownTypes(gv, &v1.NodePool{}, &v1.NodePoolList{}, &v1.NodeClaim{}, &v1.NodeClaimList{})
	return ctrlfake.NewClientBuilder().WithScheme(sch).
		WithStatusSubresource(&v1.NodeClaim{}, &v1.NodePool{}, &corev1.Node{}).
		WithIndex(&corev1.Node{}, "spec.providerID", func(o client.Object) []string { return []string{o.(*corev1.Node).Spec.ProviderID} }).
		WithIndex(&v1.NodeClaim{}, "status.providerID", func(o client.Object) []string { return []string{o.(*v1.NodeClaim).Status.ProviderID} }).
		WithInterceptorFuncs(funcs).Build()
}

// wipe removes every object a history may have left behind.
func (s *slot) wipe() {
	ctx := kit.Context()
	s.cur = nil
	for _, name := range []string{nodeName, dupName} {
		n := &corev1.Node{}
		if err := s.c.Get(ctx, client.ObjectKey{Name: name}, n); err == nil {
			if len(n.Finalizers) > 0 {
				n.Finalizers = nil
				must(s.c.Update(ctx, n))
			}
			must(client.IgnoreNotFound(s.c.Delete(ctx, n)))
		}
	}
	nc := &v1.NodeClaim{}
	if err := s.c.Get(ctx, client.ObjectKey{Name: claimName}, nc); err == nil {
		if len(nc.Finalizers) > 0 {
			nc.Finalizers = nil
			must(s.c.Update(ctx, nc))
		}
		must(client.IgnoreNotFound(s.c.Delete(ctx, nc)))
	}
	np := &v1.NodePool{}
	if err := s.c.Get(ctx, client.ObjectKey{Name: poolName}, np); err == nil {
		must(client.IgnoreNotFound(s.c.Delete(ctx, np)))
	}
}

func (s *slot) funcs() interceptor.Funcs {
	return interceptor.Funcs{
		Patch: func(ctx context.Context, cl client.WithWatch, obj client.Object, patch client.Patch, opts ...client.PatchOption) error {
			do := func() error { return cl.Patch(ctx, obj, patch, opts...) }
			w := s.cur
			if w == nil || !w.inRec {
				return do()
			}
			file := callerFile()
			switch obj.(type) {
			case *v1.NodeClaim:
				if file != "controller.go" {
					w.unexpectedCall("Patch(NodeClaim) from " + file)
					return do()
				}
				w.occ["patch"]++
				switch {
				case w.view.DeletionTimestamp != nil:
					return w.write(w.plan.Unfin, &w.real.Unfin, "EUnfin", claimName, do)
				case !lo.Contains(w.view.Finalizers, v1.TerminationFinalizer) && w.occ["patch"] == 1:
					return w.write(w.plan.Fin, &w.real.Fin, "EFin", claimName, do)
				default:
					return w.write(w.plan.Patch, &w.real.Patch, "EPatch", claimName, do)
				}
			case *corev1.Node:
				switch file {
				case "registration.go":
					return w.write(w.plan.NPatchReg, &w.real.NPatchReg, "ENodePatchReg", nodeName, do)
				case "initialization.go":
					return w.write(w.plan.NPatchInit, &w.real.NPatchInit, "ENodePatchInit", nodeName, do)
				}
				w.unexpectedCall("Patch(Node) from " + file)
			}
			return do()
		},
		SubResourcePatch: func(ctx context.Context, cl client.Client, sub string, obj client.Object, patch client.Patch, opts ...client.SubResourcePatchOption) error {
			do := func() error { return cl.SubResource(sub).Patch(ctx, obj, patch, opts...) }
			w := s.cur
			if w == nil || !w.inRec {
				return do()
			}
			if _, ok := obj.(*v1.NodeClaim); ok && sub == "status" {
				if w.view.DeletionTimestamp != nil {
					return w.write(w.plan.Term, &w.real.Term, "ETerm", claimName, do)
				}
				return w.write(w.plan.Status, &w.real.Status, "EStatus", claimName, do)
			}
			if _, ok := obj.(*v1.NodePool); ok && sub == "status" {
				w.poolPatchHit = true
				if k := w.plan.PoolPatch; k != wOk {
					// the code ignores NotFound here and returns every other error exactly like a failed Get
					if k != wNotFound {
						var realised *int
						switch callerFile() {
						case "registration.go":
							realised = &w.real.PoolReg
						case "liveness.go":
							realised = lo.Ternary(w.occ["pool_live"] <= 1, &w.real.PoolLive1, &w.real.PoolLive2)
						}
						if realised != nil {
							*realised = k
							for i := len(w.effs) - 1; i >= 0; i-- {
								if strings.HasPrefix(w.effs[i], "EPool") {
									w.effs[i] = strings.SplitN(w.effs[i], " ", 2)[0] + " " + wrNames[k]
									break
								}
							}
						}
					}
					return injected(k, poolName)
				}
			}
			return do()
		},
		Delete: func(ctx context.Context, cl client.WithWatch, obj client.Object, opts ...client.DeleteOption) error {
			do := func() error { return cl.Delete(ctx, obj, opts...) }
			w := s.cur
			if w == nil || !w.inRec {
				return do()
			}
			file := callerFile()
			switch o := obj.(type) {
			case *v1.NodeClaim:
				switch file {
				case "launch.go":
					return w.write(w.plan.DelLaunch, &w.real.DelLaunch, "EDelLaunch", claimName, do)
				case "liveness.go":
					w.occ["del_live"]++
					if w.occ["del_live"] == 1 {
						return w.write(w.plan.DelLive1, &w.real.DelLive1, "EDelLive", claimName, do)
					}
					return w.write(w.plan.DelLive2, &w.real.DelLive2, "EDelLive", claimName, do)
				}
				w.unexpectedCall("Delete(NodeClaim) from " + file)
			case *corev1.Node:
				if o.Name == dupName {
					w.effs = append(w.effs, "EDupDel")
				} else {
					if w.plan.NDelErr {
						w.effs = append(w.effs, "ENodeDelFail")
						return injected(wErr, nodeName)
					}
					w.effs = append(w.effs, "ENodeDel")
				}
			}
			return do()
		},
		List: func(ctx context.Context, cl client.WithWatch, list client.ObjectList, opts ...client.ListOption) error {
			if w := s.cur; w != nil && w.inRec {
				if _, ok := list.(*corev1.NodeList); ok {
					switch callerFile() {
					case "registration.go":
						w.listHit["list_reg"] = true
						if w.plan.ListReg {
							return injected(wErr, "nodes")
						}
					case "controller.go":
						w.listHit["list_fin"] = true
						if w.plan.ListFin {
							return injected(wErr, "nodes")
						}
					case "initialization.go":
						w.listHit["list_init"] = true
						if w.plan.ListInit {
							return injected(wErr, "nodes")
						}
					}
				}
			}
			return cl.List(ctx, list, opts...)
		},
		Get: func(ctx context.Context, cl client.WithWatch, key client.ObjectKey, obj client.Object, opts ...client.GetOption) error {
			do := func() error { return cl.Get(ctx, key, obj, opts...) }
			w := s.cur
			if w == nil || !w.inRec {
				return do()
			}
			if _, ok := obj.(*v1.NodePool); ok {
				switch callerFile() {
				case "registration.go":
					return w.write(w.plan.PoolReg, &w.real.PoolReg, "EPoolReg", poolName, do)
				case "liveness.go":
					w.occ["pool_live"]++
					if w.occ["pool_live"] == 1 {
						return w.write(w.plan.PoolLive1, &w.real.PoolLive1, "EPoolLive", poolName, do)
					}
					return w.write(w.plan.PoolLive2, &w.real.PoolLive2, "EPoolLive", poolName, do)
				}
			}
			return do()
		},
	}
}

// ---------------------------------------------------------------- provider and hook

type prov struct {
	*fake.CloudProvider
	w     *world
	made  int
	alive map[int]bool
}

func pidStr(i int) string { return fmt.Sprintf("verif:///i-%d", i) }
func pidOf(s string) (int, bool) {
	var i int
	if _, err := fmt.Sscanf(s, "verif:///i-%d", &i); err != nil {
		return 0, false
	}
	return i, true
}

func (p *prov) Create(ctx context.Context, nc *v1.NodeClaim) (*v1.NodeClaim, error) {
	w := p.w
	o := w.plan.Create
	w.real.Create = o
	w.effs = append(w.effs, "ECreate "+poutNames[o])
	w.createShapes = append(w.createShapes, poutShort[o])
	// direct observation for create_after_finalizer: what does the API server hold right now?
	w.inRec = false
	cur := &v1.NodeClaim{}
	if err := w.c.Get(ctx, client.ObjectKey{Name: claimName}, cur); err != nil || !lo.Contains(cur.Finalizers, v1.TerminationFinalizer) {
		w.createWithoutFinalizer = true
	}
	w.inRec = true
	if string(nc.UID) != w.uid {
		w.unexpectedCall("Create for another UID")
	}
	if o != 0 {
		return nil, createError(createShapes[o], w.k.LongMsg)
	}
	id := p.made
	p.made++
	p.alive[id] = true
	return &v1.NodeClaim{
		ObjectMeta: metav1.ObjectMeta{
			Name:   nc.Name,
			Labels: lo.Assign(map[string]string{corev1.LabelInstanceTypeStable: "verif-type", corev1.LabelTopologyZone: "zone-a"}, nc.Labels),
		},
		Spec: *nc.Spec.DeepCopy(),
		Status: v1.NodeClaimStatus{
			ProviderID:  pidStr(id),
			Capacity:    corev1.ResourceList{corev1.ResourceCPU: resource.MustParse("4")},
			Allocatable: corev1.ResourceList{corev1.ResourceCPU: resource.MustParse("4")},
		},
	}, nil
}

func (p *prov) Delete(_ context.Context, nc *v1.NodeClaim) error {
	w := p.w
	if w.plan.PDelErr {
		w.effs = append(w.effs, "EPDel DFailed")
		return errors.New("injected provider delete failure")
	}
	id, ok := pidOf(nc.Status.ProviderID)
	if ok && p.alive[id] {
		delete(p.alive, id)
		w.effs = append(w.effs, "EPDel DDeleted")
		return nil
	}
	w.effs = append(w.effs, "EPDel DNotFound")
	return cloudprovider.NewNodeClaimNotFoundError(errors.New("no such instance"))
}

type hookT struct{ w *world }

func (h *hookT) Name() string { return "verif-hook" }
func (h *hookT) Registered(context.Context, *v1.NodeClaim) (cloudprovider.NodeLifecycleHookResult, error) {
	p := h.w.plan
	h.w.real.Hook, h.w.real.HookD = p.Hook, p.HookD
	h.w.hookHit = true
	switch p.Hook {
	case 1:
		return cloudprovider.NodeLifecycleHookResult{RequeueAfter: time.Duration(p.HookD) * time.Second}, nil
	case 2:
		return cloudprovider.NodeLifecycleHookResult{Requeue: true}, nil
	case 3:
		return cloudprovider.NodeLifecycleHookResult{}, errors.New("injected hook failure")
	}
	return cloudprovider.NodeLifecycleHookResult{}, nil
}

// ---------------------------------------------------------------- construction

func readConsts() consts {
	// the TTL is measured on a throw-away controller: store an entry and read its expiration
	return consts{LT: int64(lifecycle.LaunchTimeout / time.Second), RT: int64(lifecycle.VerifRegistrationTimeout() / time.Second)}
}

func newWorld(sl *slot, k cfgT, ks consts) *world {
	sl.wipe()
	w := &world{k: k, ks: ks, ctx: kit.Context(), t0: time.Unix(1_700_000_000, 0), occ: map[string]int{}, listHit: map[string]bool{}}
	w.clk = clock.NewFakeClock(w.t0)
	w.c = sl.c
	sl.cur = w
	w.prov = &prov{CloudProvider: fake.NewCloudProvider(), w: w, alive: map[int]bool{}}
	w.hook = &hookT{w: w}
	w.np = nodepoolhealth.NewState()
	w.newController()

	nodeClass := test.NodeClass()
	pool := test.NodePool()
	pool.Name = poolName
	pool.UID = "pool-uid"
	must(w.c.Create(w.ctx, pool))

	nc := test.NodeClaim()
	nc.Name = claimName
	nc.UID = types.UID("claim-uid")
	nc.Status = v1.NodeClaimStatus{}
	nc.CreationTimestamp = metav1.NewTime(w.t0)
	nc.Labels = map[string]string{}
	nc.Labels["verif/claim-label"] = "x"
	nc.Annotations = map[string]string{"verif/claim-annotation": "y"}
	if k.Taints {
		nc.Spec.Taints = []corev1.Taint{{Key: claimTaintK, Effect: corev1.TaintEffectNoSchedule}}
	}
	if k.Pool {
		nc.Labels[v1.NodePoolLabelKey] = poolName
	}
	if k.Pool && k.Orphan {
		nc.OwnerReferences = []metav1.OwnerReference{{APIVersion: object.GVK(pool).GroupVersion().String(), Kind: object.GVK(pool).Kind, Name: pool.Name, UID: "some-other-pool-uid"}}
	}
	if k.Pool && !k.Orphan {
		nc.OwnerReferences = []metav1.OwnerReference{{APIVersion: object.GVK(pool).GroupVersion().String(), Kind: object.GVK(pool).Kind, Name: pool.Name, UID: pool.UID}}
	}
	gvk := object.GVK(nodeClass)
	nc.Spec.NodeClassRef = &v1.NodeClassReference{Group: gvk.Group, Kind: gvk.Kind, Name: "default"}
	if !k.Managed {
		nc.Spec.NodeClassRef.Kind = "SomebodyElsesNodeClass"
	}
	nc.Spec.Resources.Requests = corev1.ResourceList{corev1.ResourceCPU: resource.MustParse("1")}
	if k.Ext {
		nc.Spec.Resources.Requests[extRes] = resource.MustParse("1")
	}
	if k.ZeroReq {
		nc.Spec.Resources.Requests["example.com/never-reported"] = resource.MustParse("0")
	}
	if k.Startup {
		nc.Spec.StartupTaints = []corev1.Taint{{Key: startupK, Effect: corev1.TaintEffectNoSchedule}}
	}
	must(w.c.Create(w.ctx, nc))
	w.uid = string(nc.UID)
	w.sync()
	_ = testv1alpha1.TestNodeClass{}
	return w
}

func (w *world) newController() {
	var hooks []cloudprovider.NodeLifecycleHook
	if w.k.Hook {
		hooks = []cloudprovider.NodeLifecycleHook{w.hook}
	}
	w.ctrl = lifecycle.NewController(w.clk, w.c, w.prov, test.NewEventRecorder(), w.np, hooks)
	w.lastExp, w.cacheSetAt = time.Time{}, time.Time{}
}

func must(err error) {
	if err != nil {
		panic(err)
	}
}

// ---------------------------------------------------------------- reading the API

func (w *world) claim() *v1.NodeClaim {
	nc := &v1.NodeClaim{}
	if err := w.c.Get(w.ctx, client.ObjectKey{Name: claimName}, nc); err != nil {
		if apierrors.IsNotFound(err) {
			return nil
		}
		panic(err)
	}
	return nc
}

func (w *world) node(name string) *corev1.Node {
	n := &corev1.Node{}
	if err := w.c.Get(w.ctx, client.ObjectKey{Name: name}, n); err != nil {
		if apierrors.IsNotFound(err) {
			return nil
		}
		panic(err)
	}
	return n
}

func (w *world) sync() { w.view = w.claim() }

func (w *world) nowS() int64 { return int64(w.clk.Now().Sub(w.t0) / time.Second) }

func (w *world) cacheLive() bool {
	_, ok := w.ctrl.VerifLaunchCacheExpiration(w.uid)
	return ok && !w.clk.Now().After(w.cacheSetAt.Add(time.Duration(w.ks.TTL)*time.Second))
}

// ---------------------------------------------------------------- ops

type opT struct {
	Kind string `json:"op"`
	D    int    `json:"d,omitempty"`
	B    bool   `json:"b,omitempty"`
	Plan *plan  `json:"plan,omitempty"`
}

// taints the code treats as ephemeral (scheduling.KnownEphemeralTaints and the readiness.k8s.io/ prefix); the last
// entry has a known key with an effect that is NOT in the list and must not block initialization
var ephKinds = []corev1.Taint{
	{Key: corev1.TaintNodeNotReady, Effect: corev1.TaintEffectNoSchedule},
	{Key: corev1.TaintNodeNotReady, Effect: corev1.TaintEffectNoExecute},
	{Key: corev1.TaintNodeUnreachable, Effect: corev1.TaintEffectNoSchedule},
	{Key: "node.cloudprovider.kubernetes.io/uninitialized", Effect: corev1.TaintEffectNoSchedule, Value: "true"},
	{Key: "readiness.k8s.io/verif-rule", Effect: corev1.TaintEffectNoSchedule},
	{Key: corev1.TaintNodeUnreachable, Effect: corev1.TaintEffectPreferNoSchedule},
}

func isEphKey(k string) bool {
	return lo.ContainsBy(ephKinds, func(t corev1.Taint) bool { return t.Key == k })
}

func (w *world) hasEph(n *corev1.Node) bool {
	return lo.ContainsBy(n.Spec.Taints, func(t corev1.Taint) bool {
		return lo.ContainsBy(ephKinds[:len(ephKinds)-1], func(e corev1.Taint) bool { return e.Key == t.Key && e.Effect == t.Effect })
	})
}

func (w *world) hasTaint(n *corev1.Node, key string) bool {
	return lo.ContainsBy(n.Spec.Taints, func(t corev1.Taint) bool { return t.Key == key })
}

func (w *world) updateNode(f func(n *corev1.Node)) {
	n := w.node(nodeName)
	if n == nil {
		return
	}
	f(n)
	st := n.DeepCopy()
	must(w.c.Update(w.ctx, n))
	st.ResourceVersion = n.ResourceVersion
	must(w.c.Status().Update(w.ctx, st))
}

// apply runs one op and returns (gallina op, effects, result).
func (w *world) apply(o opT) (string, []string, string) {
	switch o.Kind {
	case "Sync":
		w.sync()
		return "Sync", nil, "QNone"
	case "Tick":
		w.clk.Step(time.Duration(o.D) * time.Second)
		return fmt.Sprintf("(Tick %d)", o.D), nil, "QNone"
	case "EnvDelete":
		if nc := w.claim(); nc != nil {
			must(client.IgnoreNotFound(w.c.Delete(w.ctx, nc)))
		}
		return "EnvDelete", nil, "QNone"
	case "Restart":
		w.newController()
		w.sync()
		return "Restart", nil, "QNone"
	case "NodeAppear":
		if w.prov.made > 0 && w.node(nodeName) == nil {
			n := &corev1.Node{ObjectMeta: metav1.ObjectMeta{Name: nodeName, Labels: map[string]string{}}, Spec: corev1.NodeSpec{ProviderID: pidStr(w.prov.made - 1)}}
			if o.B {
				n.Spec.Taints = []corev1.Taint{v1.UnregisteredNoExecuteTaint}
			}
			n.Status.Allocatable = corev1.ResourceList{corev1.ResourceCPU: resource.MustParse("4")}
			n.Status.Capacity = n.Status.Allocatable.DeepCopy()
			n.Status.Conditions = []corev1.NodeCondition{{Type: corev1.NodeReady, Status: corev1.ConditionFalse}}
			st := n.DeepCopy()
			must(w.c.Create(w.ctx, n))
			st.ResourceVersion = n.ResourceVersion
			must(w.c.Status().Update(w.ctx, st))
		}
		return "(NodeAppear " + kit.GBool(o.B) + ")", nil, "QNone"
	case "NReady":
		w.updateNode(func(n *corev1.Node) {
			switch {
			case o.B:
				n.Status.Conditions = []corev1.NodeCondition{{Type: corev1.NodeReady, Status: corev1.ConditionTrue}}
			case o.D == 1:
				n.Status.Conditions = []corev1.NodeCondition{{Type: corev1.NodeReady, Status: corev1.ConditionUnknown}}
			case o.D == 2:
				n.Status.Conditions = []corev1.NodeCondition{{Type: corev1.NodeMemoryPressure, Status: corev1.ConditionFalse}}
			default:
				n.Status.Conditions = []corev1.NodeCondition{{Type: corev1.NodeReady, Status: corev1.ConditionFalse}}
			}
		})
		return "(NReady " + kit.GBool(o.B) + ")", nil, "QNone"
	case "NStartupOff":
		w.updateNode(func(n *corev1.Node) {
			n.Spec.Taints = lo.Reject(n.Spec.Taints, func(t corev1.Taint, _ int) bool { return t.Key == startupK })
		})
		return "NStartupOff", nil, "QNone"
	case "NEph":
		eph := o.B && o.D != len(ephKinds)-1
		w.updateNode(func(n *corev1.Node) {
			n.Spec.Taints = lo.Reject(n.Spec.Taints, func(t corev1.Taint, _ int) bool { return isEphKey(t.Key) })
			if o.B {
				n.Spec.Taints = append(n.Spec.Taints, ephKinds[o.D%len(ephKinds)])
			}
		})
		return "(NEph " + kit.GBool(eph) + ")", nil, "QNone"
	case "NExt":
		w.updateNode(func(n *corev1.Node) {
			if o.B {
				n.Status.Allocatable[extRes] = resource.MustParse("1")
			} else {
				delete(n.Status.Allocatable, extRes)
			}
		})
		return "(NExt " + kit.GBool(o.B) + ")", nil, "QNone"
	case "DupAppear":
		if n := w.node(nodeName); n != nil && w.node(dupName) == nil {
			d := &corev1.Node{ObjectMeta: metav1.ObjectMeta{Name: dupName, Labels: map[string]string{}}, Spec: corev1.NodeSpec{ProviderID: n.Spec.ProviderID}}
			must(w.c.Create(w.ctx, d))
		}
		return "DupAppear", nil, "QNone"
	case "DupVanish":
		if d := w.node(dupName); d != nil {
			must(w.c.Delete(w.ctx, d))
		}
		return "DupVanish", nil, "QNone"
	case "NodeVanish":
		if n := w.node(nodeName); n != nil && w.node(dupName) == nil {
			if len(n.Finalizers) > 0 {
				n.Finalizers = nil
				must(w.c.Update(w.ctx, n))
			}
			if n = w.node(nodeName); n != nil {
				must(w.c.Delete(w.ctx, n))
			}
		}
		return "NodeVanish", nil, "QNone"
	case "ForeignFin":
		if nc := w.claim(); nc != nil {
			nc.Finalizers = lo.Reject(nc.Finalizers, func(f string, _ int) bool { return f == foreignFin })
			if o.B {
				nc.Finalizers = append(nc.Finalizers, foreignFin)
			}
			must(client.IgnoreNotFound(w.c.Update(w.ctx, nc)))
		}
		return "(ForeignFin " + kit.GBool(o.B) + ")", nil, "QNone"
	case "Rec":
		return w.reconcile(*o.Plan)
	}
	panic("unknown op " + o.Kind)
}

func (w *world) reconcile(p plan) (string, []string, string) {
	if w.view == nil {
		return "(Rec " + p.gallina() + ")", nil, "QNone"
	}
	// wall-clock TTL of go-cache, replayed on the fake clock
	if _, ok := w.ctrl.VerifLaunchCacheExpiration(w.uid); ok && w.clk.Now().After(w.cacheSetAt.Add(time.Duration(w.ks.TTL)*time.Second)) {
		w.ctrl.VerifLaunchCacheExpire(w.uid)
	}
	start := w.clk.Now()
	w.plan, w.real, w.effs, w.occ = p, p, nil, map[string]int{}
	w.inRec = true
	res, err := w.ctrl.Reconcile(w.ctx, w.view.DeepCopy())
	w.inRec = false
	if exp, ok := w.ctrl.VerifLaunchCacheExpiration(w.uid); ok && !exp.Equal(w.lastExp) {
		w.lastExp, w.cacheSetAt = exp, start
	}
	return "(Rec " + w.real.gallina() + ")", w.effs, resOf(res, err)
}

func resOf(res reconcile.Result, err error) string {
	switch {
	case err != nil:
		return "QErr"
	case res.IsZero():
		return "QNone"
	}
	return fmt.Sprintf("(QAfter %d)", int64(res.RequeueAfter/time.Second))
}

// ---------------------------------------------------------------- observations

func (w *world) condL(nc *v1.NodeClaim) string {
	c := nc.StatusConditions(statusObserved()).Get(v1.ConditionTypeLaunched)
	switch {
	case c == nil:
		return "LAbsent"
	case c.IsTrue():
		return "LTrue"
	case c.IsUnknown():
		switch c.Reason {
		case "AwaitingReconciliation":
			return "LAwait"
		case "LaunchFailed":
			if len(c.Message) > 303 {
				w.unexpectedCall(fmt.Sprintf("LaunchFailed message of %d bytes was not truncated to 300", len(c.Message)))
			}
			if w.k.LongMsg && len(c.Message) != 303 {
				w.unexpectedCall(fmt.Sprintf("LaunchFailed message of a 400+ byte error has %d bytes, expected 303", len(c.Message)))
			}
			return "LFailed"
		case "CErr":
			return "LCreateErr"
		}
	}
	w.unexpectedCall("Launched condition " + string(c.Status) + "/" + c.Reason)
	return "LAwait"
}

func (w *world) condR(nc *v1.NodeClaim) (string, int64) {
	c := nc.StatusConditions(statusObserved()).Get(v1.ConditionTypeRegistered)
	if c == nil {
		return "RAbsent", 0
	}
	ltt := int64(c.LastTransitionTime.Time.Sub(w.t0) / time.Second)
	switch {
	case c.IsTrue():
		return "RTrue", ltt
	case c.IsFalse() && c.Reason == "MultipleNodesFound":
		return "RMultiple", ltt
	case c.IsUnknown():
		switch c.Reason {
		case "AwaitingReconciliation":
			return "RAwait", ltt
		case "NodeNotFound":
			return "RNodeNotFound", ltt
		case "RegistrationHookPending":
			return "RHookPending", ltt
		}
	}
	w.unexpectedCall("Registered condition " + string(c.Status) + "/" + c.Reason)
	return "RAwait", ltt
}

func (w *world) condI(nc *v1.NodeClaim) string {
	c := nc.StatusConditions(statusObserved()).Get(v1.ConditionTypeInitialized)
	switch {
	case c == nil:
		return "IAbsent"
	case c.IsTrue():
		return "ITrue"
	case c.IsUnknown():
		switch c.Reason {
		case "AwaitingReconciliation":
			return "IAwait"
		case "NodeNotFound":
			return "INodeNotFound"
		case "NodeNotReady":
			return "INotReady"
		case "StartupTaintsExist":
			return "IStartup"
		case "KnownEphemeralTaintsExist":
			return "IEphemeral"
		case "ResourceNotRegistered":
			return "IResource"
		}
	}
	w.unexpectedCall("Initialized condition " + string(c.Status) + "/" + c.Reason)
	return "IAwait"
}

func (w *world) claimG(nc *v1.NodeClaim) string {
	if nc == nil {
		return "None"
	}
	r, ltt := w.condR(nc)
	pid := "None"
	if nc.Status.ProviderID != "" {
		if i, ok := pidOf(nc.Status.ProviderID); ok {
			pid = fmt.Sprintf("(Some %d%%nat)", i)
		} else {
			w.unexpectedCall("provider id " + nc.Status.ProviderID)
		}
	}
	term := nc.StatusConditions(statusObserved()).Get(v1.ConditionTypeInstanceTerminating).IsTrue()
	ffin := lo.ContainsBy(nc.Finalizers, func(f string) bool { return f != v1.TerminationFinalizer })
	return fmt.Sprintf("(Some (mkClaim %s %s %s %s %s %s %s %s %s %s))",
		kit.GBool(lo.Contains(nc.Finalizers, v1.TerminationFinalizer)), kit.GBool(nc.DeletionTimestamp != nil),
		w.condL(nc), r, w.condI(nc), kit.GZ(ltt), pid, kit.GBool(nc.Status.NodeName != ""), kit.GBool(term), kit.GBool(ffin))
}

func (w *world) nodeG() string {
	n := w.node(nodeName)
	if n == nil {
		return "None"
	}
	pid, _ := pidOf(n.Spec.ProviderID)
	ready := lo.ContainsBy(n.Status.Conditions, func(c corev1.NodeCondition) bool {
		return c.Type == corev1.NodeReady && c.Status == corev1.ConditionTrue
	})
	_, reg := n.Labels[v1.NodeRegisteredLabelKey]
	_, ini := n.Labels[v1.NodeInitializedLabelKey]
	ext := false
	if q, ok := n.Status.Allocatable[extRes]; ok && !q.IsZero() {
		ext = true
	}
	synced := lo.Contains(n.Finalizers, v1.TerminationFinalizer) &&
		lo.ContainsBy(n.OwnerReferences, func(o metav1.OwnerReference) bool { return string(o.UID) == w.uid }) &&
		n.Labels["verif/claim-label"] == "x" && n.Annotations["verif/claim-annotation"] == "y" &&
		n.Labels[corev1.LabelInstanceTypeStable] == "verif-type" && (!w.k.Taints || w.hasTaint(n, claimTaintK))
	return fmt.Sprintf("(Some (mkNode %d%%nat %s %s %s %s %s %s %s %s %s))", pid,
		kit.GBool(w.hasTaint(n, v1.UnregisteredTaintKey)), kit.GBool(reg), kit.GBool(ini), kit.GBool(ready),
		kit.GBool(w.hasTaint(n, startupK)), kit.GBool(w.hasEph(n)), kit.GBool(ext),
		kit.GBool(synced), kit.GBool(n.DeletionTimestamp != nil))
}

func (w *world) obsG(effs []string, res string) string {
	alive := make([]int, 0, len(w.prov.alive))
	for i := range w.prov.alive {
		alive = append(alive, i)
	}
	sort.Ints(alive)
	al := make([]string, len(alive))
	for i, a := range alive {
		al[i] = fmt.Sprintf("%d%%nat", a)
	}
	ef := make([]string, len(effs))
	for i, e := range effs {
		if strings.Contains(e, " ") {
			ef[i] = "(" + e + ")"
		} else {
			ef[i] = e
		}
	}
	return fmt.Sprintf("(mkObs %s %s %s %s %s %s %d%%nat %s %s)", kit.GList(ef), res, w.claimG(w.claim()), w.nodeG(),
		kit.GBool(w.node(dupName) != nil), kit.GBool(w.cacheLive()), w.prov.made, kit.GList(al), kit.GZ(w.nowS()))
}
