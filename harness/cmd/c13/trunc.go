package main

import (
	"fmt"
	"sort"

	corev1 "k8s.io/api/core/v1"

	v1 "sigs.k8s.io/karpenter/pkg/apis/v1"
	"sigs.k8s.io/karpenter/pkg/cloudprovider"
	"sigs.k8s.io/karpenter/pkg/operator/options"
	"sigs.k8s.io/karpenter/pkg/scheduling"
	"sigs.k8s.io/karpenter/pkg/test"

	"verifharness/kit"
)

// truncCases drives the real cloudprovider.InstanceTypes.Truncate (the cut of a NodeClaim's options down to
// MaxInstanceTypes before launch) on small catalogues with distinct prices and one or two keys that carry a minValues
// floor: every maxItems from 1 to n+1, both policies. C13.Check.CaseTrunc compares with C13.Trunc.truncate and holds the
// kept list to "subset, at most maxItems, floors still met under the strict policy".
type truncJSON struct {
	Kind   string              `json:"kind"`
	Strict bool                `json:"strict"`
	Mins   map[string]int      `json:"mins"`
	Max    int                 `json:"max_items"`
	Types  []map[string]string `json:"types_cheapest_first"`
	Obs    []string            `json:"kept"`
	Err    string              `json:"error,omitempty"`
}

func truncCases(c *kit.Ctx) {
	n := 120
	if c.Thorough() {
		n = 1500
	}
	keys := []string{"example.com/fam", "example.com/gen"}
	vals := [][]string{{"x", "y", "z", "w"}, {"1", "2", "3"}}
	one := func(r *kit.Rand, fixed [][]string, mins map[string]int) {
		nt := len(fixed)
		type itv struct {
			name string
			kv   map[string]string
			p    float64
		}
		its := make([]itv, nt)
		perm := make([]int, nt)
		for i := range perm {
			perm[i] = i
		}
		for i := nt - 1; i > 0; i-- { // prices are a random permutation: the catalogue order is not the price order
			j := r.Intn(i + 1)
			perm[i], perm[j] = perm[j], perm[i]
		}
		for i := 0; i < nt; i++ {
			its[i] = itv{name: fmt.Sprintf("it-%d", i), kv: map[string]string{}, p: float64(perm[i]+1) * 0.25}
			for ki, k := range keys {
				if ki < len(fixed[i]) && fixed[i][ki] != "" {
					its[i].kv[k] = fixed[i][ki]
				}
			}
		}
		var reqs []*scheduling.Requirement
		for _, k := range keys {
			if m, ok := mins[k]; ok {
				mv := m
				all := vals[0]
				if k == keys[1] {
					all = vals[1]
				}
				reqs = append(reqs, scheduling.NewRequirementWithFlexibility(k, corev1.NodeSelectorOpIn, &mv, all...))
			}
		}
		claimReqs := scheduling.NewRequirements(reqs...)
		build := func() cloudprovider.InstanceTypes {
			var out cloudprovider.InstanceTypes
			for _, t := range its {
				var rs []*scheduling.Requirement
				rs = append(rs, scheduling.NewRequirement(corev1.LabelInstanceTypeStable, corev1.NodeSelectorOpIn, t.name))
				for _, k := range keys {
					if v, ok := t.kv[k]; ok {
						rs = append(rs, scheduling.NewRequirement(k, corev1.NodeSelectorOpIn, v))
					}
				}
				out = append(out, &cloudprovider.InstanceType{Name: t.name, Requirements: scheduling.NewRequirements(rs...),
					Offerings: cloudprovider.Offerings{&cloudprovider.Offering{Available: true, Price: t.p,
						Requirements: scheduling.NewLabelRequirements(map[string]string{v1.CapacityTypeLabelKey: v1.CapacityTypeOnDemand, corev1.LabelTopologyZone: "test-zone-1"})}}})
			}
			return out
		}
		sorted := append([]itv{}, its...)
		sort.Slice(sorted, func(a, b int) bool { return sorted[a].p < sorted[b].p })
		gTypes := make([]string, nt)
		jTypes := make([]map[string]string, nt)
		for i, t := range sorted {
			var kvs []string
			for _, k := range keys {
				if v, ok := t.kv[k]; ok {
					kvs = append(kvs, kit.GPair(kit.GStr(k), kit.GStrs([]string{v})))
				}
			}
			gTypes[i] = kit.GPair(kit.GStr(t.name), kit.GList(kvs))
			jTypes[i] = map[string]string{"name": t.name}
			for k, v := range t.kv {
				jTypes[i][k] = v
			}
		}
		var gMins []string
		for _, k := range keys {
			if m, ok := mins[k]; ok {
				gMins = append(gMins, kit.GPair(kit.GStr(k), fmt.Sprintf("%d%%nat", m)))
			}
		}
		for maxItems := 1; maxItems <= nt+1; maxItems++ {
			for _, strict := range []bool{true, false} {
				pol := options.MinValuesPolicyStrict
				if !strict {
					pol = options.MinValuesPolicyBestEffort
				}
				ctx := options.ToContext(kit.Context(), test.Options(test.OptionsFields{MinValuesPolicy: &pol}))
				kept, err := build().Truncate(ctx, claimReqs, maxItems)
				obs := "None"
				j := truncJSON{Kind: "truncate", Strict: strict, Mins: mins, Max: maxItems, Types: jTypes}
				if err == nil {
					names := make([]string, len(kept))
					for i, it := range kept {
						names[i] = it.Name
					}
					obs = "(Some " + kit.GStrs(names) + ")"
					j.Obs = names
					c.Count("truncate:kept")
				} else {
					j.Err = err.Error()
					c.Count("truncate:error")
				}
				nt := ""
				if len(mins) > 0 && strict {
					nt = fmt.Sprintf("trunc:%v:%d:%s", mins, maxItems, kit.GList(gTypes))
				}
				c.AddCase(fmt.Sprintf("CaseTrunc %s %s %d%%nat %s %s", kit.GBool(strict), kit.GList(gMins), maxItems, kit.GList(gTypes), obs), j, nt)
			}
		}
	}
	// corpus: the floor is reached exactly by the (maxItems+1)-th cheapest type (seeded change C13-4)
	one(kit.NewRand(7), [][]string{{"x"}, {"x"}, {"y"}, {"z"}, {"w"}}, map[string]int{keys[0]: 3})
	one(kit.NewRand(8), [][]string{{"x", "1"}, {"y", "1"}, {"x", "2"}, {"z", "1"}}, map[string]int{keys[0]: 2, keys[1]: 2})
	for k := 0; k < n; k++ {
		r := c.Rand.Fork()
		nt := r.Range(2, 7)
		fixed := make([][]string, nt)
		for i := range fixed {
			fixed[i] = []string{kit.Pick(r, vals[0]), ""}
			if r.Chance(2, 3) {
				fixed[i][1] = kit.Pick(r, vals[1])
			}
			if r.Chance(1, 10) {
				fixed[i][0] = "" // an instance type that does not define the key
			}
		}
		mins := map[string]int{}
		if r.Chance(5, 6) {
			mins[keys[0]] = r.Range(1, 4)
		}
		if r.Chance(1, 3) {
			mins[keys[1]] = r.Range(1, 3)
		}
		one(r, fixed, mins)
	}
}
