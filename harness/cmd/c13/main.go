// c13 drives Requirements.NodeSelectorRequirements, Requirement.Any and NodeClaimTemplate.ToNodeClaim on
// generated requirements / validated NodePools and writes the observations as Gallina cases.
package main

import (
	"fmt"
	"os"
	"sort"
	"strings"

	corev1 "k8s.io/api/core/v1"
	metav1 "k8s.io/apimachinery/pkg/apis/meta/v1"
	"k8s.io/apimachinery/pkg/util/sets"

	v1 "sigs.k8s.io/karpenter/pkg/apis/v1"
	"sigs.k8s.io/karpenter/pkg/cloudprovider"
	"sigs.k8s.io/karpenter/pkg/cloudprovider/fake"
	provscheduling "sigs.k8s.io/karpenter/pkg/controllers/provisioning/scheduling"
	"sigs.k8s.io/karpenter/pkg/scheduling"
	"sigs.k8s.io/karpenter/pkg/test"

	"verifharness/kit"
)

type call struct {
	Op   string   `json:"op"`
	MinV *int     `json:"minValues,omitempty"`
	Vals []string `json:"values"`
}

func (c call) gallina() string {
	mv := "None"
	if c.MinV != nil {
		mv = "(Some " + kit.GZ(int64(*c.MinV)) + ")"
	}
	return fmt.Sprintf("(%s, %s, %s)", c.Op, mv, kit.GStrs(c.Vals))
}
func (c call) mk(key string) *scheduling.Requirement {
	return scheduling.NewRequirementWithFlexibility(key, corev1.NodeSelectorOperator(c.Op), c.MinV, append([]string(nil), c.Vals...)...)
}
func build(key string, cs []call) *scheduling.Requirement {
	r := cs[0].mk(key)
	for _, c := range cs[1:] {
		r = c.mk(key).Intersection(r)
	}
	return r
}
func calls(cs []call) string { return kit.GListOf(cs, func(c call) string { return c.gallina() }) }

var probes = []string{"a", "b", "1", "2", "3", "4", "5", "6", "7", "8", "05", "007", "0", "00", "+2", "-1", "-01", "", "zz",
	"9223372036854775807", "9223372036854775806", "09223372036854775807", "9223372036854775808", "-9223372036854775808", "-9223372036854775807", "1_0", "1e1"}

func optInt(p *int) string {
	if p == nil {
		return "None"
	}
	return "(Some " + kit.GZ(int64(*p)) + ")"
}

func emitted(nsrs []v1.NodeSelectorRequirementWithMinValues) string {
	return kit.GListOf(nsrs, func(n v1.NodeSelectorRequirementWithMinValues) string {
		return fmt.Sprintf("(%s, %s, %s)", string(n.Operator), kit.GStrs(n.Values), optInt(n.MinValues))
	})
}

func hasObs(r *scheduling.Requirement) string {
	out := make([]string, len(probes))
	for i, p := range probes {
		out[i] = kit.GBool(r.Has(p))
	}
	return kit.GList(out)
}

type caseJSON struct {
	Kind     string   `json:"kind"`
	Calls    []call   `json:"calls,omitempty"`
	Key      string   `json:"key,omitempty"`
	NodePool string   `json:"nodepool,omitempty"`
	Results  []string `json:"results,omitempty"`
	KfKey    string   `json:"kf_key,omitempty"`
}

func shape(r *scheduling.Requirement) string {
	compl, gte, lte, _ := r.VerifInternals()
	return fmt.Sprintf("compl=%v,vals=%v,gte=%v,lte=%v", compl, len(r.Values()) > 0, gte != nil, lte != nil)
}

func main() {
	c := kit.Parse("C13", os.Args[1:])
	ctx := kit.Context()
	pList := kit.GStrs(probes)
	two := 2
	numerals := []string{"0", "1", "4", "5", "8", "05", "9223372036854775807", "9223372036854775806", "-1", "-9223372036854775808", "-9223372036854775807"}
	var singles []call
	for _, op := range []string{"In", "NotIn"} {
		for _, vs := range [][]string{{"a"}, {"a", "b"}, {"5"}, {"6"}, {"7"}, {"5", "6", "7"}, {"05"}, {"0"}, {""}, {"9223372036854775807"}} {
			singles = append(singles, call{Op: op, Vals: vs})
		}
	}
	singles = append(singles, call{Op: "Exists", Vals: []string{}}, call{Op: "DoesNotExist", Vals: []string{}}, call{Op: "In", MinV: &two, Vals: []string{"a", "b"}},
		call{Op: "Gt", MinV: &two, Vals: []string{"4"}})
	for _, op := range []string{"Gt", "Lt", "Gte", "Lte"} {
		for _, n := range numerals {
			singles = append(singles, call{Op: op, Vals: []string{n}})
		}
	}
	serCase := func(cs []call) {
		r := build("k", cs)
		_, _, _, undef := r.VerifInternals()
		nsrs := scheduling.NewRequirements(r).NodeSelectorRequirements()
		c.Count("ser:" + shape(r))
		c.AddCase(fmt.Sprintf("CaseSer %s %s %s %s %s", pList, calls(cs), hasObs(r), kit.GBool(undef), emitted(nsrs)),
			caseJSON{Kind: "serialise", Calls: cs}, "ser:"+calls(cs))
	}
	anyCase := func(cs []call, draws int) {
		r := build("k", cs)
		var res, jres []string
		kf := ""
		for i := 0; i < draws; i++ {
			var v string
			panicked, msg := kit.Recover(func() { v = r.Any() })
			if panicked {
				res = append(res, "(None, false)")
				jres = append(jres, "panic: "+msg)
				if strings.Contains(msg, "invalid argument to Intn") {
					kf = "any-panics-intn-nonpositive-range"
				}
				break
			}
			res = append(res, fmt.Sprintf("(Some %s, %s)", kit.GStr(v), kit.GBool(r.Has(v))))
			jres = append(jres, v)
			if v != "" && !r.Has(v) && sets.New(r.Values()...).Has(v) && kf == "" {
				kf = "any-returns-excluded-value"
			}
		}
		c.Count("any:" + shape(r))
		c.AddCase(fmt.Sprintf("CaseAny %s %s", calls(cs), kit.GList(res)), caseJSON{Kind: "any", Calls: cs, Results: jres, KfKey: kf}, "any:"+calls(cs))
	}
	for _, s := range singles {
		serCase([]call{s})
		anyCase([]call{s}, 6)
	}
	// corpus: F6, F9, F10 shapes
	serCase([]call{{Op: "NotIn", Vals: []string{"7"}}, {Op: "Gt", Vals: []string{"4"}}})
	anyCase([]call{{Op: "NotIn", Vals: []string{"6"}}, {Op: "Gt", Vals: []string{"4"}}, {Op: "Lt", Vals: []string{"8"}}}, 40)
	anyCase([]call{{Op: "Lt", Vals: []string{"0"}}}, 2)
	nDouble, nTriple, nPools := 500, 300, 250
	if c.Thorough() {
		nDouble, nTriple, nPools = len(singles) * len(singles), 4000, 2500
	}
	if c.Thorough() {
		for _, x := range singles {
			for _, y := range singles {
				serCase([]call{x, y})
			}
		}
	} else {
		for i := 0; i < nDouble; i++ {
			serCase([]call{kit.Pick(c.Rand, singles), kit.Pick(c.Rand, singles)})
		}
	}
	for i := 0; i < nTriple; i++ {
		cs := []call{kit.Pick(c.Rand, singles), kit.Pick(c.Rand, singles), kit.Pick(c.Rand, singles)}
		serCase(cs)
		anyCase(cs[:c.Rand.Range(2, 3)], 8)
	}

	// ---- ToNodeClaim on validated NodePools
	keys := []string{"example.com/k1", "example.com/k2", corev1.LabelTopologyZone, corev1.LabelArchStable, v1.CapacityTypeLabelKey, corev1.LabelInstanceTypeStable}
	its := fake.InstanceTypesAssorted()
	if len(its) > 40 {
		its = its[:40]
	}
	itNames := sets.New[string]()
	for _, it := range its {
		itNames.Insert(it.Name)
	}
	valuePool := map[string][]string{
		corev1.LabelTopologyZone: {"test-zone-1", "test-zone-2", "test-zone-3"}, corev1.LabelArchStable: {"amd64", "arm64"},
		v1.CapacityTypeLabelKey: {"spot", "on-demand"}, corev1.LabelInstanceTypeStable: sets.List(itNames)[:6],
	}
	for i := 0; i < nPools; i++ {
		r := c.Rand.Fork()
		np := test.NodePool()
		np.Name = fmt.Sprintf("pool%d", i%3)
		np.UID = "uid"
		np.Spec.Template.Labels = map[string]string{"example.com/team": kit.Pick(r, []string{"a", "b"})}
		np.Spec.Template.Spec.Taints = []corev1.Taint{{Key: "example.com/t", Value: "v", Effect: corev1.TaintEffectNoSchedule}}
		np.Spec.Template.Spec.StartupTaints = []corev1.Taint{{Key: "example.com/s", Effect: corev1.TaintEffectNoExecute}}
		var reqs []v1.NodeSelectorRequirementWithMinValues
		for j, n := 0, r.Range(0, 4); j < n; j++ {
			k := kit.Pick(r, keys)
			var cl call
			if vp, ok := valuePool[k]; ok {
				cl = call{Op: kit.Pick(r, []string{"In", "NotIn", "Exists"}), Vals: []string{kit.Pick(r, vp), kit.Pick(r, vp)}}
				if cl.Op == "Exists" {
					cl.Vals = nil
				}
			} else {
				cl = kit.Pick(r, singles)
			}
			reqs = append(reqs, v1.NodeSelectorRequirementWithMinValues{Key: k, Operator: corev1.NodeSelectorOperator(cl.Op), Values: cl.Vals, MinValues: cl.MinV})
		}
		np.Spec.Template.Spec.Requirements = reqs
		if r.Chance(1, 5) {
			np.Spec.Replicas = new(int64)
		}
		if np.RuntimeValidate(ctx) != nil {
			c.Count("pool:rejected-by-validation")
			continue
		}
		c.Count("pool:validated")
		nct := provscheduling.NewNodeClaimTemplate(np)
		nct.InstanceTypeOptions = its
		// requirements a pod could add (as the scheduler's Add after Compatible)
		if r.Chance(1, 2) {
			k := kit.Pick(r, keys[:2])
			extra := scheduling.NewRequirements(kit.Pick(r, singles).mk(k))
			if nct.Requirements.Compatible(extra, scheduling.AllowUndefinedWellKnownLabels) == nil {
				nct.Requirements.Add(extra.Values()...)
				c.Count("pool:pod-requirement-added")
			}
		}
		poolJSON := fmt.Sprintf("%v static=%v", reqs, np.Spec.Replicas != nil)
		var nc *v1.NodeClaim
		panicked, msg := kit.Recover(func() { nc = nct.ToNodeClaim() })
		id := c.NextID()
		if panicked {
			kf := ""
			if strings.Contains(msg, "invalid argument to Intn") {
				kf = "any-panics-intn-nonpositive-range"
			}
			c.Count("pool:ToNodeClaim-panicked")
			c.AddCase("CaseEmit [] [] true []", caseJSON{Kind: "tonodeclaim-panic", NodePool: poolJSON, KfKey: kf}, "")
			c.Fail(id, "NodeClaimTemplate.ToNodeClaim panicked for a NodePool that passes validation: "+msg, kf, caseJSON{Kind: "tonodeclaim-panic", NodePool: poolJSON})
			continue
		}
		fail := func(what, kf string) {
			c.Fail(id, what, kf, caseJSON{Kind: "tonodeclaim", NodePool: poolJSON})
		}
		// O2: emitted keys = in-memory keys minus the simulation keys
		byKey := map[string][]v1.NodeSelectorRequirementWithMinValues{}
		for _, n := range nc.Spec.Requirements {
			byKey[n.Key] = append(byKey[n.Key], n)
		}
		for k := range byKey {
			if k == v1.NodeRegisteredLabelKey || k == v1.NodeInitializedLabelKey {
				fail("scheduling-simulation key written to the NodeClaim: "+k, "")
			}
			if !nct.Requirements.Has(k) {
				fail("NodeClaim requirement key not in the scheduler's requirements: "+k, "")
			}
		}
		// O1 per key: Coq oracle
		first := true
		for _, k := range sets.List(nct.Requirements.Keys()) {
			if k == v1.NodeRegisteredLabelKey || k == v1.NodeInitializedLabelKey {
				continue
			}
			req := nct.Requirements.Get(k)
			_, _, _, undef := req.VerifInternals()
			nt := ""
			if first {
				nt = "pool:" + poolJSON
			}
			first = false
			c.AddCase(fmt.Sprintf("CaseEmit %s %s %s %s", pList, hasObs(req), kit.GBool(undef), emitted(byKey[k])),
				caseJSON{Kind: "tonodeclaim-key", Key: k, NodePool: poolJSON}, nt)
			// O5: a resolved custom label is admitted by the requirement
			if v, ok := nc.Labels[k]; ok && !v1.WellKnownLabels.Has(k) && !req.Has(v) {
				kf := ""
				if sets.New(req.Values()...).Has(v) {
					kf = "any-returns-excluded-value"
				}
				fail(fmt.Sprintf("label %s=%s resolved by ToNodeClaim is not admitted by the requirement %s", k, v, req), kf)
			}
		}
		// O3: instance-type requirement is a subset of the options, at most MaxInstanceTypes
		if np.Spec.Replicas == nil {
			itReq := nct.Requirements.Get(corev1.LabelInstanceTypeStable)
			for _, v := range itReq.Values() {
				if !itNames.Has(v) {
					fail("instance-type requirement contains "+v+" which is not an option", "")
				}
			}
			if itReq.Len() > provscheduling.MaxInstanceTypes {
				fail("more instance types than MaxInstanceTypes", "")
			}
		}
		// O4: labels, taints and hash come from the template
		for k, v := range np.Spec.Template.Labels {
			if nc.Labels[k] != v {
				fail("template label lost: "+k, "")
			}
		}
		if nc.Labels[v1.NodePoolLabelKey] != np.Name {
			fail("nodepool label wrong", "")
		}
		if nc.Annotations[v1.NodePoolHashAnnotationKey] != np.Hash() || nc.Annotations[v1.NodePoolHashVersionAnnotationKey] != v1.NodePoolHashVersion {
			fail("NodePool hash annotation does not come from the NodePool", "")
		}
		if fmt.Sprint(nc.Spec.Taints) != fmt.Sprint(np.Spec.Template.Spec.Taints) || fmt.Sprint(nc.Spec.StartupTaints) != fmt.Sprint(np.Spec.Template.Spec.StartupTaints) {
			fail("taints differ from the template", "")
		}
		if len(nc.OwnerReferences) != 1 || nc.OwnerReferences[0].UID != np.UID {
			fail("owner reference is not the NodePool", "")
		}
	}
	// ---- sibling NodeClaims of one NodePool (NewNodeClaim copies the template shallowly): the launch request of one
	// must not be altered by building the other's (seeded change C13-1)
	for i := 0; i < nPools/2; i++ {
		r := c.Rand.Fork()
		np := test.NodePool()
		np.Name, np.UID = "shared", "uid"
		np.Spec.Template.Labels = map[string]string{"example.com/team": "a"}
		vals := []string{"x", "y", "z"}
		np.Spec.Template.Spec.Requirements = []v1.NodeSelectorRequirementWithMinValues{{Key: "example.com/k1", Operator: corev1.NodeSelectorOpIn, Values: vals}}
		base := provscheduling.NewNodeClaimTemplate(np)
		base.InstanceTypeOptions = its
		var sib []*provscheduling.NodeClaimTemplate
		var pins []string
		for j := 0; j < r.Range(2, 3); j++ {
			t := *base // as NewNodeClaim does
			t.Requirements = scheduling.NewRequirements(base.Requirements.Values()...)
			pin := kit.Pick(r, vals)
			t.Requirements.Add(scheduling.NewRequirement("example.com/k1", corev1.NodeSelectorOpIn, pin))
			sib = append(sib, &t)
			pins = append(pins, pin)
		}
		var ncs []*v1.NodeClaim
		for _, t := range sib {
			ncs = append(ncs, t.ToNodeClaim())
		}
		id := c.NextID()
		c.Count("siblings")
		c.AddCase("CaseEmit [] [] true []", caseJSON{Kind: "sibling-nodeclaims", NodePool: fmt.Sprintf("pins=%v", pins)}, fmt.Sprintf("sib:%v", pins))
		for j, nc := range ncs {
			if nc.Labels["example.com/k1"] != pins[j] {
				c.Fail(id, fmt.Sprintf("NodeClaim %d of a batch from one NodePool carries label example.com/k1=%q but its requirement pins %q (labels of sibling NodeClaims are shared)", j, nc.Labels["example.com/k1"], pins[j]), "",
					caseJSON{Kind: "sibling-nodeclaims", NodePool: fmt.Sprintf("pins=%v", pins)})
				break
			}
		}
	}
	// ---- Solve-level: FinalizeScheduling / TruncateInstanceTypes / ToNodeClaim on real scheduler results (solve.go)
	solveCases(c)
	truncCases(c)
	_ = metav1.Now
	_ = cloudprovider.InstanceTypes{}
	_ = sort.Strings
	c.Meta.Rule = fmt.Sprintf("serialisation: every single constructor call (8 operators x value lists / boundary numerals), %s pairs, %d random triples, each observed through Has over %d probes + satisfiedWhenUndefined and the emitted NodeSelectorRequirements; Any(): repeated draws under recover; ToNodeClaim on %d generated NodePools that pass RuntimeValidate (custom + well-known keys, all operators, optional pod requirement added), one oracle case per requirement key. non-trivial = distinct construction / distinct NodePool", map[bool]string{true: "all", false: "random"}[c.Thorough()], nTriple, len(probes), nPools)
	c.Meta.Corr = []string{"cloudprovider.InstanceTypes.Truncate (+ SatisfiesMinValues) on price-ordered options = C13.Trunc.truncate",
		"Requirements.NodeSelectorRequirements (NodeSelectorRequirement + BoundedNodeSelectorRequirements) = C13.Model.to_nsrs",
		"Requirement.Any ∈ C13.Model.any_model (range / membership / panic)"}
	c.Finish("From KV Require Import C13.Model C13.Trunc C12.Check C13.Check.", "C13.Check.case", "C13.Check.check_all", 600)
}
