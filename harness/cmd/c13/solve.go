package main

import (
	"fmt"
	"sort"

	corev1 "k8s.io/api/core/v1"
	"k8s.io/apimachinery/pkg/util/sets"

	v1 "sigs.k8s.io/karpenter/pkg/apis/v1"
	"sigs.k8s.io/karpenter/pkg/cloudprovider"
	provscheduling "sigs.k8s.io/karpenter/pkg/controllers/provisioning/scheduling"
	"sigs.k8s.io/karpenter/pkg/scheduling"
	"sigs.k8s.io/karpenter/pkg/utils/resources"

	"verifharness/kit"
	sk "verifharness/schedkit"
)

// solveCases runs the REAL Scheduler.Solve on schedkit worlds and judges the launch request built from every new
// NodeClaim (FinalizeScheduling + Results.TruncateInstanceTypes + NodeClaimTemplate.ToNodeClaim):
//
//	S1 Spec.Resources.Requests = sum of the placed pods' requests + MIN daemon overhead over the daemon groups that still
//	   have a remaining instance type (key-wise minimum over the keys present in every such group)
//	S2 the hostname placeholder is gone from the in-memory requirements and from the emitted requirements
//	S3 the instance-type requirement lists only names of InstanceTypeOptions; under the strict minValues policy the
//	   truncated options still satisfy minValues
//	S4 per key, the emitted requirements admit exactly what the in-memory requirement admits (Coq oracle, CaseEmit)
//	S5 a resolved custom label is admitted by its requirement; labels, taints, hash and owner come from the NodePool

func milliEq(a, b corev1.ResourceList) bool {
	am, bm := sk.Milli(a), sk.Milli(b)
	for k, v := range am {
		if bm[k] != v {
			return false
		}
	}
	for k, v := range bm {
		if am[k] != v {
			return false
		}
	}
	return true
}

func solveCases(c *kit.Ctx) {
	nWorlds := 40
	if c.Thorough() {
		nWorlds = 400
	}
	for idx := 0; idx < nWorlds; idx++ {
		r := c.Rand.Fork()
		w := sk.Gen(r, sk.GenOpts{Thorough: c.Thorough(), NoTopology: idx%2 == 0})
		sk.BindDaemonPods(r, w)
		cfg := sk.RunCfg{Workers: 1, IgnorePreferences: idx%4 >= 2, BestEffortMinValues: idx%2 == 1}
		out, err := sk.Run(w, cfg)
		if err != nil {
			c.Fail(c.NextID(), "solveCases: could not run the scheduler: "+err.Error(), "", nil)
			continue
		}
		pools := map[string]*v1.NodePool{}
		for _, np := range w.Pools {
			pools[np.Name] = np
		}
		c.Count(fmt.Sprintf("solve:newclaims=%d", min(len(out.Results.NewNodeClaims), 4)))
		for ci, nc := range out.Results.NewNodeClaims {
			solveClaim(c, nc, pools[nc.NodePoolName], cfg, fmt.Sprintf("world %d claim %d (%s)", idx, ci, nc.NodePoolName))
		}
	}
}

func solveClaim(c *kit.Ctx, nc *provscheduling.NodeClaim, np *v1.NodePool, cfg sk.RunCfg, where string) {
	if nc.Requirements.Has(corev1.LabelHostname) { // Solve finalizes every new NodeClaim; be robust if it ever stops doing so
		nc.FinalizeScheduling()
	}
	info := caseJSON{Kind: "solve-tonodeclaim", NodePool: where}
	id := c.NextID()
	fail := func(what, kf string) { c.Fail(id, what, kf, info) }

	// S1 ---------------------------------------------------------------------------------------------------------
	remaining := sets.New[string]()
	for _, it := range nc.InstanceTypeOptions {
		remaining.Insert(it.Name)
	}
	var relevant []corev1.ResourceList
	emptyGroup := false
	for _, g := range nc.VerifC01DaemonGroups() {
		has := false
		for _, it := range g.InstanceTypes {
			has = has || remaining.Has(it.Name)
		}
		if has {
			relevant = append(relevant, g.DaemonOverhead)
			emptyGroup = emptyGroup || len(g.DaemonOverhead) == 0
		}
	}
	minOverhead := corev1.ResourceList{}
	if len(relevant) > 0 {
		for k, v := range relevant[0] {
			minOverhead[k] = v.DeepCopy()
		}
		for _, g := range relevant[1:] {
			for k, cur := range minOverhead {
				if q, ok := g[k]; !ok {
					delete(minOverhead, k)
				} else if q.Cmp(cur) < 0 {
					minOverhead[k] = q.DeepCopy()
				}
			}
		}
	}
	// "requests cover the pods placed on it plus daemon overhead": at least pods + the minimum overhead over the groups
	// that still have an instance type, at most pods + the maximum one (the code takes the minimum over the NON-EMPTY
	// groups, which lies in between; demanding exactly the minimum would demand more than the property states)
	maxOverhead := corev1.ResourceList{}
	for _, g := range relevant {
		for k, q := range g {
			if cur, ok := maxOverhead[k]; !ok || q.Cmp(cur) > 0 {
				maxOverhead[k] = q.DeepCopy()
			}
		}
	}
	pods := resources.RequestsForPods(nc.Pods...)
	lo, hi := resources.Merge(pods, minOverhead), resources.Merge(pods, maxOverhead)
	within := true
	for k, q := range nc.Spec.Resources.Requests {
		l, h := lo[k], hi[k]
		if q.Cmp(l) < 0 || q.Cmp(h) > 0 {
			within = false
		}
	}
	for k, l := range lo {
		if q, ok := nc.Spec.Resources.Requests[k]; (!ok && !l.IsZero()) || (ok && q.Cmp(l) < 0) {
			within = false
		}
	}
	_ = emptyGroup
	if !within {
		fail(fmt.Sprintf("%s: Spec.Resources.Requests = %v does not cover pods %v + daemon overhead (min %v, max %v over %d group(s))", where,
			sk.Milli(nc.Spec.Resources.Requests), sk.Milli(pods), sk.Milli(minOverhead), sk.Milli(maxOverhead), len(relevant)), "")
	}
	c.Count(fmt.Sprintf("solve:groups=%d", min(len(relevant), 3)))

	// S2 (in memory)
	if nc.Requirements.Has(corev1.LabelHostname) {
		fail(where+": hostname placeholder still in the NodeClaim requirements after FinalizeScheduling", "")
	}
	// S3 (minValues after truncation, strict policy)
	if !cfg.BestEffortMinValues {
		if _, _, err := cloudprovider.InstanceTypes(nc.InstanceTypeOptions).SatisfiesMinValues(nc.Requirements); err != nil {
			fail(where+": minValues no longer satisfied by the (truncated) instance type options: "+err.Error(), "")
		}
	}
	itNames := sets.New[string]()
	for _, it := range nc.InstanceTypeOptions {
		itNames.Insert(it.Name)
	}

	var claim *v1.NodeClaim
	if panicked, msg := kit.Recover(func() { claim = nc.ToNodeClaim() }); panicked {
		c.AddCase("CaseEmit [] [] true []", info, "")
		fail(where+": ToNodeClaim panicked: "+msg, "")
		return
	}
	byKey := map[string][]v1.NodeSelectorRequirementWithMinValues{}
	for _, n := range claim.Spec.Requirements {
		byKey[n.Key] = append(byKey[n.Key], n)
	}
	for k := range byKey {
		switch {
		case k == corev1.LabelHostname:
			fail(where+": hostname requirement emitted to the NodeClaim", "")
		case k == v1.NodeRegisteredLabelKey || k == v1.NodeInitializedLabelKey:
			fail(where+": scheduling-simulation key written to the NodeClaim: "+k, "")
		case !nc.Requirements.Has(k):
			fail(where+": NodeClaim requirement key not in the scheduler's requirements: "+k, "")
		}
	}
	// S4: one oracle case per key; the probe list is extended with the values that occur in this requirement
	first := true
	for _, k := range sets.List(nc.Requirements.Keys()) {
		if k == v1.NodeRegisteredLabelKey || k == v1.NodeInitializedLabelKey {
			continue
		}
		req := nc.Requirements.Get(k)
		_, _, _, undef := req.VerifInternals()
		vals := req.Values()
		sort.Strings(vals)
		ps := append(append([]string{}, probes...), vals...)
		for _, n := range byKey[k] {
			ps = append(ps, n.Values...)
		}
		obs := make([]string, len(ps))
		for i, p := range ps {
			obs[i] = kit.GBool(req.Has(p))
		}
		nt := ""
		if first {
			nt = "solve:" + where + fmt.Sprint(claim.Spec.Requirements)
		}
		first = false
		kj := info
		kj.Kind, kj.Key = "solve-tonodeclaim-key", k
		c.Count("solve:key:" + shape(req))
		c.AddCase(fmt.Sprintf("CaseEmit %s %s %s %s", kit.GStrs(ps), kit.GList(obs), kit.GBool(undef), emitted(byKey[k])), kj, nt)
		// S5a
		if v, ok := claim.Labels[k]; ok && !v1.WellKnownLabels.Has(k) && !req.Has(v) {
			kf := ""
			if sets.New(req.Values()...).Has(v) {
				kf = "any-returns-excluded-value"
			}
			fail(fmt.Sprintf("%s: label %s=%s resolved by ToNodeClaim is not admitted by the requirement %s", where, k, v, req), kf)
		}
	}
	// S3 (instance-type requirement)
	itReq := nc.Requirements.Get(corev1.LabelInstanceTypeStable)
	if itReq.Operator() != corev1.NodeSelectorOpIn {
		fail(where+": instance-type requirement is not an In list after ToNodeClaim", "")
	}
	for _, v := range itReq.Values() {
		if !itNames.Has(v) {
			fail(where+": instance-type requirement contains "+v+" which is not an InstanceTypeOption", "")
		}
	}
	if itReq.Len() > provscheduling.MaxInstanceTypes {
		fail(where+": more instance types than MaxInstanceTypes", "")
	}
	// S5b
	if np != nil {
		for k, v := range np.Spec.Template.Labels {
			if claim.Labels[k] != v {
				fail(where+": template label lost: "+k, "")
			}
		}
		if claim.Labels[v1.NodePoolLabelKey] != np.Name {
			fail(where+": nodepool label wrong", "")
		}
		if claim.Annotations[v1.NodePoolHashAnnotationKey] != np.Hash() || claim.Annotations[v1.NodePoolHashVersionAnnotationKey] != v1.NodePoolHashVersion {
			fail(where+": NodePool hash annotation does not come from the NodePool", "")
		}
		if fmt.Sprint(claim.Spec.Taints) != fmt.Sprint(np.Spec.Template.Spec.Taints) || fmt.Sprint(claim.Spec.StartupTaints) != fmt.Sprint(np.Spec.Template.Spec.StartupTaints) {
			fail(where+": taints differ from the template", "")
		}
		if len(claim.OwnerReferences) != 1 || claim.OwnerReferences[0].UID != np.UID {
			fail(where+": owner reference is not the NodePool", "")
		}
	}
	if !milliEq(claim.Spec.Resources.Requests, nc.Spec.Resources.Requests) {
		fail(where+": the emitted NodeClaim's requests differ from the scheduler's", "")
	}
	_ = scheduling.NewRequirements
}
