package main

// (A) real NodePool.Hash() on pairs of NodePools produced by mutation operators. Every operator knows what the
// property demands of it: Same (reordering, documented non-drifting fields), Differ (any other template field),
// DontCare (zero <-> nil representation only).

import (
	"crypto/sha1"
	"encoding/hex"
	"encoding/json"
	"fmt"
	"sort"
	"strings"
	"time"

	corev1 "k8s.io/api/core/v1"
	"k8s.io/apimachinery/pkg/api/resource"
	metav1 "k8s.io/apimachinery/pkg/apis/meta/v1"

	v1 "sigs.k8s.io/karpenter/pkg/apis/v1"

	"verifharness/kit"
)

const (
	expSame = iota
	expDiffer
	expDontCare
)

var expNames = []string{"Same", "Differ", "DontCare"}

type mutator struct {
	name  string
	class int
	apply func(r *kit.Rand, np *v1.NodePool, fresh func() string) bool // false = not applicable to this pool
}

var labelKeys = []string{"example.com/team", "example.com/k1", "example.com/k2", "app", "tier"}
var labelVals = []string{"a", "b", "1", "5", "6", "app", "tier"}
var effects = []corev1.TaintEffect{corev1.TaintEffectNoSchedule, corev1.TaintEffectNoExecute, corev1.TaintEffectPreferNoSchedule}
var durations = []time.Duration{0, 30 * time.Second, time.Hour, 720 * time.Hour}

func genMap(r *kit.Rand) map[string]string {
	switch r.Intn(5) {
	case 0:
		return nil
	case 1:
		return map[string]string{}
	}
	m := map[string]string{}
	for i, n := 0, r.Range(1, 3); i < n; i++ {
		m[kit.Pick(r, labelKeys)] = kit.Pick(r, labelVals)
	}
	return m
}

func genTaint(r *kit.Rand, i int) corev1.Taint {
	t := corev1.Taint{Key: fmt.Sprintf("example.com/t%d", i), Effect: kit.Pick(r, effects)}
	if r.Chance(2, 3) {
		t.Value = kit.Pick(r, labelVals)
	}
	if r.Chance(1, 8) {
		t.TimeAdded = &metav1.Time{Time: time.Unix(1_700_000_000+int64(r.Intn(3)), 0).UTC()}
	}
	return t
}

func genTaints(r *kit.Rand, base int) []corev1.Taint {
	switch r.Intn(5) {
	case 0:
		return nil
	case 1:
		return []corev1.Taint{}
	}
	var out []corev1.Taint
	for i, n := 0, r.Range(1, 3); i < n; i++ {
		out = append(out, genTaint(r, base+i)) // distinct keys: validation rejects duplicate key/effect pairs
	}
	return out
}

func genReq(r *kit.Rand) v1.NodeSelectorRequirementWithMinValues {
	ops := []corev1.NodeSelectorOperator{corev1.NodeSelectorOpIn, corev1.NodeSelectorOpNotIn, corev1.NodeSelectorOpExists, corev1.NodeSelectorOpGt}
	q := v1.NodeSelectorRequirementWithMinValues{Key: kit.Pick(r, []string{"example.com/k1", corev1.LabelTopologyZone, v1.CapacityTypeLabelKey}), Operator: kit.Pick(r, ops)}
	switch q.Operator {
	case corev1.NodeSelectorOpIn, corev1.NodeSelectorOpNotIn:
		q.Values = []string{kit.Pick(r, labelVals), kit.Pick(r, labelVals)}
	case corev1.NodeSelectorOpGt:
		q.Values = []string{"4"}
	}
	return q
}

func genPool(r *kit.Rand) *v1.NodePool {
	np := &v1.NodePool{ObjectMeta: metav1.ObjectMeta{Name: "pool"}}
	t := &np.Spec.Template
	t.Labels = genMap(r)
	t.Annotations = genMap(r)
	t.Spec.Taints = genTaints(r, 0)
	t.Spec.StartupTaints = genTaints(r, 10)
	for i, n := 0, r.Intn(4); i < n; i++ {
		t.Spec.Requirements = append(t.Spec.Requirements, genReq(r))
	}
	if !r.Chance(1, 12) {
		t.Spec.NodeClassRef = &v1.NodeClassReference{Group: "karpenter.test.sh", Kind: "TestNodeClass", Name: kit.Pick(r, []string{"default", "other"})}
	}
	if r.Chance(1, 2) {
		t.Spec.TerminationGracePeriod = &metav1.Duration{Duration: kit.Pick(r, durations)}
	}
	switch r.Intn(4) {
	case 0: // Never
	case 1:
		t.Spec.ExpireAfter = v1.MustParseNillableDuration("0s")
	case 2:
		t.Spec.ExpireAfter = v1.MustParseNillableDuration("720h")
	case 3:
		d := kit.Pick(r, durations)
		t.Spec.ExpireAfter = v1.NillableDuration{Duration: &d}
	}
	np.Spec.Disruption.ConsolidateAfter = v1.MustParseNillableDuration("30s")
	np.Spec.Disruption.ConsolidationPolicy = v1.ConsolidationPolicyWhenEmpty
	np.Spec.Disruption.Budgets = []v1.Budget{{Nodes: "10%"}}
	if r.Chance(1, 2) {
		np.Spec.Limits = v1.Limits{corev1.ResourceCPU: resource.MustParse("100")}
	}
	if r.Chance(1, 2) {
		w := int32(r.Range(1, 100))
		np.Spec.Weight = &w
	}
	return np
}

// ---- helpers
func reverseTaints(ts []corev1.Taint) bool {
	if len(ts) < 2 {
		return false
	}
	for i, j := 0, len(ts)-1; i < j; i, j = i+1, j-1 {
		ts[i], ts[j] = ts[j], ts[i]
	}
	return true
}

func pickKey(r *kit.Rand, m map[string]string) (string, bool) {
	if len(m) == 0 {
		return "", false
	}
	ks := kit.SortedKeys(m)
	return kit.Pick(r, ks), true
}

func mapMut(sel func(np *v1.NodePool) *map[string]string, field string) []mutator {
	return []mutator{
		{field + ":add", expDiffer, func(r *kit.Rand, np *v1.NodePool, fresh func() string) bool {
			m := sel(np)
			if *m == nil {
				*m = map[string]string{}
			}
			(*m)["fresh.example.com/"+fresh()] = kit.Pick(r, labelVals)
			return true
		}},
		{field + ":remove", expDiffer, func(r *kit.Rand, np *v1.NodePool, _ func() string) bool {
			k, ok := pickKey(r, *sel(np))
			if ok {
				delete(*sel(np), k)
			}
			return ok
		}},
		{field + ":change-value", expDiffer, func(r *kit.Rand, np *v1.NodePool, fresh func() string) bool {
			k, ok := pickKey(r, *sel(np))
			if ok {
				(*sel(np))[k] = "changed-" + fresh()
			}
			return ok
		}},
		{field + ":swap-key-value", expDiffer, func(r *kit.Rand, np *v1.NodePool, _ func() string) bool {
			m := *sel(np)
			k, ok := pickKey(r, m)
			if !ok || m[k] == k {
				return false
			}
			if _, clash := m[m[k]]; clash {
				return false
			}
			v := m[k]
			delete(m, k)
			m[v] = k
			return true
		}},
		{field + ":rebuild-in-other-order", expSame, func(r *kit.Rand, np *v1.NodePool, _ func() string) bool {
			m := *sel(np)
			if len(m) < 2 {
				return false
			}
			ks := kit.SortedKeys(m)
			out := make(map[string]string, len(m))
			for i := len(ks) - 1; i >= 0; i-- {
				out[ks[i]] = m[ks[i]]
			}
			*sel(np) = out
			return true
		}},
		{field + ":nil<->empty", expDontCare, func(r *kit.Rand, np *v1.NodePool, _ func() string) bool {
			m := sel(np)
			if len(*m) != 0 {
				return false
			}
			if *m == nil {
				*m = map[string]string{}
			} else {
				*m = nil
			}
			return true
		}},
	}
}

func taintMut(sel func(np *v1.NodePool) *[]corev1.Taint, field string) []mutator {
	with := func(f func(r *kit.Rand, t *corev1.Taint, fresh func() string) bool) func(*kit.Rand, *v1.NodePool, func() string) bool {
		return func(r *kit.Rand, np *v1.NodePool, fresh func() string) bool {
			ts := *sel(np)
			if len(ts) == 0 {
				return false
			}
			return f(r, &ts[r.Intn(len(ts))], fresh)
		}
	}
	return []mutator{
		{field + ":reverse", expSame, func(r *kit.Rand, np *v1.NodePool, _ func() string) bool { return reverseTaints(*sel(np)) }},
		{field + ":rotate", expSame, func(r *kit.Rand, np *v1.NodePool, _ func() string) bool {
			ts := *sel(np)
			if len(ts) < 3 {
				return false
			}
			*sel(np) = append(append([]corev1.Taint{}, ts[1:]...), ts[0])
			return true
		}},
		{field + ":add", expDiffer, func(r *kit.Rand, np *v1.NodePool, fresh func() string) bool {
			*sel(np) = append(*sel(np), corev1.Taint{Key: "fresh.example.com/" + fresh(), Effect: kit.Pick(r, effects)})
			return true
		}},
		{field + ":remove", expDiffer, func(r *kit.Rand, np *v1.NodePool, _ func() string) bool {
			ts := *sel(np)
			if len(ts) == 0 {
				return false
			}
			i := r.Intn(len(ts))
			*sel(np) = append(append([]corev1.Taint{}, ts[:i]...), ts[i+1:]...)
			return true
		}},
		{field + ":change-key", expDiffer, with(func(r *kit.Rand, t *corev1.Taint, fresh func() string) bool {
			t.Key = "changed.example.com/" + fresh()
			return true
		})},
		{field + ":change-value", expDiffer, with(func(r *kit.Rand, t *corev1.Taint, fresh func() string) bool {
			t.Value = "changed-" + fresh()
			return true
		})},
		{field + ":change-effect", expDiffer, with(func(r *kit.Rand, t *corev1.Taint, _ func() string) bool {
			for _, e := range effects {
				if e != t.Effect {
					t.Effect = e
					return true
				}
			}
			return false
		})},
		{field + ":change-time-added", expDiffer, with(func(r *kit.Rand, t *corev1.Taint, _ func() string) bool {
			if t.TimeAdded == nil {
				t.TimeAdded = &metav1.Time{Time: time.Unix(1_600_000_000, 0).UTC()}
			} else {
				t.TimeAdded = &metav1.Time{Time: t.TimeAdded.Add(time.Hour)}
			}
			return true
		})},
		{field + ":value<->key", expDiffer, with(func(r *kit.Rand, t *corev1.Taint, _ func() string) bool {
			if t.Key == t.Value {
				return false
			}
			t.Key, t.Value = t.Value, t.Key
			return true
		})},
		{field + ":time-added-nil<->zero", expDontCare, with(func(r *kit.Rand, t *corev1.Taint, _ func() string) bool {
			if t.TimeAdded == nil {
				t.TimeAdded = &metav1.Time{}
			} else if t.TimeAdded.IsZero() {
				t.TimeAdded = nil
			} else {
				return false
			}
			return true
		})},
		{field + ":nil<->empty", expDontCare, func(r *kit.Rand, np *v1.NodePool, _ func() string) bool {
			ts := sel(np)
			if len(*ts) != 0 {
				return false
			}
			if *ts == nil {
				*ts = []corev1.Taint{}
			} else {
				*ts = nil
			}
			return true
		}},
	}
}

func allMutators() []mutator {
	var ms []mutator
	ms = append(ms, mapMut(func(np *v1.NodePool) *map[string]string { return &np.Spec.Template.Labels }, "labels")...)
	ms = append(ms, mapMut(func(np *v1.NodePool) *map[string]string { return &np.Spec.Template.Annotations }, "annotations")...)
	ms = append(ms, taintMut(func(np *v1.NodePool) *[]corev1.Taint { return &np.Spec.Template.Spec.Taints }, "taints")...)
	ms = append(ms, taintMut(func(np *v1.NodePool) *[]corev1.Taint { return &np.Spec.Template.Spec.StartupTaints }, "startupTaints")...)
	spec := func(np *v1.NodePool) *v1.NodeClaimTemplateSpec { return &np.Spec.Template.Spec }
	ms = append(ms,
		mutator{"labels->annotations:move", expDiffer, func(r *kit.Rand, np *v1.NodePool, _ func() string) bool {
			t := &np.Spec.Template
			k, ok := pickKey(r, t.Labels)
			if !ok {
				return false
			}
			if _, clash := t.Annotations[k]; clash {
				return false
			}
			if t.Annotations == nil {
				t.Annotations = map[string]string{}
			}
			t.Annotations[k] = t.Labels[k]
			delete(t.Labels, k)
			return true
		}},
		mutator{"taints->startupTaints:move", expDiffer, func(r *kit.Rand, np *v1.NodePool, _ func() string) bool {
			s := spec(np)
			if len(s.Taints) == 0 {
				return false
			}
			s.StartupTaints = append(s.StartupTaints, s.Taints[0])
			s.Taints = append([]corev1.Taint{}, s.Taints[1:]...)
			return true
		}},
		// ---- documented non-drifting fields
		mutator{"requirements:add", expSame, func(r *kit.Rand, np *v1.NodePool, _ func() string) bool {
			if spec(np).NodeClassRef == nil && len(spec(np).Requirements) == 0 {
				return false // would flip the zero-ness of an otherwise empty spec: see the corpus case
			}
			spec(np).Requirements = append(spec(np).Requirements, genReq(r))
			return true
		}},
		mutator{"requirements:remove", expSame, func(r *kit.Rand, np *v1.NodePool, _ func() string) bool {
			q := spec(np).Requirements
			if len(q) < 2 {
				return false
			}
			spec(np).Requirements = q[1:]
			return true
		}},
		mutator{"requirements:change-values", expSame, func(r *kit.Rand, np *v1.NodePool, fresh func() string) bool {
			q := spec(np).Requirements
			if len(q) == 0 {
				return false
			}
			q[0].Values = append([]string{"v" + fresh()}, q[0].Values...)
			q[0].MinValues = new(int)
			return true
		}},
		mutator{"requirements:reverse", expSame, func(r *kit.Rand, np *v1.NodePool, _ func() string) bool {
			q := spec(np).Requirements
			if len(q) < 2 {
				return false
			}
			for i, j := 0, len(q)-1; i < j; i, j = i+1, j-1 {
				q[i], q[j] = q[j], q[i]
			}
			return true
		}},
		mutator{"expireAfter:respell-raw", expSame, func(r *kit.Rand, np *v1.NodePool, _ func() string) bool {
			e := &spec(np).ExpireAfter
			if e.Duration == nil {
				return false
			}
			if string(e.Raw) == fmt.Sprintf("%q", e.Duration.String()) {
				e.Raw = []byte(fmt.Sprintf("%q", fmt.Sprintf("%ds", int64(e.Duration.Seconds()))))
			} else {
				e.Raw = []byte(fmt.Sprintf("%q", e.Duration.String()))
			}
			return true
		}},
		mutator{"budgets:change", expSame, func(r *kit.Rand, np *v1.NodePool, fresh func() string) bool {
			sch, d := "0 9 * * *", metav1.Duration{Duration: time.Hour}
			np.Spec.Disruption.Budgets = append(np.Spec.Disruption.Budgets, v1.Budget{Nodes: fmt.Sprint(r.Intn(20)), Schedule: &sch, Duration: &d,
				Reasons: []v1.DisruptionReason{v1.DisruptionReasonDrifted}})
			return true
		}},
		mutator{"limits:change", expSame, func(r *kit.Rand, np *v1.NodePool, _ func() string) bool {
			np.Spec.Limits = v1.Limits{corev1.ResourceCPU: resource.MustParse(fmt.Sprint(r.Range(1, 500))), corev1.ResourceMemory: resource.MustParse("64Gi")}
			return true
		}},
		mutator{"weight:change", expSame, func(r *kit.Rand, np *v1.NodePool, _ func() string) bool {
			w := int32(1)
			if np.Spec.Weight != nil {
				w = *np.Spec.Weight%100 + 1
			}
			np.Spec.Weight = &w
			return true
		}},
		mutator{"consolidateAfter:change", expSame, func(r *kit.Rand, np *v1.NodePool, _ func() string) bool {
			np.Spec.Disruption.ConsolidateAfter = v1.MustParseNillableDuration(kit.Pick(r, []string{"Never", "5m", "1h"}))
			return true
		}},
		mutator{"consolidationPolicy:change", expSame, func(r *kit.Rand, np *v1.NodePool, _ func() string) bool {
			if np.Spec.Disruption.ConsolidationPolicy == v1.ConsolidationPolicyWhenEmpty {
				np.Spec.Disruption.ConsolidationPolicy = v1.ConsolidationPolicyWhenEmptyOrUnderutilized
			} else {
				np.Spec.Disruption.ConsolidationPolicy = v1.ConsolidationPolicyWhenEmpty
			}
			return true
		}},
		mutator{"replicas:change", expSame, func(r *kit.Rand, np *v1.NodePool, _ func() string) bool {
			n := int64(r.Range(0, 9))
			np.Spec.Replicas = &n
			return true
		}},
		mutator{"pool-metadata:change", expSame, func(r *kit.Rand, np *v1.NodePool, fresh func() string) bool {
			np.Labels = map[string]string{"owner": fresh()}
			np.Annotations = map[string]string{"note": fresh()}
			np.Generation++
			return true
		}},
		// ---- other template fields
		mutator{"nodeClassRef:change-name", expDiffer, func(r *kit.Rand, np *v1.NodePool, fresh func() string) bool {
			if spec(np).NodeClassRef == nil {
				return false
			}
			spec(np).NodeClassRef = &v1.NodeClassReference{Group: spec(np).NodeClassRef.Group, Kind: spec(np).NodeClassRef.Kind, Name: "changed-" + fresh()}
			return true
		}},
		mutator{"nodeClassRef:change-kind", expDiffer, func(r *kit.Rand, np *v1.NodePool, fresh func() string) bool {
			if spec(np).NodeClassRef == nil {
				return false
			}
			c := *spec(np).NodeClassRef
			c.Kind = "Kind" + fresh()
			spec(np).NodeClassRef = &c
			return true
		}},
		mutator{"nodeClassRef:change-group", expDiffer, func(r *kit.Rand, np *v1.NodePool, fresh func() string) bool {
			if spec(np).NodeClassRef == nil {
				return false
			}
			c := *spec(np).NodeClassRef
			c.Group = "group" + fresh()
			spec(np).NodeClassRef = &c
			return true
		}},
		mutator{"nodeClassRef:name<->kind", expDiffer, func(r *kit.Rand, np *v1.NodePool, _ func() string) bool {
			if spec(np).NodeClassRef == nil || spec(np).NodeClassRef.Name == spec(np).NodeClassRef.Kind {
				return false
			}
			c := *spec(np).NodeClassRef
			c.Name, c.Kind = c.Kind, c.Name
			spec(np).NodeClassRef = &c
			return true
		}},
		mutator{"nodeClassRef:set", expDiffer, func(r *kit.Rand, np *v1.NodePool, _ func() string) bool {
			if spec(np).NodeClassRef != nil {
				return false
			}
			spec(np).NodeClassRef = &v1.NodeClassReference{Name: "default"}
			return true
		}},
		mutator{"nodeClassRef:nil<->zero", expDontCare, func(r *kit.Rand, np *v1.NodePool, _ func() string) bool {
			if spec(np).NodeClassRef == nil {
				spec(np).NodeClassRef = &v1.NodeClassReference{}
				return true
			}
			return false
		}},
		mutator{"terminationGracePeriod:change", expDiffer, func(r *kit.Rand, np *v1.NodePool, _ func() string) bool {
			g := spec(np).TerminationGracePeriod
			switch {
			case g == nil:
				spec(np).TerminationGracePeriod = &metav1.Duration{Duration: 45 * time.Second}
			case g.Duration == 0:
				spec(np).TerminationGracePeriod = &metav1.Duration{Duration: time.Second}
			default:
				spec(np).TerminationGracePeriod = &metav1.Duration{Duration: g.Duration + time.Second}
			}
			return true
		}},
		mutator{"terminationGracePeriod:nil<->0s", expDontCare, func(r *kit.Rand, np *v1.NodePool, _ func() string) bool {
			g := spec(np).TerminationGracePeriod
			switch {
			case g == nil:
				spec(np).TerminationGracePeriod = &metav1.Duration{}
			case g.Duration == 0:
				spec(np).TerminationGracePeriod = nil
			default:
				return false
			}
			return true
		}},
		mutator{"expireAfter:change", expDiffer, func(r *kit.Rand, np *v1.NodePool, _ func() string) bool {
			e := spec(np).ExpireAfter
			switch {
			case e.Duration == nil:
				spec(np).ExpireAfter = v1.MustParseNillableDuration("24h")
			case *e.Duration == 0:
				spec(np).ExpireAfter = v1.MustParseNillableDuration("1s")
			default:
				spec(np).ExpireAfter = v1.MustParseNillableDuration((*e.Duration + time.Minute).String())
			}
			return true
		}},
		mutator{"expireAfter:Never<->0s", expDontCare, func(r *kit.Rand, np *v1.NodePool, _ func() string) bool {
			e := spec(np).ExpireAfter
			switch {
			case e.Duration == nil:
				spec(np).ExpireAfter = v1.MustParseNillableDuration("0s")
			case *e.Duration == 0:
				spec(np).ExpireAfter = v1.MustParseNillableDuration("Never")
			default:
				return false
			}
			return true
		}},
	)
	return ms
}

type pairJSON struct {
	Kind     string          `json:"kind"`
	Base     json.RawMessage `json:"base"`
	Mutated  json.RawMessage `json:"mutated"`
	Muts     []string        `json:"mutations"`
	Expect   string          `json:"expect"`
	HashA    string          `json:"hash_base"`
	HashB    string          `json:"hash_mutated"`
	KfKey    string          `json:"kf_key,omitempty"`
	Comments string          `json:"comment,omitempty"`
}

func specJSON(np *v1.NodePool) json.RawMessage {
	b, err := json.Marshal(np.Spec)
	if err != nil {
		panic(err)
	}
	return b
}

func emitPair(c *kit.Ctx, a, b *v1.NodePool, muts []string, class int, kf, comment string) {
	ha, hb := a.Hash(), b.Hash()
	ga, gb := encodeTemplate(a), encodeTemplate(b)
	eq := ha == hb
	c.Count("pair:expect=" + expNames[class] + ",hash-equal=" + fmt.Sprint(eq))
	for _, m := range muts {
		c.Count("mut:" + m)
	}
	sum := sha1.Sum([]byte(ga + "|" + gb))
	in := pairJSON{Kind: "pair", Base: specJSON(a), Mutated: specJSON(b), Muts: muts, Expect: expNames[class], HashA: ha, HashB: hb, KfKey: kf, Comments: comment}
	id := c.AddCase(fmt.Sprintf("CasePair %s %s %s %s", ga, gb, expNames[class], kit.GBool(eq)), in, "pair:"+hex.EncodeToString(sum[:8]))
	// the same oracle on the Go side, so that a concrete failing input is reported even when the Coq side does not build
	if class == expSame && !eq {
		c.Fail(id, fmt.Sprintf("NodePool.Hash() changed under %v, which only reorders lists/maps or edits documented non-drifting fields", muts), kf, in)
	}
	if class == expDiffer && eq {
		c.Fail(id, fmt.Sprintf("NodePool.Hash() did not change under %v, which changes a hashed template field", muts), kf, in)
	}
}

// randomPair: a generated pool, 1..k mutations, at most one of class Differ.
func randomPair(c *kit.Ctx, ms []mutator, maxMut int) {
	r := c.Rand.Fork()
	a := genPool(r)
	b := a.DeepCopy()
	n := 0
	fresh := func() string { n++; return fmt.Sprintf("x%d", n) }
	class := expSame
	var names []string
	differ := false
	wantDiffer := r.Chance(2, 5)
	for tries, want := 0, r.Range(1, maxMut); len(names) < want && tries < 60; tries++ {
		m := kit.Pick(r, ms)
		if m.class == expDiffer && (differ || !wantDiffer) {
			continue
		}
		if !m.apply(r, b, fresh) {
			continue
		}
		names = append(names, m.name)
		switch m.class {
		case expDiffer:
			differ = true
			class = expDiffer
		case expDontCare:
			if class == expSame {
				class = expDontCare
			}
		}
	}
	if len(names) == 0 {
		return
	}
	sort.Strings(names)
	emitPair(c, a, b, names, class, "", "")
}

// one pair per mutator on a pool rich enough for every operator to apply (branch coverage by construction)
func richPool() *v1.NodePool {
	np := &v1.NodePool{ObjectMeta: metav1.ObjectMeta{Name: "pool"}}
	t := &np.Spec.Template
	t.Labels = map[string]string{"example.com/team": "a", "app": "tier"}
	t.Annotations = map[string]string{"example.com/k1": "5", "tier": "b"}
	ta := metav1.Time{Time: time.Unix(1_700_000_000, 0).UTC()}
	t.Spec.Taints = []corev1.Taint{{Key: "example.com/t0", Value: "a", Effect: corev1.TaintEffectNoSchedule}, {Key: "example.com/t1", Effect: corev1.TaintEffectNoExecute, TimeAdded: &ta},
		{Key: "example.com/t2", Value: "6", Effect: corev1.TaintEffectPreferNoSchedule}}
	t.Spec.StartupTaints = []corev1.Taint{{Key: "example.com/s0", Value: "a", Effect: corev1.TaintEffectNoSchedule}, {Key: "example.com/s1", Effect: corev1.TaintEffectNoExecute},
		{Key: "example.com/s2", Value: "b", Effect: corev1.TaintEffectNoSchedule}}
	t.Spec.Requirements = []v1.NodeSelectorRequirementWithMinValues{{Key: "example.com/k1", Operator: corev1.NodeSelectorOpIn, Values: []string{"a", "b"}},
		{Key: corev1.LabelTopologyZone, Operator: corev1.NodeSelectorOpExists}}
	t.Spec.NodeClassRef = &v1.NodeClassReference{Group: "karpenter.test.sh", Kind: "TestNodeClass", Name: "default"}
	t.Spec.TerminationGracePeriod = &metav1.Duration{Duration: 30 * time.Second}
	t.Spec.ExpireAfter = v1.MustParseNillableDuration("720h")
	np.Spec.Disruption.Budgets = []v1.Budget{{Nodes: "10%"}}
	return np
}

func sparsePool() *v1.NodePool {
	np := &v1.NodePool{ObjectMeta: metav1.ObjectMeta{Name: "pool"}}
	np.Spec.Template.Spec.Taints = []corev1.Taint{{Key: "example.com/t0"}}
	np.Spec.Template.Spec.StartupTaints = []corev1.Taint{{Key: "example.com/s0", TimeAdded: &metav1.Time{}}}
	return np
}

func emptyCollectionsPool() *v1.NodePool {
	np := &v1.NodePool{ObjectMeta: metav1.ObjectMeta{Name: "pool"}}
	t := &np.Spec.Template
	t.Labels, t.Annotations = map[string]string{}, nil
	t.Spec.Taints, t.Spec.StartupTaints = []corev1.Taint{}, nil
	t.Spec.NodeClassRef = &v1.NodeClassReference{Name: "default"}
	t.Spec.TerminationGracePeriod = &metav1.Duration{}
	t.Spec.ExpireAfter = v1.MustParseNillableDuration("0s")
	return np
}

func perMutatorPairs(c *kit.Ctx, ms []mutator) {
	for _, base := range []func() *v1.NodePool{richPool, sparsePool, emptyCollectionsPool} {
		for _, m := range ms {
			a := base()
			b := a.DeepCopy()
			n := 0
			if !m.apply(c.Rand.Fork(), b, func() string { n++; return fmt.Sprintf("y%d", n) }) {
				c.Count("mut-not-applicable:" + m.name)
				continue
			}
			emitPair(c, a, b, []string{m.name}, m.class, "", "")
		}
	}
}

// corpus: shapes where the library's own rules (XOR of slice elements, IgnoreZeroValue looking at ignored
// fields) decide the outcome
func corpusPairs(c *kit.Ctx) {
	t := corev1.Taint{Key: "example.com/dup", Value: "a", Effect: corev1.TaintEffectNoSchedule}
	u := corev1.Taint{Key: "example.com/other", Effect: corev1.TaintEffectNoExecute}
	mk := func(ts ...corev1.Taint) *v1.NodePool {
		np := richPool()
		np.Spec.Template.Spec.Taints = append([]corev1.Taint{}, ts...)
		return np
	}
	const kf = "duplicate-list-elements-cancel"
	emitPair(c, mk(), mk(t, t), []string{"corpus:taints:add-twice"}, expDiffer, kf, "[] vs [t,t]: slices are XOR-ed, a repeated element cancels")
	emitPair(c, mk(u), mk(t, u, t), []string{"corpus:taints:add-twice"}, expDiffer, kf, "[u] vs [t,u,t]")
	emitPair(c, mk(t), mk(t, t, t), []string{"corpus:taints:add-twice"}, expDiffer, kf, "[t] vs [t,t,t]")
	su := richPool()
	su.Spec.Template.Spec.StartupTaints = []corev1.Taint{u, u}
	sv := richPool()
	sv.Spec.Template.Spec.StartupTaints = []corev1.Taint{}
	emitPair(c, sv, su, []string{"corpus:startupTaints:add-twice"}, expDiffer, kf, "startupTaints [] vs [u,u]")
	// an element repeated an odd number of times is still seen
	emitPair(c, mk(u), mk(t, u), []string{"corpus:taints:add-once"}, expDiffer, "", "")
	// ignored fields and the zero-ness of the enclosing struct (not reachable through the API: nodeClassRef is required,
	// Raw is only set together with Duration) - the oracle is silent, the model must still agree
	z := &v1.NodePool{}
	zr := &v1.NodePool{}
	zr.Spec.Template.Spec.Requirements = []v1.NodeSelectorRequirementWithMinValues{{Key: "a", Operator: corev1.NodeSelectorOpExists}}
	emitPair(c, z, zr, []string{"corpus:requirements-on-all-zero-spec"}, expDontCare, "", "requirements make an otherwise zero Spec non-zero")
	rw := richPool()
	rw.Spec.Template.Spec.ExpireAfter = v1.NillableDuration{}
	rx := richPool()
	rx.Spec.Template.Spec.ExpireAfter = v1.NillableDuration{Raw: []byte(`"Never"`)}
	emitPair(c, rw, rx, []string{"corpus:expireAfter-raw-without-duration"}, expDontCare, "", "Raw alone makes ExpireAfter non-zero")
	// same key/value under labels vs annotations, and across maps
	la := richPool()
	la.Spec.Template.Labels, la.Spec.Template.Annotations = map[string]string{"k": "v"}, map[string]string{"a": "b"}
	lb := richPool()
	lb.Spec.Template.Labels, lb.Spec.Template.Annotations = map[string]string{"a": "b"}, map[string]string{"k": "v"}
	emitPair(c, la, lb, []string{"corpus:labels<->annotations"}, expDiffer, "", "")
	// taints <-> startupTaints exchanged wholesale
	ta := richPool()
	tb := richPool()
	tb.Spec.Template.Spec.Taints, tb.Spec.Template.Spec.StartupTaints = ta.Spec.Template.Spec.StartupTaints, ta.Spec.Template.Spec.Taints
	emitPair(c, ta, tb, []string{"corpus:taints<->startupTaints"}, expDiffer, "", "")
	// identical pools
	emitPair(c, richPool(), richPool(), []string{"corpus:identical"}, expSame, "", "")
}

func runPairs(c *kit.Ctx) (int, int) {
	ms := allMutators()
	corpusPairs(c)
	perMutatorPairs(c, ms)
	nRand, maxMut := 900, 3
	if c.Thorough() {
		nRand, maxMut = 6000, 5
	}
	for i := 0; i < nRand; i++ {
		randomPair(c, ms, maxMut)
	}
	_ = strings.Join
	return len(ms), nRand
}
