// c15 drives the real NodePool.Hash(), the nodepool hash controller and the nodeclaim drift sub-reconciler on
// generated NodePools, edits and launch choices, and writes what they did as Gallina cases.
package main

import (
	"fmt"
	"os"

	"github.com/go-logr/logr"
	ctrllog "sigs.k8s.io/controller-runtime/pkg/log"

	"verifharness/kit"
)

func main() {
	c := kit.Parse("C15", os.Args[1:])
	if c.Tables != "" {
		writeTables(c.Tables)
		return
	}
	ctrllog.SetLogger(logr.Discard())
	nMut, nRand := runPairs(c)
	nSys := runSystem(c)
	c.Meta.Rule = fmt.Sprintf("hash pairs: corpus + every one of %d mutation operators on three base pools + %d random pools with 1..k operators (at most one of class Differ). non-trivial = every pair (distinct by the encoded values). system: %d generated NodePools (template labels, requirements over custom and well-known keys, pod requirements) through hash controller, NewNodeClaimTemplate, ToNodeClaim, a random permitted launch, PopulateNodeClaimDetails and 1-3 drift reconciles after edits (ignored / hashed fields, requirements, hash-version skew, catalogue, provider answers, launch state); non-trivial = at least one reconcile ran, distinct by the whole case", nMut, nRand, nSys)
	c.Meta.Corr = []string{
		"NodePool.Hash() equality on template pairs = C15.Model.same_hash (symbolic hashstructure walk over the regenerated field table)",
		"reflect struct layout of the encoded values = gen/C15_fields.v (C15.Model.conforms)",
		"nodepool/hash.Controller.Reconcile annotations = C15.DriftModel.hash_reconcile",
		"NewNodeClaimTemplate + ToNodeClaim labels in C15.DriftModel.claim_labels_allowed (Requirement.Any relational)",
		"NewNodeClaimTemplate hash / hash-version stamp = C15.DriftModel.build_stamp (Hash() of the pool object, built after edits with the hash controller lagging or absent)",
		"lifecycle.PopulateNodeClaimDetails labels = C15.DriftModel.populate",
		"nodeclaim/disruption.Controller.Reconcile Drifted condition = C15.DriftModel.drift_reconcile (static, requirements, instance type, provider, cache, launch gate)",
	}
	c.Finish(shardHeader(), "C15.Check.case", "C15.Check.check_all", 450)
	cons.rewriteShards(c.Out, c.Meta.Shards)
}
