// c15 drives the real NodePool.Hash(), the nodepool hash controller and the nodeclaim drift sub-reconciler on
// generated NodePools, edits and launch choices, and writes what they did as Gallina cases.
package main

import (
	"fmt"
	"os"

	"verifharness/kit"
)

func main() {
	c := kit.Parse("C15", os.Args[1:])
	if c.Tables != "" {
		writeTables(c.Tables)
		return
	}
	nMut, nRand := runPairs(c)
	c.Meta.Rule = fmt.Sprintf("hash pairs: corpus + every one of %d mutation operators on three base pools + %d random pools with 1..k operators (at most one of class Differ). non-trivial = every pair (distinct by the encoded values)", nMut, nRand)
	c.Meta.Corr = []string{
		"NodePool.Hash() equality on template pairs = C15.Model.same_hash (symbolic hashstructure walk over the regenerated field table)",
	}
	c.Finish(shardHeader(), "case", "check_all", 450)
	cons.rewriteShards(c.Out, c.Meta.Shards)
}
