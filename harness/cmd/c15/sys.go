package main

// (B) system level: a NodePool goes through the real hash controller, scheduling.NewNodeClaimTemplate,
// ToNodeClaim, an adversarial launch (any permitted instance type and offering), PopulateNodeClaimDetails and
// then - after optional edits of the pool, the catalogue, the clock or the annotations - through the real
// nodeclaim disruption controller. Everything the model needs is written into the case; the Drifted condition
// the implementation ends up with is the observation.

import (
	"context"
	"encoding/json"
	"fmt"
	"sort"
	"strconv"
	"strings"
	"time"

	"github.com/awslabs/operatorpkg/object"
	corev1 "k8s.io/api/core/v1"
	"k8s.io/apimachinery/pkg/api/equality"
	apierrors "k8s.io/apimachinery/pkg/api/errors"
	"k8s.io/apimachinery/pkg/api/resource"
	metav1 "k8s.io/apimachinery/pkg/apis/meta/v1"
	"k8s.io/apimachinery/pkg/runtime/schema"
	"k8s.io/apimachinery/pkg/types"
	"k8s.io/client-go/tools/record"
	clock "k8s.io/utils/clock/testing"
	"sigs.k8s.io/controller-runtime/pkg/client"
	"sigs.k8s.io/controller-runtime/pkg/client/interceptor"

	v1 "sigs.k8s.io/karpenter/pkg/apis/v1"
	"sigs.k8s.io/karpenter/pkg/cloudprovider"
	"sigs.k8s.io/karpenter/pkg/cloudprovider/fake"
	ncdisruption "sigs.k8s.io/karpenter/pkg/controllers/nodeclaim/disruption"
	"sigs.k8s.io/karpenter/pkg/controllers/nodeclaim/lifecycle"
	nphash "sigs.k8s.io/karpenter/pkg/controllers/nodepool/hash"
	provscheduling "sigs.k8s.io/karpenter/pkg/controllers/provisioning/scheduling"
	"sigs.k8s.io/karpenter/pkg/events"
	"sigs.k8s.io/karpenter/pkg/scheduling"
	"sigs.k8s.io/karpenter/pkg/state/nodepoolhealth"
	"sigs.k8s.io/karpenter/pkg/test"

	"verifharness/kit"
)

// ---------------------------------------------------------------- provider with fault injection
type provider struct {
	*fake.CloudProvider
	itErr, driftErr error
	createErrs      []error       // answers of the next Create calls, in order
	created         *v1.NodeClaim // the answer once the errors are used up
	createCalls     int
}

// Create: the launch choice is made by the harness (any permitted instance type / offering), see runSys
func (p *provider) Create(ctx context.Context, nc *v1.NodeClaim) (*v1.NodeClaim, error) {
	p.createCalls++
	if len(p.createErrs) > 0 {
		err := p.createErrs[0]
		p.createErrs = p.createErrs[1:]
		return nil, err
	}
	return p.created.DeepCopy(), nil
}

func (p *provider) GetInstanceTypes(ctx context.Context, np *v1.NodePool) ([]*cloudprovider.InstanceType, error) {
	if p.itErr != nil {
		return nil, p.itErr
	}
	return p.CloudProvider.GetInstanceTypes(ctx, np)
}
func (p *provider) IsDrifted(ctx context.Context, nc *v1.NodeClaim) (cloudprovider.DriftReason, error) {
	if p.driftErr != nil {
		return "", p.driftErr
	}
	return p.CloudProvider.IsDrifted(ctx, nc)
}

// ---------------------------------------------------------------- requirement calls
type kcall struct {
	Key  string   `json:"key"`
	Op   string   `json:"op"`
	Vals []string `json:"values"`
	MinV *int     `json:"minValues,omitempty"`
}

func (k kcall) nsr() v1.NodeSelectorRequirementWithMinValues {
	return v1.NodeSelectorRequirementWithMinValues{Key: k.Key, Operator: corev1.NodeSelectorOperator(k.Op), Values: append([]string(nil), k.Vals...), MinValues: k.MinV}
}
func (k kcall) req() *scheduling.Requirement {
	return scheduling.NewRequirementWithFlexibility(k.Key, corev1.NodeSelectorOperator(k.Op), k.MinV, append([]string(nil), k.Vals...)...)
}

func strsTerm(xs []string) string {
	items := make([]string, len(xs))
	for i, x := range xs {
		items[i] = cons.str(x)
	}
	return cons.term("list string", monoList("s", items))
}

func callsTerm(cs []kcall) string {
	items := make([]string, len(cs))
	for i, k := range cs {
		mv := "nomv"
		if k.MinV != nil {
			mv = fmt.Sprintf("(Some %d)", *k.MinV)
		}
		items[i] = fmt.Sprintf("%s %s %s %s", cons.str(k.Key), k.Op, mv, strsTerm(k.Vals))
	}
	return cons.term("list (string * call)", monoList("c", items))
}

func labelsTerm(m map[string]string) string {
	ks := kit.SortedKeys(m)
	items := make([]string, len(ks))
	for i, k := range ks {
		items[i] = cons.str(k) + " " + cons.str(m[k])
	}
	return cons.term("labels", monoList("l", items))
}

func optStr(s string, ok bool) string {
	if !ok {
		return "nostr"
	}
	return "(sostr " + cons.str(s) + ")"
}

// ---------------------------------------------------------------- universe
const (
	k1, k2, k3, k9 = "example.com/k1", "example.com/k2", "example.com/k3", "example.com/k9"
)

var customVals = []string{"a", "b", "5", "6", "7", "05"}
var zones = []string{"test-zone-1", "test-zone-2", "test-zone-3"}

func offering(ct, zone, rid string, available bool) *cloudprovider.Offering {
	l := map[string]string{v1.CapacityTypeLabelKey: ct, corev1.LabelTopologyZone: zone}
	if rid != "" {
		l[cloudprovider.ReservationIDLabel] = rid
	}
	o := &cloudprovider.Offering{Available: available, Requirements: scheduling.NewLabelRequirements(l), Price: 1.0}
	if rid != "" {
		o.ReservationCapacity = 5
	}
	return o
}

func mkCatalogue() []*cloudprovider.InstanceType {
	return []*cloudprovider.InstanceType{
		fake.NewInstanceType("it-a", fake.WithOfferings(*offering("spot", zones[0], "", true), *offering("on-demand", zones[0], "", true), *offering("on-demand", zones[1], "", true))),
		fake.NewInstanceType("it-b", fake.WithArchitecture("arm64"), fake.WithOfferings(*offering("spot", zones[1], "", true), *offering("on-demand", zones[2], "", true))),
		fake.NewInstanceType("it-c", fake.WithOfferings(*offering("reserved", zones[0], "r-1", true), *offering("on-demand", zones[0], "", true), *offering("spot", zones[2], "", false)),
			fake.WithResources(corev1.ResourceList{corev1.ResourceCPU: mustQty("16"), corev1.ResourceMemory: mustQty("64Gi")})),
		fake.NewInstanceType("it-d", fake.WithOfferings(*offering("on-demand", zones[1], "", true), *offering("on-demand", zones[2], "", true)),
			fake.WithResources(corev1.ResourceList{corev1.ResourceCPU: mustQty("2"), corev1.ResourceMemory: mustQty("2Gi")})),
	}
}

type genReqOpts struct{ numericOK bool }

func genCall(r *kit.Rand, key string) kcall {
	pick := func(vs []string, n int) []string {
		out := []string{}
		for i := 0; i < n; i++ {
			v := kit.Pick(r, vs)
			dup := false
			for _, x := range out {
				dup = dup || x == v
			}
			if !dup {
				out = append(out, v)
			}
		}
		return out
	}
	var domain []string
	numeric := false
	switch key {
	case corev1.LabelTopologyZone:
		domain = append(append([]string{}, zones...), "test-zone-9")
	case v1.CapacityTypeLabelKey:
		domain = []string{"spot", "on-demand", "reserved"}
	case corev1.LabelArchStable:
		domain = []string{"amd64", "arm64"}
	case corev1.LabelOSStable:
		domain = []string{"linux", "windows"}
	case corev1.LabelInstanceTypeStable:
		domain = []string{"it-a", "it-b", "it-c", "it-d", "it-gone"}
	case fake.IntegerInstanceLabelKey:
		domain, numeric = []string{"2", "4", "16"}, true
	case fake.LabelInstanceSize:
		domain = []string{"small", "large"}
	case corev1.LabelTopologyRegion:
		domain = []string{"test-region"}
	default:
		domain, numeric = customVals, true
	}
	ops := []string{"In", "In", "In", "NotIn", "Exists", "DoesNotExist"}
	if numeric {
		ops = append(ops, "Gt", "Lt", "Gte", "Lte")
	}
	c := kcall{Key: key, Op: kit.Pick(r, ops), Vals: []string{}}
	switch c.Op {
	case "In", "NotIn":
		c.Vals = pick(domain, r.Range(1, 2))
	case "Gt", "Lt", "Gte", "Lte":
		c.Vals = []string{kit.Pick(r, []string{"0", "3", "4", "5", "6", "8", "15"})}
	}
	return c
}

var poolKeys = []string{k1, k1, k2, corev1.LabelTopologyZone, v1.CapacityTypeLabelKey, corev1.LabelArchStable, corev1.LabelOSStable, corev1.LabelInstanceTypeStable,
	fake.IntegerInstanceLabelKey, fake.LabelInstanceSize}

// ---------------------------------------------------------------- environment of one case
type sysEnv struct {
	ctx      context.Context
	kube     client.Client
	clk      *clock.FakeClock
	cp       *provider
	np       *v1.NodePool
	t0       time.Time
	ctrl     *ncdisruption.Controller
	hashCtrl *nphash.Controller // long-lived: whatever it keeps in memory survives pool edits, deletion and re-creation
	// API faults (all switchable): status patch of NodeClaims, patch of NodeClaims / NodePools, list of NodeClaims
	failClaimStatusPatch    error
	failClaimStatusOnce     bool
	failClaimPatch          error
	failClaimLabelPatchOnce error
	failPoolPatch           error
	failClaimList           error
}

func mustQty(s string) resource.Quantity { return resource.MustParse(s) }

func newSysEnv() *sysEnv {
	e := &sysEnv{ctx: kit.Context(), t0: time.Unix(1_700_000_000, 0)}
	e.clk = clock.NewFakeClock(e.t0)
	e.cp = &provider{CloudProvider: fake.NewCloudProvider()}
	e.cp.InstanceTypes = mkCatalogue()
	e.kube = kit.NewClient(interceptor.Funcs{
		SubResourcePatch: func(ctx context.Context, cl client.Client, sub string, obj client.Object, patch client.Patch, opts ...client.SubResourcePatchOption) error {
			if _, ok := obj.(*v1.NodeClaim); ok && sub == "status" && e.failClaimStatusPatch != nil {
				err := e.failClaimStatusPatch
				if e.failClaimStatusOnce {
					e.failClaimStatusPatch = nil
				}
				return err
			}
			return cl.SubResource(sub).Patch(ctx, obj, patch, opts...)
		},
		Patch: func(ctx context.Context, cl client.WithWatch, obj client.Object, patch client.Patch, opts ...client.PatchOption) error {
			if _, ok := obj.(*v1.NodeClaim); ok && e.failClaimPatch != nil {
				return e.failClaimPatch
			}
			if _, ok := obj.(*v1.NodeClaim); ok && e.failClaimLabelPatchOnce != nil {
				// the metadata write that carries the labels resolved at launch (not the finalizer write before it)
				if data, err := patch.Data(obj); err == nil && strings.Contains(string(data), "\"labels\"") {
					err := e.failClaimLabelPatchOnce
					e.failClaimLabelPatchOnce = nil
					return err
				}
			}
			if _, ok := obj.(*v1.NodePool); ok && e.failPoolPatch != nil {
				return e.failPoolPatch
			}
			return cl.Patch(ctx, obj, patch, opts...)
		},
		List: func(ctx context.Context, cl client.WithWatch, list client.ObjectList, opts ...client.ListOption) error {
			if _, ok := list.(*v1.NodeClaimList); ok && e.failClaimList != nil {
				return e.failClaimList
			}
			return cl.List(ctx, list, opts...)
		},
	})
	e.ctrl = ncdisruption.NewController(e.clk, e.kube, e.cp) // one controller per claim life: its instance-type cache persists
	return e
}

func (e *sysEnv) get(obj client.Object) {
	if err := e.kube.Get(e.ctx, client.ObjectKeyFromObject(obj), obj); err != nil {
		panic(err)
	}
}

func annOf(m map[string]string) (string, bool, string, bool) {
	h, okh := m[v1.NodePoolHashAnnotationKey]
	v, okv := m[v1.NodePoolHashVersionAnnotationKey]
	return h, okh, v, okv
}

func annTerm(m map[string]string) string {
	h, okh, v, okv := annOf(m)
	return fmt.Sprintf("(%s, %s)", optStr(h, okh), optStr(v, okv))
}

func claimAnnTerm(nc *v1.NodeClaim) string {
	h, okh, v, okv := annOf(nc.Annotations)
	return fmt.Sprintf("(mkAnn %s %s %s)", optStr(h, okh), optStr(v, okv), kit.GBool(nc.StatusConditions().Get(v1.ConditionTypeDrifted) != nil))
}

type hashCtlJSON struct {
	Kind   string   `json:"kind"`
	Hash   string   `json:"hash"`
	Before []string `json:"before"`
	After  []string `json:"after"`
}

// runHashController reconciles the pool through the real hash controller and records the step as its own case.
// fault: "" | "list" | "claim-patch" | "pool-patch"; foreign = claims of another pool (must stay untouched)
func (e *sysEnv) runHashController(c *kit.Ctx, claimNames []string) {
	e.runHashControllerF(c, claimNames, nil, "")
}

func (e *sysEnv) runHashControllerF(c *kit.Ctx, claimNames, foreign []string, fault string) {
	np := &v1.NodePool{ObjectMeta: metav1.ObjectMeta{Name: e.np.Name}}
	e.get(np)
	before := annTerm(np.Annotations)
	verBefore := np.Annotations[v1.NodePoolHashVersionAnnotationKey]
	snap := func(names []string) (terms, js []string) {
		for _, n := range names {
			nc := &v1.NodeClaim{ObjectMeta: metav1.ObjectMeta{Name: n}}
			e.get(nc)
			terms = append(terms, claimAnnTerm(nc))
			js = append(js, fmt.Sprintf("%s:%v drifted=%v", n, nc.Annotations, nc.StatusConditions().Get(v1.ConditionTypeDrifted) != nil))
		}
		return
	}
	cb, jb := snap(claimNames)
	fb, _ := snap(foreign)
	h := np.Hash()
	injected := fmt.Errorf("injected: API call failed")
	ft := "HNoFault"
	switch fault {
	case "list":
		e.failClaimList, ft = injected, "HListFails"
	case "claim-patch":
		e.failClaimPatch, ft = injected, "HClaimPatchFails"
	case "pool-patch":
		e.failPoolPatch, ft = injected, "HPoolPatchFails"
	}
	managed := false
	for _, gvk := range e.cp.GetSupportedNodeClasses() {
		k := object.GVK(gvk)
		if ref := np.Spec.Template.Spec.NodeClassRef; ref != nil && ref.Group == k.Group && ref.Kind == k.Kind {
			managed = true
		}
	}
	if e.hashCtrl == nil {
		e.hashCtrl = nphash.NewController(e.kube, e.cp)
	}
	_, err := e.hashCtrl.Reconcile(e.ctx, np)
	e.failClaimList, e.failClaimPatch, e.failPoolPatch = nil, nil, nil
	if err != nil && fault == "" {
		panic(err)
	}
	e.get(np)
	e.np = np
	ca, ja := snap(claimNames)
	fa, _ := snap(foreign)
	c.Count(fmt.Sprintf("hashctl:managed=%v,fault=%s,claims=%d,foreign=%d,pool-version-before=%s,error=%v", managed, fault, len(claimNames), len(foreign), verBefore, err != nil))
	c.AddCase(fmt.Sprintf("CaseHashCtl %s %s %s %s %s %s %s %s %s", kit.GBool(managed), ft, cons.str(h), before, kit.GList(cb), annTerm(np.Annotations), kit.GList(ca), kit.GList(fb), kit.GList(fa)),
		hashCtlJSON{Kind: "hash-controller fault=" + fault, Hash: h, Before: append([]string{before}, jb...), After: append([]string{fmt.Sprint(np.Annotations)}, ja...)}, "")
}

// ---------------------------------------------------------------- one system case
type stepJSON struct {
	Edit      string            `json:"edit"`
	PoolReqs  []kcall           `json:"pool_requirements"`
	PoolAnn   map[string]string `json:"pool_annotations"`
	ClaimAnn  map[string]string `json:"claim_annotations"`
	Launched  bool              `json:"launched"`
	AgeS      int64             `json:"age_seconds"`
	Catalogue string            `json:"catalogue"`
	Provider  string            `json:"provider"`
	Observed  string            `json:"observed_drifted_reason"`
}

type sysJSON struct {
	Kind       string            `json:"kind"`
	Validated  bool              `json:"validated"`
	TmplLabels map[string]string `json:"template_labels"`
	PoolReqs   []kcall           `json:"pool_requirements"`
	PodReqs    []kcall           `json:"pod_requirements"`
	ClaimL     map[string]string `json:"claim_labels"`
	ProviderL  map[string]string `json:"provider_labels"`
	FinalL     map[string]string `json:"final_labels"`
	Steps      []stepJSON        `json:"steps"`
	Pre        []string          `json:"before_build"`
	BuiltFrom  string            `json:"hash_of_template_built_from"`
	Stamp      map[string]string `json:"claim_annotations_at_creation"`
	KfKey      string            `json:"kf_key,omitempty"`
}

func catalogueTerm(its []*cloudprovider.InstanceType) (string, string) {
	items := make([]string, len(its))
	var js []string
	for i, it := range its {
		offs := make([]string, len(it.Offerings))
		for j, o := range it.Offerings {
			rid := o.ReservationID()
			offs[j] = fmt.Sprintf("%s %s %s", cons.str(o.Zone()), cons.str(o.CapacityType()), optStr(rid, rid != ""))
			js = append(js, fmt.Sprintf("%s/%s/%s/%s", it.Name, o.Zone(), o.CapacityType(), rid))
		}
		items[i] = cons.str(it.Name) + " " + cons.term("list offering", monoList("o", offs))
	}
	return cons.term("catalog", monoList("it", items)), strings.Join(js, " ")
}

var noResolveKeys []string
var presenceCounter, skewCounter int

func initNoResolve() {
	s := map[string]bool{v1.NodeRegisteredLabelKey: true, v1.NodeInitializedLabelKey: true}
	for k := range v1.WellKnownLabels {
		s[k] = true
	}
	for k := range v1.RestrictedLabels {
		s[k] = true
	}
	noResolveKeys = nil
	for k := range s {
		noResolveKeys = append(noResolveKeys, k)
	}
	sort.Strings(noResolveKeys)
}

func wellKnownList() []string {
	var out []string
	for k := range v1.WellKnownLabels {
		out = append(out, k)
	}
	sort.Strings(out)
	return out
}

func reservedKeyList() []string {
	var out []string
	for k := range cloudprovider.ReservedCapacityLabels {
		out = append(out, k)
	}
	sort.Strings(out)
	return out
}

type sysPlan struct {
	static          bool // spec.replicas set: no instance-type requirement is injected by ToNodeClaim
	unmanaged       bool // nodeClassRef of a kind the provider does not support
	overlay         bool // the catalogue carries price / capacity overlays
	defaultTGP      bool // provscheduling.DefaultTerminationGracePeriod is set
	tmplAnnotations bool // spec.template.metadata.annotations is non-empty from the start
	recreate        bool // the pool is deleted and re-created under the same name before the claim is built
	preEdits        int
	tmplLabels      map[string]string
	poolReqs        []kcall
	podReqs         []kcall
	scenario        string
}

func runSys(c *kit.Ctx, r *kit.Rand, plan sysPlan) {
	e := newSysEnv()
	nodeClass := test.NodeClass()
	nodeClass.Name = "default"
	np := &v1.NodePool{ObjectMeta: metav1.ObjectMeta{Name: "pool", UID: types.UID("pool-uid")}}
	np.Spec.Template.Labels = plan.tmplLabels
	if plan.tmplAnnotations {
		np.Spec.Template.Annotations = map[string]string{"example.com/owner": "team-a"}
	}
	for _, k := range plan.poolReqs {
		np.Spec.Template.Spec.Requirements = append(np.Spec.Template.Spec.Requirements, k.nsr())
	}
	np.Spec.Template.Spec.NodeClassRef = &v1.NodeClassReference{Group: object.GVK(nodeClass).Group, Kind: object.GVK(nodeClass).Kind, Name: nodeClass.Name}
	np.Spec.Template.Spec.ExpireAfter = v1.MustParseNillableDuration("720h")
	np.Spec.Disruption.Budgets = []v1.Budget{{Nodes: "10%"}}
	if plan.static {
		n := int64(3)
		np.Spec.Replicas = &n
	}
	if plan.overlay {
		e.cp.InstanceTypes[0].Offerings[0].ApplyPriceOverlay("+10%")
		e.cp.InstanceTypes[2].ApplyCapacityOverlay(corev1.ResourceList{corev1.ResourceName("example.com/extra"): mustQty("1")})
	}
	if plan.defaultTGP {
		provscheduling.DefaultTerminationGracePeriod = &metav1.Duration{Duration: 30 * time.Second}
		defer func() { provscheduling.DefaultTerminationGracePeriod = nil }()
	}
	c.Count(fmt.Sprintf("pool:static=%v,overlay=%v,defaultTGP=%v", plan.static, plan.overlay, plan.defaultTGP))
	if plan.unmanaged {
		// a pool of a node class the provider does not support: the hash controller leaves it alone
		np.Spec.Template.Spec.NodeClassRef = &v1.NodeClassReference{Group: "other.sh", Kind: "OtherNodeClass", Name: "x"}
		kit.Apply(e.ctx, e.kube, nodeClass, np)
		e.np = np
		e.runHashController(c, nil)
		return
	}
	validated := np.RuntimeValidate(e.ctx) == nil
	np.Generation = 1 // the API server's generation semantics are emulated: 1 on create, +1 on every spec change
	kit.Apply(e.ctx, e.kube, nodeClass, np)
	e.np = np
	// ---- before the claim is built: the hash controller may or may not have stamped the pool, and the template may be
	// edited (hashed or ignored fields) with the hash controller lagging behind. The claim is built from the pool OBJECT.
	stale := false
	var pre []string
	if r.Chance(3, 4) {
		e.runHashController(c, nil)
		pre = append(pre, "hashctl")
	} else {
		stale = true
		pre = append(pre, "no-hashctl")
	}
	for i, n := 0, plan.preEdits; i < n; i++ {
		cur := &v1.NodePool{ObjectMeta: metav1.ObjectMeta{Name: "pool"}}
		e.get(cur)
		hashed := r.Bool()
		if hashed {
			switch r.Intn(4) {
			case 0:
				cur.Spec.Template.Annotations = map[string]string{"example.com/rev": fmt.Sprint(i)}
			case 1:
				cur.Spec.Template.Spec.Taints = append(cur.Spec.Template.Spec.Taints, corev1.Taint{Key: fmt.Sprintf("example.com/pre%d", i), Effect: corev1.TaintEffectNoSchedule})
			case 2:
				cur.Spec.Template.Spec.ExpireAfter = v1.MustParseNillableDuration(fmt.Sprintf("%dh", 100+i))
			case 3:
				cur.Spec.Template.Spec.TerminationGracePeriod = &metav1.Duration{Duration: time.Duration(10+i) * time.Minute}
			}
			stale = true
			pre = append(pre, "edit-hashed")
		} else {
			w := int32(10 + i)
			cur.Spec.Weight = &w
			cur.Spec.Disruption.Budgets = []v1.Budget{{Nodes: fmt.Sprint(2 + i)}}
			pre = append(pre, "edit-ignored")
		}
		cur.Generation++
		if err := e.kube.Update(e.ctx, cur); err != nil {
			panic(err)
		}
		if r.Bool() {
			e.runHashController(c, nil)
			stale = false
			pre = append(pre, "hashctl")
		}
	}
	if plan.recreate {
		// delete-and-apply: the pool is deleted and created again under the SAME name with a different drift-relevant
		// template, a new UID and generation 1 again; the same hash controller instance reconciles the new object
		old := &v1.NodePool{ObjectMeta: metav1.ObjectMeta{Name: "pool"}}
		e.get(old)
		if err := e.kube.Delete(e.ctx, old); err != nil {
			panic(err)
		}
		fresh := &v1.NodePool{ObjectMeta: metav1.ObjectMeta{Name: "pool", UID: types.UID("pool-uid-2"), Generation: old.Generation}}
		if r.Bool() {
			fresh.Generation = 1
		}
		fresh.Spec = *old.Spec.DeepCopy()
		switch r.Intn(3) {
		case 0:
			fresh.Spec.Template.Annotations = map[string]string{"example.com/recreated": "yes"}
		case 1:
			fresh.Spec.Template.Spec.Taints = append(fresh.Spec.Template.Spec.Taints, corev1.Taint{Key: "example.com/recreated", Effect: corev1.TaintEffectNoExecute})
		case 2:
			fresh.Spec.Template.Spec.ExpireAfter = v1.MustParseNillableDuration("999h")
		}
		kit.Apply(e.ctx, e.kube, fresh)
		e.np = fresh
		stale = true
		pre = append(pre, fmt.Sprintf("recreate-same-name(generation %d->%d)", old.Generation, fresh.Generation))
		if r.Chance(3, 4) {
			e.runHashController(c, nil)
			stale = false
			pre = append(pre, "hashctl")
		}
		c.Count(fmt.Sprintf("build:pool-recreated-under-same-name,same-generation=%v", old.Generation == fresh.Generation))
	}
	np = &v1.NodePool{ObjectMeta: metav1.ObjectMeta{Name: "pool"}}
	e.get(np)
	e.np = np
	builtFrom := np.Hash() // Hash() of the template the claim is built from
	_, poolStamped := np.Annotations[v1.NodePoolHashAnnotationKey]
	c.Count(fmt.Sprintf("build:pool-annotated=%v,annotation-stale=%v", poolStamped, poolStamped && np.Annotations[v1.NodePoolHashAnnotationKey] != builtFrom))

	// ---- a batch: several templates / claims are built from the SAME in-memory pool object (static provisioning scaling
	// up by several replicas, drift replacement of several candidates). Building is read-only: it must not change
	// Hash() of the object it was given, and every build is stamped with that hash. The claim followed below is the LAST.
	builds := r.Range(1, 3)
	c.Count(fmt.Sprintf("build:batch=%d,template-annotations=%v", builds, len(np.Spec.Template.Annotations) > 0))
	for i := 1; i < builds; i++ {
		earlier := provscheduling.NewNodeClaimTemplate(np)
		earlier.InstanceTypeOptions = e.cp.InstanceTypes
		var enc *v1.NodeClaim
		if panicked, _ := kit.Recover(func() { enc = earlier.ToNodeClaim() }); panicked {
			continue
		}
		in := map[string]interface{}{"kind": "batch-build", "build": i, "of": builds, "template_annotations": np.Spec.Template.Annotations,
			"hash_before_any_build": builtFrom, "hash_of_pool_object_now": np.Hash(), "claim_annotations": enc.Annotations}
		if h := np.Hash(); h != builtFrom {
			c.Fail(c.NextID(), fmt.Sprintf("NewNodeClaimTemplate/ToNodeClaim changed Hash() of the NodePool object it was given: %s -> %s after build %d of %d", builtFrom, h, i, builds), "", in)
		}
		if enc.Annotations[v1.NodePoolHashAnnotationKey] != builtFrom || enc.Annotations[v1.NodePoolHashVersionAnnotationKey] != v1.NodePoolHashVersion {
			c.Fail(c.NextID(), fmt.Sprintf("claim %d of a batch of %d is not stamped with the hash of the template it was built from (%s): %v", i, builds, builtFrom, enc.Annotations), "", in)
		}
	}

	// ---- the scheduler's part: template, pod requirements, instance type options, ToNodeClaim
	nct := provscheduling.NewNodeClaimTemplate(np)
	if h := np.Hash(); h != builtFrom {
		c.Fail(c.NextID(), fmt.Sprintf("NewNodeClaimTemplate changed Hash() of the NodePool object it was given: %s -> %s (build %d of %d)", builtFrom, h, builds, builds), "",
			map[string]interface{}{"kind": "batch-build", "build": builds, "of": builds, "template_annotations": np.Spec.Template.Annotations, "hash_before_any_build": builtFrom, "hash_of_pool_object_now": h})
	}
	var podApplied []kcall
	for _, p := range plan.podReqs {
		extra := scheduling.NewRequirements(p.req())
		if nct.Requirements.Compatible(extra, scheduling.AllowUndefinedWellKnownLabels) == nil {
			nct.Requirements.Add(extra.Values()...)
			podApplied = append(podApplied, p)
		}
	}
	var options []*cloudprovider.InstanceType
	for _, it := range e.cp.InstanceTypes {
		if it.Requirements.Intersects(nct.Requirements) == nil && it.Offerings.Available().HasCompatible(nct.Requirements) {
			options = append(options, it)
		}
	}
	nct.InstanceTypeOptions = options
	pj := sysJSON{Kind: "system:" + plan.scenario, Validated: validated, TmplLabels: plan.tmplLabels, PoolReqs: plan.poolReqs, PodReqs: podApplied}
	if len(options) == 0 {
		c.Count("sys:no-compatible-instance-type")
		return
	}
	var nc *v1.NodeClaim
	if panicked, msg := kit.Recover(func() { nc = nct.ToNodeClaim() }); panicked {
		c.Count("sys:ToNodeClaim-panicked")
		id := c.NextID()
		c.AddCase("CaseNote", pj, "")
		c.Fail(id, "ToNodeClaim panicked: "+msg, "", pj)
		return
	}
	nc.Name = "claim"
	nc.UID = types.UID("claim-uid")
	stampAnn := map[string]string{}
	for k, v := range nc.Annotations {
		stampAnn[k] = v
	}
	stampHash, stampHashOK, stampVer, stampVerOK := annOf(stampAnn)
	pj.Pre, pj.BuiltFrom, pj.Stamp = pre, builtFrom, stampAnn
	nc.CreationTimestamp = metav1.Time{Time: e.t0}
	claimLabels := map[string]string{}
	for k, v := range nc.Labels {
		claimLabels[k] = v
	}

	// ---- steps
	curReqs := append([]kcall{}, plan.poolReqs...)
	kf := ""
	var stepTerms []string
	claimNames := []string{"claim"}
	step := func(edit string, age time.Duration, runHash bool, fresh bool) {
		if runHash {
			e.runHashController(c, claimNames)
		}
		e.clk.SetTime(e.t0.Add(age))
		cur := &v1.NodeClaim{ObjectMeta: metav1.ObjectMeta{Name: "claim"}}
		e.get(cur)
		pool := &v1.NodePool{ObjectMeta: metav1.ObjectMeta{Name: "pool"}}
		poolExists := e.kube.Get(e.ctx, client.ObjectKeyFromObject(pool), pool) == nil
		launched := cur.StatusConditions().Get(v1.ConditionTypeLaunched).IsTrue()
		its, itErr := e.cp.GetInstanceTypes(e.ctx, pool)
		catTerm, catJSON := "nocat", "error"
		if itErr == nil {
			t, j := catalogueTerm(its)
			catTerm, catJSON = "(Some "+t+")", j
		}
		provTerm, provJSON := "PErr", "error"
		if e.cp.driftErr == nil {
			provTerm, provJSON = "(PReason "+cons.str(string(e.cp.Drifted))+")", string(e.cp.Drifted)
		}
		nh, nhok, nv, nvok := annOf(pool.Annotations)
		ch2, chok, cv, cvok := annOf(cur.Annotations)
		// the controller's own gates, read off the objects
		managed := false
		for _, nodeClassObj := range e.cp.GetSupportedNodeClasses() {
			k := object.GVK(nodeClassObj)
			if ref := cur.Spec.NodeClassRef; ref != nil && ref.Group == k.Group && ref.Kind == k.Kind {
				managed = true
			}
		}
		_, hasPoolLabel := cur.Labels[v1.NodePoolLabelKey]
		active := managed && cur.DeletionTimestamp.IsZero() && hasPoolLabel && poolExists
		patchOK := e.failClaimStatusPatch == nil
		if _, err := e.ctrl.Reconcile(e.ctx, cur); err != nil {
			c.Count("sys:reconcile-error")
		}
		e.failClaimStatusPatch = nil
		after := &v1.NodeClaim{ObjectMeta: metav1.ObjectMeta{Name: "claim"}}
		e.get(after)
		obs, obsJSON := "nostr", ""
		if cond := after.StatusConditions().Get(v1.ConditionTypeDrifted); cond != nil {
			obs, obsJSON = optStr(cond.Reason, true), cond.Reason
			if !cond.IsTrue() {
				obs, obsJSON = optStr("not-true:"+cond.Reason, true), "not-true:"+cond.Reason
			}
		}
		d := fmt.Sprintf("(mkD %s %s %s %s %s %s %s %d false %s %s %s %s %s)", kit.GBool(launched), optStr(nh, nhok), optStr(nv, nvok), optStr(ch2, chok), optStr(cv, cvok),
			callsTerm(curReqs), labelsTerm(cur.Labels), int64(age/time.Second), strsTerm(wellKnownList()), strsTerm(reservedKeyList()), cons.str(cloudprovider.ReservationIDLabel), catTerm, provTerm)
		stepTerms = append(stepTerms, fmt.Sprintf("(%s, %s, %s, %s, %s)", kit.GBool(active), kit.GBool(patchOK), kit.GBool(fresh), cons.term("dinput", d[1:len(d)-1]), obs))
		pj.Steps = append(pj.Steps, stepJSON{Edit: edit, PoolReqs: append([]kcall{}, curReqs...), PoolAnn: pool.Annotations, ClaimAnn: cur.Annotations, Launched: launched && active && patchOK,
			AgeS: int64(age / time.Second), Catalogue: catJSON, Provider: provJSON, Observed: obsJSON})
		c.Count("step:" + edit + "=>" + obsJSON)
		bucket := "age<=1h"
		if age > time.Hour {
			bucket = "age>1h"
		}
		c.Count(fmt.Sprintf("drift-branch:active=%v,patch-ok=%v,launched=%v,node-name=%v,%s,catalogue=%s,provider=%s=>%s", active, patchOK, launched, cur.Status.NodeName != "", bucket,
			map[bool]string{true: "ok", false: "error"}[itErr == nil], map[bool]string{true: "error", false: provJSON}[e.cp.driftErr != nil], obsJSON))
	}
	updatePool := func(f func(np *v1.NodePool)) {
		pool := &v1.NodePool{ObjectMeta: metav1.ObjectMeta{Name: "pool"}}
		e.get(pool)
		before := pool.Spec.DeepCopy()
		f(pool)
		if !equality.Semantic.DeepEqual(before, &pool.Spec) {
			pool.Generation++
		}
		if err := e.kube.Update(e.ctx, pool); err != nil {
			panic(err)
		}
	}
	setReqs := func(cs []kcall) {
		curReqs = cs
		updatePool(func(np *v1.NodePool) {
			np.Spec.Template.Spec.Requirements = nil
			for _, k := range cs {
				np.Spec.Template.Spec.Requirements = append(np.Spec.Template.Spec.Requirements, k.nsr())
			}
		})
	}
	updateClaim := func(f func(nc *v1.NodeClaim)) {
		cur := &v1.NodeClaim{ObjectMeta: metav1.ObjectMeta{Name: "claim"}}
		e.get(cur)
		f(cur)
		st := cur.DeepCopy()
		if err := e.kube.Update(e.ctx, cur); err != nil {
			panic(err)
		}
		st.ResourceVersion = cur.ResourceVersion
		if err := e.kube.Status().Update(e.ctx, st); err != nil {
			panic(err)
		}
	}
	ages := []time.Duration{time.Minute, 3599 * time.Second, 3600 * time.Second, 3601 * time.Second, 2 * time.Hour}

	// ---- adversarial launch: any instance type the claim permits, any available offering it permits
	claimReqs := scheduling.NewNodeSelectorRequirementsWithMinValues(nc.Spec.Requirements...)
	type choice struct {
		it *cloudprovider.InstanceType
		o  *cloudprovider.Offering
	}
	var choices []choice
	for _, it := range e.cp.InstanceTypes {
		if !claimReqs.IsCompatible(it.Requirements, scheduling.AllowUndefinedWellKnownLabels) {
			continue
		}
		for _, o := range it.Offerings.Available().Compatible(claimReqs) {
			choices = append(choices, choice{it, o})
		}
	}
	if len(choices) == 0 {
		c.Count("sys:no-permitted-launch")
		return
	}
	ch := kit.Pick(r, choices)
	provL := map[string]string{}
	for key, req := range ch.it.Requirements {
		if req.Operator() != corev1.NodeSelectorOpIn {
			continue
		}
		vals := req.Values()
		sort.Strings(vals)
		var ok []string
		for _, v := range vals {
			if claimReqs.Get(key).Has(v) {
				ok = append(ok, v)
			}
		}
		if len(ok) == 0 {
			ok = vals
		}
		provL[key] = kit.Pick(r, ok)
	}
	for _, req := range ch.o.Requirements {
		provL[req.Key] = req.Any()
	}
	// a provider may also answer with its own value for a key the claim already labels: the claim's value wins
	if r.Chance(1, 3) {
		for _, k := range kit.SortedKeys(nc.Labels) {
			if r.Chance(1, 2) {
				provL[k] = "from-provider"
				c.Count("sys:provider-label-conflicts-with-claim-label")
			}
		}
	}
	echo := r.Chance(1, 2)
	created := &v1.NodeClaim{ObjectMeta: metav1.ObjectMeta{Name: nc.Name, Labels: map[string]string{}, Annotations: nc.Annotations}}
	for k, v := range provL {
		created.Labels[k] = v
	}
	if echo { // like the fake provider: the answer also echoes the claim's own labels
		for k, v := range nc.Labels {
			created.Labels[k] = v
		}
	}
	created.Status.ProviderID = "fake://claim"
	provTermL := map[string]string{}
	for k, v := range created.Labels {
		provTermL[k] = v
	}
	pj.ClaimL, pj.ProviderL = claimLabels, provTermL

	// ---- the real lifecycle controller launches the claim: Launch.Reconcile, cloudProvider.Create (answers above),
	// PopulateNodeClaimDetails, status patch; with launch faults before the successful attempt
	kit.Apply(e.ctx, e.kube, nc)
	e.cp.created = created
	lc := lifecycle.NewController(e.clk, e.kube, e.cp, events.NewRecorder(&record.FakeRecorder{}), nodepoolhealth.NewState(), nil)
	reconcileLaunch := func() {
		cur := &v1.NodeClaim{ObjectMeta: metav1.ObjectMeta{Name: "claim"}}
		e.get(cur)
		_, _ = lc.Reconcile(e.ctx, cur)
	}
	launchFault := "none"
	if r.Chance(1, 4) {
		launchFault = kit.Pick(r, []string{"create-error", "generic-error", "insufficient-capacity", "nodeclass-not-ready", "status-patch-fails-once",
			"metadata-patch-fails-once", "metadata-patch-fails-once"})
	}
	c.Count("launch-fault:" + launchFault)
	finish := func(final map[string]string) {
		pj.FinalL = final
		if kf == "" {
			kf = presenceShape(pj.Steps, final)
		}
		pj.KfKey = kf
		b, _ := json.Marshal(pj)
		c.AddCase(fmt.Sprintf("CaseSys %s (%s, %s) %s %s %s %s %s %s %s %s", cons.str(builtFrom), optStr(stampHash, stampHashOK), optStr(stampVer, stampVerOK), kit.GBool(validated), strsTerm(noResolveKeys),
			fmt.Sprintf("(mkPool %s (%s, %s) %s %s)", cons.str("pool"), cons.str(v1.NodeClassLabelKey(np.Spec.Template.Spec.NodeClassRef.GroupKind())), cons.str(nodeClass.Name),
				labelsTerm(plan.tmplLabels), callsTerm(plan.poolReqs)),
			callsTerm(podApplied), labelsTerm(claimLabels), labelsTerm(pj.ProviderL), labelsTerm(final), kit.GList(stepTerms)), pj, "sys:"+string(b))
	}
	switch launchFault {
	case "create-error":
		e.cp.createErrs = []error{cloudprovider.NewCreateError(fmt.Errorf("injected"), "InjectedReason", "injected create error")}
	case "generic-error":
		e.cp.createErrs = []error{fmt.Errorf("injected: provider unavailable")}
	case "insufficient-capacity":
		e.cp.createErrs = []error{cloudprovider.NewInsufficientCapacityError(fmt.Errorf("injected"))}
	case "nodeclass-not-ready":
		e.cp.createErrs = []error{cloudprovider.NewNodeClassNotReadyError(fmt.Errorf("injected"))}
	case "metadata-patch-fails-once":
		e.failClaimLabelPatchOnce = fmt.Errorf("injected: metadata patch rejected")
	case "status-patch-fails-once":
		e.failClaimStatusPatch, e.failClaimStatusOnce = fmt.Errorf("injected: status patch failed"), true
	}
	reconcileLaunch()
	e.failClaimStatusPatch, e.failClaimStatusOnce = nil, false
	e.failClaimLabelPatchOnce = nil
	if launchFault != "none" {
		// the claim is not launched (or being deleted): the drift controller must not report it
		step("launch-failed:"+launchFault, time.Minute, r.Bool(), true)
		if launchFault == "insufficient-capacity" || launchFault == "nodeclass-not-ready" {
			cur := &v1.NodeClaim{ObjectMeta: metav1.ObjectMeta{Name: "claim"}}
			e.get(cur)
			if cur.DeletionTimestamp.IsZero() {
				c.Fail(c.NextID(), "launch failure "+launchFault+" did not delete the NodeClaim", "", pj)
			}
			pj.ProviderL = map[string]string{}
			finish(claimLabels)
			return
		}
		reconcileLaunch() // second attempt: Create succeeds, or the cached answer of the first attempt is used
		for i, n := 0, r.Intn(3); i < n; i++ {
			reconcileLaunch()
		}
	}
	nc = &v1.NodeClaim{ObjectMeta: metav1.ObjectMeta{Name: "claim"}}
	e.get(nc)
	if !nc.StatusConditions().Get(v1.ConditionTypeLaunched).IsTrue() {
		c.Fail(c.NextID(), fmt.Sprintf("lifecycle controller did not launch the claim (fault %s, %d Create calls)", launchFault, e.cp.createCalls), "", pj)
		pj.ProviderL = map[string]string{}
		finish(claimLabels)
		return
	}
	if r.Chance(1, 3) {
		// the lifecycle controller sees the launched claim again: nothing about its labels or stamp may change
		reconcileLaunch()
		nc = &v1.NodeClaim{ObjectMeta: metav1.ObjectMeta{Name: "claim"}}
		e.get(nc)
		c.Count("launch:reconciled-again-after-launch")
	}
	c.Count(fmt.Sprintf("launch:create-calls=%d", e.cp.createCalls))
	finalL := map[string]string{}
	for k, v := range nc.Labels {
		finalL[k] = v
	}
	pj.FinalL = finalL
	c.Count("sys:launched:" + ch.it.Name + "/" + ch.o.CapacityType())

	// the fresh claim, first at a young age, then once past the hour (instance type check runs)
	// (when the pool's stamp was missing or stale at build time the hash controller catches up first)
	step("fresh", kit.Pick(r, ages[:2]), stale, true)
	scenario := plan.scenario
	if pj.Steps[len(pj.Steps)-1].Observed != "" {
		// a fresh claim reported drifted: name the known input shape (if it is one) and stop here
		kf = freshShape(plan, finalL)
		c.Count("fresh-drifted:" + kf)
		scenario = "stop"
	}
	switch scenario {
	case "fresh":
		step("fresh-later", kit.Pick(r, ages[2:]), r.Bool(), true)
	case "edit-ignored":
		updatePool(func(np *v1.NodePool) {
			w := int32(7)
			np.Spec.Weight = &w
			np.Spec.Disruption.Budgets = []v1.Budget{{Nodes: "3"}}
			np.Spec.Limits = v1.Limits{corev1.ResourceCPU: mustQty("10")}
			np.Spec.Disruption.ConsolidateAfter = v1.MustParseNillableDuration("5m")
		})
		step("edit-ignored", kit.Pick(r, ages), true, true)
	case "edit-hashed":
		which := r.Intn(4)
		updatePool(func(np *v1.NodePool) {
			switch which {
			case 0:
				np.Spec.Template.Annotations = map[string]string{"example.com/note": "x"}
			case 1:
				np.Spec.Template.Spec.Taints = append(np.Spec.Template.Spec.Taints, corev1.Taint{Key: "example.com/new", Effect: corev1.TaintEffectNoSchedule})
			case 2:
				np.Spec.Template.Spec.ExpireAfter = v1.MustParseNillableDuration("1h")
			case 3:
				np.Spec.Template.Spec.TerminationGracePeriod = &metav1.Duration{Duration: time.Minute}
			}
		})
		runHash := !r.Chance(1, 4) // sometimes the hash controller has not caught up yet
		step(fmt.Sprintf("edit-hashed-%d-hashctl=%v", which, runHash), kit.Pick(r, ages), runHash, false)
		if !runHash {
			step("hash-controller-catches-up", kit.Pick(r, ages), true, false)
		}
	case "edit-requirements":
		n := r.Range(1, 2)
		cs := append([]kcall{}, curReqs...)
		for i := 0; i < n; i++ {
			key := kit.Pick(r, append(append([]string{}, poolKeys...), k9, k3, corev1.LabelTopologyRegion))
			nk := genCall(r, key)
			if r.Chance(1, 3) && len(cs) > 0 {
				cs[r.Intn(len(cs))] = nk
			} else {
				cs = append(cs, nk)
			}
		}
		setReqs(cs)
		step("edit-requirements", kit.Pick(r, ages), true, false)
		if r.Chance(1, 3) { // and back
			setReqs(plan.poolReqs)
			step("requirements-restored", kit.Pick(r, ages), true, false)
		}
	case "requirements-presence":
		// presence-demanding entries on a key the claim has no label for, alone and next to an exclusion
		presenceCounter++
		shape := presenceCounter % 5
		var add []kcall
		switch shape {
		case 0:
			add = []kcall{{Key: k9, Op: "Exists", Vals: []string{}}}
		case 1:
			add = []kcall{{Key: k9, Op: "Exists", Vals: []string{}}, {Key: k9, Op: "NotIn", Vals: []string{"a"}}}
		case 2:
			add = []kcall{{Key: k9, Op: "NotIn", Vals: []string{"a"}}, {Key: k9, Op: "Exists", Vals: []string{}}}
		case 3:
			add = []kcall{{Key: k9, Op: "In", Vals: []string{"a"}}, {Key: k9, Op: "In", Vals: []string{"b"}}}
		case 4:
			add = []kcall{{Key: k9, Op: "NotIn", Vals: []string{"a"}}, {Key: k9, Op: "DoesNotExist", Vals: []string{}}}
		}
		setReqs(append(append([]kcall{}, curReqs...), add...))
		step(fmt.Sprintf("requirements-presence-%d", shape), kit.Pick(r, ages), true, false)
	case "version-skew":
		skewCounter++
		old := skewCounter % 5
		updatePool(func(np *v1.NodePool) {
			if old == 4 { // the pool lost its annotations altogether
				delete(np.Annotations, v1.NodePoolHashVersionAnnotationKey)
				delete(np.Annotations, v1.NodePoolHashAnnotationKey)
				return
			}
			np.Annotations[v1.NodePoolHashVersionAnnotationKey] = "v2"
			np.Annotations[v1.NodePoolHashAnnotationKey] = "1111"
		})
		withCond := r.Bool()
		updateClaim(func(nc *v1.NodeClaim) {
			switch old {
			case 0:
				nc.Annotations[v1.NodePoolHashVersionAnnotationKey] = "v2"
				nc.Annotations[v1.NodePoolHashAnnotationKey] = "2222"
			case 1:
				delete(nc.Annotations, v1.NodePoolHashVersionAnnotationKey)
			case 3:
				delete(nc.Annotations, v1.NodePoolHashAnnotationKey) // current version, no hash
			case 2, 4:
				nc.Annotations[v1.NodePoolHashAnnotationKey] = "3333" // current version, other hash
			}
			if withCond {
				nc.StatusConditions().SetTrueWithReason(v1.ConditionTypeDrifted, "NodePoolDrifted", "NodePoolDrifted")
			}
		})
		// a second claim of the pool in yet another state
		other := test.NodeClaim(v1.NodeClaim{ObjectMeta: metav1.ObjectMeta{Name: "other", Labels: map[string]string{v1.NodePoolLabelKey: "pool"},
			Annotations: map[string]string{v1.NodePoolHashAnnotationKey: "4444", v1.NodePoolHashVersionAnnotationKey: kit.Pick(r, []string{"v1", v1.NodePoolHashVersion})}}})
		other.Spec.NodeClassRef = &v1.NodeClassReference{Group: object.GVK(nodeClass).Group, Kind: object.GVK(nodeClass).Kind, Name: nodeClass.Name}
		if r.Bool() {
			other.StatusConditions().SetTrueWithReason(v1.ConditionTypeDrifted, "NodePoolDrifted", "NodePoolDrifted")
		}
		kit.Apply(e.ctx, e.kube, other)
		claimNames = []string{"claim", "other"}
		// a claim of ANOTHER pool with an old version: none of this pool's business
		foreign := test.NodeClaim(v1.NodeClaim{ObjectMeta: metav1.ObjectMeta{Name: "foreign", Labels: map[string]string{v1.NodePoolLabelKey: "another-pool"},
			Annotations: map[string]string{v1.NodePoolHashAnnotationKey: "5555", v1.NodePoolHashVersionAnnotationKey: "v1"}}})
		foreign.Spec.NodeClassRef = &v1.NodeClassReference{Group: object.GVK(nodeClass).Group, Kind: object.GVK(nodeClass).Kind, Name: nodeClass.Name}
		kit.Apply(e.ctx, e.kube, foreign)
		if r.Chance(1, 3) || old >= 3 {
			step(fmt.Sprintf("version-skew-%d-before-hashctl", old), kit.Pick(r, ages), false, false)
		}
		// the migration may hit an API fault first; the next reconcile completes it
		if fault := kit.Pick(r, []string{"", "", "list", "claim-patch", "pool-patch"}); fault != "" {
			e.runHashControllerF(c, claimNames, []string{"foreign"}, fault)
			step(fmt.Sprintf("version-skew-%d-after-failed-hashctl-%s", old, fault), kit.Pick(r, ages), false, false)
		}
		e.runHashControllerF(c, claimNames, []string{"foreign"}, "")
		step(fmt.Sprintf("version-skew-%d", old), kit.Pick(r, ages), false, false)
	case "catalogue":
		which := r.Intn(4)
		before := r.Chance(1, 3)
		if before { // a successful check first: fills the 30 minute cache
			step("catalogue-check-before-change", 2*time.Hour, false, false)
		}
		lab := finalL
		var out []*cloudprovider.InstanceType
		for _, it := range e.cp.InstanceTypes {
			if it.Name != lab[corev1.LabelInstanceTypeStable] {
				out = append(out, it)
				continue
			}
			switch which {
			case 0: // type gone
			case 1: // the offering (zone) gone
				var offs cloudprovider.Offerings
				for _, o := range it.Offerings {
					if o.Zone() != lab[corev1.LabelTopologyZone] {
						offs = append(offs, o)
					}
				}
				out = append(out, &cloudprovider.InstanceType{Name: it.Name, Requirements: it.Requirements, Offerings: offs, Capacity: it.Capacity, Overhead: it.Overhead})
			case 2: // capacity type of the offering gone, zone stays (reserved claims may fall back to on-demand)
				var offs cloudprovider.Offerings
				for _, o := range it.Offerings {
					if !(o.Zone() == lab[corev1.LabelTopologyZone] && o.CapacityType() == lab[v1.CapacityTypeLabelKey]) {
						offs = append(offs, o)
					}
				}
				out = append(out, &cloudprovider.InstanceType{Name: it.Name, Requirements: it.Requirements, Offerings: offs, Capacity: it.Capacity, Overhead: it.Overhead})
			case 3: // offering only becomes unavailable: must not count
				var offs cloudprovider.Offerings
				for _, o := range it.Offerings {
					cp := *o
					cp.Available = false
					offs = append(offs, &cp)
				}
				out = append(out, &cloudprovider.InstanceType{Name: it.Name, Requirements: it.Requirements, Offerings: offs, Capacity: it.Capacity, Overhead: it.Overhead})
			}
		}
		e.cp.InstanceTypes = out
		age := kit.Pick(r, ages)
		if r.Chance(1, 6) {
			e.cp.itErr = fmt.Errorf("injected: GetInstanceTypes failed")
			age = kit.Pick(r, ages[2:])
		}
		step(fmt.Sprintf("catalogue-%d", which), age, false, false)
	case "provider":
		if r.Chance(1, 3) {
			e.cp.driftErr = fmt.Errorf("injected: IsDrifted failed")
		} else {
			e.cp.Drifted = "CloudProviderDrifted"
		}
		step("provider", kit.Pick(r, ages), false, false)
		e.cp.driftErr, e.cp.Drifted = nil, ""
		step("provider-recovered", kit.Pick(r, ages), false, false)
	case "gate":
		// the pool is edited so that an active controller would report NodePoolDrifted; the claim is in a state (or the
		// API in a mood) in which the controller must leave the stored condition alone
		updatePool(func(np *v1.NodePool) { np.Spec.Template.Annotations = map[string]string{"example.com/gate": "x"} })
		e.runHashController(c, claimNames)
		which := kit.Pick(r, []string{"deleting", "no-nodepool-label", "pool-deleted", "unmanaged-claim", "status-patch-conflict", "status-patch-error", "node-name"})
		switch which {
		case "deleting":
			cur := &v1.NodeClaim{ObjectMeta: metav1.ObjectMeta{Name: "claim"}}
			e.get(cur)
			if err := e.kube.Delete(e.ctx, cur); err != nil { // the termination finalizer keeps it
				panic(err)
			}
		case "no-nodepool-label":
			updateClaim(func(nc *v1.NodeClaim) { delete(nc.Labels, v1.NodePoolLabelKey) })
		case "pool-deleted":
			pool := &v1.NodePool{ObjectMeta: metav1.ObjectMeta{Name: "pool"}}
			e.get(pool)
			if err := e.kube.Delete(e.ctx, pool); err != nil {
				panic(err)
			}
		case "unmanaged-claim":
			updateClaim(func(nc *v1.NodeClaim) {
				nc.Spec.NodeClassRef = &v1.NodeClassReference{Group: "other.sh", Kind: "OtherNodeClass", Name: "x"}
			})
		case "status-patch-conflict":
			e.failClaimStatusPatch = apierrors.NewConflict(schema.GroupResource{Group: "karpenter.sh", Resource: "nodeclaims"}, "claim", fmt.Errorf("injected conflict"))
		case "status-patch-error":
			e.failClaimStatusPatch = fmt.Errorf("injected: status patch failed")
		case "node-name":
			updateClaim(func(nc *v1.NodeClaim) { nc.Status.NodeName = "node-1" })
		}
		step("gate:"+which, kit.Pick(r, ages), false, false)
		if which == "status-patch-conflict" || which == "status-patch-error" {
			step("gate:"+which+"-retried", kit.Pick(r, ages), false, false)
		}
	case "not-launched":
		updateClaim(func(nc *v1.NodeClaim) {
			nc.StatusConditions().SetTrueWithReason(v1.ConditionTypeDrifted, "NodePoolDrifted", "NodePoolDrifted")
			if r.Bool() {
				nc.StatusConditions().SetUnknown(v1.ConditionTypeLaunched)
			} else {
				nc.StatusConditions().SetFalse(v1.ConditionTypeLaunched, "LaunchFailed", "x")
			}
		})
		step("not-launched", kit.Pick(r, ages), false, false)
	}
	finish(finalL)
}

// k8sMatch: does a node whose label for the key is (v, present) satisfy `key op vals` under Kubernetes semantics?
func k8sMatch(op string, vals []string, v string, present bool) bool {
	cmp := func(f func(a, b int64) bool) bool {
		if !present || len(vals) != 1 {
			return false
		}
		a, e1 := strconv.ParseInt(v, 10, 64)
		b, e2 := strconv.ParseInt(vals[0], 10, 64)
		return e1 == nil && e2 == nil && f(a, b)
	}
	in := false
	for _, x := range vals {
		in = in || x == v
	}
	switch op {
	case "In":
		return present && in
	case "NotIn":
		return !present || !in
	case "Exists":
		return present
	case "DoesNotExist":
		return !present
	case "Gt":
		return cmp(func(a, b int64) bool { return a > b })
	case "Lt":
		return cmp(func(a, b int64) bool { return a < b })
	case "Gte":
		return cmp(func(a, b int64) bool { return a >= b })
	case "Lte":
		return cmp(func(a, b int64) bool { return a <= b })
	}
	return false
}

// freshShape names the known input shape behind a drifted fresh claim (empty if none applies):
//
//	template-label-contradicts-requirement : a template label whose value a requirement on the same key rejects
//	empty-string-value-label-not-set       : a custom key whose requirements admit only "" (Any() returns "", no label is set)
//	any-returns-excluded-value             : the resolved custom label is a value the key's NotIn list excludes
func freshShape(plan sysPlan, final map[string]string) string {
	// every entry of the pool the fresh claim's labels violate must be explained by one of the known shapes;
	// otherwise the drift is not (only) a known finding and no key is attached
	found := map[string]bool{}
	for _, q := range plan.poolReqs {
		v, present := final[q.Key]
		if k8sMatch(q.Op, q.Vals, v, present) {
			continue
		}
		tv, fromTemplate := plan.tmplLabels[q.Key]
		switch {
		case present && fromTemplate && tv == v:
			found["template-label-contradicts-requirement"] = true
		case !present && !v1.WellKnownLabels.Has(q.Key) && q.Op == "In" && len(q.Vals) == 1 && q.Vals[0] == "":
			found["empty-string-value-label-not-set"] = true
		case present && !fromTemplate && !v1.WellKnownLabels.Has(q.Key) && q.Op == "NotIn":
			found["any-returns-excluded-value"] = true
		case !present:
			// a demand for presence the merged requirement forgot (requirement-intersection-forgets-presence): the
			// drift controller does not see this entry, so it cannot be what made the fresh claim drift
		default:
			return ""
		}
	}
	for _, k := range []string{"template-label-contradicts-requirement", "any-returns-excluded-value", "empty-string-value-label-not-set"} {
		if found[k] {
			return k
		}
	}
	return ""
}

// presenceShape: in some step the claim was launched and not reported drifted although its labels do not satisfy
// the pool's requirements, and every violated entry is one that demands a label the claim does not carry at all
// (the merged in-memory requirement forgot the demand: In[a] & In[b], Exists & NotIn[x], ...).
func presenceShape(steps []stepJSON, final map[string]string) string {
	found := false
	for _, s := range steps {
		if !s.Launched || s.Observed != "" {
			continue
		}
		for _, q := range s.PoolReqs {
			v, present := final[q.Key]
			if k8sMatch(q.Op, q.Vals, v, present) {
				continue
			}
			if present {
				return "" // a present label violating an entry without drift is not this shape
			}
			found = true
		}
	}
	if found {
		return "requirement-intersection-forgets-presence"
	}
	return ""
}

func genPlan(r *kit.Rand, scenario string) sysPlan {
	p := sysPlan{scenario: scenario, tmplLabels: map[string]string{}}
	if r.Chance(1, 2) {
		p.preEdits = r.Range(1, 2)
	}
	p.static, p.unmanaged, p.overlay, p.defaultTGP = r.Chance(1, 8), r.Chance(1, 25), r.Chance(1, 6), r.Chance(1, 8)
	p.recreate = r.Chance(1, 6)
	p.tmplAnnotations = r.Bool()
	for i, n := 0, r.Intn(3); i < n; i++ {
		p.tmplLabels[kit.Pick(r, []string{k1, k2, k3, k3})] = kit.Pick(r, customVals)
	}
	for i, n := 0, r.Intn(5); i < n; i++ {
		p.poolReqs = append(p.poolReqs, genCall(r, kit.Pick(r, poolKeys)))
	}
	if r.Chance(1, 2) {
		for i, n := 0, r.Range(1, 2); i < n; i++ {
			p.podReqs = append(p.podReqs, genCall(r, kit.Pick(r, []string{k1, k2, k3, corev1.LabelTopologyZone, v1.CapacityTypeLabelKey, fake.IntegerInstanceLabelKey})))
		}
	}
	return p
}

var scenarios = []string{"fresh", "fresh", "fresh", "edit-ignored", "edit-hashed", "edit-hashed", "edit-requirements", "edit-requirements", "edit-requirements",
	"requirements-presence", "version-skew", "version-skew", "catalogue", "catalogue", "provider", "not-launched", "gate", "gate"}

func runSystem(c *kit.Ctx) int {
	initNoResolve()
	n := 420
	if c.Thorough() {
		n = 3000
	}
	// corpus: F10's shape, a template label contradicting a requirement, an empty-string value
	corpus := []sysPlan{
		{scenario: "fresh", tmplLabels: map[string]string{}, poolReqs: []kcall{{Key: k1, Op: "NotIn", Vals: []string{"6"}}, {Key: k1, Op: "Gt", Vals: []string{"4"}}, {Key: k1, Op: "Lt", Vals: []string{"8"}}}},
		{scenario: "fresh", tmplLabels: map[string]string{k1: "a"}, poolReqs: []kcall{{Key: k1, Op: "In", Vals: []string{"b"}}}},
		{scenario: "fresh", tmplLabels: map[string]string{}, poolReqs: []kcall{{Key: k1, Op: "In", Vals: []string{""}}}},
	}
	for i := 0; i < 12; i++ {
		runSys(c, c.Rand.Fork(), corpus[0])
	}
	for _, p := range corpus[1:] {
		runSys(c, c.Rand.Fork(), p)
	}
	for i := 0; i < n; i++ {
		r := c.Rand.Fork()
		runSys(c, r, genPlan(r, scenarios[i%len(scenarios)]))
	}
	return n
}
