// Package kit holds what every property harness shares: one PRNG, a Gallina
// literal emitter, the cases/meta writers and flag parsing.
package kit

import (
	"encoding/json"
	"flag"
	"fmt"
	"os"
	"path/filepath"
	"sort"
	"strings"
)

// ---------------------------------------------------------------- PRNG

// Rand is splitmix64; every random choice of a harness derives from one state
// so that (seed, index) replays exactly.
type Rand struct{ s uint64 }

func NewRand(seed uint64) *Rand { return &Rand{s: seed*0x9E3779B97F4A7C15 + 0x1234567} }

func (r *Rand) U64() uint64 {
	r.s += 0x9E3779B97F4A7C15
	z := r.s
	z = (z ^ (z >> 30)) * 0xBF58476D1CE4E5B9
	z = (z ^ (z >> 27)) * 0x94D049BB133111EB
	return z ^ (z >> 31)
}

// Intn returns a value in [0,n).
func (r *Rand) Intn(n int) int {
	if n <= 0 {
		return 0
	}
	return int(r.U64() % uint64(n))
}

// Range returns a value in [lo,hi].
func (r *Rand) Range(lo, hi int) int { return lo + r.Intn(hi-lo+1) }
func (r *Rand) Bool() bool           { return r.U64()&1 == 1 }

// Chance is true with probability num/den.
func (r *Rand) Chance(num, den int) bool { return r.Intn(den) < num }

func Pick[T any](r *Rand, xs []T) T { return xs[r.Intn(len(xs))] }

// Fork derives an independent generator (used per case so that cases replay alone).
func (r *Rand) Fork() *Rand { return &Rand{s: r.U64()} }

// ---------------------------------------------------------------- Gallina literals

func GBool(b bool) string {
	if b {
		return "true"
	}
	return "false"
}

func GZ(z int64) string {
	if z < 0 {
		return fmt.Sprintf("(%d)%%Z", z)
	}
	return fmt.Sprintf("%d%%Z", z)
}

func GNat(n int) string { return fmt.Sprintf("%d", n) }

// GStr renders a Coq string literal. Coq strings escape only the double quote
// (by doubling it); bytes outside printable ASCII are not produced by the
// generators and are rejected here so that a silent mis-encoding cannot happen.
func GStr(s string) string {
	for i := 0; i < len(s); i++ {
		if s[i] < 32 || s[i] > 126 {
			panic(fmt.Sprintf("kit.GStr: non printable byte in %q", s))
		}
	}
	return "\"" + strings.ReplaceAll(s, "\"", "\"\"") + "\"%string"
}

func GList(items []string) string {
	if len(items) == 0 {
		return "[]"
	}
	return "[" + strings.Join(items, "; ") + "]"
}

func GListOf[T any](xs []T, f func(T) string) string {
	out := make([]string, len(xs))
	for i, x := range xs {
		out[i] = f(x)
	}
	return GList(out)
}

func GOpt(present bool, v string) string {
	if !present {
		return "None"
	}
	return "(Some " + v + ")"
}

func GPair(a, b string) string { return "(" + a + ", " + b + ")" }

func GStrs(xs []string) string { return GListOf(xs, GStr) }

func SortedKeys[V any](m map[string]V) []string {
	ks := make([]string, 0, len(m))
	for k := range m {
		ks = append(ks, k)
	}
	sort.Strings(ks)
	return ks
}

// ---------------------------------------------------------------- run context

type Ctx struct {
	Prop     string
	Seed     uint64
	Tier     string
	Out      string
	Replay   string
	Only     int
	Tables   string
	Rand     *Rand
	cases    []string          // Gallina terms of type `case`
	inputs   []json.RawMessage // the same cases as JSON (for replay files)
	Meta     Meta
	distinct map[string]bool
}

// Meta is the side file read by the driver.
type Meta struct {
	Property     string                 `json:"property"`
	Seed         uint64                 `json:"seed"`
	Tier         string                 `json:"tier"`
	Cases        int                    `json:"cases"`
	Distinct     int                    `json:"distinct_nontrivial"`
	Rule         string                 `json:"rule"`
	Exhaustive   bool                   `json:"exhaustive"`
	Distribution map[string]int         `json:"distribution"`
	Samples      []json.RawMessage      `json:"samples"`
	ImplFailures []ImplFailure          `json:"impl_failures"`
	Corr         []string               `json:"correspondence_obligations"`
	Shards       []string               `json:"shards"`
	Extra        map[string]interface{} `json:"extra,omitempty"`
}

// ImplFailure is a property failure detected on the implementation side (Go
// oracle), with the concrete input that exhibits it.
type ImplFailure struct {
	ID    int             `json:"id"`
	What  string          `json:"what"`
	Key   string          `json:"key"`
	Input json.RawMessage `json:"input"`
}

func Parse(prop string, args []string) *Ctx {
	fs := flag.NewFlagSet(prop, flag.ExitOnError)
	seed := fs.Uint64("seed", 1, "PRNG seed")
	tier := fs.String("tier", "quick", "quick|thorough")
	out := fs.String("out", ".", "output directory")
	replay := fs.String("replay", "", "replay file")
	only := fs.Int("only", -1, "emit only this case id (replay)")
	tables := fs.String("tables", "", "write source-derived tables into this directory and exit")
	_ = fs.Parse(args)
	c := &Ctx{Prop: prop, Seed: *seed, Tier: *tier, Out: *out, Replay: *replay, Only: *only, Tables: *tables, Rand: NewRand(*seed), distinct: map[string]bool{}}
	c.Meta.Property = prop
	c.Meta.Seed = *seed
	c.Meta.Tier = *tier
	c.Meta.Distribution = map[string]int{}
	_ = os.MkdirAll(*out, 0o755)
	return c
}

func (c *Ctx) Thorough() bool { return c.Tier == "thorough" }

// Count bumps an input-distribution counter reported in the evidence.
func (c *Ctx) Count(key string) { c.Meta.Distribution[key]++ }

// AddCase records one case: its Gallina term, its JSON form, and whether it is
// non-trivial (with a canonical key used to count distinct non-trivial cases).
// It returns the case id (index).
func (c *Ctx) AddCase(gallina string, input interface{}, nontrivialKey string) int {
	id := len(c.cases)
	c.cases = append(c.cases, gallina)
	raw, _ := json.Marshal(input)
	c.inputs = append(c.inputs, raw)
	if nontrivialKey != "" {
		c.distinct[nontrivialKey] = true
	}
	return id
}

func (c *Ctx) NextID() int { return len(c.cases) }

func (c *Ctx) Fail(id int, what, key string, input interface{}) {
	raw, _ := json.Marshal(input)
	c.Meta.ImplFailures = append(c.Meta.ImplFailures, ImplFailure{ID: id, What: what, Key: key, Input: raw})
}

// Finish writes the case shards (cases_<k>.v), inputs.json and meta.json.
// header is the `Require Import` line(s); caseType the Gallina type of a case;
// checkFn the function `list case -> list (Z * string)` applied to each shard.
func (c *Ctx) Finish(header, caseType, checkFn string, shardSize int) {
	if shardSize <= 0 {
		shardSize = 500
	}
	n := len(c.cases)
	for k := 0; k*shardSize < n || (n == 0 && k == 0); k++ {
		lo, hi := k*shardSize, (k+1)*shardSize
		if hi > n {
			hi = n
		}
		var b strings.Builder
		b.WriteString("From Coq Require Import ZArith String List.\nImport ListNotations.\n")
		b.WriteString(header + "\n")
		b.WriteString("Open Scope Z_scope.\nOpen Scope string_scope.\nOpen Scope list_scope.\n")
		fmt.Fprintf(&b, "Definition cases : list (Z * %s) := [\n", caseType)
		first := true
		for i := lo; i < hi; i++ {
			if c.Only >= 0 && i != c.Only {
				continue
			}
			if !first {
				b.WriteString(";\n")
			}
			first = false
			fmt.Fprintf(&b, " (%d, %s)", i, c.cases[i])
		}
		b.WriteString("\n")
		b.WriteString("].\n")
		fmt.Fprintf(&b, "Definition results := Eval vm_compute in %s cases.\nPrint results.\n", checkFn)
		name := fmt.Sprintf("cases_%d.v", k)
		must(os.WriteFile(filepath.Join(c.Out, name), []byte(b.String()), 0o644))
		c.Meta.Shards = append(c.Meta.Shards, name)
	}
	inp, _ := json.Marshal(c.inputs)
	must(os.WriteFile(filepath.Join(c.Out, "inputs.json"), inp, 0o644))
	c.Meta.Cases = n
	c.Meta.Distinct = len(c.distinct)
	for i := 0; i < n && len(c.Meta.Samples) < 3; i += 1 + n/3 {
		c.Meta.Samples = append(c.Meta.Samples, c.inputs[i])
	}
	m, _ := json.MarshalIndent(c.Meta, "", " ")
	must(os.WriteFile(filepath.Join(c.Out, "meta.json"), m, 0o644))
}

func must(err error) {
	if err != nil {
		fmt.Fprintln(os.Stderr, "harness:", err)
		os.Exit(2)
	}
}

// Recover runs f and reports whether it panicked.
func Recover(f func()) (panicked bool, msg string) {
	defer func() {
		if r := recover(); r != nil {
			panicked = true
			msg = fmt.Sprint(r)
		}
	}()
	f()
	return
}
