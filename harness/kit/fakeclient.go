package kit

import (
	"context"

	corev1 "k8s.io/api/core/v1"
	storagev1 "k8s.io/api/storage/v1"
	"k8s.io/apimachinery/pkg/api/errors"
	clientgoscheme "k8s.io/client-go/kubernetes/scheme"
	"sigs.k8s.io/controller-runtime/pkg/client"
	"sigs.k8s.io/controller-runtime/pkg/client/fake"
	"sigs.k8s.io/controller-runtime/pkg/client/interceptor"

	v1 "sigs.k8s.io/karpenter/pkg/apis/v1"
	"sigs.k8s.io/karpenter/pkg/operator/options"
	"sigs.k8s.io/karpenter/pkg/test"
	testv1alpha1 "sigs.k8s.io/karpenter/pkg/test/v1alpha1"
)

// NewClient builds controller-runtime's in-memory client with the status
// sub-resources and the field indexes that pkg/operator registers. funcs may be
// the zero value (no interception).
func NewClient(funcs interceptor.Funcs, objs ...client.Object) client.WithWatch {
	b := fake.NewClientBuilder().WithScheme(clientgoscheme.Scheme).
		WithStatusSubresource(&v1.NodeClaim{}, &v1.NodePool{}, &testv1alpha1.TestNodeClass{}, &corev1.Node{}, &corev1.Pod{}).
		WithIndex(&corev1.Pod{}, "spec.nodeName", func(o client.Object) []string { return []string{o.(*corev1.Pod).Spec.NodeName} }).
		WithIndex(&corev1.Node{}, "spec.providerID", func(o client.Object) []string { return []string{o.(*corev1.Node).Spec.ProviderID} }).
		WithIndex(&storagev1.VolumeAttachment{}, "spec.nodeName", func(o client.Object) []string {
			return []string{o.(*storagev1.VolumeAttachment).Spec.NodeName}
		}).
		WithIndex(&v1.NodeClaim{}, "status.providerID", func(o client.Object) []string { return []string{o.(*v1.NodeClaim).Status.ProviderID} }).
		WithIndex(&v1.NodeClaim{}, "spec.nodeClassRef.group", func(o client.Object) []string { return []string{o.(*v1.NodeClaim).Spec.NodeClassRef.Group} }).
		WithIndex(&v1.NodeClaim{}, "spec.nodeClassRef.kind", func(o client.Object) []string { return []string{o.(*v1.NodeClaim).Spec.NodeClassRef.Kind} }).
		WithIndex(&v1.NodeClaim{}, "spec.nodeClassRef.name", func(o client.Object) []string { return []string{o.(*v1.NodeClaim).Spec.NodeClassRef.Name} }).
		WithIndex(&v1.NodePool{}, "spec.template.spec.nodeClassRef.group", func(o client.Object) []string {
			return []string{o.(*v1.NodePool).Spec.Template.Spec.NodeClassRef.Group}
		}).
		WithIndex(&v1.NodePool{}, "spec.template.spec.nodeClassRef.kind", func(o client.Object) []string {
			return []string{o.(*v1.NodePool).Spec.Template.Spec.NodeClassRef.Kind}
		}).
		WithIndex(&v1.NodePool{}, "spec.template.spec.nodeClassRef.name", func(o client.Object) []string {
			return []string{o.(*v1.NodePool).Spec.Template.Spec.NodeClassRef.Name}
		}).
		WithInterceptorFuncs(funcs)
	if len(objs) > 0 {
		b = b.WithObjects(objs...)
	}
	return b.Build()
}

// Ctx returns a context carrying the default test options.
func Context() context.Context {
	return options.ToContext(context.Background(), test.Options())
}

// Apply creates or updates the object including its status (like
// expectations.ExpectApplied, without gomega).
func Apply(ctx context.Context, c client.Client, objects ...client.Object) {
	for _, object := range objects {
		current := object.DeepCopyObject().(client.Object)
		statuscopy := object.DeepCopyObject().(client.Object)
		if err := c.Get(ctx, client.ObjectKeyFromObject(current), current); err != nil {
			if !errors.IsNotFound(err) {
				panic(err)
			}
			object.SetResourceVersion("")
			if err := c.Create(ctx, object); err != nil {
				panic(err)
			}
		} else {
			object.SetResourceVersion(current.GetResourceVersion())
			if err := c.Update(ctx, object); err != nil {
				panic(err)
			}
		}
		statuscopy.SetResourceVersion(object.GetResourceVersion())
		_ = c.Status().Update(ctx, statuscopy)
		if err := c.Get(ctx, client.ObjectKeyFromObject(object), object); err != nil {
			panic(err)
		}
	}
}
