package schedkit

import (
	"fmt"

	appsv1 "k8s.io/api/apps/v1"
	corev1 "k8s.io/api/core/v1"
	storagev1 "k8s.io/api/storage/v1"
	"k8s.io/apimachinery/pkg/api/resource"
	metav1 "k8s.io/apimachinery/pkg/apis/meta/v1"
	"k8s.io/apimachinery/pkg/types"

	v1 "sigs.k8s.io/karpenter/pkg/apis/v1"
	"sigs.k8s.io/karpenter/pkg/cloudprovider"
	"sigs.k8s.io/karpenter/pkg/cloudprovider/fake"
	"sigs.k8s.io/karpenter/pkg/scheduling"
	"sigs.k8s.io/karpenter/pkg/test"

	"verifharness/kit"
)

// Label keys used by the generators. TeamKey/GenKey are custom labels a NodePool may define; GhostKey is never
// defined by any pool or node; IntegerKey / SpecialKey are well-known labels of the fake cloud provider.
const (
	TeamKey    = "example.com/team"
	GenKey     = "example.com/gen"
	GhostKey   = "example.com/ghost"
	IntegerKey = fake.IntegerInstanceLabelKey
	SpecialKey = fake.ExoticInstanceLabelKey
)

var Zones = []string{"test-zone-1", "test-zone-2", "test-zone-3"}
var CapacityTypes = []string{v1.CapacityTypeSpot, v1.CapacityTypeOnDemand}

// NodeSpec is one pre-existing node of the world.
type NodeSpec struct {
	Kind      string // ready | inflight | deleting | unmanaged
	Node      *corev1.Node
	NodeClaim *v1.NodeClaim
	Bound     []*corev1.Pod
	DSBound   map[string]bool // names of daemonsets that already have a pod on this node
}

type World struct {
	StorageClasses []*storagev1.StorageClass
	Vols           map[string]*VolSpec // by claim name
	VolOrder       []string
	CSILimits      map[string]map[string]int32 // node name -> driver -> attach limit
	VolExtra       bool
	Catalog        []*cloudprovider.InstanceType
	Pools          []*v1.NodePool
	Nodes          []*NodeSpec
	DaemonSets     []*appsv1.DaemonSet
	Pods           []*corev1.Pod // pending batch (pods of deleting nodes are appended by Run)
}

type GenOpts struct {
	Thorough bool
	// Stress selects the dimensions to stress; empty = pick one or two at random.
	NoTopology bool // never emit pod (anti-)affinity / topology spread (keeps Topology empty)
	Volumes    bool // storage classes, PVs / PVCs with topology, CSINode attach limits; a quarter of the pods mount claims
	Normalised bool // pods sometimes use the deprecated label keys Karpenter normalises (beta.kubernetes.io/arch, ...)
	Reserved   bool // some instance types carry reserved-capacity offerings (capacity type "reserved", reservation id)
	// Extra switches on the input dimensions found by the coverage audit: NodePool limits, static / not-ready NodePools,
	// registered-but-uninitialized nodes with ephemeral and startup taints, hugepages capacity, pod overhead, creation
	// timestamps, emptyDir / ephemeral volumes, in-tree storage classes, PVs without node affinity, hard topology constraints
	Extra bool
}

func q(milli int64) resource.Quantity { return *resource.NewMilliQuantity(milli, resource.DecimalSI) }

func RLOf(cpuMilli, memMi, pods int64) corev1.ResourceList {
	l := corev1.ResourceList{}
	if cpuMilli >= 0 {
		l[corev1.ResourceCPU] = q(cpuMilli)
	}
	if memMi >= 0 {
		l[corev1.ResourceMemory] = *resource.NewQuantity(memMi<<20, resource.BinarySI)
	}
	if pods >= 0 {
		l[corev1.ResourcePods] = *resource.NewQuantity(pods, resource.DecimalSI)
	}
	return l
}

func subset[T any](r *kit.Rand, xs []T, atLeast int) []T {
	for {
		var out []T
		for _, x := range xs {
			if r.Bool() {
				out = append(out, x)
			}
		}
		if len(out) >= atLeast {
			return out
		}
	}
}

// GenCatalog builds n instance types with offerings (zones x capacity types, prices, availability, capacity overrides).
func GenCatalog(r *kit.Rand, n int) []*cloudprovider.InstanceType { return GenCatalogOpts(r, n, false) }

// GenCatalogOpts: with reserved, about a third of the types also carry one or two reserved-capacity offerings
// (capacity type "reserved", a reservation id label, ReservationCapacity 1-2); every other offering says the
// reservation id does not exist, as the cloud provider contract demands.
func GenCatalogOpts(r *kit.Rand, n int, reserved bool) []*cloudprovider.InstanceType {
	return genCatalog(r, n, reserved, false)
}

func genCatalog(r *kit.Rand, n int, reserved, extra bool) []*cloudprovider.InstanceType {
	cpus := []int64{1, 2, 4, 8, 16}
	var out []*cloudprovider.InstanceType
	for i := 0; i < n; i++ {
		cpu := cpus[(i+r.Intn(2))%len(cpus)]
		mem := cpu * int64(kit.Pick(r, []int{1, 2, 4})) * 1024
		pods := int64(kit.Pick(r, []int{3, 5, 8, 16}))
		name := fmt.Sprintf("it-%d-c%d", i, cpu)
		arch := "amd64"
		if r.Chance(1, 5) {
			arch = "arm64"
		}
		var ofs cloudprovider.Offerings
		zs := subset(r, Zones, 1)
		for _, z := range zs {
			for _, ct := range subset(r, CapacityTypes, 1) {
				price := float64(cpu*64+int64(r.Intn(32))) / 64
				if ct == v1.CapacityTypeSpot {
					price = price / 2
				}
				o := &cloudprovider.Offering{Available: !r.Chance(1, 6), Price: price,
					Requirements: scheduling.NewLabelRequirements(map[string]string{v1.CapacityTypeLabelKey: ct, corev1.LabelTopologyZone: z})}
				if r.Chance(1, 6) { // an offering that yields a different shape (e.g. a smaller or larger capacity block)
					switch r.Intn(3) {
					case 0:
						o.CapacityOverride = corev1.ResourceList{corev1.ResourceCPU: q(cpu * 500)}
					case 1:
						o.CapacityOverride = corev1.ResourceList{corev1.ResourceCPU: q(cpu * 2000), corev1.ResourceMemory: *resource.NewQuantity(mem<<21, resource.BinarySI)}
					case 2:
						o.OverheadOverride = &cloudprovider.InstanceTypeOverhead{KubeReserved: corev1.ResourceList{corev1.ResourceCPU: q(500)}}
					}
				}
				ofs = append(ofs, o)
			}
		}
		var rids []string
		if reserved {
			for _, o := range ofs {
				o.Requirements.Add(scheduling.NewRequirement(cloudprovider.ReservationIDLabel, corev1.NodeSelectorOpDoesNotExist))
			}
			if r.Chance(1, 3) {
				for j := 0; j < r.Range(1, 2); j++ {
					rid := fmt.Sprintf("r-%d-%d", i, j)
					rids = append(rids, rid)
					ofs = append(ofs, &cloudprovider.Offering{Available: true, Price: float64(cpu) / 64, ReservationCapacity: r.Range(1, 2),
						Requirements: scheduling.NewLabelRequirements(map[string]string{v1.CapacityTypeLabelKey: v1.CapacityTypeReserved, corev1.LabelTopologyZone: kit.Pick(r, zs), cloudprovider.ReservationIDLabel: rid})})
				}
			}
		}
		avail := ofs.Available()
		zoneVals, ctVals := []string{}, []string{}
		for _, o := range avail {
			zoneVals = append(zoneVals, o.Requirements.Get(corev1.LabelTopologyZone).Values()...)
			ctVals = append(ctVals, o.Requirements.Get(v1.CapacityTypeLabelKey).Values()...)
		}
		reqs := scheduling.NewRequirements(
			scheduling.NewRequirement(corev1.LabelInstanceTypeStable, corev1.NodeSelectorOpIn, name),
			scheduling.NewRequirement(corev1.LabelArchStable, corev1.NodeSelectorOpIn, arch),
			scheduling.NewRequirement(corev1.LabelOSStable, corev1.NodeSelectorOpIn, "linux"),
			scheduling.NewRequirement(corev1.LabelTopologyZone, corev1.NodeSelectorOpIn, zoneVals...),
			scheduling.NewRequirement(v1.CapacityTypeLabelKey, corev1.NodeSelectorOpIn, ctVals...),
			scheduling.NewRequirement(IntegerKey, corev1.NodeSelectorOpIn, fmt.Sprint(cpu)),
		)
		if reserved {
			if len(rids) > 0 {
				reqs.Add(scheduling.NewRequirement(cloudprovider.ReservationIDLabel, corev1.NodeSelectorOpIn, rids...))
			} else {
				reqs.Add(scheduling.NewRequirement(cloudprovider.ReservationIDLabel, corev1.NodeSelectorOpDoesNotExist))
			}
		}
		if r.Chance(1, 3) {
			reqs.Add(scheduling.NewRequirement(SpecialKey, corev1.NodeSelectorOpIn, "optional"))
		} else {
			reqs.Add(scheduling.NewRequirement(SpecialKey, corev1.NodeSelectorOpDoesNotExist))
		}
		capacity := RLOf(cpu*1000, mem, pods)
		if extra && r.Chance(1, 5) { // hugepage reservations are carved out of allocatable memory
			capacity[corev1.ResourceName(corev1.ResourceHugePagesPrefix+"2Mi")] = *resource.NewQuantity(int64(kit.Pick(r, []int{256, 512, 4096}))<<20, resource.BinarySI)
		}
		out = append(out, &cloudprovider.InstanceType{Name: name, Requirements: reqs, Offerings: ofs,
			Capacity: capacity,
			Overhead: &cloudprovider.InstanceTypeOverhead{KubeReserved: corev1.ResourceList{corev1.ResourceCPU: q(100), corev1.ResourceMemory: *resource.NewQuantity(100<<20, resource.BinarySI)}}})
	}
	return out
}

func nsr(key string, op corev1.NodeSelectorOperator, vals ...string) corev1.NodeSelectorRequirement {
	return corev1.NodeSelectorRequirement{Key: key, Operator: op, Values: vals}
}

var poolTaints = []corev1.Taint{
	{Key: "dedicated", Value: "batch", Effect: corev1.TaintEffectNoSchedule},
	{Key: "dedicated", Value: "infra", Effect: corev1.TaintEffectNoExecute},
	{Key: "soft", Value: "1", Effect: corev1.TaintEffectPreferNoSchedule},
	{Key: "level", Value: "5", Effect: corev1.TaintEffectNoSchedule},
}

// GenPools builds 1-3 NodePools with requirements (incl. custom keys, bounds, exclusion lists, minValues), labels,
// taints and weights.
func GenPools(r *kit.Rand, n int, catalog []*cloudprovider.InstanceType) []*v1.NodePool {
	return genPools(r, n, catalog, false)
}

func genPools(r *kit.Rand, n int, catalog []*cloudprovider.InstanceType, extra bool) []*v1.NodePool {
	var out []*v1.NodePool
	for i := 0; i < n; i++ {
		var reqs []v1.NodeSelectorRequirementWithMinValues
		add := func(k string, op corev1.NodeSelectorOperator, mv *int, vals ...string) {
			reqs = append(reqs, v1.NodeSelectorRequirementWithMinValues{Key: k, Operator: op, Values: vals, MinValues: mv})
		}
		if r.Chance(1, 3) {
			add(corev1.LabelTopologyZone, corev1.NodeSelectorOpIn, nil, subset(r, Zones, 1)...)
		}
		if r.Chance(1, 4) {
			add(v1.CapacityTypeLabelKey, corev1.NodeSelectorOpIn, nil, kit.Pick(r, CapacityTypes))
		}
		if r.Chance(1, 5) {
			add(corev1.LabelArchStable, corev1.NodeSelectorOpIn, nil, "amd64")
		}
		if r.Chance(1, 4) {
			mv := r.Range(1, 3)
			add(corev1.LabelInstanceTypeStable, corev1.NodeSelectorOpExists, &mv)
		} else if r.Chance(1, 6) {
			mv := r.Range(1, 2)
			add(IntegerKey, corev1.NodeSelectorOpExists, &mv)
		}
		switch r.Intn(6) { // custom team label
		case 0:
			add(TeamKey, corev1.NodeSelectorOpIn, nil, "a", "b")
		case 1:
			add(TeamKey, corev1.NodeSelectorOpNotIn, nil, "a")
		case 2:
			add(TeamKey, corev1.NodeSelectorOpExists, nil)
		case 3:
			add(TeamKey, corev1.NodeSelectorOpIn, nil, "a")
		}
		switch r.Intn(8) { // numeric custom label, sometimes an exclusion list together with bounds (F10 shape)
		case 0:
			add(GenKey, corev1.NodeSelectorOpGt, nil, "2")
		case 1:
			add(GenKey, corev1.NodeSelectorOpGt, nil, "4")
			add(GenKey, corev1.NodeSelectorOpLt, nil, "8")
			if r.Bool() {
				add(GenKey, corev1.NodeSelectorOpNotIn, nil, "6")
			}
		case 2:
			add(GenKey, corev1.NodeSelectorOpIn, nil, "3", "5", "7")
		}
		labels := map[string]string{}
		if r.Chance(1, 3) {
			labels["example.com/tier"] = kit.Pick(r, []string{"gold", "silver"})
		}
		var taints []corev1.Taint
		if r.Chance(1, 3) {
			taints = append(taints, kit.Pick(r, poolTaints))
		}
		var limits v1.Limits
		var startup []corev1.Taint
		if extra {
			switch r.Intn(8) {
			case 0: // cpu limit around one or two of the larger types
				limits = v1.Limits{corev1.ResourceCPU: q(int64(kit.Pick(r, []int{2, 4, 8, 9, 16, 17})) * 1000)}
			case 1:
				limits = v1.Limits{"nodes": *resource.NewQuantity(int64(r.Intn(3)), resource.DecimalSI)}
			}
			if r.Chance(1, 5) {
				startup = []corev1.Taint{{Key: "example.com/startup", Effect: corev1.TaintEffectNoSchedule}}
			}
		}
		w := int32(r.Intn(3) * 10)
		np := test.NodePool(v1.NodePool{ObjectMeta: metav1.ObjectMeta{Name: fmt.Sprintf("pool-%d", i), UID: types.UID(fmt.Sprintf("uid-pool-%d", i))},
			Spec: v1.NodePoolSpec{Weight: &w, Template: v1.NodeClaimTemplate{
				ObjectMeta: v1.ObjectMeta{Labels: labels},
				Spec:       v1.NodeClaimTemplateSpec{Requirements: reqs, Taints: taints, StartupTaints: startup}}, Limits: limits}})
		out = append(out, np)
	}
	if extra && r.Chance(1, 4) { // pools the provisioner must ignore: static (replicas) or not ready
		np := test.NodePool(v1.NodePool{ObjectMeta: metav1.ObjectMeta{Name: "pool-ignored", UID: "uid-pool-ignored"}})
		if r.Bool() {
			np.Spec.Replicas = new(int64)
		} else {
			np.StatusConditions().SetFalse(v1.ConditionTypeNodeClassReady, "NotReady", "not ready")
		}
		hundred := int32(100)
		np.Spec.Weight = &hundred
		out = append(out, np)
	}
	return out
}

var portPool = []corev1.ContainerPort{
	{HostPort: 8080, Protocol: corev1.ProtocolTCP},
	{HostPort: 8080, Protocol: corev1.ProtocolUDP},
	{HostPort: 8080, Protocol: corev1.ProtocolTCP, HostIP: "10.0.0.1"},
	{HostPort: 8080, Protocol: corev1.ProtocolTCP, HostIP: "10.0.0.2"},
	{HostPort: 8080, Protocol: corev1.ProtocolTCP, HostIP: "0.0.0.0"},
	{HostPort: 9090, Protocol: corev1.ProtocolTCP},
	{HostPort: 9090, Protocol: corev1.ProtocolTCP, HostIP: "::"},
	{HostPort: 53, Protocol: corev1.ProtocolUDP, HostIP: "10.0.0.1"},
}

func tolerationFor(t corev1.Taint, r *kit.Rand) corev1.Toleration {
	switch r.Intn(4) {
	case 0:
		return corev1.Toleration{Key: t.Key, Operator: corev1.TolerationOpEqual, Value: t.Value, Effect: t.Effect}
	case 1:
		return corev1.Toleration{Key: t.Key, Operator: corev1.TolerationOpExists}
	case 2:
		return corev1.Toleration{Operator: corev1.TolerationOpExists}
	default:
		return corev1.Toleration{Key: t.Key, Operator: corev1.TolerationOpEqual, Value: t.Value}
	}
}

// GenExpr returns a node selector requirement over the key universe of the generators.
func GenExpr(r *kit.Rand, catalog []*cloudprovider.InstanceType) corev1.NodeSelectorRequirement {
	switch r.Intn(14) {
	case 0:
		return nsr(corev1.LabelTopologyZone, corev1.NodeSelectorOpIn, subset(r, Zones, 1)...)
	case 1:
		return nsr(corev1.LabelTopologyZone, corev1.NodeSelectorOpNotIn, kit.Pick(r, Zones))
	case 2:
		return nsr(v1.CapacityTypeLabelKey, corev1.NodeSelectorOpIn, kit.Pick(r, CapacityTypes))
	case 3:
		return nsr(corev1.LabelInstanceTypeStable, corev1.NodeSelectorOpIn, kit.Pick(r, catalog).Name, kit.Pick(r, catalog).Name)
	case 4:
		return nsr(corev1.LabelInstanceTypeStable, corev1.NodeSelectorOpNotIn, kit.Pick(r, catalog).Name)
	case 5:
		return nsr(IntegerKey, kit.Pick(r, []corev1.NodeSelectorOperator{corev1.NodeSelectorOpGt, corev1.NodeSelectorOpLt}), kit.Pick(r, []string{"1", "2", "4", "8"}))
	case 6:
		return nsr(TeamKey, corev1.NodeSelectorOpIn, kit.Pick(r, []string{"a", "b", "c"}))
	case 7:
		return nsr(TeamKey, corev1.NodeSelectorOpNotIn, kit.Pick(r, []string{"a", "b"}))
	case 8:
		return nsr(TeamKey, kit.Pick(r, []corev1.NodeSelectorOperator{corev1.NodeSelectorOpExists, corev1.NodeSelectorOpDoesNotExist}))
	case 9:
		return nsr(GhostKey, kit.Pick(r, []corev1.NodeSelectorOperator{corev1.NodeSelectorOpNotIn, corev1.NodeSelectorOpIn}), "x")
	case 10:
		return nsr(GhostKey, kit.Pick(r, []corev1.NodeSelectorOperator{corev1.NodeSelectorOpExists, corev1.NodeSelectorOpDoesNotExist}))
	case 11:
		return nsr(GenKey, kit.Pick(r, []corev1.NodeSelectorOperator{corev1.NodeSelectorOpGt, corev1.NodeSelectorOpLt, v1.NodeSelectorOpGte, v1.NodeSelectorOpLte}), kit.Pick(r, []string{"3", "5", "6", "7"}))
	case 12:
		return nsr(GenKey, kit.Pick(r, []corev1.NodeSelectorOperator{corev1.NodeSelectorOpIn, corev1.NodeSelectorOpNotIn}), kit.Pick(r, []string{"5", "6", "07"}))
	default:
		return nsr(SpecialKey, kit.Pick(r, []corev1.NodeSelectorOperator{corev1.NodeSelectorOpExists, corev1.NodeSelectorOpDoesNotExist}))
	}
}

func GenTerm(r *kit.Rand, catalog []*cloudprovider.InstanceType) corev1.NodeSelectorTerm {
	n := 1
	if r.Chance(1, 3) {
		n = 2
	}
	t := corev1.NodeSelectorTerm{}
	for i := 0; i < n; i++ {
		t.MatchExpressions = append(t.MatchExpressions, GenExpr(r, catalog))
	}
	return t
}

// PodShape parameterises one generated pod.
type PodShape struct {
	Name     string
	CPUMilli int64
	MemMi    int64
}

// GenPod builds a pending pod: mostly valid, stressed in one or two randomly chosen dimensions.
func GenPod(r *kit.Rand, name string, w *World, o GenOpts) *corev1.Pod {
	cpu := int64(kit.Pick(r, []int{100, 250, 500, 900, 1000, 1500, 1900, 3000, 3900}))
	mem := int64(kit.Pick(r, []int{64, 128, 512, 900, 1024, 1900}))
	if r.Chance(1, 5) && len(w.Catalog) > 0 { // boundary-seeking: exactly (or one milli above) what an instance type can hold
		it := kit.Pick(r, w.Catalog)
		a := it.Allocatable()
		cpu = a.Cpu().MilliValue() - int64(kit.Pick(r, []int{0, 0, 100, 200, 250, 500})) + int64(kit.Pick(r, []int{0, 0, 1, -1}))
		if cpu < 1 {
			cpu = 1
		}
	}
	p := &corev1.Pod{ObjectMeta: metav1.ObjectMeta{Name: name, Namespace: "default", UID: types.UID("uid-" + name), Labels: map[string]string{"app": kit.Pick(r, []string{"web", "db"})}},
		Spec:   corev1.PodSpec{Containers: []corev1.Container{{Name: "c", Image: "pause", Resources: corev1.ResourceRequirements{Requests: RLOf(cpu, mem, -1)}}}},
		Status: corev1.PodStatus{Phase: corev1.PodPending, Conditions: []corev1.PodCondition{{Type: corev1.PodScheduled, Status: corev1.ConditionFalse, Reason: corev1.PodReasonUnschedulable}}}}
	if r.Chance(1, 8) {
		p.Spec.InitContainers = []corev1.Container{{Name: "init", Image: "pause", Resources: corev1.ResourceRequirements{Requests: RLOf(cpu+int64(r.Intn(3)*500), -1, -1)}}}
	}
	dims := map[int]bool{r.Intn(6): true}
	if r.Bool() {
		dims[r.Intn(6)] = true
	}
	if r.Chance(1, 6) {
		dims = map[int]bool{} // a plain pod
	}
	if dims[0] { // node selector
		p.Spec.NodeSelector = map[string]string{}
		switch r.Intn(5) {
		case 0:
			p.Spec.NodeSelector[corev1.LabelTopologyZone] = kit.Pick(r, Zones)
		case 1:
			p.Spec.NodeSelector[corev1.LabelArchStable] = kit.Pick(r, []string{"amd64", "arm64"})
		case 2:
			p.Spec.NodeSelector[TeamKey] = kit.Pick(r, []string{"a", "b", "c"})
		case 3:
			p.Spec.NodeSelector[v1.CapacityTypeLabelKey] = kit.Pick(r, CapacityTypes)
		case 4:
			p.Spec.NodeSelector["example.com/tier"] = kit.Pick(r, []string{"gold", "silver"})
		}
	}
	if dims[1] || dims[2] { // required node affinity, one to three OR-ed terms
		n := r.Range(1, 3)
		sel := &corev1.NodeSelector{}
		for i := 0; i < n; i++ {
			sel.NodeSelectorTerms = append(sel.NodeSelectorTerms, GenTerm(r, w.Catalog))
		}
		p.Spec.Affinity = &corev1.Affinity{NodeAffinity: &corev1.NodeAffinity{RequiredDuringSchedulingIgnoredDuringExecution: sel}}
	}
	if dims[2] { // preferred node affinity with distinct weights
		if p.Spec.Affinity == nil {
			p.Spec.Affinity = &corev1.Affinity{NodeAffinity: &corev1.NodeAffinity{}}
		}
		n := r.Range(1, 2)
		for i := 0; i < n; i++ {
			p.Spec.Affinity.NodeAffinity.PreferredDuringSchedulingIgnoredDuringExecution = append(p.Spec.Affinity.NodeAffinity.PreferredDuringSchedulingIgnoredDuringExecution,
				corev1.PreferredSchedulingTerm{Weight: int32(10*(i+1) + r.Intn(5)), Preference: GenTerm(r, w.Catalog)})
		}
	}
	if dims[3] { // tolerations for the taints that exist in the world (and sometimes one that does not match)
		for _, np := range w.Pools {
			for _, t := range np.Spec.Template.Spec.Taints {
				if r.Chance(4, 5) {
					p.Spec.Tolerations = append(p.Spec.Tolerations, tolerationFor(t, r))
				}
			}
		}
		for _, n := range w.Nodes {
			if n.Node != nil {
				for _, t := range n.Node.Spec.Taints {
					if r.Chance(2, 3) {
						p.Spec.Tolerations = append(p.Spec.Tolerations, tolerationFor(t, r))
					}
				}
			}
		}
		if r.Chance(1, 4) {
			p.Spec.Tolerations = append(p.Spec.Tolerations, corev1.Toleration{Key: "level", Operator: kit.Pick(r, []corev1.TolerationOperator{corev1.TolerationOpGt, corev1.TolerationOpLt}), Value: kit.Pick(r, []string{"3", "5", "7"}), Effect: corev1.TaintEffectNoSchedule})
		}
	} else if r.Chance(1, 2) { // most pods tolerate the pool taints so that the other dimensions get exercised
		p.Spec.Tolerations = append(p.Spec.Tolerations, corev1.Toleration{Operator: corev1.TolerationOpExists})
	}
	if dims[4] { // host ports
		n := r.Range(1, 2)
		for i := 0; i < n; i++ {
			p.Spec.Containers[0].Ports = append(p.Spec.Containers[0].Ports, kit.Pick(r, portPool))
		}
	}
	if dims[5] && !o.NoTopology { // soft constraints that exercise relaxation
		switch r.Intn(3) {
		case 0:
			p.Spec.TopologySpreadConstraints = []corev1.TopologySpreadConstraint{{MaxSkew: 1, TopologyKey: corev1.LabelTopologyZone, WhenUnsatisfiable: corev1.ScheduleAnyway,
				LabelSelector: &metav1.LabelSelector{MatchLabels: map[string]string{"app": p.Labels["app"]}}}}
		case 1:
			if p.Spec.Affinity == nil {
				p.Spec.Affinity = &corev1.Affinity{}
			}
			p.Spec.Affinity.PodAntiAffinity = &corev1.PodAntiAffinity{PreferredDuringSchedulingIgnoredDuringExecution: []corev1.WeightedPodAffinityTerm{{Weight: 10,
				PodAffinityTerm: corev1.PodAffinityTerm{TopologyKey: corev1.LabelHostname, LabelSelector: &metav1.LabelSelector{MatchLabels: map[string]string{"app": p.Labels["app"]}}}}}}
		case 2:
			if p.Spec.Affinity == nil {
				p.Spec.Affinity = &corev1.Affinity{}
			}
			p.Spec.Affinity.PodAffinity = &corev1.PodAffinity{PreferredDuringSchedulingIgnoredDuringExecution: []corev1.WeightedPodAffinityTerm{{Weight: 5,
				PodAffinityTerm: corev1.PodAffinityTerm{TopologyKey: corev1.LabelTopologyZone, LabelSelector: &metav1.LabelSelector{MatchLabels: map[string]string{"app": "db"}}}}}}
		}
	}
	return p
}

// GenDaemonSets builds 0-3 daemonsets (requests, optional host port, selector / required affinity, tolerations).
func GenDaemonSets(r *kit.Rand, n int, w *World) []*appsv1.DaemonSet {
	var out []*appsv1.DaemonSet
	for i := 0; i < n; i++ {
		spec := corev1.PodSpec{Containers: []corev1.Container{{Name: "d", Image: "pause", Resources: corev1.ResourceRequirements{
			Requests: RLOf(int64(kit.Pick(r, []int{50, 100, 250, 500, 1000})), int64(kit.Pick(r, []int{32, 64, 256})), -1)}}}}
		if r.Chance(1, 3) {
			spec.Containers[0].Ports = []corev1.ContainerPort{kit.Pick(r, portPool)}
		}
		if r.Chance(2, 3) {
			spec.Tolerations = []corev1.Toleration{{Operator: corev1.TolerationOpExists}}
		}
		switch r.Intn(6) {
		case 0:
			spec.NodeSelector = map[string]string{corev1.LabelTopologyZone: kit.Pick(r, Zones)}
		case 1:
			spec.NodeSelector = map[string]string{corev1.LabelArchStable: kit.Pick(r, []string{"amd64", "arm64"})}
		case 2:
			spec.NodeSelector = map[string]string{TeamKey: kit.Pick(r, []string{"a", "b"})}
		case 3:
			sel := &corev1.NodeSelector{}
			for j := 0; j < r.Range(1, 2); j++ {
				sel.NodeSelectorTerms = append(sel.NodeSelectorTerms, GenTerm(r, w.Catalog))
			}
			spec.Affinity = &corev1.Affinity{NodeAffinity: &corev1.NodeAffinity{RequiredDuringSchedulingIgnoredDuringExecution: sel}}
		}
		name := fmt.Sprintf("ds-%d", i)
		out = append(out, &appsv1.DaemonSet{ObjectMeta: metav1.ObjectMeta{Name: name, Namespace: "default", UID: types.UID("uid-" + name)},
			Spec: appsv1.DaemonSetSpec{Selector: &metav1.LabelSelector{MatchLabels: map[string]string{"ds": name}},
				Template: corev1.PodTemplateSpec{ObjectMeta: metav1.ObjectMeta{Labels: map[string]string{"ds": name}}, Spec: spec}}})
	}
	return out
}

func boundPod(name, node string, cpu, mem int64, ports []corev1.ContainerPort) *corev1.Pod {
	return &corev1.Pod{ObjectMeta: metav1.ObjectMeta{Name: name, Namespace: "default", UID: types.UID("uid-" + name), Labels: map[string]string{"app": "bound"}},
		Spec:   corev1.PodSpec{NodeName: node, Containers: []corev1.Container{{Name: "c", Image: "pause", Ports: ports, Resources: corev1.ResourceRequirements{Requests: RLOf(cpu, mem, -1)}}}},
		Status: corev1.PodStatus{Phase: corev1.PodRunning, Conditions: []corev1.PodCondition{{Type: corev1.PodScheduled, Status: corev1.ConditionTrue}}}}
}

// GenNodes builds 0-4 pre-existing nodes of the four kinds, with bound pods and bound daemon pods.
func GenNodes(r *kit.Rand, n int, w *World) []*NodeSpec { return genNodes(r, n, w, false) }

func genNodes(r *kit.Rand, n int, w *World, extra bool) []*NodeSpec {
	var out []*NodeSpec
	for i := 0; i < n; i++ {
		it := kit.Pick(r, w.Catalog)
		avail := it.Offerings.Available()
		if len(avail) == 0 {
			continue
		}
		of := kit.Pick(r, avail)
		kind := kit.Pick(r, []string{"ready", "ready", "inflight", "deleting", "unmanaged"})
		if extra && r.Chance(1, 4) {
			kind = "registering" // Node exists and is registered, not yet initialized: ephemeral and startup taints are ignored
		}
		name := fmt.Sprintf("node-%d", i)
		labels := map[string]string{corev1.LabelInstanceTypeStable: it.Name, corev1.LabelArchStable: it.Requirements.Get(corev1.LabelArchStable).Any(), corev1.LabelOSStable: "linux",
			corev1.LabelTopologyZone: of.Zone(), v1.CapacityTypeLabelKey: of.CapacityType(), corev1.LabelHostname: name, IntegerKey: it.Requirements.Get(IntegerKey).Any()}
		if r.Chance(1, 2) {
			labels[TeamKey] = kit.Pick(r, []string{"a", "b"})
		}
		var taints []corev1.Taint
		if r.Chance(1, 4) {
			taints = append(taints, kit.Pick(r, poolTaints))
		}
		alloc := it.Allocatable()
		ns := &NodeSpec{Kind: kind, DSBound: map[string]bool{}}
		if kind != "unmanaged" {
			pool := kit.Pick(r, w.Pools)
			labels[v1.NodePoolLabelKey] = pool.Name
			for k, v := range pool.Spec.Template.Labels {
				labels[k] = v
			}
			ns.NodeClaim = test.NodeClaim(v1.NodeClaim{ObjectMeta: metav1.ObjectMeta{Name: "nc-" + name, UID: types.UID("uid-nc-" + name), Labels: labels},
				Spec:   v1.NodeClaimSpec{Taints: taints},
				Status: v1.NodeClaimStatus{ProviderID: "fake://" + name, NodeName: name, Capacity: it.Capacity, Allocatable: alloc}})
			ns.NodeClaim.StatusConditions().SetTrue(v1.ConditionTypeLaunched)
		}
		if kind != "inflight" {
			nl := map[string]string{}
			for k, v := range labels {
				nl[k] = v
			}
			nodeTaints := taints
			if kind == "registering" {
				nl[v1.NodeRegisteredLabelKey] = "true"
				ns.NodeClaim.StatusConditions().SetTrue(v1.ConditionTypeRegistered)
				ns.NodeClaim.Spec.StartupTaints = []corev1.Taint{{Key: "example.com/startup", Effect: corev1.TaintEffectNoSchedule}}
				nodeTaints = append(append([]corev1.Taint{}, taints...), corev1.Taint{Key: corev1.TaintNodeNotReady, Effect: corev1.TaintEffectNoSchedule},
					corev1.Taint{Key: "example.com/startup", Effect: corev1.TaintEffectNoSchedule}, corev1.Taint{Key: "readiness.k8s.io/rule-1", Effect: corev1.TaintEffectNoSchedule})
			} else if kind != "unmanaged" {
				nl[v1.NodeRegisteredLabelKey] = "true"
				nl[v1.NodeInitializedLabelKey] = "true"
				ns.NodeClaim.StatusConditions().SetTrue(v1.ConditionTypeRegistered)
				ns.NodeClaim.StatusConditions().SetTrue(v1.ConditionTypeInitialized)
			}
			taints = nodeTaints
			ns.Node = test.Node(test.NodeOptions{ObjectMeta: metav1.ObjectMeta{Name: name, UID: types.UID("uid-" + name), Labels: nl}, ProviderID: "fake://" + name, Taints: taints, Allocatable: alloc, Capacity: it.Capacity})
			nb := r.Intn(3)
			for j := 0; j < nb; j++ {
				var ports []corev1.ContainerPort
				if r.Chance(1, 3) {
					ports = []corev1.ContainerPort{portPool[(i+j*3)%len(portPool)]}
					if j > 0 { // keep bound pods conflict-free among themselves
						ports = nil
					}
				}
				ns.Bound = append(ns.Bound, boundPod(fmt.Sprintf("bound-%d-%d", i, j), name, int64(kit.Pick(r, []int{100, 500, 1000})), int64(kit.Pick(r, []int{64, 256})), ports))
			}
		}
		out = append(out, ns)
	}
	return out
}

// Gen builds a whole world.
func Gen(r *kit.Rand, o GenOpts) *World {
	w := &World{}
	nIT := r.Range(3, 6)
	if o.Thorough {
		nIT = r.Range(3, 12)
	}
	w.Catalog = genCatalog(r, nIT, o.Reserved, o.Extra)
	w.Pools = genPools(r, r.Range(1, 3), w.Catalog, o.Extra)
	w.Nodes = genNodes(r, r.Intn(5), w, o.Extra)
	w.DaemonSets = GenDaemonSets(r, r.Intn(4), w)
	if o.Volumes {
		GenVolumesOpts(r, w, r.Range(2, 5), o.Extra)
		for _, n := range w.Nodes {
			for i, b := range n.Bound {
				if r.Chance(1, 3) {
					AttachVolumes(r, w, b)
				}
				if o.Extra && i == 0 && r.Chance(1, 4) { // a claim that was deleted by hand: ignored for limits and topology
					b.Spec.Volumes = append(b.Spec.Volumes, corev1.Volume{Name: "gone", VolumeSource: corev1.VolumeSource{PersistentVolumeClaim: &corev1.PersistentVolumeClaimVolumeSource{ClaimName: "pvc-gone"}}})
				}
			}
		}
	}
	nPods := r.Range(1, 8)
	if o.Thorough {
		nPods = r.Range(1, 12)
	}
	for i := 0; i < nPods; i++ {
		p := GenPod(r, fmt.Sprintf("p%d", i), w, o)
		if o.Normalised && r.Chance(1, 3) {
			UseDeprecatedKeys(p)
		}
		if o.Extra {
			extraPodDims(r, p, o)
		}
		if o.Volumes && r.Chance(1, 3) {
			AttachVolumes(r, w, p)
		}
		w.Pods = append(w.Pods, p)
	}
	return w
}

// deprecated aliases of well-known labels (v1.NormalizedLabels maps them back)
var deprecatedKey = map[string]string{
	corev1.LabelArchStable:         "beta.kubernetes.io/arch",
	corev1.LabelOSStable:           "beta.kubernetes.io/os",
	corev1.LabelTopologyZone:       corev1.LabelFailureDomainBetaZone,
	corev1.LabelInstanceTypeStable: corev1.LabelInstanceType,
}

// UseDeprecatedKeys rewrites the pod's node selector and required / preferred node affinity to the deprecated label keys.
func UseDeprecatedKeys(p *corev1.Pod) {
	for k, v := range p.Spec.NodeSelector {
		if d, ok := deprecatedKey[k]; ok {
			delete(p.Spec.NodeSelector, k)
			p.Spec.NodeSelector[d] = v
		}
	}
	fix := func(es []corev1.NodeSelectorRequirement) {
		for i := range es {
			if d, ok := deprecatedKey[es[i].Key]; ok {
				es[i].Key = d
			}
		}
	}
	if p.Spec.Affinity != nil && p.Spec.Affinity.NodeAffinity != nil {
		na := p.Spec.Affinity.NodeAffinity
		if na.RequiredDuringSchedulingIgnoredDuringExecution != nil {
			for i := range na.RequiredDuringSchedulingIgnoredDuringExecution.NodeSelectorTerms {
				fix(na.RequiredDuringSchedulingIgnoredDuringExecution.NodeSelectorTerms[i].MatchExpressions)
			}
		}
		for i := range na.PreferredDuringSchedulingIgnoredDuringExecution {
			fix(na.PreferredDuringSchedulingIgnoredDuringExecution[i].Preference.MatchExpressions)
		}
	}
}

// extraPodDims: pod overhead, distinct creation timestamps (queue tie-break), hard topology constraints.
func extraPodDims(r *kit.Rand, p *corev1.Pod, o GenOpts) {
	if r.Chance(1, 6) {
		p.Spec.Overhead = RLOf(int64(kit.Pick(r, []int{50, 250})), 16, -1)
	}
	if r.Chance(1, 2) {
		p.CreationTimestamp = metav1.Unix(1_700_000_000+int64(r.Intn(3)), 0)
	}
	if o.NoTopology || !r.Chance(1, 8) {
		return
	}
	sel := &metav1.LabelSelector{MatchLabels: map[string]string{"app": p.Labels["app"]}}
	if r.Bool() {
		p.Spec.TopologySpreadConstraints = append(p.Spec.TopologySpreadConstraints, corev1.TopologySpreadConstraint{MaxSkew: 1,
			TopologyKey: kit.Pick(r, []string{corev1.LabelTopologyZone, corev1.LabelHostname}), WhenUnsatisfiable: corev1.DoNotSchedule, LabelSelector: sel})
	} else {
		if p.Spec.Affinity == nil {
			p.Spec.Affinity = &corev1.Affinity{}
		}
		if p.Spec.Affinity.PodAntiAffinity == nil {
			p.Spec.Affinity.PodAntiAffinity = &corev1.PodAntiAffinity{}
		}
		p.Spec.Affinity.PodAntiAffinity.RequiredDuringSchedulingIgnoredDuringExecution = []corev1.PodAffinityTerm{{TopologyKey: corev1.LabelHostname, LabelSelector: sel}}
	}
}

// GenDaemonTight builds a world aimed at the daemon reservation of existing nodes: 2-4 existing / in-flight / registering /
// unmanaged nodes that every daemonset is compatible with (daemonsets without selector that tolerate everything), the
// daemon pods already bound on SOME of the registered nodes only, and pending pods sized against
// available - outstanding daemon overhead of a node (exactly fitting, one milli above, and up to the raw available).
func GenDaemonTight(r *kit.Rand) *World {
	w := &World{}
	w.Catalog = GenCatalog(r, r.Range(3, 4))
	w.Pools = []*v1.NodePool{test.NodePool(v1.NodePool{ObjectMeta: metav1.ObjectMeta{Name: "pool-0", UID: "uid-pool-0"}})}
	for tries := 0; len(w.Nodes) < 2 && tries < 20; tries++ {
		w.Nodes = nil
		for _, n := range genNodes(r, 4, w, tries%2 == 0) {
			if n.Kind != "deleting" {
				w.Nodes = append(w.Nodes, n)
			}
		}
	}
	cpuOf := map[string]int64{}
	for i := 0; i < r.Range(1, 2); i++ {
		name := fmt.Sprintf("ds-%d", i)
		cpu := int64(kit.Pick(r, []int{250, 500, 1000}))
		cpuOf[name] = cpu
		spec := corev1.PodSpec{Tolerations: []corev1.Toleration{{Operator: corev1.TolerationOpExists}},
			Containers: []corev1.Container{{Name: "d", Image: "pause", Resources: corev1.ResourceRequirements{Requests: RLOf(cpu, 32, -1)}}}}
		w.DaemonSets = append(w.DaemonSets, &appsv1.DaemonSet{ObjectMeta: metav1.ObjectMeta{Name: name, Namespace: "default", UID: types.UID("uid-" + name)},
			Spec: appsv1.DaemonSetSpec{Selector: &metav1.LabelSelector{MatchLabels: map[string]string{"ds": name}},
				Template: corev1.PodTemplateSpec{ObjectMeta: metav1.ObjectMeta{Labels: map[string]string{"ds": name}}, Spec: spec}}})
	}
	// daemon pods run on some registered nodes; make sure at least one node runs them all and another one runs none
	registered := 0
	for _, n := range w.Nodes {
		if n.Node == nil {
			continue
		}
		registered++
		for _, ds := range w.DaemonSets {
			if registered == 1 || (registered > 2 && r.Bool()) {
				n.DSBound[ds.Name] = true
			}
		}
	}
	k := 0
	for _, n := range w.Nodes {
		var alloc corev1.ResourceList
		if n.Node != nil {
			alloc = n.Node.Status.Allocatable
		} else {
			alloc = n.NodeClaim.Status.Allocatable
		}
		avail := alloc.Cpu().MilliValue()
		for _, b := range n.Bound {
			avail -= b.Spec.Containers[0].Resources.Requests.Cpu().MilliValue()
		}
		outstanding := int64(0)
		for _, ds := range w.DaemonSets {
			if n.DSBound[ds.Name] {
				avail -= cpuOf[ds.Name]
			} else {
				outstanding += cpuOf[ds.Name]
			}
		}
		if outstanding == 0 || avail-outstanding < 100 {
			continue
		}
		for _, delta := range []int64{0, kit.Pick(r, []int64{1, outstanding / 2, outstanding})} {
			if r.Chance(1, 4) {
				continue
			}
			name := fmt.Sprintf("t%d", k)
			p := &corev1.Pod{ObjectMeta: metav1.ObjectMeta{Name: name, Namespace: "default", UID: types.UID("uid-" + name), Labels: map[string]string{"app": "tight"}},
				Status: corev1.PodStatus{Phase: corev1.PodPending, Conditions: []corev1.PodCondition{{Type: corev1.PodScheduled, Status: corev1.ConditionFalse, Reason: corev1.PodReasonUnschedulable}}}}
			p.Spec = corev1.PodSpec{Tolerations: []corev1.Toleration{{Operator: corev1.TolerationOpExists}},
				Containers: []corev1.Container{{Name: "c", Image: "pause", Resources: corev1.ResourceRequirements{Requests: RLOf(avail-outstanding+delta, 16, -1)}}}}
			w.Pods = append(w.Pods, p)
			k++
		}
	}
	if len(w.Pods) == 0 {
		w.Pods = append(w.Pods, GenPod(r, "t0", w, GenOpts{NoTopology: true}))
	}
	return w
}
