package schedkit

import (
	"fmt"

	corev1 "k8s.io/api/core/v1"
	storagev1 "k8s.io/api/storage/v1"
	"k8s.io/apimachinery/pkg/api/resource"
	metav1 "k8s.io/apimachinery/pkg/apis/meta/v1"
	"k8s.io/apimachinery/pkg/types"

	"verifharness/kit"
)

// Volumes of a world (GenOpts.Volumes): storage classes with allowedTopologies, bound PVs with node affinity (zonal CSI
// volumes and local volumes), unbound WaitForFirstConsumer claims, CSINode attach limits on registered nodes.
const (
	DriverA = "csi.example.com"
	DriverB = "csi.other.example.com"
)

// VolSpec is what the generator knows about one PersistentVolumeClaim (the oracle side is derived from it, not from
// the code under test).
type VolSpec struct {
	PVC    *corev1.PersistentVolumeClaim
	PV     *corev1.PersistentVolume // nil for an unbound claim
	Driver string
	Local  bool
	Terms  []Term // OR-ed topology terms of the PV's node affinity, or of the StorageClass for an unbound claim
}

func zoneTerm(zs ...string) corev1.NodeSelectorTerm {
	return corev1.NodeSelectorTerm{MatchExpressions: []corev1.NodeSelectorRequirement{{Key: corev1.LabelTopologyZone, Operator: corev1.NodeSelectorOpIn, Values: zs}}}
}

// DriverEBS is the CSI name the in-tree "kubernetes.io/aws-ebs" plugin translates to.
const DriverEBS = "ebs.csi.aws.com"

// GenVolumes adds storage classes, n claims (bound and unbound) and CSINode limits to the world.
func GenVolumes(r *kit.Rand, w *World, n int) { GenVolumesOpts(r, w, n, false) }

// GenVolumesOpts: with extra also a storage class with an in-tree provisioner, a bound PV without node affinity, an
// in-tree AWSElasticBlockStore PV, and (AttachVolumes) emptyDir and generic ephemeral volumes.
func GenVolumesOpts(r *kit.Rand, w *World, n int, extra bool) {
	w.VolExtra = extra
	wffc := storagev1.VolumeBindingWaitForFirstConsumer
	scTerms := [][]string{{kit.Pick(r, Zones)}}
	if r.Bool() {
		scTerms = append(scTerms, []string{kit.Pick(r, Zones), kit.Pick(r, Zones)})
	}
	zonal := &storagev1.StorageClass{ObjectMeta: metav1.ObjectMeta{Name: "sc-zonal", UID: "uid-sc-zonal"}, Provisioner: DriverA, VolumeBindingMode: &wffc}
	var zonalTerms []Term
	for _, zs := range scTerms {
		zonal.AllowedTopologies = append(zonal.AllowedTopologies, corev1.TopologySelectorTerm{MatchLabelExpressions: []corev1.TopologySelectorLabelRequirement{{Key: corev1.LabelTopologyZone, Values: zs}}})
		zonalTerms = append(zonalTerms, Term{{Key: corev1.LabelTopologyZone, Op: "In", Vals: zs}})
	}
	anywhere := &storagev1.StorageClass{ObjectMeta: metav1.ObjectMeta{Name: "sc-any", UID: "uid-sc-any"}, Provisioner: DriverB, VolumeBindingMode: &wffc}
	intree := &storagev1.StorageClass{ObjectMeta: metav1.ObjectMeta{Name: "sc-intree", UID: "uid-sc-intree"}, Provisioner: "kubernetes.io/aws-ebs", VolumeBindingMode: &wffc}
	w.StorageClasses = []*storagev1.StorageClass{zonal, anywhere}
	if extra {
		w.StorageClasses = append(w.StorageClasses, intree)
	}
	w.Vols = map[string]*VolSpec{}
	for i := 0; i < n; i++ {
		name := fmt.Sprintf("pvc-%d", i)
		pvc := &corev1.PersistentVolumeClaim{ObjectMeta: metav1.ObjectMeta{Name: name, Namespace: "default", UID: types.UID("uid-" + name), Annotations: map[string]string{"pv.kubernetes.io/bind-completed": "yes"}}}
		vs := &VolSpec{PVC: pvc}
		kind := r.Intn(5)
		if extra && r.Chance(1, 3) {
			kind = 5 + r.Intn(3)
		}
		switch kind {
		case 5: // unbound, storage class with an in-tree provisioner name
			pvc.Spec.StorageClassName = &intree.Name
			vs.Driver = DriverEBS
		case 6: // bound CSI volume that can attach anywhere (no node affinity)
			pv := &corev1.PersistentVolume{ObjectMeta: metav1.ObjectMeta{Name: "pv-" + name, UID: types.UID("uid-pv-" + name)},
				Spec: corev1.PersistentVolumeSpec{PersistentVolumeSource: corev1.PersistentVolumeSource{CSI: &corev1.CSIPersistentVolumeSource{Driver: DriverA, VolumeHandle: name}},
					Capacity: corev1.ResourceList{corev1.ResourceStorage: resource.MustParse("1Gi")}}}
			pvc.Spec.VolumeName, pvc.Spec.StorageClassName = pv.Name, &zonal.Name
			vs.PV, vs.Driver = pv, DriverA
		case 7: // bound in-tree EBS volume with a zone affinity
			z := kit.Pick(r, Zones)
			pv := &corev1.PersistentVolume{ObjectMeta: metav1.ObjectMeta{Name: "pv-" + name, UID: types.UID("uid-pv-" + name)},
				Spec: corev1.PersistentVolumeSpec{PersistentVolumeSource: corev1.PersistentVolumeSource{AWSElasticBlockStore: &corev1.AWSElasticBlockStoreVolumeSource{VolumeID: name}},
					NodeAffinity: &corev1.VolumeNodeAffinity{Required: &corev1.NodeSelector{NodeSelectorTerms: []corev1.NodeSelectorTerm{zoneTerm(z)}}},
					Capacity:     corev1.ResourceList{corev1.ResourceStorage: resource.MustParse("1Gi")}}}
			pvc.Spec.VolumeName = pv.Name
			vs.PV, vs.Driver, vs.Terms = pv, DriverEBS, []Term{{{Key: corev1.LabelTopologyZone, Op: "In", Vals: []string{z}}}}
		case 0: // unbound, zonal storage class
			pvc.Spec.StorageClassName = &zonal.Name
			vs.Driver, vs.Terms = DriverA, zonalTerms
		case 1: // unbound, unconstrained storage class
			pvc.Spec.StorageClassName = &anywhere.Name
			vs.Driver = DriverB
		case 2, 3: // bound CSI volume with zonal node affinity, one or two OR-ed terms
			pv := &corev1.PersistentVolume{ObjectMeta: metav1.ObjectMeta{Name: "pv-" + name, UID: types.UID("uid-pv-" + name)},
				Spec: corev1.PersistentVolumeSpec{PersistentVolumeSource: corev1.PersistentVolumeSource{CSI: &corev1.CSIPersistentVolumeSource{Driver: DriverA, VolumeHandle: name}},
					Capacity: corev1.ResourceList{corev1.ResourceStorage: resource.MustParse("1Gi")}}}
			sel := &corev1.NodeSelector{}
			for j := 0; j < r.Range(1, 2); j++ {
				z := kit.Pick(r, Zones)
				sel.NodeSelectorTerms = append(sel.NodeSelectorTerms, zoneTerm(z))
				vs.Terms = append(vs.Terms, Term{{Key: corev1.LabelTopologyZone, Op: "In", Vals: []string{z}}})
			}
			pv.Spec.NodeAffinity = &corev1.VolumeNodeAffinity{Required: sel}
			pvc.Spec.VolumeName, pvc.Spec.StorageClassName = pv.Name, &zonal.Name
			vs.PV, vs.Driver = pv, DriverA
		case 4: // local volume: hostname affinity (ignored by design), sometimes with a zone expression in the same term
			pv := &corev1.PersistentVolume{ObjectMeta: metav1.ObjectMeta{Name: "pv-" + name, UID: types.UID("uid-pv-" + name)},
				Spec: corev1.PersistentVolumeSpec{PersistentVolumeSource: corev1.PersistentVolumeSource{Local: &corev1.LocalVolumeSource{Path: "/mnt/" + name}},
					Capacity: corev1.ResourceList{corev1.ResourceStorage: resource.MustParse("1Gi")}}}
			exprs := []corev1.NodeSelectorRequirement{{Key: corev1.LabelHostname, Operator: corev1.NodeSelectorOpIn, Values: []string{"node-0"}}}
			t := Term{}
			if r.Bool() {
				z := kit.Pick(r, Zones)
				exprs = append(exprs, corev1.NodeSelectorRequirement{Key: corev1.LabelTopologyZone, Operator: corev1.NodeSelectorOpIn, Values: []string{z}})
				t = append(t, Expr{Key: corev1.LabelTopologyZone, Op: "In", Vals: []string{z}})
			}
			pv.Spec.NodeAffinity = &corev1.VolumeNodeAffinity{Required: &corev1.NodeSelector{NodeSelectorTerms: []corev1.NodeSelectorTerm{{MatchExpressions: exprs}}}}
			pvc.Spec.VolumeName = pv.Name
			vs.PV, vs.Driver, vs.Local = pv, "", true // a local volume is not managed by a CSI driver: no attach limit
			if len(t) > 0 {
				vs.Terms = []Term{t}
			}
		}
		w.Vols[name] = vs
		w.VolOrder = append(w.VolOrder, name)
	}
	// attach limits on registered nodes
	w.CSILimits = map[string]map[string]int32{}
	for _, ns := range w.Nodes {
		if ns.Node != nil && r.Chance(2, 3) {
			w.CSILimits[ns.Node.Name] = map[string]int32{DriverA: int32(r.Range(1, 3))}
			if r.Chance(1, 3) {
				w.CSILimits[ns.Node.Name][DriverB] = int32(r.Range(0, 2))
			}
			if extra && r.Chance(1, 2) {
				w.CSILimits[ns.Node.Name][DriverEBS] = int32(r.Range(1, 2))
			}
		}
	}
}

// AttachVolumes gives a pod one or two of the world's claims.
func AttachVolumes(r *kit.Rand, w *World, p *corev1.Pod) {
	if len(w.VolOrder) == 0 {
		return
	}
	if w.VolExtra && r.Chance(1, 3) { // volumes without a claim, and a generic ephemeral volume whose claim is named <pod>-<volume>
		p.Spec.Volumes = append(p.Spec.Volumes, corev1.Volume{Name: "scratch", VolumeSource: corev1.VolumeSource{EmptyDir: &corev1.EmptyDirVolumeSource{}}})
		if r.Bool() {
			sc := "sc-any"
			name := p.Name + "-eph"
			if _, ok := w.Vols[name]; !ok {
				w.Vols[name] = &VolSpec{Driver: DriverB, PVC: &corev1.PersistentVolumeClaim{ObjectMeta: metav1.ObjectMeta{Name: name, Namespace: "default", UID: types.UID("uid-" + name)},
					Spec: corev1.PersistentVolumeClaimSpec{StorageClassName: &sc}}}
				w.VolOrder = append(w.VolOrder, name)
			}
			p.Spec.Volumes = append(p.Spec.Volumes, corev1.Volume{Name: "eph", VolumeSource: corev1.VolumeSource{Ephemeral: &corev1.EphemeralVolumeSource{
				VolumeClaimTemplate: &corev1.PersistentVolumeClaimTemplate{Spec: corev1.PersistentVolumeClaimSpec{StorageClassName: &sc}}}}})
		}
	}
	for i, n := 0, r.Range(1, 2); i < n; i++ {
		name := kit.Pick(r, w.VolOrder)
		dup := false
		for _, v := range p.Spec.Volumes {
			dup = dup || (v.PersistentVolumeClaim != nil && v.PersistentVolumeClaim.ClaimName == name)
		}
		if len(name) > 4 && name[len(name)-4:] == "-eph" {
			dup = true // claims of ephemeral volumes belong to one pod
		}
		if !dup {
			p.Spec.Volumes = append(p.Spec.Volumes, corev1.Volume{Name: fmt.Sprintf("v%d", i), VolumeSource: corev1.VolumeSource{PersistentVolumeClaim: &corev1.PersistentVolumeClaimVolumeSource{ClaimName: name}}})
		}
	}
}

// DumpPod is DumpPod plus the volume facts the generator knows: (driver, claim id) pairs and per volume the topology terms.
func (w *World) DumpPod(p *corev1.Pod) PodDump {
	d := DumpPod(p)
	for _, v := range p.Spec.Volumes {
		claim := ""
		switch {
		case v.PersistentVolumeClaim != nil:
			claim = v.PersistentVolumeClaim.ClaimName
		case v.Ephemeral != nil:
			claim = p.Name + "-" + v.Name
		default:
			continue
		}
		vs, ok := w.Vols[claim]
		if !ok {
			d.MissingClaims = append(d.MissingClaims, claim)
			continue
		}
		if vs.Driver != "" {
			d.Vols = append(d.Vols, [2]string{vs.Driver, p.Namespace + "/" + vs.PVC.Name})
		}
		terms := vs.Terms
		if terms == nil {
			terms = []Term{}
		}
		d.VolTerms = append(d.VolTerms, terms)
	}
	return d
}

func csiNode(name string, limits map[string]int32) *storagev1.CSINode {
	n := &storagev1.CSINode{ObjectMeta: metav1.ObjectMeta{Name: name, UID: types.UID("uid-csinode-" + name)}}
	for _, d := range kit.SortedKeys(limits) {
		c := limits[d]
		n.Spec.Drivers = append(n.Spec.Drivers, storagev1.CSINodeDriver{Name: d, NodeID: name, Allocatable: &storagev1.VolumeNodeResources{Count: &c}})
	}
	return n
}
