package schedkit

import (
	"context"
	"fmt"
	"sort"
	"time"

	"github.com/go-logr/logr"
	corev1 "k8s.io/api/core/v1"
	metav1 "k8s.io/apimachinery/pkg/apis/meta/v1"
	"k8s.io/apimachinery/pkg/types"
	"k8s.io/apimachinery/pkg/util/sets"
	"k8s.io/client-go/tools/record"
	clock "k8s.io/utils/clock/testing"
	"sigs.k8s.io/controller-runtime/pkg/client"
	"sigs.k8s.io/controller-runtime/pkg/client/interceptor"
	ctrllog "sigs.k8s.io/controller-runtime/pkg/log"

	v1 "sigs.k8s.io/karpenter/pkg/apis/v1"
	"sigs.k8s.io/karpenter/pkg/cloudprovider/fake"
	"sigs.k8s.io/karpenter/pkg/controllers/dynamicresources/deviceallocation"
	"sigs.k8s.io/karpenter/pkg/controllers/provisioning"
	"sigs.k8s.io/karpenter/pkg/controllers/provisioning/scheduling"
	"sigs.k8s.io/karpenter/pkg/controllers/state"
	"sigs.k8s.io/karpenter/pkg/events"
	"sigs.k8s.io/karpenter/pkg/operator/options"
	"sigs.k8s.io/karpenter/pkg/state/virtualpods"
	"sigs.k8s.io/karpenter/pkg/test"
	"sigs.k8s.io/karpenter/pkg/utils/daemonset"

	"verifharness/kit"
)

func init() { ctrllog.SetLogger(logr.Discard()) }

type RunCfg struct {
	MaxInstanceTypes    int  // > 0: scheduling.MaxInstanceTypes for this run (the launch-request truncation; 600 in production)
	NoReservedCapacity  bool // feature gate ReservedCapacity off
	Workers             int  // NumConcurrentReconciles of the scheduler (1 / 4 / 16)
	IgnorePreferences   bool // PreferencePolicyIgnore
	BestEffortMinValues bool // MinValuesPolicyBestEffort
}

type Outcome struct {
	Results   scheduling.Results
	Scheduler *scheduling.Scheduler
	Cluster   *state.Cluster
	Client    client.Client
	Ctx       context.Context
	Originals map[types.UID]*corev1.Pod // deep copies of the batch taken BEFORE the scheduler ran
	Batch     []*corev1.Pod
	Dump      *Dump
}

// BindDaemonPods decides, deterministically from the world, which always-matching daemonsets already have a pod
// on which registered node (call once after Gen; Run applies it).
func BindDaemonPods(r *kit.Rand, w *World) {
	for _, n := range w.Nodes {
		if n.Node == nil {
			continue
		}
		for _, ds := range w.DaemonSets {
			sp := ds.Spec.Template.Spec
			universal := len(sp.Tolerations) == 1 && sp.Tolerations[0].Key == "" && sp.NodeSelector == nil && sp.Affinity == nil
			if universal && r.Bool() {
				n.DSBound[ds.Name] = true
			}
		}
	}
}

func dsPod(dsName string, spec corev1.PodSpec, node string, uid types.UID) *corev1.Pod {
	s := *spec.DeepCopy()
	s.NodeName = node
	tr := true
	return &corev1.Pod{ObjectMeta: metav1.ObjectMeta{Name: dsName + "-" + node, Namespace: "default", UID: types.UID("uid-" + dsName + "-" + node), Labels: map[string]string{"ds": dsName},
		OwnerReferences: []metav1.OwnerReference{{APIVersion: "apps/v1", Kind: "DaemonSet", Name: dsName, UID: uid, Controller: &tr, BlockOwnerDeletion: &tr}}},
		Spec: s, Status: corev1.PodStatus{Phase: corev1.PodRunning, Conditions: []corev1.PodCondition{{Type: corev1.PodScheduled, Status: corev1.ConditionTrue}}}}
}

// Run builds the real cluster state and provisioner over the fake client, runs the real Scheduler.Solve and dumps.
// The world is deep-copied first, so one world can be run under several configurations.
func Run(w *World, cfg RunCfg) (*Outcome, error) {
	pp, mv := options.PreferencePolicyRespect, options.MinValuesPolicyStrict
	if cfg.IgnorePreferences {
		pp = options.PreferencePolicyIgnore
	}
	if cfg.BestEffortMinValues {
		mv = options.MinValuesPolicyBestEffort
	}
	cpu := int64(cfg.Workers) * 1000
	rc := !cfg.NoReservedCapacity
	ctx := options.ToContext(context.Background(), test.Options(test.OptionsFields{PreferencePolicy: &pp, MinValuesPolicy: &mv, CPURequests: &cpu,
		FeatureGates: test.FeatureGates{ReservedCapacity: &rc}}))
	if cfg.MaxInstanceTypes > 0 {
		old := scheduling.MaxInstanceTypes
		scheduling.MaxInstanceTypes = cfg.MaxInstanceTypes
		defer func() { scheduling.MaxInstanceTypes = old }()
	}
	clk := clock.NewFakeClock(time.Unix(1_700_000_000, 0))
	cl := kit.NewClient(interceptor.Funcs{})
	cp := fake.NewCloudProvider()
	cp.InstanceTypes = w.Catalog // instance types are immutable inputs of the scheduler (checked under C18)
	for _, np := range w.Pools {
		kit.Apply(ctx, cl, np.DeepCopy())
	}
	for _, ds := range w.DaemonSets {
		kit.Apply(ctx, cl, ds.DeepCopy())
	}
	for _, sc := range w.StorageClasses {
		kit.Apply(ctx, cl, sc.DeepCopy())
	}
	for _, name := range w.VolOrder {
		vs := w.Vols[name]
		if vs.PV != nil {
			kit.Apply(ctx, cl, vs.PV.DeepCopy())
			// VolumeTopology looks the (cluster-scoped) PV up with the pod's namespace, which an API server ignores and the fake client does not
			nsCopy := vs.PV.DeepCopy()
			nsCopy.Namespace = vs.PVC.Namespace
			kit.Apply(ctx, cl, nsCopy)
		}
		kit.Apply(ctx, cl, vs.PVC.DeepCopy())
	}
	for _, node := range kit.SortedKeys(w.CSILimits) {
		kit.Apply(ctx, cl, csiNode(node, w.CSILimits[node]))
	}
	cluster := state.NewCluster(clk, cl, cp)
	prov := provisioning.NewProvisioner(cl, events.NewRecorder(&record.FakeRecorder{}), cp, cluster, clk, deviceallocation.NewController(cl), virtualpods.NewVirtualPodCache(cl))

	var batch []*corev1.Pod
	boundBy := map[string][]*corev1.Pod{}
	for _, n := range w.Nodes {
		if n.NodeClaim != nil {
			nc := n.NodeClaim.DeepCopy()
			kit.Apply(ctx, cl, nc)
			cluster.UpdateNodeClaim(nc)
		}
		if n.Node != nil {
			node := n.Node.DeepCopy()
			kit.Apply(ctx, cl, node)
			if err := cluster.UpdateNode(ctx, node); err != nil {
				return nil, err
			}
			var all []*corev1.Pod
			for _, b := range n.Bound {
				all = append(all, b.DeepCopy())
			}
			for _, ds := range w.DaemonSets {
				if n.DSBound[ds.Name] {
					all = append(all, dsPod(ds.Name, ds.Spec.Template.Spec, n.Node.Name, ds.UID))
				}
			}
			for _, p := range all {
				kit.Apply(ctx, cl, p)
				if err := cluster.UpdatePod(ctx, p); err != nil {
					return nil, err
				}
			}
			boundBy[n.Node.Name] = all
			if n.Kind == "deleting" {
				cluster.MarkForDeletion(node.Spec.ProviderID)
				for _, b := range n.Bound { // their pods are rescheduled in the same batch (Provisioner.Schedule does the same)
					batch = append(batch, b.DeepCopy())
				}
			}
		}
	}
	for _, p := range w.Pods {
		c := p.DeepCopy()
		kit.Apply(ctx, cl, c)
		batch = append(batch, c)
	}
	for _, ds := range w.DaemonSets { // the daemonset controller of cluster state: remember the newest pod of each daemonset
		if err := cluster.UpdateDaemonSet(ctx, ds); err != nil {
			return nil, err
		}
	}
	// the fake client assigns no UIDs, while Solve keys its pod cache and the queue's staleness detection by pod UID
	originals := map[types.UID]*corev1.Pod{}
	for _, p := range batch {
		if p.UID == "" {
			p.UID = types.UID("uid-" + p.Namespace + "-" + p.Name)
		}
		if _, dup := originals[p.UID]; dup {
			return nil, fmt.Errorf("duplicate pod UID %q in the batch", p.UID)
		}
		originals[p.UID] = p.DeepCopy()
	}
	opts := []scheduling.Options{scheduling.DisableReservedCapacityFallback, scheduling.NumConcurrentReconciles(cfg.Workers), scheduling.MinValuesPolicy(mv)}
	if cfg.IgnorePreferences {
		opts = append(opts, scheduling.IgnorePreferences)
	}
	active := cluster.DeepCopyNodes().Active()
	deleting := sets.New[types.UID]()
	for _, n := range w.Nodes {
		if n.Kind == "deleting" {
			for _, b := range n.Bound {
				deleting.Insert(b.UID)
			}
		}
	}
	s, err := prov.NewScheduler(ctx, batch, active, deleting, opts...)
	if err != nil {
		return nil, fmt.Errorf("NewScheduler: %w", err)
	}
	sctx, cancel := context.WithTimeout(ctx, time.Minute)
	results, err := s.Solve(sctx, batch)
	cancel()
	if err != nil {
		return nil, fmt.Errorf("Solve: %w", err)
	}
	results = results.TruncateInstanceTypes(ctx, scheduling.MaxInstanceTypes)

	out := &Outcome{Results: results, Scheduler: s, Cluster: cluster, Client: cl, Ctx: ctx, Originals: originals, Batch: batch}
	d := &Dump{WellKnown: sets.List(v1.WellKnownLabels), Errors: map[string]string{}}
	for _, ds := range w.DaemonSets {
		d.Daemons = append(d.Daemons, DumpPod(daemonset.PodForDaemonSet(ds)))
	}
	orig := func(p *corev1.Pod) PodDump {
		if o, ok := originals[p.UID]; ok {
			return w.DumpPod(o)
		}
		return w.DumpPod(p)
	}
	poolKeys := map[string][]string{}
	for _, np := range w.Pools {
		ks := sets.New[string]()
		for _, r := range np.Spec.Template.Spec.Requirements {
			ks.Insert(r.Key)
		}
		for k := range np.Spec.Template.Labels {
			ks.Insert(k)
		}
		poolKeys[np.Name] = sets.List(ks)
	}
	for _, nc := range results.NewNodeClaims {
		cd := ClaimDump{PoolKeys: poolKeys[nc.NodePoolName], Pool: nc.NodePoolName, Hostname: nc.VerifC01Hostname(), Taints: DumpTaints(nc.Spec.Taints), Requests: Milli(nc.Spec.Resources.Requests)}
		reqs := DumpReqs(nc.Requirements)
		reqs = append(reqs, Req{Key: corev1.LabelHostname, Vals: []string{cd.Hostname}})
		sort.Slice(reqs, func(i, j int) bool { return reqs[i].Key < reqs[j].Key })
		cd.Reqs = reqs
		for _, it := range nc.InstanceTypeOptions {
			cd.Options = append(cd.Options, DumpIT(it))
		}
		sort.Slice(cd.Options, func(i, j int) bool { return cd.Options[i].Name < cd.Options[j].Name })
		for _, p := range nc.Pods {
			cd.Pods = append(cd.Pods, orig(p))
		}
		d.Claims = append(d.Claims, cd)
	}
	kindOf := map[string]string{}
	specOf := map[string]*NodeSpec{}
	dsBound := map[string]map[string]bool{}
	for _, n := range w.Nodes {
		name := ""
		if n.Node != nil {
			name = n.Node.Name
		} else if n.NodeClaim != nil {
			name = n.NodeClaim.Status.NodeName
		}
		kindOf[name] = n.Kind
		specOf[name] = n
		dsBound[name] = n.DSBound
	}
	for _, en := range results.ExistingNodes {
		name := en.Name()
		if en.Node == nil && en.NodeClaim != nil {
			name = en.NodeClaim.Status.NodeName
		}
		// the taints the oracle judges: what the node will carry once it is up, from the generator's knowledge (a registering
		// node's not-ready / readiness / startup taints go away, an in-flight node gets its NodeClaim's taints)
		expTaints := en.VerifC01Taints()
		if ns, ok := specOf[name]; ok {
			switch {
			case ns.Kind == "registering" || ns.Node == nil:
				expTaints = ns.NodeClaim.Spec.Taints
			default:
				expTaints = ns.Node.Spec.Taints
			}
		}
		ed := ExistingDump{Name: name, Kind: kindOf[name], Labels: sortedPairs(en.Labels()), Taints: DumpTaints(expTaints),
			Alloc: Milli(en.Allocatable()), Remaining: Milli(en.VerifC01Remaining()), VLimits: map[string]int64{}, Bound: []PodDump{}, Placed: []PodDump{}, Daemons: []PodDump{}}
		for d, l := range w.CSILimits[name] {
			ed.VLimits[d] = int64(l)
		}
		for _, p := range boundBy[name] {
			ed.Bound = append(ed.Bound, w.DumpPod(p))
		}
		for _, p := range en.Pods {
			ed.Placed = append(ed.Placed, orig(p))
		}
		for _, ds := range w.DaemonSets {
			if !dsBound[name][ds.Name] {
				ed.Daemons = append(ed.Daemons, DumpPod(daemonset.PodForDaemonSet(ds)))
			}
		}
		d.Existing = append(d.Existing, ed)
	}
	sort.Slice(d.Existing, func(i, j int) bool { return d.Existing[i].Name < d.Existing[j].Name })
	for p, e := range results.PodErrors {
		d.Errors[p.Namespace+"/"+p.Name] = e.Error()
	}
	out.Dump = d
	return out, nil
}

// Assignment is the projection compared across degrees of parallelism: for every pod of the batch where it went
// (existing node name, or the sorted instance-type options and pool of its new NodeClaim), hostnames elided.
func (d *Dump) Assignment() map[string]string {
	out := map[string]string{}
	for _, e := range d.Existing {
		for _, p := range e.Placed {
			out[p.Key] = "existing:" + e.Name
		}
	}
	for _, c := range d.Claims {
		names := ""
		for _, o := range c.Options {
			names += o.Name + ","
		}
		peers := ""
		for _, p := range c.Pods {
			peers += p.Key + ","
		}
		for _, p := range c.Pods {
			out[p.Key] = "new:" + c.Pool + ":" + names + ":" + peers
		}
	}
	for k := range d.Errors {
		out[k] = "error"
	}
	return out
}
