// Package schedkit generates scheduling worlds (instance-type catalogues, NodePools, existing /
// in-flight / deleting / unmanaged nodes with bound pods, daemonsets, batches of pending pods), runs the
// REAL provisioning scheduler on them and returns the Results together with a raw, canonical dump of
// everything an oracle needs.  It is shared by the scheduler properties (C01, C02, C04, C06, C19).
//
// API
//
//	w := schedkit.Gen(rand, schedkit.GenOpts{Thorough: false})   // a World (plain Kubernetes / Karpenter objects)
//	out, err := schedkit.Run(w, schedkit.RunCfg{Workers: 4, IgnorePreferences: false, BestEffortMinValues: false})
//	out.Results      scheduling.Results of Scheduler.Solve (after TruncateInstanceTypes, like Provisioner.Schedule)
//	out.Dump         *Dump: per new NodeClaim and per existing node the raw requirements (complement / values /
//	                 bounds / minValues), taints, instance-type options with offerings and allocatable, the pods
//	                 with their ORIGINAL specs and Kubernetes-computed requests, daemon pods, pod errors
//	out.Scheduler    the *scheduling.Scheduler (for hooks of other properties)
//	schedkit.DumpReqs / DumpPod / DumpIT / Milli   canonical converters usable on any object
//
// Every generated object carries a distinct UID (the fake client assigns none, and Solve keys its pod cache and the
// queue's staleness detection by pod UID); Run refuses a batch with duplicate pod UIDs.
//
// Nothing in this package is specific to one property; Gallina emission lives with the property harness.
package schedkit

import (
	"sort"

	corev1 "k8s.io/api/core/v1"
	resourcehelper "k8s.io/component-helpers/resource"

	"sigs.k8s.io/karpenter/pkg/cloudprovider"
	"sigs.k8s.io/karpenter/pkg/scheduling"
)

// Req is the raw representation of a scheduling.Requirement.
type Req struct {
	Key   string   `json:"key"`
	Compl bool     `json:"complement"`
	Vals  []string `json:"values"`
	Gte   *int64   `json:"gte,omitempty"`
	Lte   *int64   `json:"lte,omitempty"`
	MinV  *int64   `json:"minValues,omitempty"`
}

type Reqs []Req

// RL is a ResourceList in milli-units.
type RL map[string]int64

type Expr struct {
	Key  string   `json:"key"`
	Op   string   `json:"op"`
	Vals []string `json:"values"`
}
type Term []Expr
type WTerm struct {
	Weight int32 `json:"weight"`
	Term   Term  `json:"term"`
}
type WID struct {
	Weight int32  `json:"weight"`
	ID     string `json:"id"`
}
type TSC struct {
	ID     string `json:"id"`
	Anyway bool   `json:"scheduleAnyway"`
}
type Tol struct {
	Key    string `json:"key"`
	Op     string `json:"op"`
	Value  string `json:"value"`
	Effect string `json:"effect"`
}
type Taint struct {
	Key    string `json:"key"`
	Value  string `json:"value"`
	Effect string `json:"effect"`
}
type HostPort struct {
	IP    string `json:"ip"` // net.IP.String() of the parsed hostIP ("" => 0.0.0.0)
	Port  int32  `json:"port"`
	Proto string `json:"proto"`
}

// PodDump is the scheduling-relevant part of a pod spec.
type PodDump struct {
	Key           string      `json:"key"` // namespace/name
	UID           string      `json:"uid"`
	Sel           [][2]string `json:"nodeSelector"` // sorted by key
	Req           []Term      `json:"required"`
	Pref          []WTerm     `json:"preferred"`
	PAff          []WID       `json:"podAffinityPreferred"`
	PAnti         []WID       `json:"podAntiAffinityPreferred"`
	TSC           []TSC       `json:"topologySpread"`
	Tols          []Tol       `json:"tolerations"`
	Ports         []HostPort  `json:"hostPorts"`
	Requests      RL          `json:"requests"`                // k8s.io/component-helpers PodRequests + pods:1
	Vols          [][2]string `json:"volumes"`                 // (CSI driver, claim id), from the generator's knowledge (World.DumpPod)
	VolTerms      [][]Term    `json:"volumeTopology"`          // per volume the OR-ed topology terms (hostname dropped for local volumes)
	VAlts         []Reqs      `json:"volumeAlternatives"`      // PodData.VolumeRequirements as the code computed them (unit harnesses)
	MissingClaims []string    `json:"missingClaims,omitempty"` // claims the pod references that do not exist (deleted by hand)
}

type OfferDump struct {
	Reqs      Reqs    `json:"requirements"`
	Available bool    `json:"available"`
	Price     float64 `json:"price"`
	Alloc     RL      `json:"allocatable"` // capacity (+override) - overhead (+override), computed here, not by the code under test
}
type GroupDump struct {
	Alloc  RL     `json:"allocatable"`
	Offers []Reqs `json:"offerings"`
}
type ITDump struct {
	Name   string      `json:"name"`
	Reqs   Reqs        `json:"requirements"`
	Offers []OfferDump `json:"offerings"`
	Groups []GroupDump `json:"allocatableOfferings"` // InstanceType.AllocatableOfferingsList() as the code sees it
}

type ClaimDump struct {
	Pool     string    `json:"nodepool"`
	PoolKeys []string  `json:"nodepoolLabelKeys"` // keys the NodePool template defines (requirements and labels)
	Hostname string    `json:"hostname"`
	Reqs     Reqs      `json:"requirements"` // after FinalizeScheduling, hostname placeholder re-added
	Taints   []Taint   `json:"taints"`
	Options  []ITDump  `json:"instanceTypeOptions"`
	Pods     []PodDump `json:"pods"` // ORIGINAL specs, in placement order
	Requests RL        `json:"requests"`
}
type ExistingDump struct {
	Name      string           `json:"name"`
	Kind      string           `json:"kind"`
	Labels    [][2]string      `json:"labels"`
	Taints    []Taint          `json:"taints"`
	Alloc     RL               `json:"allocatable"`
	Remaining RL               `json:"remaining"`
	VLimits   map[string]int64 `json:"csiAttachLimits"`
	Bound     []PodDump        `json:"bound"`
	Placed    []PodDump        `json:"placed"`
	Daemons   []PodDump        `json:"daemonsWithoutPodHere"`
}
type Dump struct {
	WellKnown []string          `json:"wellKnownLabels"`
	Claims    []ClaimDump       `json:"newNodeClaims"`
	Existing  []ExistingDump    `json:"existingNodes"`
	Daemons   []PodDump         `json:"daemons"`
	Errors    map[string]string `json:"podErrors"`
}

func i64p(p *int) *int64 {
	if p == nil {
		return nil
	}
	v := int64(*p)
	return &v
}

// DumpReq renders one requirement raw (needs the verif hook VerifInternals).
func DumpReq(r *scheduling.Requirement) Req {
	compl, gte, lte, _ := r.VerifInternals()
	vals := r.Values()
	sort.Strings(vals)
	if vals == nil {
		vals = []string{}
	}
	return Req{Key: r.Key, Compl: compl, Vals: vals, Gte: i64p(gte), Lte: i64p(lte), MinV: i64p(r.MinValues)}
}

func DumpReqs(rs scheduling.Requirements) Reqs {
	out := Reqs{}
	for _, r := range rs {
		out = append(out, DumpReq(r))
	}
	sort.Slice(out, func(i, j int) bool { return out[i].Key < out[j].Key })
	return out
}

// Milli converts a ResourceList to milli-units.
func Milli(l corev1.ResourceList) RL {
	out := RL{}
	for k, v := range l {
		out[string(k)] = v.MilliValue()
	}
	return out
}

func sortedPairs(m map[string]string) [][2]string {
	out := [][2]string{}
	for k, v := range m {
		out = append(out, [2]string{k, v})
	}
	sort.Slice(out, func(i, j int) bool { return out[i][0] < out[j][0] })
	return out
}

func dumpTerm(es []corev1.NodeSelectorRequirement) Term {
	t := Term{}
	for _, e := range es {
		vs := append([]string{}, e.Values...)
		t = append(t, Expr{Key: e.Key, Op: string(e.Operator), Vals: vs})
	}
	return t
}

// K8sRequests is the pod's effective request as kube-scheduler computes it, plus the pod slot.
func K8sRequests(p *corev1.Pod) RL {
	r := Milli(resourcehelper.PodRequests(p, resourcehelper.PodResourcesOptions{}))
	r["pods"] = 1000
	return r
}

// DumpPod projects a pod on its scheduling-relevant fields.
func DumpPod(p *corev1.Pod) PodDump {
	d := PodDump{Key: p.Namespace + "/" + p.Name, UID: string(p.UID), Sel: sortedPairs(p.Spec.NodeSelector),
		Req: []Term{}, Pref: []WTerm{}, PAff: []WID{}, PAnti: []WID{}, TSC: []TSC{}, Tols: []Tol{}, Ports: []HostPort{}, Requests: K8sRequests(p), Vols: [][2]string{}, VolTerms: [][]Term{}, VAlts: []Reqs{}}
	if a := p.Spec.Affinity; a != nil {
		if na := a.NodeAffinity; na != nil {
			if na.RequiredDuringSchedulingIgnoredDuringExecution != nil {
				for _, t := range na.RequiredDuringSchedulingIgnoredDuringExecution.NodeSelectorTerms {
					d.Req = append(d.Req, dumpTerm(t.MatchExpressions))
				}
			}
			for _, t := range na.PreferredDuringSchedulingIgnoredDuringExecution {
				d.Pref = append(d.Pref, WTerm{Weight: t.Weight, Term: dumpTerm(t.Preference.MatchExpressions)})
			}
		}
		if pa := a.PodAffinity; pa != nil {
			for _, t := range pa.PreferredDuringSchedulingIgnoredDuringExecution {
				d.PAff = append(d.PAff, WID{Weight: t.Weight, ID: t.PodAffinityTerm.TopologyKey + "|" + labelSelString(t.PodAffinityTerm)})
			}
		}
		if pa := a.PodAntiAffinity; pa != nil {
			for _, t := range pa.PreferredDuringSchedulingIgnoredDuringExecution {
				d.PAnti = append(d.PAnti, WID{Weight: t.Weight, ID: t.PodAffinityTerm.TopologyKey + "|" + labelSelString(t.PodAffinityTerm)})
			}
		}
	}
	for _, c := range p.Spec.TopologySpreadConstraints {
		d.TSC = append(d.TSC, TSC{ID: c.TopologyKey + "|" + string(c.WhenUnsatisfiable) + "|" + itoa(int(c.MaxSkew)), Anyway: c.WhenUnsatisfiable == corev1.ScheduleAnyway})
	}
	for _, t := range p.Spec.Tolerations {
		d.Tols = append(d.Tols, Tol{Key: t.Key, Op: string(t.Operator), Value: t.Value, Effect: string(t.Effect)})
	}
	for _, hp := range scheduling.GetHostPorts(p) {
		d.Ports = append(d.Ports, HostPort{IP: hp.IP.String(), Port: hp.Port, Proto: string(hp.Protocol)})
	}
	return d
}

func labelSelString(t corev1.PodAffinityTerm) string {
	if t.LabelSelector == nil {
		return ""
	}
	s := ""
	for _, kv := range sortedPairs(t.LabelSelector.MatchLabels) {
		s += kv[0] + "=" + kv[1] + ","
	}
	return s
}

func itoa(i int) string {
	if i == 0 {
		return "0"
	}
	neg := i < 0
	if neg {
		i = -i
	}
	s := ""
	for i > 0 {
		s = string(rune('0'+i%10)) + s
		i /= 10
	}
	if neg {
		s = "-" + s
	}
	return s
}

func DumpTaints(ts []corev1.Taint) []Taint {
	out := []Taint{}
	for _, t := range ts {
		out = append(out, Taint{Key: t.Key, Value: t.Value, Effect: string(t.Effect)})
	}
	return out
}

func overheadTotal(o *cloudprovider.InstanceTypeOverhead) RL {
	out := RL{}
	if o == nil {
		return out
	}
	for _, l := range []corev1.ResourceList{o.KubeReserved, o.SystemReserved, o.EvictionThreshold} {
		for k, v := range l {
			out[string(k)] += v.MilliValue()
		}
	}
	return out
}

// offerAlloc computes the allocatable an offering yields from first principles (no hugepages in the generators):
// capacity with the offering's override, minus the overhead with the offering's overhead override (key-wise replace).
func offerAlloc(it *cloudprovider.InstanceType, o *cloudprovider.Offering) RL {
	capa := Milli(it.Capacity)
	for k, v := range o.CapacityOverride {
		capa[string(k)] = v.MilliValue()
	}
	ov := overheadTotal(it.Overhead)
	if o.OverheadOverride != nil {
		for k, v := range overheadTotal(o.OverheadOverride) {
			ov[k] = v
		}
	}
	out := RL{}
	for k, v := range capa {
		out[k] = v - ov[k]
	}
	// hugepage reservations are not available as ordinary memory
	for k, v := range capa {
		if len(k) > len(corev1.ResourceHugePagesPrefix) && k[:len(corev1.ResourceHugePagesPrefix)] == corev1.ResourceHugePagesPrefix {
			out["memory"] -= v
			if out["memory"] < 0 {
				out["memory"] = 0
			}
		}
	}
	return out
}

// DumpIT renders an instance type: raw requirements, every offering with its own allocatable, and the
// allocatable groups exactly as InstanceType.AllocatableOfferingsList() reports them.
func DumpIT(it *cloudprovider.InstanceType) ITDump {
	d := ITDump{Name: it.Name, Reqs: DumpReqs(it.Requirements), Offers: []OfferDump{}, Groups: []GroupDump{}}
	for _, o := range it.Offerings {
		d.Offers = append(d.Offers, OfferDump{Reqs: DumpReqs(o.Requirements), Available: o.Available, Price: o.Price, Alloc: offerAlloc(it, o)})
	}
	for _, g := range it.AllocatableOfferingsList() {
		gd := GroupDump{Alloc: Milli(g.Allocatable), Offers: []Reqs{}}
		for _, o := range g.Offerings {
			gd.Offers = append(gd.Offers, DumpReqs(o.Requirements))
		}
		d.Groups = append(d.Groups, gd)
	}
	return d
}
