module verifharness

go 1.26.6

require (
	github.com/awslabs/operatorpkg v0.0.0-20260708223819-4da4c353c5fa
	github.com/go-logr/logr v1.4.3
	github.com/google/uuid v1.6.0
	github.com/samber/lo v1.53.0
	k8s.io/api v0.36.1
	k8s.io/apimachinery v0.36.1
	k8s.io/client-go v0.36.1
	k8s.io/component-helpers v0.35.0
	k8s.io/utils v0.0.0-20260319190234-28399d86e0b5
	sigs.k8s.io/controller-runtime v0.24.1
	sigs.k8s.io/karpenter v0.0.0
	sigs.k8s.io/yaml v1.6.0
)

require (
	cel.dev/expr v0.25.1 // indirect
	github.com/Pallinder/go-randomdata v1.2.0 // indirect
	github.com/antlr4-go/antlr/v4 v4.13.0 // indirect
	github.com/avast/retry-go v3.0.0+incompatible // indirect
	github.com/beorn7/perks v1.0.1 // indirect
	github.com/blang/semver/v4 v4.0.0 // indirect
	github.com/cespare/xxhash/v2 v2.3.0 // indirect
	github.com/davecgh/go-spew v1.1.2-0.20180830191138-d8f796af33cc // indirect
	github.com/emicklei/go-restful/v3 v3.13.0 // indirect
	github.com/evanphx/json-patch/v5 v5.9.11 // indirect
	github.com/fsnotify/fsnotify v1.9.0 // indirect
	github.com/fxamacker/cbor/v2 v2.9.2 // indirect
	github.com/go-logr/zapr v1.3.0 // indirect
	github.com/go-openapi/jsonpointer v0.23.1 // indirect
	github.com/go-openapi/jsonreference v0.21.5 // indirect
	github.com/go-openapi/swag v0.26.0 // indirect
	github.com/go-openapi/swag/cmdutils v0.26.0 // indirect
	github.com/go-openapi/swag/conv v0.26.0 // indirect
	github.com/go-openapi/swag/fileutils v0.26.0 // indirect
	github.com/go-openapi/swag/jsonname v0.26.0 // indirect
	github.com/go-openapi/swag/jsonutils v0.26.0 // indirect
	github.com/go-openapi/swag/loading v0.26.0 // indirect
	github.com/go-openapi/swag/mangling v0.26.0 // indirect
	github.com/go-openapi/swag/netutils v0.26.0 // indirect
	github.com/go-openapi/swag/stringutils v0.26.0 // indirect
	github.com/go-openapi/swag/typeutils v0.26.0 // indirect
	github.com/go-openapi/swag/yamlutils v0.26.0 // indirect
	github.com/google/cel-go v0.26.0 // indirect
	github.com/google/gnostic-models v0.7.1 // indirect
	github.com/imdario/mergo v0.3.16 // indirect
	github.com/json-iterator/go v1.1.12 // indirect
	github.com/mitchellh/hashstructure/v2 v2.0.2 // indirect
	github.com/modern-go/concurrent v0.0.0-20180306012644-bacd9c7ef1dd // indirect
	github.com/modern-go/reflect2 v1.0.3-0.20250322232337-35a7c28c31ee // indirect
	github.com/munnerz/goautoneg v0.0.0-20191010083416-a7dc8b61c822 // indirect
	github.com/patrickmn/go-cache v2.1.0+incompatible // indirect
	github.com/pmezard/go-difflib v1.0.1-0.20181226105442-5d4384ee4fb2 // indirect
	github.com/prometheus/client_golang v1.23.2 // indirect
	github.com/prometheus/client_model v0.6.2 // indirect
	github.com/prometheus/common v0.67.5 // indirect
	github.com/prometheus/procfs v0.20.1 // indirect
	github.com/robfig/cron/v3 v3.0.1 // indirect
	github.com/spf13/cobra v1.10.2 // indirect
	github.com/spf13/pflag v1.0.10 // indirect
	github.com/stoewer/go-strcase v1.3.0 // indirect
	github.com/x448/float16 v0.8.4 // indirect
	go.opentelemetry.io/otel v1.44.0 // indirect
	go.opentelemetry.io/otel/trace v1.44.0 // indirect
	go.uber.org/multierr v1.11.0 // indirect
	go.uber.org/zap v1.28.0 // indirect
	go.yaml.in/yaml/v2 v2.4.4 // indirect
	go.yaml.in/yaml/v3 v3.0.4 // indirect
	golang.org/x/exp v0.0.0-20251219203646-944ab1f22d93 // indirect
	golang.org/x/net v0.56.0 // indirect
	golang.org/x/oauth2 v0.36.0 // indirect
	golang.org/x/sync v0.21.0 // indirect
	golang.org/x/sys v0.46.0 // indirect
	golang.org/x/term v0.44.0 // indirect
	golang.org/x/text v0.39.0 // indirect
	golang.org/x/time v0.15.0 // indirect
	gomodules.xyz/jsonpatch/v2 v2.5.0 // indirect
	google.golang.org/genproto/googleapis/api v0.0.0-20260128011058-8636f8732409 // indirect
	google.golang.org/genproto/googleapis/rpc v0.0.0-20260128011058-8636f8732409 // indirect
	google.golang.org/protobuf v1.36.12-0.20260120151049-f2248ac996af // indirect
	gopkg.in/evanphx/json-patch.v4 v4.13.0 // indirect
	gopkg.in/inf.v0 v0.9.1 // indirect
	k8s.io/apiextensions-apiserver v0.36.0 // indirect
	k8s.io/apiserver v0.36.0 // indirect
	k8s.io/autoscaler/vertical-pod-autoscaler v1.7.0 // indirect
	k8s.io/cloud-provider v0.35.0 // indirect
	k8s.io/component-base v0.36.1 // indirect
	k8s.io/csi-translation-lib v0.35.0 // indirect
	k8s.io/dynamic-resource-allocation v0.35.0 // indirect
	k8s.io/klog/v2 v2.140.0 // indirect
	k8s.io/kube-openapi v0.0.0-20260414162039-ec9c827d403f // indirect
	sigs.k8s.io/json v0.0.0-20250730193827-2d320260d730 // indirect
	sigs.k8s.io/randfill v1.0.0 // indirect
	sigs.k8s.io/structured-merge-diff/v6 v6.4.0 // indirect
)

replace sigs.k8s.io/karpenter => /repo
