(* C14 — proofs, part 5: a purely syntactic sufficient condition for [no_expiry]: every reconcile
   reads a fresh object and consecutive reconciles are at most g seconds apart, with g + 1 <= TTL. *)
From KV Require Import C14.Model C14.Spec C14.Proofs C14.Proofs2 C14.Proofs3 C14.Proofs4.

Transparent launch finish.

Lemma launch_entry k pl r p t : r_ch (launch k pl r) = Some (p, t) ->
  t = r_now r \/ (c_l (r_im r) <> LTrue /\ cache_hit k r = None /\ r_ch (launch k pl r) = r_ch r).
Proof.
  unfold launch, populate, err_of_wr. rewrite cache_hit_norm. simpl.
  destruct (match c_l (r_im r) with LAbsent => LAwait | x => x end) eqn:E.
  all: try solve [intros H; discriminate].
  all: assert (Nl : c_l (r_im r) <> LTrue) by (intros X; rewrite X in E; discriminate).
  all: destruct (cache_hit k r) eqn:Eh; [simpl; intros H; injection H as _ <-; left; reflexivity|].
  all: dcreate pl; simpl.
  all: try solve [intros H; injection H as _ <-; left; reflexivity].
  all: try solve [intros H; right; split; [exact Nl|split; reflexivity]].
  all: destruct (eff_wr (r_pc r) (f_del_launch pl)); simpl; intros H; right; (split; [exact Nl|split; reflexivity]).
Qed.

Lemma finish_now pl st r r' q : finish pl st r = (r', q) -> r_now r' = r_now r \/ r_now r' = r_now r + 1.
Proof.
  unfold finish. intros H. repeat bmh H; injection H as <- _; simpl; auto.
Qed.

Opaque launch finish.

Lemma main_path_now k pl s r s' e q : main_path k pl s r = (s', (e, q)) -> now s' = r_now r \/ now s' = r_now r + 1.
Proof.
  unfold main_path. destruct (finish pl (r_im r) (subs k pl r)) as [r' q'] eqn:F. intros H. injection H as <- _ _. simpl.
  apply finish_now in F. rewrite subs_unfold in F.
  destruct (after_launch_quiet k pl (launch k pl r)) as [_ _ _ Qn _ _ _ _ _ _ _].
  destruct (launch_misc k pl r) as (Ln & _). rewrite Qn, Ln in F. exact F.
Qed.

(* ---------------------------------------------------------------- paced histories *)

(* [since]: seconds ticked since the last reconcile; [fresh]: the informer has delivered the stored
   object since the last API write to the NodeClaim *)
Fixpoint paced (g since : Z) (fresh : bool) (ops : list op) : bool :=
  match ops with
  | [] => true
  | o :: t =>
      match o with
      | Rec _ => fresh && (since <=? g) && paced g 0 false t
      | Sync | Restart => paced g since true t
      | Tick d => (0 <=? d) && paced g (since + d) fresh t
      | EnvDelete | ForeignFin _ => paced g since false t
      | _ => paced g since fresh t
      end
  end.

(* nothing will consult the cache any more *)
Definition Done (k : cfg) (s : state) : Prop :=
  k_managed k = false \/ match pc s with None => True | Some c => c_del c = true \/ c_l c = LTrue end.

Record invP (k : cfg) (s : state) (since : Z) (fresh : bool) : Prop := mkInvP {
  p_fresh : fresh = true -> vw s = pc s;
  p_since : 0 <= since;
  p_fin : ch s <> None -> Done k s \/ has_fin (pc s) = true;
  p_bound : forall p t, ch s = Some (p, t) -> now s <= t + 1 + since \/ Done k s }.

Lemma invP_init k : invP k init 0 true.
Proof. constructor; simpl; try reflexivity; try lia; intros; congruence. Qed.

Lemma rec_paced k pl s s' e q since g : reconcile k pl s = (s', (e, q)) ->
  g + 1 <= k_ttl k -> since <= g -> invP k s since true ->
  rec_fresh k pl s = true /\ invP k s' 0 false.
Proof.
  intros H Hg Hs [Pf Ps Pfin Pb]. specialize (Pf eq_refl).
  assert (Fresh : (match pc s with Some c => c_del c = false /\ c_l c <> LTrue | None => False end) ->
                  k_managed k = true -> entry_fresh k s = true).
  { intros NotDone Hm. unfold entry_fresh. destruct (ch s) as [[p t]|] eqn:Ec; [|reflexivity].
    destruct (Pb p t eq_refl) as [B|[D|D]]; [apply Z.leb_le; lia|congruence|].
    destruct (pc s) as [c|]; [|destruct NotDone]. destruct NotDone as [N1 N2]. destruct D; congruence. }
  assert (Same : forall s1, pc s1 = pc s -> ch s1 = ch s -> now s1 = now s -> Done k s \/ ch s = None -> invP k s1 0 false).
  { intros s1 E1 E2 E3 D. constructor; try discriminate; try lia; unfold Done; rewrite ?E1, ?E2, ?E3.
    - intros X. destruct D as [D|D]; [left; exact D|congruence].
    - intros p t X. destruct D as [D|D]; [right; exact D|congruence]. }
  unfold rec_fresh, consults. unfold reconcile in H. rewrite Pf in *.
  destruct (pc s) as [c|] eqn:Ec.
  2:{ injection H as <- _ _. split; [reflexivity|]. apply Same; auto. left. right. rewrite Ec. exact I. }
  destruct (k_managed k) eqn:Em; simpl in *.
  2:{ injection H as <- _ _. split; [reflexivity|]. apply Same; auto. left. left. exact Em. }
  destruct (c_del c) eqn:Ed; simpl.
  { split; [reflexivity|]. apply finalize_full in H. destruct H as (_ & Fc & _ & Fp).
    assert (D' : Done k s').
    { right. destruct Fp as [->|(p0 & p' & Hp0 & -> & _ & Hd & _)]; [exact I|]. rewrite Ec in Hp0. injection Hp0 as <-. left. apply Hd. exact Ed. }
    constructor; try discriminate; try lia.
    - intros _. left. exact D'.
    - intros p t _. right. exact D'. }
  (* main path: the object read is [c] (possibly after the finalizer patch) *)
  assert (Main : forall r, main_path k pl s r = (s', (e, q)) -> r_ch r = ch s -> r_now r = now s ->
                   has_fin (r_pc r) = true -> c_l (r_im r) = c_l c ->
                   (c_l c <> LTrue -> entry_fresh k s = true) -> invP k s' 0 false).
  { intros r Hm H1 H3 Hfin Hl Hfr.
    pose proof (main_path_sum _ _ _ _ _ _ _ Hm) as (_ & Sc & _ & _ & _).
    pose proof (main_path_fin _ _ _ _ _ _ _ Hm) as Sf. rewrite Hfin in Sf.
    pose proof (main_path_now _ _ _ _ _ _ _ Hm) as Sn.
    constructor; try discriminate; try lia.
    - intros _. right. exact Sf.
    - intros p t X. rewrite Sc in X. destruct (launch_entry k pl r p t X) as [->|(Nl & Eh & Ech)].
      + left. lia.
      + exfalso. rewrite Hl in Nl. specialize (Hfr Nl).
        assert (Hch : ch s <> None) by (rewrite <- H1, <- Ech, X; discriminate).
        exact (fresh_hit k r s H1 H3 Hfr Hch Eh). }
  destruct (c_fin c) eqn:Efin.
  - assert (Hfr : c_l c <> LTrue -> entry_fresh k s = true).
    { intros Nl. apply Fresh; [split; first [assumption|reflexivity]|reflexivity]. }
    split.
    + destruct (lcond_eqb (c_l c) LTrue) eqn:E; simpl; [reflexivity|].
      apply Hfr. intros X. apply lcond_eqb_eq in X. congruence.
    + apply (Main _ H); try reflexivity; simpl; [rewrite Ec; exact Efin|exact Hfr].
  - simpl in H. rewrite Ec in H. destruct (eff_wr (Some c) (f_fin pl)) eqn:Ew; simpl.
    + assert (Hfr : c_l c <> LTrue -> entry_fresh k s = true).
      { intros Nl. apply Fresh; [split; first [assumption|reflexivity]|reflexivity]. }
      split.
      * destruct (lcond_eqb (c_l c) LTrue) eqn:E; simpl; [reflexivity|].
        apply Hfr. intros X. apply lcond_eqb_eq in X. congruence.
      * apply (Main _ H); try reflexivity; simpl; exact Hfr.
    + split; [reflexivity|]. injection H as <- _ _. apply Same; simpl; auto.
      destruct (ch s) eqn:Ech; [|right; reflexivity]. left.
      destruct Pfin as [D|D]; [discriminate|exact D|simpl in D; congruence].
    + split; [reflexivity|]. injection H as <- _ _. apply Same; simpl; auto.
      destruct (ch s) eqn:Ech; [|right; reflexivity]. left.
      destruct Pfin as [D|D]; [discriminate|exact D|simpl in D; congruence].
    + split; [reflexivity|]. injection H as <- _ _. apply Same; simpl; auto.
      destruct (ch s) eqn:Ech; [|right; reflexivity]. left.
      destruct Pfin as [D|D]; [discriminate|exact D|simpl in D; congruence].
Qed.

Lemma done_del_claim k s s1 : pc s1 = del_claim (pc s) -> Done k s1.
Proof.
  intros E. right. rewrite E. destruct (pc s) as [c|]; simpl; [|exact I].
  destruct (c_fin c || c_ffin c)%bool; simpl; [left; reflexivity|exact I].
Qed.

Lemma paced_no_expiry k g ops : g + 1 <= k_ttl k ->
  forall s since fresh, invP k s since fresh -> paced g since fresh ops = true -> no_expiry_from k s ops = true.
Proof.
  intros Hg. induction ops as [|o ops IH]; intros s since fresh Inv Hp; simpl; [reflexivity|].
  destruct (step k s o) as [s' x] eqn:E. simpl.
  destruct o; simpl in Hp, E.
  - (* Sync *) injection E as <- _. apply (IH _ since true); [|exact Hp].
    destruct Inv as [A B C D]. constructor; simpl; auto.
  - (* Tick *) apply Bool.andb_true_iff in Hp. destruct Hp as [Hd Hp]. apply Z.leb_le in Hd.
    injection E as <- _. apply (IH _ (since + d) fresh); [|exact Hp].
    destruct Inv as [A B C D]. constructor; simpl; auto; try lia.
    intros p t X. destruct (D p t X) as [Y|Y]; [left; lia|right; exact Y].
  - (* Rec *) apply Bool.andb_true_iff in Hp. destruct Hp as [Hp1 Hp]. apply Bool.andb_true_iff in Hp1.
    destruct Hp1 as [Hf Hs]. apply Z.leb_le in Hs. subst fresh. destruct x as [e q].
    destruct (rec_paced _ _ _ _ _ _ _ _ E Hg Hs Inv) as [R Inv']. rewrite R. simpl.
    exact (IH _ 0 false Inv' Hp).
  - (* EnvDelete *) injection E as <- _. apply (IH _ since false); [|exact Hp].
    destruct Inv as [A B C D].
    assert (Dn : Done k (mkState (del_claim (pc s)) (vw s) (nd s) (dp s) (ch s) (made s) (alive s) (now s))) by (eapply done_del_claim; reflexivity).
    constructor; simpl; auto; try discriminate.
  - (* Restart *) injection E as <- _. apply (IH _ since true); [|exact Hp].
    destruct Inv as [A B C D]. constructor; simpl; auto; congruence.
  - destruct (made s); [|destruct (nd s)]; injection E as <- _; apply (IH _ since fresh); try exact Hp;
      destruct Inv as [A B C D]; constructor; simpl; auto.
  - injection E as <- _. apply (IH _ since fresh); [|exact Hp]. destruct Inv as [A B C D]; constructor; simpl; auto.
  - injection E as <- _. apply (IH _ since fresh); [|exact Hp]. destruct Inv as [A B C D]; constructor; simpl; auto.
  - injection E as <- _. apply (IH _ since fresh); [|exact Hp]. destruct Inv as [A B C D]; constructor; simpl; auto.
  - injection E as <- _. apply (IH _ since fresh); [|exact Hp]. destruct Inv as [A B C D]; constructor; simpl; auto.
  - destruct (nd s); injection E as <- _; apply (IH _ since fresh); try exact Hp;
      destruct Inv as [A B C D]; constructor; simpl; auto.
  - injection E as <- _. apply (IH _ since fresh); [|exact Hp]. destruct Inv as [A B C D]; constructor; simpl; auto.
  - destruct (dp s); injection E as <- _; apply (IH _ since fresh); try exact Hp;
      destruct Inv as [A B C D]; constructor; simpl; auto.
  - (* ForeignFin *) injection E as <- _. apply (IH _ since false); [|exact Hp].
    destruct Inv as [A B C D].
    assert (Dn : Done k s -> Done k (mkState (set_ffin (pc s) b) (vw s) (nd s) (dp s) (ch s) (made s) (alive s) (now s))).
    { intros [X|X]; [left; exact X|right]. simpl.
      destruct (set_ffin_cases (pc s) b) as [E|(c & Hc & E)]; rewrite E; [exact I|]. rewrite Hc in X. exact X. }
    constructor; simpl; auto; try discriminate.
    + intros X. destruct (C X) as [Y|Y]; [left; exact (Dn Y)|].
      destruct (set_ffin_cases (pc s) b) as [E|(c & Hc & E)]; rewrite E; [left; right; simpl; exact I|].
      right. rewrite Hc in Y. exact Y.
    + intros p t X. destruct (D p t X) as [Y|Y]; [left; exact Y|right; exact (Dn Y)].
Qed.

(* The syntactic sufficient condition: fresh reads and reconciles at most g seconds apart, g + 1 <= TTL. *)
Lemma paced_sufficient k g ops : g + 1 <= k_ttl k -> paced g 0 true ops = true -> no_expiry k ops = true.
Proof. intros Hg Hp. exact (paced_no_expiry k g ops Hg init 0 true (invP_init k) Hp). Qed.

Lemma paced_at_most_once k g ops : g + 1 <= k_ttl k -> no_restart ops -> paced g 0 true ops = true ->
  (total_creates (trace k ops) <= 1)%nat.
Proof. intros Hg Hr Hp. apply create_at_most_once_l; [exact Hr|exact (paced_sufficient k g ops Hg Hp)]. Qed.

Lemma no_restart_b_true ops : no_restart_b ops = true -> no_restart ops.
Proof.
  unfold no_restart_b, no_restart. induction ops as [|o ops IH]; simpl; [constructor|].
  rewrite Bool.andb_true_iff, Bool.negb_true_iff. intros [A B]. constructor; auto.
Qed.

(* the whole property, as the oracle states it, holds of every history of the model *)
Lemma model_holds k ops :
  holds k (no_restart_b ops && no_expiry k ops) (no_expiry k ops) (trace k ops).
Proof.
  constructor.
  - intros H. apply Bool.andb_true_iff in H. destruct H as [H1 H2].
    apply create_at_most_once_l; [apply no_restart_b_true; exact H1|exact H2].
  - apply create_after_finalizer_l.
  - apply conditions_ordered_l.
  - apply conditions_justified_l.
  - apply capacity_error_deletes_l.
Qed.

(* ---------------------------------------------------------------- the two fixed behaviours *)

Transparent registration liveness.

(* fix 40852abfb: when the NodePool update conflicts or fails, the claim is not marked Registered in
   this reconcile, so the retry runs the whole registration step again *)
Lemma registered_only_after_pool_recorded_l k pl r :
  c_r (r_im r) <> RTrue -> k_pool k = true -> (f_pool_reg pl = WConflict \/ f_pool_reg pl = WErr) ->
  c_r (r_im (registration k pl r)) <> RTrue.
Proof.
  intros Hn Hk Hw. unfold registration, pool_then_registered, hook_return, err_of_wr. rewrite Hk.
  destruct Hw as [-> | ->]; repeat bm; simpl; congruence.
Qed.

Definition is_del_live (e : eff) : bool := match e with EDelLive _ => true | _ => false end.

(* fix 3cbc43e89: one Liveness pass deletes the NodeClaim at most once (and records at most one failure) *)
Lemma liveness_deletes_once_l k pl r :
  exists x, r_effs (liveness k pl r) = r_effs r ++ x /\ (length (filter is_del_live x) <= 1)%nat.
Proof.
  unfold liveness, live_registration, live_site, err_of_wr.
  repeat bm; simpl; repeat rewrite <- app_assoc; simpl;
    first [ solve [exists []; rewrite app_nil_r; split; [reflexivity|simpl; lia]]
          | solve [eexists; split; [reflexivity|simpl; lia]] ].
Qed.

Opaque registration liveness.
