(* C14 — correspondence check and oracle, evaluated by vm_compute on the histories the Go
   harness ran through the real lifecycle.Controller.Reconcile. *)
From Coq Require Import String.
From KV Require Import C14.Model C14.Spec.
Open Scope string_scope.

(* what the harness saw after an op *)
Record obs := mkObs {
  o_effs : list eff;           (* API writes / provider calls of the reconcile, in order, with outcome *)
  o_res : qres;
  o_claim : option claim;      (* the NodeClaim in the API afterwards *)
  o_node : option node;
  o_dup : bool;
  o_cache : bool;              (* launch cache holds a live entry for the UID *)
  o_made : nat;
  o_alive : list nat;
  o_now : Z }.

Inductive case := Case (k : cfg) (tr : list (op * obs)).

Definition okp : plan :=
  mkPlan WOk POk WOk false HReady WOk WOk false WOk WOk WOk WOk WOk WOk WOk false WOk WOk false false.

Fixpoint list_eqb {A} (eqb : A -> A -> bool) (a b : list A) : bool :=
  match a, b with
  | [], [] => true
  | x :: a', y :: b' => eqb x y && list_eqb eqb a' b'
  | _, _ => false
  end.

Definition opt_eqb {A} (eqb : A -> A -> bool) (a b : option A) : bool :=
  match a, b with Some x, Some y => eqb x y | None, None => true | _, _ => false end.

Definition cache_live (k : cfg) (s : state) : bool :=
  match ch s with Some (_, t) => (now s <=? t + k_ttl k)%Z | None => false end.

Definition step_tags (k : cfg) (s' : state) (e : list eff) (q : qres) (o : obs) : list string :=
  (if list_eqb eff_eqb e (o_effs o) then [] else ["corr:effects"]) ++
  (if qres_eqb q (o_res o) then [] else ["corr:result"]) ++
  (if opt_eqb claim_eqb (pc s') (o_claim o) then [] else ["corr:claim"]) ++
  (if opt_eqb node_eqb (nd s') (o_node o) then [] else ["corr:node"]) ++
  (if Bool.eqb (dp s') (o_dup o) then [] else ["corr:dup"]) ++
  (if Bool.eqb (cache_live k s') (o_cache o) then [] else ["corr:cache"]) ++
  (if Nat.eqb (made s') (o_made o) && list_eqb Nat.eqb (alive s') (rev (o_alive o)) then [] else ["corr:provider"]) ++
  (if (now s' =? o_now o)%Z then [] else ["corr:clock"]).

(* the model follows the implementation step by step; the first diverging step is reported *)
Fixpoint corr (k : cfg) (s : state) (tr : list (op * obs)) : list string :=
  match tr with
  | [] => []
  | (o, ob) :: t =>
      let '(s', (e, q)) := step k s o in
      match step_tags k s' e q ob with
      | [] => corr k s' t
      | tags => tags
      end
  end.

(* frames as observed on the implementation *)
Fixpoint impl_frames (pre : option claim) (tr : list (op * obs)) : list frame :=
  match tr with
  | [] => []
  | (o, ob) :: t => mkFrame o pre (o_effs ob) (o_res ob) (o_claim ob) (o_node ob) :: impl_frames (o_claim ob) t
  end.

Definition nat_tag (n : nat) : string :=
  match n with
  | 1%nat => "oracle:create-at-most-once"
  | 2%nat => "oracle:create-after-finalizer"
  | 3%nat => "oracle:conditions-ordered"
  | 4%nat => "oracle:conditions-justified"
  | _ => "oracle:capacity-error-deletes"
  end.


Definition check_case (c : case) : list string :=
  match c with
  | Case k tr =>
      let ops := map fst tr in
      let g3 := no_expiry k ops in
      let g1 := no_restart_b ops && g3 in
      corr k init tr ++
      map (fun nb => nat_tag (fst nb)) (filter (fun nb => negb (snd nb)) (holds_clauses k g1 g3 (impl_frames (Some fresh) tr))) ++
      (if timing_ok k then [] else ["oracle:cache-ttl-exceeds-liveness-timeouts"])
  end.

Definition check_all (cs : list (Z * case)) : list (Z * string) :=
  flat_map (fun ic => map (fun t => (fst ic, t)) (check_case (snd ic))) cs.
