(* C14 — proofs, part 2: invariants over all histories. *)
From KV Require Import C14.Model C14.Spec C14.Proofs.

Ltac bmh H :=
  match type of H with
  | context [match ?x with _ => _ end] => destruct x eqn:?
  end.

(* ---------------------------------------------------------------- the finalizer invariant *)

(* a cached object that carries the finalizer and is not terminating is still stored, with the
   finalizer: only finalize removes it, and finalize needs a terminating cached object *)
Definition invA (s : state) : Prop :=
  forall v, vw s = Some v -> c_fin v = true -> c_del v = false -> has_fin (pc s) = true.

Lemma has_fin_del_claim p : has_fin (del_claim p) = has_fin p.
Proof. destruct p as [c|]; simpl; [|reflexivity]. destruct (c_fin c) eqn:E; simpl; [exact E|destruct (c_ffin c); simpl; [exact E|reflexivity]]. Qed.

Lemma has_fin_pc_rel p p' : pc_rel p p' -> has_fin p' = has_fin p.
Proof. intros [->| ->]; [reflexivity|apply has_fin_del_claim]. Qed.

Lemma main_path_fin k pl s r s' e q : main_path k pl s r = (s', (e, q)) -> has_fin (pc s') = has_fin (r_pc r).
Proof.
  unfold main_path, subs. destruct (finish pl (r_im r) _) as [r' q'] eqn:F. intros H. inversion H; subst; clear H.
  apply finish_spec in F. destruct F as (_ & _ & _ & _ & Hpc).
  destruct (after_launch_quiet k pl (launch k pl r)) as [_ _ _ _ _ Hrel _ _ _ _ _].
  rewrite launch_pc in Hrel.
  assert (G : has_fin (r_pc (liveness k pl (initialization k pl (registration k pl (launch k pl r))))) = has_fin (r_pc r)).
  { rewrite (has_fin_pc_rel _ _ Hrel). destruct (deleted_by_launch k pl r); [apply has_fin_del_claim|reflexivity]. }
  simpl. destruct Hpc as [->|(p & Hp & ->)]; [exact G|].
  rewrite Hp in G. simpl in *. rewrite <- G. apply merge_flags.
Qed.

Lemma main_path_vw k pl s r s' e q : main_path k pl s r = (s', (e, q)) -> vw s' = vw s.
Proof. intros H. apply main_path_spec in H. destruct H as (_ & _ & _ & _ & H). exact H. Qed.

Lemma reconcile_vw k pl s s' e q : reconcile k pl s = (s', (e, q)) -> vw s' = vw s.
Proof.
  unfold reconcile, finalize, unfinalize. intros H. cbv zeta in H.
  repeat bmh H; try (inversion H; subst; simpl; congruence); try (apply main_path_vw in H; congruence).
Qed.

Lemma reconcile_invA k pl s s' e q : reconcile k pl s = (s', (e, q)) -> invA s -> invA s'.
Proof.
  intros H Inv v Hv Hf Hd. pose proof (reconcile_vw _ _ _ _ _ _ H) as Hvw. rewrite Hvw in Hv.
  pose proof (Inv v Hv Hf Hd) as Hp.
  unfold reconcile in H. rewrite Hv, Hd, Hf in H.
  destruct (negb (k_managed k)); [inversion H; subst; exact Hp|].
  apply main_path_fin in H. rewrite H. exact Hp.
Qed.

Lemma step_invA k s o s' x : step k s o = (s', x) -> invA s -> invA s'.
Proof.
  destruct o;
    try (match goal with |- step _ _ (Rec _) = _ -> _ => idtac end;
         destruct x as [e q]; simpl; intros H; eapply reconcile_invA; eassumption);
    (simpl; intros H; inversion H; subst; clear H; intros Inv v Hv Hf Hd; simpl in *).
  - rewrite Hv. exact Hf.   (* Sync *)
  - exact (Inv v Hv Hf Hd).
  - rewrite has_fin_del_claim. exact (Inv v Hv Hf Hd).
  - rewrite Hv. exact Hf.   (* Restart *)
  - destruct (made s); [exact (Inv v Hv Hf Hd)|]. destruct (nd s); exact (Inv v Hv Hf Hd).
  - exact (Inv v Hv Hf Hd).
  - exact (Inv v Hv Hf Hd).
  - exact (Inv v Hv Hf Hd).
  - exact (Inv v Hv Hf Hd).
  - destruct (nd s); exact (Inv v Hv Hf Hd).
  - exact (Inv v Hv Hf Hd).
  - destruct (dp s); exact (Inv v Hv Hf Hd).
  - specialize (Inv v Hv Hf Hd). unfold set_ffin. destruct (pc s) as [c|]; [|discriminate]. simpl in *. rewrite Inv.
    rewrite !Bool.andb_false_r. simpl. exact Inv.
Qed.

Lemma invA_init : invA init.
Proof. intros v Hv Hf _. simpl in Hv. injection Hv as <-. discriminate. Qed.

Definition frame_ok (f : frame) : Prop :=
  create_guarded (has_fin (fr_pre f)) (fr_effs f) /\ cap_deletes (fr_post f) (fr_effs f).

Lemma step_frame_ok k s o s' e q : step k s o = (s', (e, q)) -> invA s ->
  frame_ok (mkFrame o (pc s) e q (pc s') (nd s')).
Proof.
  intros H Inv. unfold frame_ok. simpl.
  rewrite <- create_guarded_b_iff, <- cap_deletes_b_iff.
  destruct o; try (simpl in H; inversion H; subst; split; reflexivity).
  simpl in H. eapply reconcile_frame; eassumption.
Qed.

Lemma run_frames_ok k ops : forall s, invA s -> Forall frame_ok (fst (run k s ops)).
Proof.
  induction ops as [|o ops IH]; intros s Inv; simpl; [constructor|].
  destruct (step k s o) as [s' [e q]] eqn:E. destruct (run k s' ops) as [fs sf] eqn:R. simpl.
  constructor.
  - eapply step_frame_ok; eassumption.
  - specialize (IH s' (step_invA _ _ _ _ _ E Inv)). rewrite R in IH. exact IH.
Qed.

Lemma create_after_finalizer_l k ops :
  Forall (fun f => create_guarded (has_fin (fr_pre f)) (fr_effs f)) (trace k ops).
Proof.
  unfold trace. eapply Forall_impl; [|apply run_frames_ok, invA_init]. intros f [H _]. exact H.
Qed.

Lemma capacity_error_deletes_l k ops :
  Forall (fun f => cap_deletes (fr_post f) (fr_effs f)) (trace k ops).
Proof.
  unfold trace. eapply Forall_impl; [|apply run_frames_ok, invA_init]. intros f [_ H]. exact H.
Qed.
