(* C14 — proofs, part 4: the stored object over all histories.  Justification of every condition
   that turns True (unconditional) and order of the conditions (while the launch cache entry is
   within its TTL whenever it is consulted), including status writes computed from stale reads. *)
From KV Require Import C14.Model C14.Spec C14.Proofs C14.Proofs2 C14.Proofs3.

(* ---------------------------------------------------------------- what the phases keep *)

Lemma liveness_keeps k pl r : r_im (liveness k pl r) = r_im r /\ r_nd (liveness k pl r) = r_nd r.
Proof. unfold liveness, live_registration, live_site, err_of_wr. repeat bm; simpl; split; reflexivity. Qed.

Lemma registration_keeps_i k pl r : c_i (r_im (registration k pl r)) = c_i (r_im r).
Proof. unfold registration, pool_then_registered, registered_now, hook_return, err_of_wr. repeat bm; simpl; congruence. Qed.

Lemma initialization_keeps_r k pl r : c_r (r_im (initialization k pl r)) = c_r (r_im r).
Proof. unfold initialization, set_i, err_of_wr. repeat bm; simpl; congruence. Qed.

Lemma registration_keeps_true k pl r : c_r (r_im r) = RTrue -> registration k pl r = r.
Proof. unfold registration. intros ->. reflexivity. Qed.

Lemma initialization_keeps_true k pl r : c_i (r_im r) = ITrue -> initialization k pl r = r.
Proof. unfold initialization. intros ->. reflexivity. Qed.

Lemma initialization_keeps_node_reg k pl r :
  node_registered_ok (r_nd r) = true -> node_registered_ok (r_nd (initialization k pl r)) = true.
Proof.
  unfold initialization, set_i, err_of_wr. intros H.
  destruct (r_nd r) as [n|] eqn:En; [|simpl in H; discriminate].
  repeat bm; simpl in *; rewrite ?En; simpl; try exact H; try congruence.
Qed.

(* what one pass over the sub-reconcilers can turn True, and on what grounds *)
Lemma subs_just k pl r :
  let rL := subs k pl r in
  (c_l (r_im rL) = LTrue -> c_l (r_im r) = LTrue \/ r_ch r <> None \/ r_made (launch k pl r) = S (r_made r)) /\
  (c_r (r_im rL) = RTrue -> c_r (r_im r) = RTrue \/ node_registered_ok (r_nd rL) = true) /\
  (c_i (r_im rL) = ITrue -> c_i (r_im r) = ITrue \/ node_initialized_ok k (r_nd rL) = true) /\
  (c_l (r_im r) = LTrue -> c_l (r_im rL) = LTrue) /\
  (c_r (r_im r) = RTrue -> c_r (r_im rL) = RTrue) /\
  (c_i (r_im r) = ITrue -> c_i (r_im rL) = ITrue) /\
  c_l (r_im rL) = c_l (r_im (launch k pl r)) /\ c_pid (r_im rL) = c_pid (r_im (launch k pl r)).
Proof.
  unfold subs. set (r1 := launch k pl r). set (r2 := registration k pl r1). set (r3 := initialization k pl r2).
  destruct (liveness_keeps k pl r3) as [Li Ln]. rewrite Li, Ln.
  destruct (launch_keeps_ri k pl r) as [Kr Ki]. fold r1 in Kr, Ki.
  destruct (registration_quiet k pl r1) as [_ _ _ _ _ _ Ql2 _ _ Qp2 _]. fold r2 in Ql2, Qp2.
  destruct (initialization_quiet k pl r2) as [_ _ _ _ _ _ Ql3 _ _ Qp3 _]. fold r3 in Ql3, Qp3.
  pose proof (initialization_keeps_r k pl r2) as Ir. fold r3 in Ir.
  pose proof (registration_keeps_i k pl r1) as Ri. fold r2 in Ri.
  destruct (launch_cache k pl r) as (L1 & L2 & L3). fold r1 in L1, L2, L3.
  repeat split.
  - rewrite Ql3, Ql2. intros H.
    destruct (lcond_eqb (c_l (r_im r)) LTrue) eqn:E; [left; apply lcond_eqb_eq; exact E|].
    assert (Nl : c_l (r_im r) <> LTrue) by (intros X; apply lcond_eqb_eq in X; congruence).
    right. destruct (cache_hit k r) as [p|] eqn:Eh.
    + left. unfold cache_hit in Eh. destruct (r_ch r); [discriminate|discriminate].
    + destruct (L3 Nl eq_refl) as [(Em & _)|(_ & _ & Hc & _)]; [right; exact Em|congruence].
  - rewrite Ir. intros H.
    destruct (rcond_eqb (c_r (r_im r1)) RTrue) eqn:E; [left; apply Kr, rcond_eqb_eq; exact E|].
    assert (N : c_r (r_im r1) <> RTrue) by (intros X; apply rcond_eqb_eq in X; congruence).
    right. apply initialization_keeps_node_reg. exact (proj1 (registration_justified k pl r1 N H)).
  - intros H.
    destruct (icond_eqb (c_i (r_im r2)) ITrue) eqn:E; [left; apply Ki; rewrite <- Ri; apply icond_eqb_eq; exact E|].
    assert (N : c_i (r_im r2) <> ITrue) by (intros X; apply icond_eqb_eq in X; congruence).
    right. exact (proj1 (initialization_justified k pl r2 N H)).
  - intros H. rewrite Ql3, Ql2. exact (proj1 (proj2 (proj2 (L1 H)))).
  - intros H. apply Kr in H. rewrite Ir. unfold r2. rewrite (registration_keeps_true k pl r1 H). exact H.
  - intros H. apply Ki in H. rewrite <- Ri in H. unfold r3. rewrite (initialization_keeps_true k pl r2 H). exact H.
  - rewrite Ql3, Ql2. reflexivity.
  - rewrite Qp3, Qp2. reflexivity.
Qed.

Lemma subs_unfold k pl r : subs k pl r = liveness k pl (initialization k pl (registration k pl (launch k pl r))).
Proof. reflexivity. Qed.

Opaque launch registration initialization liveness finish subs.

(* ---------------------------------------------------------------- the stored object after a reconcile *)

Definition st4 (c : claim) := (c_l c, c_r c, c_i c, c_pid c).

Lemma del_claim_some4 p c : del_claim p = Some c ->
  exists c0, p = Some c0 /\ st4 c = st4 c0 /\ c_del c = true /\ c_fin c = c_fin c0.
Proof.
  destruct p as [c0|]; simpl; [|discriminate]. destruct (c_fin c0 || c_ffin c0)%bool eqn:E; [|discriminate].
  intros H. injection H as <-. exists c0. repeat split.
Qed.

Lemma pc_rel_some4 p p' c : pc_rel p p' -> p' = Some c ->
  exists c0, p = Some c0 /\ st4 c = st4 c0 /\ (c_del c0 = true -> c_del c = true) /\ c_fin c = c_fin c0.
Proof.
  intros [->| ->] H.
  - exists c. repeat split; auto.
  - apply del_claim_some4 in H. destruct H as (c0 & -> & Hs & Hd & Hf). exists c0. repeat split; auto.
Qed.

Lemma main_path_full k pl s r s' e q : main_path k pl s r = (s', (e, q)) ->
  nd s' = r_nd (subs k pl r) /\
  (r_pc r = None -> pc s' = None) /\
  (forall p', pc s' = Some p' -> exists p pX, r_pc r = Some p /\ st4 pX = st4 p /\
       (c_del p = true -> c_del pX = true) /\ c_fin pX = c_fin p /\
       (p' = pX \/ p' = merge pX (r_im r) (r_im (subs k pl r)))).
Proof.
  intros H. unfold main_path in H. destruct (finish pl (r_im r) (subs k pl r)) as [r' q'] eqn:F.
  injection H as Hs _ _. rewrite <- Hs. clear Hs. simpl.
  apply finish_spec in F. destruct F as (_ & _ & Fnd & _ & Hpc).
  rewrite subs_unfold in *.
  destruct (after_launch_quiet k pl (launch k pl r)) as [_ _ _ _ _ Hrel _ _ _ _ _].
  set (rL := liveness k pl (initialization k pl (registration k pl (launch k pl r)))) in *.
  assert (HX : forall c, r_pc rL = Some c -> exists c0, r_pc r = Some c0 /\ st4 c = st4 c0 /\
                 (c_del c0 = true -> c_del c = true) /\ c_fin c = c_fin c0).
  { intros c Hc. destruct (pc_rel_some4 _ _ c Hrel Hc) as (c1 & H1 & Hs1 & Hd1 & Hf1).
    rewrite launch_pc in H1. destruct (deleted_by_launch k pl r).
    - apply del_claim_some4 in H1. destruct H1 as (c0 & -> & Hs0 & Hd0 & Hf0). exists c0. repeat split; try congruence. auto.
    - exists c1. repeat split; auto. }
  split; [exact Fnd|]. split.
  - intros Hn. destruct Hpc as [Hpc|(p & Hp & Hpc)]; rewrite Hpc.
    + destruct (r_pc rL) as [c|] eqn:Ec; [|reflexivity]. destruct (HX c eq_refl) as (c0 & H0 & _). congruence.
    + destruct (HX p Hp) as (c0 & H0 & _). congruence.
  - intros p' Hp'. destruct Hpc as [Hpc|(p & Hp & Hpc)]; rewrite Hpc in Hp'.
    + destruct (HX p' Hp') as (c0 & H0 & Hs & Hd & Hf). exists c0, p'. repeat split; auto.
    + injection Hp' as <-. destruct (HX p Hp) as (c0 & H0 & Hs & Hd & Hf). exists c0, p. repeat split; auto.
Qed.

Lemma conds_eqb_true a b : conds_eqb a b = true -> c_l a = c_l b /\ c_r a = c_r b /\ c_i a = c_i b.
Proof.
  unfold conds_eqb. rewrite !Bool.andb_true_iff. intros [[[[H1 H2] H3] _] _].
  apply lcond_eqb_eq in H1. apply rcond_eqb_eq in H2. apply icond_eqb_eq in H3. auto.
Qed.

Lemma onat_eqb_true a b : onat_eqb a b = true -> a = b.
Proof. destruct a, b; simpl; try discriminate; auto. intros H. apply Nat.eqb_eq in H. congruence. Qed.

Lemma merge_st4 p st im :
  (c_l (merge p st im), c_r (merge p st im), c_i (merge p st im)) =
    (if conds_eqb st im then (c_l p, c_r p, c_i p) else (c_l im, c_r im, c_i im)) /\
  c_pid (merge p st im) = (if onat_eqb (c_pid st) (c_pid im) then c_pid p else c_pid im).
Proof. unfold merge. destruct (conds_eqb st im), (onat_eqb (c_pid st) (c_pid im)), (Bool.eqb (c_nn st) (c_nn im)); simpl; split; reflexivity. Qed.

(* each condition of the stored object afterwards is the stored one from before or the computed one *)
Lemma main_path_conds k pl s r s' e q p' : main_path k pl s r = (s', (e, q)) -> pc s' = Some p' ->
  exists p, r_pc r = Some p /\
    (c_l p' = c_l p \/ c_l p' = c_l (r_im (subs k pl r))) /\
    (c_r p' = c_r p \/ c_r p' = c_r (r_im (subs k pl r))) /\
    (c_i p' = c_i p \/ c_i p' = c_i (r_im (subs k pl r))).
Proof.
  intros H Hp'. destruct (main_path_full _ _ _ _ _ _ _ H) as (_ & _ & Hf).
  destruct (Hf p' Hp') as (p & pX & Hp & Hs & _ & _ & [->| ->]); exists p; split; try exact Hp.
  - unfold st4 in Hs. injection Hs as H1 H2 H3 _. auto.
  - unfold st4 in Hs. injection Hs as H1 H2 H3 _.
    destruct (merge_st4 pX (r_im r) (r_im (subs k pl r))) as [M _].
    destruct (conds_eqb (r_im r) (r_im (subs k pl r))); injection M as -> -> ->; auto.
Qed.

(* ---------------------------------------------------------------- finalize, in full *)

Definition cnd (c : claim) := (c_l c, c_r c, c_i c).

Definition pc_sum4 (v : claim) (p0 p1 : option claim) : Prop :=
  p1 = None \/
  exists p p', p0 = Some p /\ p1 = Some p' /\ c_pid p' = c_pid p /\ (c_del p = true -> c_del p' = true) /\
               (cnd p' = cnd p \/ cnd p' = cnd (norm v)).

Lemma pc_sum4_refl v p : pc_sum4 v p p.
Proof. destruct p as [c|]; [right; exists c, c; repeat split; auto|left; reflexivity]. Qed.

Lemma unfinalize_sum4 v pl s r s' e q : unfinalize pl s r = (s', (e, q)) ->
  made s' = r_made r /\ ch s' = r_ch r /\ vw s' = vw s /\ pc_sum4 v (r_pc r) (pc s').
Proof.
  unfold unfinalize. intros H.
  destruct (eff_wr (r_pc r) (f_unfin pl)); injection H as <- _ _; simpl;
    (split; [reflexivity|split; [reflexivity|split; [reflexivity|]]]); try apply pc_sum4_refl.
  destruct (r_pc r) as [p|]; [|left; reflexivity].
  destruct (c_del p && negb (c_ffin p))%bool eqn:D; [left; reflexivity|].
  right. exists p, (cl_fin p false). repeat split; simpl; auto; try congruence.
Qed.

Lemma finalize_full k pl s v s' e q : finalize k pl s v = (s', (e, q)) ->
  made s' = made s /\ ch s' = ch s /\ vw s' = vw s /\ pc_sum4 v (pc s) (pc s').
Proof.
  unfold finalize. intros H.
  destruct (negb (c_fin v)).
  { injection H as <- _ _. repeat split; try reflexivity. apply pc_sum4_refl. }
  destruct (match c_r v, c_pid v with RTrue, Some _ => f_list_fin pl | _, _ => false end).
  { injection H as <- _ _. repeat split; try reflexivity. apply pc_sum4_refl. }
  set (r := init_rs s (norm v)) in *.
  assert (Base : forall r1, r_made r1 = made s -> r_ch r1 = ch s -> r_pc r1 = pc s -> forall e1 q1,
            (state_of r1 s, (e1, q1)) = (s', (e, q)) ->
            made s' = made s /\ ch s' = ch s /\ vw s' = vw s /\ pc_sum4 v (pc s) (pc s')).
  { intros r1 H1 H2 H3 e1 q1 E. injection E as <- _ _. simpl. rewrite H1, H2, H3.
    repeat split; try reflexivity. apply pc_sum4_refl. }
  assert (Unf : forall r1, r_made r1 = made s -> r_ch r1 = ch s -> pc_sum4 v (pc s) (r_pc r1) ->
            unfinalize pl s r1 = (s', (e, q)) ->
            made s' = made s /\ ch s' = ch s /\ vw s' = vw s /\ pc_sum4 v (pc s) (pc s')).
  { intros r1 H1 H2 H3 E. apply (unfinalize_sum4 v) in E. destruct E as (E1 & E2 & E3 & E4).
    rewrite E1, E2, H1, H2. repeat split; try reflexivity; try exact E3.
    destruct E4 as [E4|(p & p' & Ep & Ep' & Epid & Ed & Ec)]; [left; exact E4|].
    destruct H3 as [H3|(p0 & p1 & Hp0 & Hp1 & Hpid & Hd & Hc)]; [congruence|].
    rewrite Hp1 in Ep. injection Ep as <-.
    right. exists p0, p'. repeat split; auto; try congruence.
    destruct Ec as [Ec|Ec]; [rewrite Ec; exact Hc|right; exact Ec]. }
  assert (PS : pc_sum4 v (pc s) (option_map (fun p0 => cl_conds p0 (cl_term (norm v) true)) (pc s))).
  { destruct (pc s) as [c|]; simpl; [|left; reflexivity]. right. eexists; eexists. split; [reflexivity|split; [reflexivity|]].
    split; [reflexivity|split; [auto|right; reflexivity]]. }
  destruct (match c_r v with RTrue => match_count r | _ => 0%nat end) as [|n0].
  - destruct (c_pid v) as [p|]; [|apply (Unf r); try reflexivity; [apply pc_sum4_refl|exact H]].
    destruct (f_pdel_err pl); [eapply Base; [| | |exact H]; reflexivity|].
    cbv zeta in H.
    destruct (c_term (r_im (add_eff (set_made r (r_made r) (remove_nat p (r_alive r))) (EPDel (if mem_nat p (r_alive r) then DDeleted else DNotFound))))) eqn:Et.
    + destruct (mem_nat p (r_alive r)); [eapply Base; [| | |exact H]; reflexivity|].
      apply (Unf _) in H; [exact H|reflexivity|reflexivity|apply pc_sum4_refl].
    + destruct (eff_wr _ (f_term pl)) eqn:Ew; try (eapply Base; [| | |exact H]; reflexivity).
      destruct (mem_nat p (r_alive r)).
      * injection H as <- _ _. simpl. repeat split; try reflexivity. exact PS.
      * apply (Unf _) in H; [exact H|reflexivity|reflexivity|exact PS].
  - destruct (r_nd r) as [nn|] eqn:En.
    + destruct (negb (n_del nn) && f_ndel_err pl); [eapply Base; [| | |exact H]; reflexivity|].
      eapply Base; [| | |exact H]; repeat bm; reflexivity.
    + destruct (c_pid v) as [p|]; [|apply (Unf r); try reflexivity; [apply pc_sum4_refl|exact H]].
      destruct (f_pdel_err pl); [eapply Base; [| | |exact H]; reflexivity|].
      cbv zeta in H.
      destruct (c_term (r_im (add_eff (set_made r (r_made r) (remove_nat p (r_alive r))) (EPDel (if mem_nat p (r_alive r) then DDeleted else DNotFound))))) eqn:Et.
      * destruct (mem_nat p (r_alive r)); [eapply Base; [| | |exact H]; reflexivity|].
        apply (Unf _) in H; [exact H|reflexivity|reflexivity|apply pc_sum4_refl].
      * destruct (eff_wr _ (f_term pl)) eqn:Ew; try (eapply Base; [| | |exact H]; reflexivity).
        destruct (mem_nat p (r_alive r)).
        -- injection H as <- _ _. simpl. repeat split; try reflexivity. exact PS.
        -- apply (Unf _) in H; [exact H|reflexivity|reflexivity|exact PS].
Qed.

(* ---------------------------------------------------------------- justification, all histories *)

Lemma l_true_some c : l_true (Some c) = true <-> c_l c = LTrue.
Proof. simpl. apply lcond_eqb_eq. Qed.
Lemma r_true_some c : r_true (Some c) = true <-> c_r c = RTrue.
Proof. simpl. apply rcond_eqb_eq. Qed.
Lemma i_true_some c : i_true (Some c) = true <-> c_i c = ITrue.
Proof. simpl. apply icond_eqb_eq. Qed.

Record invU (s : state) : Prop := mkInvU {
  u_m : (l_true (pc s) = true \/ l_true (vw s) = true \/ ch s <> None) -> (1 <= made s)%nat;
  u_l : l_true (vw s) = true -> pc s = None \/ l_true (pc s) = true;
  u_r : r_true (vw s) = true -> pc s = None \/ r_true (pc s) = true;
  u_i : i_true (vw s) = true -> pc s = None \/ i_true (pc s) = true }.

Lemma invU_init : invU init.
Proof. constructor; simpl; try discriminate. intros [H|[H|H]]; try discriminate. congruence. Qed.

Lemma invU_ext s s' : pc s' = pc s -> vw s' = vw s -> ch s' = ch s -> made s' = made s -> invU s -> invU s'.
Proof. intros E1 E2 E3 E4 [A B C D]. constructor; rewrite ?E1, ?E2, ?E3, ?E4; assumption. Qed.

Lemma justified_noturn k n o pre e q post nd0 :
  (l_true post = true -> l_true pre = true) -> (r_true post = true -> r_true pre = true) ->
  (i_true post = true -> i_true pre = true) -> justified k n (mkFrame o pre e q post nd0).
Proof.
  intros A B C. unfold justified; simpl. repeat split; intros H1 H2.
  - rewrite (A H2) in H1. discriminate.
  - rewrite (B H2) in H1. discriminate.
  - rewrite (C H2) in H1. discriminate.
Qed.

Lemma launch_ch k pl r : r_ch (launch k pl r) <> None -> r_ch r <> None \/ r_made (launch k pl r) = S (r_made r).
Proof.
  intros H. destruct (launch_cache k pl r) as (L1 & L2 & L3).
  destruct (lcond_eqb (c_l (r_im r)) LTrue) eqn:E.
  - apply lcond_eqb_eq in E. destruct (L1 E) as (_ & Ec & _). congruence.
  - assert (Nl : c_l (r_im r) <> LTrue) by (intros X; apply lcond_eqb_eq in X; congruence).
    destruct (cache_hit k r) as [p|] eqn:Eh.
    + left. unfold cache_hit in Eh. destruct (r_ch r); discriminate.
    + destruct (L3 Nl eq_refl) as [(Em & _)|(_ & Ec & _)]; [right; exact Em|left; congruence].
Qed.

Lemma main_path_U k pl s r s' e q v : main_path k pl s r = (s', (e, q)) -> invU s ->
  vw s = Some v -> r_ch r = ch s -> r_made r = made s ->
  (forall p, r_pc r = Some p -> exists p0, pc s = Some p0 /\ cnd p = cnd p0) ->
  (cnd (r_im r) = cnd v \/ exists p0, pc s = Some p0 /\ cnd (r_im r) = cnd p0) ->
  made s' = (made s + creates e)%nat ->
  invU s' /\ justified k (made s) (mkFrame (Rec pl) (pc s) e q (pc s') (nd s')).
Proof.
  intros H Inv Hv H1 H2 Hpc Him Hc.
  pose proof (main_path_sum _ _ _ _ _ _ _ H) as (Sm & Sc & Sv & _ & _).
  pose proof (main_path_full _ _ _ _ _ _ _ H) as (Fnd & _ & _).
  pose proof (fun p' => main_path_conds _ _ _ _ _ _ _ p' H) as Fc.
  destruct (subs_just k pl r) as (J1 & J2 & J3 & J4 & J5 & J6 & _).
  set (imL := r_im (subs k pl r)) in *.
  assert (Mle : (made s <= made s')%nat) by lia.
  (* the object read: its True conditions are True in the stored object as well *)
  assert (ImL : c_l (r_im r) = LTrue -> (1 <= made s)%nat).
  { intros X. apply (u_m _ Inv). destruct Him as [Hi|(p0 & Hp0 & Hi)]; unfold cnd in Hi; injection Hi as E1 E2 E3.
    - right. left. rewrite Hv. apply l_true_some. congruence.
    - left. rewrite Hp0. apply l_true_some. congruence. }
  assert (ImR : c_r (r_im r) = RTrue -> forall p0, pc s = Some p0 -> c_r p0 = RTrue).
  { intros X p0 Hp0. destruct Him as [Hi|(p1 & Hp1 & Hi)]; unfold cnd in Hi; injection Hi as E1 E2 E3.
    - destruct (u_r _ Inv) as [C|C]; [rewrite Hv; apply r_true_some; congruence|congruence|].
      rewrite Hp0 in C. apply r_true_some in C. exact C.
    - congruence. }
  assert (ImI : c_i (r_im r) = ITrue -> forall p0, pc s = Some p0 -> c_i p0 = ITrue).
  { intros X p0 Hp0. destruct Him as [Hi|(p1 & Hp1 & Hi)]; unfold cnd in Hi; injection Hi as E1 E2 E3.
    - destruct (u_i _ Inv) as [C|C]; [rewrite Hv; apply i_true_some; congruence|congruence|].
      rewrite Hp0 in C. apply i_true_some in C. exact C.
    - congruence. }
  assert (ImLs : c_l (r_im r) = LTrue -> forall p0, pc s = Some p0 -> c_l p0 = LTrue).
  { intros X p0 Hp0. destruct Him as [Hi|(p1 & Hp1 & Hi)]; unfold cnd in Hi; injection Hi as E1 E2 E3.
    - destruct (u_l _ Inv) as [C|C]; [rewrite Hv; apply l_true_some; congruence|congruence|].
      rewrite Hp0 in C. apply l_true_some in C. exact C.
    - congruence. }
  assert (Fl : forall p', pc s' = Some p' -> c_l p' = LTrue -> (1 <= made s')%nat).
  { intros p' Hp' Hl. destruct (Fc p' Hp') as (p & Hp & [El|El] & _).
    - destruct (Hpc p Hp) as (p0 & Hp0 & Ec). unfold cnd in Ec. injection Ec as E1 _ _.
      assert (1 <= made s)%nat; [|lia]. apply (u_m _ Inv). left. rewrite Hp0. apply l_true_some. congruence.
    - rewrite El in Hl. destruct (J1 Hl) as [X|[X|X]].
      + specialize (ImL X). lia.
      + assert (1 <= made s)%nat; [|lia]. apply (u_m _ Inv). right. right. congruence.
      + rewrite Sm, X. lia. }
  split.
  - constructor.
    + intros [X|[X|X]].
      * destruct (pc s') as [p'|] eqn:Ep; [|discriminate]. apply (Fl p' eq_refl). apply l_true_some. exact X.
      * rewrite Sv in X. pose proof (u_m _ Inv (or_intror (or_introl X))). lia.
      * rewrite Sc in X. destruct (launch_ch k pl r X) as [Y|Y].
        -- assert (1 <= made s)%nat; [|lia]. apply (u_m _ Inv). right. right. congruence.
        -- rewrite Sm, Y. lia.
    + rewrite Sv. intros X. destruct (pc s') as [p'|] eqn:Ep; [right|left; reflexivity].
      apply l_true_some. destruct (Fc p' eq_refl) as (p & Hp & [El|El] & _).
      * destruct (Hpc p Hp) as (p0 & Hp0 & Ec). unfold cnd in Ec. injection Ec as E1 _ _.
        destruct (u_l _ Inv X) as [C|C]; [congruence|]. rewrite Hp0 in C. apply l_true_some in C. congruence.
      * rewrite El. apply J4. rewrite Hv in X. apply l_true_some in X.
        destruct Him as [Hi|(p0 & Hp0 & Hi)]; unfold cnd in Hi; injection Hi as E1 E2 E3; [congruence|].
        destruct (u_l _ Inv) as [C|C]; [rewrite Hv; apply l_true_some; exact X|congruence|].
        rewrite Hp0 in C. apply l_true_some in C. congruence.
    + rewrite Sv. intros X. destruct (pc s') as [p'|] eqn:Ep; [right|left; reflexivity].
      apply r_true_some. destruct (Fc p' eq_refl) as (p & Hp & _ & [El|El] & _).
      * destruct (Hpc p Hp) as (p0 & Hp0 & Ec). unfold cnd in Ec. injection Ec as _ E1 _.
        destruct (u_r _ Inv X) as [C|C]; [congruence|]. rewrite Hp0 in C. apply r_true_some in C. congruence.
      * rewrite El. apply J5. rewrite Hv in X. apply r_true_some in X.
        destruct Him as [Hi|(p0 & Hp0 & Hi)]; unfold cnd in Hi; injection Hi as E1 E2 E3; [congruence|].
        destruct (u_r _ Inv) as [C|C]; [rewrite Hv; apply r_true_some; exact X|congruence|].
        rewrite Hp0 in C. apply r_true_some in C. congruence.
    + rewrite Sv. intros X. destruct (pc s') as [p'|] eqn:Ep; [right|left; reflexivity].
      apply i_true_some. destruct (Fc p' eq_refl) as (p & Hp & _ & _ & [El|El]).
      * destruct (Hpc p Hp) as (p0 & Hp0 & Ec). unfold cnd in Ec. injection Ec as _ _ E1.
        destruct (u_i _ Inv X) as [C|C]; [congruence|]. rewrite Hp0 in C. apply i_true_some in C. congruence.
      * rewrite El. apply J6. rewrite Hv in X. apply i_true_some in X.
        destruct Him as [Hi|(p0 & Hp0 & Hi)]; unfold cnd in Hi; injection Hi as E1 E2 E3; [congruence|].
        destruct (u_i _ Inv) as [C|C]; [rewrite Hv; apply i_true_some; exact X|congruence|].
        rewrite Hp0 in C. apply i_true_some in C. congruence.
  - unfold justified; simpl. repeat split; intros Pre Post.
    + destruct (pc s') as [p'|] eqn:Ep; [|discriminate]. apply l_true_some in Post.
      rewrite <- Hc. exact (Fl p' eq_refl Post).
    + destruct (pc s') as [p'|] eqn:Ep; [|discriminate]. apply r_true_some in Post.
      destruct (Fc p' eq_refl) as (p & Hp & _ & [El|El] & _); destruct (Hpc p Hp) as (p0 & Hp0 & Ec);
        unfold cnd in Ec; injection Ec as _ E1 _.
      * rewrite Hp0 in Pre. simpl in Pre. assert (c_r p0 = RTrue) by congruence.
        apply rcond_eqb_eq in H0. congruence.
      * rewrite El in Post. destruct (J2 Post) as [X|X].
        -- specialize (ImR X p0 Hp0). rewrite Hp0 in Pre. simpl in Pre. apply rcond_eqb_eq in ImR. congruence.
        -- rewrite Fnd. exact X.
    + destruct (pc s') as [p'|] eqn:Ep; [|discriminate]. apply i_true_some in Post.
      destruct (Fc p' eq_refl) as (p & Hp & _ & _ & [El|El]); destruct (Hpc p Hp) as (p0 & Hp0 & Ec);
        unfold cnd in Ec; injection Ec as _ _ E1.
      * rewrite Hp0 in Pre. simpl in Pre. assert (c_i p0 = ITrue) by congruence.
        apply icond_eqb_eq in H0. congruence.
      * rewrite El in Post. destruct (J3 Post) as [X|X].
        -- specialize (ImI X p0 Hp0). rewrite Hp0 in Pre. simpl in Pre. apply icond_eqb_eq in ImI. congruence.
        -- rewrite Fnd. exact X.
Qed.

Lemma norm_cnd_true v :
  (c_l (norm v) = LTrue <-> c_l v = LTrue) /\ (c_r (norm v) = RTrue <-> c_r v = RTrue) /\ (c_i (norm v) = ITrue <-> c_i v = ITrue).
Proof. unfold norm; simpl. destruct (c_l v), (c_r v), (c_i v); repeat split; intros H; try discriminate; reflexivity. Qed.

Lemma reconcile_U k pl s s' e q : reconcile k pl s = (s', (e, q)) -> invU s ->
  invU s' /\ justified k (made s) (mkFrame (Rec pl) (pc s) e q (pc s') (nd s')).
Proof.
  intros H Inv. pose proof (reconcile_creates _ _ _ _ _ _ H) as Hc.
  unfold reconcile in H.
  assert (Same : forall s1, pc s1 = pc s -> vw s1 = vw s -> ch s1 = ch s -> made s1 = made s -> forall e1 q1,
            invU s1 /\ justified k (made s) (mkFrame (Rec pl) (pc s) e1 q1 (pc s1) (nd s1))).
  { intros s1 E1 E2 E3 E4 e1 q1. split; [eapply invU_ext; eassumption|]. rewrite E1. apply justified_noturn; auto. }
  destruct (vw s) as [v|] eqn:Ev; [|injection H as <- <- <-; apply Same; congruence].
  destruct (negb (k_managed k)); [injection H as <- <- <-; apply Same; congruence|].
  destruct (c_del v) eqn:Ed.
  { apply finalize_full in H. destruct H as (Fm & Fc & Fv & Fp).
    destruct (norm_cnd_true v) as (Nl & Nr & Ni).
    assert (T : (l_true (pc s') = true -> l_true (pc s) = true) /\ (r_true (pc s') = true -> r_true (pc s) = true) /\
                (i_true (pc s') = true -> i_true (pc s) = true)).
    { destruct Fp as [Fp|(p & p' & Hp & Hp' & _ & _ & Hcn)]; [rewrite Fp; simpl; repeat split; discriminate|].
      rewrite Hp, Hp'. destruct Hcn as [Hcn|Hcn]; unfold cnd in Hcn; injection Hcn as E1 E2 E3.
      - simpl. rewrite E1, E2, E3. auto.
      - repeat split; intros X.
        + apply l_true_some in X. rewrite E1 in X. apply Nl in X.
          destruct (u_l _ Inv) as [C|C]; [rewrite Ev; apply l_true_some; exact X|congruence|rewrite Hp in C; exact C].
        + apply r_true_some in X. rewrite E2 in X. apply Nr in X.
          destruct (u_r _ Inv) as [C|C]; [rewrite Ev; apply r_true_some; exact X|congruence|rewrite Hp in C; exact C].
        + apply i_true_some in X. rewrite E3 in X. apply Ni in X.
          destruct (u_i _ Inv) as [C|C]; [rewrite Ev; apply i_true_some; exact X|congruence|rewrite Hp in C; exact C]. }
    destruct T as (Tl & Tr & Ti).
    split; [|apply justified_noturn; assumption].
    constructor.
    - rewrite Fm, Fc, Fv, Ev. intros [X|[X|X]]; apply (u_m _ Inv); [left; apply Tl, X|right; left; rewrite Ev; exact X|right; right; exact X].
    - rewrite Fv, Ev. intros X. destruct Fp as [Fp|(p & p' & Hp & Hp' & _ & _ & Hcn)]; [left; exact Fp|right].
      rewrite Hp'. apply l_true_some. destruct (u_l _ Inv) as [C|C]; [rewrite Ev; exact X|congruence|].
      rewrite Hp in C. apply l_true_some in C. rewrite ?Ev in X. apply l_true_some in X.
      destruct Hcn as [Hcn|Hcn]; unfold cnd in Hcn; injection Hcn as E1 E2 E3; [congruence|rewrite E1; apply Nl; exact X].
    - rewrite Fv, Ev. intros X. destruct Fp as [Fp|(p & p' & Hp & Hp' & _ & _ & Hcn)]; [left; exact Fp|right].
      rewrite Hp'. apply r_true_some. destruct (u_r _ Inv) as [C|C]; [rewrite Ev; exact X|congruence|].
      rewrite Hp in C. apply r_true_some in C. rewrite ?Ev in X. apply r_true_some in X.
      destruct Hcn as [Hcn|Hcn]; unfold cnd in Hcn; injection Hcn as E1 E2 E3; [congruence|rewrite E2; apply Nr; exact X].
    - rewrite Fv, Ev. intros X. destruct Fp as [Fp|(p & p' & Hp & Hp' & _ & _ & Hcn)]; [left; exact Fp|right].
      rewrite Hp'. apply i_true_some. destruct (u_i _ Inv) as [C|C]; [rewrite Ev; exact X|congruence|].
      rewrite Hp in C. apply i_true_some in C. rewrite ?Ev in X. apply i_true_some in X.
      destruct Hcn as [Hcn|Hcn]; unfold cnd in Hcn; injection Hcn as E1 E2 E3; [congruence|rewrite E3; apply Ni; exact X]. }
  destruct (c_fin v) eqn:Efin.
  - eapply main_path_U; try eassumption; try reflexivity; simpl.
    + intros p Hp. exists p. split; [exact Hp|reflexivity].
    + left. reflexivity.
  - simpl in H. destruct (eff_wr (pc s) (f_fin pl)) eqn:Ew.
    + destruct (pc s) as [p|] eqn:Ep; [|exfalso; unfold eff_wr in Ew; destruct (f_fin pl); discriminate].
      rewrite <- Ep. eapply main_path_U; try eassumption; try reflexivity; simpl.
      * intros p1 Hp1. injection Hp1 as <-. exists p. split; [exact Ep|reflexivity].
      * right. exists p. split; [exact Ep|reflexivity].
    + injection H as <- <- <-. apply Same; simpl; congruence.
    + destruct (pc s) eqn:Ep; injection H as <- <- <-; apply Same; simpl; congruence.
    + injection H as <- <- <-. apply Same; simpl; congruence.
Qed.

Lemma true_del_claim p :
  (l_true (del_claim p) = true -> l_true p = true) /\ (r_true (del_claim p) = true -> r_true p = true) /\
  (i_true (del_claim p) = true -> i_true p = true).
Proof. destruct p as [c|]; simpl; [destruct (c_fin c || c_ffin c)%bool; simpl|]; repeat split; intros; try discriminate; auto. Qed.

Lemma step_U k s o s' e q : step k s o = (s', (e, q)) -> invU s ->
  invU s' /\ justified k (made s) (mkFrame o (pc s) e q (pc s') (nd s')).
Proof.
  intros H Inv.
  destruct o; try (simpl in H; eapply reconcile_U; eassumption); simpl in H; injection H as <- <- <-.
  - (* Sync *) split; [|apply justified_noturn; auto]. constructor; simpl; auto.
    intros [X|[X|X]]; apply (u_m _ Inv); auto.
  - split; [eapply invU_ext; [| | | |exact Inv]; reflexivity|apply justified_noturn; auto].
  - (* EnvDelete *) destruct (true_del_claim (pc s)) as (Tl & Tr & Ti).
    split; [|apply justified_noturn; assumption]. constructor; simpl.
    + intros [X|[X|X]]; apply (u_m _ Inv); auto.
    + intros X. destruct (u_l _ Inv X) as [C|C]; [left; rewrite C; reflexivity|].
      destruct (pc s) as [c|]; [|left; reflexivity]. simpl in *. destruct (c_fin c || c_ffin c)%bool; [right; exact C|left; reflexivity].
    + intros X. destruct (u_r _ Inv X) as [C|C]; [left; rewrite C; reflexivity|].
      destruct (pc s) as [c|]; [|left; reflexivity]. simpl in *. destruct (c_fin c || c_ffin c)%bool; [right; exact C|left; reflexivity].
    + intros X. destruct (u_i _ Inv X) as [C|C]; [left; rewrite C; reflexivity|].
      destruct (pc s) as [c|]; [|left; reflexivity]. simpl in *. destruct (c_fin c || c_ffin c)%bool; [right; exact C|left; reflexivity].
  - (* Restart *) split; [|apply justified_noturn; auto]. constructor; simpl; auto.
    intros [X|[X|X]]; [apply (u_m _ Inv); auto|apply (u_m _ Inv); auto|congruence].
  - destruct (made s) eqn:Em; [split; [exact Inv|apply justified_noturn; auto]|].
    destruct (nd s); (split; [eapply invU_ext; [| | | |exact Inv]; simpl; congruence|apply justified_noturn; auto]).
  - split; [eapply invU_ext; [| | | |exact Inv]; reflexivity|apply justified_noturn; auto].
  - split; [eapply invU_ext; [| | | |exact Inv]; reflexivity|apply justified_noturn; auto].
  - split; [eapply invU_ext; [| | | |exact Inv]; reflexivity|apply justified_noturn; auto].
  - split; [eapply invU_ext; [| | | |exact Inv]; reflexivity|apply justified_noturn; auto].
  - destruct (nd s); (split; [eapply invU_ext; [| | | |exact Inv]; reflexivity|apply justified_noturn; auto]).
  - split; [eapply invU_ext; [| | | |exact Inv]; reflexivity|apply justified_noturn; auto].
  - destruct (dp s); (split; [eapply invU_ext; [| | | |exact Inv]; reflexivity|apply justified_noturn; auto]).
  - (* ForeignFin *)
    assert (T : (l_true (set_ffin (pc s) b) = true -> l_true (pc s) = true) /\ (r_true (set_ffin (pc s) b) = true -> r_true (pc s) = true) /\
                (i_true (set_ffin (pc s) b) = true -> i_true (pc s) = true)).
    { destruct (set_ffin_cases (pc s) b) as [E|(c & Hc & E)]; rewrite E; [repeat split; discriminate|]. rewrite Hc. simpl. auto. }
    destruct T as (Tl & Tr & Ti).
    split; [|apply justified_noturn; assumption]. constructor; simpl.
    + intros [X|[X|X]]; apply (u_m _ Inv); auto.
    + intros X. destruct (set_ffin_cases (pc s) b) as [E|(c & Hc & E)]; rewrite E; [left; reflexivity|right].
      destruct (u_l _ Inv X) as [C|C]; [congruence|]. rewrite Hc in C. exact C.
    + intros X. destruct (set_ffin_cases (pc s) b) as [E|(c & Hc & E)]; rewrite E; [left; reflexivity|right].
      destruct (u_r _ Inv X) as [C|C]; [congruence|]. rewrite Hc in C. exact C.
    + intros X. destruct (set_ffin_cases (pc s) b) as [E|(c & Hc & E)]; rewrite E; [left; reflexivity|right].
      destruct (u_i _ Inv X) as [C|C]; [congruence|]. rewrite Hc in C. exact C.
Qed.

Lemma run_justified k ops : forall s, invU s -> all_justified k (made s) (fst (run k s ops)).
Proof.
  induction ops as [|o ops IH]; intros s Inv; simpl; [exact I|].
  destruct (step k s o) as [s' [e q]] eqn:E. destruct (step_U _ _ _ _ _ _ E Inv) as [Inv' J].
  specialize (IH s' Inv'). destruct (run k s' ops) as [fs sf]. simpl in *.
  split; [exact J|]. rewrite <- (step_creates _ _ _ _ _ _ E). exact IH.
Qed.

(* Every condition of the stored NodeClaim that turns True during any frame of any history has its
   observable precondition in that frame: unconditional (faults, stale reads and the status writes
   computed from them, restarts, cache expiry). *)
Lemma conditions_justified_l k ops : all_justified k 0 (trace k ops).
Proof. unfold trace. apply (run_justified k ops init invU_init). Qed.

(* ---------------------------------------------------------------- order, while the cache does not expire *)

Definition linked_opt (p : option claim) : Prop := match p with Some c => linked c | None => True end.

Lemma ordered_cnd a b : cnd a = cnd b -> ordered b -> ordered a.
Proof. unfold cnd, ordered. intros H. injection H as -> -> ->. auto. Qed.

Lemma linked_l_pid a b : c_l a = c_l b -> c_pid a = c_pid b -> linked b -> linked a.
Proof. unfold linked. intros -> ->. auto. Qed.

Lemma ordered_norm v : ordered v -> ordered (norm v).
Proof.
  destruct (norm_cnd_true v) as (Nl & Nr & Ni). unfold ordered. intros [A B]. split; intros H.
  - apply Nl, A, Nr, H.
  - apply Nr, B, Ni, H.
Qed.

Record invO (s : state) : Prop := mkInvO {
  o_pc : ordered_opt (pc s) /\ linked_opt (pc s);
  o_vw : ordered_opt (vw s) /\ linked_opt (vw s);
  o_K : forall p, pc s = Some p -> c_pid p <> None ->
          ch s <> None \/ (forall v, vw s = Some v -> c_del v = false -> c_fin v = true -> c_l v = LTrue);
  o_D : forall v, vw s = Some v -> c_del v = true -> pc s = None \/ exists p, pc s = Some p /\ c_pid p = c_pid v }.

Lemma invO_init : invO init.
Proof.
  constructor; simpl.
  - split; [split; discriminate|intros _; reflexivity].
  - split; [split; discriminate|intros _; reflexivity].
  - intros p H. injection H as <-. simpl. congruence.
  - intros v H. injection H as <-. discriminate.
Qed.

Lemma invO_ext s s' : pc s' = pc s -> vw s' = vw s -> ch s' = ch s -> invO s -> invO s'.
Proof. intros E1 E2 E3 [A B C D]. constructor; rewrite ?E1, ?E2, ?E3; assumption. Qed.

(* what Launch does to the provider id *)
Lemma launch_pid k pl r :
  (c_pid (r_im (launch k pl r)) <> c_pid (r_im r) -> c_l (r_im r) <> LTrue /\ c_l (r_im (launch k pl r)) = LTrue) /\
  (c_l (r_im (launch k pl r)) <> LTrue ->
     c_l (r_im r) <> LTrue /\ cache_hit k r = None /\ c_pid (r_im (launch k pl r)) = c_pid (r_im r) /\
     r_ch (launch k pl r) = r_ch r).
Proof.
  destruct (launch_cache k pl r) as (L1 & L2 & L3).
  destruct (lcond_eqb (c_l (r_im r)) LTrue) eqn:E.
  - apply lcond_eqb_eq in E. destruct (L1 E) as (_ & _ & El & Ep). split; intros H; congruence.
  - assert (Nl : c_l (r_im r) <> LTrue) by (intros X; apply lcond_eqb_eq in X; congruence).
    destruct (cache_hit k r) as [p|] eqn:Eh.
    + destruct (L2 Nl p eq_refl) as (_ & _ & El & _). split; intros H; [split; assumption|congruence].
    + destruct (L3 Nl eq_refl) as [(_ & _ & El & _)|(_ & Ec & El & Ep & _)].
      * split; intros H; [split; assumption|congruence].
      * split; intros H; [congruence|repeat split; assumption].
Qed.

Lemma main_path_O k pl s r s' e q v : main_path k pl s r = (s', (e, q)) -> invO s ->
  vw s = Some v -> c_del v = false -> r_ch r = ch s -> r_now r = now s ->
  (c_l (r_im r) <> LTrue -> entry_fresh k s = true) ->
  (forall p, r_pc r = Some p -> exists p0, pc s = Some p0 /\ st4 p = st4 p0) ->
  ((r_im r = v /\ c_fin v = true) \/ (c_fin v = false /\ exists p0, pc s = Some p0 /\ st4 (r_im r) = st4 p0)) ->
  invO s'.
Proof.
  intros H Inv Hv Hd H1 H3 Hf Hpc Him.
  pose proof (main_path_sum _ _ _ _ _ _ _ H) as (_ & Sc & Sv & _ & _).
  pose proof (main_path_full _ _ _ _ _ _ _ H) as (_ & _ & Ff).
  destruct (subs_just k pl r) as (_ & _ & _ & _ & _ & _ & J7 & J8).
  destruct (launch_pid k pl r) as (P1 & P2).
  set (imL := r_im (subs k pl r)) in *.
  destruct (o_pc _ Inv) as [Opc Lpc]. destruct (o_vw _ Inv) as [Ovw Lvw]. rewrite Hv in Ovw, Lvw. simpl in Ovw, Lvw.
  assert (Oim : ordered (r_im r) /\ linked (r_im r)).
  { destruct Him as [[-> _]|(_ & p0 & Hp0 & Hs)]; [split; assumption|].
    rewrite Hp0 in Opc, Lpc. simpl in Opc, Lpc. unfold st4 in Hs. injection Hs as E1 E2 E3 E4.
    split; [apply (ordered_cnd _ p0); [unfold cnd; congruence|exact Opc]|apply (linked_l_pid _ p0); assumption]. }
  destruct Oim as [Oim Lim].
  assert (OL : ordered imL) by (apply subs_ordered; assumption).
  assert (LL : linked imL).
  { unfold imL. apply (linked_l_pid _ (r_im (launch k pl r))); [exact J7|exact J8|apply launch_linked; exact Lim]. }
  (* a read object that is not Launched, next to a stored provider id, contradicts the cache/finalizer facts *)
  assert (Contra : c_l (r_im r) <> LTrue -> cache_hit k r = None -> forall p0, pc s = Some p0 -> c_pid p0 <> None ->
                   ch s <> None -> False).
  { intros Nl Eh p0 Hp0 Hpid Hch. exact (fresh_hit k r s H1 H3 (Hf Nl) Hch Eh). }
  assert (View : c_l (r_im r) <> LTrue -> forall p0, pc s = Some p0 -> c_pid p0 <> None ->
                 (forall v0, vw s = Some v0 -> c_del v0 = false -> c_fin v0 = true -> c_l v0 = LTrue) -> False).
  { intros Nl p0 Hp0 Hpid Hview. destruct Him as [[E Efin]|(Efin & p1 & Hp1 & Hs)].
    - apply Nl. rewrite E. exact (Hview v Hv Hd Efin).
    - rewrite Hp1 in Hp0. injection Hp0 as ->. rewrite Hp1 in Lpc. simpl in Lpc.
      unfold st4 in Hs. injection Hs as E1 _ _ _. apply Nl. rewrite E1.
      destruct (lcond_eqb (c_l p0) LTrue) eqn:E; [apply lcond_eqb_eq; exact E|].
      exfalso. apply Hpid, Lpc. intros X. apply lcond_eqb_eq in X. congruence. }
  assert (Post : forall p', pc s' = Some p' -> ordered p' /\ linked p').
  { intros p' Hp'. destruct (Ff p' Hp') as (p & pX & Hp & Hs & _ & _ & Hm).
    destruct (Hpc p Hp) as (p0 & Hp0 & Hs0). rewrite Hp0 in Opc, Lpc. simpl in Opc, Lpc.
    assert (HsX : st4 pX = st4 p0) by congruence. unfold st4 in HsX. injection HsX as X1 X2 X3 X4.
    assert (OX : ordered pX) by (apply (ordered_cnd _ p0); [unfold cnd; congruence|exact Opc]).
    assert (LX : linked pX) by (apply (linked_l_pid _ p0); assumption).
    destruct Hm as [->| ->]; [split; assumption|].
    destruct (merge_st4 pX (r_im r) imL) as [M Mp].
    destruct (conds_eqb (r_im r) imL) eqn:Ec; injection M as M1 M2 M3.
    - split; [apply (ordered_cnd _ pX); [unfold cnd; congruence|exact OX]|].
      destruct (onat_eqb (c_pid (r_im r)) (c_pid imL)) eqn:Ep.
      + apply (linked_l_pid _ pX); assumption.
      + exfalso. destruct (conds_eqb_true _ _ Ec) as (Cl & _).
        assert (Np : c_pid (r_im (launch k pl r)) <> c_pid (r_im r)).
        { intros X. rewrite <- J8 in X. fold imL in X. rewrite X in Ep. destruct (c_pid (r_im r)); simpl in Ep; [rewrite Nat.eqb_refl in Ep|]; discriminate. }
        destruct (P1 Np) as [A B]. rewrite <- J7 in B. fold imL in B. congruence.
    - split; [apply (ordered_cnd _ imL); [unfold cnd; congruence|exact OL]|].
      destruct (onat_eqb (c_pid (r_im r)) (c_pid imL)) eqn:Ep.
      + unfold linked. rewrite M1, Mp. intros Nl.
        destruct (c_pid pX) eqn:EpX; [exfalso|reflexivity].
        assert (Nl1 : c_l (r_im (launch k pl r)) <> LTrue) by (rewrite <- J7; exact Nl).
        destruct (P2 Nl1) as (Nl0 & Eh & _ & _).
        assert (Hpid : c_pid p0 <> None) by congruence.
        destruct (o_K _ Inv p0 Hp0 Hpid) as [C|C]; [exact (Contra Nl0 Eh p0 Hp0 Hpid C)|exact (View Nl0 p0 Hp0 Hpid C)].
      + apply (linked_l_pid _ imL); assumption. }
  constructor.
  - destruct (pc s') as [p'|] eqn:Ep; simpl; [apply Post; reflexivity|split; exact I].
  - rewrite Sv, Hv. simpl. split; assumption.
  - intros p' Hp' Hpid. rewrite Sc, Sv.
    destruct (r_ch (launch k pl r)) eqn:Ech; [left; discriminate|right].
    intros v0 Hv0 Hd0 Hfin0. rewrite Hv in Hv0. injection Hv0 as <-.
    destruct (lcond_eqb (c_l (r_im r)) LTrue) eqn:E.
    + apply lcond_eqb_eq in E. destruct Him as [[Ei _]|(Efin & _)]; [congruence|congruence].
    + assert (Nl0 : c_l (r_im r) <> LTrue) by (intros X; apply lcond_eqb_eq in X; congruence).
      exfalso.
      destruct (lcond_eqb (c_l (r_im (launch k pl r))) LTrue) eqn:E1.
      * (* launched in this reconcile: the cache holds the instance *)
        apply lcond_eqb_eq in E1. destruct (launch_cache k pl r) as (_ & L2 & L3).
        destruct (cache_hit k r) as [ph|] eqn:Eh.
        -- destruct (L2 Nl0 ph eq_refl) as (_ & C & _). congruence.
        -- destruct (L3 Nl0 eq_refl) as [(_ & C & _)|(_ & _ & C & _)]; congruence.
      * assert (Nl1 : c_l (r_im (launch k pl r)) <> LTrue) by (intros X; apply lcond_eqb_eq in X; congruence).
        destruct (P2 Nl1) as (_ & Eh & Epid & Ech').
        destruct (Ff p' Hp') as (p & pX & Hp & Hs & _ & _ & Hm).
        destruct (Hpc p Hp) as (p0 & Hp0 & Hs0).
        assert (HsX : st4 pX = st4 p0) by congruence. unfold st4 in HsX. injection HsX as X1 X2 X3 X4.
        assert (Hch : ch s = None) by congruence.
        assert (Hp0pid : c_pid p0 <> None -> False).
        { intros Hq. destruct (o_K _ Inv p0 Hp0 Hq) as [C|C]; [congruence|exact (View Nl0 p0 Hp0 Hq C)]. }
        destruct Hm as [->| ->]; [apply Hp0pid; congruence|].
        destruct (merge_st4 pX (r_im r) imL) as [_ Mp]. rewrite Mp in Hpid.
        destruct (onat_eqb (c_pid (r_im r)) (c_pid imL)); [apply Hp0pid; congruence|].
        apply Hpid. rewrite J8, Epid. apply Lim. exact Nl0.
  - intros v0 Hv0 Hd0. rewrite Sv, Hv in Hv0. injection Hv0 as <-. congruence.
Qed.

Lemma reconcile_O k pl s s' e q : reconcile k pl s = (s', (e, q)) -> rec_fresh k pl s = true -> invO s -> invO s'.
Proof.
  unfold reconcile, rec_fresh, consults. intros H Hf Inv.
  destruct (vw s) as [v|] eqn:Ev; [|injection H as <- _ _; exact Inv].
  destruct (k_managed k); simpl in *; [|injection H as <- _ _; exact Inv].
  destruct (c_del v) eqn:Ed.
  { apply finalize_full in H. destruct H as (_ & Fc & Fv & Fp).
    destruct (o_pc _ Inv) as [Opc Lpc]. destruct (o_vw _ Inv) as [Ovw Lvw]. rewrite Ev in Ovw, Lvw. simpl in Ovw, Lvw.
    destruct Fp as [Fp|(p & p' & Hp & Hp' & Hpid & _ & Hcn)].
    - constructor; rewrite ?Fp, ?Fv, ?Fc; simpl; try (split; exact I).
      + rewrite Ev. simpl. split; assumption.
      + discriminate.
      + intros v0 _ _. left. reflexivity.
    - rewrite Hp in Opc, Lpc. simpl in Opc, Lpc.
      destruct (o_D _ Inv v Ev Ed) as [C|(p1 & Hp1 & Hpv)]; [congruence|].
      rewrite Hp in Hp1. injection Hp1 as <-.
      constructor; rewrite ?Hp', ?Fv, ?Fc, ?Ev; simpl.
      + destruct Hcn as [Hcn|Hcn].
        * split; [apply (ordered_cnd _ p); assumption|]. unfold cnd in Hcn. injection Hcn as E1 _ _.
          apply (linked_l_pid _ p); assumption.
        * split; [apply (ordered_cnd _ (norm v)); [exact Hcn|apply ordered_norm; exact Ovw]|].
          unfold cnd in Hcn. injection Hcn as E1 _ _. unfold linked. rewrite E1, Hpid, Hpv. intros Nl.
          apply Lvw. intros X. apply Nl. apply norm_l_true. exact X.
      + split; assumption.
      + intros p0 Hp0 Hq. injection Hp0 as <-. rewrite Hpid in Hq. destruct (o_K _ Inv p Hp Hq) as [C|C]; [left; exact C|right].
        intros v0 Hv0. apply C. congruence.
      + intros v0 Hv0 _. injection Hv0 as <-. right. exists p'. split; [reflexivity|congruence]. }
  destruct (c_fin v) eqn:Efin.
  - simpl in Hf. eapply main_path_O; try eassumption; try reflexivity; simpl.
    + intros Nl. destruct (lcond_eqb (c_l v) LTrue) eqn:E; [apply lcond_eqb_eq in E; congruence|exact Hf].
    + intros p Hp. exists p. split; [exact Hp|reflexivity].
    + left. split; [reflexivity|exact Efin].
  - simpl in H. destruct (eff_wr (pc s) (f_fin pl)) eqn:Ew.
    + destruct (pc s) as [p|] eqn:Ep; [|exfalso; unfold eff_wr in Ew; destruct (f_fin pl); discriminate].
      simpl in Hf. eapply main_path_O; try eassumption; try reflexivity; simpl.
      * intros Nl. destruct (lcond_eqb (c_l p) LTrue) eqn:E; [apply lcond_eqb_eq in E; congruence|exact Hf].
      * intros p1 Hp1. injection Hp1 as <-. exists p. split; [exact Ep|reflexivity].
      * right. split; [exact Efin|]. exists p. split; [exact Ep|reflexivity].
    + injection H as <- _ _. eapply invO_ext; [| | |exact Inv]; simpl; congruence.
    + destruct (pc s) eqn:Ep; injection H as <- _ _; (eapply invO_ext; [| | |exact Inv]; simpl; congruence).
    + injection H as <- _ _. eapply invO_ext; [| | |exact Inv]; simpl; congruence.
Qed.

Lemma step_O k s o s' x : step k s o = (s', x) ->
  (match o with Rec pl => rec_fresh k pl s = true | _ => True end) -> invO s -> invO s'.
Proof.
  intros H Hf Inv.
  destruct o; try (destruct x as [e q]; simpl in H; eapply reconcile_O; eassumption); simpl in H; injection H as <- _.
  - (* Sync *) destruct (o_pc _ Inv) as [A B]. constructor; simpl; auto.
    + intros p Hp Hq. right. intros v Hv _ _. rewrite Hp in Hv. injection Hv as <-. rewrite Hp in B. simpl in B.
      destruct (lcond_eqb (c_l p) LTrue) eqn:E; [apply lcond_eqb_eq; exact E|].
      exfalso. apply Hq, B. intros X. apply lcond_eqb_eq in X. congruence.
    + intros v Hv _. right. exists v. split; [exact Hv|reflexivity].
  - eapply invO_ext; [| | |exact Inv]; reflexivity.
  - (* EnvDelete *) destruct (o_pc _ Inv) as [A B].
    assert (P : forall c', del_claim (pc s) = Some c' -> exists c, pc s = Some c /\ st4 c' = st4 c).
    { intros c' Hc. apply del_claim_some4 in Hc. destruct Hc as (c0 & H0 & Hs & _). exists c0. split; assumption. }
    constructor; simpl.
    + destruct (del_claim (pc s)) as [c'|] eqn:Ec; simpl; [|split; exact I].
      destruct (P c' eq_refl) as (c & Hc & Hs). rewrite Hc in A, B. simpl in A, B. unfold st4 in Hs. injection Hs as E1 E2 E3 E4.
      split; [apply (ordered_cnd _ c); [unfold cnd; congruence|exact A]|apply (linked_l_pid _ c); assumption].
    + apply Inv.
    + intros c' Hc' Hq. destruct (P c' Hc') as (c & Hc & Hs). unfold st4 in Hs. injection Hs as _ _ _ E4.
      apply (o_K _ Inv c Hc). congruence.
    + intros v Hv Hd. destruct (o_D _ Inv v Hv Hd) as [C|(p & Hp & Hpv)]; [left; rewrite C; reflexivity|].
      rewrite Hp. simpl. destruct (c_fin p || c_ffin p)%bool; [right; eexists; split; [reflexivity|exact Hpv]|left; reflexivity].
  - (* Restart *) destruct (o_pc _ Inv) as [A B]. constructor; simpl; auto.
    + intros p Hp Hq. right. intros v Hv _ _. rewrite Hp in Hv. injection Hv as <-. rewrite Hp in B. simpl in B.
      destruct (lcond_eqb (c_l p) LTrue) eqn:E; [apply lcond_eqb_eq; exact E|].
      exfalso. apply Hq, B. intros X. apply lcond_eqb_eq in X. congruence.
    + intros v Hv _. right. exists v. split; [exact Hv|reflexivity].
  - destruct (made s); [exact Inv|]. destruct (nd s); [exact Inv|]. eapply invO_ext; [| | |exact Inv]; reflexivity.
  - eapply invO_ext; [| | |exact Inv]; reflexivity.
  - eapply invO_ext; [| | |exact Inv]; reflexivity.
  - eapply invO_ext; [| | |exact Inv]; reflexivity.
  - eapply invO_ext; [| | |exact Inv]; reflexivity.
  - destruct (nd s); [|exact Inv]. eapply invO_ext; [| | |exact Inv]; reflexivity.
  - eapply invO_ext; [| | |exact Inv]; reflexivity.
  - destruct (dp s); [exact Inv|]. eapply invO_ext; [| | |exact Inv]; reflexivity.
  - (* ForeignFin *) destruct (o_pc _ Inv) as [A B].
    destruct (set_ffin_cases (pc s) b) as [E|(c & Hc & E)].
    + constructor; simpl; rewrite ?E; simpl; try (split; exact I).
      * apply Inv.
      * discriminate.
      * intros v _ _. left. reflexivity.
    + rewrite Hc in A, B. simpl in A, B. constructor; simpl; rewrite ?E; simpl.
      * split; assumption.
      * apply Inv.
      * intros p Hp Hq. injection Hp as <-. simpl in Hq. exact (o_K _ Inv c Hc Hq).
      * intros v Hv Hd. destruct (o_D _ Inv v Hv Hd) as [C|(p & Hp & Hpv)]; [congruence|].
        right. eexists. split; [reflexivity|]. simpl. congruence.
Qed.

Lemma run_ordered k ops : forall s, no_expiry_from k s ops = true -> invO s ->
  Forall (fun f => ordered_opt (fr_post f)) (fst (run k s ops)).
Proof.
  induction ops as [|o ops IH]; intros s He Inv; simpl; [constructor|].
  destruct (step k s o) as [s' x] eqn:E. destruct x as [e q].
  simpl in He. apply Bool.andb_true_iff in He. destruct He as [He1 He2]. rewrite E in He2. simpl in He2.
  assert (Inv' : invO s').
  { eapply step_O; try eassumption. destruct o; try exact I. exact He1. }
  specialize (IH s' He2 Inv'). destruct (run k s' ops) as [fs sf]. simpl in *.
  constructor; [simpl; apply Inv'|exact IH].
Qed.

(* The stored NodeClaim has Registered only with Launched and Initialized only with Registered after
   every frame of every history in which the launch cache entry has not expired when it is consulted:
   faults, stale reads and the status writes computed from them, restarts. *)
Lemma conditions_ordered_l k ops : no_expiry k ops = true ->
  Forall (fun f => ordered_opt (fr_post f)) (trace k ops).
Proof. intros He. unfold trace. apply (run_ordered k ops init He invO_init). Qed.

(* Without that premise the order can break: a read that is older than the cache TTL, two faults. *)
Definition order_witness : list op :=
  [Rec status_lost; Sync; Rec okp; NodeAppear true; Tick 3601;
   Rec (mkPlan WOk PGeneric WOk false HReady WOk WOk false WOk WOk WErr WOk WOk WOk WOk false WOk WOk false false); Sync;
   Rec (mkPlan WOk PGeneric WOk false HReady WOk WOk false WOk WOk WOk WOk WOk WOk WOk false WOk WOk false false)].

Lemma order_refuted :
  option_map (fun c => (c_l c, c_r c)) (pc (final k0 order_witness)) = Some (LFailed, RTrue) /\
  no_expiry k0 order_witness = false /\ no_restart order_witness.
Proof. vm_compute. repeat split; try reflexivity. repeat constructor. Qed.
