(* C14 — proofs, part 1: reflection of the oracle, structure of one reconcile, and the two
   per-frame theorems (create only with the finalizer; capacity errors delete). *)
From KV Require Import C14.Model C14.Spec.

(* ---------------------------------------------------------------- reflection lemmas *)

Lemma lcond_eqb_eq a b : lcond_eqb a b = true <-> a = b.
Proof. destruct a, b; simpl; split; intros H; try reflexivity; try discriminate. Qed.
Lemma rcond_eqb_eq a b : rcond_eqb a b = true <-> a = b.
Proof. destruct a, b; simpl; split; intros H; try reflexivity; try discriminate. Qed.
Lemma icond_eqb_eq a b : icond_eqb a b = true <-> a = b.
Proof. destruct a, b; simpl; split; intros H; try reflexivity; try discriminate. Qed.

Lemma create_guarded_true l : create_guarded true l.
Proof. intros l1 o l2 _. left. reflexivity. Qed.

Lemma create_guarded_b_iff have l : create_guarded_b have l = true <-> create_guarded have l.
Proof.
  revert have. induction l as [|a l IH]; intros have.
  - simpl. split; [|reflexivity]. intros _ l1 o l2 H. destruct l1; discriminate.
  - assert (Hother : forall (Ha : forall o, a <> ECreate o) (Hb : a <> EFin WOk),
              (create_guarded_b have l = true <-> create_guarded have (a :: l))).
    { intros Ha Hb. rewrite IH. split.
      - intros H l1 o l2 E. destruct l1 as [|x l1]; simpl in E.
        + inversion E as [[E1 E2]]. exfalso. apply (Ha o). exact E1.
        + inversion E as [[E1 E2]]. destruct (H l1 o l2 E2) as [H1|H1]; [left; exact H1|right; right; exact H1].
      - intros H l1 o l2 E. destruct (H (a :: l1) o l2) as [H1|H1].
        + simpl. rewrite E. reflexivity.
        + left. exact H1.
        + right. destruct H1 as [H1|H1]; [exfalso; apply Hb; exact H1|exact H1]. }
    destruct a as [w|o| | | | | | | | | | | | | | ];
      try (simpl; apply Hother; [intros o' Hc; discriminate|intros Hc; discriminate]).
    + destruct w; try (simpl; apply Hother; [intros o' Hc; discriminate|intros Hc; discriminate]).
      simpl. split.
      * intros _ l1 o l2 E. destruct l1 as [|x l1]; simpl in E; [discriminate|].
        inversion E as [[E1 E2]]. right. left. reflexivity.
      * intros _. apply IH. apply create_guarded_true.
    + simpl. rewrite Bool.andb_true_iff, IH. split.
      * intros [Hh H] l1 o' l2 E. left. exact Hh.
      * intros H. split.
        -- destruct (H [] o l eq_refl) as [H1|H1]; [exact H1|destruct H1].
        -- intros l1 o' l2 E. destruct (H (ECreate o :: l1) o' l2) as [H1|H1].
           ++ simpl. rewrite E. reflexivity.
           ++ left. exact H1.
           ++ right. destruct H1 as [H1|H1]; [discriminate|exact H1].
Qed.

Lemma cap_deletes_b_iff post l : cap_deletes_b post l = true <-> cap_deletes post l.
Proof.
  induction l as [|a l IH].
  - simpl. split; [|reflexivity]. intros _ l1 o l2 H. destruct l1; discriminate.
  - assert (Hother : (forall o, a <> ECreate o) -> (cap_deletes_b post l = true <-> cap_deletes post (a :: l))).
    { intros Ha. rewrite IH. split.
      - intros H l1 o l2 E Hc. destruct l1 as [|x l1]; simpl in E.
        + inversion E as [[E1 E2]]. exfalso. apply (Ha o). exact E1.
        + inversion E as [[E1 E2]]. exact (H l1 o l2 E2 Hc).
      - intros H l1 o l2 E Hc. apply (H (a :: l1) o l2); [simpl; rewrite E; reflexivity|exact Hc]. }
    destruct a as [w|o| | | | | | | | | | | | | | ]; try (simpl; apply Hother; intros o' Hc; discriminate).
    simpl. rewrite Bool.andb_true_iff, IH. split.
    + intros [Hh H] l1 o' l2 E Hc. destruct l1 as [|x l1]; simpl in E.
      * inversion E as [[E1 E2]]. subst o' l2. rewrite Hc in Hh.
        destruct l as [|b l']; [discriminate|]. destruct b; try discriminate.
        exists o0, l'. split; [reflexivity|]. intros ->. exact Hh.
      * inversion E as [[E1 E2]]. exact (H l1 o' l2 E2 Hc).
    + intros H. split.
      * destruct (is_cap o) eqn:Hc; [|reflexivity].
        destruct (H [] o l eq_refl Hc) as (w & l3 & -> & Hw). destruct w; try reflexivity. apply Hw. reflexivity.
      * intros l1 o' l2 E Hc. apply (H (ECreate o :: l1) o' l2); [simpl; rewrite E; reflexivity|exact Hc].
Qed.

Lemma ordered_b_iff c : ordered_b c = true <-> ordered c.
Proof.
  unfold ordered_b, ordered. rewrite Bool.andb_true_iff, !Bool.orb_true_iff, !Bool.negb_true_iff.
  rewrite lcond_eqb_eq, rcond_eqb_eq.
  split.
  - intros [H1 H2]. split.
    + intros Hr. destruct H1 as [H1|H1]; [|exact H1].
      rewrite Hr in H1. simpl in H1. discriminate.
    + intros Hi. destruct H2 as [H2|H2]; [|exact H2].
      rewrite Hi in H2. simpl in H2. discriminate.
  - intros [H1 H2]. split.
    + destruct (rcond_eqb (c_r c) RTrue) eqn:E; [right; apply H1; apply rcond_eqb_eq; exact E|left; reflexivity].
    + destruct (icond_eqb (c_i c) ITrue) eqn:E; [right; apply H2; apply icond_eqb_eq; exact E|left; reflexivity].
Qed.

Lemma ordered_opt_b_iff p : ordered_opt_b p = true <-> ordered_opt p.
Proof. destruct p; simpl; [apply ordered_b_iff|split; intros; [exact I|reflexivity]]. Qed.

Lemma justified_b_iff k n f : justified_b k n f = true <-> justified k n f.
Proof.
  unfold justified_b, justified.
  rewrite !Bool.andb_true_iff, !Bool.orb_true_iff, !Bool.negb_true_iff, Nat.leb_le.
  split.
  - intros [[H1 H2] H3]. repeat split.
    + intros Ha Hb. destruct H1 as [[H1|H1]|H1]; [congruence|congruence|exact H1].
    + intros Ha Hb. destruct H2 as [[H2|H2]|H2]; [congruence|congruence|exact H2].
    + intros Ha Hb. destruct H3 as [[H3|H3]|H3]; [congruence|congruence|exact H3].
  - intros (H1 & H2 & H3). repeat split.
    + destruct (l_true (fr_pre f)); [left; left; reflexivity|].
      destruct (l_true (fr_post f)); [right; apply H1; reflexivity|left; right; reflexivity].
    + destruct (r_true (fr_pre f)); [left; left; reflexivity|].
      destruct (r_true (fr_post f)); [right; apply H2; reflexivity|left; right; reflexivity].
    + destruct (i_true (fr_pre f)); [left; left; reflexivity|].
      destruct (i_true (fr_post f)); [right; apply H3; reflexivity|left; right; reflexivity].
Qed.

Lemma all_justified_b_iff k fs : forall n, all_justified_b k n fs = true <-> all_justified k n fs.
Proof.
  induction fs as [|f fs IH]; intros n; simpl.
  - split; intros; [exact I|reflexivity].
  - rewrite Bool.andb_true_iff, justified_b_iff, IH. reflexivity.
Qed.

Lemma forallb_Forall {A} (p : A -> bool) (P : A -> Prop) (l : list A) :
  (forall x, p x = true <-> P x) -> (forallb p l = true <-> Forall P l).
Proof.
  intros H. induction l as [|a l IH]; simpl.
  - split; intros; [constructor|reflexivity].
  - rewrite Bool.andb_true_iff, H, IH. split.
    + intros [H1 H2]. constructor; assumption.
    + intros H0. inversion H0. split; assumption.
Qed.

(* the oracle evaluated on observed frames decides the property *)
Theorem holds_b_iff k g1 g3 fs : holds_b k g1 g3 fs = true <-> holds k g1 g3 fs.
Proof.
  unfold holds_b, holds_clauses. simpl. rewrite !Bool.andb_true_iff, !Bool.orb_true_iff, !Bool.negb_true_iff.
  rewrite Nat.leb_le, all_justified_b_iff.
  rewrite (forallb_Forall _ _ fs (fun f => create_guarded_b_iff (has_fin (fr_pre f)) (fr_effs f))).
  rewrite (forallb_Forall _ _ fs (fun f => ordered_opt_b_iff (fr_post f))).
  rewrite (forallb_Forall _ _ fs (fun f => cap_deletes_b_iff (fr_post f) (fr_effs f))).
  split.
  - intros (H1 & H2 & H3 & H4 & H5 & _). constructor; try assumption.
    + intros Hg. destruct H1 as [H1|H1]; [congruence|exact H1].
    + intros Hg. destruct H3 as [H3|H3]; [congruence|exact H3].
  - intros [H1 H2 H3 H4 H5]. repeat split; try assumption.
    + destruct g1; [right; apply H1; reflexivity|left; reflexivity].
    + destruct g3; [right; apply H3; reflexivity|left; reflexivity].
Qed.

(* ---------------------------------------------------------------- effects of the phases *)

Definition nocreate (l : list eff) : bool := forallb (fun e => negb (match e with ECreate _ => true | _ => false end)) l.

(* [r'] extends the effect log of [r] without provider Create calls *)
Definition ext_nc (r r' : rs) : Prop := exists ex, r_effs r' = r_effs r ++ ex /\ nocreate ex = true.

Lemma ext_nc_refl r : ext_nc r r.
Proof. exists []. rewrite app_nil_r. split; reflexivity. Qed.

Lemma ext_nc_trans a b c : ext_nc a b -> ext_nc b c -> ext_nc a c.
Proof.
  intros (x & Hx & Nx) (y & Hy & Ny). exists (x ++ y). rewrite Hy, Hx, app_assoc. split; [reflexivity|].
  unfold nocreate in *. rewrite forallb_app, Nx, Ny. reflexivity.
Qed.

Ltac bm :=
  match goal with
  | |- context [match ?x with _ => _ end] => destruct x eqn:?
  end.

Ltac bmh H :=
  match type of H with
  | context [match ?x with _ => _ end] => destruct x eqn:?
  end.

Ltac ext_solve :=
  unfold ext_nc; simpl; repeat rewrite <- app_assoc; simpl;
  first [ solve [eexists; split; [reflexivity|reflexivity]]
        | solve [exists []; rewrite app_nil_r; split; reflexivity] ].

(* del_claim *)
Lemma del_claim_idem p : del_claim (del_claim p) = del_claim p.
Proof.
  destruct p as [c|]; simpl; [|reflexivity].
  destruct (c_fin c || c_ffin c)%bool eqn:E; simpl; [rewrite E; reflexivity|reflexivity].
Qed.

Lemma set_ffin_cases p b : set_ffin p b = None \/ exists c, p = Some c /\ set_ffin p b = Some (cl_ffin c b).
Proof.
  unfold set_ffin. destruct p as [c|]; simpl; [|left; reflexivity].
  destruct (c_del c && negb b && negb (c_fin c))%bool; [left; reflexivity|right; exists c; split; reflexivity].
Qed.

Lemma set_ffin_none b : set_ffin None b = None.
Proof. reflexivity. Qed.

(* how a phase may change the stored claim: not at all, or by API Delete *)
Definition pc_rel (p p' : option claim) : Prop := p' = p \/ p' = del_claim p.

Lemma pc_rel_refl p : pc_rel p p. Proof. left. reflexivity. Qed.
Lemma pc_rel_trans a b c : pc_rel a b -> pc_rel b c -> pc_rel a c.
Proof.
  intros [->| ->] [->| ->]; unfold pc_rel; auto. rewrite del_claim_idem. auto.
Qed.

(* what registration / initialization / liveness leave alone *)
Record quiet (r r' : rs) : Prop := mkQuiet {
  q_ch : r_ch r' = r_ch r;
  q_made : r_made r' = r_made r;
  q_alive : r_alive r' = r_alive r;
  q_now : r_now r' = r_now r;
  q_ext : ext_nc r r';
  q_pc : pc_rel (r_pc r) (r_pc r');
  q_l : c_l (r_im r') = c_l (r_im r);
  q_fin : c_fin (r_im r') = c_fin (r_im r);
  q_del : c_del (r_im r') = c_del (r_im r);
  q_pid : c_pid (r_im r') = c_pid (r_im r);
  q_term : c_term (r_im r') = c_term (r_im r) }.

Lemma quiet_refl r : quiet r r.
Proof. constructor; try reflexivity; [apply ext_nc_refl|apply pc_rel_refl]. Qed.

Lemma quiet_trans a b c : quiet a b -> quiet b c -> quiet a c.
Proof.
  intros [] []. constructor; try congruence.
  - eapply ext_nc_trans; eassumption.
  - eapply pc_rel_trans; eassumption.
Qed.

Ltac quiet_leaf :=
  constructor; simpl; try reflexivity;
  [ ext_solve | first [left; reflexivity | right; reflexivity] ].

Lemma pool_then_registered_quiet k pl r : quiet r (pool_then_registered k pl r).
Proof. unfold pool_then_registered, registered_now, err_of_wr. repeat bm; quiet_leaf. Qed.

Lemma hook_return_quiet pl r : quiet r (hook_return pl r).
Proof. unfold hook_return. repeat bm; quiet_leaf. Qed.

Lemma registered_now_quiet r : quiet r (registered_now r).
Proof. unfold registered_now. quiet_leaf. Qed.

Lemma registration_quiet k pl r : quiet r (registration k pl r).
Proof.
  unfold registration, err_of_wr.
  repeat (bm; try solve [quiet_leaf]);
  try solve [quiet_leaf];
  try (eapply quiet_trans; [|first [apply pool_then_registered_quiet|apply hook_return_quiet]]; quiet_leaf).
Qed.

Lemma initialization_quiet k pl r : quiet r (initialization k pl r).
Proof.
  unfold initialization, set_i, err_of_wr.
  repeat (bm; try solve [quiet_leaf]); try solve [quiet_leaf].
Qed.

Lemma live_site_quiet k pool del r cont :
  (forall r0, quiet r0 (cont r0)) -> quiet r (live_site k pool del r cont).
Proof.
  intros Hc. unfold live_site, err_of_wr.
  repeat (bm; try solve [quiet_leaf]); try solve [quiet_leaf];
  (eapply quiet_trans; [|apply Hc]; quiet_leaf).
Qed.

Lemma live_registration_quiet k pool del r : quiet r (live_registration k pool del r).
Proof.
  unfold live_registration. bm; [quiet_leaf|].
  apply live_site_quiet. intros r0. apply quiet_refl.
Qed.

Lemma liveness_quiet k pl r : quiet r (liveness k pl r).
Proof.
  unfold liveness.
  repeat (bm; try solve [quiet_leaf|apply quiet_refl|apply live_registration_quiet]);
  try solve [quiet_leaf|apply quiet_refl|apply live_registration_quiet];
  (apply live_site_quiet; intros r0; first [apply live_registration_quiet|apply quiet_refl]).
Qed.

Lemma after_launch_quiet k pl r :
  quiet r (liveness k pl (initialization k pl (registration k pl r))).
Proof.
  eapply quiet_trans; [apply registration_quiet|].
  eapply quiet_trans; [apply initialization_quiet|apply liveness_quiet].
Qed.

(* ---------------------------------------------------------------- Launch *)

(* the calls Launch.Reconcile makes *)
Definition launch_ex (k : cfg) (pl : plan) (r : rs) : list eff :=
  match c_l (norm (r_im r)) with
  | LTrue => []
  | _ =>
    match cache_hit k r with
    | Some _ => []
    | None =>
      match pclass_of (f_create pl) with
      | CkOk => [ECreate POk]
      | CkCreateErr | CkGeneric => [ECreate (f_create pl)]
      | _ => [ECreate (f_create pl); EDelLaunch (eff_wr (r_pc r) (f_del_launch pl))]
      end
    end
  end.

(* case split on the provider's answer the way launchNodeClaim's switch does *)
Ltac dcreate pl :=
  unfold pclass_of;
  let ch := fresh "ch" in
  destruct (f_create pl) as [|ch];
  [|destruct (has_layer YInsufficient ch) eqn:?;
    [|destruct (has_layer YNotReady ch) eqn:?; [|destruct (has_layer YCreateErr ch) eqn:?]]].

Lemma cache_hit_norm k r : cache_hit k (set_im r (norm (r_im r))) = cache_hit k r.
Proof. reflexivity. Qed.

Lemma launch_effs k pl r : r_effs (launch k pl r) = r_effs r ++ launch_ex k pl r.
Proof.
  unfold launch, launch_ex, populate, err_of_wr. rewrite cache_hit_norm. simpl.
  repeat bm; simpl; repeat rewrite <- app_assoc; simpl; try rewrite app_nil_r; try reflexivity; try congruence.
Qed.

Definition deleted_by_launch (k : cfg) (pl : plan) (r : rs) : bool :=
  existsb (eff_eqb (EDelLaunch WOk)) (launch_ex k pl r).

Lemma launch_pc k pl r :
  r_pc (launch k pl r) = if deleted_by_launch k pl r then del_claim (r_pc r) else r_pc r.
Proof.
  unfold deleted_by_launch. unfold launch, launch_ex, populate, err_of_wr. rewrite cache_hit_norm. simpl.
  destruct (match c_l (r_im r) with LAbsent => LAwait | x => x end); try reflexivity;
    destruct (cache_hit k r); try reflexivity;
    dcreate pl; simpl; try reflexivity;
    destruct (eff_wr (r_pc r) (f_del_launch pl)); reflexivity.
Qed.

Lemma launch_misc k pl r :
  r_now (launch k pl r) = r_now r /\ r_nd (launch k pl r) = r_nd r /\ r_dp (launch k pl r) = r_dp r /\
  c_fin (r_im (launch k pl r)) = c_fin (r_im r) /\ c_del (r_im (launch k pl r)) = c_del (r_im r) /\
  c_term (r_im (launch k pl r)) = c_term (r_im r).
Proof.
  unfold launch, populate, err_of_wr. rewrite cache_hit_norm. simpl.
  repeat bm; simpl; repeat split; reflexivity.
Qed.

Lemma norm_l_true c : c_l (norm c) = LTrue <-> c_l c = LTrue.
Proof. unfold norm; simpl. destruct (c_l c); split; intros H; try discriminate; reflexivity. Qed.

(* the launch cache and the provider, as Launch leaves them *)
Lemma launch_cache k pl r :
  let r' := launch k pl r in
  (c_l (r_im r) = LTrue -> r_made r' = r_made r /\ r_ch r' = None /\ c_l (r_im r') = LTrue /\ c_pid (r_im r') = c_pid (r_im r)) /\
  (c_l (r_im r) <> LTrue -> forall p, cache_hit k r = Some p ->
     r_made r' = r_made r /\ r_ch r' <> None /\ c_l (r_im r') = LTrue /\ c_pid (r_im r') <> None) /\
  (c_l (r_im r) <> LTrue -> cache_hit k r = None ->
     (r_made r' = S (r_made r) /\ r_ch r' <> None /\ c_l (r_im r') = LTrue /\ c_pid (r_im r') <> None /\
      launch_ex k pl r = [ECreate POk]) \/
     (r_made r' = r_made r /\ r_ch r' = r_ch r /\ c_l (r_im r') <> LTrue /\ c_pid (r_im r') = c_pid (r_im r) /\
      creates (launch_ex k pl r) = 0%nat)).
Proof.
  unfold launch, launch_ex, populate, err_of_wr. rewrite cache_hit_norm. simpl.
  split; [|split].
  - intros H. rewrite H. simpl. rewrite ?H. repeat split; simpl; rewrite ?H; reflexivity.
  - intros H p Hp. rewrite Hp. assert (Hn : c_l (norm (r_im r)) <> LTrue) by (intros X; apply H, norm_l_true, X).
    simpl in Hn. destruct (match c_l (r_im r) with LAbsent => LAwait | x => x end) eqn:E; try congruence;
      simpl; (split; [reflexivity|split; [congruence|split; [reflexivity|congruence]]]).
  - intros H Hp. rewrite Hp. assert (Hn : c_l (norm (r_im r)) <> LTrue) by (intros X; apply H, norm_l_true, X).
    simpl in Hn.
    destruct (match c_l (r_im r) with LAbsent => LAwait | x => x end) eqn:E; try congruence;
    dcreate pl; simpl;
      try (left; (split; [reflexivity|split; [congruence|split; [reflexivity|split; [congruence|reflexivity]]]]));
      try (right; destruct (eff_wr (r_pc r) (f_del_launch pl)); simpl;
           (split; [reflexivity|split; [reflexivity|split; [congruence|split; [reflexivity|reflexivity]]]])).
Qed.

(* ---------------------------------------------------------------- the final patches *)

Lemma finish_spec pl st r r' q : finish pl st r = (r', q) ->
  r_ch r' = r_ch r /\ r_made r' = r_made r /\ r_nd r' = r_nd r /\ ext_nc r r' /\
  (r_pc r' = r_pc r \/ exists p, r_pc r = Some p /\ r_pc r' = Some (merge p st (r_im r))).
Proof.
  unfold finish. intros H.
  repeat bmh H; inversion H; subst; clear H; simpl;
    (split; [reflexivity|split; [reflexivity|split; [reflexivity|split; [ext_solve|]]]]);
    try (left; reflexivity).
  destruct (r_pc r) as [p|] eqn:E; simpl in *; [right|left; reflexivity].
  exists p. split; reflexivity.
Qed.

Lemma merge_flags p st im : c_fin (merge p st im) = c_fin p /\ c_del (merge p st im) = c_del p.
Proof. unfold merge. repeat bm; simpl; split; reflexivity. Qed.

(* ---------------------------------------------------------------- one reconcile, summarised *)

Lemma god_del_claim p : gone_or_deleting (del_claim p) = true.
Proof. destruct p as [c|]; simpl; [|reflexivity]. destruct (c_fin c || c_ffin c)%bool; reflexivity. Qed.

Lemma god_pc_rel p p' : pc_rel p p' -> gone_or_deleting p = true -> gone_or_deleting p' = true.
Proof. intros [->| ->] H; [exact H|apply god_del_claim]. Qed.

Lemma nocreate_cap post l : nocreate l = true -> cap_deletes_b post l = true.
Proof.
  induction l as [|a l IH]; simpl; [reflexivity|]. rewrite Bool.andb_true_iff. intros [Ha Hl].
  destruct a; simpl in Ha; try discriminate; apply IH; exact Hl.
Qed.

Lemma cap_app_nocreate post l m : nocreate l = true -> cap_deletes_b post (l ++ m) = cap_deletes_b post m.
Proof.
  induction l as [|a l IH]; simpl; [reflexivity|]. rewrite Bool.andb_true_iff. intros [Ha Hl].
  destruct a; simpl in Ha; try discriminate; apply IH; exact Hl.
Qed.

Lemma guarded_app_nocreate have l m :
  nocreate l = true -> create_guarded_b have m = true -> create_guarded_b have (l ++ m) = true.
Proof.
  revert have. induction l as [|a l IH]; intros have; simpl; [auto|]. rewrite Bool.andb_true_iff. intros [Ha Hl] Hm.
  destruct a as [w| | | | | | | | | | | | | | | ]; simpl in Ha; try discriminate; try (apply IH; assumption).
  destruct w; try (apply IH; assumption).
  apply IH; [exact Hl|]. apply create_guarded_b_iff, create_guarded_true.
Qed.

Lemma guarded_true l : create_guarded_b true l = true.
Proof. apply create_guarded_b_iff, create_guarded_true. Qed.

Lemma nocreate_guarded have l : nocreate l = true -> create_guarded_b have l = true.
Proof. intros H. rewrite <- (app_nil_r l). apply guarded_app_nocreate; [exact H|reflexivity]. Qed.

(* main_path: effects = what was logged before ++ Launch's calls ++ calls that are not Create *)
Lemma main_path_spec k pl s r s' e q : main_path k pl s r = (s', (e, q)) ->
  exists rest,
    e = r_effs r ++ launch_ex k pl r ++ rest /\ nocreate rest = true /\
    (deleted_by_launch k pl r = true -> gone_or_deleting (pc s') = true) /\
    vw s' = vw s.
Proof.
  unfold main_path, subs. destruct (finish pl (r_im r) _) as [r' q'] eqn:F. intros H. inversion H; subst; clear H.
  apply finish_spec in F. destruct F as (_ & _ & _ & (x & Hx & Nx) & Hpc).
  destruct (after_launch_quiet k pl (launch k pl r)) as [_ _ _ _ (y & Hy & Ny) Hrel _ _ _ _ _].
  exists (y ++ x). repeat split.
  - rewrite Hx, Hy, launch_effs, <- !app_assoc. reflexivity.
  - unfold nocreate in *. rewrite forallb_app, Ny, Nx. reflexivity.
  - intros Hd. simpl. rewrite launch_pc, Hd in Hrel.
    pose proof (god_pc_rel _ _ Hrel (god_del_claim _)) as G.
    destruct Hpc as [->|(p & Hp & ->)]; [exact G|].
    rewrite Hp in G. simpl in *. destruct (merge_flags p (r_im r) (r_im (liveness k pl (initialization k pl (registration k pl (launch k pl r)))))) as [_ ->].
    exact G.
Qed.

Lemma launch_ex_cap k pl r post :
  (deleted_by_launch k pl r = true -> gone_or_deleting post = true) ->
  forall rest, nocreate rest = true -> cap_deletes_b post (launch_ex k pl r ++ rest) = true.
Proof.
  unfold deleted_by_launch. unfold launch_ex. intros H rest Hr.
  destruct (c_l (norm (r_im r))); try (apply nocreate_cap; exact Hr);
    (destruct (cache_hit k r); [apply nocreate_cap; exact Hr|]);
    dcreate pl; unfold is_cap; simpl in *;
    repeat match goal with E : has_layer _ _ = _ |- _ => rewrite E in *; clear E end; simpl in *;
    rewrite ?(nocreate_cap _ _ Hr); try reflexivity;
    destruct (eff_wr (r_pc r) (f_del_launch pl)); simpl in *; try reflexivity; rewrite H; reflexivity.
Qed.

Lemma unfinalize_nocreate pl s r s' e q : unfinalize pl s r = (s', (e, q)) ->
  exists x, e = r_effs r ++ x /\ nocreate x = true.
Proof.
  unfold unfinalize. intros H. repeat bmh H; inversion H; subst; clear H; simpl;
  eexists; split; reflexivity.
Qed.

Lemma finalize_nocreate k pl s v s' e q : finalize k pl s v = (s', (e, q)) -> nocreate e = true.
Proof.
  unfold finalize. intros H.
  repeat bmh H;
    try (inversion H; subst; clear H; simpl; unfold nocreate; rewrite ?forallb_app; reflexivity);
    try (apply unfinalize_nocreate in H; destruct H as (x & -> & Nx); simpl;
         unfold nocreate in *; rewrite ?forallb_app; simpl; rewrite ?Nx; reflexivity).
Qed.

(* Theorem (per reconcile): Create only under the finalizer; capacity errors delete. *)
Lemma reconcile_frame k pl s s' e q : reconcile k pl s = (s', (e, q)) ->
  (forall v, vw s = Some v -> c_fin v = true -> c_del v = false -> has_fin (pc s) = true) ->
  create_guarded_b (has_fin (pc s)) e = true /\ cap_deletes_b (pc s') e = true.
Proof.
  unfold reconcile. intros H Inv.
  destruct (vw s) as [v|] eqn:Ev; [|inversion H; subst; split; reflexivity].
  destruct (negb (k_managed k)); [inversion H; subst; split; reflexivity|].
  destruct (c_del v) eqn:Ed.
  { apply finalize_nocreate in H. split; [apply nocreate_guarded|apply nocreate_cap]; exact H. }
  destruct (c_fin v) eqn:Ef.
  - apply main_path_spec in H. destruct H as (rest & -> & Nr & Hd & _). simpl.
    rewrite (Inv v eq_refl Ef Ed). split; [apply guarded_true|].
    apply launch_ex_cap; assumption.
  - simpl in H. destruct (eff_wr (pc s) (f_fin pl)) eqn:Ew.
    + destruct (pc s) as [p|] eqn:Ep; [|inversion H; subst; split; reflexivity].
      apply main_path_spec in H. destruct H as (rest & -> & Nr & Hd & _). simpl. split.
      * apply guarded_true.
      * apply launch_ex_cap; assumption.
    + inversion H; subst. split; reflexivity.
    + destruct (pc s); inversion H; subst; split; reflexivity.
    + inversion H; subst. split; reflexivity.
Qed.
