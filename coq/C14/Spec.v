(* C14 — the property as predicates over a history of frames (what was stored before an op,
   the calls the controller made, what is stored afterwards), written against the property text
   and not against the code; each with a boolean reflection that serves as the oracle on the
   frames observed on the implementation. *)
From KV Require Export C14.Model.

(* ---------------------------------------------------------------- create only with the finalizer *)

Definition has_fin (p : option claim) : bool := match p with Some c => c_fin c | None => false end.

(* every provider Create call is made while the stored NodeClaim carries the finalizer: it had it
   before the reconcile, or the reconcile's own finalizer patch succeeded earlier *)
Definition create_guarded (have : bool) (l : list eff) : Prop :=
  forall l1 o l2, l = l1 ++ ECreate o :: l2 -> have = true \/ In (EFin WOk) l1.

Fixpoint create_guarded_b (have : bool) (l : list eff) : bool :=
  match l with
  | [] => true
  | EFin WOk :: t => create_guarded_b true t
  | ECreate _ :: t => have && create_guarded_b have t
  | _ :: t => create_guarded_b have t
  end.

(* ---------------------------------------------------------------- capacity errors delete *)

(* the error chain contains a capacity / NodeClass-not-ready error (wrapped or not) *)
Definition is_cap (o : pout) : bool :=
  match o with POk => false | PFail c => has_layer YInsufficient c || has_layer YNotReady c end.
Definition gone_or_deleting (p : option claim) : bool := match p with None => true | Some c => c_del c end.

(* a capacity error is answered by Delete(claim) as the very next call, and when that call is
   accepted the NodeClaim is gone or terminating after the reconcile *)
Definition cap_deletes (post : option claim) (l : list eff) : Prop :=
  forall l1 o l2, l = l1 ++ ECreate o :: l2 -> is_cap o = true ->
    exists w l3, l2 = EDelLaunch w :: l3 /\ (w = WOk -> gone_or_deleting post = true).

Fixpoint cap_deletes_b (post : option claim) (l : list eff) : bool :=
  match l with
  | [] => true
  | ECreate o :: t =>
      (if is_cap o then
         match t with
         | EDelLaunch w :: _ => match w with WOk => gone_or_deleting post | _ => true end
         | _ => false
         end
       else true) && cap_deletes_b post t
  | _ :: t => cap_deletes_b post t
  end.

(* ---------------------------------------------------------------- order and justification *)

Definition ordered (c : claim) : Prop :=
  (c_r c = RTrue -> c_l c = LTrue) /\ (c_i c = ITrue -> c_r c = RTrue).
Definition ordered_b (c : claim) : bool :=
  (negb (rcond_eqb (c_r c) RTrue) || lcond_eqb (c_l c) LTrue) &&
  (negb (icond_eqb (c_i c) ITrue) || rcond_eqb (c_r c) RTrue).
Definition ordered_opt (p : option claim) : Prop := match p with Some c => ordered c | None => True end.
Definition ordered_opt_b (p : option claim) : bool := match p with Some c => ordered_b c | None => true end.

Definition l_true (p : option claim) : bool := match p with Some c => lcond_eqb (c_l c) LTrue | None => false end.
Definition r_true (p : option claim) : bool := match p with Some c => rcond_eqb (c_r c) RTrue | None => false end.
Definition i_true (p : option claim) : bool := match p with Some c => icond_eqb (c_i c) ITrue | None => false end.

(* node present and synced with the unregistered taint removed *)
Definition node_registered_ok (n : option node) : bool :=
  match n with Some n => negb (n_unreg n) && n_reglabel n && n_synced n | None => false end.
(* node Ready, startup and ephemeral taints gone, requested extended resources reported *)
Definition node_initialized_ok (k : cfg) (n : option node) : bool :=
  match n with
  | Some n => n_ready n && negb (k_startup k && n_startup n) && negb (n_eph n) && negb (n_unreg n) &&
              (negb (k_ext k) || n_ext n) && n_initlabel n
  | None => false
  end.

Definition is_create_ok (e : eff) : bool := match e with ECreate POk => true | _ => false end.
Definition creates (l : list eff) : nat := length (filter is_create_ok l).

(* a condition that turns True in the stored object during a frame has its precondition:
   [before] = number of successful Create calls in earlier frames *)
Definition justified (k : cfg) (before : nat) (f : frame) : Prop :=
  (l_true (fr_pre f) = false -> l_true (fr_post f) = true -> (1 <= before + creates (fr_effs f))%nat) /\
  (r_true (fr_pre f) = false -> r_true (fr_post f) = true -> node_registered_ok (fr_node f) = true) /\
  (i_true (fr_pre f) = false -> i_true (fr_post f) = true -> node_initialized_ok k (fr_node f) = true).

Definition justified_b (k : cfg) (before : nat) (f : frame) : bool :=
  (l_true (fr_pre f) || negb (l_true (fr_post f)) || (1 <=? before + creates (fr_effs f))%nat) &&
  (r_true (fr_pre f) || negb (r_true (fr_post f)) || node_registered_ok (fr_node f)) &&
  (i_true (fr_pre f) || negb (i_true (fr_post f)) || node_initialized_ok k (fr_node f)).

Fixpoint all_justified (k : cfg) (before : nat) (fs : list frame) : Prop :=
  match fs with
  | [] => True
  | f :: t => justified k before f /\ all_justified k (before + creates (fr_effs f)) t
  end.
Fixpoint all_justified_b (k : cfg) (before : nat) (fs : list frame) : bool :=
  match fs with
  | [] => true
  | f :: t => justified_b k before f && all_justified_b k (before + creates (fr_effs f)) t
  end.

(* ---------------------------------------------------------------- at most one instance *)

Fixpoint total_creates (fs : list frame) : nat :=
  match fs with [] => 0%nat | f :: t => (creates (fr_effs f) + total_creates t)%nat end.

Definition is_restart (o : op) : bool := match o with Restart => true | _ => false end.
Definition no_restart (ops : list op) : Prop := Forall (fun o => is_restart o = false) ops.
Definition no_restart_b (ops : list op) : bool := forallb (fun o => negb (is_restart o)) ops.

(* the launch cache entry is still within its TTL *)
Definition entry_fresh (k : cfg) (s : state) : bool :=
  match ch s with Some (_, t) => now s <=? t + k_ttl k | None => true end.

(* does this reconcile consult the launch cache?  (Launch.Reconcile is reached, for an object whose
   Launched condition is not True) *)
Definition consults (k : cfg) (pl : plan) (s : state) : bool :=
  match vw s with
  | None => false
  | Some v =>
      k_managed k && negb (c_del v) &&
      (if c_fin v then negb (lcond_eqb (c_l v) LTrue)
       else match eff_wr (pc s) (f_fin pl), pc s with
            | WOk, Some p => negb (lcond_eqb (c_l p) LTrue)
            | _, _ => false
            end)
  end.

(* whenever a reconcile consults the launch cache, the entry (if any) has not expired *)
Definition rec_fresh (k : cfg) (pl : plan) (s : state) : bool := negb (consults k pl s) || entry_fresh k s.

Fixpoint no_expiry_from (k : cfg) (s : state) (ops : list op) : bool :=
  match ops with
  | [] => true
  | o :: t =>
      (match o with Rec pl => rec_fresh k pl s | _ => true end) && no_expiry_from k (fst (step k s o)) t
  end.
Definition no_expiry (k : cfg) (ops : list op) : bool := no_expiry_from k init ops.

(* ---------------------------------------------------------------- the whole property on a history *)

(* [g1]: the history has no restart and no expiry; [g3]: no expiry *)
Record holds (k : cfg) (g1 g3 : bool) (fs : list frame) : Prop := mkHolds {
  h_once : g1 = true -> (total_creates fs <= 1)%nat;
  h_fin : Forall (fun f => create_guarded (has_fin (fr_pre f)) (fr_effs f)) fs;
  h_order : g3 = true -> Forall (fun f => ordered_opt (fr_post f)) fs;
  h_just : all_justified k 0 fs;
  h_cap : Forall (fun f => cap_deletes (fr_post f) (fr_effs f)) fs }.

(* which clause fails: 1 once, 2 finalizer, 3 order, 4 justification, 5 capacity *)
Definition holds_clauses (k : cfg) (g1 g3 : bool) (fs : list frame) : list (nat * bool) :=
  [ (1%nat, negb g1 || (total_creates fs <=? 1)%nat);
    (2%nat, forallb (fun f => create_guarded_b (has_fin (fr_pre f)) (fr_effs f)) fs);
    (3%nat, negb g3 || forallb (fun f => ordered_opt_b (fr_post f)) fs);
    (4%nat, all_justified_b k 0 fs);
    (5%nat, forallb (fun f => cap_deletes_b (fr_post f) (fr_effs f)) fs) ].

Definition holds_b (k : cfg) (g1 g3 : bool) (fs : list frame) : bool :=
  forallb snd (holds_clauses k g1 g3 fs).

(* the durations the at-most-once argument relies on: both liveness timeouts end before the
   launch cache forgets the instance *)
Definition timing_ok (k : cfg) : bool := (0 <? k_lt k) && (k_lt k <=? k_rt k) && (k_rt k <? k_ttl k).
