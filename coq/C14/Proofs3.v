(* C14 — proofs, part 3: at most one successful Create per NodeClaim while the controller keeps
   running and the launch cache entry does not expire; ordering / justification of the
   conditions inside one reconcile. *)
From KV Require Import C14.Model C14.Spec C14.Proofs C14.Proofs2.

Ltac bmh H :=
  match type of H with
  | context [match ?x with _ => _ end] => destruct x eqn:?
  end.

(* ---------------------------------------------------------------- counting creates *)

Lemma creates_app a b : creates (a ++ b) = (creates a + creates b)%nat.
Proof. unfold creates. rewrite filter_app, app_length. reflexivity. Qed.

Lemma nocreate_creates l : nocreate l = true -> creates l = 0%nat.
Proof.
  induction l as [|a l IH]; [reflexivity|]. simpl. rewrite Bool.andb_true_iff. intros [Ha Hl].
  unfold creates in *. simpl. destruct a; simpl in *; try discriminate; apply IH; exact Hl.
Qed.

Lemma launch_made k pl r : r_made (launch k pl r) = (r_made r + creates (launch_ex k pl r))%nat.
Proof.
  unfold launch, launch_ex, populate, err_of_wr. rewrite cache_hit_norm. simpl.
  destruct (match c_l (r_im r) with LAbsent => LAwait | x => x end); simpl; try lia;
    destruct (cache_hit k r); simpl; try lia;
    destruct (f_create pl); simpl; try (unfold creates; simpl; lia);
    destruct (eff_wr (r_pc r) (f_del_launch pl)); simpl; unfold creates; simpl; lia.
Qed.

(* ---------------------------------------------------------------- summary of the main path *)

Lemma merge_l p st im : c_l (merge p st im) = c_l p \/ c_l (merge p st im) = c_l im.
Proof. unfold merge. repeat bm; simpl; auto. Qed.

Lemma del_claim_some p c : del_claim p = Some c -> exists c0, p = Some c0 /\ c_l c = c_l c0 /\ c_del c = true.
Proof.
  destruct p as [c0|]; simpl; [|discriminate]. destruct (c_fin c0); [|discriminate].
  intros H. injection H as <-. exists c0. repeat split.
Qed.

Lemma pc_rel_some p p' c : pc_rel p p' -> p' = Some c ->
  exists c0, p = Some c0 /\ c_l c = c_l c0 /\ (c_del c0 = true -> c_del c = true).
Proof.
  intros [->| ->] H.
  - exists c. repeat split; auto.
  - apply del_claim_some in H. destruct H as (c0 & -> & Hl & Hd). exists c0. repeat split; auto.
Qed.

Lemma main_path_sum k pl s r s' e q : main_path k pl s r = (s', (e, q)) ->
  made s' = r_made (launch k pl r) /\ ch s' = r_ch (launch k pl r) /\ vw s' = vw s /\
  creates e = (creates (r_effs r) + creates (launch_ex k pl r))%nat /\
  (pc s' = None \/
   exists p p', r_pc r = Some p /\ pc s' = Some p' /\
     (c_l p' = c_l p \/ c_l p' = c_l (r_im (launch k pl r))) /\ (c_del p = true -> c_del p' = true)).
Proof.
  intros H. pose proof (main_path_spec _ _ _ _ _ _ _ H) as (rest & He & Nr & _ & Hvw).
  unfold main_path, subs in H. destruct (finish pl (r_im r) _) as [r' q'] eqn:F.
  injection H as Hs _ _. rewrite <- Hs in *. clear Hs.
  apply finish_spec in F. destruct F as (Fch & Fmade & _ & _ & Hpc).
  destruct (after_launch_quiet k pl (launch k pl r)) as [Qch Qmade _ _ _ Hrel Ql _ _ _ _].
  simpl. split; [|split; [|split; [|split]]].
  - rewrite Fmade, Qmade. reflexivity.
  - rewrite Fch, Qch. reflexivity.
  - reflexivity.
  - rewrite He, !creates_app, (nocreate_creates _ Nr). lia.
  - set (rL := liveness k pl (initialization k pl (registration k pl (launch k pl r)))) in *.
    assert (HX : forall c, r_pc rL = Some c -> exists c0, r_pc r = Some c0 /\ c_l c = c_l c0 /\ (c_del c0 = true -> c_del c = true)).
    { intros c Hc. destruct (pc_rel_some _ _ c Hrel Hc) as (c1 & H1 & Hl1 & Hd1).
      rewrite launch_pc in H1. destruct (deleted_by_launch k pl r).
      - apply del_claim_some in H1. destruct H1 as (c0 & -> & Hl0 & Hd0). exists c0. repeat split; [congruence|auto].
      - exists c1. repeat split; auto. }
    destruct Hpc as [Hpc|(p & Hp & Hpc)]; rewrite Hpc.
    + destruct (r_pc rL) as [c|] eqn:Ec; [right|left; reflexivity].
      destruct (HX c eq_refl) as (c0 & H0 & Hl & Hd). exists c0, c. repeat split; auto.
    + right. destruct (HX p Hp) as (c0 & H0 & Hl & Hd).
      exists c0, (merge p (r_im r) (r_im rL)). repeat split; auto.
      * destruct (merge_l p (r_im r) (r_im rL)) as [M|M]; [left; congruence|right; rewrite M; exact Ql].
      * intros Hd0. destruct (merge_flags p (r_im r) (r_im rL)) as [_ ->]. auto.
Qed.

(* ---------------------------------------------------------------- summary of finalize *)

Lemma finalize_sum k pl s v s' e q : finalize k pl s v = (s', (e, q)) ->
  made s' = made s /\ ch s' = ch s /\ vw s' = vw s /\
  (pc s' = None \/
   exists p p', pc s = Some p /\ pc s' = Some p' /\ (c_l p' = c_l p \/ c_l p' = c_l (norm v)) /\
                (c_del p = true -> c_del p' = true)).
Proof.
  unfold finalize, unfinalize. intros H. cbv zeta in H.
  repeat bmh H; inversion H; subst; clear H; simpl;
    (split; [reflexivity|split; [reflexivity|split; [reflexivity|]]]);
    try (left; reflexivity);
    destruct (pc s) as [p0|] eqn:Ep; simpl in *; try (left; reflexivity); try discriminate;
    try (right; eexists; eexists; split; [reflexivity|split; [reflexivity|split; [first [left; reflexivity|right; reflexivity]|intros; simpl; auto]]]).
  all: try congruence.
Qed.
