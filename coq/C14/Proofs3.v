(* C14 — proofs, part 3: at most one successful Create per NodeClaim while the controller keeps
   running and the launch cache entry does not expire; ordering / justification of the
   conditions inside one reconcile. *)
From KV Require Import C14.Model C14.Spec C14.Proofs C14.Proofs2.

Ltac bmh H :=
  match type of H with
  | context [match ?x with _ => _ end] => destruct x eqn:?
  end.

(* ---------------------------------------------------------------- counting creates *)

Lemma creates_app a b : creates (a ++ b) = (creates a + creates b)%nat.
Proof. unfold creates. rewrite filter_app, app_length. reflexivity. Qed.

Lemma nocreate_creates l : nocreate l = true -> creates l = 0%nat.
Proof.
  induction l as [|a l IH]; [reflexivity|]. simpl. rewrite Bool.andb_true_iff. intros [Ha Hl].
  unfold creates in *. simpl. destruct a; simpl in *; try discriminate; apply IH; exact Hl.
Qed.

Lemma launch_made k pl r : r_made (launch k pl r) = (r_made r + creates (launch_ex k pl r))%nat.
Proof.
  unfold launch, launch_ex, populate, err_of_wr. rewrite cache_hit_norm. simpl.
  destruct (match c_l (r_im r) with LAbsent => LAwait | x => x end); simpl; try lia;
    destruct (cache_hit k r); simpl; try lia;
    destruct (f_create pl); simpl; try (unfold creates; simpl; lia);
    destruct (eff_wr (r_pc r) (f_del_launch pl)); simpl; unfold creates; simpl; lia.
Qed.

(* ---------------------------------------------------------------- summary of the main path *)

Lemma merge_l p st im : c_l (merge p st im) = c_l p \/ c_l (merge p st im) = c_l im.
Proof. unfold merge. repeat bm; simpl; auto. Qed.

Lemma del_claim_some p c : del_claim p = Some c -> exists c0, p = Some c0 /\ c_l c = c_l c0 /\ c_del c = true.
Proof.
  destruct p as [c0|]; simpl; [|discriminate]. destruct (c_fin c0); [|discriminate].
  intros H. injection H as <-. exists c0. repeat split.
Qed.

Lemma pc_rel_some p p' c : pc_rel p p' -> p' = Some c ->
  exists c0, p = Some c0 /\ c_l c = c_l c0 /\ (c_del c0 = true -> c_del c = true).
Proof.
  intros [->| ->] H.
  - exists c. repeat split; auto.
  - apply del_claim_some in H. destruct H as (c0 & -> & Hl & Hd). exists c0. repeat split; auto.
Qed.

Lemma main_path_sum k pl s r s' e q : main_path k pl s r = (s', (e, q)) ->
  made s' = r_made (launch k pl r) /\ ch s' = r_ch (launch k pl r) /\ vw s' = vw s /\
  creates e = (creates (r_effs r) + creates (launch_ex k pl r))%nat /\
  (pc s' = None \/
   exists p p', r_pc r = Some p /\ pc s' = Some p' /\
     (c_l p' = c_l p \/ c_l p' = c_l (r_im (launch k pl r))) /\ (c_del p = true -> c_del p' = true)).
Proof.
  intros H. pose proof (main_path_spec _ _ _ _ _ _ _ H) as (rest & He & Nr & _ & Hvw).
  unfold main_path, subs in H. destruct (finish pl (r_im r) _) as [r' q'] eqn:F.
  injection H as Hs _ _. rewrite <- Hs in *. clear Hs.
  apply finish_spec in F. destruct F as (Fch & Fmade & _ & _ & Hpc).
  destruct (after_launch_quiet k pl (launch k pl r)) as [Qch Qmade _ _ _ Hrel Ql _ _ _ _].
  simpl. split; [|split; [|split; [|split]]].
  - rewrite Fmade, Qmade. reflexivity.
  - rewrite Fch, Qch. reflexivity.
  - reflexivity.
  - rewrite He, !creates_app, (nocreate_creates _ Nr). lia.
  - set (rL := liveness k pl (initialization k pl (registration k pl (launch k pl r)))) in *.
    assert (HX : forall c, r_pc rL = Some c -> exists c0, r_pc r = Some c0 /\ c_l c = c_l c0 /\ (c_del c0 = true -> c_del c = true)).
    { intros c Hc. destruct (pc_rel_some _ _ c Hrel Hc) as (c1 & H1 & Hl1 & Hd1).
      rewrite launch_pc in H1. destruct (deleted_by_launch k pl r).
      - apply del_claim_some in H1. destruct H1 as (c0 & -> & Hl0 & Hd0). exists c0. repeat split; [congruence|auto].
      - exists c1. repeat split; auto. }
    destruct Hpc as [Hpc|(p & Hp & Hpc)]; rewrite Hpc.
    + destruct (r_pc rL) as [c|] eqn:Ec; [right|left; reflexivity].
      destruct (HX c eq_refl) as (c0 & H0 & Hl & Hd). exists c0, c. repeat split; auto.
    + right. destruct (HX p Hp) as (c0 & H0 & Hl & Hd).
      exists c0, (merge p (r_im r) (r_im rL)). repeat split; auto.
      * destruct (merge_l p (r_im r) (r_im rL)) as [M|M]; [left; congruence|right; rewrite M; exact Ql].
      * intros Hd0. destruct (merge_flags p (r_im r) (r_im rL)) as [_ ->]. auto.
Qed.

(* ---------------------------------------------------------------- summary of finalize *)

Definition pc_sum (v : claim) (p0 p1 : option claim) : Prop :=
  p1 = None \/
  exists p p', p0 = Some p /\ p1 = Some p' /\ (c_l p' = c_l p \/ c_l p' = c_l (norm v)) /\
               (c_del p = true -> c_del p' = true).

Lemma pc_sum_refl v p : pc_sum v p p.
Proof. destruct p as [c|]; [right; exists c, c; repeat split; auto|left; reflexivity]. Qed.

Lemma unfinalize_sum v pl s r s' e q : unfinalize pl s r = (s', (e, q)) ->
  made s' = r_made r /\ ch s' = r_ch r /\ vw s' = vw s /\ pc_sum v (r_pc r) (pc s').
Proof.
  unfold unfinalize. intros H.
  destruct (eff_wr (r_pc r) (f_unfin pl)); injection H as <- _ _; simpl;
    (split; [reflexivity|split; [reflexivity|split; [reflexivity|]]]); try apply pc_sum_refl.
  destruct (r_pc r) as [p|]; [|left; reflexivity].
  destruct (c_del p) eqn:D; [left; reflexivity|].
  right. exists p, (cl_fin p false). repeat split; simpl; auto. congruence.
Qed.

Lemma finalize_sum k pl s v s' e q : finalize k pl s v = (s', (e, q)) ->
  made s' = made s /\ ch s' = ch s /\ vw s' = vw s /\ pc_sum v (pc s) (pc s').
Proof.
  unfold finalize. intros H.
  destruct (negb (c_fin v)).
  { injection H as <- _ _. repeat split; try reflexivity. apply pc_sum_refl. }
  set (r := init_rs s (norm v)) in *.
  assert (Base : forall r1, r_made r1 = made s -> r_ch r1 = ch s -> r_pc r1 = pc s -> forall e1 q1,
            (state_of r1 s, (e1, q1)) = (s', (e, q)) ->
            made s' = made s /\ ch s' = ch s /\ vw s' = vw s /\ pc_sum v (pc s) (pc s')).
  { intros r1 H1 H2 H3 e1 q1 E. injection E as <- _ _. simpl. rewrite H1, H2, H3.
    repeat split; try reflexivity. apply pc_sum_refl. }
  assert (Unf : forall r1, r_made r1 = made s -> r_ch r1 = ch s -> pc_sum v (pc s) (r_pc r1) ->
            unfinalize pl s r1 = (s', (e, q)) ->
            made s' = made s /\ ch s' = ch s /\ vw s' = vw s /\ pc_sum v (pc s) (pc s')).
  { intros r1 H1 H2 H3 E. apply (unfinalize_sum v) in E. destruct E as (E1 & E2 & E3 & E4).
    rewrite E1, E2, H1, H2. repeat split; try reflexivity; try exact E3.
    destruct E4 as [E4|(p & p' & Ep & Ep' & El & Ed)]; [left; exact E4|].
    destruct H3 as [H3|(p0 & p1 & Hp0 & Hp1 & Hl & Hd)]; [congruence|].
    rewrite Hp1 in Ep. injection Ep as <-.
    right. exists p0, p'. repeat split; auto.
    destruct El as [El|El]; [rewrite El; exact Hl|right; exact El]. }
  destruct (match c_r v with RTrue => match_count r | _ => 0%nat end) as [|n0].
  - (* no nodes listed *)
    destruct (c_pid v) as [p|]; [|apply (Unf r); try reflexivity; [apply pc_sum_refl|exact H]].
    destruct (f_pdel_err pl); [eapply Base; [| | |exact H]; reflexivity|].
    cbv zeta in H.
    destruct (c_term (r_im (add_eff (set_made r (r_made r) (remove_nat p (r_alive r))) (EPDel (if mem_nat p (r_alive r) then DDeleted else DNotFound))))) eqn:Et.
    + destruct (mem_nat p (r_alive r)); [eapply Base; [| | |exact H]; reflexivity|].
      apply (Unf _) in H; [exact H|reflexivity|reflexivity|apply pc_sum_refl].
    + destruct (eff_wr _ (f_term pl)) eqn:Ew; try (eapply Base; [| | |exact H]; reflexivity).
      assert (PS : pc_sum v (pc s) (option_map (fun p0 => cl_conds p0 (cl_term (norm v) true)) (pc s))).
      { destruct (pc s) as [c|]; simpl; [|left; reflexivity]. right. eexists; eexists. split; [reflexivity|split; [reflexivity|]].
        split; [right; reflexivity|auto]. }
      destruct (mem_nat p (r_alive r)).
      * injection H as <- _ _. simpl. repeat split; try reflexivity. exact PS.
      * apply (Unf _) in H; [exact H|reflexivity|reflexivity|exact PS].
  - destruct (r_nd r) as [nn|] eqn:En.
    + eapply Base; [| | |exact H]; repeat bm; reflexivity.
    + destruct (c_pid v) as [p|]; [|apply (Unf r); try reflexivity; [apply pc_sum_refl|exact H]].
      destruct (f_pdel_err pl); [eapply Base; [| | |exact H]; reflexivity|].
      cbv zeta in H.
      destruct (c_term (r_im (add_eff (set_made r (r_made r) (remove_nat p (r_alive r))) (EPDel (if mem_nat p (r_alive r) then DDeleted else DNotFound))))) eqn:Et.
      * destruct (mem_nat p (r_alive r)); [eapply Base; [| | |exact H]; reflexivity|].
        apply (Unf _) in H; [exact H|reflexivity|reflexivity|apply pc_sum_refl].
      * destruct (eff_wr _ (f_term pl)) eqn:Ew; try (eapply Base; [| | |exact H]; reflexivity).
        assert (PS : pc_sum v (pc s) (option_map (fun p0 => cl_conds p0 (cl_term (norm v) true)) (pc s))).
        { destruct (pc s) as [c|]; simpl; [|left; reflexivity]. right. eexists; eexists. split; [reflexivity|split; [reflexivity|]].
          split; [right; reflexivity|auto]. }
        destruct (mem_nat p (r_alive r)).
        -- injection H as <- _ _. simpl. repeat split; try reflexivity. exact PS.
        -- apply (Unf _) in H; [exact H|reflexivity|reflexivity|exact PS].
Qed.
