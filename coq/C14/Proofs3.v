(* C14 — proofs, part 3: at most one successful Create per NodeClaim while the controller keeps
   running and the launch cache entry does not expire; ordering / justification of the
   conditions inside one reconcile. *)
From KV Require Import C14.Model C14.Spec C14.Proofs C14.Proofs2.

Ltac bmh H :=
  match type of H with
  | context [match ?x with _ => _ end] => destruct x eqn:?
  end.

(* ---------------------------------------------------------------- counting creates *)

Lemma creates_app a b : creates (a ++ b) = (creates a + creates b)%nat.
Proof. unfold creates. rewrite filter_app, app_length. reflexivity. Qed.

Lemma nocreate_creates l : nocreate l = true -> creates l = 0%nat.
Proof.
  induction l as [|a l IH]; [reflexivity|]. simpl. rewrite Bool.andb_true_iff. intros [Ha Hl].
  unfold creates in *. simpl. destruct a; simpl in *; try discriminate; apply IH; exact Hl.
Qed.

Lemma launch_made k pl r : r_made (launch k pl r) = (r_made r + creates (launch_ex k pl r))%nat.
Proof.
  unfold launch, launch_ex, populate, err_of_wr. rewrite cache_hit_norm. simpl.
  destruct (match c_l (r_im r) with LAbsent => LAwait | x => x end); simpl; try lia;
    destruct (cache_hit k r); simpl; try lia;
    dcreate pl; simpl; try (unfold creates; simpl; lia);
    destruct (eff_wr (r_pc r) (f_del_launch pl)); simpl; unfold creates; simpl; lia.
Qed.

(* ---------------------------------------------------------------- summary of the main path *)

Opaque launch registration initialization liveness finish.

Lemma merge_l p st im : c_l (merge p st im) = c_l p \/ c_l (merge p st im) = c_l im.
Proof. unfold merge. repeat bm; simpl; auto. Qed.

Lemma del_claim_some p c : del_claim p = Some c -> exists c0, p = Some c0 /\ c_l c = c_l c0 /\ c_del c = true.
Proof.
  destruct p as [c0|]; simpl; [|discriminate]. destruct (c_fin c0 || c_ffin c0)%bool; [|discriminate].
  intros H. injection H as <-. exists c0. repeat split.
Qed.

Lemma pc_rel_some p p' c : pc_rel p p' -> p' = Some c ->
  exists c0, p = Some c0 /\ c_l c = c_l c0 /\ (c_del c0 = true -> c_del c = true).
Proof.
  intros [->| ->] H.
  - exists c. repeat split; auto.
  - apply del_claim_some in H. destruct H as (c0 & -> & Hl & Hd). exists c0. repeat split; auto.
Qed.

Lemma main_path_sum k pl s r s' e q : main_path k pl s r = (s', (e, q)) ->
  made s' = r_made (launch k pl r) /\ ch s' = r_ch (launch k pl r) /\ vw s' = vw s /\
  creates e = (creates (r_effs r) + creates (launch_ex k pl r))%nat /\
  (pc s' = None \/
   exists p p', r_pc r = Some p /\ pc s' = Some p' /\
     (c_l p' = c_l p \/ c_l p' = c_l (r_im (launch k pl r))) /\ (c_del p = true -> c_del p' = true)).
Proof.
  intros H. pose proof (main_path_spec _ _ _ _ _ _ _ H) as (rest & He & Nr & _ & Hvw).
  unfold main_path, subs in H. destruct (finish pl (r_im r) _) as [r' q'] eqn:F.
  injection H as Hs _ _. rewrite <- Hs in *. clear Hs.
  apply finish_spec in F. destruct F as (Fch & Fmade & _ & _ & Hpc).
  destruct (after_launch_quiet k pl (launch k pl r)) as [Qch Qmade _ _ _ Hrel Ql _ _ _ _].
  simpl. split; [|split; [|split; [|split]]].
  - rewrite Fmade, Qmade. reflexivity.
  - rewrite Fch, Qch. reflexivity.
  - reflexivity.
  - rewrite He, !creates_app, (nocreate_creates _ Nr). lia.
  - set (rL := liveness k pl (initialization k pl (registration k pl (launch k pl r)))) in *.
    assert (HX : forall c, r_pc rL = Some c -> exists c0, r_pc r = Some c0 /\ c_l c = c_l c0 /\ (c_del c0 = true -> c_del c = true)).
    { intros c Hc. destruct (pc_rel_some _ _ c Hrel Hc) as (c1 & H1 & Hl1 & Hd1).
      rewrite launch_pc in H1. destruct (deleted_by_launch k pl r).
      - apply del_claim_some in H1. destruct H1 as (c0 & -> & Hl0 & Hd0). exists c0. repeat split; [congruence|auto].
      - exists c1. repeat split; auto. }
    destruct Hpc as [Hpc|(p & Hp & Hpc)]; rewrite Hpc.
    + destruct (r_pc rL) as [c|] eqn:Ec; [right|left; reflexivity].
      destruct (HX c eq_refl) as (c0 & H0 & Hl & Hd). exists c0, c. repeat split; auto.
    + right. destruct (HX p Hp) as (c0 & H0 & Hl & Hd).
      exists c0, (merge p (r_im r) (r_im rL)). repeat split; auto.
      * destruct (merge_l p (r_im r) (r_im rL)) as [M|M]; [left; congruence|right; rewrite M; exact Ql].
      * intros Hd0. destruct (merge_flags p (r_im r) (r_im rL)) as [_ ->]. auto.
Qed.

(* ---------------------------------------------------------------- summary of finalize *)

Definition pc_sum (v : claim) (p0 p1 : option claim) : Prop :=
  p1 = None \/
  exists p p', p0 = Some p /\ p1 = Some p' /\ (c_l p' = c_l p \/ c_l p' = c_l (norm v)) /\
               (c_del p = true -> c_del p' = true).

Lemma pc_sum_refl v p : pc_sum v p p.
Proof. destruct p as [c|]; [right; exists c, c; repeat split; auto|left; reflexivity]. Qed.

Lemma unfinalize_sum v pl s r s' e q : unfinalize pl s r = (s', (e, q)) ->
  made s' = r_made r /\ ch s' = r_ch r /\ vw s' = vw s /\ pc_sum v (r_pc r) (pc s').
Proof.
  unfold unfinalize. intros H.
  destruct (eff_wr (r_pc r) (f_unfin pl)); injection H as <- _ _; simpl;
    (split; [reflexivity|split; [reflexivity|split; [reflexivity|]]]); try apply pc_sum_refl.
  destruct (r_pc r) as [p|]; [|left; reflexivity].
  destruct (c_del p && negb (c_ffin p))%bool eqn:D; [left; reflexivity|].
  right. exists p, (cl_fin p false). repeat split; simpl; auto; try congruence.
Qed.

Lemma finalize_sum k pl s v s' e q : finalize k pl s v = (s', (e, q)) ->
  made s' = made s /\ ch s' = ch s /\ vw s' = vw s /\ pc_sum v (pc s) (pc s').
Proof.
  unfold finalize. intros H.
  destruct (negb (c_fin v)).
  { injection H as <- _ _. repeat split; try reflexivity. apply pc_sum_refl. }
  destruct (match c_r v, c_pid v with RTrue, Some _ => f_list_fin pl | _, _ => false end).
  { injection H as <- _ _. repeat split; try reflexivity. apply pc_sum_refl. }
  set (r := init_rs s (norm v)) in *.
  assert (Base : forall r1, r_made r1 = made s -> r_ch r1 = ch s -> r_pc r1 = pc s -> forall e1 q1,
            (state_of r1 s, (e1, q1)) = (s', (e, q)) ->
            made s' = made s /\ ch s' = ch s /\ vw s' = vw s /\ pc_sum v (pc s) (pc s')).
  { intros r1 H1 H2 H3 e1 q1 E. injection E as <- _ _. simpl. rewrite H1, H2, H3.
    repeat split; try reflexivity. apply pc_sum_refl. }
  assert (Unf : forall r1, r_made r1 = made s -> r_ch r1 = ch s -> pc_sum v (pc s) (r_pc r1) ->
            unfinalize pl s r1 = (s', (e, q)) ->
            made s' = made s /\ ch s' = ch s /\ vw s' = vw s /\ pc_sum v (pc s) (pc s')).
  { intros r1 H1 H2 H3 E. apply (unfinalize_sum v) in E. destruct E as (E1 & E2 & E3 & E4).
    rewrite E1, E2, H1, H2. repeat split; try reflexivity; try exact E3.
    destruct E4 as [E4|(p & p' & Ep & Ep' & El & Ed)]; [left; exact E4|].
    destruct H3 as [H3|(p0 & p1 & Hp0 & Hp1 & Hl & Hd)]; [congruence|].
    rewrite Hp1 in Ep. injection Ep as <-.
    right. exists p0, p'. repeat split; auto.
    destruct El as [El|El]; [rewrite El; exact Hl|right; exact El]. }
  destruct (match c_r v with RTrue => match_count r | _ => 0%nat end) as [|n0].
  - (* no nodes listed *)
    destruct (c_pid v) as [p|]; [|apply (Unf r); try reflexivity; [apply pc_sum_refl|exact H]].
    destruct (f_pdel_err pl); [eapply Base; [| | |exact H]; reflexivity|].
    cbv zeta in H.
    destruct (c_term (r_im (add_eff (set_made r (r_made r) (remove_nat p (r_alive r))) (EPDel (if mem_nat p (r_alive r) then DDeleted else DNotFound))))) eqn:Et.
    + destruct (mem_nat p (r_alive r)); [eapply Base; [| | |exact H]; reflexivity|].
      apply (Unf _) in H; [exact H|reflexivity|reflexivity|apply pc_sum_refl].
    + destruct (eff_wr _ (f_term pl)) eqn:Ew; try (eapply Base; [| | |exact H]; reflexivity).
      assert (PS : pc_sum v (pc s) (option_map (fun p0 => cl_conds p0 (cl_term (norm v) true)) (pc s))).
      { destruct (pc s) as [c|]; simpl; [|left; reflexivity]. right. eexists; eexists. split; [reflexivity|split; [reflexivity|]].
        split; [right; reflexivity|auto]. }
      destruct (mem_nat p (r_alive r)).
      * injection H as <- _ _. simpl. repeat split; try reflexivity. exact PS.
      * apply (Unf _) in H; [exact H|reflexivity|reflexivity|exact PS].
  - destruct (r_nd r) as [nn|] eqn:En.
    + destruct (negb (n_del nn) && f_ndel_err pl); [eapply Base; [| | |exact H]; reflexivity|].
      eapply Base; [| | |exact H]; repeat bm; reflexivity.
    + destruct (c_pid v) as [p|]; [|apply (Unf r); try reflexivity; [apply pc_sum_refl|exact H]].
      destruct (f_pdel_err pl); [eapply Base; [| | |exact H]; reflexivity|].
      cbv zeta in H.
      destruct (c_term (r_im (add_eff (set_made r (r_made r) (remove_nat p (r_alive r))) (EPDel (if mem_nat p (r_alive r) then DDeleted else DNotFound))))) eqn:Et.
      * destruct (mem_nat p (r_alive r)); [eapply Base; [| | |exact H]; reflexivity|].
        apply (Unf _) in H; [exact H|reflexivity|reflexivity|apply pc_sum_refl].
      * destruct (eff_wr _ (f_term pl)) eqn:Ew; try (eapply Base; [| | |exact H]; reflexivity).
        assert (PS : pc_sum v (pc s) (option_map (fun p0 => cl_conds p0 (cl_term (norm v) true)) (pc s))).
        { destruct (pc s) as [c|]; simpl; [|left; reflexivity]. right. eexists; eexists. split; [reflexivity|split; [reflexivity|]].
          split; [right; reflexivity|auto]. }
        destruct (mem_nat p (r_alive r)).
        -- injection H as <- _ _. simpl. repeat split; try reflexivity. exact PS.
        -- apply (Unf _) in H; [exact H|reflexivity|reflexivity|exact PS].
Qed.

(* ---------------------------------------------------------------- the at-most-once invariant *)

Definition PL (x : option claim) : Prop := x = None \/ exists p, x = Some p /\ c_l p = LTrue.
Definition PersL (s : state) : Prop := PL (pc s).
Definition Dead (s : state) : Prop := vw s = None \/ exists v, vw s = Some v /\ c_del v = true.
Definition ViewOK (s : state) : Prop :=
  exists v, vw s = Some v /\ c_del v = false /\ (c_l v = LTrue \/ c_fin v = false).

Record inv1 (s : state) : Prop := mkInv1 {
  i_a : (made s <= 1)%nat;
  i_i : forall v, vw s = Some v -> c_l v = LTrue -> PersL s;
  i_iii : forall v, vw s = Some v -> c_del v = true -> pc s = None \/ exists p, pc s = Some p /\ c_del p = true;
  i_iv : vw s = None -> pc s = None;
  i_s : made s = 1%nat -> ch s <> None \/ Dead s \/ (ViewOK s /\ PersL s) }.

Lemma inv1_init : inv1 init.
Proof.
  constructor; simpl; try lia; try discriminate.
  intros v Hv Hl. injection Hv as <-. discriminate.
  intros v Hv Hl. injection Hv as <-. discriminate.
Qed.

Lemma fresh_hit k r s : r_ch r = ch s -> r_now r = now s -> entry_fresh k s = true -> ch s <> None ->
  cache_hit k r <> None.
Proof.
  unfold cache_hit, entry_fresh. intros -> -> H Hn. destruct (ch s) as [[p t]|]; [|congruence].
  rewrite H. discriminate.
Qed.

Lemma main_path_inv1 k pl s r s' e q v : main_path k pl s r = (s', (e, q)) ->
  (c_l (r_im r) <> LTrue -> entry_fresh k s = true) -> inv1 s ->
  vw s = Some v -> c_del v = false ->
  r_ch r = ch s -> r_made r = made s -> r_now r = now s ->
  (c_l v = LTrue -> c_l (r_im r) = LTrue /\ PL (r_pc r)) ->
  (ViewOK s -> PersL s -> c_l (r_im r) = LTrue) ->
  (c_l (r_im r) = LTrue -> ViewOK s /\ PL (r_pc r)) ->
  inv1 s'.
Proof.
  intros H Hf Inv Hv Hd H1 H2 H3 HA HB HC.
  apply main_path_sum in H. destruct H as (Sm & Sc & Sv & _ & Sp).
  destruct (launch_cache k pl r) as (L1 & L2 & L3).
  assert (PLs' : c_l (r_im (launch k pl r)) = LTrue -> PL (r_pc r) -> PersL s').
  { intros Hl [Hn|(p & Hp & Hpl)]; unfold PersL, PL.
    - destruct Sp as [Sp|(p0 & p' & Hp0 & _)]; [left; exact Sp|congruence].
    - destruct Sp as [Sp|(p0 & p' & Hp0 & Hp' & Hl' & _)]; [left; exact Sp|].
      right. exists p'. split; [exact Hp'|]. rewrite Hp in Hp0. injection Hp0 as <-.
      destruct Hl' as [->| ->]; assumption. }
  assert (Vok : ViewOK s -> ViewOK s').
  { intros (v0 & E0 & R0). exists v0. rewrite Sv. split; assumption. }
  assert (NoDead : ~ Dead s).
  { intros [D|(v0 & D & D')]; [congruence|]. rewrite Hv in D. injection D as <-. congruence. }
  destruct (lcond_eqb (c_l (r_im r)) LTrue) eqn:El.
  - (* Launched already True in the object read *)
    apply lcond_eqb_eq in El. destruct (L1 El) as (Em & Ec & Eim & _). destruct (HC El) as [Hvok Hpl].
    constructor.
    + rewrite Sm, Em, H2. apply Inv.
    + intros v' _ _. apply PLs'; assumption.
    + intros v' Hv' Hd'. rewrite Sv, Hv in Hv'. injection Hv' as <-. congruence.
    + rewrite Sv, Hv. discriminate.
    + intros _. right. right. split; [apply Vok, Hvok|apply PLs'; assumption].
  - assert (Nl : c_l (r_im r) <> LTrue) by (intros X; apply lcond_eqb_eq in X; congruence).
    assert (NA : c_l v <> LTrue) by (intros X; destruct (HA X) as [Y _]; exact (Nl Y)).
    destruct (cache_hit k r) as [p|] eqn:Eh.
    + destruct (L2 Nl p eq_refl) as (Em & Ec & Eim & _).
      constructor.
      * rewrite Sm, Em, H2. apply Inv.
      * intros v' Hv' Hl'. rewrite Sv, Hv in Hv'. injection Hv' as <-. congruence.
      * intros v' Hv' Hd'. rewrite Sv, Hv in Hv'. injection Hv' as <-. congruence.
      * rewrite Sv, Hv. discriminate.
      * intros _. left. rewrite Sc. exact Ec.
    + assert (M0 : made s = 0%nat).
      { destruct (made s) as [|[|m]] eqn:Em; [reflexivity| |pose proof (i_a _ Inv); lia].
        exfalso. destruct (i_s _ Inv Em) as [C|[C|[C1 C2]]].
        - exact (fresh_hit k r s H1 H3 (Hf Nl) C Eh).
        - exact (NoDead C).
        - exact (Nl (HB C1 C2)). }
      destruct (L3 Nl eq_refl) as [(Em & Ec & _)|(Em & Ec & _)].
      * constructor.
        -- rewrite Sm, Em, H2, M0. lia.
        -- intros v' Hv' Hl'. rewrite Sv, Hv in Hv'. injection Hv' as <-. congruence.
        -- intros v' Hv' Hd'. rewrite Sv, Hv in Hv'. injection Hv' as <-. congruence.
        -- rewrite Sv, Hv. discriminate.
        -- intros _. left. rewrite Sc. exact Ec.
      * constructor.
        -- rewrite Sm, Em, H2, M0. lia.
        -- intros v' Hv' Hl'. rewrite Sv, Hv in Hv'. injection Hv' as <-. congruence.
        -- intros v' Hv' Hd'. rewrite Sv, Hv in Hv'. injection Hv' as <-. congruence.
        -- rewrite Sv, Hv. discriminate.
        -- rewrite Sm, Em, H2, M0. discriminate.
Qed.

Lemma reconcile_inv1 k pl s s' e q : reconcile k pl s = (s', (e, q)) ->
  rec_fresh k pl s = true -> inv1 s -> inv1 s'.
Proof.
  unfold reconcile, rec_fresh, consults. intros H Hf Inv.
  destruct (vw s) as [v|] eqn:Ev; [|injection H as <- _ _; exact Inv].
  destruct (k_managed k); simpl in *; [|injection H as <- _ _; exact Inv].
  destruct (c_del v) eqn:Ed.
  { (* finalize *)
    apply finalize_sum in H. destruct H as (Fm & Fc & Fv & Fp).
    assert (D' : Dead s') by (right; exists v; rewrite Fv; split; assumption).
    constructor.
    - rewrite Fm. apply Inv.
    - intros v' Hv' Hl'. rewrite Fv, Ev in Hv'. injection Hv' as <-.
      destruct Fp as [Fp|(p & p' & Hp & Hp' & Hl & _)]; [left; exact Fp|].
      right. exists p'. split; [exact Hp'|].
      destruct (i_i _ Inv v Ev Hl') as [C|(p0 & Hp0 & Hl0)]; [congruence|].
      rewrite Hp in Hp0. injection Hp0 as <-.
      destruct Hl as [->| ->]; [exact Hl0|apply norm_l_true; exact Hl'].
    - intros v' Hv' Hd'.
      destruct Fp as [Fp|(p & p' & Hp & Hp' & _ & Hdd)]; [left; exact Fp|].
      right. exists p'. split; [exact Hp'|]. apply Hdd.
      destruct (i_iii _ Inv v Ev Ed) as [C|(p0 & Hp0 & Hd0)]; [congruence|].
      rewrite Hp in Hp0. injection Hp0 as <-. exact Hd0.
    - rewrite Fv, Ev. discriminate.
    - intros _. right. left. exact D'. }
  destruct (c_fin v) eqn:Efin.
  - (* the cached object carries the finalizer *)
    rewrite ?Ed, ?Efin in Hf. simpl in Hf.
    eapply main_path_inv1; try eassumption; try reflexivity; simpl.
    + intros Nl. destruct (lcond_eqb (c_l v) LTrue) eqn:E; [apply lcond_eqb_eq in E; congruence|exact Hf].
    + intros Hl. split; [exact Hl|]. exact (i_i _ Inv v Ev Hl).
    + intros (v0 & E0 & _ & [R|R]) _; rewrite Ev in E0; injection E0 as <-; [exact R|congruence].
    + intros Hl. split; [exists v; repeat split; auto|exact (i_i _ Inv v Ev Hl)].
  - simpl in H. destruct (eff_wr (pc s) (f_fin pl)) eqn:Ew.
    + destruct (pc s) as [p|] eqn:Ep; [|exfalso; unfold eff_wr in Ew; destruct (f_fin pl); discriminate].
      rewrite ?Ed, ?Efin, ?Ep, ?Ew in Hf. simpl in Hf.
      eapply main_path_inv1; try eassumption; try reflexivity; simpl.
      * intros Nl. destruct (lcond_eqb (c_l p) LTrue) eqn:E; [apply lcond_eqb_eq in E; congruence|exact Hf].
      * intros Hl. destruct (i_i _ Inv v Ev Hl) as [C|(p0 & Hp0 & Hl0)]; [rewrite Ep in C; discriminate|].
        rewrite Ep in Hp0. injection Hp0 as <-. split; [exact Hl0|].
        right. exists (cl_fin p true). split; [reflexivity|exact Hl0].
      * intros _ [C|(p0 & Hp0 & Hl0)]; [rewrite Ep in C; discriminate|].
        rewrite Ep in Hp0. injection Hp0 as <-. exact Hl0.
      * intros Hl. split; [exists v; repeat split; auto|].
        right. exists (cl_fin p true). split; [reflexivity|exact Hl].
    + injection H as <- _ _. destruct s; exact Inv.
    + destruct s as [pc0 vw0 nd0 dp0 ch0 made0 alive0 now0]; simpl in *; destruct pc0; injection H as <- _ _; exact Inv.
    + injection H as <- _ _. destruct s; exact Inv.
Qed.

Lemma PL_del_claim x : PL x -> PL (del_claim x).
Proof.
  intros [->|(p & -> & Hl)]; [left; reflexivity|]. simpl. destruct (c_fin p || c_ffin p)%bool; [|left; reflexivity].
  right. eexists. split; [reflexivity|exact Hl].
Qed.

Lemma inv1_ext s s' : pc s' = pc s -> vw s' = vw s -> ch s' = ch s -> made s' = made s -> inv1 s -> inv1 s'.
Proof.
  intros E1 E2 E3 E4 [A B C D E]. unfold PersL, Dead, ViewOK in *.
  constructor; unfold PersL, Dead, ViewOK; rewrite ?E1, ?E2, ?E3, ?E4; assumption.
Qed.

Lemma step_inv1 k s o s' x : step k s o = (s', x) -> is_restart o = false ->
  (match o with Rec pl => rec_fresh k pl s = true | _ => True end) -> inv1 s -> inv1 s'.
Proof.
  intros H Hr Hf Inv.
  destruct o; try discriminate;
    try (match goal with H : step _ _ (Rec _) = _ |- _ => idtac end;
         destruct x as [e q]; simpl in H; eapply reconcile_inv1; eassumption);
    simpl in H; injection H as <- _.
  - (* Sync *)
    constructor; simpl.
    + apply Inv.
    + intros v Hv Hl. right. exists v. split; assumption.
    + intros v Hv Hd. right. exists v. split; assumption.
    + auto.
    + intros Hm. destruct (i_s _ Inv Hm) as [C|[C|[C1 C2]]]; [left; exact C| |].
      * right. left. unfold Dead; simpl. destruct C as [C|(v & Hv & Hd)].
        -- left. apply (i_iv _ Inv C).
        -- destruct (i_iii _ Inv v Hv Hd) as [E|(p & Hp & Hdp)]; [left; exact E|right; exists p; split; assumption].
      * unfold Dead, ViewOK, PersL, PL in *; simpl in *.
        destruct C2 as [E|(p & Hp & Hl)]; [right; left; left; exact E|].
        destruct (c_del p) eqn:Dp.
        -- right. left. right. exists p. split; assumption.
        -- right. right. split; [exists p; repeat split; auto|right; exists p; split; assumption].
  - (* Tick *) apply (inv1_ext s); auto.
  - (* EnvDelete *)
    constructor; simpl.
    + apply Inv.
    + intros v Hv Hl. apply PL_del_claim. exact (i_i _ Inv v Hv Hl).
    + intros v Hv Hd. destruct (pc s) as [p|]; simpl; [|left; reflexivity].
      destruct (c_fin p || c_ffin p)%bool; [right; eexists; split; [reflexivity|reflexivity]|left; reflexivity].
    + intros Hv. rewrite (i_iv _ Inv Hv). reflexivity.
    + intros Hm. destruct (i_s _ Inv Hm) as [C|[C|[C1 C2]]]; [left; exact C|right; left; exact C|].
      right. right. split; [exact C1|apply PL_del_claim; exact C2].
  - (* NodeAppear *)
    destruct (made s) eqn:Em; [exact Inv|]. destruct (nd s); [exact Inv|]. apply (inv1_ext s); simpl; auto.
  - apply (inv1_ext s); auto.
  - apply (inv1_ext s); auto.
  - apply (inv1_ext s); auto.
  - apply (inv1_ext s); auto.
  - destruct (nd s); [|exact Inv]. apply (inv1_ext s); auto.
  - apply (inv1_ext s); auto.
  - destruct (dp s); [exact Inv|]. apply (inv1_ext s); auto.
  - (* ForeignFin *)
    destruct (set_ffin_cases (pc s) b) as [E|(c & Hc & E)].
    + constructor; simpl; rewrite ?E.
      * apply Inv.
      * intros v Hv Hl. left. reflexivity.
      * intros v Hv Hd. left. reflexivity.
      * reflexivity.
      * intros Hm. destruct (i_s _ Inv Hm) as [C|[C|[C1 C2]]]; [left; exact C|right; left; exact C|].
        right. right. split; [exact C1|left; reflexivity].
    + constructor; simpl; rewrite ?E.
      * apply Inv.
      * intros v Hv Hl. destruct (i_i _ Inv v Hv Hl) as [C|(p & Hp & Hpl)]; [congruence|].
        right. eexists. split; [reflexivity|]. simpl. congruence.
      * intros v Hv Hd. destruct (i_iii _ Inv v Hv Hd) as [C|(p & Hp & Hpd)]; [congruence|].
        right. eexists. split; [reflexivity|]. simpl. congruence.
      * intros Hv. rewrite (i_iv _ Inv Hv) in Hc. discriminate.
      * intros Hm. destruct (i_s _ Inv Hm) as [C|[C|[C1 C2]]]; [left; exact C|right; left; exact C|].
        right. right. split; [exact C1|]. destruct C2 as [C2|(p & Hp & Hpl)]; [congruence|].
        right. eexists. split; [reflexivity|]. simpl. congruence.
Qed.

(* number of successful creates in the frames = instances made *)
Lemma reconcile_creates k pl s s' e q : reconcile k pl s = (s', (e, q)) -> made s' = (made s + creates e)%nat.
Proof.
  unfold reconcile. intros H.
  destruct (vw s) as [v|]; [|injection H as <- <- _; unfold creates; simpl; lia].
  destruct (negb (k_managed k)); [injection H as <- <- _; unfold creates; simpl; lia|].
  destruct (c_del v).
  { pose proof (finalize_nocreate _ _ _ _ _ _ _ H) as N. apply finalize_sum in H. destruct H as (-> & _).
    rewrite (nocreate_creates _ N). lia. }
  destruct (c_fin v).
  - apply main_path_sum in H. destruct H as (-> & _ & _ & -> & _). rewrite launch_made. simpl. unfold creates; simpl; lia.
  - simpl in H. destruct (eff_wr (pc s) (f_fin pl)).
    + destruct (pc s).
      * apply main_path_sum in H. destruct H as (-> & _ & _ & -> & _). rewrite launch_made. simpl. unfold creates; simpl; lia.
      * injection H as <- <- _. unfold creates; simpl; lia.
    + injection H as <- <- _. unfold creates; simpl; lia.
    + destruct (pc s); injection H as <- <- _; unfold creates; simpl; lia.
    + injection H as <- <- _. unfold creates; simpl; lia.
Qed.

Lemma step_creates k s o s' e q : step k s o = (s', (e, q)) -> made s' = (made s + creates e)%nat.
Proof.
  destruct o; try (simpl; intros H; injection H as <- <- _; simpl; unfold creates; simpl; try lia).
  - apply reconcile_creates.
  - destruct (made s) eqn:Em; [simpl; lia|]. destruct (nd s); simpl; lia.
  - destruct (nd s); simpl; lia.
  - destruct (dp s); simpl; lia.
Qed.

Lemma run_creates k ops : forall s, made (snd (run k s ops)) = (made s + total_creates (fst (run k s ops)))%nat.
Proof.
  induction ops as [|o ops IH]; intros s; simpl; [lia|].
  destruct (step k s o) as [s' [e q]] eqn:E. specialize (IH s'). destruct (run k s' ops) as [fs sf]. simpl in *.
  rewrite IH, (step_creates _ _ _ _ _ _ E). lia.
Qed.

Lemma run_inv1 k ops : forall s, no_restart ops -> no_expiry_from k s ops = true -> inv1 s -> inv1 (snd (run k s ops)).
Proof.
  induction ops as [|o ops IH]; intros s Hr He Inv; simpl; [exact Inv|].
  destruct (step k s o) as [s' x] eqn:E. destruct x as [e q].
  inversion Hr as [|? ? Hr1 Hr2]; subst. simpl in He. apply Bool.andb_true_iff in He. destruct He as [He1 He2].
  rewrite E in He2. simpl in He2.
  specialize (IH s' Hr2 He2). destruct (run k s' ops) as [fs sf]. simpl in *. apply IH.
  eapply step_inv1; try eassumption. destruct o; try exact I. exact He1.
Qed.

(* While the controller keeps running and the launch cache entry is within its TTL whenever the
   NodeClaim is reconciled, the provider creates at most one instance for it: for every fault
   plan, every staleness of the cached object, every order of environment events. *)
Lemma create_at_most_once_l k ops : no_restart ops -> no_expiry k ops = true ->
  (total_creates (trace k ops) <= 1)%nat.
Proof.
  intros Hr He. unfold trace. pose proof (run_creates k ops init) as Hc. simpl in Hc.
  pose proof (run_inv1 k ops init Hr He inv1_init) as Inv. rewrite <- Hc. apply Inv.
Qed.

(* Both hypotheses are needed. *)
Definition okp : plan :=
  mkPlan WOk POk WOk false HReady WOk WOk false WOk WOk WOk WOk WOk WOk WOk false WOk WOk false false.
Definition status_lost : plan :=
  mkPlan WOk POk WOk false HReady WOk WOk false WOk WOk WOk WOk WOk WOk WErr false WOk WOk false false.
Definition k0 : cfg := mkCfg 3600 300 900 true false false false false.

Lemma restart_duplicates : total_creates (trace k0 [Rec status_lost; Restart; Rec okp]) = 2%nat.
Proof. vm_compute. reflexivity. Qed.

Lemma expiry_duplicates : total_creates (trace k0 [Rec status_lost; Tick 3601; Rec okp]) = 2%nat /\
                          no_expiry k0 [Rec status_lost; Tick 3601; Rec okp] = false /\
                          total_creates (trace k0 [Rec status_lost; Tick 3600; Rec okp]) = 1%nat.
Proof. vm_compute. repeat split; reflexivity. Qed.

(* ---------------------------------------------------------------- inside one reconcile *)

Transparent launch registration initialization liveness finish.

(* pid-link: the object carries a provider id only together with Launched=True *)
Definition linked (c : claim) : Prop := c_l c <> LTrue -> c_pid c = None.

Lemma node_eqb_true a b : node_eqb a b = true -> a = b.
Proof.
  destruct a, b. unfold node_eqb; simpl. rewrite !Bool.andb_true_iff.
  intros [[[[[[[[[H1 H2] H3] H4] H5] H6] H7] H8] H9] H10].
  apply Nat.eqb_eq in H1.
  apply Bool.eqb_prop in H2, H3, H4, H5, H6, H7, H8, H9, H10. subst. reflexivity.
Qed.

Lemma pool_then_registered_nd k pl r : r_nd (pool_then_registered k pl r) = r_nd r.
Proof. unfold pool_then_registered, registered_now. repeat bm; simpl; reflexivity. Qed.

Lemma hook_return_keeps pl r : r_im (hook_return pl r) = r_im r /\ r_nd (hook_return pl r) = r_nd r.
Proof. unfold hook_return. repeat bm; simpl; split; reflexivity. Qed.

(* Registered turns True only for a claim with a provider id whose single node is synced and has
   lost the unregistered taint *)
Lemma registration_justified k pl r :
  c_r (r_im r) <> RTrue -> c_r (r_im (registration k pl r)) = RTrue ->
  node_registered_ok (r_nd (registration k pl r)) = true /\ c_pid (r_im r) <> None.
Proof.
  intros Hn. unfold registration.
  destruct (c_r (r_im r)) eqn:Er; try congruence.
  all: destruct (c_pid (r_im r)) as [pid0|] eqn:Ep; [|simpl; congruence].
  all: destruct (f_list_reg pl); [simpl; congruence|].
  all: destruct (match_count r) as [|[|[|m]]]; try (simpl; congruence).
  all: destruct (r_nd r) as [n|] eqn:En; try (simpl; congruence).
  all: destruct (hooks_ok k pl) eqn:Eh.
  all: try (destruct (node_eqb n (nd_sync k n)); [|destruct (f_npatch_reg pl)]; unfold err_of_wr; simpl;
            rewrite ?(proj1 (hook_return_keeps _ _)); simpl; congruence).
  all: destruct (node_eqb n (nd_registered (nd_sync k n))) eqn:Ee.
  all: try (apply node_eqb_true in Ee; intros _; split; [|congruence];
            rewrite pool_then_registered_nd; unfold registered_now; simpl; rewrite En, Ee; reflexivity).
  all: destruct (f_npatch_reg pl); unfold err_of_wr; simpl; try congruence.
  all: intros _; split; [|congruence]; rewrite pool_then_registered_nd; reflexivity.
Qed.

(* Initialized turns True only when Registered is True and the node is Ready, without startup and
   ephemeral taints, with the requested extended resource and the initialized label *)
Lemma initialization_justified k pl r :
  c_i (r_im r) <> ITrue -> c_i (r_im (initialization k pl r)) = ITrue ->
  node_initialized_ok k (r_nd (initialization k pl r)) = true /\ c_r (r_im r) = RTrue.
Proof.
  intros Hn. unfold initialization, set_i.
  destruct (c_i (r_im r)) eqn:Ei; try congruence.
  all: destruct (c_r (r_im r)) eqn:Er; try (simpl; congruence).
  all: destruct (c_pid (r_im r)) as [pid0|]; [|simpl; congruence].
  all: destruct (f_list_init pl); [simpl; congruence|].
  all: destruct (match_count r) as [|[|[|m]]]; try (simpl; congruence).
  all: destruct (r_nd r) as [n|] eqn:En; try (simpl; congruence).
  all: destruct (n_ready n) eqn:E1; simpl; try congruence.
  all: destruct (k_startup k && n_startup n)%bool eqn:E2; simpl; try congruence.
  all: destruct (n_eph n || n_unreg n)%bool eqn:E3; simpl; try congruence.
  all: destruct (k_ext k && negb (n_ext n))%bool eqn:E4; simpl; try congruence.
  all: apply Bool.orb_false_iff in E3; destruct E3 as [E3 E3'].
  all: assert (E5 : (negb (k_ext k) || n_ext n)%bool = true) by (destruct (k_ext k), (n_ext n); simpl in *; congruence).
  all: destruct (n_initlabel n) eqn:E6; simpl.
  all: try (intros _; split; [|reflexivity]; rewrite En; simpl; rewrite E1, E2, E3, E3', E5, E6; reflexivity).
  all: destruct (f_npatch_init pl); unfold err_of_wr; simpl; try congruence.
  all: intros _; split; [|reflexivity]; rewrite E1, E2, E3, E3', E5; reflexivity.
Qed.

(* Launched turns True only with an instance: created in this reconcile or remembered by the
   launch cache; the provider id is set at the same time *)
Lemma launch_justified k pl r :
  c_l (r_im r) <> LTrue -> c_l (r_im (launch k pl r)) = LTrue ->
  (cache_hit k r <> None \/ launch_ex k pl r = [ECreate POk]) /\ c_pid (r_im (launch k pl r)) <> None.
Proof.
  intros Hn Hl. destruct (launch_cache k pl r) as (_ & L2 & L3).
  destruct (cache_hit k r) as [p|] eqn:Eh.
  - destruct (L2 Hn p eq_refl) as (_ & _ & _ & Hp). split; [left; discriminate|exact Hp].
  - destruct (L3 Hn eq_refl) as [(_ & _ & _ & Hp & Hx)|(_ & _ & Hc & _)]; [|congruence].
    split; [right; exact Hx|exact Hp].
Qed.

(* the object a reconcile writes keeps the order Launched, Registered, Initialized, given that the
   object it read has it (and carries a provider id only when Launched) *)
Lemma launch_linked k pl r : linked (r_im r) -> linked (r_im (launch k pl r)).
Proof.
  intros Hl. destruct (launch_cache k pl r) as (L1 & L2 & L3). unfold linked in *.
  destruct (lcond_eqb (c_l (r_im r)) LTrue) eqn:E.
  - apply lcond_eqb_eq in E. destruct (L1 E) as (_ & _ & E' & _). congruence.
  - assert (Nl : c_l (r_im r) <> LTrue) by (intros X; apply lcond_eqb_eq in X; congruence).
    destruct (cache_hit k r) as [p|] eqn:Eh.
    + destruct (L2 Nl p eq_refl) as (_ & _ & E' & _). congruence.
    + destruct (L3 Nl eq_refl) as [(_ & _ & E' & _)|(_ & _ & _ & Ep & _)]; [congruence|].
      intros _. rewrite Ep. exact (Hl Nl).
Qed.

Lemma launch_keeps_ri k pl r :
  (c_r (r_im (launch k pl r)) = RTrue <-> c_r (r_im r) = RTrue) /\
  (c_i (r_im (launch k pl r)) = ITrue <-> c_i (r_im r) = ITrue).
Proof.
  unfold launch, populate, err_of_wr. rewrite cache_hit_norm. simpl.
  repeat bm; simpl; split; split; intros H; try exact H; try congruence;
    destruct (c_r (r_im r)); destruct (c_i (r_im r)); simpl in *; congruence.
Qed.

Lemma subs_ordered k pl r :
  ordered (r_im r) -> linked (r_im r) -> ordered (r_im (subs k pl r)).
Proof.
  intros [O1 O2] Hl. unfold subs.
  set (r1 := launch k pl r). set (r2 := registration k pl r1). set (r3 := initialization k pl r2).
  pose proof (launch_linked k pl r Hl) as Hl1. fold r1 in Hl1.
  destruct (launch_keeps_ri k pl r) as [Kr Ki]. fold r1 in Kr, Ki.
  assert (O1' : c_r (r_im r1) = RTrue -> c_l (r_im r1) = LTrue).
  { intros H. apply Kr in H. specialize (O1 H). destruct (launch_cache k pl r) as (L1 & _). destruct (L1 O1) as (_ & _ & E & _). exact E. }
  assert (O2' : c_i (r_im r1) = ITrue -> c_r (r_im r1) = RTrue).
  { intros H. apply Kr, O2, Ki, H. }
  destruct (registration_quiet k pl r1) as [_ _ _ _ _ _ Ql2 _ _ Qp2 _]. fold r2 in Ql2, Qp2.
  destruct (initialization_quiet k pl r2) as [_ _ _ _ _ _ Ql3 _ _ _ _]. fold r3 in Ql3.
  destruct (liveness_quiet k pl r3) as [_ _ _ _ _ _ Ql4 _ _ _ _].
  (* liveness does not touch the conditions *)
  assert (Lv : c_r (r_im (liveness k pl r3)) = c_r (r_im r3) /\ c_i (r_im (liveness k pl r3)) = c_i (r_im r3)).
  { unfold liveness, live_registration, live_site, err_of_wr. repeat bm; simpl; split; congruence. }
  destruct Lv as [Lr Li].
  (* initialization does not touch Registered *)
  assert (Ir : c_r (r_im r3) = c_r (r_im r2)).
  { unfold r3, initialization, set_i, err_of_wr. repeat bm; simpl; congruence. }
  (* registration does not touch Initialized *)
  assert (Ri : c_i (r_im r2) = c_i (r_im r1)).
  { unfold r2, registration, pool_then_registered, registered_now, hook_return, err_of_wr. repeat bm; simpl; congruence. }
  split.
  - rewrite Lr, Ir, Ql4, Ql3, Ql2. intros H.
    destruct (rcond_eqb (c_r (r_im r1)) RTrue) eqn:E.
    + apply rcond_eqb_eq in E. exact (O1' E).
    + assert (N : c_r (r_im r1) <> RTrue) by (intros X; apply rcond_eqb_eq in X; congruence).
      destruct (registration_justified k pl r1 N H) as [_ Hp].
      destruct (lcond_eqb (c_l (r_im r1)) LTrue) eqn:E2; [apply lcond_eqb_eq; exact E2|].
      exfalso. apply Hp, Hl1. intros X. apply lcond_eqb_eq in X. congruence.
  - rewrite Li, Lr, Ir. intros H.
    destruct (icond_eqb (c_i (r_im r2)) ITrue) eqn:E.
    + apply icond_eqb_eq in E. rewrite Ri in E. specialize (O2' E).
      (* registration keeps an existing True *)
      unfold r2, registration. rewrite O2'. exact O2'.
    + assert (N : c_i (r_im r2) <> ITrue) by (intros X; apply icond_eqb_eq in X; congruence).
      exact (proj2 (initialization_justified k pl r2 N H)).
Qed.

(* ---------------------------------------------------------------- liveness delays vs. cache TTL *)

Definition delay_le (m : Z) (q : qres) : Prop := match q with QAfter d => d <= m | _ => True end.

(* every requeue delay Liveness asks for is at most the larger of its two timeouts *)
Lemma liveness_delays k pl r :
  0 <= r_now r -> c_rltt (r_im r) <= r_now r -> 0 <= k_lt k -> 0 <= k_rt k ->
  exists x, r_ress (liveness k pl r) = r_ress r ++ x /\ Forall (delay_le (Z.max (k_lt k) (k_rt k))) x.
Proof.
  intros H1 H2 H3 H4. unfold liveness, live_registration, live_site, err_of_wr.
  repeat bm; simpl; repeat rewrite <- app_assoc; simpl;
    first [ solve [exists []; rewrite app_nil_r; split; [reflexivity|constructor]]
          | solve [eexists; split; [reflexivity|repeat constructor; simpl; lia]] ].
Qed.

Section Timing.
  Variable k : cfg.
  (* the explicit inequality: both liveness timeouts end before the launch cache forgets *)
  Hypothesis Hlt : 0 <= k_lt k.
  Hypothesis Hrt : k_lt k <= k_rt k.
  Hypothesis Httl : k_rt k < k_ttl k.

  (* If the work queue honours the delay Liveness returns, the next reconcile happens while the
     launch cache entry stored or refreshed by this reconcile is still within its TTL. *)
  Lemma liveness_delay_lt_ttl pl r : 0 <= r_now r -> c_rltt (r_im r) <= r_now r ->
    exists x, r_ress (liveness k pl r) = r_ress r ++ x /\
              Forall (fun q => match q with QAfter d => d < k_ttl k | _ => True end) x.
  Proof.
    intros H1 H2. destruct (liveness_delays k pl r H1 H2 Hlt ltac:(lia)) as (x & Hx & Hf).
    exists x. split; [exact Hx|]. eapply Forall_impl; [|exact Hf].
    intros q. destruct q; simpl; auto. lia.
  Qed.
End Timing.
