(* C14 — model of pkg/controllers/nodeclaim/lifecycle/{controller,launch,registration,
   initialization,liveness}.go at method granularity.

   One NodeClaim (one UID), its API object ([pc], what the API server stores), the copy the
   controller reads ([vw], the informer cache: a past snapshot of [pc], refreshed by [Sync]),
   the Node that joins for it (plus an optional second Node with the same provider id), the
   cloud provider (instances created so far) and the controller's in-memory launch cache.
   Every API write and provider call of a reconcile takes its outcome from a fault plan, so
   the theorems quantify over a failure at each individual call.  The API server's optimistic
   locking is NOT modelled: a Conflict is just one of the possible outcomes of a write.
   Goroutine interleavings are not modelled either: controller-runtime never runs two
   reconciles for the same NodeClaim concurrently, so a history is a list of [op]s.
   Executable definitions only; proofs are in C14/Proofs.v. *)
From Coq Require Export List Bool ZArith Lia.
Export ListNotations.
Open Scope Z_scope.

(* ---------------------------------------------------------------- data *)

(* status conditions with the reason that the code distinguishes; "Absent" = the condition
   list does not contain the type yet (object never reconciled) *)
Inductive lcond := LAbsent | LAwait | LFailed | LCreateErr | LTrue.
Inductive rcond := RAbsent | RAwait | RNodeNotFound | RHookPending | RMultiple | RTrue.
Inductive icond := IAbsent | IAwait | INodeNotFound | INotReady | IStartup | IEphemeral | IResource | ITrue.

Record claim := mkClaim {
  c_fin : bool;            (* termination finalizer present *)
  c_del : bool;            (* deletionTimestamp set *)
  c_l : lcond; c_r : rcond; c_i : icond;
  c_rltt : Z;              (* lastTransitionTime of Registered (seconds since creation) *)
  c_pid : option nat;      (* status.providerID = instance number *)
  c_nn : bool;             (* status.nodeName set *)
  c_term : bool;           (* InstanceTerminating condition *)
  c_ffin : bool }.         (* somebody else's finalizer is on the object *)

Record node := mkNode {
  n_pid : nat;
  n_unreg : bool;          (* karpenter.sh/unregistered:NoExecute taint *)
  n_reglabel : bool;       (* karpenter.sh/registered label *)
  n_initlabel : bool;      (* karpenter.sh/initialized label *)
  n_ready : bool;
  n_startup : bool;        (* the NodeClaim's startup taint is on the node *)
  n_eph : bool;            (* a known ephemeral taint (node.kubernetes.io/not-ready) *)
  n_ext : bool;            (* the requested extended resource is reported in allocatable *)
  n_synced : bool;         (* finalizer + owner reference + labels of the claim (syncNode) *)
  n_del : bool }.

(* per-case constants: the three durations are read from the real controller *)
Record cfg := mkCfg {
  k_ttl : Z;               (* launch cache TTL: cache.New(time.Hour, ..) *)
  k_lt : Z;                (* LaunchTimeout *)
  k_rt : Z;                (* registrationTimeout *)
  k_managed : bool;        (* nodeClassRef is one of the provider's node classes *)
  k_startup : bool;        (* spec.startupTaints non-empty *)
  k_ext : bool;            (* spec.resources.requests has an extended resource *)
  k_hook : bool;           (* a registration hook is configured *)
  k_pool : bool }.         (* karpenter.sh/nodepool label present (NodePool health is updated) *)

Record state := mkState {
  pc : option claim;       (* API server *)
  vw : option claim;       (* informer cache *)
  nd : option node;
  dp : bool;               (* a second node with the same provider id exists *)
  ch : option (nat * Z);   (* launch cache entry for the UID: instance, time it was stored *)
  made : nat;              (* instances created so far *)
  alive : list nat;        (* instances not yet deleted at the provider *)
  now : Z }.

(* ---------------------------------------------------------------- fault plans, effects *)

Inductive wr := WOk | WConflict | WNotFound | WErr.
(* what cloudProvider.Create returns: success, or an error CHAIN (outermost layer first; the
   innermost error is a plain one).  The code classifies it with errors.As, which walks the chain. *)
Inductive elayer :=
| YInsufficient            (* *cloudprovider.InsufficientCapacityError *)
| YNotReady                (* *cloudprovider.NodeClassNotReadyError *)
| YCreateErr               (* *cloudprovider.CreateError (carries a condition reason) *)
| YWrap.                   (* fmt.Errorf("...: %w", _) *)
Inductive pout := POk | PFail (chain : list elayer).
Notation PInsufficient := (PFail (cons YInsufficient nil)).
Notation PNotReady := (PFail (cons YNotReady nil)).
Notation PCreateErr := (PFail (cons YCreateErr nil)).
Notation PGeneric := (PFail nil).
Inductive hout := HReady | HPending (d : Z) | HRequeue | HErr.
Inductive dres := DDeleted | DNotFound | DFailed.

Record plan := mkPlan {
  f_fin : wr;              (* finalizer patch *)
  f_create : pout;         (* cloudProvider.Create *)
  f_del_launch : wr;       (* Delete(claim) after a capacity error *)
  f_list_reg : bool;       (* node list of Registration fails *)
  f_hook : hout;
  f_npatch_reg : wr;       (* node patch of Registration *)
  f_pool_reg : wr;         (* Get(NodePool) of Registration *)
  f_list_init : bool;      (* node list of Initialization fails *)
  f_npatch_init : wr;      (* node patch of Initialization *)
  f_pool_live1 : wr; f_del_live1 : wr;    (* Liveness: first Get(NodePool) / Delete(claim) *)
  f_pool_live2 : wr; f_del_live2 : wr;    (* Liveness: second ones *)
  f_patch : wr;            (* final Patch *)
  f_status : wr;           (* final Status().Patch *)
  f_pdel_err : bool;       (* cloudProvider.Delete fails *)
  f_term : wr;             (* InstanceTerminating status patch *)
  f_unfin : wr;            (* finalizer removal *)
  f_list_fin : bool;       (* node list of finalize fails *)
  f_ndel_err : bool }.     (* Delete(node) of finalize fails *)

Inductive eff :=
| EFin (o : wr) | ECreate (o : pout) | EDelLaunch (o : wr)
| ENodePatchReg (o : wr) | EPoolReg (o : wr) | ENodePatchInit (o : wr)
| EPoolLive (o : wr) | EDelLive (o : wr) | EPatch (o : wr) | EStatus (o : wr)
| ENodeDel | EDupDel | EPDel (o : dres) | ETerm (o : wr) | EUnfin (o : wr) | ENodeDelFail.

(* reconcile.Result / error, as the work queue sees it *)
Inductive qres := QNone | QAfter (d : Z) | QErr.

(* error kinds, as far as apierrors.IsNotFound on a multierr distinguishes them *)
Inductive ek := KGeneric | KConflict | KNotFound | KServer.

Definition ek_of (w : wr) : ek :=
  match w with WConflict => KConflict | WNotFound => KNotFound | _ => KServer end.

(* ---------------------------------------------------------------- boolean equalities *)

Definition lcond_eqb (a b : lcond) : bool :=
  match a, b with
  | LAbsent, LAbsent | LAwait, LAwait | LFailed, LFailed | LCreateErr, LCreateErr | LTrue, LTrue => true
  | _, _ => false end.
Definition rcond_eqb (a b : rcond) : bool :=
  match a, b with
  | RAbsent, RAbsent | RAwait, RAwait | RNodeNotFound, RNodeNotFound | RHookPending, RHookPending
  | RMultiple, RMultiple | RTrue, RTrue => true
  | _, _ => false end.
Definition icond_eqb (a b : icond) : bool :=
  match a, b with
  | IAbsent, IAbsent | IAwait, IAwait | INodeNotFound, INodeNotFound | INotReady, INotReady
  | IStartup, IStartup | IEphemeral, IEphemeral | IResource, IResource | ITrue, ITrue => true
  | _, _ => false end.
Definition onat_eqb (a b : option nat) : bool :=
  match a, b with Some x, Some y => Nat.eqb x y | None, None => true | _, _ => false end.

Definition conds_eqb (a b : claim) : bool :=
  lcond_eqb (c_l a) (c_l b) && rcond_eqb (c_r a) (c_r b) && icond_eqb (c_i a) (c_i b) &&
  (c_rltt a =? c_rltt b) && Bool.eqb (c_term a) (c_term b).

Definition claim_eqb (a b : claim) : bool :=
  Bool.eqb (c_fin a) (c_fin b) && Bool.eqb (c_del a) (c_del b) && conds_eqb a b &&
  onat_eqb (c_pid a) (c_pid b) && Bool.eqb (c_nn a) (c_nn b) && Bool.eqb (c_ffin a) (c_ffin b).

Definition node_eqb (a b : node) : bool :=
  Nat.eqb (n_pid a) (n_pid b) && Bool.eqb (n_unreg a) (n_unreg b) && Bool.eqb (n_reglabel a) (n_reglabel b) &&
  Bool.eqb (n_initlabel a) (n_initlabel b) && Bool.eqb (n_ready a) (n_ready b) &&
  Bool.eqb (n_startup a) (n_startup b) && Bool.eqb (n_eph a) (n_eph b) && Bool.eqb (n_ext a) (n_ext b) &&
  Bool.eqb (n_synced a) (n_synced b) && Bool.eqb (n_del a) (n_del b).

Definition wr_eqb (a b : wr) : bool :=
  match a, b with WOk, WOk | WConflict, WConflict | WNotFound, WNotFound | WErr, WErr => true | _, _ => false end.
Definition elayer_eqb (a b : elayer) : bool :=
  match a, b with
  | YInsufficient, YInsufficient | YNotReady, YNotReady | YCreateErr, YCreateErr | YWrap, YWrap => true
  | _, _ => false end.
Fixpoint chain_eqb (a b : list elayer) : bool :=
  match a, b with
  | [], [] => true
  | x :: a', y :: b' => elayer_eqb x y && chain_eqb a' b'
  | _, _ => false end.
Definition pout_eqb (a b : pout) : bool :=
  match a, b with
  | POk, POk => true
  | PFail x, PFail y => chain_eqb x y
  | _, _ => false end.

(* errors.As(err, &target): some layer of the chain has the target type *)
Definition has_layer (y : elayer) (c : list elayer) : bool := existsb (elayer_eqb y) c.
Arguments has_layer : simpl never.

(* the switch of launchNodeClaim: capacity first, then NodeClass readiness, CreateError last *)
Inductive pclass := CkOk | CkInsufficient | CkNotReady | CkCreateErr | CkGeneric.
Definition pclass_of (o : pout) : pclass :=
  match o with
  | POk => CkOk
  | PFail c =>
      if has_layer YInsufficient c then CkInsufficient
      else if has_layer YNotReady c then CkNotReady
      else if has_layer YCreateErr c then CkCreateErr
      else CkGeneric
  end.
Definition dres_eqb (a b : dres) : bool :=
  match a, b with DDeleted, DDeleted | DNotFound, DNotFound | DFailed, DFailed => true | _, _ => false end.
Definition eff_eqb (a b : eff) : bool :=
  match a, b with
  | EFin x, EFin y | EDelLaunch x, EDelLaunch y | ENodePatchReg x, ENodePatchReg y | EPoolReg x, EPoolReg y
  | ENodePatchInit x, ENodePatchInit y | EPoolLive x, EPoolLive y | EDelLive x, EDelLive y
  | EPatch x, EPatch y | EStatus x, EStatus y | ETerm x, ETerm y | EUnfin x, EUnfin y => wr_eqb x y
  | ECreate x, ECreate y => pout_eqb x y
  | EPDel x, EPDel y => dres_eqb x y
  | ENodeDel, ENodeDel | EDupDel, EDupDel | ENodeDelFail, ENodeDelFail => true
  | _, _ => false end.
Definition qres_eqb (a b : qres) : bool :=
  match a, b with QNone, QNone | QErr, QErr => true | QAfter x, QAfter y => x =? y | _, _ => false end.

(* ---------------------------------------------------------------- record updates *)

Definition cl_fin (c : claim) (b : bool) := mkClaim b (c_del c) (c_l c) (c_r c) (c_i c) (c_rltt c) (c_pid c) (c_nn c) (c_term c) (c_ffin c).
Definition cl_del (c : claim) (b : bool) := mkClaim (c_fin c) b (c_l c) (c_r c) (c_i c) (c_rltt c) (c_pid c) (c_nn c) (c_term c) (c_ffin c).
Definition cl_l (c : claim) (x : lcond) := mkClaim (c_fin c) (c_del c) x (c_r c) (c_i c) (c_rltt c) (c_pid c) (c_nn c) (c_term c) (c_ffin c).
Definition cl_r (c : claim) (x : rcond) := mkClaim (c_fin c) (c_del c) (c_l c) x (c_i c) (c_rltt c) (c_pid c) (c_nn c) (c_term c) (c_ffin c).
Definition cl_i (c : claim) (x : icond) := mkClaim (c_fin c) (c_del c) (c_l c) (c_r c) x (c_rltt c) (c_pid c) (c_nn c) (c_term c) (c_ffin c).
Definition cl_rltt (c : claim) (t : Z) := mkClaim (c_fin c) (c_del c) (c_l c) (c_r c) (c_i c) t (c_pid c) (c_nn c) (c_term c) (c_ffin c).
Definition cl_pid (c : claim) (p : option nat) := mkClaim (c_fin c) (c_del c) (c_l c) (c_r c) (c_i c) (c_rltt c) p (c_nn c) (c_term c) (c_ffin c).
Definition cl_nn (c : claim) (b : bool) := mkClaim (c_fin c) (c_del c) (c_l c) (c_r c) (c_i c) (c_rltt c) (c_pid c) b (c_term c) (c_ffin c).
Definition cl_ffin (c : claim) (b : bool) := mkClaim (c_fin c) (c_del c) (c_l c) (c_r c) (c_i c) (c_rltt c) (c_pid c) (c_nn c) (c_term c) b.
Definition cl_term (c : claim) (b : bool) := mkClaim (c_fin c) (c_del c) (c_l c) (c_r c) (c_i c) (c_rltt c) (c_pid c) (c_nn c) b (c_ffin c).
(* the condition list is one JSON value: it is written as a whole *)
Definition cl_conds (c from : claim) :=
  mkClaim (c_fin c) (c_del c) (c_l from) (c_r from) (c_i from) (c_rltt from) (c_pid c) (c_nn c) (c_term from) (c_ffin c).

(* StatusConditions(): absent root/dependent conditions are initialised to Unknown *)
Definition norm (c : claim) : claim :=
  cl_i (cl_r (cl_l c (match c_l c with LAbsent => LAwait | x => x end))
                     (match c_r c with RAbsent => RAwait | x => x end))
       (match c_i c with IAbsent => IAwait | x => x end).

(* state of one Reconcile call *)
Record rs := mkRS {
  r_im : claim;            (* the nodeClaim object in memory *)
  r_pc : option claim;
  r_nd : option node;
  r_dp : bool;
  r_ch : option (nat * Z);
  r_made : nat;
  r_alive : list nat;
  r_now : Z;
  r_effs : list eff;
  r_errs : list ek;        (* multierr of the sub-reconcilers, in order *)
  r_ress : list qres }.    (* their results *)

Definition set_im (r : rs) (c : claim) := mkRS c (r_pc r) (r_nd r) (r_dp r) (r_ch r) (r_made r) (r_alive r) (r_now r) (r_effs r) (r_errs r) (r_ress r).
Definition set_pc (r : rs) (p : option claim) := mkRS (r_im r) p (r_nd r) (r_dp r) (r_ch r) (r_made r) (r_alive r) (r_now r) (r_effs r) (r_errs r) (r_ress r).
Definition set_nd (r : rs) (n : option node) := mkRS (r_im r) (r_pc r) n (r_dp r) (r_ch r) (r_made r) (r_alive r) (r_now r) (r_effs r) (r_errs r) (r_ress r).
Definition set_dp (r : rs) (b : bool) := mkRS (r_im r) (r_pc r) (r_nd r) b (r_ch r) (r_made r) (r_alive r) (r_now r) (r_effs r) (r_errs r) (r_ress r).
Definition set_ch (r : rs) (c : option (nat * Z)) := mkRS (r_im r) (r_pc r) (r_nd r) (r_dp r) c (r_made r) (r_alive r) (r_now r) (r_effs r) (r_errs r) (r_ress r).
Definition set_made (r : rs) (m : nat) (a : list nat) := mkRS (r_im r) (r_pc r) (r_nd r) (r_dp r) (r_ch r) m a (r_now r) (r_effs r) (r_errs r) (r_ress r).
Definition set_now (r : rs) (t : Z) := mkRS (r_im r) (r_pc r) (r_nd r) (r_dp r) (r_ch r) (r_made r) (r_alive r) t (r_effs r) (r_errs r) (r_ress r).
Definition add_eff (r : rs) (e : eff) := mkRS (r_im r) (r_pc r) (r_nd r) (r_dp r) (r_ch r) (r_made r) (r_alive r) (r_now r) (r_effs r ++ [e]) (r_errs r) (r_ress r).
Definition add_err (r : rs) (e : ek) := mkRS (r_im r) (r_pc r) (r_nd r) (r_dp r) (r_ch r) (r_made r) (r_alive r) (r_now r) (r_effs r) (r_errs r ++ [e]) (r_ress r).
Definition add_res (r : rs) (q : qres) := mkRS (r_im r) (r_pc r) (r_nd r) (r_dp r) (r_ch r) (r_made r) (r_alive r) (r_now r) (r_effs r) (r_errs r) (r_ress r ++ [q]).

Definition init_rs (s : state) (v : claim) : rs :=
  mkRS v (pc s) (nd s) (dp s) (ch s) (made s) (alive s) (now s) [] [] [].
Definition state_of (r : rs) (s : state) : state :=
  mkState (r_pc r) (vw s) (r_nd r) (r_dp r) (r_ch r) (r_made r) (r_alive r) (r_now r).

(* a write cannot succeed on an object that is gone *)
Definition eff_wr (p : option claim) (o : wr) : wr :=
  match o, p with WOk, None => WNotFound | _, _ => o end.

(* API Delete: with any finalizer the object only gets a deletionTimestamp *)
Definition del_claim (p : option claim) : option claim :=
  match p with
  | Some c => if c_fin c || c_ffin c then Some (cl_del c true) else None
  | None => None
  end.

Definition err_of_wr (r : rs) (w : wr) : rs := add_err r (ek_of w).

(* another controller adds / removes its finalizer; removing the last finalizer of a terminating object removes it *)
Definition set_ffin (p : option claim) (b : bool) : option claim :=
  match p with
  | Some c => if c_del c && negb b && negb (c_fin c) then None else Some (cl_ffin c b)
  | None => None
  end.
Arguments set_ffin : simpl never.

(* ---------------------------------------------------------------- Launch.Reconcile *)

Definition cache_hit (k : cfg) (r : rs) : option nat :=
  match r_ch r with
  | Some (p, t) => if r_now r <=? t + k_ttl k then Some p else None
  | None => None
  end.

(* cache.SetDefault + PopulateNodeClaimDetails + SetTrue(Launched) *)
Definition populate (p : nat) (r : rs) : rs :=
  set_ch (set_im r (cl_l (cl_pid (r_im r) (Some p)) LTrue)) (Some (p, r_now r)).

Definition launch (k : cfg) (pl : plan) (r0 : rs) : rs :=
  let r := set_im r0 (norm (r_im r0)) in
  match c_l (r_im r) with
  | LTrue => set_ch r None
  | _ =>
    match cache_hit k r with
    | Some p => populate p r
    | None =>
      let o := f_create pl in
      match pclass_of o with
      | CkOk =>
          let p := r_made r in
          populate p (add_eff (set_made r (S p) (p :: r_alive r)) (ECreate POk))
      | CkCreateErr => add_err (set_im (add_eff r (ECreate o)) (cl_l (r_im r) LCreateErr)) KGeneric
      | CkGeneric => add_err (set_im (add_eff r (ECreate o)) (cl_l (r_im r) LFailed)) KGeneric
      | _ (* CkInsufficient | CkNotReady *) =>
          let r := add_eff r (ECreate o) in
          let w := eff_wr (r_pc r) (f_del_launch pl) in
          let r := add_eff r (EDelLaunch w) in
          match w with
          | WOk => set_pc r (del_claim (r_pc r))
          | WNotFound => r
          | _ => err_of_wr r w
          end
      end
    end
  end.

(* ---------------------------------------------------------------- Registration.Reconcile *)

(* nodes whose spec.providerID equals the claim's status.providerID *)
Definition match_count (r : rs) : nat :=
  match c_pid (r_im r), r_nd r with
  | Some p, Some n => if Nat.eqb (n_pid n) p then (if r_dp r then 2%nat else 1%nat) else 0%nat
  | _, _ => 0%nat
  end.

Definition nd_sync (k : cfg) (n : node) : node :=
  mkNode (n_pid n) (n_unreg n) (n_reglabel n) (n_initlabel n) (n_ready n) (n_startup n || k_startup k)
         (n_eph n) (n_ext n) true (n_del n).
Definition nd_registered (n : node) : node :=
  mkNode (n_pid n) false true (n_initlabel n) (n_ready n) (n_startup n) (n_eph n) (n_ext n) (n_synced n) (n_del n).
Definition nd_initlabel (n : node) : node :=
  mkNode (n_pid n) (n_unreg n) (n_reglabel n) true (n_ready n) (n_startup n) (n_eph n) (n_ext n) (n_synced n) (n_del n).
Definition nd_del (n : node) : node :=
  mkNode (n_pid n) (n_unreg n) (n_reglabel n) (n_initlabel n) (n_ready n) (n_startup n) (n_eph n) (n_ext n) (n_synced n) true.

Definition hooks_ok (k : cfg) (pl : plan) : bool :=
  negb (k_hook k) || match f_hook pl with HReady => true | _ => false end.

(* `return hooksResult, hookErrors` *)
Definition hook_return (pl : plan) (r : rs) : rs :=
  match f_hook pl with
  | HReady => r
  | HPending d => add_res r (QAfter d)
  | HRequeue => add_res r (QAfter 0)
  | HErr => add_err r KGeneric
  end.

Definition registered_now (r : rs) : rs :=
  set_im r (cl_nn (cl_rltt (cl_r (r_im r) RTrue) (r_now r)) true).

(* updateNodePoolRegistrationHealth, then SetTrue(Registered): the NodePool is updated FIRST (fix 40852abfb);
   on a conflict or error the claim is not marked Registered in this reconcile *)
Definition pool_then_registered (k : cfg) (pl : plan) (r : rs) : rs :=
  if k_pool k then
    let w := f_pool_reg pl in
    let r := add_eff r (EPoolReg w) in
    match w with
    | WOk | WNotFound => registered_now r
    | WConflict => add_res r (QAfter 0)
    | WErr => add_err r KServer
    end
  else registered_now r.

Definition registration (k : cfg) (pl : plan) (r : rs) : rs :=
  match c_r (r_im r) with
  | RMultiple | RTrue => r
  | _ =>
    match c_pid (r_im r) with
    | None => set_im r (cl_r (r_im r) RNodeNotFound)
    | Some _ =>
      if f_list_reg pl then add_err r KServer else
      match match_count r, r_nd r with
      | 1%nat, Some n =>
          let ok := hooks_ok k pl in
          let n1 := nd_sync k n in
          let r := if ok then r else set_im r (cl_r (r_im r) RHookPending) in
          let n2 := if ok then nd_registered n1 else n1 in
          let cont (r : rs) : rs := if ok then pool_then_registered k pl r else hook_return pl r in
          if node_eqb n n2 then cont r
          else
            let w := f_npatch_reg pl in
            let r := add_eff r (ENodePatchReg w) in
            match w with
            | WOk => cont (set_nd r (Some n2))
            | WConflict => add_res r (QAfter 0)
            | _ => err_of_wr r w
            end
      | 2%nat, _ => set_im r (cl_rltt (cl_r (r_im r) RMultiple) (r_now r))
      | _, _ => set_im r (cl_r (r_im r) RNodeNotFound)
      end
    end
  end.

(* ---------------------------------------------------------------- Initialization.Reconcile *)

Definition set_i (r : rs) (x : icond) : rs := set_im r (cl_i (r_im r) x).

Definition initialization (k : cfg) (pl : plan) (r : rs) : rs :=
  match c_i (r_im r) with
  | ITrue => r
  | _ =>
    match c_r (r_im r) with
    | RTrue =>
      match c_pid (r_im r) with
      | None => set_i r INodeNotFound
      | Some _ =>
        if f_list_init pl then set_i r INodeNotFound else
        match match_count r, r_nd r with
        | 1%nat, Some n =>
            if negb (n_ready n) then set_i r INotReady
            else if k_startup k && n_startup n then set_i r IStartup
            else if n_eph n || n_unreg n then set_i r IEphemeral
            else if k_ext k && negb (n_ext n) then set_i r IResource
            else if n_initlabel n then set_i r ITrue
            else
              let w := f_npatch_init pl in
              let r := add_eff r (ENodePatchInit w) in
              match w with
              | WOk => set_i (set_nd r (Some (nd_initlabel n))) ITrue
              | _ => err_of_wr r w
              end
        | _, _ => set_i r INodeNotFound
        end
      end
    | _ => r
    end
  end.

(* ---------------------------------------------------------------- Liveness.Reconcile *)

(* updateNodePoolRegistrationHealth; deleteNodeClaimForTimeout; [cont] = the code after them *)
Definition live_site (k : cfg) (pool del : wr) (r : rs) (cont : rs -> rs) : rs :=
  let after_pool (r : rs) : rs :=
    let w := eff_wr (r_pc r) del in
    let r := add_eff r (EDelLive w) in
    match w with
    | WOk => cont (set_pc r (del_claim (r_pc r)))
    | WNotFound => r
    | _ => err_of_wr r w
    end in
  if k_pool k then
    let r := add_eff r (EPoolLive pool) in
    match pool with
    | WOk | WNotFound => after_pool r
    | WConflict => add_res r (QAfter 0)
    | WErr => add_err r KServer
    end
  else after_pool r.

Definition live_registration (k : cfg) (pool del : wr) (r : rs) : rs :=
  let d := k_rt k - (r_now r - c_rltt (r_im r)) in
  if 0 <? d then add_res r (QAfter d)
  else live_site k pool del r (fun r => r).

Definition liveness (k : cfg) (pl : plan) (r : rs) : rs :=
  match c_r (r_im r) with
  | RTrue => r
  | _ =>
    match c_l (r_im r) with
    | LTrue => live_registration k (f_pool_live1 pl) (f_del_live1 pl) r
    | _ =>
        (* Launched is Unknown: its lastTransitionTime is the creation time = 0 *)
        let d := k_lt k - r_now r in
        if 0 <? d then add_res r (QAfter d)
        else
          (* after the launch-timeout delete Liveness returns (fix 3cbc43e89); f_pool_live2 / f_del_live2
             are no longer consulted *)
          live_site k (f_pool_live1 pl) (f_del_live1 pl) r (fun r => r)
    end
  end.

(* ---------------------------------------------------------------- Controller.Reconcile *)

(* result.Min *)
Fixpoint rmin (l : list qres) (acc : qres) : qres :=
  match l with
  | [] => acc
  | QAfter d :: t =>
      rmin t (match acc with QAfter a => if d <? a then QAfter d else acc | _ => QAfter d end)
  | _ :: t => rmin t acc
  end.

Definition is_api (e : ek) : bool := match e with KGeneric => false | _ => true end.

(* client.IgnoreNotFound on a multierr: the first API status error decides *)
Definition ignore_nf (l : list ek) : bool :=
  match find is_api l with Some KNotFound => true | _ => false end.

Definition final_res (r : rs) : qres :=
  match r_errs r with [] => rmin (r_ress r) QNone | _ => QErr end.

Definition patch_fail_res (r : rs) (w : wr) : qres :=
  if ignore_nf (r_errs r ++ [ek_of w]) then QNone else QErr.

(* JSON merge patch of the status computed against [st], applied to [p] *)
Definition merge (p st im : claim) : claim :=
  let p := if conds_eqb st im then p else cl_conds p im in
  let p := if onat_eqb (c_pid st) (c_pid im) then p else cl_pid p (c_pid im) in
  if Bool.eqb (c_nn st) (c_nn im) then p else cl_nn p (c_nn im).

Definition finish (pl : plan) (st : claim) (r : rs) : rs * qres :=
  if claim_eqb st (r_im r) then (r, final_res r)
  else
    let w := eff_wr (r_pc r) (f_patch pl) in
    let r := add_eff r (EPatch w) in
    match w with
    | WOk =>
        let w2 := eff_wr (r_pc r) (f_status pl) in
        let r := add_eff r (EStatus w2) in
        match w2 with
        | WOk =>
            let r := set_pc r (option_map (fun p => merge p st (r_im r)) (r_pc r)) in
            let r := set_now r (r_now r + 1) in      (* c.clock.Sleep(time.Second) *)
            (r, final_res r)
        | _ => (r, patch_fail_res r w2)
        end
    | _ => (r, patch_fail_res r w)
    end.

Definition subs (k : cfg) (pl : plan) (r : rs) : rs :=
  liveness k pl (initialization k pl (registration k pl (launch k pl r))).

Definition main_path (k : cfg) (pl : plan) (s : state) (r : rs) : state * (list eff * qres) :=
  let st := r_im r in
  let '(r', q) := finish pl st (subs k pl r) in
  (state_of r' s, (r_effs r', q)).

(* ---------------------------------------------------------------- Controller.finalize *)

Definition remove_nat (p : nat) (l : list nat) : list nat := filter (fun x => negb (Nat.eqb x p)) l.
Definition mem_nat (p : nat) (l : list nat) : bool := existsb (Nat.eqb p) l.

Definition unfinalize (pl : plan) (s : state) (r : rs) : state * (list eff * qres) :=
  let w := eff_wr (r_pc r) (f_unfin pl) in
  let r := add_eff r (EUnfin w) in
  match w with
  | WOk =>
      let p' := match r_pc r with
                | Some p => if c_del p && negb (c_ffin p) then None else Some (cl_fin p false)
                | None => None end in
      (state_of (set_pc r p') s, (r_effs r, QNone))
  | WConflict => (state_of r s, (r_effs r, QAfter 0))
  | WNotFound => (state_of r s, (r_effs r, QNone))
  | WErr => (state_of r s, (r_effs r, QErr))
  end.

Definition finalize (k : cfg) (pl : plan) (s : state) (v : claim) : state * (list eff * qres) :=
  if negb (c_fin v) then (s, ([], QNone)) else
  (* AllNodesForNodeClaim lists only for a registered claim with a provider id *)
  if (match c_r v, c_pid v with RTrue, Some _ => f_list_fin pl | _, _ => false end) then (s, ([], QErr)) else
  let r := init_rs s (norm v) in
  let listed := match c_r v with RTrue => match_count r | _ => 0%nat end in
  match listed, r_nd r with
  | S _, Some n =>
      if negb (n_del n) && f_ndel_err pl then
        let r := add_eff r ENodeDelFail in (state_of r s, (r_effs r, QErr)) else
      let r := if n_del n then r
               else if n_synced n then set_nd (add_eff r ENodeDel) (Some (nd_del n))
               else set_nd (add_eff r ENodeDel) None in
      let r := if r_dp r then set_dp (add_eff r EDupDel) false else r in
      (state_of r s, (r_effs r, QNone))
  | _, _ =>
    match c_pid v with
    | None => unfinalize pl s r
    | Some p =>
      if f_pdel_err pl then let r := add_eff r (EPDel DFailed) in (state_of r s, (r_effs r, QErr)) else
      let found := mem_nat p (r_alive r) in
      let r := add_eff (set_made r (r_made r) (remove_nat p (r_alive r))) (EPDel (if found then DDeleted else DNotFound)) in
      let after (r : rs) := if found then (state_of r s, (r_effs r, QAfter 5)) else unfinalize pl s r in
      if c_term (r_im r) then after r
      else
        let im := cl_term (r_im r) true in
        let w := eff_wr (r_pc r) (f_term pl) in
        let r := add_eff r (ETerm w) in
        match w with
        | WOk => after (set_pc (set_im r im) (option_map (fun p => cl_conds p im) (r_pc r)))
        | WNotFound => (state_of r s, (r_effs r, QNone))
        | WConflict => (state_of r s, (r_effs r, QAfter 0))
        | WErr => (state_of r s, (r_effs r, QErr))
        end
    end
  end.

Definition reconcile (k : cfg) (pl : plan) (s : state) : state * (list eff * qres) :=
  match vw s with
  | None => (s, ([], QNone))                      (* the object is gone from the cache: no Reconcile call *)
  | Some v =>
    if negb (k_managed k) then (s, ([], QNone)) else
    if c_del v then finalize k pl s v else
    let r := init_rs s v in
    if c_fin v then main_path k pl s r
    else
      let w := eff_wr (r_pc r) (f_fin pl) in
      let r := add_eff r (EFin w) in
      match w, r_pc r with
      | WOk, Some p =>
          (* the patch response replaces the in-memory object *)
          let p' := cl_fin p true in
          main_path k pl s (set_im (set_pc r (Some p')) p')
      | WConflict, _ => (state_of r s, (r_effs r, QAfter 0))
      | WErr, _ => (state_of r s, (r_effs r, QErr))
      | _, _ => (state_of r s, (r_effs r, QNone))
      end
  end.

(* ---------------------------------------------------------------- histories *)

Inductive op :=
| Sync                       (* the informer delivers the current API object *)
| Tick (d : Z)               (* the clock advances *)
| Rec (pl : plan)            (* one Reconcile call on the cached object under a fault plan *)
| EnvDelete                  (* somebody deletes the NodeClaim through the API *)
| Restart                    (* process restart: launch cache lost, informer re-lists *)
| NodeAppear (unreg : bool)  (* the kubelet of the newest instance registers its Node *)
| NReady (b : bool) | NStartupOff | NEph (b : bool) | NExt (b : bool)
| DupAppear | DupVanish | NodeVanish
| ForeignFin (b : bool).     (* another controller adds / removes its own finalizer on the NodeClaim *)

Definition upd_nd (s : state) (f : node -> node) : state :=
  mkState (pc s) (vw s) (option_map f (nd s)) (dp s) (ch s) (made s) (alive s) (now s).

Definition step (k : cfg) (s : state) (o : op) : state * (list eff * qres) :=
  match o with
  | Rec pl => reconcile k pl s
  | _ =>
    (match o with
     | Sync => mkState (pc s) (pc s) (nd s) (dp s) (ch s) (made s) (alive s) (now s)
     | Tick d => mkState (pc s) (vw s) (nd s) (dp s) (ch s) (made s) (alive s) (now s + d)
     | EnvDelete => mkState (del_claim (pc s)) (vw s) (nd s) (dp s) (ch s) (made s) (alive s) (now s)
     | Restart => mkState (pc s) (pc s) (nd s) (dp s) None (made s) (alive s) (now s)
     | NodeAppear u =>
         match made s, nd s with
         | S m, None => mkState (pc s) (vw s) (Some (mkNode m u false false false false false false false false))
                                (dp s) (ch s) (made s) (alive s) (now s)
         | _, _ => s
         end
     | NReady b => upd_nd s (fun n => mkNode (n_pid n) (n_unreg n) (n_reglabel n) (n_initlabel n) b (n_startup n) (n_eph n) (n_ext n) (n_synced n) (n_del n))
     | NStartupOff => upd_nd s (fun n => mkNode (n_pid n) (n_unreg n) (n_reglabel n) (n_initlabel n) (n_ready n) false (n_eph n) (n_ext n) (n_synced n) (n_del n))
     | NEph b => upd_nd s (fun n => mkNode (n_pid n) (n_unreg n) (n_reglabel n) (n_initlabel n) (n_ready n) (n_startup n) b (n_ext n) (n_synced n) (n_del n))
     | NExt b => upd_nd s (fun n => mkNode (n_pid n) (n_unreg n) (n_reglabel n) (n_initlabel n) (n_ready n) (n_startup n) (n_eph n) b (n_synced n) (n_del n))
     | DupAppear => match nd s with
                    | Some _ => mkState (pc s) (vw s) (nd s) true (ch s) (made s) (alive s) (now s)
                    | None => s end
     | DupVanish => mkState (pc s) (vw s) (nd s) false (ch s) (made s) (alive s) (now s)
     | NodeVanish => if dp s then s else mkState (pc s) (vw s) None (dp s) (ch s) (made s) (alive s) (now s)
     | ForeignFin b =>
         (* removing the last finalizer of a terminating object removes the object *)
         let p' := set_ffin (pc s) b in
         mkState p' (vw s) (nd s) (dp s) (ch s) (made s) (alive s) (now s)
     | Rec _ => s
     end, ([], QNone))
  end.

Definition fresh : claim := mkClaim false false LAbsent RAbsent IAbsent 0 None false false false.
Definition init : state := mkState (Some fresh) (Some fresh) None false None 0 [] 0.

(* one frame per op: what was stored before, what the op did, what is stored afterwards *)
Record frame := mkFrame {
  fr_op : op;
  fr_pre : option claim;
  fr_effs : list eff;
  fr_res : qres;
  fr_post : option claim;
  fr_node : option node }.

Fixpoint run (k : cfg) (s : state) (ops : list op) : list frame * state :=
  match ops with
  | [] => ([], s)
  | o :: t =>
      let '(s', (e, q)) := step k s o in
      let '(fs, sf) := run k s' t in
      (mkFrame o (pc s) e q (pc s') (nd s') :: fs, sf)
  end.

Definition trace (k : cfg) (ops : list op) : list frame := fst (run k init ops).
Definition final (k : cfg) (ops : list op) : state := snd (run k init ops).
