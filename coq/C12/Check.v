(* C12 — correspondence check and oracle for the requirement algebra. *)
From KV Require Import Base.Req Base.K8s.
Open Scope Z_scope.
Open Scope string_scope.

(* one constructor call: NewRequirementWithFlexibility(key, op, minValues, values...) *)
Definition call := (oper * option Z * list string)%type.
Definition mk (c : call) : req := let '(o, mv, vs) := c in new_req o mv vs.

(* a requirement built by intersecting constructor calls the way Requirements.Add does:
   new.Intersection(existing) *)
Definition build (cs : list call) : req :=
  match cs with
  | [] => new_req Exists None []
  | c :: rest => fold_left (fun acc c' => intersection (mk c') acc) rest (mk c)
  end.

(* what the harness observed on a real *Requirement *)
Record robs := mkObs {
  o_has : list bool;        (* Has(p) for each probe *)
  o_len : Z;
  o_op : oper;
  o_vals : list string;     (* sets.List(values) *)
  o_compl : bool;
  o_gte : option Z;
  o_lte : option Z;
  o_minv : option Z;
  o_undef : bool            (* satisfiedWhenUndefined *)
}.

Definition optZ_eqb (a b : option Z) : bool :=
  match a, b with Some x, Some y => Z.eqb x y | None, None => true | _, _ => false end.
Fixpoint bools_eqb (a b : list bool) : bool :=
  match a, b with
  | [], [] => true
  | x :: a', y :: b' => Bool.eqb x y && bools_eqb a' b'
  | _, _ => false
  end.
Definition set_eqb (a b : list string) : bool :=
  forallb (fun x => mem x b) a && forallb (fun x => mem x a) b && Nat.eqb (length a) (length b).

Definition obs_matches (probes : list string) (r : req) (o : robs) : bool :=
  bools_eqb (map (has r) probes) (o_has o) && Z.eqb (rlen r) (o_len o) && oper_eqb (operator r) (o_op o)
  && set_eqb (vals r) (o_vals o) && Bool.eqb (compl r) (o_compl o)
  && optZ_eqb (gte r) (o_gte o) && optZ_eqb (lte r) (o_lte o) && optZ_eqb (minv r) (o_minv o)
  && Bool.eqb (sat_undefined r) (o_undef o).

Inductive case :=
| CaseReq (probes : list string) (cs : list call) (o : robs)
| CasePair (probes : list string) (ca cb : list call) (oa ob oi : robs) (hi hi_rev : bool)
| CaseInsert (probes : list string) (cs : list call) (items : list string) (o : robs)   (* Requirement.Insert(items...) *)
| CaseCompat (tbl : list (string * string)) (vtbl : list (string * list (string * string))) (allow probes : list string)
             (a b : list (string * call)) (compat inter : bool)
(* NewPodRequirements / NewStrictPodRequirements: nodeSelector, preferred terms with weights, required terms (OR);
   observed: every key of the resulting Requirements *)
| CasePod (tbl : list (string * string)) (vtbl : list (string * list (string * string))) (probes : list string)
          (strict : bool) (sel : list (string * string)) (prefs : list (Z * list (string * call)))
          (terms : list (list (string * call))) (obs : list (string * robs)).

Fixpoint zipwith {A B C} (f : A -> B -> C) (a : list A) (b : list B) : list C :=
  match a, b with x :: a', y :: b' => f x y :: zipwith f a' b' | _, _ => [] end.

(* Requirements built with NewRequirements(...): keys normalised, Add per requirement *)
Definition norm_vals (vtbl : list (string * list (string * string))) (k : string) (vs : list string) : list string :=
  match List.find (fun p => String.eqb k (fst p)) vtbl with
  | Some p => map (norm_key (snd p)) vs
  | None => vs
  end.
Definition build_reqs (tbl : list (string * string)) (vtbl : list (string * list (string * string)))
    (l : list (string * call)) : reqs :=
  add [] (map (fun kc => let k := norm_key tbl (fst kc) in
                         let '(o, mv, vs) := snd kc in (k, new_req o mv (norm_vals vtbl k vs))) l).

(* executable per-key specification of Compatible, evaluated with a finite probe set that contains a
   witness whenever one exists for the generated requirements (fresh + zero-padded numerals) *)
Definition compat_spec_b (allow probes : list string) (a b : reqs) : bool :=
  forallb (fun kr : string * req =>
    let (k, rb) := kr in
    match find k a with
    | Some ra => existsb (fun lbl => admits ra lbl && admits rb lbl) (None :: map Some probes)
    | None => mem k allow || admits rb None
    end) b.

Definition inter_spec_b (probes : list string) (a b : reqs) : bool :=
  forallb (fun kr : string * req =>
    let (k, rb) := kr in
    match find k a with
    | Some ra => existsb (fun lbl => admits ra lbl && admits rb lbl) (None :: map Some probes)
    | None => true
    end) b.

Definition tag (ok : bool) (t : string) : list string := if ok then [] else [t].

(* the heaviest preferred term; ties go to the first one (stable sort by descending weight) *)
Fixpoint heaviest {X} (best : option (Z * X)) (l : list (Z * X)) : option X :=
  match l with
  | [] => option_map snd best
  | (w, x) :: t =>
      match best with
      | None => heaviest (Some (w, x)) t
      | Some (bw, _) => if (bw <? w)%Z then heaviest (Some (w, x)) t else heaviest best t
      end
  end.

(* newPodRequirements: labels of the nodeSelector, then (unless strict) the heaviest preference, then the FIRST
   required term; each added with Requirements.Add *)
Definition pod_exprs (strict : bool) (sel : list (string * string)) (prefs : list (Z * list (string * call)))
    (terms : list (list (string * call))) : list (list (string * call)) :=
  [map (fun kv : string * string => (fst kv, (In, None, [snd kv]))) sel]
  ++ (if strict then [] else match heaviest None prefs with Some e => [e] | None => [] end)
  ++ (match terms with t :: _ => [t] | [] => [] end).

Definition pod_reqs tbl vtbl strict sel prefs terms : reqs :=
  fold_left (fun acc e => add acc (build_reqs tbl vtbl e)) (pod_exprs strict sel prefs terms) [].

(* Kubernetes' reading of the same pod: a value of key k is acceptable iff every expression on k accepts it *)
Definition pod_spec_has tbl vtbl strict sel prefs terms (k p : string) : option bool :=
  let es := filter (fun kc : string * call => String.eqb (norm_key tbl (fst kc)) k) (concat (pod_exprs strict sel prefs terms)) in
  let cs := map (fun kc : string * call => let '(o, mv, vs) := snd kc in (o, norm_vals vtbl k vs)) es in
  if forallb (fun c : oper * list string => valid_args (fst c) (snd c)) cs
  then Some (forallb (fun c : oper * list string => k8s_match (fst c) (snd c) (Some p)) cs)
  else None.

Definition check_case (c : case) : list string :=
  match c with
  | CaseReq probes cs o =>
      tag (obs_matches probes (build cs) o) "corr:requirement"
      (* oracle: a single constructor call admits exactly what Kubernetes admits *)
      ++ match cs with
         | [(op, mv, vs)] =>
             if valid_args op vs
             then tag (bools_eqb (o_has o) (map (fun p => k8s_match op vs (Some p)) probes)) "oracle:constructor-vs-kubernetes"
             else []
         | _ => []
         end
  | CaseInsert probes cs items o =>
      (* Insert adds to the value set in place (whatever the complement flag): model = same record, values extended *)
      let r := build cs in
      let r' := mkReq (compl r) (dedup (vals r ++ items)) (gte r) (lte r) (minv r) in
      tag (obs_matches probes r' o) "corr:insert"
      ++ (if compl r then [] else
            tag (bools_eqb (o_has o) (map (fun p => (mem p (vals r) || mem p items) && within p (gte r) (lte r)) probes))
                "oracle:insert-adds-exactly-the-items")
  | CasePair probes ca cb oa ob oi hi hi_rev =>
      let a := build ca in let b := build cb in
      tag (obs_matches probes a oa && obs_matches probes b ob) "corr:requirement"
      ++ tag (obs_matches probes (intersection a b) oi) "corr:intersection"
      ++ tag (Bool.eqb (has_intersection a b) hi && Bool.eqb (has_intersection b a) hi_rev) "corr:has_intersection"
      (* oracles on the implementation's own observations *)
      ++ tag (bools_eqb (o_has oi) (zipwith andb (o_has oa) (o_has ob))) "oracle:intersection-admits-both"
      ++ tag (Bool.eqb hi (existsb (fun x => x) (zipwith andb (o_has oa) (o_has ob))) && Bool.eqb hi hi_rev)
             "oracle:overlap-iff-nonempty"
  | CaseCompat tbl vtbl allow probes la lb compat inter =>
      let a := build_reqs tbl vtbl la in let b := build_reqs tbl vtbl lb in
      tag (Bool.eqb (compatible allow a b) compat) "corr:compatible"
      ++ tag (Bool.eqb (intersects a b) inter) "corr:intersects"
      ++ tag (Bool.eqb compat (compat_spec_b allow probes a b) && Bool.eqb inter (inter_spec_b probes a b)) "oracle:compatible-spec"
  | CasePod tbl vtbl probes strict sel prefs terms obs =>
      let m := pod_reqs tbl vtbl strict sel prefs terms in
      tag (Nat.eqb (length m) (length obs)
           && forallb (fun ko : string * robs =>
                match find (fst ko) m with Some r => obs_matches probes r (snd ko) | None => false end) obs)
          "corr:pod-requirements"
      ++ tag (forallb (fun ko : string * robs =>
                bools_eqb (o_has (snd ko))
                  (zipwith (fun p h => match pod_spec_has tbl vtbl strict sel prefs terms (fst ko) p with
                                       | Some b => b | None => h end) probes (o_has (snd ko)))) obs)
             "oracle:pod-requirements-vs-kubernetes"
  end.

Definition check_all (cs : list (Z * case)) : list (Z * string) :=
  flat_map (fun ic => map (fun t => (fst ic, t)) (check_case (snd ic))) cs.
