(* C12: Requirements.Add over a whole sequence of requirements (pkg/scheduling/requirements.go Add).
   The admitted set of every key after adding rs is the admitted set before, intersected with every
   added requirement of that key; hence the order of additions never matters for what is admitted. *)
From Coq Require Import Permutation.
From KV Require Import Base.Req Base.ReqProofs.
Open Scope Z_scope.

(* every requirement of key k0 in rs admits v *)
Definition all_admit (rs : list (string * req)) (k0 v : string) : bool :=
  forallb (fun kr : string * req => negb (String.eqb k0 (fst kr)) || has (snd kr) v) rs.

Lemma get_add_all rs : forall m k0 v,
  has (get (add m rs) k0) v = has (get m k0) v && all_admit rs k0 v.
Proof.
  induction rs as [|[k r] rs IH]; intros m k0 v.
  - cbn. rewrite andb_true_r. reflexivity.
  - unfold add in *. cbn [fold_left]. rewrite IH. rewrite get_add1.
    unfold all_admit. cbn [forallb fst snd].
    destruct (String.eqb k0 k); cbn [negb orb].
    + destruct (has r v), (has (get m k0) v); reflexivity.
    + reflexivity.
Qed.

Lemma all_admit_perm rs rs' k0 v : Permutation rs rs' -> all_admit rs k0 v = all_admit rs' k0 v.
Proof.
  unfold all_admit. intros P. induction P as [|x l l' P IH|x y l|l l' l'' P1 IH1 P2 IH2]; cbn [forallb].
  - reflexivity.
  - rewrite IH. reflexivity.
  - rewrite !andb_assoc. f_equal. apply andb_comm.
  - rewrite IH1. exact IH2.
Qed.

Lemma add_perm rs rs' m k0 v : Permutation rs rs' ->
  has (get (add m rs) k0) v = has (get (add m rs') k0) v.
Proof. intros P. rewrite !get_add_all. rewrite (all_admit_perm _ _ _ _ P). reflexivity. Qed.

(* adding never widens: whatever is admitted afterwards was admitted before *)
Lemma add_monotone rs m k0 v : has (get (add m rs) k0) v = true -> has (get m k0) v = true.
Proof. rewrite get_add_all. intros H. apply andb_prop in H. exact (proj1 H). Qed.

(* adding the same sequence twice changes nothing that is admitted *)
Lemma add_twice rs m k0 v : has (get (add (add m rs) rs) k0) v = has (get (add m rs) k0) v.
Proof. rewrite !get_add_all. destruct (all_admit rs k0 v), (has (get m k0) v); reflexivity. Qed.
