(* C04 — proofs about the model of C04/Model.v (scheduler order, passes, Synced guard, deleting nodes). *)
From Coq Require Import ZArith String List Bool Lia Arith.
From KV Require Import Base.Req Base.ReqProofs Base.K8s C01.Model C01.Proofs C04.Model.
Import ListNotations.
Open Scope string_scope.
Open Scope list_scope.
Open Scope Z_scope.
Local Arguments String.eqb : simpl never.

(* ================================================================== Scheduler.add: the order of the three tiers *)

Definition none_fits (c : cfg) (exempt : bool) (s : sched) (p : pod) : Prop :=
  (forall x, List.In x (s_ex s) -> ex_accepts c exempt x p = false) /\
  (forall x, List.In x (s_in s) -> in_accepts c x p = false).

Lemma place_ex_none c exempt l p : place_ex c exempt l p = None -> forall x, List.In x l -> ex_accepts c exempt x p = false.
Proof.
  induction l as [|y l IH]; intros H x Hin; [destruct Hin|].
  simpl in H. destruct (ex_accepts c exempt y p) eqn:A.
  - exfalso. unfold ex_accepts in A. destruct (ex_uca y && negb exempt); [discriminate|].
    destruct (ex_can_add (c_all c) (ex_node y) p); [discriminate H|discriminate A].
  - destruct (place_ex c exempt l p) as [[t' n]|] eqn:E; [discriminate|].
    destruct Hin as [<-|Hin]; [exact A|apply IH; [reflexivity|exact Hin]].
Qed.

(* the name returned by place_ex is one of the list, the node accepted the pod, every earlier node rejected it, and
   the names of the list do not change *)
Lemma place_ex_some c exempt l p l' n : place_ex c exempt l p = Some (l', n) ->
  map ex_name l' = map ex_name l /\
  exists pre x post, l = pre ++ x :: post /\ ex_name x = n /\ ex_accepts c exempt x p = true /\
    forall y, List.In y pre -> ex_accepts c exempt y p = false.
Proof.
  revert l' n. induction l as [|y l IH]; intros l' n H; [discriminate|].
  simpl in H. destruct (ex_accepts c exempt y p) eqn:A.
  - destruct (ex_can_add (c_all c) (ex_node y) p) as [r|e]; [|discriminate]. injection H as <- <-.
    split; [reflexivity|]. exists [], y, l. repeat split; try assumption. intros z [].
  - destruct (place_ex c exempt l p) as [[t' m]|] eqn:E; [|discriminate]. injection H as <- <-.
    destruct (IH t' m eq_refl) as (Hn & pre & x & post & -> & Hx & Hacc & Hpre).
    split; [simpl; rewrite Hn; reflexivity|].
    exists (y :: pre), x, post. repeat split; try assumption.
    intros z [<-|Hz]; [exact A|apply Hpre, Hz].
Qed.

Lemma min_nat_attained (l : list nat) : l <> [] -> List.In (min_nat l) l.
Proof.
  induction l as [|a l IH]; [congruence|]. intros _. destruct l as [|b l]; [left; reflexivity|].
  change (min_nat (a :: b :: l)) with (Nat.min a (min_nat (b :: l))).
  destruct (Nat.min_spec a (min_nat (b :: l))) as [[_ ->]|[_ ->]]; [left; reflexivity|right; apply IH; discriminate].
Qed.

Lemma in_candidates_nil c l p : in_candidates c l p = [] -> forall x, List.In x l -> in_accepts c x p = false.
Proof.
  unfold in_candidates. set (acc := filter (fun x => in_accepts c x p) l). intros H x Hin.
  destruct (in_accepts c x p) eqn:A; [|reflexivity]. exfalso.
  assert (Hx : List.In x acc) by (apply filter_In; split; assumption).
  assert (Hne : map npods acc <> []) by (destruct acc; [destruct Hx|discriminate]).
  pose proof (min_nat_attained _ Hne) as Hm. apply in_map_iff in Hm as (y & Hy & Hyin).
  assert (Hf : List.In y (filter (fun z => Nat.eqb (npods z) (min_nat (map npods acc))) acc)).
  { apply filter_In. split; [exact Hyin|]. rewrite Hy. apply Nat.eqb_refl. }
  rewrite H in Hf. destruct Hf.
Qed.

(* every candidate accepts the pod and no accepting claim holds fewer pods *)
Lemma in_candidates_spec c l p x : List.In x (in_candidates c l p) ->
  List.In x l /\ in_accepts c x p = true /\ forall y, List.In y l -> in_accepts c y p = true -> (npods x <= npods y)%nat.
Proof.
  unfold in_candidates. set (acc := filter (fun x => in_accepts c x p) l). intros H.
  apply filter_In in H as [Hacc Hm]. apply filter_In in Hacc as [Hin Ha]. split; [exact Hin|]. split; [exact Ha|].
  intros y Hy Hay. apply Nat.eqb_eq in Hm. rewrite Hm.
  assert (Hyacc : List.In (npods y) (map npods acc)) by (apply in_map, filter_In; split; assumption).
  clear -Hyacc. induction (map npods acc) as [|a t IH]; [destruct Hyacc|].
  destruct t as [|b t]; [destruct Hyacc as [<-|[]]; simpl; lia|].
  change (min_nat (a :: b :: t)) with (Nat.min a (min_nat (b :: t))).
  destruct Hyacc as [<-|Hy]; [apply Nat.le_min_l|]. etransitivity; [apply Nat.le_min_r|apply IH, Hy].
Qed.

Lemma place_in_none c hint l p : place_in c hint l p = None -> forall x, List.In x l -> in_accepts c x p = false.
Proof.
  unfold place_in. destruct (in_candidates c l p) eqn:E; [intros _; apply in_candidates_nil, E|discriminate].
Qed.

(* Scheduler.add opens a new NodeClaim only when every existing node and every in-flight claim rejects the pod *)
Lemma sched_add_new c exempt hint s p s' tn :
  sched_add c exempt hint s p = (s', TNew tn) -> none_fits c exempt s p.
Proof.
  unfold sched_add. destruct (place_ex c exempt (s_ex s) p) as [[ex' n]|] eqn:E; [discriminate|].
  destruct (place_in c hint (s_in s) p) as [[in' id]|] eqn:I; [discriminate|].
  intros _. split; [apply place_ex_none, E|apply (place_in_none _ _ _ _ I)].
Qed.

Lemma sched_add_err c exempt hint s p s' :
  sched_add c exempt hint s p = (s', TErr) -> none_fits c exempt s p /\ s' = s.
Proof.
  unfold sched_add. destruct (place_ex c exempt (s_ex s) p) as [[ex' n]|] eqn:E; [discriminate|].
  destruct (place_in c hint (s_in s) p) as [[in' id]|] eqn:I; [discriminate|].
  destruct (place_new c (s_tm s) p) as [[x tn]|]; [discriminate|]. intros [= <-].
  split; [split; [apply place_ex_none, E|apply (place_in_none _ _ _ _ I)]|reflexivity].
Qed.

(* an in-flight claim of the same pass is used only when every existing node rejects the pod *)
Lemma sched_add_in c exempt hint s p s' id :
  sched_add c exempt hint s p = (s', TIn id) -> forall x, List.In x (s_ex s) -> ex_accepts c exempt x p = false.
Proof.
  unfold sched_add. destruct (place_ex c exempt (s_ex s) p) as [[ex' n]|] eqn:E; [discriminate|].
  intros _. apply place_ex_none, E.
Qed.

(* ---- trySchedule: the statement holds at the relaxation level the pod is placed at and at every earlier level ---- *)
Lemma try_schedule_new c exempt hint fuel : forall s p s' tn p',
  try_schedule c exempt hint fuel s p = (s', TNew tn, p') ->
  exists k, p' = relax_n (c_tolpns c) k p /\ forall j, (j <= k)%nat -> none_fits c exempt s (relax_n (c_tolpns c) j p).
Proof.
  induction fuel as [|f IH]; intros s p s' tn p' H; simpl in H.
  - destruct (sched_add c exempt hint s p) as [s1 t] eqn:A. destruct t; try discriminate H.
    injection H as <- <- <-. exists O. split; [reflexivity|]. intros j Hj. assert (j = O) as -> by lia. apply (sched_add_new _ _ _ _ _ _ _ A).
  - destruct (sched_add c exempt hint s p) as [s1 t] eqn:A. destruct t.
    + discriminate H.
    + discriminate H.
    + injection H as <- <- <-. exists O. split; [reflexivity|]. intros j Hj. assert (j = O) as -> by lia. apply (sched_add_new _ _ _ _ _ _ _ A).
    + destruct (relax (c_tolpns c) p) as [p1|] eqn:R; [|discriminate H].
      destruct (IH _ _ _ _ _ H) as (k & Hk & Hall). exists (S k). split.
      * simpl. rewrite R. exact Hk.
      * intros [|j] Hj; [apply (sched_add_err _ _ _ _ _ _ A)|]. simpl. rewrite R. apply Hall. lia.
Qed.

Lemma try_schedule_in c exempt hint fuel : forall s p s' id p',
  try_schedule c exempt hint fuel s p = (s', TIn id, p') ->
  forall x, List.In x (s_ex s) -> ex_accepts c exempt x p' = false.
Proof.
  induction fuel as [|f IH]; intros s p s' id p' H; simpl in H.
  - destruct (sched_add c exempt hint s p) as [s1 t] eqn:A. destruct t; try discriminate H.
    injection H as <- <- <-. apply (sched_add_in _ _ _ _ _ _ _ A).
  - destruct (sched_add c exempt hint s p) as [s1 t] eqn:A. destruct t; try discriminate H.
    + injection H as <- <- <-. apply (sched_add_in _ _ _ _ _ _ _ A).
    + destruct (relax (c_tolpns c) p) as [p1|] eqn:R; [|discriminate H]. apply (IH _ _ _ _ _ H).
Qed.

(* ---- Solve: every recorded placement on a new NodeClaim was made in a state in which nothing else admitted the pod ---- *)
Definition step_ok (c : cfg) (st : step) : Prop :=
  match st_target st with
  | TNew _ => exists orig k, st_pod st = relax_n (c_tolpns c) k orig /\
                forall j, (j <= k)%nat -> none_fits c (st_exempt st) (st_before st) (relax_n (c_tolpns c) j orig)
  | TIn _ => forall x, List.In x (s_ex (st_before st)) -> ex_accepts c (st_exempt st) x (st_pod st) = false
  | _ => True
  end.

Lemma solve_steps_ok c hints fuel : forall s q last acc s' steps rest,
  Forall (step_ok c) acc -> solve c hints fuel s q last acc = (s', steps, rest) -> Forall (step_ok c) steps.
Proof.
  induction fuel as [|f IH]; intros s q last acc s' steps rest Hacc H; simpl in H; [injection H as <- <- <-; exact Hacc|].
  destruct q as [|x q']; [injection H as <- <- <-; exact Hacc|].
  destruct (Nat.eqb (nget (q_uid x) last) (length (x :: q'))); [injection H as <- <- <-; exact Hacc|].
  destruct (try_schedule c (q_exempt x) (lget (p_key (q_pod x)) hints) (relax_fuel (q_pod x)) s (q_pod x)) as [[s1 t] p'] eqn:T.
  destruct t.
  - apply (IH _ _ _ _ _ _ _ (Forall_app.2 (conj Hacc (Forall_cons _ I (Forall_nil _)))) H).
  - refine (IH _ _ _ _ _ _ _ _ H). apply Forall_app. split; [exact Hacc|]. constructor; [|constructor].
    unfold step_ok. cbn [st_target st_before st_exempt st_pod]. apply (try_schedule_in _ _ _ _ _ _ _ _ _ T).
  - refine (IH _ _ _ _ _ _ _ _ H). apply Forall_app. split; [exact Hacc|]. constructor; [|constructor].
    unfold step_ok. cbn [st_target st_before st_exempt st_pod]. exists (q_pod x). apply (try_schedule_new _ _ _ _ _ _ _ _ _ T).
  - apply (IH _ _ _ _ _ _ _ Hacc H).
Qed.

Theorem pass_new_only_if_none_fits_l c e hints daemons nodes tmpls pods s' steps rest :
  pass c e hints daemons nodes tmpls pods = (s', steps, rest) -> Forall (step_ok c) steps.
Proof. unfold pass. apply solve_steps_ok. constructor. Qed.

(* ================================================================== nodes marked for deletion are not capacity *)

Lemma in_ins_sn x y l : List.In x (ins_sn y l) <-> x = y \/ List.In x l.
Proof.
  induction l as [|z l IH]; simpl; [intuition|]. destruct (ex_before z y); simpl; [rewrite IH|]; intuition.
Qed.
Lemma in_sort_sn x l : List.In x (sort_sn l) <-> List.In x l.
Proof. induction l as [|y l IH]; simpl; [reflexivity|]. rewrite in_ins_sn, IH. intuition. Qed.

Definition names_from (nodes : list snode) (s : sched) : Prop :=
  forall n, List.In n (map ex_name (s_ex s)) ->
    exists sn, List.In sn nodes /\ sn_name sn = n /\ sn_marked_for_deletion sn = false.

Lemma sched_add_names c exempt hint s p s' t : sched_add c exempt hint s p = (s', t) ->
  map ex_name (s_ex s') = map ex_name (s_ex s) /\ (forall n, t = TEx n -> List.In n (map ex_name (s_ex s))).
Proof.
  unfold sched_add. destruct (place_ex c exempt (s_ex s) p) as [[ex' n]|] eqn:E.
  - intros [= <- <-]. destruct (place_ex_some _ _ _ _ _ _ E) as (Hn & pre & x & post & Hl & Hx & _). cbn [s_ex].
    split; [exact Hn|]. intros m [= <-]. rewrite Hl, map_app. apply in_or_app. right. left. exact Hx.
  - destruct (place_in c hint (s_in s) p) as [[in' id]|]; [intros [= <- <-]; split; [reflexivity|discriminate]|].
    destruct (place_new c (s_tm s) p) as [[x tn]|]; intros [= <- <-]; split; try reflexivity; discriminate.
Qed.

Lemma try_schedule_names c exempt hint fuel : forall s p s' t p', try_schedule c exempt hint fuel s p = (s', t, p') ->
  map ex_name (s_ex s') = map ex_name (s_ex s) /\ (forall n, t = TEx n -> List.In n (map ex_name (s_ex s))).
Proof.
  induction fuel as [|f IH]; intros s p s' t p' H; simpl in H;
    destruct (sched_add c exempt hint s p) as [s1 t1] eqn:A; pose proof (sched_add_names _ _ _ _ _ _ _ A) as [N1 N2].
  - destruct t1; injection H as <- <- <-; try (split; [exact N1|exact N2]). split; [reflexivity|discriminate].
  - destruct t1; try (injection H as <- <- <-; split; [exact N1|exact N2]).
    destruct (relax (c_tolpns c) p) as [p1|]; [apply (IH _ _ _ _ _ H)|]. injection H as <- <- <-. split; [reflexivity|discriminate].
Qed.

Lemma solve_targets_active c hints nodes fuel : forall s q last acc s' steps rest,
  names_from nodes s ->
  Forall (fun st => forall n, st_target st = TEx n -> exists sn, List.In sn nodes /\ sn_name sn = n /\ sn_marked_for_deletion sn = false) acc ->
  solve c hints fuel s q last acc = (s', steps, rest) ->
  Forall (fun st => forall n, st_target st = TEx n -> exists sn, List.In sn nodes /\ sn_name sn = n /\ sn_marked_for_deletion sn = false) steps.
Proof.
  induction fuel as [|f IH]; intros s q last acc s' steps rest Hs Hacc H; simpl in H; [injection H as <- <- <-; exact Hacc|].
  destruct q as [|x q']; [injection H as <- <- <-; exact Hacc|].
  destruct (Nat.eqb (nget (q_uid x) last) (length (x :: q'))); [injection H as <- <- <-; exact Hacc|].
  destruct (try_schedule c (q_exempt x) (lget (p_key (q_pod x)) hints) (relax_fuel (q_pod x)) s (q_pod x)) as [[s1 t] p'] eqn:T.
  pose proof (try_schedule_names _ _ _ _ _ _ _ _ _ T) as [N1 N2].
  assert (Hs1 : names_from nodes s1) by (intros n Hn; rewrite N1 in Hn; apply Hs, Hn).
  assert (Hstep : forall n, t = TEx n -> exists sn, List.In sn nodes /\ sn_name sn = n /\ sn_marked_for_deletion sn = false)
    by (intros n Hn; apply Hs, N2, Hn).
  destruct t; try (refine (IH _ _ _ _ _ _ _ Hs1 _ H); apply Forall_app; split; [exact Hacc|]; constructor; [exact Hstep|constructor]).
  apply (IH _ _ _ _ _ _ _ Hs Hacc H).
Qed.

Theorem deleting_not_capacity_l c e hints daemons nodes tmpls pods s' steps rest :
  pass c e hints daemons nodes tmpls pods = (s', steps, rest) ->
  forall st n, List.In st steps -> st_target st = TEx n ->
    exists sn, List.In sn nodes /\ sn_name sn = n /\ sn_marked_for_deletion sn = false.
Proof.
  unfold pass. intros H st n Hin Ht.
  assert (H0 : names_from nodes (init_sched e daemons nodes tmpls)).
  { intros m Hm. unfold init_sched in Hm. cbn [s_ex] in Hm. rewrite map_map in Hm. cbn [ex_name] in Hm.
    apply in_map_iff in Hm as (sn & <- & Hsn). apply in_sort_sn in Hsn. unfold active in Hsn. apply filter_In in Hsn as [Hn Hm].
    exists sn. repeat split; [exact Hn|]. destruct (sn_marked_for_deletion sn); [discriminate|reflexivity]. }
  pose proof (solve_targets_active _ _ _ _ _ _ _ _ _ _ _ H0 (Forall_nil _) H) as HF.
  rewrite Forall_forall in HF. apply (HF st Hin n Ht).
Qed.

(* ================================================================== Cluster.Synced and the provisioner's guard *)

Fixpoint cget (k : string) (m : cstate) : option string :=
  match m with
  | [] => None
  | (k', v) :: t => if String.eqb k k' then Some v else cget k t
  end.

Lemma cget_cset k v m k0 : cget k0 (cset k v m) = if String.eqb k0 k then Some v else cget k0 m.
Proof.
  induction m as [|[k' v'] m IH]; simpl.
  - destruct (String.eqb k0 k); reflexivity.
  - destruct (String.eqb_spec k k') as [->|Hn]; simpl.
    + destruct (String.eqb_spec k0 k'); reflexivity.
    + destruct (String.eqb_spec k0 k') as [->|Hn2].
      * destruct (String.eqb_spec k' k); [congruence|reflexivity].
      * exact IH.
Qed.

Lemma cget_cdel k m k0 : k0 <> k -> cget k0 (cdel k m) = cget k0 m.
Proof.
  intros Hne. unfold cdel. induction m as [|[k' v'] m IH]; simpl; [reflexivity|].
  destruct (String.eqb_spec k k') as [->|Hn]; simpl.
  - destruct (String.eqb_spec k0 k'); [congruence|exact IH].
  - destruct (String.eqb k0 k'); [reflexivity|exact IH].
Qed.

Lemma unlaunched_not_synced m n : cget n m = Some "" -> synced m = false.
Proof.
  induction m as [|[k v] m IH]; simpl; [discriminate|].
  destruct (String.eqb_spec n k) as [->|Hn].
  - intros [= ->]. reflexivity.
  - intros H. rewrite (IH H). apply andb_false_r.
Qed.


(* a reconcile that starts while some NodeClaim has no provider id changes nothing: no pass, no NodeClaim *)
Lemma reconcile_blocked s n created : cget n (p_map s) = Some "" -> cstep s (CReconcile created) = s.
Proof. intros H. simpl. rewrite (unlaunched_not_synced _ _ H). reflexivity. Qed.

Definition touches (n : string) (o : cop) : bool :=
  match o with
  | CUpdate m pid => String.eqb m n && negb (String.eqb pid "")
  | CDelete m => String.eqb m n
  | _ => false
  end.

(* from the moment Provisioner.Create recorded NodeClaim [n], and for every history in which [n] is neither launched
   nor deleted, no scheduling pass runs and Synced stays false *)
Lemma blocked_until_launched n : forall ops s,
  cget n (p_map s) = Some "" -> forallb (fun o => negb (touches n o)) ops = true ->
  cget n (p_map (crun s ops)) = Some "" /\ p_passes (crun s ops) = p_passes s /\ synced (p_map (crun s ops)) = false.
Proof.
  induction ops as [|o ops IH]; intros s Hg Hops; simpl.
  - split; [exact Hg|]. split; [reflexivity|apply (unlaunched_not_synced _ _ Hg)].
  - simpl in Hops. apply andb_prop in Hops as [Ho Hops].
    assert (Hstep : cget n (p_map (cstep s o)) = Some "" /\ p_passes (cstep s o) = p_passes s).
    { destruct o as [m|m pid|m|created]; simpl in *.
      - rewrite cget_cset. destruct (String.eqb n m); [split; reflexivity|split; [exact Hg|reflexivity]].
      - rewrite cget_cset. destruct (String.eqb_spec n m) as [->|Hn].
        + rewrite String.eqb_refl in Ho. simpl in Ho. destruct (String.eqb_spec pid ""); [subst; split; reflexivity|discriminate].
        + split; [exact Hg|reflexivity].
      - destruct (String.eqb_spec m n) as [->|Hn]; [discriminate|]. rewrite cget_cdel by congruence. split; [exact Hg|reflexivity].
      - rewrite (unlaunched_not_synced _ _ Hg). split; [exact Hg|reflexivity]. }
    destruct Hstep as [H1 H2]. unfold crun in *. simpl. destruct (IH (cstep s o) H1 Hops) as (A & B & C).
    split; [exact A|]. split; [rewrite B; exact H2|exact C].
Qed.

Theorem no_pass_while_unlaunched_l n ops s :
  forallb (fun o => negb (touches n o)) ops = true ->
  let s1 := crun (cstep s (CCreate n)) ops in
  synced (p_map s1) = false /\ p_passes s1 = p_passes s.
Proof.
  intros Hops s1. assert (Hg : cget n (p_map (cstep s (CCreate n))) = Some "") by (simpl; rewrite cget_cset, String.eqb_refl; reflexivity).
  destruct (blocked_until_launched n ops _ Hg Hops) as (_ & B & C). split; [exact C|exact B].
Qed.

(* a pass runs only in a synced state *)
Lemma reconcile_runs_iff_synced s created :
  p_passes (cstep s (CReconcile created)) = (if synced (p_map s) then S (p_passes s) else p_passes s).
Proof. simpl. destruct (synced (p_map s)); reflexivity. Qed.
