(* C04 — proofs about the model of C04/Model.v (scheduler order, passes, Synced guard, deleting nodes). *)
From Coq Require Import ZArith String List Bool Lia Arith.
From KV Require Import Base.Req Base.ReqProofs Base.K8s C01.Model C01.Proofs C04.Model.
Import ListNotations.
Open Scope string_scope.
Open Scope list_scope.
Open Scope Z_scope.
Local Arguments String.eqb : simpl never.

(* ================================================================== Scheduler.add: the order of the three tiers *)

Definition none_fits (c : cfg) (exempt : bool) (s : sched) (p : pod) : Prop :=
  (forall x, List.In x (s_ex s) -> ex_accepts c exempt x p = false) /\
  (forall x, List.In x (s_in s) -> in_accepts c x p = false).

Lemma place_ex_none c exempt l p : place_ex c exempt l p = None -> forall x, List.In x l -> ex_accepts c exempt x p = false.
Proof.
  induction l as [|y l IH]; intros H x Hin; [destruct Hin|].
  simpl in H. destruct (ex_accepts c exempt y p) eqn:A.
  - exfalso. unfold ex_accepts in A. destruct (ex_uca y && negb exempt); [discriminate|].
    destruct (ex_can_add (c_all c) (ex_node y) p); [discriminate H|discriminate A].
  - destruct (place_ex c exempt l p) as [[t' n]|] eqn:E; [discriminate|].
    destruct Hin as [<-|Hin]; [exact A|apply IH; [reflexivity|exact Hin]].
Qed.

(* the name returned by place_ex is one of the list, the node accepted the pod, every earlier node rejected it, and
   the names of the list do not change *)
Lemma place_ex_some c exempt l p l' n : place_ex c exempt l p = Some (l', n) ->
  map ex_name l' = map ex_name l /\
  exists pre x post, l = pre ++ x :: post /\ ex_name x = n /\ ex_accepts c exempt x p = true /\
    forall y, List.In y pre -> ex_accepts c exempt y p = false.
Proof.
  revert l' n. induction l as [|y l IH]; intros l' n H; [discriminate|].
  simpl in H. destruct (ex_accepts c exempt y p) eqn:A.
  - destruct (ex_can_add (c_all c) (ex_node y) p) as [r|e]; [|discriminate]. injection H as <- <-.
    split; [reflexivity|]. exists [], y, l. repeat split; try assumption. intros z [].
  - destruct (place_ex c exempt l p) as [[t' m]|] eqn:E; [|discriminate]. injection H as <- <-.
    destruct (IH t' m eq_refl) as (Hn & pre & x & post & -> & Hx & Hacc & Hpre).
    split; [simpl; rewrite Hn; reflexivity|].
    exists (y :: pre), x, post. repeat split; try assumption.
    intros z [<-|Hz]; [exact A|apply Hpre, Hz].
Qed.

Lemma min_nat_attained (l : list nat) : l <> [] -> List.In (min_nat l) l.
Proof.
  induction l as [|a l IH]; [congruence|]. intros _. destruct l as [|b l]; [left; reflexivity|].
  change (min_nat (a :: b :: l)) with (Nat.min a (min_nat (b :: l))).
  destruct (Nat.min_spec a (min_nat (b :: l))) as [[_ ->]|[_ ->]]; [left; reflexivity|right; apply IH; discriminate].
Qed.

Lemma in_candidates_nil c l p : in_candidates c l p = [] -> forall x, List.In x l -> in_accepts c x p = false.
Proof.
  unfold in_candidates. set (acc := filter (fun x => in_accepts c x p) l). intros H x Hin.
  destruct (in_accepts c x p) eqn:A; [|reflexivity]. exfalso.
  assert (Hx : List.In x acc) by (apply filter_In; split; assumption).
  assert (Hne : map npods acc <> []) by (destruct acc; [destruct Hx|discriminate]).
  pose proof (min_nat_attained _ Hne) as Hm. apply in_map_iff in Hm as (y & Hy & Hyin).
  assert (Hf : List.In y (filter (fun z => Nat.eqb (npods z) (min_nat (map npods acc))) acc)).
  { apply filter_In. split; [exact Hyin|]. rewrite Hy. apply Nat.eqb_refl. }
  rewrite H in Hf. destruct Hf.
Qed.

(* every candidate accepts the pod and no accepting claim holds fewer pods *)
Lemma in_candidates_spec c l p x : List.In x (in_candidates c l p) ->
  List.In x l /\ in_accepts c x p = true /\ forall y, List.In y l -> in_accepts c y p = true -> (npods x <= npods y)%nat.
Proof.
  unfold in_candidates. set (acc := filter (fun x => in_accepts c x p) l). intros H.
  apply filter_In in H as [Hacc Hm]. apply filter_In in Hacc as [Hin Ha]. split; [exact Hin|]. split; [exact Ha|].
  intros y Hy Hay. apply Nat.eqb_eq in Hm. rewrite Hm.
  assert (Hyacc : List.In (npods y) (map npods acc)) by (apply in_map, filter_In; split; assumption).
  clear -Hyacc. induction (map npods acc) as [|a t IH]; [destruct Hyacc|].
  destruct t as [|b t]; [destruct Hyacc as [<-|[]]; simpl; lia|].
  change (min_nat (a :: b :: t)) with (Nat.min a (min_nat (b :: t))).
  destruct Hyacc as [<-|Hy]; [apply Nat.le_min_l|]. etransitivity; [apply Nat.le_min_r|apply IH, Hy].
Qed.

Lemma place_in_none c hint l p : place_in c hint l p = None -> forall x, List.In x l -> in_accepts c x p = false.
Proof.
  unfold place_in. destruct (in_candidates c l p) eqn:E; [intros _; apply in_candidates_nil, E|discriminate].
Qed.

(* Scheduler.add opens a new NodeClaim only when every existing node and every in-flight claim rejects the pod *)
Lemma sched_add_new c exempt hint s p s' tn :
  sched_add c exempt hint s p = (s', TNew tn) -> none_fits c exempt s p.
Proof.
  unfold sched_add. destruct (place_ex c exempt (s_ex s) p) as [[ex' n]|] eqn:E; [discriminate|].
  destruct (place_in c hint (s_in s) p) as [[in' id]|] eqn:I; [discriminate|].
  intros _. split; [apply place_ex_none, E|apply (place_in_none _ _ _ _ I)].
Qed.

Lemma sched_add_err c exempt hint s p s' :
  sched_add c exempt hint s p = (s', TErr) -> none_fits c exempt s p /\ s' = s.
Proof.
  unfold sched_add. destruct (place_ex c exempt (s_ex s) p) as [[ex' n]|] eqn:E; [discriminate|].
  destruct (place_in c hint (s_in s) p) as [[in' id]|] eqn:I; [discriminate|].
  destruct (place_new c (s_tm s) p) as [[x tn]|]; [discriminate|]. intros [= <-].
  split; [split; [apply place_ex_none, E|apply (place_in_none _ _ _ _ I)]|reflexivity].
Qed.

(* an in-flight claim of the same pass is used only when every existing node rejects the pod *)
Lemma sched_add_in c exempt hint s p s' id :
  sched_add c exempt hint s p = (s', TIn id) -> forall x, List.In x (s_ex s) -> ex_accepts c exempt x p = false.
Proof.
  unfold sched_add. destruct (place_ex c exempt (s_ex s) p) as [[ex' n]|] eqn:E; [discriminate|].
  intros _. apply place_ex_none, E.
Qed.

(* ---- trySchedule: the statement holds at the relaxation level the pod is placed at and at every earlier level ---- *)
Lemma try_schedule_new c exempt hint fuel : forall s p s' tn p',
  try_schedule c exempt hint fuel s p = (s', TNew tn, p') ->
  exists k, p' = relax_n (c_tolpns c) k p /\ forall j, (j <= k)%nat -> none_fits c exempt s (relax_n (c_tolpns c) j p).
Proof.
  induction fuel as [|f IH]; intros s p s' tn p' H; simpl in H.
  - destruct (sched_add c exempt hint s p) as [s1 t] eqn:A. destruct t; try discriminate H.
    injection H as <- <- <-. exists O. split; [reflexivity|]. intros j Hj. assert (j = O) as -> by lia. apply (sched_add_new _ _ _ _ _ _ _ A).
  - destruct (sched_add c exempt hint s p) as [s1 t] eqn:A. destruct t.
    + discriminate H.
    + discriminate H.
    + injection H as <- <- <-. exists O. split; [reflexivity|]. intros j Hj. assert (j = O) as -> by lia. apply (sched_add_new _ _ _ _ _ _ _ A).
    + destruct (relax (c_tolpns c) p) as [p1|] eqn:R; [|discriminate H].
      destruct (IH _ _ _ _ _ H) as (k & Hk & Hall). exists (S k). split.
      * simpl. rewrite R. exact Hk.
      * intros [|j] Hj; [apply (sched_add_err _ _ _ _ _ _ A)|]. simpl. rewrite R. apply Hall. lia.
Qed.

Lemma try_schedule_in c exempt hint fuel : forall s p s' id p',
  try_schedule c exempt hint fuel s p = (s', TIn id, p') ->
  forall x, List.In x (s_ex s) -> ex_accepts c exempt x p' = false.
Proof.
  induction fuel as [|f IH]; intros s p s' id p' H; simpl in H.
  - destruct (sched_add c exempt hint s p) as [s1 t] eqn:A. destruct t; try discriminate H.
    injection H as <- <- <-. apply (sched_add_in _ _ _ _ _ _ _ A).
  - destruct (sched_add c exempt hint s p) as [s1 t] eqn:A. destruct t; try discriminate H.
    + injection H as <- <- <-. apply (sched_add_in _ _ _ _ _ _ _ A).
    + destruct (relax (c_tolpns c) p) as [p1|] eqn:R; [|discriminate H]. apply (IH _ _ _ _ _ H).
Qed.

(* ---- Solve: every recorded placement on a new NodeClaim was made in a state in which nothing else admitted the pod ---- *)
Definition step_ok (c : cfg) (st : step) : Prop :=
  match st_target st with
  | TNew _ => exists orig k, st_pod st = relax_n (c_tolpns c) k orig /\
                forall j, (j <= k)%nat -> none_fits c (st_exempt st) (st_before st) (relax_n (c_tolpns c) j orig)
  | TIn _ => forall x, List.In x (s_ex (st_before st)) -> ex_accepts c (st_exempt st) x (st_pod st) = false
  | _ => True
  end.

Lemma solve_S c hints f s q last acc :
  solve c hints (S f) s q last acc =
  match q with
  | [] => (s, acc, q)
  | x :: q' =>
      if Nat.eqb (nget (q_uid x) last) (length q) then (s, acc, q)
      else
        let p := q_pod x in
        match try_schedule c (q_exempt x) (lget (p_key p) hints) (relax_fuel p) s p with
        | (_, TErr, _) => let q'' := q' ++ [x] in solve c hints f s q'' ((q_uid x, length q'') :: last) acc
        | (s', t, p') => solve c hints f s' q' last (acc ++ [mkStep s (q_exempt x) p' t])
        end
  end.
Proof. reflexivity. Qed.

Lemma solve_steps_ok c hints fuel : forall s q last acc s' steps rest,
  Forall (step_ok c) acc -> solve c hints fuel s q last acc = (s', steps, rest) -> Forall (step_ok c) steps.
Proof.
  induction fuel as [|f IH]; intros s q last acc s' steps rest Hacc H; [simpl in H; injection H as <- <- <-; exact Hacc|].
  rewrite solve_S in H.
  destruct q as [|x q']; [injection H as <- <- <-; exact Hacc|].
  destruct (Nat.eqb (nget (q_uid x) last) (length (x :: q'))); [injection H as <- <- <-; exact Hacc|]. cbv zeta in H.
  destruct (try_schedule c (q_exempt x) (lget (p_key (q_pod x)) hints) (relax_fuel (q_pod x)) s (q_pod x)) as [[s1 t] p'] eqn:T.
  destruct t.
  - refine (IH _ _ _ _ _ _ _ _ H). apply Forall_app. split; [exact Hacc|]. constructor; [exact I|constructor].
  - refine (IH _ _ _ _ _ _ _ _ H). apply Forall_app. split; [exact Hacc|]. constructor; [|constructor].
    unfold step_ok. cbn [st_target st_before st_exempt st_pod]. apply (try_schedule_in _ _ _ _ _ _ _ _ _ T).
  - refine (IH _ _ _ _ _ _ _ _ H). apply Forall_app. split; [exact Hacc|]. constructor; [|constructor].
    unfold step_ok. cbn [st_target st_before st_exempt st_pod]. exists (q_pod x). apply (try_schedule_new _ _ _ _ _ _ _ _ _ T).
  - apply (IH _ _ _ _ _ _ _ Hacc H).
Qed.

Theorem pass_new_only_if_none_fits_l c e hints daemons nodes tmpls pods s' steps rest :
  pass c e hints daemons nodes tmpls pods = (s', steps, rest) -> Forall (step_ok c) steps.
Proof. unfold pass. apply solve_steps_ok. constructor. Qed.

(* ================================================================== nodes marked for deletion are not capacity *)

Lemma in_ins_sn x y l : List.In x (ins_sn y l) <-> x = y \/ List.In x l.
Proof.
  induction l as [|z l IH]; simpl; [intuition|]. destruct (ex_before z y); simpl; [rewrite IH|]; intuition.
Qed.
Lemma in_sort_sn x l : List.In x (sort_sn l) <-> List.In x l.
Proof. induction l as [|y l IH]; simpl; [reflexivity|]. rewrite in_ins_sn, IH. intuition. Qed.

Definition names_from (nodes : list snode) (s : sched) : Prop :=
  forall n, List.In n (map ex_name (s_ex s)) ->
    exists sn, List.In sn nodes /\ sn_name sn = n /\ sn_marked_for_deletion sn = false.

Lemma sched_add_names c exempt hint s p s' t : sched_add c exempt hint s p = (s', t) ->
  map ex_name (s_ex s') = map ex_name (s_ex s) /\ (forall n, t = TEx n -> List.In n (map ex_name (s_ex s))).
Proof.
  unfold sched_add. destruct (place_ex c exempt (s_ex s) p) as [[ex' n]|] eqn:E.
  - intros [= <- <-]. destruct (place_ex_some _ _ _ _ _ _ E) as (Hn & pre & x & post & Hl & Hx & _). cbn [s_ex].
    split; [exact Hn|]. intros m [= <-]. rewrite Hl, map_app. apply in_or_app. right. left. exact Hx.
  - destruct (place_in c hint (s_in s) p) as [[in' id]|]; [intros [= <- <-]; split; [reflexivity|discriminate]|].
    destruct (place_new c (s_tm s) p) as [[x tn]|]; intros [= <- <-]; split; try reflexivity; discriminate.
Qed.

Lemma try_schedule_names c exempt hint fuel : forall s p s' t p', try_schedule c exempt hint fuel s p = (s', t, p') ->
  map ex_name (s_ex s') = map ex_name (s_ex s) /\ (forall n, t = TEx n -> List.In n (map ex_name (s_ex s))).
Proof.
  induction fuel as [|f IH]; intros s p s' t p' H; simpl in H;
    destruct (sched_add c exempt hint s p) as [s1 t1] eqn:A; pose proof (sched_add_names _ _ _ _ _ _ _ A) as [N1 N2].
  - destruct t1; injection H as <- <- <-; try (split; [exact N1|exact N2]). split; [reflexivity|discriminate].
  - destruct t1; try (injection H as <- <- <-; split; [exact N1|exact N2]).
    destruct (relax (c_tolpns c) p) as [p1|]; [apply (IH _ _ _ _ _ H)|]. injection H as <- <- <-. split; [reflexivity|discriminate].
Qed.

Lemma solve_targets_active c hints nodes fuel : forall s q last acc s' steps rest,
  names_from nodes s ->
  Forall (fun st => forall n, st_target st = TEx n -> exists sn, List.In sn nodes /\ sn_name sn = n /\ sn_marked_for_deletion sn = false) acc ->
  solve c hints fuel s q last acc = (s', steps, rest) ->
  Forall (fun st => forall n, st_target st = TEx n -> exists sn, List.In sn nodes /\ sn_name sn = n /\ sn_marked_for_deletion sn = false) steps.
Proof.
  induction fuel as [|f IH]; intros s q last acc s' steps rest Hs Hacc H; [simpl in H; injection H as <- <- <-; exact Hacc|].
  rewrite solve_S in H.
  destruct q as [|x q']; [injection H as <- <- <-; exact Hacc|].
  destruct (Nat.eqb (nget (q_uid x) last) (length (x :: q'))); [injection H as <- <- <-; exact Hacc|]. cbv zeta in H.
  destruct (try_schedule c (q_exempt x) (lget (p_key (q_pod x)) hints) (relax_fuel (q_pod x)) s (q_pod x)) as [[s1 t] p'] eqn:T.
  pose proof (try_schedule_names _ _ _ _ _ _ _ _ _ T) as [N1 N2].
  assert (Hs1 : names_from nodes s1) by (intros n Hn; rewrite N1 in Hn; apply Hs, Hn).
  assert (Hstep : forall n, t = TEx n -> exists sn, List.In sn nodes /\ sn_name sn = n /\ sn_marked_for_deletion sn = false)
    by (intros n Hn; apply Hs, N2, Hn).
  destruct t; try (refine (IH _ _ _ _ _ _ _ Hs1 _ H); apply Forall_app; split; [exact Hacc|]; constructor; [exact Hstep|constructor]).
  apply (IH _ _ _ _ _ _ _ Hs Hacc H).
Qed.

Theorem deleting_not_capacity_l c e hints daemons nodes tmpls pods s' steps rest :
  pass c e hints daemons nodes tmpls pods = (s', steps, rest) ->
  forall st n, List.In st steps -> st_target st = TEx n ->
    exists sn, List.In sn nodes /\ sn_name sn = n /\ sn_marked_for_deletion sn = false.
Proof.
  unfold pass. intros H st n Hin Ht.
  assert (H0 : names_from nodes (init_sched e daemons nodes tmpls)).
  { intros m Hm. unfold init_sched in Hm. cbn [s_ex] in Hm. rewrite map_map in Hm. cbn [ex_name] in Hm.
    apply in_map_iff in Hm as (sn & <- & Hsn). apply (proj1 (in_sort_sn _ _)) in Hsn. unfold active in Hsn. apply filter_In in Hsn as [Hn Hm].
    exists sn. repeat split; [exact Hn|]. destruct (sn_marked_for_deletion sn); [discriminate|reflexivity]. }
  pose proof (solve_targets_active _ _ _ _ _ _ _ _ _ _ _ H0 (Forall_nil _) H) as HF.
  rewrite Forall_forall in HF. apply (HF st Hin n Ht).
Qed.

(* ================================================================== Cluster.Synced and the provisioner's guard *)

Fixpoint cget (k : string) (m : cstate) : option string :=
  match m with
  | [] => None
  | (k', v) :: t => if String.eqb k k' then Some v else cget k t
  end.

Lemma cget_cset k v m k0 : cget k0 (cset k v m) = if String.eqb k0 k then Some v else cget k0 m.
Proof.
  induction m as [|[k' v'] m IH]; simpl.
  - destruct (String.eqb k0 k); reflexivity.
  - destruct (String.eqb_spec k k') as [->|Hn]; simpl.
    + destruct (String.eqb_spec k0 k'); reflexivity.
    + destruct (String.eqb_spec k0 k') as [->|Hn2].
      * destruct (String.eqb_spec k' k); [congruence|reflexivity].
      * exact IH.
Qed.

Lemma cget_cdel k m k0 : k0 <> k -> cget k0 (cdel k m) = cget k0 m.
Proof.
  intros Hne. unfold cdel. induction m as [|[k' v'] m IH]; simpl; [reflexivity|].
  destruct (String.eqb_spec k k') as [->|Hn]; simpl.
  - destruct (String.eqb_spec k0 k'); [congruence|exact IH].
  - destruct (String.eqb k0 k'); [reflexivity|exact IH].
Qed.

Lemma unlaunched_not_synced m n : cget n m = Some "" -> synced m = false.
Proof.
  induction m as [|[k v] m IH]; simpl; [discriminate|].
  destruct (String.eqb_spec n k) as [->|Hn].
  - intros [= ->]. reflexivity.
  - intros H. rewrite (IH H). apply andb_false_r.
Qed.


(* a reconcile that starts while some NodeClaim has no provider id changes nothing: no pass, no NodeClaim *)
Lemma reconcile_blocked s n created : cget n (p_map s) = Some "" -> cstep s (CReconcile created) = s.
Proof. intros H. simpl. rewrite (unlaunched_not_synced _ _ H). reflexivity. Qed.

Definition touches (n : string) (o : cop) : bool :=
  match o with
  | CUpdate m pid => String.eqb m n && negb (String.eqb pid "")
  | CDelete m => String.eqb m n
  | _ => false
  end.

(* from the moment Provisioner.Create recorded NodeClaim [n], and for every history in which [n] is neither launched
   nor deleted, no scheduling pass runs and Synced stays false *)
Lemma blocked_until_launched n : forall ops s,
  cget n (p_map s) = Some "" -> forallb (fun o => negb (touches n o)) ops = true ->
  cget n (p_map (crun s ops)) = Some "" /\ p_passes (crun s ops) = p_passes s /\ synced (p_map (crun s ops)) = false.
Proof.
  induction ops as [|o ops IH]; intros s Hg Hops; simpl.
  - split; [exact Hg|]. split; [reflexivity|apply (unlaunched_not_synced _ _ Hg)].
  - simpl in Hops. apply andb_prop in Hops as [Ho Hops].
    assert (Hstep : cget n (p_map (cstep s o)) = Some "" /\ p_passes (cstep s o) = p_passes s).
    { destruct o as [m|m pid|m|created|]; simpl in *; [| | | |split; [exact Hg|reflexivity]].
      - rewrite cget_cset. destruct (String.eqb n m); [split; reflexivity|split; [exact Hg|reflexivity]].
      - rewrite cget_cset. destruct (String.eqb_spec n m) as [->|Hn].
        + rewrite String.eqb_refl in Ho. simpl in Ho. destruct (String.eqb_spec pid ""); [subst; split; reflexivity|discriminate].
        + split; [exact Hg|reflexivity].
      - destruct (String.eqb_spec m n) as [->|Hn]; [discriminate|]. rewrite cget_cdel by congruence. split; [exact Hg|reflexivity].
      - rewrite (unlaunched_not_synced _ _ Hg). split; [exact Hg|reflexivity]. }
    destruct Hstep as [H1 H2]. unfold crun in *. simpl. destruct (IH (cstep s o) H1 Hops) as (A & B & C).
    split; [exact A|]. split; [rewrite B; exact H2|exact C].
Qed.

Theorem no_pass_while_unlaunched_l n ops s :
  forallb (fun o => negb (touches n o)) ops = true ->
  let s1 := crun (cstep s (CCreate n)) ops in
  synced (p_map s1) = false /\ p_passes s1 = p_passes s.
Proof.
  intros Hops s1. assert (Hg : cget n (p_map (cstep s (CCreate n))) = Some "") by (simpl; rewrite cget_cset, String.eqb_refl; reflexivity).
  destruct (blocked_until_launched n ops _ Hg Hops) as (_ & B & C). split; [exact C|exact B].
Qed.

(* a pass runs only in a synced state *)
Lemma reconcile_runs_iff_synced s created :
  p_passes (cstep s (CReconcile created)) = (if synced (p_map s) then S (p_passes s) else p_passes s).
Proof. simpl. destruct (synced (p_map s)); reflexivity. Qed.

(* ================================================================== the in-flight node re-admits the pods of its claim *)

(* ---- requirement algebra: "satisfied when undefined" is closed under intersection ---- *)
Lemma filter_all_true {A} (f : A -> bool) l : (forall x, f x = true) -> filter f l = l.
Proof. intros H. induction l as [|x l IH]; simpl; [reflexivity|]. rewrite H, IH. reflexivity. Qed.

Lemma sat_undefined_shape r : sat_undefined r = true ->
  gte r = None /\ lte r = None /\ (if compl r then vals r <> [] else vals r = []).
Proof.
  unfold sat_undefined, operator, rlen. destruct (compl r).
  - destruct (vals r) as [|x l] eqn:V.
    + change (max64 - Z.of_nat (length (@nil string)) <? max64) with false. discriminate.
    + destruct (max64 - Z.of_nat (length (x :: l)) <? max64); [|discriminate].
      destruct (gte r), (lte r); try discriminate. intros _. repeat split; discriminate.
  - destruct (vals r) as [|x l] eqn:V.
    + simpl. destruct (gte r), (lte r); try discriminate. intros _. repeat split; reflexivity.
    + replace (0 <? Z.of_nat (length (x :: l))) with true by (symmetry; apply Z.ltb_lt; simpl length; lia). discriminate.
Qed.

Lemma sat_undefined_intro (c : bool) (vs : list string) (mv : option Z) : (if c then vs <> [] else vs = []) -> sat_undefined (mkReq c vs None None mv) = true.
Proof.
  unfold sat_undefined, operator, rlen. cbn [compl vals gte lte]. destruct c.
  - intros H. destruct vs as [|x l]; [congruence|].
    replace (max64 - Z.of_nat (length (x :: l)) <? max64) with true by (symmetry; apply Z.ltb_lt; simpl length; lia). reflexivity.
  - intros ->. reflexivity.
Qed.

Lemma sat_undefined_inter a b : sat_undefined a = true -> sat_undefined b = true -> sat_undefined (intersection a b) = true.
Proof.
  intros Ha Hb. destruct (sat_undefined_shape a Ha) as (Ga & La & Va). destruct (sat_undefined_shape b Hb) as (Gb & Lb & Vb).
  unfold intersection. rewrite Ga, La, Gb, Lb. cbn [max_opt min_opt].
  rewrite filter_all_true by (intros; reflexivity).
  destruct (compl a), (compl b); cbn [andb]; apply sat_undefined_intro.
  - unfold sunion. destruct (vals a); [congruence|discriminate].
  - rewrite Vb. reflexivity.
  - rewrite Va. reflexivity.
  - rewrite Va. reflexivity.
Qed.

(* ---- the label side of ExistingNode.CanAdd ---- *)
(* [lab]: the labels the launched node carries *)
Definition label_ok (lab : string -> option string) (k : string) (x : req) : Prop :=
  match lab k with Some v => has x v = true | None => sat_undefined x = true end.

Definition reqs_inv (lab : string -> option string) (acc : reqs) : Prop :=
  wf_reqs acc /\ nodup_keys acc /\
  (forall k x, find k acc = Some x -> label_ok lab k x) /\
  (forall k v, lab k = Some v -> has_key acc k = true).

Definition pod_lab_ok (lab : string -> option string) (pr : reqs) : Prop :=
  nodup_keys pr /\ forall k q, List.In (k, q) pr -> wf q /\ label_ok lab k q.

Lemma compat_ok lab acc pr : reqs_inv lab acc -> pod_lab_ok lab pr -> compatible [] acc pr = true.
Proof.
  intros (Hw & Hn & Hl & Hk) [Pn Pq]. unfold compatible. apply andb_true_intro. split.
  - apply forallb_forall. intros [k rb] Hin. destruct (Pq k rb Hin) as [_ Hlab]. unfold label_ok in Hlab. cbn [mem existsb orb].
    destruct (lab k) as [v|] eqn:L; [rewrite (Hk k v L); reflexivity|rewrite Hlab; apply orb_true_r].
  - unfold intersects. apply forallb_forall. intros [k ex] Hin.
    destruct (find k pr) as [inc|] eqn:F; [|reflexivity].
    pose proof (In_find k ex acc Hn Hin) as Fa. pose proof (Hl k ex Fa) as Lex.
    destruct (Pq k inc (find_In _ _ _ F)) as [Winc Linc]. unfold label_ok in Lex, Linc.
    destruct (lab k) as [v|].
    + apply orb_true_intro. left. apply (has_intersection_true_iff ex inc (Hw k ex Hin) Winc). exists v. split; assumption.
    + rewrite Lex, Linc. apply orb_true_r.
Qed.

Lemma has_key_set k r m k0 : has_key m k0 = true -> has_key (set k r m) k0 = true.
Proof.
  unfold has_key. destruct (String.eqb_spec k0 k) as [->|Hne]; [rewrite find_set_same; reflexivity|rewrite find_set_other by exact Hne; tauto].
Qed.

Lemma add1_reqs_inv lab acc k r : reqs_inv lab acc -> wf r -> label_ok lab k r -> reqs_inv lab (add1 acc (k, r)).
Proof.
  intros (Hw & Hn & Hl & Hk) Wr Lr.
  destruct (add1_inv acc (k, r) Wr (conj Hw Hn)) as [Hw' Hn']. split; [exact Hw'|]. split; [exact Hn'|]. split.
  - intros k0 x Hf. unfold add1 in Hf. destruct (find k acc) as [ex|] eqn:F.
    + destruct (String.eqb_spec k0 k) as [->|Hne].
      * rewrite find_set_same in Hf. injection Hf as <-. pose proof (Hl k ex F) as Lex. unfold label_ok in *.
        destruct (lab k) as [v|]; [rewrite has_intersection_admits, Lr, Lex; reflexivity|apply sat_undefined_inter; assumption].
      * rewrite find_set_other in Hf by exact Hne. apply (Hl k0 x Hf).
    + destruct (String.eqb_spec k0 k) as [->|Hne].
      * rewrite find_set_same in Hf. injection Hf as <-. exact Lr.
      * rewrite find_set_other in Hf by exact Hne. apply (Hl k0 x Hf).
  - intros k0 v L. unfold add1. destruct (find k acc); apply has_key_set, (Hk k0 v L).
Qed.

Lemma add_reqs_inv lab pr : forall acc, reqs_inv lab acc -> (forall k q, List.In (k, q) pr -> wf q /\ label_ok lab k q) ->
  reqs_inv lab (add acc pr).
Proof.
  unfold add. induction pr as [|[k r] pr IH]; intros acc Hacc Hpr; simpl; [exact Hacc|].
  apply IH; [|intros k0 q Hin; apply Hpr; right; exact Hin].
  destruct (Hpr k r (or_introl eq_refl)) as [Wr Lr]. apply add1_reqs_inv; assumption.
Qed.

(* ---- the resource side ---- *)
Definition nonneg (l : rl) : Prop := forall k v, List.In (k, v) l -> 0 <= v.

Lemma rget_nodup k v (l : rl) : NoDup (map fst l) -> List.In (k, v) l -> rget k l = v.
Proof.
  induction l as [|[k' v'] l IH]; intros Hn Hin; [destruct Hin|]. simpl in *. inversion Hn as [|? ? Hx Hl]; subst.
  destruct Hin as [E|Hin].
  - injection E as -> ->. rewrite String.eqb_refl. reflexivity.
  - destruct (String.eqb_spec k k') as [->|Hne]; [|apply IH; assumption].
    exfalso. apply Hx. apply in_map_iff. exists (k', v). split; [reflexivity|exact Hin].
Qed.

Lemma rget_nonneg k (l : rl) : nonneg l -> 0 <= rget k l.
Proof. intros H. destruct (rget_member k l) as [->|(v & Hin & ->)]; [lia|apply (H k v Hin)]. Qed.

Lemma rsum_nonneg (ls : list rl) k : Forall nonneg ls -> 0 <= rsum ls k.
Proof.
  unfold rsum. induction ls as [|l ls IH]; intros H; simpl; [lia|]. inversion H; subst.
  pose proof (rget_nonneg k l H2). specialize (IH H3). lia.
Qed.

Lemma radd1_keys (l : rl) k v : NoDup (map fst l) -> NoDup (map fst (radd1 l k v)).
Proof.
  induction l as [|[k' v'] l IH]; intros Hn; simpl; [repeat constructor; intros []|].
  inversion Hn as [|? ? Hx Hl]; subst. destruct (String.eqb_spec k k') as [->|Hne]; simpl; [constructor; assumption|].
  constructor; [|apply IH, Hl]. intros Hin. apply Hx.
  clear -Hin Hne. induction l as [|[k2 v2] l IH]; simpl in *.
  - destruct Hin as [E|[]]. congruence.
  - destruct (String.eqb_spec k k2) as [->|Hn2]; simpl in Hin; [exact Hin|]. destruct Hin as [E|Hin]; [left; exact E|right; apply IH, Hin].
Qed.

Lemma rsub_from_keys (dest src : rl) : NoDup (map fst dest) -> NoDup (map fst (rsub_from dest src)).
Proof.
  unfold rsub_from. revert dest. induction src as [|[k v] src IH]; intros dest Hn; simpl; [exact Hn|]. apply IH, radd1_keys, Hn.
Qed.

Lemma fits_intro (cand total : rl) : NoDup (map fst cand) -> NoDup (map fst total) ->
  (forall k, 0 <= rget k total) -> (forall k, rget k cand <= rget k total) -> fits cand total = true.
Proof.
  intros Nc Nt H0 H1. unfold fits. apply andb_true_intro. split; apply forallb_forall; intros [k v] Hin; cbn [fst snd]; apply Z.leb_le.
  - rewrite <- (rget_nodup k v total Nt Hin). apply H0.
  - rewrite <- (rget_nodup k v cand Nc Hin). apply H1.
Qed.

(* ---- host ports: the pods are offered one after the other to a node whose usage is [u] ---- *)
Fixpoint ports_seq (u : usage) (ps : list pod) : Prop :=
  match ps with
  | [] => True
  | p :: t => conflicts u (p_key p) (p_ports p) = false /\ ports_seq (uset u (p_key p) (p_ports p)) t
  end.

(* what the theorem asks of a pod: a well-formed spec, no preferences (the property's restriction), non-negative requests *)
Definition pod_ok (p : pod) : Prop := pod_wf p /\ p_pref p = [] /\ nonneg (p_requests p).

(* the general statement: a node [e] accepts the pods one after the other *)
Lemma ex_exec_all_placed all lab : forall ps e,
  (forall p, List.In p ps -> tolerates_all (en_taints e) (p_tols p) = true) ->
  ports_seq (en_ports e) ps ->
  NoDup (map fst (en_remaining e)) ->
  (forall k, rsum (map p_requests ps) k <= rget k (en_remaining e)) ->
  Forall (fun p => NoDup (map fst (p_requests p)) /\ nonneg (p_requests p)) ps ->
  reqs_inv lab (en_reqs e) ->
  (forall p, List.In p ps -> pod_lab_ok lab (pod_reqs all p)) ->
  en_pods (ex_exec all e ps) = en_pods e ++ ps.
Proof.
  induction ps as [|p ps IH]; intros e HT HP HN HR HW HL HQ; simpl; [rewrite app_nil_r; reflexivity|].
  destruct HP as [HP1 HP2]. inversion HW as [|? ? [Wp Np] HW']; subst.
  assert (Hsum : forall k, 0 <= rsum (map p_requests ps) k).
  { intros k. apply rsum_nonneg. clear -HW'. induction HW' as [|q l [_ Hq] _ IHl]; simpl; constructor; assumption. }
  assert (Hfit : fits (p_requests p) (en_remaining e) = true).
  { apply fits_intro; try assumption.
    - intros k. specialize (HR k). cbn [map] in HR. unfold rsum in HR. cbn [fold_right] in HR. fold (rsum (map p_requests ps) k) in HR.
      pose proof (rget_nonneg k _ Np). specialize (Hsum k). lia.
    - intros k. specialize (HR k). cbn [map] in HR. unfold rsum in HR. cbn [fold_right] in HR. fold (rsum (map p_requests ps) k) in HR.
      specialize (Hsum k). lia. }
  assert (Hc : compatible [] (en_reqs e) (pod_reqs all p) = true) by (apply (compat_ok lab); [exact HL|apply HQ; left; reflexivity]).
  unfold ex_step, ex_can_add. rewrite (HT p (or_introl eq_refl)), HP1, Hfit, Hc. cbn [negb fst].
  rewrite IH.
  - unfold ex_add. cbn [en_pods]. rewrite <- app_assoc. reflexivity.
  - intros q Hq. unfold ex_add. cbn [en_taints]. apply HT. right. exact Hq.
  - unfold ex_add. cbn [en_ports]. exact HP2.
  - unfold ex_add. cbn [en_remaining]. apply rsub_from_keys, HN.
  - intros k. unfold ex_add. cbn [en_remaining]. rewrite rget_rsub_from by exact Wp.
    specialize (HR k). cbn [map] in HR. unfold rsum in HR. cbn [fold_right] in HR. fold (rsum (map p_requests ps) k) in HR. lia.
  - exact HW'.
  - unfold ex_add. cbn [en_reqs]. apply add_reqs_inv; [exact HL|]. destruct (HQ p (or_introl eq_refl)) as [_ H]. exact H.
  - intros q Hq. apply HQ. right. exact Hq.
Qed.

(* ---- what a claim built by any sequence of CanAdd / Add attempts guarantees about its pods ---- *)
Definition claim_inv (all : bool) (n0 n : nclaim) : Prop :=
  nc_taints n = nc_taints n0 /\
  forall p, List.In p (nc_pods n) ->
    tolerates_all (nc_taints n0) (p_tols p) = true /\
    forall k q, List.In (k, q) (pod_reqs all p) -> forall v, has (get (nc_reqs n) k) v = true -> has q v = true.

Lemma claim_inv_step wk cat all rx n0 n p : claim_inv all n0 n -> claim_inv all n0 (fst (nc_step wk cat all rx n p)).
Proof.
  intros [HT HP]. unfold nc_step. destruct (nc_can_add wk cat all rx n p) as [[r its]|e] eqn:C; cbn [fst]; [|split; assumption].
  destruct (nc_can_add_ok _ _ _ _ _ _ _ _ C) as (Htol & _ & HR & _).
  unfold nc_add. split; cbn [nc_taints nc_pods nc_reqs]; [exact HT|].
  intros q Hq. apply in_app_or in Hq as [Hq|[<-|[]]].
  - destruct (HP q Hq) as [H1 H2]. split; [exact H1|]. intros k x Hin v Hv. apply (H2 k x Hin v).
    rewrite HR in Hv. unfold step_reqs in Hv. apply add_narrows in Hv. exact Hv.
  - split; [rewrite <- HT; exact Htol|]. intros k x Hin v Hv. rewrite HR in Hv. unfold step_reqs in Hv.
    apply (add_within _ _ _ _ _ Hin Hv).
Qed.

Lemma claim_inv_exec wk cat all n0 ops : forall n, claim_inv all n0 n -> claim_inv all n0 (nc_exec wk cat all n ops).
Proof.
  induction ops as [|[p rx] ops IH]; intros n H; simpl; [exact H|]. apply IH, claim_inv_step, H.
Qed.

(* ---- host ports of the pods of one claim never clash pairwise ---- *)
Definition ports_of (ps : list pod) : usage := fold_left (fun u p => uset u (p_key p) (p_ports p)) ps [].
Definition usub (u' u : usage) : Prop := forall e, List.In e u' -> List.In e u.

Lemma uset_new u w ps : List.In (w, ps) (uset u w ps).
Proof.
  induction u as [|[k q] u IH]; simpl; [left; reflexivity|].
  destruct (String.eqb_spec w k) as [->|Hn]; [left; reflexivity|right; exact IH].
Qed.
Lemma uset_keep u w ps e : List.In e u -> fst e <> w -> List.In e (uset u w ps).
Proof.
  induction u as [|[k q] u IH]; intros Hin Hne; [destruct Hin|]. simpl.
  destruct (String.eqb_spec w k) as [->|Hn].
  - destruct Hin as [<-|Hin]; [cbn [fst] in Hne; congruence|right; exact Hin].
  - destruct Hin as [<-|Hin]; [left; reflexivity|right; apply IH; assumption].
Qed.
Lemma uset_in u w ps e : NoDup (map fst u) -> List.In e (uset u w ps) -> e = (w, ps) \/ (List.In e u /\ fst e <> w).
Proof.
  induction u as [|[k q] u IH]; intros Hn Hin; simpl in Hin; [destruct Hin as [<-|[]]; left; reflexivity|].
  inversion Hn as [|? ? Hx Hl]; subst. destruct (String.eqb_spec w k) as [->|Hne].
  - destruct Hin as [<-|Hin]; [left; reflexivity|]. right. split; [right; exact Hin|].
    intros E. apply Hx. apply in_map_iff. exists e. split; [exact E|exact Hin].
  - destruct Hin as [<-|Hin]; [right; split; [left; reflexivity|cbn [fst]; congruence]|].
    destruct (IH Hl Hin) as [->|[H1 H2]]; [left; reflexivity|right; split; [right; exact H1|exact H2]].
Qed.
Lemma uset_keys u w ps : NoDup (map fst u) -> NoDup (map fst (uset u w ps)).
Proof.
  induction u as [|[k q] u IH]; intros Hn; simpl; [repeat constructor; intros []|].
  inversion Hn as [|? ? Hx Hl]; subst. destruct (String.eqb_spec w k) as [->|Hne]; simpl; [constructor; assumption|].
  constructor; [|apply IH, Hl]. intros Hin. apply Hx. apply in_map_iff in Hin as (e & He & Hin).
  destruct (uset_in u w ps e Hl Hin) as [->|[H1 _]]; [cbn [fst] in He; congruence|].
  apply in_map_iff. exists e. split; assumption.
Qed.

Lemma usub_uset u' u w ps : NoDup (map fst u') -> usub u' u -> usub (uset u' w ps) (uset u w ps).
Proof.
  intros Hn Hs e Hin. destruct (uset_in u' w ps e Hn Hin) as [->|[H1 H2]]; [apply uset_new|apply uset_keep; [apply Hs, H1|exact H2]].
Qed.

Lemma conflicts_up u' u who ports : usub u' u -> conflicts u' who ports = true -> conflicts u who ports = true.
Proof.
  intros Hs E. unfold conflicts in *.
  apply existsb_exists in E as (n & Hn & E). apply existsb_exists in E as (e & He & E).
  apply existsb_exists. exists n. split; [exact Hn|]. apply existsb_exists. exists e. split; [apply Hs, He|exact E].
Qed.
Lemma conflicts_mono u' u who ports : usub u' u -> conflicts u who ports = false -> conflicts u' who ports = false.
Proof.
  intros Hs H. destruct (conflicts u' who ports) eqn:E; [|reflexivity]. rewrite (conflicts_up _ _ _ _ Hs E) in H. discriminate.
Qed.

Definition ports_inv (n : nclaim) : Prop :=
  NoDup (map fst (ports_of (nc_pods n))) /\ ports_seq [] (nc_pods n) /\
  forall g, List.In g (nc_groups n) -> usub (ports_of (nc_pods n)) (dg_ports g).

Lemma ports_of_app ps p : ports_of (ps ++ [p]) = uset (ports_of ps) (p_key p) (p_ports p).
Proof. unfold ports_of. rewrite fold_left_app. reflexivity. Qed.

Lemma ports_seq_app : forall ps u p, ports_seq u ps ->
  conflicts (fold_left (fun u p => uset u (p_key p) (p_ports p)) ps u) (p_key p) (p_ports p) = false -> ports_seq u (ps ++ [p]).
Proof.
  induction ps as [|q ps IH]; intros u p H C; simpl in *; [split; [exact C|exact I]|].
  destruct H as [H1 H2]. split; [exact H1|apply IH; assumption].
Qed.

Lemma ports_inv_step wk cat all rx n p : ports_inv n -> ports_inv (fst (nc_step wk cat all rx n p)).
Proof.
  intros (Hn & Hs & Hg). unfold nc_step. destruct (nc_can_add wk cat all rx n p) as [[r its]|e] eqn:C; cbn [fst]; [|repeat split; assumption].
  destruct (nc_can_add_ok _ _ _ _ _ _ _ _ C) as (_ & _ & _ & Hne & Hits).
  destruct its as [|name its]; [congruence|].
  destruct (Hits name (or_introl eq_refl)) as (_ & i & g & _ & _ & Hgin & _ & Hconf & _).
  assert (Hc : conflicts (ports_of (nc_pods n)) (p_key p) (p_ports p) = false) by (apply (conflicts_mono _ (dg_ports g)); [apply Hg, Hgin|exact Hconf]).
  unfold nc_add, ports_inv. cbn [nc_pods nc_groups]. rewrite ports_of_app. split; [apply uset_keys, Hn|]. split.
  - apply ports_seq_app; [exact Hs|exact Hc].
  - intros g' Hg'. apply in_map_iff in Hg' as (g0 & <- & Hg0). cbn [dg_ports]. apply usub_uset; [exact Hn|apply Hg, Hg0].
Qed.

Lemma ports_inv_exec wk cat all ops : forall n, ports_inv n -> ports_inv (nc_exec wk cat all n ops).
Proof. induction ops as [|[p rx] ops IH]; intros n H; simpl; [exact H|]. apply IH, ports_inv_step, H. Qed.

(* ---- pod requirements are well formed ---- *)
Lemma wf_reqs_forall (m : reqs) : wf_reqs m -> Forall (fun kr => wf (snd kr)) m.
Proof. intros H. apply Forall_forall. intros [k r] Hin. apply (H k r Hin). Qed.

Lemma pod_reqs_wf all p : pod_wf p -> p_pref p = [] -> wf_reqs (pod_reqs all p) /\ nodup_keys (pod_reqs all p).
Proof.
  intros [_ Wt] Hpref. unfold pod_reqs. rewrite Hpref. cbn [sort_desc fold_right].
  assert (H0 : wf_reqs (sel_reqs (p_sel p)) /\ nodup_keys (sel_reqs (p_sel p))).
  { unfold sel_reqs. apply add_inv; [|apply empty_inv]. apply Forall_forall. intros kr Hin. apply in_map_iff in Hin as (kv & <- & _).
    cbn [snd]. apply wf_new_req. reflexivity. }
  assert (H1 : wf_reqs (if all then sel_reqs (p_sel p) else sel_reqs (p_sel p)) /\ nodup_keys (if all then sel_reqs (p_sel p) else sel_reqs (p_sel p)))
    by (destruct all; exact H0).
  destruct (p_req p) as [|t rest] eqn:E; [exact H1|].
  apply add_inv; [|exact H1]. apply wf_reqs_forall. unfold term_reqs.
  apply (add_inv (map expr_req t) []); [|apply empty_inv]. apply Forall_forall. intros kr Hin. apply in_map_iff in Hin as ([[k o] vs] & <- & Hin).
  cbn [expr_req snd]. apply wf_new_req. apply (Wt t rest eq_refl k o vs Hin).
Qed.

Lemma exec_pods_ok wk cat all : forall ops n, Forall (fun op => pod_ok (fst op)) ops ->
  (forall z, List.In z (nc_pods n) -> pod_ok z) -> forall z, List.In z (nc_pods (nc_exec wk cat all n ops)) -> pod_ok z.
Proof.
  induction ops as [|[p rx] ops IH]; intros n Hops Hn z Hz; simpl in Hz; [apply Hn, Hz|].
  inversion Hops as [|? ? Hp Hrest]; subst. cbn [fst] in Hp. apply (IH _ Hrest) in Hz; [exact Hz|].
  intros y Hy. unfold nc_step in Hy. destruct (nc_can_add wk cat all rx n p) as [[r its]|e]; cbn [fst] in Hy; [|apply Hn, Hy].
  unfold nc_add in Hy. cbn [nc_pods] in Hy. apply in_app_or in Hy as [Hy|[<-|[]]]; [apply Hn, Hy|exact Hp].
Qed.

(* ================================================================== the theorem *)
(* A NodeClaim built by ANY sequence of CanAdd / Add attempts from a fresh template claim [n0]; it was launched and the
   scheduler now sees it as the existing node [v] whose labels are [lab].  If
     - the taints of the view are taints of the claim (state_node_view hides startup and ephemeral taints, see
       view_taints_subset),
     - nothing is bound to the node yet,
     - the remaining resources of the view hold the summed requests (see view_remaining: allocatable of the launched
       instance minus the daemon overhead),
     - (provider-label contract) every label value is admitted by the claim's final requirement on that key, and
     - a pod's requirement on a key the node does not carry accepts the absence of the label,
   then the view re-admits ALL the pods the claim was created for, jointly: the next pass places them there. *)
Theorem rerun_places_on_inflight_l wk cat all n0 ops v lab :
  nc_pods n0 = [] -> Forall (fun op => pod_ok (fst op)) ops ->
  let n := nc_exec wk cat all n0 ops in
  (forall t, List.In t (en_taints v) -> List.In t (nc_taints n0)) ->
  en_ports v = [] -> en_pods v = [] ->
  NoDup (map fst (en_remaining v)) ->
  (forall k, rsum (map p_requests (nc_pods n)) k <= rget k (en_remaining v)) ->
  reqs_inv lab (en_reqs v) ->
  (forall k val, lab k = Some val -> has (get (nc_reqs n) k) val = true) ->
  (forall p, List.In p (nc_pods n) -> forall k q, List.In (k, q) (pod_reqs all p) -> lab k = None -> sat_undefined q = true) ->
  en_pods (ex_exec all v (nc_pods n)) = nc_pods n.
Proof.
  intros Hp0 Hops n HT HP HE HN HR HL Hcontract Habsent.
  assert (CI : claim_inv all n0 n) by (apply claim_inv_exec; split; [reflexivity|rewrite Hp0; intros p []]).
  assert (PI : ports_inv n).
  { apply ports_inv_exec. unfold ports_inv. rewrite Hp0. cbn. split; [constructor|]. split; [exact I|intros g _ e []]. }
  destruct CI as [_ CP]. destruct PI as (_ & PS & _).
  assert (Hpods : forall p, List.In p (nc_pods n) -> pod_ok p).
  { apply exec_pods_ok; [exact Hops|]. rewrite Hp0. intros z []. }
  rewrite <- (app_nil_l (nc_pods n)) at 2. rewrite <- HE.
  apply (ex_exec_all_placed all lab).
  - intros p Hp. destruct (CP p Hp) as [Htol _]. unfold tolerates_all in *. rewrite forallb_forall in *. intros t Ht. apply Htol, HT, Ht.
  - rewrite HP. exact PS.
  - exact HN.
  - exact HR.
  - apply Forall_forall. intros p Hp. destruct (Hpods p Hp) as ([Wp _] & _ & Np). split; assumption.
  - exact HL.
  - intros p Hp. destruct (Hpods p Hp) as (Wp & Hpref & _). destruct (pod_reqs_wf all p Wp Hpref) as [Wr Nr].
    split; [exact Nr|]. intros k q Hin. split; [apply (Wr k q Hin)|]. unfold label_ok.
    destruct (lab k) as [val|] eqn:L.
    + destruct (CP p Hp) as [_ Hnar]. apply (Hnar k q Hin val). apply Hcontract, L.
    + apply (Habsent p Hp k q Hin L).
Qed.

(* ================================================================== the four lifecycle views *)

(* taints: whatever the stage, the taints the scheduler checks are taints of the NodeClaim, provided every taint the
   Node carries is a taint of the NodeClaim or (before initialization) a startup taint or a known ephemeral taint —
   which is what the registration controller (syncNode) and the kubelet produce *)
Lemma view_taints_subset e s :
  sn_claim s = true ->
  (forall t, List.In t (sn_ntaints s) ->
     List.In t (sn_ctaints s) \/
     (sn_initialized s = false /\ (is_ephemeral e t = true \/ existsb (fun st => match_taint st t) (sn_startup s) = true))) ->
  forall t, List.In t (sn_taints e s) -> List.In t (sn_ctaints s).
Proof.
  intros Hc Hn t. unfold sn_taints, sn_managed. rewrite Hc.
  destruct ((negb (sn_registered s) && true) || negb (sn_node s)).
  - destruct (negb (sn_initialized s) && true); [intros H; apply filter_In in H as [H _]; exact H|tauto].
  - destruct (sn_initialized s) eqn:I; cbn [negb andb].
    + intros H. destruct (Hn t H) as [H1|[H1 _]]; [exact H1|discriminate].
    + intros H. apply filter_In in H as [H F]. destruct (Hn t H) as [H1|[_ [H1|H1]]]; [exact H1| |]; rewrite H1 in F; try discriminate.
      rewrite orb_true_r in F. discriminate.
Qed.

Lemma view_taints_are_sn_taints e ds s : en_taints (state_node_view e ds s) = sn_taints e s.
Proof. reflexivity. Qed.

(* labels: an unregistered / NodeClaim-only node presents the NodeClaim's labels, a registered one the Node's *)
Lemma view_labels_stage s : sn_claim s = true ->
  sn_labels s = match sn_stage s with
                | StClaimOnly | StUnregistered => sn_clabels s
                | _ => sn_nlabels s
                end.
Proof.
  intros Hc. unfold sn_labels, sn_stage. rewrite Hc. destruct (sn_node s); cbn [negb]; try reflexivity.
  destruct (sn_registered s); cbn [negb]; [|reflexivity]. destruct (sn_initialized s); reflexivity.
Qed.

(* allocatable: zero-valued (or missing) entries of the node status are overridden by the NodeClaim's values *)
Lemma rget_rset l k v k0 : rget k0 (rset l k v) = if String.eqb k0 k then v else rget k0 l.
Proof.
  induction l as [|[k' v'] l IH]; simpl.
  - destruct (String.eqb k0 k); reflexivity.
  - destruct (String.eqb_spec k k') as [->|Hn]; simpl.
    + destruct (String.eqb_spec k0 k'); reflexivity.
    + destruct (String.eqb_spec k0 k') as [->|Hn2]; [destruct (String.eqb_spec k' k); [congruence|reflexivity]|exact IH].
Qed.

Lemma rget_zero_override_gen k : forall claim acc, NoDup (map fst claim) ->
  rget k (fold_left (fun acc kv => if rget (fst kv) acc =? 0 then rset acc (fst kv) (snd kv) else acc) claim acc) =
  if existsb (String.eqb k) (map fst claim) then (if rget k acc =? 0 then rget k claim else rget k acc) else rget k acc.
Proof.
  induction claim as [|[k1 v1] claim IH]; intros acc Hn; simpl; [reflexivity|].
  inversion Hn as [|? ? Hx Hl]; subst. rewrite (IH _ Hl). cbn [fst snd].
  destruct (String.eqb_spec k k1) as [->|Hne]; cbn [orb].
  - assert (Hnot : existsb (String.eqb k1) (map fst claim) = false).
    { destruct (existsb (String.eqb k1) (map fst claim)) eqn:E; [|reflexivity]. exfalso. apply Hx.
      apply existsb_exists in E as (x & Hin & E). apply String.eqb_eq in E. subst. exact Hin. }
    rewrite Hnot. destruct (rget k1 acc =? 0) eqn:Z; [rewrite rget_rset, String.eqb_refl; reflexivity|reflexivity].
  - assert (E : rget k (if rget k1 acc =? 0 then rset acc k1 v1 else acc) = rget k acc).
    { destruct (rget k1 acc =? 0); [rewrite rget_rset; destruct (String.eqb_spec k k1); [congruence|reflexivity]|reflexivity]. }
    rewrite E. reflexivity.
Qed.

Lemma rget_zero_override node claim k : NoDup (map fst claim) ->
  rget k (zero_override node claim) = if rget k node =? 0 then rget k claim else rget k node.
Proof.
  intros Hn. unfold zero_override. rewrite (rget_zero_override_gen k claim node Hn).
  destruct (existsb (String.eqb k) (map fst claim)) eqn:E; [reflexivity|].
  destruct (rget k node =? 0) eqn:Z; [|reflexivity]. apply Z.eqb_eq in Z. rewrite Z. symmetry. apply rget_notin.
  intros Hin. assert (X : existsb (String.eqb k) (map fst claim) = true) by (apply existsb_exists; exists k; split; [exact Hin|apply String.eqb_refl]).
  rewrite X in E. discriminate.
Qed.

(* whatever the stage, the allocatable of an in-flight node is at least the NodeClaim's (= the launched instance's),
   provided the Node reports, per resource, nothing / zero (not yet known) or at least that much *)
Lemma view_alloc_ge s : sn_claim s = true -> NoDup (map fst (sn_calloc s)) ->
  (sn_node s = true -> forall k, (sn_initialized s = false /\ rget k (sn_nalloc s) = 0) \/ rget k (sn_calloc s) <= rget k (sn_nalloc s)) ->
  forall k, rget k (sn_calloc s) <= rget k (sn_alloc s).
Proof.
  intros Hc Hn Hnode k. unfold sn_alloc. rewrite Hc. destruct (sn_node s) eqn:N.
  - destruct (sn_initialized s) eqn:I; cbn [negb andb].
    + destruct (Hnode eq_refl k) as [[X _]|X]; [discriminate|exact X].
    + rewrite rget_zero_override by exact Hn. destruct (Hnode eq_refl k) as [[_ X]|X].
      * rewrite X. simpl. lia.
      * destruct (rget k (sn_nalloc s) =? 0); lia.
  - assert (sn_initialized s = false) as -> by (unfold sn_initialized, sn_managed; rewrite Hc, N; reflexivity). cbn. lia.
Qed.

(* remaining resources of the view: allocatable minus the requests of the pods bound to the node minus the daemons
   still to come (never negative) *)
Lemma rget_rsub a b k : rget k (rsub a b) = if existsb (String.eqb k) (map fst a) then rget k a - rget k b else 0.
Proof.
  unfold rsub. induction a as [|[k' v] a IH]; simpl; [reflexivity|].
  destruct (String.eqb_spec k k') as [->|Hn]; [reflexivity|exact IH].
Qed.

Lemma rget_clamp (d : rl) k : rget k (map (fun kv => (fst kv, if snd kv <? 0 then 0 else snd kv)) d) = Z.max 0 (rget k d).
Proof.
  induction d as [|[k' v] d IH]; simpl; [reflexivity|]. destruct (String.eqb k k'); [|exact IH].
  destruct (Z.ltb_spec v 0); lia.
Qed.

Lemma rget_new_existing_remaining av d ds k : NoDup (map fst ds) ->
  rget k (new_existing_remaining av d ds) =
  if existsb (String.eqb k) (map fst av) then rget k av - Z.max 0 (rget k d - rget k ds) else 0.
Proof.
  intros Hn. unfold new_existing_remaining. rewrite rget_rsub, rget_clamp, rget_rsub_from by exact Hn. reflexivity.
Qed.

Lemma existsb_keys_rsub a b k : existsb (String.eqb k) (map fst (rsub a b)) = existsb (String.eqb k) (map fst a).
Proof. unfold rsub. rewrite map_map. reflexivity. Qed.

(* the link to C01: C01 shows that for every remaining instance type some compatible available offering holds the
   summed requests plus the daemon overhead of its group ([resources_ok pods overhead alloc]).  If the in-flight node
   reports at least that allocatable and the daemons expected on it weigh at most that overhead, the view's remaining
   resources hold the pods. *)
Lemma view_remaining_holds e ds s (pods : list pod) (alloc overhead : rl) :
  sn_podreq s = [] -> sn_dsreq s = [] ->
  Forall (fun p => nonneg (p_requests p)) pods ->
  let dtotal := requests_for (filter (daemon_compat (sn_taints e s) (sn_labels s)) ds) in
  (forall k, 0 <= rget k dtotal) ->
  (forall k, rget k alloc <= rget k (sn_alloc s)) ->
  (forall k, rget k dtotal <= rget k overhead) ->
  resources_ok pods overhead alloc ->
  forall k, rsum (map p_requests pods) k <= rget k (en_remaining (state_node_view e ds s)).
Proof.
  intros Hp Hd Hnn dtotal H0 Ha Ho Hr k. unfold state_node_view. cbn [en_remaining]. fold dtotal.
  rewrite rget_new_existing_remaining by (rewrite Hd; constructor). rewrite Hd. cbn [rget]. rewrite Z.sub_0_r.
  unfold sn_available. rewrite Hp, existsb_keys_rsub, rget_rsub. cbn [rget].
  assert (Hs : 0 <= rsum (map p_requests pods) k).
  { apply rsum_nonneg. clear -Hnn. induction Hnn; simpl; constructor; assumption. }
  specialize (Hr k). specialize (Ha k). specialize (Ho k). specialize (H0 k).
  destruct (existsb (String.eqb k) (map fst (sn_alloc s))) eqn:E.
  - lia.
  - assert (rget k (sn_alloc s) = 0).
    { apply rget_notin. intros Hin. assert (X : existsb (String.eqb k) (map fst (sn_alloc s)) = true) by (apply existsb_exists; exists k; split; [exact Hin|apply String.eqb_refl]).
      rewrite X in E. discriminate. }
    lia.
Qed.

(* ================================================================== witnesses *)
Definition w_it : itype := mkIT "c16" [] [([("cpu", 16000); ("pods", 10000)], [[]])].
Definition w_cfg : cfg := mkCfg [] [w_it] true false false.
Definition w_eph : ephem := mkEph [] [].
Definition w_pod (name : string) (cpu : Z) (terms : list term) (tols : list toleration) : pod :=
  mkPod name [] terms [] [] [] [] tols [] [("cpu", cpu); ("pods", 1000)].
Definition w_tmpl (name : string) (ts : list taint) (r : reqs) : tment :=
  mkTm name (mkNC ts r ["c16"] [] [mkDG ["c16"] [] []] []).
Definition w_claim_node (name : string) (labels : list (string * string)) (ts : list taint) : snode :=
  mkSN false true "" name [] labels [] ts [] [] [("cpu", 16000); ("pods", 10000)] false false false [] [] [].

(* (1) OR-ed required terms are tried one at a time across ALL tiers: the pod below gets a new NodeClaim from the pool
   (first term `team In [a]`) although the existing node, labelled team=b, satisfies its second term *)
Definition w1_node : snode :=
  mkSN true false "n1" "" [("team", "b")] [] [] [] [] [("cpu", 4000); ("pods", 10000)] [] false false false [] [] [].
Definition w1_pod : pod := w_pod "default/p" 1000 [[("team", In, ["a"])]; [("team", In, ["b"])]] [].
Definition w1_pass := pass w_cfg w_eph [] [] [w1_node] [w_tmpl "pool" [] [("team", new_req In None ["a"])]] [mkQ w1_pod 0 "u1" true].

Lemma w1_new_although_node_admits :
  map (fun st => (p_key (st_pod st), st_target st)) (snd (fst w1_pass)) = [("default/p", TNew "pool")] /\
  existing_admissible_b (sn_labels w1_node) (sn_taints w_eph w1_node) (sn_alloc w1_node) [] [w1_pod] [] = true.
Proof. vm_compute. split; reflexivity. Qed.

(* (2) the re-run is first-fit over the existing nodes in name order: the big pod (created for the tainted claim
   "b-claim") takes the untainted in-flight node "a-claim", the small pods that node was created for cannot go to
   the tainted one and get a SECOND NodeClaim — although each in-flight node re-admits its own pods jointly *)
Definition w2_taint : taint := mkTaint "dedicated" "x" "NoSchedule".
Definition w2_big : pod := w_pod "default/big" 15800 [] [mkTol "" "Exists" "" ""].
Definition w2_s1 : pod := w_pod "default/s1" 4600 [] [].
Definition w2_s2 : pod := w_pod "default/s2" 1500 [] [].
Definition w2_a : snode := w_claim_node "a-claim" [("karpenter.sh/nodepool", "plain")] [].
Definition w2_b : snode := w_claim_node "b-claim" [("karpenter.sh/nodepool", "tainted")] [w2_taint].
Definition w2_tmpls : list tment := [w_tmpl "tainted" [w2_taint] []; w_tmpl "plain" [] []].
Definition w2_pass := pass w_cfg w_eph [] [] [w2_a; w2_b] w2_tmpls [mkQ w2_big 0 "u1" true; mkQ w2_s1 0 "u2" true; mkQ w2_s2 0 "u3" true].

Lemma w2_rerun_opens_second_claim :
  fst (ex_joint true false (state_node_view w_eph [] w2_a) [w2_s1; w2_s2]) = true /\
  fst (ex_joint true false (state_node_view w_eph [] w2_b) [w2_big]) = true /\
  map (fun st => (p_key (st_pod st), st_target st)) (snd (fst w2_pass)) =
    [("default/big", TEx "a-claim"); ("default/s1", TNew "plain"); ("default/s2", TIn "default/s1")].
Proof. vm_compute. repeat split; reflexivity. Qed.

(* non-vacuity of the re-admission theorem: a claim of the pool "plain" that took s1 and s2, launched as c16 *)
Definition w3_claim0 : nclaim := mkNC [] [] ["c16"] [] [mkDG ["c16"] [] []] [].
Lemma w3_example :
  let n := nc_exec [] [w_it] true w3_claim0 [(w2_s1, false); (w2_s2, false)] in
  map p_key (nc_pods n) = ["default/s1"; "default/s2"] /\
  map p_key (en_pods (ex_exec true (state_node_view w_eph [] w2_a) (nc_pods n))) = ["default/s1"; "default/s2"].
Proof. vm_compute. split; reflexivity. Qed.

(* non-vacuity of the Synced guard *)
Lemma w4_sync :
  let s := crun (mkP [] O) [CReconcile ["c1"; "c2"]; CReconcile ["c3"]; CUpdate "c1" "id1"; CReconcile ["c4"]; CUpdate "c2" "id2"; CReconcile []] in
  p_passes s = 2%nat /\ map fst (p_map s) = ["c1"; "c2"].
Proof. vm_compute. split; reflexivity. Qed.

(* a node marked for deletion is skipped: the pod that fits it gets a new NodeClaim *)
Definition w5_node : snode :=
  mkSN true true "n1" "c1" [("karpenter.sh/registered", "true"); ("karpenter.sh/initialized", "true")] [] [] [] [] [("cpu", 4000); ("pods", 10000)] [] true false false [] [] [].
Lemma w5_deleting :
  map (fun st => st_target st) (snd (fst (pass w_cfg w_eph [] [] [w5_node] [w_tmpl "plain" [] []] [mkQ w2_s2 0 "u" true]))) = [TNew "plain"] /\
  map (fun st => st_target st) (snd (fst (pass w_cfg w_eph [] [] [mkSN true true "n1" "c1" [("karpenter.sh/registered", "true"); ("karpenter.sh/initialized", "true")] [] [] [] [] [("cpu", 4000); ("pods", 10000)] [] false false false [] [] []] [w_tmpl "plain" [] []] [mkQ w2_s2 0 "u" true]))) = [TEx "n1"].
Proof. vm_compute. split; reflexivity. Qed.

(* ================================================================== the oracle's boolean parts are the specification *)
Lemma none_fits_b_spec c exempt s p : none_fits_b c exempt s p = true <-> none_fits c exempt s p.
Proof.
  unfold none_fits_b, none_fits_ex, none_fits_in, none_fits. rewrite andb_true_iff, !forallb_forall. split.
  - intros [H1 H2]. split; intros x Hx; [specialize (H1 x Hx)|specialize (H2 x Hx)]; apply negb_true_iff; assumption.
  - intros [H1 H2]. split; intros x Hx; apply negb_true_iff; [apply H1|apply H2]; exact Hx.
Qed.

Lemma target_not_deleting_spec nodes t :
  target_not_deleting nodes t = true <->
  forall n, t = TEx n -> forall s, List.In s nodes -> sn_name s = n -> sn_marked_for_deletion s = false.
Proof.
  destruct t as [m|id|tn|]; simpl; try (split; [intros _ n H; discriminate|reflexivity]).
  rewrite negb_true_iff. split.
  - intros H n [= <-] s Hs Hn. destruct (sn_marked_for_deletion s) eqn:M; [|reflexivity]. exfalso.
    assert (X : existsb (fun s0 => String.eqb (sn_name s0) m && sn_marked_for_deletion s0) nodes = true).
    { apply existsb_exists. exists s. split; [exact Hs|]. rewrite Hn, String.eqb_refl, M. reflexivity. }
    rewrite X in H. discriminate.
  - intros H. destruct (existsb _ nodes) eqn:E; [|reflexivity]. apply existsb_exists in E as (s & Hs & E).
    apply andb_prop in E as [E1 E2]. apply String.eqb_eq in E1. rewrite (H m eq_refl s Hs E1) in E2. discriminate.
Qed.

(* ================================================================== the label requirements of the view *)
(* the labels the scheduler's view of a state node stands for: the node's (stage-dependent) labels plus the hostname *)
Definition view_lab (s : snode) (k : string) : option string :=
  if String.eqb k hostname_key then Some (sn_hostname s) else lget k (sn_labels s).

Lemma has_in_single v mv : has (new_req In mv [v]) v = true.
Proof. unfold has, new_req. cbn [compl vals gte lte dedup mem existsb]. rewrite String.eqb_refl. reflexivity. Qed.

Lemma lget_nodup k v (l : list (string * string)) : NoDup (map fst l) -> List.In (k, v) l -> lget k l = Some v.
Proof.
  induction l as [|[k' v'] l IH]; intros Hn Hin; [destruct Hin|]. simpl in *. inversion Hn as [|? ? Hx Hl]; subst.
  destruct Hin as [E|Hin].
  - injection E as -> ->. rewrite String.eqb_refl. reflexivity.
  - destruct (String.eqb_spec k k') as [->|Hne]; [|apply IH; assumption].
    exfalso. apply Hx. apply in_map_iff. exists (k', v). split; [reflexivity|exact Hin].
Qed.

Lemma lget_in k v (l : list (string * string)) : lget k l = Some v -> List.In (k, v) l.
Proof.
  induction l as [|[k' v'] l IH]; simpl; [discriminate|]. destruct (String.eqb_spec k k') as [->|Hne].
  - intros [= ->]. left. reflexivity.
  - intros H. right. apply IH, H.
Qed.

Definition reqs_inv3 (lab : string -> option string) (acc : reqs) : Prop :=
  wf_reqs acc /\ nodup_keys acc /\ (forall k x, find k acc = Some x -> label_ok lab k x).

Lemma add1_reqs_inv3 lab acc k r : reqs_inv3 lab acc -> wf r -> label_ok lab k r -> reqs_inv3 lab (add1 acc (k, r)).
Proof.
  intros (Hw & Hn & Hl) Wr Lr.
  destruct (add1_inv acc (k, r) Wr (conj Hw Hn)) as [Hw' Hn']. split; [exact Hw'|]. split; [exact Hn'|].
  intros k0 x Hf. unfold add1 in Hf. destruct (find k acc) as [ex|] eqn:F.
  - destruct (String.eqb_spec k0 k) as [->|Hne].
    + rewrite find_set_same in Hf. injection Hf as <-. pose proof (Hl k ex F) as Lex. unfold label_ok in *.
      destruct (lab k) as [v|]; [rewrite has_intersection_admits, Lr, Lex; reflexivity|apply sat_undefined_inter; assumption].
    + rewrite find_set_other in Hf by exact Hne. apply (Hl k0 x Hf).
  - destruct (String.eqb_spec k0 k) as [->|Hne].
    + rewrite find_set_same in Hf. injection Hf as <-. exact Lr.
    + rewrite find_set_other in Hf by exact Hne. apply (Hl k0 x Hf).
Qed.

Lemma add_reqs_inv3 lab rs : forall acc, reqs_inv3 lab acc -> (forall k q, List.In (k, q) rs -> wf q /\ label_ok lab k q) ->
  reqs_inv3 lab (add acc rs).
Proof.
  unfold add. induction rs as [|[k r] rs IH]; intros acc Hacc Hrs; simpl; [exact Hacc|].
  apply IH; [|intros k0 q Hin; apply Hrs; right; exact Hin].
  destruct (Hrs k r (or_introl eq_refl)) as [Wr Lr]. apply add1_reqs_inv3; assumption.
Qed.

Lemma has_key_add1 m kr k : has_key (add1 m kr) k = has_key m k || String.eqb k (fst kr).
Proof.
  destruct kr as [k' r]. unfold add1, has_key. cbn [fst]. destruct (String.eqb_spec k k') as [->|Hne].
  - destruct (find k' m); rewrite find_set_same; symmetry; apply orb_true_r.
  - destruct (find k' m); rewrite find_set_other by exact Hne; rewrite orb_false_r; reflexivity.
Qed.

Lemma has_key_add rs : forall m k, has_key (add m rs) k = has_key m k || existsb (fun kr => String.eqb k (fst kr)) rs.
Proof.
  unfold add. induction rs as [|kr rs IH]; intros m k; simpl; [rewrite orb_false_r; reflexivity|].
  rewrite IH, has_key_add1, orb_assoc. reflexivity.
Qed.

(* the view's requirements stand for exactly the node's labels (and hostname): the label premise of
   rerun_places_on_inflight holds for the view the scheduler computes *)
Lemma view_reqs_inv e ds s :
  NoDup (map fst (sn_labels s)) ->
  (lget hostname_key (sn_labels s) = None \/ lget hostname_key (sn_labels s) = Some (sn_hostname s)) ->
  reqs_inv (view_lab s) (en_reqs (state_node_view e ds s)).
Proof.
  intros Hn Hh. unfold state_node_view. cbn [en_reqs]. set (labels := sn_labels s) in *. set (h := sn_hostname s) in *.
  assert (Hent : forall k q, List.In (k, q) (map (fun kv => (fst kv, new_req In None [snd kv])) labels) -> wf q /\ label_ok (view_lab s) k q).
  { intros k q Hin. apply in_map_iff in Hin as ([k0 v0] & E & Hin). cbn [fst snd] in E. injection E as <- <-.
    split; [apply (wf_new_req In None [v0]); reflexivity|]. unfold label_ok, view_lab. fold labels. fold h.
    destruct (String.eqb_spec k0 hostname_key) as [->|Hne].
    - destruct Hh as [Hh|Hh]; [rewrite (lget_nodup _ _ _ Hn Hin) in Hh; discriminate|].
      rewrite (lget_nodup _ _ _ Hn Hin) in Hh. injection Hh as ->. apply (has_in_single h None).
    - rewrite (lget_nodup _ _ _ Hn Hin). apply (has_in_single v0 None). }
  assert (H3 : reqs_inv3 (view_lab s) (add (sel_reqs labels) [(hostname_key, new_req In None [h])])).
  { apply add_reqs_inv3.
    - unfold sel_reqs. apply add_reqs_inv3; [|exact Hent]. split; [intros ? ? []|]. split; [constructor|intros k x; discriminate].
    - intros k q [E|[]]. injection E as <- <-. split; [apply (wf_new_req In None [h]); reflexivity|].
      unfold label_ok, view_lab. rewrite String.eqb_refl. fold h. apply (has_in_single h None). }
  destruct H3 as (A & B & C). split; [exact A|]. split; [exact B|]. split; [exact C|].
  intros k v L. rewrite has_key_add. unfold view_lab in L. fold labels in L. cbn [existsb fst].
  destruct (String.eqb k hostname_key); [apply orb_true_r|].
  unfold sel_reqs. rewrite has_key_add. apply orb_true_intro. left. apply orb_true_intro. right.
  apply existsb_exists. exists (k, new_req In None [v]). split; [|apply String.eqb_refl].
  apply in_map_iff. exists (k, v). split; [reflexivity|apply lget_in, L].
Qed.

(* a restarted controller does not consider itself synced while a tracked NodeClaim is unlaunched *)
Lemma synced_first_launched m tn ac an f : synced_first m tn ac an f = true -> synced m = true.
Proof. unfold synced_first. intros H. apply andb_prop in H as [H _]. apply andb_prop in H as [H _]. apply andb_prop in H as [_ H]. exact H. Qed.
