(* C04 — executable model of "new capacity is opened only when existing capacity cannot admit the pod".

   Mirrors (method granularity; empty Topology, no volumes, no DRA, no reserved offerings, no NodePool limits):
     pkg/controllers/state/statenode.go      StateNode.Managed / Registered / Initialized / Name / Labels / Taints /
                                             Allocatable / Available / HostName / MarkedForDeletion / Deleted,
                                             StateNodes.Active
     pkg/controllers/state/cluster.go        Cluster.Synced (after the first sync), UpdateNodeClaim / DeleteNodeClaim on the
                                             nodeClaimNameToProviderID map
     provisioning/provisioner.go             Provisioner.Reconcile's Synced guard, Schedule (Active nodes only), Create
     provisioning/scheduling/scheduler.go    calculateExistingNodeClaims / getCompatibleDaemonPods / sortExistingNodes,
                                             Scheduler.add (existing nodes, in-flight claims by pod count, templates in
                                             order; consolidate-after skip rule), trySchedule (relaxation loop), Solve
     provisioning/scheduling/queue.go        NewQueue order, Pop / Push staleness rule
     provisioning/scheduling/existingnode.go NewExistingNode (through C01.Model.new_existing_remaining / ex_can_add / ex_add)
   The per-node admission steps (nc_can_add / nc_add / ex_can_add / ex_add / relax) are the ones of C01/Model.v. *)
From KV Require Export C01.Model.
Open Scope string_scope.
Open Scope list_scope.
Open Scope Z_scope.

(* ------------------------------------------------------------------ small helpers *)
Fixpoint lget (k : string) (l : list (string * string)) : option string :=
  match l with
  | [] => None
  | (k', v) :: t => if String.eqb k k' then Some v else lget k t
  end.

Definition label_is (l : list (string * string)) (k v : string) : bool :=
  match lget k l with Some x => String.eqb x v | None => false end.

(* well-known names read from the code (pkg/apis/v1/labels.go, corev1) *)
Definition registered_key : string := "karpenter.sh/registered".
Definition initialized_key : string := "karpenter.sh/initialized".
Definition hostname_key : string := "kubernetes.io/hostname".

(* corev1.Taint.MatchTaint: key and effect *)
Definition match_taint (a b : taint) : bool := String.eqb (t_key a) (t_key b) && String.eqb (t_eff a) (t_eff b).

(* scheduling.IsKnownEphemeralTaint; the table (KnownEphemeralTaints, KnownEphemeralTaintKeyPrefixes) is read from the
   code by the harness and handed to the model *)
Record ephem := mkEph { eph_taints : list taint; eph_prefixes : list string }.
Definition is_ephemeral (e : ephem) (t : taint) : bool :=
  existsb (fun k => match_taint k t) (eph_taints e) || existsb (fun p => prefix p (t_key t)) (eph_prefixes e).

(* ------------------------------------------------------------------ StateNode *)
Record snode := mkSN {
  sn_node : bool;                            (* Node != nil *)
  sn_claim : bool;                           (* NodeClaim != nil *)
  sn_nname : string;                         (* Node.Name *)
  sn_cname : string;                         (* NodeClaim.Name *)
  sn_nlabels : list (string * string);
  sn_clabels : list (string * string);
  sn_ntaints : list taint;                   (* Node.Spec.Taints *)
  sn_ctaints : list taint;                   (* NodeClaim.Spec.Taints *)
  sn_startup : list taint;                   (* NodeClaim.Spec.StartupTaints *)
  sn_nalloc : rl;                            (* Node.Status.Allocatable *)
  sn_calloc : rl;                            (* NodeClaim.Status.Allocatable *)
  sn_marked : bool;                          (* markedForDeletion *)
  sn_cdeleting : bool;                       (* NodeClaim deletionTimestamp set or InstanceTerminating true *)
  sn_ndeleting : bool;                       (* Node deletionTimestamp set *)
  sn_podreq : rl;                            (* PodRequests() *)
  sn_dsreq : rl;                             (* DaemonSetRequests() *)
  sn_ports : usage                           (* HostPortUsage() *)
}.

Definition sn_managed (s : snode) : bool := sn_claim s.
Definition sn_registered (s : snode) : bool :=
  if sn_managed s then sn_node s && label_is (sn_nlabels s) registered_key "true" else true.
Definition sn_initialized (s : snode) : bool :=
  if sn_managed s then sn_node s && label_is (sn_nlabels s) initialized_key "true" else true.

(* the four lifecycle variants of a managed node (plus unmanaged) *)
Inductive stage := StClaimOnly | StUnregistered | StRegistered | StInitialized | StUnmanaged.
Definition sn_stage (s : snode) : stage :=
  if negb (sn_claim s) then StUnmanaged
  else if negb (sn_node s) then StClaimOnly
  else if negb (sn_registered s) then StUnregistered
  else if negb (sn_initialized s) then StRegistered
  else StInitialized.

Definition sn_name (s : snode) : string :=
  if negb (sn_node s) then sn_cname s
  else if negb (sn_claim s) then sn_nname s
  else if negb (sn_registered s) then sn_cname s
  else sn_nname s.

Definition sn_labels (s : snode) : list (string * string) :=
  if negb (sn_node s) then sn_clabels s
  else if negb (sn_claim s) then sn_nlabels s
  else if negb (sn_registered s) then sn_clabels s
  else sn_nlabels s.

Definition sn_taints (e : ephem) (s : snode) : list taint :=
  let base := if (negb (sn_registered s) && sn_managed s) || negb (sn_node s) then sn_ctaints s else sn_ntaints s in
  if negb (sn_initialized s) && sn_managed s
  then filter (fun t => negb (is_ephemeral e t || existsb (fun st => match_taint st t) (sn_startup s))) base
  else base.

(* ret := copy of the node's list; for every (k, q) of the claim's list: if ret[k] is zero (or absent) then ret[k] := q *)
Fixpoint rset (l : rl) (k : string) (v : Z) : rl :=
  match l with
  | [] => [(k, v)]
  | (k', v') :: t => if String.eqb k k' then (k', v) :: t else (k', v') :: rset t k v
  end.
Definition zero_override (node claim : rl) : rl :=
  fold_left (fun acc kv => if rget (fst kv) acc =? 0 then rset acc (fst kv) (snd kv) else acc) claim node.

Definition sn_alloc (s : snode) : rl :=
  if negb (sn_initialized s) && sn_claim s
  then (if sn_node s then zero_override (sn_nalloc s) (sn_calloc s) else sn_calloc s)
  else sn_nalloc s.

(* Available = Subtract(Allocatable, PodRequests) *)
Definition sn_available (s : snode) : rl := rsub (sn_alloc s) (sn_podreq s).

Definition sn_deleted (s : snode) : bool :=
  (sn_claim s && sn_cdeleting s) || (sn_node s && negb (sn_claim s) && sn_ndeleting s).
Definition sn_marked_for_deletion (s : snode) : bool := sn_marked s || sn_deleted s.

Definition sn_hostname (s : snode) : string :=
  match lget hostname_key (sn_labels s) with
  | Some h => if String.eqb h "" then sn_name s else h
  | None => sn_name s
  end.

(* StateNodes.Active *)
Definition active (l : list snode) : list snode := filter (fun s => negb (sn_marked_for_deletion s)) l.

(* ------------------------------------------------------------------ ExistingNode construction *)
(* isDaemonPodCompatibleWithNode: taints tolerated and NewLabelRequirements(labels).Compatible(NewStrictPodRequirements(d)) *)
Definition daemon_compat (ts : list taint) (labels : list (string * string)) (d : pod) : bool :=
  tolerates_all ts (p_tols d) && compatible [] (sel_reqs labels) (pod_reqs false d).

(* resources.RequestsForPods(daemons...): the daemons' requests carry "pods": 1000 each *)
Definition requests_for (ds : list pod) : rl := fold_left (fun acc d => rmerge acc (p_requests d)) ds [("pods", 0)].

(* buildDaemonOverheadGroups runs before the existing nodes are computed and isDaemonPodCompatible adds the
   PreferNoSchedule toleration to the SHARED daemon pod objects: as soon as one template with an instance type exists,
   the daemon pods the existing nodes are judged with tolerate PreferNoSchedule taints *)
Definition add_pns (d : pod) : pod :=
  if existsb (fun t => tol_eqb t pns_toleration) (p_tols d) then d else with_tols d (p_tols d ++ [pns_toleration]).
Definition prep_daemons (has_templates : bool) (ds : list pod) : list pod :=
  if has_templates then map add_pns ds else ds.

(* the view of a state node the scheduler works with: calculateExistingNodeClaims + NewExistingNode;
   [daemons]: the daemon pods as prepared above *)
Definition state_node_view (e : ephem) (daemons : list pod) (s : snode) : enode :=
  let ts := sn_taints e s in
  let labels := sn_labels s in
  let ds := filter (daemon_compat ts labels) daemons in
  mkEN ts
       (add (sel_reqs labels) [(hostname_key, new_req In None [sn_hostname s])])
       (new_existing_remaining (sn_available s) (requests_for ds) (sn_dsreq s))
       (sn_ports s)
       [].

(* sortExistingNodes: initialized first, then by name (stable; names are distinct) *)
Definition ex_before (a b : snode) : bool :=
  if sn_initialized a && negb (sn_initialized b) then true
  else if negb (sn_initialized a) && sn_initialized b then false
  else String.ltb (sn_name a) (sn_name b).
Fixpoint ins_sn (x : snode) (l : list snode) : list snode :=
  match l with
  | [] => [x]
  | y :: t => if ex_before y x then y :: ins_sn x t else x :: y :: t
  end.
Definition sort_sn (l : list snode) : list snode := fold_right ins_sn [] l.

(* ------------------------------------------------------------------ scheduler state *)
Record exent := mkEx { ex_name : string; ex_uca : bool (* isUnderConsolidateAfter *); ex_node : enode }.
Record inent := mkIn { in_id : string (* key of the pod that opened the claim *); in_tmpl : string; in_claim : nclaim }.
Record tment := mkTm { tm_name : string; tm_claim : nclaim (* a fresh NewNodeClaim of the template *) }.

Record sched := mkS { s_ex : list exent; s_in : list inent; s_tm : list tment }.

Inductive target := TEx (name : string) | TIn (id : string) | TNew (tmpl : string) | TErr.

(* parameters of one pass *)
Record cfg := mkCfg {
  c_wk : list string;          (* v1.WellKnownLabels *)
  c_cat : list itype;          (* the instance types of the pass *)
  c_all : bool;                (* PreferencePolicyRespect *)
  c_relaxmv : bool;            (* MinValuesPolicyBestEffort *)
  c_tolpns : bool              (* Preferences.ToleratePreferNoSchedule *)
}.

Definition ex_accepts (c : cfg) (exempt : bool) (x : exent) (p : pod) : bool :=
  if ex_uca x && negb exempt then false
  else match ex_can_add (c_all c) (ex_node x) p with Ok _ => true | Err _ => false end.

Definition in_accepts (c : cfg) (x : inent) (p : pod) : bool :=
  match nc_can_add (c_wk c) (c_cat c) (c_all c) false (in_claim x) p with Ok _ => true | Err _ => false end.

Definition tm_accepts (c : cfg) (x : tment) (p : pod) : bool :=
  match nc_can_add (c_wk c) (c_cat c) (c_all c) (c_relaxmv c) (tm_claim x) p with Ok _ => true | Err _ => false end.

(* addToExistingNode: the first node (in sorted order) that accepts *)
Fixpoint place_ex (c : cfg) (exempt : bool) (l : list exent) (p : pod) : option (list exent * string) :=
  match l with
  | [] => None
  | x :: t =>
      if ex_accepts c exempt x p then
        match ex_can_add (c_all c) (ex_node x) p with
        | Ok r => Some (mkEx (ex_name x) (ex_uca x) (ex_add (ex_node x) p r) :: t, ex_name x)
        | Err _ => None
        end
      else match place_ex c exempt t p with
           | Some (t', n) => Some (x :: t', n)
           | None => None
           end
  end.

Definition npods (x : inent) : nat := length (nc_pods (in_claim x)).

Fixpoint min_nat (l : list nat) : nat :=
  match l with
  | [] => O
  | [a] => a
  | a :: t => Nat.min a (min_nat t)
  end.

Fixpoint upd_in (c : cfg) (l : list inent) (id : string) (p : pod) : list inent :=
  match l with
  | [] => []
  | x :: t =>
      if String.eqb (in_id x) id then
        match nc_can_add (c_wk c) (c_cat c) (c_all c) false (in_claim x) p with
        | Ok (r, its) => mkIn (in_id x) (in_tmpl x) (nc_add (in_claim x) p r its) :: t
        | Err _ => x :: t
        end
      else x :: upd_in c t id p
  end.

(* addToInflightNode: claims sorted by pod count (unstable sort), first success.  The accepting claims with the
   least number of pods are the possible outcomes; [hint] (the implementation's choice) selects among them *)
Definition in_candidates (c : cfg) (l : list inent) (p : pod) : list inent :=
  let acc := filter (fun x => in_accepts c x p) l in
  let m := min_nat (map npods acc) in
  filter (fun x => Nat.eqb (npods x) m) acc.

Definition place_in (c : cfg) (hint : option string) (l : list inent) (p : pod) : option (list inent * string) :=
  match in_candidates c l p with
  | [] => None
  | x :: _ as cands =>
      let pick := match hint with
                  | Some h => if existsb (fun y => String.eqb (in_id y) h) cands then h else in_id x
                  | None => in_id x
                  end in
      Some (upd_in c l pick p, pick)
  end.

(* addToNewNodeClaim: templates in order, first success; the new claim is appended *)
Fixpoint place_new (c : cfg) (l : list tment) (p : pod) : option (inent * string) :=
  match l with
  | [] => None
  | x :: t =>
      match nc_can_add (c_wk c) (c_cat c) (c_all c) (c_relaxmv c) (tm_claim x) p with
      | Ok (r, its) => Some (mkIn (p_key p) (tm_name x) (nc_add (tm_claim x) p r its), tm_name x)
      | Err _ => place_new c t p
      end
  end.

(* Scheduler.add *)
Definition sched_add (c : cfg) (exempt : bool) (hint : option string) (s : sched) (p : pod) : sched * target :=
  match place_ex c exempt (s_ex s) p with
  | Some (ex', n) => (mkS ex' (s_in s) (s_tm s), TEx n)
  | None =>
  match place_in c hint (s_in s) p with
  | Some (in', id) => (mkS (s_ex s) in' (s_tm s), TIn id)
  | None =>
  match place_new c (s_tm s) p with
  | Some (x, tn) => (mkS (s_ex s) (s_in s ++ [x]) (s_tm s), TNew tn)
  | None => (s, TErr)
  end end end.

(* trySchedule: add, relax on failure, until nothing is left to relax.  Returns the pod as it was placed. *)
Fixpoint try_schedule (c : cfg) (exempt : bool) (hint : option string) (fuel : nat) (s : sched) (p : pod)
  : sched * target * pod :=
  match sched_add c exempt hint s p with
  | (_, TErr) =>
      match fuel with
      | O => (s, TErr, p)
      | S f => match relax (c_tolpns c) p with
               | Some p' => try_schedule c exempt hint f s p'
               | None => (s, TErr, p)
               end
      end
  | (s', t) => (s', t, p)
  end.

(* every relaxation removes one element of the pod spec or adds the one toleration *)
Definition relax_fuel (p : pod) : nat :=
  S (length (p_req p) + length (p_pref p) + length (p_paff p) + length (p_panti p) + length (p_tsc p)).

(* ------------------------------------------------------------------ the queue *)
Record qpod := mkQ { q_pod : pod; q_ts : Z (* creationTimestamp, seconds *); q_uid : string; q_exempt : bool }.

(* byCPUAndMemoryDescending: a total order (UIDs are distinct) *)
Definition q_before (a b : qpod) : bool :=
  let ca := rget "cpu" (p_requests (q_pod a)) in let cb := rget "cpu" (p_requests (q_pod b)) in
  if ca <? cb then false else if cb <? ca then true else
  let ma := rget "memory" (p_requests (q_pod a)) in let mb := rget "memory" (p_requests (q_pod b)) in
  if ma <? mb then false else if mb <? ma then true else
  if negb (q_ts a =? q_ts b) then q_ts a <? q_ts b else String.ltb (q_uid a) (q_uid b).
Fixpoint ins_q (x : qpod) (l : list qpod) : list qpod :=
  match l with
  | [] => [x]
  | y :: t => if q_before y x then y :: ins_q x t else x :: y :: t
  end.
Definition sort_q (l : list qpod) : list qpod := fold_right ins_q [] l.

Fixpoint nget (k : string) (l : list (string * nat)) : nat :=
  match l with
  | [] => O
  | (k', v) :: t => if String.eqb k k' then v else nget k t
  end.

(* one record per successful placement, in the order of placement: the state before, the pod as placed, the target *)
Record step := mkStep { st_before : sched; st_exempt : bool; st_pod : pod; st_target : target }.

(* Solve's loop.  [hints]: pod key -> in-flight claim chosen by the implementation. *)
Fixpoint solve (c : cfg) (hints : list (string * string)) (fuel : nat) (s : sched) (q : list qpod)
         (last : list (string * nat)) (acc : list step) : sched * list step * list qpod :=
  match fuel with
  | O => (s, acc, q)
  | S f =>
      match q with
      | [] => (s, acc, q)
      | x :: q' =>
          if Nat.eqb (nget (q_uid x) last) (length q) then (s, acc, q)    (* no progress since it was pushed *)
          else
            let p := q_pod x in
            match try_schedule c (q_exempt x) (lget (p_key p) hints) (relax_fuel p) s p with
            | (_, TErr, _) => let q'' := q' ++ [x] in solve c hints f s q'' ((q_uid x, length q'') :: last) acc
            | (s', t, p') => solve c hints f s' q' last (acc ++ [mkStep s (q_exempt x) p' t])
            end
      end
  end.

Definition solve_fuel (n : nat) : nat := S (n * S n).

(* a whole pass of Provisioner.Schedule: only the Active state nodes are handed to the scheduler *)
Definition init_sched (e : ephem) (daemons : list pod) (nodes : list snode) (tmpls : list tment) : sched :=
  let ds := prep_daemons (match tmpls with [] => false | _ => true end) daemons in
  mkS (map (fun s => mkEx (sn_name s) false (state_node_view e ds s)) (sort_sn (active nodes))) [] tmpls.

Definition pass (c : cfg) (e : ephem) (hints : list (string * string)) (daemons : list pod) (nodes : list snode)
           (tmpls : list tment) (pods : list qpod) : sched * list step * list qpod :=
  solve c hints (solve_fuel (length pods)) (init_sched e daemons nodes tmpls) (sort_q pods) [] [].

(* ------------------------------------------------------------------ Cluster.Synced and the provisioner's guard *)
(* nodeClaimNameToProviderID *)
Definition cstate := list (string * string).

Inductive cop :=
| CCreate (name : string)                  (* Provisioner.Create -> Cluster.UpdateNodeClaim, no provider id yet *)
| CUpdate (name : string) (pid : string)   (* Cluster.UpdateNodeClaim (informer): launched when pid <> "" *)
| CDelete (name : string)                  (* Cluster.DeleteNodeClaim *)
| CReconcile (created : list string)       (* Provisioner.Reconcile with a triggered batch; [created]: the NodeClaims the
                                              pass creates when it runs (Schedule + CreateNodeClaims) *)
| CReconcileIdle.                          (* Provisioner.Reconcile when nothing triggered the batcher: returns at once *)

Fixpoint cset (k v : string) (m : cstate) : cstate :=
  match m with
  | [] => [(k, v)]
  | (k', v') :: t => if String.eqb k k' then (k, v) :: t else (k', v') :: cset k v t
  end.
Definition cdel (k : string) (m : cstate) : cstate := filter (fun kv => negb (String.eqb k (fst kv))) m.

(* Cluster.Synced once hasSynced is set: no tracked NodeClaim without a provider id *)
Definition synced (m : cstate) : bool := forallb (fun kv => negb (String.eqb (snd kv) "")) m.

(* Cluster.Synced BEFORE the first successful sync (a restarted controller): the API lists must succeed, no tracked
   NodeClaim may lack a provider id, and every NodeClaim / Node of the API must already be tracked *)
Definition synced_first (m : cstate) (tracked_nodes api_claims api_nodes : list string) (list_fails : bool) : bool :=
  negb list_fails && synced m &&
  forallb (fun n => existsb (fun kv => String.eqb n (fst kv)) m) api_claims &&
  forallb (fun n => mem n tracked_nodes) api_nodes.

(* The number of scheduling passes that ran is counted. *)
Record pstate := mkP { p_map : cstate; p_passes : nat }.

Definition cstep (s : pstate) (o : cop) : pstate :=
  match o with
  | CCreate n => mkP (cset n "" (p_map s)) (p_passes s)
  | CUpdate n pid => mkP (cset n pid (p_map s)) (p_passes s)
  | CDelete n => mkP (cdel n (p_map s)) (p_passes s)
  | CReconcile created =>
      if synced (p_map s)
      then mkP (fold_left (fun m n => cset n "" m) created (p_map s)) (S (p_passes s))
      else s
  | CReconcileIdle => s
  end.

Definition crun (s : pstate) (ops : list cop) : pstate := fold_left cstep ops s.

(* ------------------------------------------------------------------ re-admission on one in-flight node *)
(* trySchedule restricted to one existing node: CanAdd, Relax on failure *)
Fixpoint ex_try (all tolpns : bool) (fuel : nat) (n : enode) (p : pod) : option enode :=
  match ex_can_add all n p with
  | Ok r => Some (ex_add n p r)
  | Err _ =>
      match fuel with
      | O => None
      | S f => match relax tolpns p with
               | Some p' => ex_try all tolpns f n p'
               | None => None
               end
      end
  end.

(* the pods one after the other; true when every one of them was placed *)
Fixpoint ex_joint (all tolpns : bool) (n : enode) (ps : list pod) : bool * enode :=
  match ps with
  | [] => (true, n)
  | p :: t =>
      match ex_try all tolpns (relax_fuel p) n p with
      | Some n' => ex_joint all tolpns n' t
      | None => let '(_, n') := ex_joint all tolpns n t in (false, n')
      end
  end.

(* ------------------------------------------------------------------ boolean specification (the oracle's parts) *)
Definition none_fits_ex (c : cfg) (exempt : bool) (s : sched) (p : pod) : bool :=
  forallb (fun x => negb (ex_accepts c exempt x p)) (s_ex s).
Definition none_fits_in (c : cfg) (s : sched) (p : pod) : bool :=
  forallb (fun x => negb (in_accepts c x p)) (s_in s).

Definition none_fits_b (c : cfg) (exempt : bool) (s : sched) (p : pod) : bool := none_fits_ex c exempt s p && none_fits_in c s p.

(* a placement does not name a node that is marked for deletion / deleting *)
Definition target_not_deleting (nodes : list snode) (t : target) : bool :=
  match t with
  | TEx n => negb (existsb (fun s => String.eqb (sn_name s) n && sn_marked_for_deletion s) nodes)
  | _ => true
  end.
