(* C04 — correspondence check and oracles, evaluated by vm_compute on what the Go harness (harness/cmd/c04) observed on
   the real Provisioner / Scheduler / Cluster / lifecycle controller.
     "corr:<what>"   the model disagrees with the implementation
     "oracle:<what>" the property's boolean spec is false on what the implementation did *)
From Coq Require Import ZArith String List Bool.
From KV Require Import C04.Model.
From KV Require C01.Check.
Import ListNotations.
Open Scope string_scope.
Open Scope list_scope.
Open Scope Z_scope.

Definition reqs_eqb := C01.Check.reqs_eqb.
Definition rl_eqb_strict := C01.Check.rl_eqb_strict.
Definition list_eqb {A} := @C01.Check.list_eqb A.
Definition pod_eqb := C01.Check.pod_eqb.

Definition taint_eqb (a b : taint) : bool :=
  String.eqb (t_key a) (t_key b) && String.eqb (t_val a) (t_val b) && String.eqb (t_eff a) (t_eff b).

Definition target_eqb (a b : target) : bool :=
  match a, b with
  | TEx x, TEx y | TIn x, TIn y | TNew x, TNew y => String.eqb x y
  | TErr, TErr => true
  | _, _ => false
  end.

(* the scheduler's view of an existing / in-flight node as the harness reads it from the real ExistingNode *)
Record exobs := mkXO { xo_name : string; xo_init : bool; xo_taints : list taint; xo_reqs : reqs; xo_remaining : rl }.

Definition xo_eqb (a b : exobs) : bool :=
  String.eqb (xo_name a) (xo_name b) && Bool.eqb (xo_init a) (xo_init b) && list_eqb taint_eqb (xo_taints a) (xo_taints b) &&
  reqs_eqb (xo_reqs a) (xo_reqs b) && rl_eqb_strict (xo_remaining a) (xo_remaining b).

Definition view_of (e : ephem) (daemons : list pod) (s : snode) : exobs :=
  let v := state_node_view e daemons s in
  mkXO (sn_name s) (sn_initialized s) (en_taints v) (en_reqs v) (en_remaining v).

Definition obs := list (string * pod * target).    (* pod key, the pod as it was placed, where; unlisted pods failed *)

Fixpoint oget (k : string) (o : obs) : option (pod * target) :=
  match o with
  | [] => None
  | (k', p, t) :: r => if String.eqb k k' then Some (p, t) else oget k r
  end.

Definition hints_of (o : obs) : list (string * string) :=
  flat_map (fun x => match x with (k, _, TIn id) => [(k, id)] | _ => [] end) o.

(* ---- correspondence of a whole pass ---- *)
Definition steps_match (steps : list step) (o : obs) : bool :=
  Nat.eqb (length steps) (length o) &&
  forallb (fun st => match oget (p_key (st_pod st)) o with
                     | Some (p, t) => target_eqb (st_target st) t && pod_eqb (st_pod st) p
                     | None => false
                     end) steps.

(* ---- the property on the implementation's own placements: replay them in queue order ---- *)
(* the relaxations from the original pod up to the form it was placed in *)
Fixpoint levels (tolpns : bool) (fuel : nat) (p placed : pod) : option (list pod) :=
  if pod_eqb p placed then Some [p]
  else match fuel with
       | O => None
       | S f => match relax tolpns p with
                | Some p' => option_map (cons p) (levels tolpns f p' placed)
                | None => None
                end
       end.

Fixpoint force_ex (c : cfg) (l : list exent) (n : string) (p : pod) : option (list exent) :=
  match l with
  | [] => None
  | x :: t =>
      if String.eqb (ex_name x) n then
        match ex_can_add (c_all c) (ex_node x) p with
        | Ok r => Some (mkEx (ex_name x) (ex_uca x) (ex_add (ex_node x) p r) :: t)
        | Err _ => None
        end
      else option_map (cons x) (force_ex c t n p)
  end.

Fixpoint force_new (c : cfg) (l : list tment) (tn : string) (p : pod) : option inent :=
  match l with
  | [] => None
  | x :: t =>
      if String.eqb (tm_name x) tn then
        match nc_can_add (c_wk c) (c_cat c) (c_all c) (c_relaxmv c) (tm_claim x) p with
        | Ok (r, its) => Some (mkIn (p_key p) (tm_name x) (nc_add (tm_claim x) p r its))
        | Err _ => None
        end
      else force_new c t tn p
  end.

(* (the implementation's placements can be replayed in the model, the property holds at each of them) *)
Fixpoint replay (c : cfg) (s : sched) (q : list qpod) (o : obs) : bool * bool :=
  match q with
  | [] => (true, true)
  | x :: q' =>
      match oget (p_key (q_pod x)) o with
      | None => replay c s q' o
      | Some (placed, t) =>
          match levels (c_tolpns c) (relax_fuel (q_pod x)) (q_pod x) placed with
          | None => (false, true)
          | Some lv =>
              let ex_ok := forallb (none_fits_ex c (q_exempt x) s) lv in
              let in_ok := forallb (none_fits_in c s) lv in
              match t with
              | TEx n =>
                  match force_ex c (s_ex s) n placed with
                  | Some ex' => replay c (mkS ex' (s_in s) (s_tm s)) q' o
                  | None => (false, true)
                  end
              | TIn id =>
                  if existsb (fun y => String.eqb (in_id y) id && in_accepts c y placed) (s_in s)
                  then let '(r, ok) := replay c (mkS (s_ex s) (upd_in c (s_in s) id placed) (s_tm s)) q' o in (r, ex_ok && ok)
                  else (false, ex_ok)
              | TNew tn =>
                  match force_new c (s_tm s) tn placed with
                  | Some y => let '(r, ok) := replay c (mkS (s_ex s) (s_in s ++ [y]) (s_tm s)) q' o in (r, ex_ok && in_ok && ok)
                  | None => (false, ex_ok && in_ok)
                  end
              | TErr => (false, true)
              end
          end
      end
  end.

(* no placement names a node that is marked for deletion / deleting *)
Definition deleting_unused (nodes : list snode) (o : obs) : bool :=
  forallb (fun x => match x with (_, _, t) => target_not_deleting nodes t end) o.

(* ---- Synced / Reconcile ---- *)
Definition unlaunched (m : cstate) : bool := existsb (fun kv => String.eqb (snd kv) "") m.

(* segments: ops applied, then the observed Cluster.Synced() and number of scheduling passes so far *)
Fixpoint sync_run (s : pstate) (segs : list (list cop * bool * nat)) : bool * bool * bool :=
  match segs with
  | [] => (true, true, true)
  | (ops, sy, passes) :: rest =>
      let s' := crun s ops in
      (* the oracle: a reconcile that starts while a NodeClaim is unlaunched must not run a pass *)
      let guard_ok :=
        match ops with
        | [CReconcile _] => if unlaunched (p_map s) then Nat.eqb passes (p_passes s) else true
        | _ => true
        end in
      let '(a, b, g) := sync_run (mkP (p_map s') passes) rest in
      (Bool.eqb (synced (p_map s')) sy && a, Nat.eqb (p_passes s') passes && b, guard_ok && g)
  end.

(* ---------------------------------------------------------------- cases *)
Inductive case :=
| CPass (c : cfg) (e : ephem) (daemons : list pod) (nodes : list snode) (tmpls : list tment) (pods : list qpod)
        (views : list exobs) (o : obs)
| CRerun (all tolpns has_tmpls : bool) (e : ephem) (daemons : list pod) (sn : snode) (pods : list pod) (real_ok : bool)
| CSync (segs : list (list cop * bool * nat))
| CSyncFirst (m : cstate) (tracked_nodes api_claims api_nodes : list string) (list_fails : bool) (obs : bool).

Definition tag (ok : bool) (t : string) : list string := if ok then [] else [t].

Definition check_case (x : case) : list string :=
  match x with
  | CPass c e daemons nodes tmpls pods views o =>
      let act := sort_sn (active nodes) in
      let s0 := init_sched e daemons nodes tmpls in
      let '(_, steps, _) := pass c e (hints_of o) daemons nodes tmpls pods in
      (* order of placement: the model's (a pod may fail, be pushed back and succeed in a later round); pods the model
         did not place follow in queue order *)
      let placed_keys := map (fun st => p_key (st_pod st)) steps in
      let in_order := flat_map (fun k => filter (fun x => String.eqb (p_key (q_pod x)) k) pods) placed_keys in
      let others := filter (fun x => negb (existsb (String.eqb (p_key (q_pod x))) placed_keys)) (sort_q pods) in
      let '(replayable, holds) := replay c s0 (in_order ++ others) o in
      let ds := prep_daemons (match tmpls with [] => false | _ => true end) daemons in
      tag (list_eqb xo_eqb (map (view_of e ds) act) views) "corr:state-node-view" ++
      tag (steps_match steps o) "corr:Scheduler.Solve-targets" ++
      tag replayable "corr:placement-not-replayable" ++
      tag holds "oracle:new-capacity-although-existing-or-in-flight-capacity-admits-the-pod" ++
      tag (deleting_unused nodes o) "oracle:deleting-node-counted-as-capacity"
  | CRerun all tolpns has_tmpls e daemons sn pods real_ok =>
      let '(ok, _) := ex_joint all tolpns (state_node_view e (prep_daemons has_tmpls daemons) sn) pods in
      tag (Bool.eqb ok real_ok) "corr:in-flight-joint-admission" ++
      tag real_ok "oracle:in-flight-node-rejects-the-pods-it-was-created-for"
  | CSync segs =>
      let '(a, b, g) := sync_run (mkP [] O) segs in
      tag a "corr:Cluster.Synced" ++ tag b "corr:Provisioner.Reconcile-guard" ++
      tag g "oracle:scheduling-pass-while-a-nodeclaim-is-unlaunched"
  | CSyncFirst m tn ac an fails obs =>
      tag (Bool.eqb (synced_first m tn ac an fails) obs) "corr:Cluster.Synced-first-sync" ++
      (* the property: a controller that has an unlaunched NodeClaim in its state never reports synced *)
      tag (negb (obs && existsb (fun kv => String.eqb (snd kv) "") m)) "oracle:synced-while-a-nodeclaim-is-unlaunched"
  end.

Definition check_all (cs : list (Z * case)) : list (Z * string) :=
  flat_map (fun ic => map (fun t => (fst ic, t)) (check_case (snd ic))) cs.
