(* C05 — correspondence check and oracle, evaluated by vm_compute on the cases the Go harness
   observed on the real budget functions, BuildDisruptionBudgetMapping, the five methods'
   ComputeCommands, the validators and the controller/queue. *)
From Coq Require Import ZArith String List Bool.
From KV Require Import C05.Model C05.Spec.
Import ListNotations.
Open Scope string_scope.
Open Scope Z_scope.

(* A schedule as the independent cron matcher of the harness describes it at the instant of the
   case: (least hit > now - duration, greatest hit h <= now with now < h + duration). *)
Definition sidc := (option Z * option Z)%type.
Definition nextc (s : sidc) (_ : Z) : option Z := fst s.
Definition lastc (s : sidc) : option Z := snd s.

Definition B := budget sidc.

Definition obs_budget := (option bool * Z * bool)%type.

Inductive case :=
| CaseA (now n : Z) (r : reason) (bs : list B)
        (per : list obs_budget) (by_reason : Z * bool) (must : Z)
| CaseM (now : Z) (r : reason) (ps : list (pool sidc)) (ns : list node) (obs : list (Z * Z))
| CaseB (m : method) (mp : list (Z * Z)) (ps : list (pool sidc)) (cs : list cand) (ch : choice)
        (obs : list Z)                                  (* node ids of the proposed command(s), in order *)
| CaseV (m : method) (mp : list (Z * Z)) (prop cur : list cand) (obs : list Z)
| CaseR (s0 : sys sidc) (ops : list (op sidc * list Z * list (Z * Z) * (reason * list (Z * Z)))).
        (* per op: the node ids the real queue newly holds after it, and (for a disrupt call that got
           as far as ComputeCommands) the budget mapping the controller built, per listed pool; last,
           the mapping BuildDisruptionBudgetMapping yields on the real cluster AFTER the op, for a
           reason the harness picked *)

Definition opt_bool_eqb (a b : option bool) : bool :=
  match a, b with
  | None, None => true
  | Some x, Some y => Bool.eqb x y
  | _, _ => false
  end.

Definition zb_eqb (a b : Z * bool) : bool := (fst a =? fst b) && Bool.eqb (snd a) (snd b).

Definition obs_budget_eqb (a b : obs_budget) : bool :=
  let '(a1, a2, a3) := a in let '(b1, b2, b3) := b in
  opt_bool_eqb a1 b1 && (a2 =? b2) && Bool.eqb a3 b3.

Fixpoint list_eqb {A} (eq : A -> A -> bool) (l1 l2 : list A) : bool :=
  match l1, l2 with
  | [], [] => true
  | a :: t1, b :: t2 => eq a b && list_eqb eq t1 t2
  | _, _ => false
  end.

Definition zz_eqb (a b : Z * Z) : bool := (fst a =? fst b) && (snd a =? snd b).

Definition lookup (l : list (Z * Z)) : Z -> Z :=
  fun p => match find (fun x => fst x =? p) l with Some x => snd x | None => 0 end.

(* ---- A ---- *)
Definition model_per (now n : Z) (b : B) : obs_budget :=
  let '(v, e) := allowed_disruptions sidc nextc now n b in
  (is_active sidc nextc now b, v, e).

Definition checkA (now n : Z) (r : reason) (bs : list B)
           (per : list obs_budget) (by_reason : Z * bool) (must : Z) : list string :=
  (if list_eqb obs_budget_eqb per (map (model_per now n) bs) then [] else ["corr:IsActive/GetAllowedDisruptions"]) ++
  (if zb_eqb by_reason (allowed_by_reason sidc nextc now n r bs) then [] else ["corr:GetAllowedDisruptionsByReason"]) ++
  (if must =? must_allowed sidc nextc now n r bs then [] else ["corr:MustGetAllowedDisruptions"]) ++
  (if allowed_ok_b sidc lastc now n r bs must then [] else ["oracle:allowed-exceeds-active-budget"]).

(* ---- M ---- *)
Definition checkM (now : Z) (r : reason) (ps : list (pool sidc)) (ns : list node) (obs : list (Z * Z)) : list string :=
  let model := map (fun p => (p_id p, pool_budget sidc nextc now r ns p)) ps in
  (if list_eqb zz_eqb obs model then [] else ["corr:BuildDisruptionBudgetMapping"]) ++
  (if forallb (fun p => mapping_ok_b sidc lastc now r ns p (lookup obs (p_id p))) ps then [] else ["oracle:mapping-exceeds-budget"]).

Fixpoint insert_z (x : Z) (l : list Z) : list Z :=
  match l with
  | [] => [x]
  | y :: t => if x <=? y then x :: l else y :: insert_z x t
  end.
Definition sort_z (l : list Z) : list Z := fold_right insert_z [] l.

(* ---- B: one ComputeCommands call under a given mapping ---- *)
Definition ids (cs : list cand) : list Z := map c_node cs.

Definition propose_with (mp : Z -> Z) (ps : list (pool sidc)) (m : method) (cs : list cand) (ch : choice) : list cand :=
  match m, ch with
  | _, ChSkip => []
  | MEmptiness, _ => emptiness_select mp cs
  | MMulti, ChK k => multi_select mp cs k
  | MSingle, _ => one_if_budget mp cs
  | MDrift, _ => one_if_budget mp cs
  | MStaticDrift, ChStatic groups =>
      if nodup_ids (map fst groups) then
        flat_map (fun g => match find_pool ps (fst g) with
                           | Some p => static_drift_pool mp p (snd g) (cands_of_pool (fst g) cs)
                           | None => []
                           end) groups
      else []
  | _, _ => []
  end.

Definition sel_within_b (mp : Z -> Z) (cs : list cand) (sel : list Z) : bool :=
  let selc := filter (fun c => existsb (Z.eqb (c_node c)) sel) cs in
  forallb (fun c => count_pool (c_pool c) selc <=? mp (c_pool c)) selc &&
  (Nat.eqb (length selc) (length sel)).

Definition checkB (m : method) (mpl : list (Z * Z)) (ps : list (pool sidc)) (cs : list cand) (ch : choice) (obs : list Z) : list string :=
  let mp := lookup mpl in
  let model := ids (propose_with mp ps m cs ch) in
  let corr :=
    match m with
    | MSingle | MDrift =>
        (* the method's internal candidate order (map iteration, unstable sort) is not observable:
           the selected candidate must be one the model may select; none selected iff none selectable *)
        match obs with
        | [] => match model with [] => true | _ => false end
        | [i] => existsb (fun c => (c_node c =? i) && negb (mp (c_pool c) =? 0) && c_simok c) cs
        | _ => false
        end
    | MStaticDrift => list_eqb Z.eqb (sort_z obs) (sort_z model)   (* pool groups come in map order *)
    | _ => list_eqb Z.eqb obs model
    end in
  (if corr then [] else ["corr:ComputeCommands"]) ++
  (if sel_within_b mp cs obs then [] else ["oracle:selection-exceeds-mapping"]).

Definition validate_with (mp : Z -> Z) (m : method) (prop cur : list cand) : list cand :=
  let cur' := restrict prop cur in
  match m with
  | MEmptiness => validate_filter mp cur'
  | MMulti | MSingle =>
      if (length cur' =? length prop)%nat && validate_all mp cur' then cur' else []
  | MDrift | MStaticDrift => prop
  end.

Definition checkV (m : method) (mpl : list (Z * Z)) (prop cur : list cand) (obs : list Z) : list string :=
  let mp := lookup mpl in
  let model := validate_with mp m prop cur in
  let pool_of i := match find (fun c => c_node c =? i) cur with Some c => c_pool c | None => -1 end in
  let corr :=
    match m with
    | MEmptiness =>
        (* which candidates survive a shrunken budget depends on the (map) order the validator saw
           them in; the number per pool does not *)
        list_eqb Z.eqb (sort_z (map pool_of obs)) (sort_z (map c_pool model)) &&
        forallb (fun i => existsb (fun c => (c_node c =? i) && negb (c_nominated c)) (restrict prop cur)) obs
    | _ => list_eqb Z.eqb (sort_z obs) (sort_z (ids model))
    end in
  (if corr then [] else ["corr:Validate"]) ++
  (if sel_within_b mp cur obs then [] else ["oracle:validated-exceeds-mapping"]).

(* ---- R: histories ---- *)
Definition new_in_queue (s s' : sys sidc) : list Z :=
  filter (fun i => negb (in_queue s i)) (s_queue s').

(* the property evaluated on what the implementation put into the queue, against the state in
   which the command was (last) validated *)
Definition round_oracle (sv : sys sidc) (r : reason) (newq : list Z) : bool :=
  let selected := filter (fun x => existsb (Z.eqb (n_id x)) newq) (s_nodes sv) in
  forallb (fun x =>
    match find_pool (s_pools sv) (n_pool x) with
    | Some pl =>
        round_ok_b sidc lastc (s_now sv) r (num_nodes (n_pool x) (s_nodes sv)) (disrupting (n_pool x) (s_nodes sv))
                   (zlen (filter (fun y => n_pool y =? n_pool x) selected)) (p_budgets pl)
    | None => false
    end) selected &&
  Nat.eqb (length selected) (length newq).

(* Which of several equally ranked candidates survives depends on map iteration order in the real
   code, so the trace is validated step by step: the implementation's selection must be one the
   model allows (same number per pool, only eligible candidates of the validation state), and the
   model continues from the implementation's choice. *)
Definition post_ok (s' : sys sidc) (post : reason * list (Z * Z)) : bool * bool :=
  let r := fst post in
  (forallb (fun pv => snd pv =? mapping_of sidc nextc s' r (fst pv)) (snd post),
   forallb (fun pv => match find_pool (s_pools s') (fst pv) with
                      | Some pl => mapping_ok_b sidc lastc (s_now s') r (s_nodes s') pl (snd pv)
                      | None => snd pv =? 0
                      end) (snd post)).

Fixpoint checkR (s : sys sidc) (ops : list (op sidc * list Z * list (Z * Z) * (reason * list (Z * Z)))) : bool * bool :=
  match ops with
  | [] => (true, true)
  | (o, newq, mpobs, post) :: t =>
      match o with
      | ODisrupt m cs ch vok b1 c1 b2 c2 startfail =>
          let '(sel0, sv) := disrupt_sel sidc nextc s m cs ch vok b1 c1 b2 c2 in
          let sel := filter (fun c => negb (existsb (Z.eqb (c_node c)) startfail)) sel0 in
          let pool_of i := match find_node sv i with Some x => n_pool x | None => -1 end in
          (* the mapping handed to the method: equal to the model's, and sound for the state it was built from *)
          let mcorr := forallb (fun pv => snd pv =? mapping_of sidc nextc s (method_reason m) (fst pv)) mpobs in
          let morc := forallb (fun pv => match find_pool (s_pools s) (fst pv) with
                                         | Some pl => mapping_ok_b sidc lastc (s_now s) (method_reason m) (s_nodes s) pl (snd pv)
                                         | None => snd pv =? 0
                                         end) mpobs in
          let corr := mcorr &&
            list_eqb Z.eqb (sort_z (map pool_of newq)) (sort_z (map pool_of (ids sel))) &&
            forallb (fun i => match find_node sv i with Some x => eligible sv x | None => false end) newq &&
            nodup_ids newq in
          let orc := morc && round_oracle sv (method_reason m) newq in
          let s' := start_command sv (map (fun i => mkCand i (pool_of i) false false false) newq) in
          let '(pc, po) := post_ok s' post in
          let '(c, r) := checkR s' t in (corr && pc && c, orc && po && r)
      | _ =>
          let s' := step sidc nextc s o in
          let ok := match newq with [] => true | _ => false end in
          let '(pc, po) := post_ok s' post in
          let '(c, r) := checkR s' t in (ok && pc && c, ok && po && r)
      end
  end.

Definition check_case (c : case) : list string :=
  match c with
  | CaseA now n r bs per byr must => checkA now n r bs per byr must
  | CaseM now r ps ns obs => checkM now r ps ns obs
  | CaseB m mp ps cs ch obs => checkB m mp ps cs ch obs
  | CaseV m mp prop cur obs => checkV m mp prop cur obs
  | CaseR s0 ops =>
      let '(c, r) := checkR s0 ops in
      (if c then [] else ["corr:round"]) ++ (if r then [] else ["oracle:round-exceeds-budget"])
  end.

Definition check_all (cs : list (Z * case)) : list (Z * string) :=
  flat_map (fun ic => map (fun t => (fst ic, t)) (check_case (snd ic))) cs.
