(* C05 — proofs. Part 1: budget arithmetic, activity windows, most-restrictive budget,
   BuildDisruptionBudgetMapping. Part 2 (method selection, rounds) is in Proofs2.v. *)
From Coq Require Import ZArith List Bool Lia.
From KV Require Import C05.Model C05.Spec.
Import ListNotations.
Open Scope Z_scope.

(* ---- arithmetic ---- *)

Lemma wrap32_id v : -2147483648 <= v < 2147483648 -> wrap32 v = v.
Proof.
  intros H. unfold wrap32. rewrite Z.mod_small; lia.
Qed.

Lemma wrap32_le v : -2147483648 <= v -> wrap32 v <= v.
Proof.
  intros H. unfold wrap32.
  assert (Hm : (v + 2147483648) mod 4294967296 <= v + 2147483648) by (apply Z.mod_le; lia).
  lia.
Qed.

(* ceil_pct v n is the ceiling of v*n/100 *)
Lemma ceil_pct_spec v n :
  v * n <= 100 * ceil_pct v n /\ 100 * (ceil_pct v n - 1) < v * n.
Proof.
  unfold ceil_pct.
  pose proof (Z.div_mod (- (v * n)) 100 ltac:(lia)) as Hd.
  pose proof (Z.mod_pos_bound (- (v * n)) 100 ltac:(lia)) as Hm.
  lia.
Qed.

Lemma ceil_pct_least v n k : v * n <= 100 * k -> ceil_pct v n <= k.
Proof. pose proof (ceil_pct_spec v n). lia. Qed.

Lemma zlen_nonneg {A} (l : list A) : 0 <= zlen l.
Proof. unfold zlen. lia. Qed.

Lemma zlen_cons {A} (a : A) l : zlen (a :: l) = 1 + zlen l.
Proof. unfold zlen. simpl length. lia. Qed.

Section Budgets.
Variable sid : Type.
Variable hit : sid -> Z -> Prop.
Variable next : sid -> Z -> option Z.

(* The robfig/cron contract for schedule.Next (assumed, sampled by the harness):
   a returned instant is a hit strictly after t, and no hit lies strictly between. *)
Definition next_least : Prop :=
  forall s t h, next s t = Some h -> forall h', hit s h' -> t < h' -> h <= h'.
Definition next_is_hit : Prop :=
  forall s t h, next s t = Some h -> hit s h /\ t < h.

Notation budget := (budget sid).
Notation is_active := (is_active sid next).
Notation allowed_disruptions := (allowed_disruptions sid next).
Notation must_allowed := (must_allowed sid next).
Notation active_spec := (active_spec sid hit).
Notation malformed := (malformed sid).
Notation within_budgets := (within_budgets sid hit).
Notation allowed_ok := (allowed_ok sid hit).
Notation round_ok := (round_ok sid hit).

(* ---- IsActive ---- *)

(* safety direction: inside a window the code says active (needs only "no hit is skipped") *)
Lemma is_active_complete (Hl : next_least) now (b : budget) :
  ~ malformed b -> active_spec now b -> is_active now b = Some true.
Proof.
  unfold malformed, active_spec, is_active, dur0. intros Hm Ha.
  destruct (b_sched b) as [| |s] eqn:Es.
  - destruct (b_dur b) as [d|] eqn:Ed; [|reflexivity].
    exfalso. apply Hm. right. split; [reflexivity|discriminate].
  - contradiction.
  - destruct Ha as (h & Hh & Hlo & Hhi).
    destruct (next s (now - match b_dur b with Some x => x | None => 0 end)) as [h'|] eqn:En; [|reflexivity].
    f_equal. apply Z.leb_le.
    specialize (Hl _ _ _ En h Hh). lia.
Qed.

(* exactness: when cron answers, the code's verdict is the window predicate *)
Lemma is_active_sound (Hl : next_least) (Hh : next_is_hit) now (b : budget) s h :
  b_sched b = SCron s -> next s (now - dur0 sid b) = Some h ->
  (is_active now b = Some true <-> active_spec now b).
Proof.
  intros Es En. split.
  - unfold is_active, active_spec. rewrite Es. unfold dur0 in En. rewrite En.
    intros H. injection H as H. apply Z.leb_le in H.
    destruct (Hh _ _ _ En) as (Hhit & Hlt). exists h. unfold dur0. split; [exact Hhit|lia].
  - intros Ha. apply is_active_complete; [exact Hl| |exact Ha].
    unfold malformed. rewrite Es. intros [H|[H _]]; discriminate.
Qed.

Lemma is_active_always (b : budget) now :
  b_sched b = SNil -> b_dur b = None -> is_active now b = Some true.
Proof. intros H1 H2. unfold is_active. rewrite H1, H2. reflexivity. Qed.

Lemma is_active_malformed (b : budget) now : malformed b -> is_active now b = None.
Proof.
  unfold malformed, is_active. intros [H|[H1 H2]].
  - rewrite H. reflexivity.
  - rewrite H1. destruct (b_dur b); [reflexivity|contradiction].
Qed.

(* ---- GetAllowedDisruptions ---- *)

Definition nodes_ok (b : budget) : Prop :=
  match b_nodes b with NInt v => -2147483648 <= v | _ => True end.

Lemma allowed_malformed (b : budget) now n : malformed b -> allowed_disruptions now n b = (0, true).
Proof. intros H. unfold allowed_disruptions. rewrite (is_active_malformed b now H). reflexivity. Qed.

(* an active budget never yields more than its value, unless it reports an error *)
Lemma allowed_active_le (Hl : next_least) now n (b : budget) :
  nodes_ok b -> ~ malformed b -> active_spec now b ->
  snd (allowed_disruptions now n b) = true \/ fst (allowed_disruptions now n b) <= value_spec sid n b.
Proof.
  intros Hn Hm Ha. unfold allowed_disruptions. rewrite (is_active_complete Hl now b Hm Ha).
  unfold value_spec, nodes_ok in *. destruct (b_nodes b) as [v|v|]; simpl.
  - right. apply wrap32_le. exact Hn.
  - right. lia.
  - left. reflexivity.
Qed.

(* ---- applicability ---- *)

Lemma reason_eqb_eq a b : reason_eqb a b = true <-> a = b.
Proof. destruct a, b; simpl; split; intros H; try reflexivity; discriminate. Qed.

Lemma applies_iff r (b : budget) : applies r b = true <-> applies_spec sid r b.
Proof.
  unfold applies, applies_spec. destruct (b_reasons b) as [[|a l]|].
  - tauto.
  - rewrite existsb_exists. split.
    + intros (x & Hin & Hx). apply reason_eqb_eq in Hx. subst. exact Hin.
    + intros Hin. exists r. split; [exact Hin|]. apply reason_eqb_eq. reflexivity.
  - tauto.
Qed.

(* ---- GetAllowedDisruptionsByReason ---- *)

Lemma by_reason_from_le app acc err now n r bs :
  fst (by_reason_from sid next app acc err now n r bs) <= acc.
Proof.
  revert acc err. induction bs as [|b t IH]; intros acc err; simpl; [lia|].
  destruct (Model.allowed_disruptions sid next now n b) as [v e].
  specialize (IH (if app r b then Z.min acc v else acc) (err || e)%bool).
  destruct (app r b); lia.
Qed.

Lemma by_reason_from_err app acc err now n r bs :
  snd (by_reason_from sid next app acc err now n r bs) = true <->
  err = true \/ exists b, In b bs /\ snd (allowed_disruptions now n b) = true.
Proof.
  revert acc err. induction bs as [|b t IH]; intros acc err; simpl.
  - split; [intros H; left; exact H|intros [H|(b & [] & _)]; exact H].
  - destruct (Model.allowed_disruptions sid next now n b) as [v e] eqn:Eb.
    rewrite IH. split.
    + intros [H|(b' & Hin & Hb')].
      * apply orb_true_iff in H. destruct H as [H|H]; [left; exact H|].
        right. exists b. split; [left; reflexivity|]. rewrite Eb. exact H.
      * right. exists b'. split; [right; exact Hin|exact Hb'].
    + intros [H|(b' & [Heq|Hin] & Hb')].
      * left. rewrite H. reflexivity.
      * subst b'. rewrite Eb in Hb'. simpl in Hb'. left. rewrite Hb'. apply orb_true_r.
      * right. exists b'. split; [exact Hin|exact Hb'].
Qed.

Lemma by_reason_from_each app acc err now n r bs b :
  In b bs -> app r b = true ->
  fst (by_reason_from sid next app acc err now n r bs) <= fst (allowed_disruptions now n b).
Proof.
  revert acc err. induction bs as [|b' t IH]; intros acc err Hin Happ; simpl; [contradiction|].
  destruct (Model.allowed_disruptions sid next now n b') as [v e] eqn:Eb.
  destruct Hin as [Heq|Hin].
  - subst b'. rewrite Happ. rewrite Eb. simpl.
    pose proof (by_reason_from_le app (Z.min acc v) (err || e)%bool now n r t). lia.
  - apply IH; assumption.
Qed.

(* the minimum is attained: the result is the start value or the value of an applicable budget *)
Lemma by_reason_from_attained app acc err now n r bs :
  fst (by_reason_from sid next app acc err now n r bs) = acc \/
  exists b, In b bs /\ app r b = true /\
            fst (by_reason_from sid next app acc err now n r bs) = fst (allowed_disruptions now n b).
Proof.
  revert acc err. induction bs as [|b t IH]; intros acc err; simpl; [left; reflexivity|].
  destruct (Model.allowed_disruptions sid next now n b) as [v e] eqn:Eb.
  destruct (IH (if app r b then Z.min acc v else acc) (err || e)%bool) as [H|(b' & Hin & Ha & H)].
  - destruct (app r b) eqn:Ea.
    + destruct (Z.min_spec acc v) as [[_ Hm]|[_ Hm]].
      * left. lia.
      * right. exists b. split; [left; reflexivity|]. split; [exact Ea|]. rewrite Eb. simpl. lia.
    + left. exact H.
  - right. exists b'. split; [right; exact Hin|]. split; [exact Ha|exact H].
Qed.

(* ---- MustGetAllowedDisruptions: most restrictive active budget, fail closed ---- *)

Lemma must_allowed_cases now n r bs :
  (must_allowed now n r bs = 0 /\ exists b, In b bs /\ snd (allowed_disruptions now n b) = true) \/
  ((forall b, In b bs -> snd (allowed_disruptions now n b) = false) /\
   must_allowed now n r bs = fst (allowed_by_reason sid next now n r bs)).
Proof.
  unfold Model.must_allowed.
  destruct (allowed_by_reason sid next now n r bs) as [v e] eqn:E.
  assert (He : snd (allowed_by_reason sid next now n r bs) = e) by (rewrite E; reflexivity).
  unfold allowed_by_reason in He.
  destruct e.
  - left. split; [reflexivity|].
    apply by_reason_from_err in He. destruct He as [He|He]; [discriminate|exact He].
  - right. split; [|reflexivity].
    intros b Hin. destruct (snd (allowed_disruptions now n b)) eqn:Eb; [|reflexivity].
    assert (Ht : snd (by_reason_from sid next applies max_int32 false now n r bs) = true).
    { apply by_reason_from_err. right. exists b. split; assumption. }
    rewrite Ht in He. discriminate.
Qed.

(* The allowed figure never exceeds an applicable active budget; any budget that cannot be read
   makes it zero. *)
Theorem must_allowed_sound (Hl : next_least) now n r bs :
  (forall b, In b bs -> nodes_ok b) ->
  allowed_ok now n r bs (must_allowed now n r bs).
Proof.
  intros Hn. unfold Spec.allowed_ok.
  destruct (must_allowed_cases now n r bs) as [(H0 & _)|(Hne & Hv)].
  - left. lia.
  - right. split.
    + intros b Hin Hm. specialize (Hne b Hin). rewrite (allowed_malformed b now n Hm) in Hne. discriminate.
    + intros b Hin Happ Hact.
      assert (Hnm : ~ malformed b).
      { intros Hm. specialize (Hne b Hin). rewrite (allowed_malformed b now n Hm) in Hne. discriminate. }
      destruct (allowed_active_le Hl now n b (Hn b Hin) Hnm Hact) as [He|Hle].
      * rewrite (Hne b Hin) in He. discriminate.
      * rewrite Hv. unfold allowed_by_reason.
        apply applies_iff in Happ.
        pose proof (by_reason_from_each applies max_int32 false now n r bs b Hin Happ). lia.
Qed.

(* fail closed *)
Theorem must_allowed_fail_closed now n r bs b :
  In b bs -> (malformed b \/ (is_active now b = Some true /\ b_nodes b = NBad)) ->
  must_allowed now n r bs = 0.
Proof.
  intros Hin Hb.
  assert (He : snd (allowed_disruptions now n b) = true).
  { destruct Hb as [Hm|(Ha & Hnb)].
    - rewrite (allowed_malformed b now n Hm). reflexivity.
    - unfold Model.allowed_disruptions. rewrite Ha, Hnb. reflexivity. }
  destruct (must_allowed_cases now n r bs) as [(H0 & _)|(Hne & _)]; [exact H0|].
  rewrite (Hne b Hin) in He. discriminate.
Qed.

(* not over-restrictive: without errors the figure is "unbounded" or the value of some
   applicable budget that the code considers active *)
Theorem must_allowed_attained now n r bs :
  (forall b, In b bs -> snd (allowed_disruptions now n b) = false) ->
  must_allowed now n r bs = max_int32 \/
  exists b, In b bs /\ applies r b = true /\ must_allowed now n r bs = fst (allowed_disruptions now n b).
Proof.
  intros Hne.
  destruct (must_allowed_cases now n r bs) as [(_ & b & Hin & He)|(_ & Hv)].
  - rewrite (Hne b Hin) in He. discriminate.
  - rewrite Hv. unfold allowed_by_reason. apply by_reason_from_attained.
Qed.

(* ---- the defect fixed by 33199adef: `Reasons == nil` instead of `len(Reasons) == 0` ---- *)

Definition zero_for_no_reason : budget := mkBudget (Some []) (NInt 0) SNil None.

Lemma must_allowed_prefix_witness r :
  must_allowed_prefix sid next 0 10 r [zero_for_no_reason] = max_int32.
Proof. destruct r; reflexivity. Qed.

Theorem must_allowed_prefix_refuted :
  exists now n r bs, (forall b, In b bs -> nodes_ok b) /\
    ~ allowed_ok now n r bs (must_allowed_prefix sid next now n r bs).
Proof.
  exists 0, 10, Empty, [zero_for_no_reason]. split.
  - intros b [Hb|[]]. subst b. unfold nodes_ok. simpl. lia.
  - rewrite must_allowed_prefix_witness. unfold Spec.allowed_ok, max_int32. intros [H|(_ & H)]; [lia|].
    specialize (H zero_for_no_reason (or_introl eq_refl) I I).
    unfold value_spec in H. simpl in H. lia.
Qed.

(* with the pre-fix test the theorem holds only for budgets that do not carry an empty list *)
Lemma applies_nil_only_agrees r (b : budget) :
  b_reasons b <> Some [] -> applies_nil_only r b = applies r b.
Proof.
  unfold applies_nil_only, applies. destruct (b_reasons b) as [[|a l]|]; intros H; try reflexivity.
  exfalso. apply H. reflexivity.
Qed.

Lemma by_reason_from_ext app1 app2 acc err now n r bs :
  (forall b, In b bs -> app1 r b = app2 r b) ->
  by_reason_from sid next app1 acc err now n r bs = by_reason_from sid next app2 acc err now n r bs.
Proof.
  revert acc err. induction bs as [|b t IH]; intros acc err H; simpl; [reflexivity|].
  destruct (Model.allowed_disruptions sid next now n b) as [v e].
  rewrite (H b (or_introl eq_refl)). apply IH. intros b' Hin. apply H. right. exact Hin.
Qed.

Theorem must_allowed_prefix_partial (Hl : next_least) now n r bs :
  (forall b, In b bs -> nodes_ok b) ->
  (forall b, In b bs -> b_reasons b <> Some []) ->
  allowed_ok now n r bs (must_allowed_prefix sid next now n r bs).
Proof.
  intros Hn Hr.
  assert (E : must_allowed_prefix sid next now n r bs = must_allowed now n r bs).
  { unfold must_allowed_prefix, Model.must_allowed, allowed_by_reason.
    rewrite (by_reason_from_ext applies_nil_only applies); [reflexivity|].
    intros b Hin. apply applies_nil_only_agrees. apply Hr. exact Hin. }
  rewrite E. apply must_allowed_sound; assumption.
Qed.

(* ---- BuildDisruptionBudgetMapping ---- *)

Lemma within_budgets_mono now n r bs t t' :
  t' <= t -> within_budgets now n r bs t -> within_budgets now n r bs t'.
Proof.
  intros Hle (Hm & Hb). split; [exact Hm|].
  intros b Hin Ha Hact. specialize (Hb b Hin Ha Hact). lia.
Qed.

Lemma disrupting_nonneg p ns : 0 <= disrupting p ns.
Proof. apply zlen_nonneg. Qed.

Lemma disrupting_le_num p ns : disrupting p ns <= num_nodes p ns.
Proof.
  unfold disrupting, num_nodes, zlen. apply inj_le.
  induction ns as [|x t IH]; simpl; [lia|].
  destruct (counted x && (n_pool x =? p))%bool; simpl.
  - destruct (consuming x); simpl; lia.
  - exact IH.
Qed.

(* any selection of at most the mapping value keeps the pool within its budgets *)
Theorem pool_budget_sound (Hl : next_least) now r ns (p : pool sid) sel :
  (forall b, In b (p_budgets p) -> nodes_ok b) ->
  0 <= sel <= pool_budget sid next now r ns p ->
  round_ok now (num_nodes (p_id p) ns) r (p_budgets p) (disrupting (p_id p) ns) sel.
Proof.
  intros Hn (H0 & Hle). unfold Spec.round_ok.
  destruct (Z.eq_dec sel 0) as [Hz|Hnz]; [left; exact Hz|right].
  split; [lia|].
  unfold pool_budget in Hle.
  set (a := must_allowed now (num_nodes (p_id p) ns) r (p_budgets p)) in *.
  set (d := disrupting (p_id p) ns) in *.
  assert (Hpos : sel + d <= a) by lia.
  destruct (must_allowed_sound Hl now (num_nodes (p_id p) ns) r (p_budgets p) Hn) as [Hneg|Hw].
  - fold a in Hneg. pose proof (disrupting_nonneg (p_id p) ns). fold d in H. lia.
  - fold a in Hw. apply (within_budgets_mono _ _ _ _ a); assumption.
Qed.

Lemma pool_budget_nonneg now r ns (p : pool sid) : 0 <= pool_budget sid next now r ns p.
Proof. unfold pool_budget. lia. Qed.

Lemma build_mapping_nonneg now r ps ns q : 0 <= build_mapping sid next now r ps ns q.
Proof.
  unfold build_mapping. destruct (find_pool ps q); [apply pool_budget_nonneg|lia].
Qed.

Lemma find_pool_some (ps : list (pool sid)) q p : find_pool ps q = Some p -> In p ps /\ p_id p = q.
Proof.
  unfold find_pool. intros H. apply find_some in H. destruct H as (Hin & He).
  apply Z.eqb_eq in He. split; assumption.
Qed.

End Budgets.

(* ---- which nodes consume budget ---- *)

(* The code counts a node as consuming budget only if it also counts towards the pool size
   (managed, initialized, instance not yet terminated). Under the strictest reading of "the pool's
   nodes that are already not ready or being deleted" a deleting node that never initialized would
   count as well; it does not (upstream's documented choice: such nodes are neither in the total
   nor in the disrupting count). *)
Lemma disrupting_counts_all_deleting_refuted_l :
  exists ns p x, In x ns /\ n_pool x = p /\ n_managed x = true /\ n_deleting x = true /\ disrupting p ns = 0.
Proof.
  exists [mkNode 1 1 true false false true false true], 1, (mkNode 1 1 true false false true false true).
  vm_compute. repeat split; try reflexivity. left. reflexivity.
Qed.

Lemma disrupting_counts_counted_l p ns :
  disrupting p ns =
  zlen (filter (fun x => (n_managed x && n_init x && negb (n_term x)) && (n_pool x =? p) &&
                         (negb (n_ready x) || n_marked x || n_deleting x)) ns).
Proof. reflexivity. Qed.

(* ---- the oracle is the spec: boolean reflection, given what the matcher reports ---- *)
Section Reflect.
Variable sid : Type.
Variable hit : sid -> Z -> Prop.
Variable last : sid -> option Z.
Variable now : Z.

(* [last s] is the greatest hit at or before [now] (None if there is none in reach of any window) *)
Definition last_contract : Prop :=
  (forall s h, last s = Some h -> hit s h) /\
  (forall s h d, hit s h -> h <= now < h + d ->
     exists h', last s = Some h' /\ h <= h' /\ h' <= now).

Lemma active_b_iff (Hc : last_contract) (b : budget sid) :
  active_b sid last now b = true <-> active_spec sid hit now b.
Proof.
  destruct Hc as (Hc1 & Hc2). unfold active_b, active_spec. destruct (b_sched b) as [| |s].
  - tauto.
  - split; [discriminate|contradiction].
  - split.
    + destruct (last s) as [h|] eqn:El; [|discriminate].
      intros H. apply andb_true_iff in H. destruct H as (H1 & H2).
      apply Z.leb_le in H1. apply Z.ltb_lt in H2. exists h. split; [apply Hc1; exact El|lia].
    + intros (h & Hh & Hw). destruct (Hc2 s h (dur0 sid b) Hh Hw) as (h' & El & Hge & Hle).
      rewrite El. apply andb_true_iff. split; [apply Z.leb_le; lia|apply Z.ltb_lt; lia].
Qed.

Lemma malformed_b_iff (b : budget sid) : malformed_b sid b = true <-> malformed sid b.
Proof.
  unfold malformed_b, malformed. destruct (b_sched b) as [| |s]; destruct (b_dur b) as [d|]; split; intros H;
    try reflexivity; try discriminate; try (left; reflexivity);
    try (right; split; [reflexivity|discriminate]).
  - destruct H as [H|(_ & H)]; [discriminate|]. exfalso. apply H. reflexivity.
  - destruct H as [H|(H & _)]; discriminate.
  - destruct H as [H|(H & _)]; discriminate.
Qed.

Lemma applies_spec_b_iff r (b : budget sid) : applies_spec_b sid r b = true <-> applies_spec sid r b.
Proof.
  unfold applies_spec_b, applies_spec. destruct (b_reasons b) as [[|a l]|].
  - tauto.
  - rewrite existsb_exists. split.
    + intros (x & Hin & Hx). apply reason_eqb_eq in Hx. subst. exact Hin.
    + intros Hin. exists r. split; [exact Hin|]. apply reason_eqb_eq. reflexivity.
  - tauto.
Qed.

Lemma within_budgets_b_iff (Hc : last_contract) n r bs t :
  within_budgets_b sid last now n r bs t = true <-> within_budgets sid hit now n r bs t.
Proof.
  unfold within_budgets_b, within_budgets. rewrite andb_true_iff, !forallb_forall. split.
  - intros (H1 & H2). split.
    + intros b Hin Hm. specialize (H1 b Hin). apply malformed_b_iff in Hm. rewrite Hm in H1. discriminate.
    + intros b Hin Ha Hact. specialize (H2 b Hin).
      apply applies_spec_b_iff in Ha. apply (active_b_iff Hc) in Hact. rewrite Ha, Hact in H2.
      simpl in H2. apply Z.leb_le. exact H2.
  - intros (H1 & H2). split.
    + intros b Hin. destruct (malformed_b sid b) eqn:E; [|reflexivity].
      exfalso. apply (H1 b Hin). apply malformed_b_iff. exact E.
    + intros b Hin. destruct (applies_spec_b sid r b && active_b sid last now b)%bool eqn:E; [|reflexivity].
      apply andb_true_iff in E. destruct E as (Ea & Eact). simpl. apply Z.leb_le.
      apply H2; [exact Hin|apply applies_spec_b_iff; exact Ea|apply (active_b_iff Hc); exact Eact].
Qed.

Theorem round_ok_b_iff (Hc : last_contract) r n dis sel bs :
  0 <= sel ->
  round_ok_b sid last now r n dis sel bs = true <-> round_ok sid hit now n r bs dis sel.
Proof.
  intros H0. unfold round_ok_b, round_ok. rewrite orb_true_iff, andb_true_iff, Z.eqb_eq, Z.ltb_lt.
  rewrite (within_budgets_b_iff Hc). tauto.
Qed.

Theorem allowed_ok_b_iff (Hc : last_contract) n r bs a :
  allowed_ok_b sid last now n r bs a = true <-> allowed_ok sid hit now n r bs a.
Proof.
  unfold allowed_ok_b, allowed_ok. rewrite orb_true_iff, Z.leb_le, (within_budgets_b_iff Hc). tauto.
Qed.

End Reflect.
