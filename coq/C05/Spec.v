(* C05 — the property, written against the property text (not against the code), and its
   boolean reflection used as the oracle on implementation observations.

   "For each NodePool and disruption reason, the nodes Karpenter newly selects for voluntary
    disruption, plus the pool's nodes that are already not ready or being deleted, never exceed the
    most restrictive active budget. A budget is active during [hit, hit+duration) after each hit of
    its cron schedule (always, if it has none), percentages are taken of the pool's initialized
    nodes rounding up, a budget applies to a reason if it lists it or lists none, and a malformed
    budget allows zero."                                                                          *)
From Coq Require Import ZArith List Bool Lia.
From KV Require Import C05.Model.
Import ListNotations.
Open Scope Z_scope.

Section Spec.
Variable sid : Type.
Variable hit : sid -> Z -> Prop.          (* the instants at which schedule s fires *)

Notation budget := (budget sid).

Definition dur0 (b : budget) : Z := match b_dur b with Some d => d | None => 0 end.

(* active during [hit, hit + duration) after each hit; always, if it has no schedule *)
Definition active_spec (now : Z) (b : budget) : Prop :=
  match b_sched b with
  | SNil => True
  | SBad => False
  | SCron s => exists h, hit s h /\ h <= now < h + dur0 b
  end.

(* malformed: it cannot be told when the budget is active (unreadable schedule, or a duration
   without a schedule). An unreadable node count is covered by [value_spec] = 0: it allows zero
   whenever the budget is active and applies. *)
Definition malformed (b : budget) : Prop :=
  b_sched b = SBad \/ (b_sched b = SNil /\ b_dur b <> None).

(* applies to a reason if it lists it or lists none *)
Definition applies_spec (r : reason) (b : budget) : Prop :=
  match b_reasons b with
  | None => True
  | Some [] => True
  | Some l => In r l
  end.

(* percentages of the pool's initialized nodes, rounding up *)
Definition value_spec (n : Z) (b : budget) : Z :=
  match b_nodes b with
  | NInt v => v
  | NPct v => ceil_pct v n
  | NBad => 0
  end.

(* [total] nodes of a pool of [n] counted nodes may be in disruption for reason [r] at [now] *)
Definition within_budgets (now n : Z) (r : reason) (bs : list budget) (total : Z) : Prop :=
  (forall b, In b bs -> ~ malformed b) /\
  (forall b, In b bs -> applies_spec r b -> active_spec now b -> total <= value_spec n b).

(* the property for one pool in one round: nothing selected, or selected + already consuming
   stays within every applicable active budget *)
Definition round_ok (now n : Z) (r : reason) (bs : list budget) (dis sel : Z) : Prop :=
  sel = 0 \/ (0 < sel /\ within_budgets now n r bs (sel + dis)).

(* an "allowed disruptions" figure is sound if using all of it is within the budgets *)
Definition allowed_ok (now n : Z) (r : reason) (bs : list budget) (a : Z) : Prop :=
  a <= 0 \/ within_budgets now n r bs a.

(* ---- boolean reflection, given the greatest hit at or before [now] ---- *)
Variable last : sid -> option Z.

Definition active_b (now : Z) (b : budget) : bool :=
  match b_sched b with
  | SNil => true
  | SBad => false
  | SCron s => match last s with
               | Some h => (h <=? now) && (now <? h + dur0 b)
               | None => false
               end
  end.

Definition malformed_b (b : budget) : bool :=
  match b_sched b, b_dur b with
  | SBad, _ => true
  | SNil, Some _ => true
  | _, _ => false
  end.

Definition applies_spec_b (r : reason) (b : budget) : bool :=
  match b_reasons b with
  | None => true
  | Some [] => true
  | Some l => existsb (reason_eqb r) l
  end.

Definition within_budgets_b (now n : Z) (r : reason) (bs : list budget) (total : Z) : bool :=
  forallb (fun b => negb (malformed_b b)) bs &&
  forallb (fun b => negb (applies_spec_b r b && active_b now b) || (total <=? value_spec n b)) bs.

Definition round_ok_b (now : Z) (r : reason) (n dis sel : Z) (bs : list budget) : bool :=
  (sel =? 0) || ((0 <? sel) && within_budgets_b now n r bs (sel + dis)).

Definition allowed_ok_b (now n : Z) (r : reason) (bs : list budget) (a : Z) : bool :=
  (a <=? 0) || within_budgets_b now n r bs a.

(* a mapping entry v for a pool is sound if v >= 0 and selecting v nodes would be within budget *)
Definition mapping_ok_b (now : Z) (r : reason) (ns : list node) (p : pool sid) (v : Z) : bool :=
  (0 <=? v) &&
  round_ok_b now r (num_nodes (p_id p) ns) (disrupting (p_id p) ns) v (p_budgets p).

End Spec.
