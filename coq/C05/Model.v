(* C05 — model of the disruption-budget logic.
   Part A (pure): pkg/apis/v1/nodepool.go  Budget.IsActive, Budget.GetAllowedDisruptions,
     NodePool.GetAllowedDisruptionsByReason, NodePool.MustGetAllowedDisruptions and
     pkg/controllers/disruption/helpers.go  BuildDisruptionBudgetMapping.
   Part B (method granularity): the candidate selection under a budget mapping of
     Emptiness / MultiNodeConsolidation / SingleNodeConsolidation / Drift / StaticDrift
     .ComputeCommands, the validators' re-check (validation.go) and the queue's marking
     (queue.go StartCommand / CompleteCommand), as one `disrupt(method)` step of controller.go.
   Executable definitions only; proofs are in C05/Proofs.v.

   Conventions: Go int = Z; time and durations = Z in one common unit (the harness uses
   nanoseconds); pools and nodes are identified by Z. The cron library (robfig/cron) is NOT
   modelled: a parsed schedule is an abstract identifier [sid] and [next s t] stands for
   schedule.Next(t) ([None] = the zero time.Time cron returns when it finds no hit within five
   years). Scheduling simulation results (which candidates can actually be consolidated) are
   inputs of the step (choices), so every outcome the code may produce is covered. *)
From Coq Require Export ZArith List Bool Lia.
Export ListNotations.
Open Scope Z_scope.

Definition max_int32 : Z := 2147483647.

Inductive reason := Underutilized | Empty | Drifted.

Definition reason_eqb (a b : reason) : bool :=
  match a, b with
  | Underutilized, Underutilized | Empty, Empty | Drifted, Drifted => true
  | _, _ => false
  end.

(* Budget.Nodes as seen by GetIntStrFromValue + getIntOrPercentValueSafely *)
Inductive nodes_val :=
| NInt (v : Z)      (* strconv.Atoi(s) = v : intstr.FromInt(v), stored as int32 *)
| NPct (v : Z)      (* s = t ++ "%" and strconv.Atoi(t) = v *)
| NBad.             (* anything else: error, fail closed *)

Section Budgets.
Variable sid : Type.                       (* a schedule string that cron.ParseStandard accepts *)
Variable next : sid -> Z -> option Z.      (* schedule.Next *)

Inductive sched :=
| SNil                (* Schedule == nil *)
| SBad                (* cron.ParseStandard("TZ=UTC " + *Schedule) fails *)
| SCron (s : sid).

Record budget := mkBudget {
  b_reasons : option (list reason);   (* None = nil slice; Some [] = empty non-nil slice *)
  b_nodes : nodes_val;
  b_sched : sched;
  b_dur : option Z                    (* Duration; None = nil *)
}.

(* int32(v) of intstr.FromInt *)
Definition wrap32 (v : Z) : Z := (v + 2147483648) mod 4294967296 - 2147483648.

(* int(math.Ceil(float64(v) * float64(n) / 100)): exact for |v*n| < 2^45 *)
Definition ceil_pct (v n : Z) : Z := - ((- (v * n)) / 100).

(* Budget.IsActive: None = error *)
Definition is_active (now : Z) (b : budget) : option bool :=
  match b_sched b, b_dur b with
  | SNil, None => Some true
  | SNil, Some _ => None                       (* ParseStandard("TZ=UTC ") fails *)
  | SBad, _ => None
  | SCron s, d =>
      let d' := match d with Some x => x | None => 0 end in
      match next s (now - d') with
      | None => Some true                      (* zero time is never After(now) *)
      | Some h => Some (h <=? now)             (* !nextHit.After(now) *)
      end
  end.

(* Budget.GetAllowedDisruptions: (value, error?) *)
Definition allowed_disruptions (now n : Z) (b : budget) : Z * bool :=
  match is_active now b with
  | None => (0, true)
  | Some false => (max_int32, false)
  | Some true =>
      match b_nodes b with
      | NInt v => (wrap32 v, false)
      | NPct v => (ceil_pct v n, false)
      | NBad => (0, true)
      end
  end.

(* len(budget.Reasons) == 0 || lo.Contains(budget.Reasons, reason) *)
Definition applies (r : reason) (b : budget) : bool :=
  match b_reasons b with
  | None => true
  | Some [] => true
  | Some l => existsb (reason_eqb r) l
  end.

(* The test before the fix 33199adef: budget.Reasons == nil || lo.Contains(...). An empty but
   non-nil slice (what `reasons: []` decodes to) then applied to no reason. Kept so that the
   defect stays stated and refuted. *)
Definition applies_nil_only (r : reason) (b : budget) : bool :=
  match b_reasons b with
  | None => true
  | Some l => existsb (reason_eqb r) l
  end.

(* NodePool.GetAllowedDisruptionsByReason: (allowedNodes, multiErr != nil) *)
Fixpoint by_reason_from (app : reason -> budget -> bool) (acc : Z) (err : bool) (now n : Z) (r : reason) (bs : list budget) : Z * bool :=
  match bs with
  | [] => (acc, err)
  | b :: t =>
      let '(v, e) := allowed_disruptions now n b in
      by_reason_from app (if app r b then Z.min acc v else acc) (err || e) now n r t
  end.

Definition allowed_by_reason (now n : Z) (r : reason) (bs : list budget) : Z * bool :=
  by_reason_from applies max_int32 false now n r bs.

(* NodePool.MustGetAllowedDisruptions *)
Definition must_allowed (now n : Z) (r : reason) (bs : list budget) : Z :=
  let '(v, e) := allowed_by_reason now n r bs in if e then 0 else v.

(* the same with the pre-fix applicability test *)
Definition must_allowed_prefix (now n : Z) (r : reason) (bs : list budget) : Z :=
  let '(v, e) := by_reason_from applies_nil_only max_int32 false now n r bs in if e then 0 else v.

(* ---- BuildDisruptionBudgetMapping ---- *)

Record node := mkNode {
  n_id : Z;
  n_pool : Z;                (* karpenter.sh/nodepool label *)
  n_managed : bool;          (* StateNode.Managed(): has a NodeClaim *)
  n_init : bool;             (* karpenter.sh/initialized label on the Node *)
  n_term : bool;             (* NodeClaim condition InstanceTerminating = True *)
  n_ready : bool;            (* Node condition Ready = True *)
  n_marked : bool;           (* cluster state: markedForDeletion *)
  n_deleting : bool          (* NodeClaim has a deletion timestamp *)
}.

(* nodes that count towards the pool size *)
Definition counted (x : node) : bool := n_managed x && n_init x && negb (n_term x).
(* cond.Status != True || node.MarkedForDeletion() (InstanceTerminating is excluded above) *)
Definition consuming (x : node) : bool := negb (n_ready x) || n_marked x || n_deleting x.

Definition zlen {A} (l : list A) : Z := Z.of_nat (length l).

Definition num_nodes (p : Z) (ns : list node) : Z :=
  zlen (filter (fun x => counted x && (n_pool x =? p)) ns).
Definition disrupting (p : Z) (ns : list node) : Z :=
  zlen (filter (fun x => counted x && (n_pool x =? p) && consuming x) ns).

Record pool := mkPool {
  p_id : Z;
  p_budgets : list budget;
  p_static : bool;           (* Spec.Replicas != nil *)
  p_replicas : Z;
  p_limit : option Z         (* Spec.Limits["nodes"] *)
}.

(* value written for one listed pool *)
Definition pool_budget (now : Z) (r : reason) (ns : list node) (p : pool) : Z :=
  Z.max (must_allowed now (num_nodes (p_id p) ns) r (p_budgets p) - disrupting (p_id p) ns) 0.

Definition find_pool (ps : list pool) (p : Z) : option pool :=
  find (fun x => p_id x =? p) ps.

(* the map as a total function: a pool that is not listed reads 0 (Go map default) *)
Definition build_mapping (now : Z) (r : reason) (ps : list pool) (ns : list node) : Z -> Z :=
  fun p => match find_pool ps p with
           | Some x => pool_budget now r ns x
           | None => 0
           end.

(* ---- candidate selection under a mapping ---- *)

Record cand := mkCand {
  c_node : Z;
  c_pool : Z;
  c_empty : bool;            (* Candidate.IsEmpty() *)
  c_nominated : bool;        (* cluster.IsNodeNominated at validation time *)
  c_simok : bool             (* choice: the scheduling simulation / scoring for this candidate alone
                                yields a command (single-node consolidation, drift) *)
}.

Definition decr (m : Z -> Z) (p : Z) : Z -> Z := fun q => if q =? p then m q - 1 else m q.

(* the common loop: walk the sorted candidates, take those that [want] while the pool has
   budget, decrement. Returns (selected, remaining mapping, constrainedByBudgets). *)
Fixpoint take (want : cand -> bool) (m : Z -> Z) (cs : list cand) : list cand * (Z -> Z) * bool :=
  match cs with
  | [] => ([], m, false)
  | c :: t =>
      if negb (want c) then take want m t
      else if m (c_pool c) =? 0 then
        let '(s, m', _) := take want m t in (s, m', true)
      else
        let '(s, m', k) := take want (decr m (c_pool c)) t in (c :: s, m', k)
  end.

Definition count_pool (p : Z) (cs : list cand) : Z :=
  zlen (filter (fun c => c_pool c =? p) cs).

(* Emptiness.ComputeCommands before validation *)
Definition emptiness_select (m : Z -> Z) (cs : list cand) : list cand :=
  fst (fst (take c_empty m cs)).

(* MultiNodeConsolidation.ComputeCommands: the pre-filter; the command is candidates[0:k]
   of the pre-filtered list for a k chosen by the binary search over scheduling simulations
   (k = 0: no command). *)
Definition multi_prefilter (m : Z -> Z) (cs : list cand) : list cand :=
  fst (fst (take (fun _ => true) m cs)).
Definition multi_select (m : Z -> Z) (cs : list cand) (k : nat) : list cand :=
  firstn k (multi_prefilter m cs).

(* SingleNodeConsolidation / Drift: walk the candidates in the method's order; a candidate whose
   pool has no budget is skipped without being simulated; the first one whose simulation yields a
   command is the command's only candidate. *)
Fixpoint one_if_budget (m : Z -> Z) (cs : list cand) : list cand :=
  match cs with
  | [] => []
  | c :: t => if m (c_pool c) =? 0 then one_if_budget m t
              else if c_simok c then [c] else one_if_budget m t
  end.

(* NodePoolState.ReserveNodeCount *)
Definition reserve (limit used reserved wanted : Z) : Z :=
  let remaining := limit - used - reserved in
  if remaining <? 0 then 0 else if wanted >? remaining then remaining else wanted.

Record pool_counts := mkCounts { k_active : Z; k_deleting : Z; k_pending : Z; k_reserved : Z }.

(* StaticDrift.ComputeCommands for one pool group (candidates of that pool, in order) *)
Definition static_drift_pool (m : Z -> Z) (p : pool) (k : pool_counts) (cs : list cand) : list cand :=
  if m (p_id p) =? 0 then []
  else if k_active k + k_pending k >? p_replicas p then []
  else
    let limit := match p_limit p with Some l => l | None => 9223372036854775807 end in
    let max_drifts := Z.min (m (p_id p)) (zlen cs) in
    let granted := reserve limit (k_active k + k_deleting k + k_pending k) (k_reserved k) max_drifts in
    firstn (Z.to_nat granted) cs.

(* ---- validators (validation.go) ---- *)

(* EmptinessValidator.validateCandidates: [cur] = current candidates that map to the proposed
   ones; filtered by nomination and the freshly built mapping. *)
Fixpoint validate_filter (m : Z -> Z) (cur : list cand) : list cand :=
  match cur with
  | [] => []
  | c :: t =>
      if c_nominated c then validate_filter m t
      else if m (c_pool c) =? 0 then validate_filter m t
      else c :: validate_filter (decr m (c_pool c)) t
  end.

(* ConsolidationValidator.validateCandidates: all or nothing *)
Fixpoint validate_all (m : Z -> Z) (cur : list cand) : bool :=
  match cur with
  | [] => true
  | c :: t =>
      if c_nominated c then false
      else if m (c_pool c) =? 0 then false
      else validate_all (decr m (c_pool c)) t
  end.

(* ---- the controller round: one disrupt(method) call ---- *)

Inductive method := MEmptiness | MStaticDrift | MDrift | MMulti | MSingle.

Definition method_reason (m : method) : reason :=
  match m with
  | MEmptiness => Empty
  | MStaticDrift | MDrift => Drifted
  | MMulti | MSingle => Underutilized
  end.

Record sys := mkSys {
  s_now : Z;
  s_pools : list pool;
  s_nodes : list node;
  s_queue : list Z            (* node ids in Queue.ProviderIDToCommand *)
}.

Definition in_queue (s : sys) (i : Z) : bool := existsb (Z.eqb i) (s_queue s).

(* NewCandidate / ValidateNodeDisruptable, the part the budget accounting relies on *)
Definition eligible (s : sys) (x : node) : bool :=
  negb (in_queue s (n_id x)) && n_managed x && n_init x &&
  negb (n_marked x || n_deleting x || n_term x).

Definition find_node (s : sys) (i : Z) : option node := find (fun x => n_id x =? i) (s_nodes s).

(* every candidate handed to a method is an eligible node of the state, listed once,
   with its pool label *)
Definition cand_ok (s : sys) (c : cand) : bool :=
  match find_node s (c_node c) with
  | Some x => eligible s x && (n_pool x =? c_pool c)
  | None => false
  end.

Fixpoint nodup_ids (l : list Z) : bool :=
  match l with
  | [] => true
  | a :: t => negb (existsb (Z.eqb a) t) && nodup_ids t
  end.

Definition cands_ok (s : sys) (cs : list cand) : bool :=
  forallb (cand_ok s) cs && nodup_ids (map c_node cs).

Definition mapping_of (s : sys) (r : reason) : Z -> Z :=
  build_mapping (s_now s) r (s_pools s) (s_nodes s).

(* environment events (anything that is not the disruption controller) *)
Inductive env :=
| EClock (t : Z)                          (* the clock moves (any direction: the theorem does not care) *)
| EReady (i : Z) (b : bool)               (* kubelet readiness flips *)
| EDelete (i : Z)                         (* someone deletes the NodeClaim *)
| ETerminated (i : Z)                     (* instance terminated condition *)
| EInit (i : Z)                           (* node initialises *)
| EAdd (x : node)                         (* a node appears (unmarked) *)
| ERemove (i : Z)                         (* a node object disappears *)
| EBudgets (p : Z) (bs : list budget).    (* the NodePool's budgets are edited *)

Definition upd_node (f : node -> node) (i : Z) (ns : list node) : list node :=
  map (fun x => if n_id x =? i then f x else x) ns.

Definition set_ready b x := mkNode (n_id x) (n_pool x) (n_managed x) (n_init x) (n_term x) b (n_marked x) (n_deleting x).
Definition set_deleting x := mkNode (n_id x) (n_pool x) (n_managed x) (n_init x) (n_term x) (n_ready x) (n_marked x) true.
Definition set_term x := mkNode (n_id x) (n_pool x) (n_managed x) (n_init x) true (n_ready x) (n_marked x) (n_deleting x).
Definition set_init x := mkNode (n_id x) (n_pool x) (n_managed x) true (n_term x) (n_ready x) (n_marked x) (n_deleting x).
Definition set_marked b x := mkNode (n_id x) (n_pool x) (n_managed x) (n_init x) (n_term x) (n_ready x) b (n_deleting x).

Definition env_step (s : sys) (e : env) : sys :=
  match e with
  | EClock t => mkSys t (s_pools s) (s_nodes s) (s_queue s)
  | EReady i b => mkSys (s_now s) (s_pools s) (upd_node (set_ready b) i (s_nodes s)) (s_queue s)
  | EDelete i => mkSys (s_now s) (s_pools s) (upd_node set_deleting i (s_nodes s)) (s_queue s)
  | ETerminated i => mkSys (s_now s) (s_pools s) (upd_node set_term i (s_nodes s)) (s_queue s)
  | EInit i => mkSys (s_now s) (s_pools s) (upd_node set_init i (s_nodes s)) (s_queue s)
  | EAdd x =>
      if existsb (fun y => n_id y =? n_id x) (s_nodes s) || in_queue s (n_id x) then s
      else mkSys (s_now s) (s_pools s) (s_nodes s ++ [set_marked false x]) (s_queue s)
  | ERemove i => mkSys (s_now s) (s_pools s) (filter (fun x => negb (n_id x =? i)) (s_nodes s)) (s_queue s)
  | EBudgets p bs =>
      mkSys (s_now s)
            (map (fun x => if p_id x =? p then mkPool (p_id x) bs (p_static x) (p_replicas x) (p_limit x) else x) (s_pools s))
            (s_nodes s) (s_queue s)
  end.

Definition env_steps (s : sys) (es : list env) : sys := fold_left env_step es s.

(* what a method proposes, given the mapping built just before *)
Inductive choice :=
| ChK (k : nat)                                   (* multi: length of the consolidated prefix *)
| ChStatic (groups : list (Z * pool_counts))      (* static drift: NodePoolState counts per pool *)
| ChSkip.                                         (* the method short-circuits (IsConsolidated cache, timeout, an error): no command *)

Definition cands_of_pool (p : Z) (cs : list cand) : list cand := filter (fun c => c_pool c =? p) cs.

Definition propose (s : sys) (m : method) (cs : list cand) (ch : choice) : list cand :=
  let mp := mapping_of s (method_reason m) in
  match m, ch with
  | _, ChSkip => []
  | MEmptiness, _ => emptiness_select mp cs
  | MMulti, ChK k => multi_select mp cs k
  | MSingle, _ => one_if_budget mp cs
  | MDrift, _ => one_if_budget mp cs
  | MStaticDrift, ChStatic groups =>
      (* lo.GroupBy: every pool name is one group *)
      if nodup_ids (map fst groups) then
        flat_map (fun g => match find_pool (s_pools s) (fst g) with
                           | Some p => static_drift_pool mp p (snd g) (cands_of_pool (fst g) cs)
                           | None => []
                           end) groups
      else []
  | _, _ => []
  end.

(* a validation pass: the proposed candidates as seen now ([cur], with nomination flags; a
   candidate that stopped being a candidate is missing from it), checked against a fresh mapping *)
Definition restrict (prop cur : list cand) : list cand :=
  filter (fun c => existsb (fun d => c_node d =? c_node c) prop) cur.

(* The reason each validator is constructed with in validation.go (NewEmptinessValidator: Empty;
   NewSingleConsolidationValidator / NewMultiConsolidationValidator: Underutilized). Drift and static
   drift have no validator. The validator rebuilds the budget mapping for THIS reason. *)
Definition validator_reason (m : method) : reason :=
  match m with
  | MEmptiness => Empty
  | MMulti | MSingle => Underutilized
  | MDrift | MStaticDrift => Drifted
  end.

(* a validator constructed with reason [r] *)
Definition validate_under (r : reason) (s : sys) (m : method) (prop cur : list cand) : list cand :=
  let mp := mapping_of s r in
  let cur' := restrict prop cur in
  match m with
  | MEmptiness => validate_filter mp cur'
  | MMulti | MSingle =>
      (* all or nothing. The command keeps its original candidates; cur' are the same nodes in
         their current representation (same length, ids among the proposed ones, no id twice) *)
      if (length cur' =? length prop)%nat && validate_all mp cur' then cur' else []
  | MDrift | MStaticDrift => prop       (* no validation step *)
  end.

Definition validate (s : sys) (m : method) (prop cur : list cand) : list cand :=
  validate_under (validator_reason m) s m prop cur.

(* Queue.StartCommand: mark the candidates, remember them in the queue *)
Definition start_command (s : sys) (sel : list cand) : sys :=
  let ids := map c_node sel in
  mkSys (s_now s) (s_pools s)
        (map (fun x => if existsb (Z.eqb (n_id x)) ids then set_marked true x else x) (s_nodes s))
        (ids ++ s_queue s).

Inductive op :=
| OEnv (e : env)
| ODisrupt (m : method) (cs : list cand) (ch : choice)
           (vok : bool)                                  (* choice: validateCommand's re-simulation agrees *)
           (between : list env) (cur1 : list cand)       (* 15 s later: first validateCandidates *)
           (between2 : list env) (cur2 : list cand)      (* consolidation re-validates once more *)
           (startfail : list Z)                          (* fault: candidates StartCommand could not mark (all of
                                                            them when the replacement launch fails) *)
| OComplete (ids : list Z) (ok : bool)     (* Queue.Reconcile finishes a command *)
| ORestart.                                (* process restart: queue and marks are lost *)

(* the final selection of one disrupt call and the state in which it was (last) validated *)
Definition disrupt_sel (s : sys) (m : method) (cs : list cand) (ch : choice) (vok : bool)
           (between : list env) (cur1 : list cand) (between2 : list env) (cur2 : list cand)
  : list cand * sys :=
  if negb (cands_ok s cs) then ([], s) else
  let prop := propose s m cs ch in
  match m with
  | MDrift | MStaticDrift => (prop, s)
  | MEmptiness =>
      let s1 := env_steps s between in
      if negb (cands_ok s1 cur1) then ([], s1) else (validate s1 m prop cur1, s1)
  | MMulti | MSingle =>
      let s1 := env_steps s between in
      if negb (cands_ok s1 cur1) then ([], s1) else
      match validate s1 m prop cur1 with
      | [] => ([], s1)
      | v1 =>
          if negb vok then ([], s1) else     (* validateCommand: scheduling simulation changed *)
          let s2 := env_steps s1 between2 in
          if negb (cands_ok s2 cur2) then ([], s2) else (validate s2 m v1 cur2, s2)
      end
  end.

Definition step (s : sys) (o : op) : sys :=
  match o with
  | OEnv e => env_step s e
  | ODisrupt m cs ch vok b1 c1 b2 c2 startfail =>
      let '(sel, s') := disrupt_sel s m cs ch vok b1 c1 b2 c2 in
      start_command s' (filter (fun c => negb (existsb (Z.eqb (c_node c)) startfail)) sel)
  | OComplete ids ok =>
      let q := filter (fun i => negb (existsb (Z.eqb i) ids)) (s_queue s) in
      if ok then
        (* the candidates' NodeClaims were deleted through the API; CompleteCommand keeps the in-memory
           mark (the `!cmd.Succeeded` guard), and cluster state learns of the deletionTimestamp only
           when the informer delivers it: that is a later, separate [EDelete] event *)
        mkSys (s_now s) (s_pools s) (s_nodes s) q
      else
        (* CompleteCommand on failure: UnmarkForDeletion *)
        mkSys (s_now s) (s_pools s)
              (map (fun x => if existsb (Z.eqb (n_id x)) ids then set_marked false x else x) (s_nodes s)) q
  | ORestart =>
      mkSys (s_now s) (s_pools s) (map (set_marked false) (s_nodes s)) []
  end.

Definition run (s : sys) (ops : list op) : sys := fold_left step ops s.

End Budgets.

Arguments SNil {sid}.
Arguments SBad {sid}.
Arguments SCron {sid} s.
Arguments mkBudget {sid} _ _ _ _.
Arguments b_reasons {sid} _.
Arguments b_nodes {sid} _.
Arguments b_sched {sid} _.
Arguments b_dur {sid} _.
Arguments mkPool {sid} _ _ _ _ _.
Arguments p_id {sid} _.
Arguments p_budgets {sid} _.
Arguments p_static {sid} _.
Arguments p_replicas {sid} _.
Arguments p_limit {sid} _.
Arguments applies {sid} _ _.
Arguments applies_nil_only {sid} _ _.
Arguments find_pool {sid} _ _.
Arguments static_drift_pool {sid} _ _ _ _.
Arguments mkSys {sid} _ _ _ _.
Arguments s_now {sid} _.
Arguments s_pools {sid} _.
Arguments s_nodes {sid} _.
Arguments s_queue {sid} _.
Arguments in_queue {sid} _ _.
Arguments eligible {sid} _ _.
Arguments find_node {sid} _ _.
Arguments cand_ok {sid} _ _.
Arguments cands_ok {sid} _ _.
Arguments EClock {sid} _.
Arguments EReady {sid} _ _.
Arguments EDelete {sid} _.
Arguments ETerminated {sid} _.
Arguments EInit {sid} _.
Arguments EAdd {sid} _.
Arguments ERemove {sid} _.
Arguments EBudgets {sid} _ _.
Arguments env_step {sid} _ _.
Arguments env_steps {sid} _ _.
Arguments start_command {sid} _ _.
Arguments OEnv {sid} _.
Arguments ODisrupt {sid} _ _ _ _ _ _ _ _ _.
Arguments OComplete {sid} _ _.
Arguments ORestart {sid}.
